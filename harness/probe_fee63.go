package main

import (
	"fmt"
	"time"

	sdk "github.com/cosmos/cosmos-sdk/types"
	authtypes "github.com/cosmos/cosmos-sdk/x/auth/types"
	govv1 "github.com/cosmos/cosmos-sdk/x/gov/types/v1"

	wrktypes "github.com/unification-com/mainchain/x/wrkchain/types"
)

// one-off probe (not a check): a registration fee of 2^63 is accepted by governance; what happens to register txs then?
func cmdProbeFee63() {
	s := &scen{c: newChain(fixedCfg()), name: "probe-fee-2^63"}
	defer s.c.close()
	c := s.c
	gov := authtypes.NewModuleAddress("gov").String()
	s.blockStart(5 * time.Second)
	wp := wrktypes.NewParams(1<<63, 10, 5, "nund", 2, 5)
	fmt.Println("Params.Validate:", wp.Validate())
	prop, _ := govv1.NewMsgSubmitProposal([]sdk.Msg{&wrktypes.MsgUpdateParams{Authority: gov, Params: wp}}, sdk.NewCoins(sdk.NewInt64Coin("stake", 10)), c.govActor.addr.String(), "", "t", "s")
	r, _ := c.deliver(txSpec{msgs: []sdk.Msg{prop}, signers: []acct{c.govActor}})
	fmt.Println("submit:", r.Code, firstLine(r.Log))
	c.deliver(txSpec{msgs: []sdk.Msg{govv1.NewMsgVote(c.govActor.addr, 1, govv1.OptionYes, "")}, signers: []acct{c.govActor}})
	s.blockEnd()
	s.blockStart(30 * time.Second)
	s.blockEnd()
	fmt.Println("stored fee:", c.app.WrkchainKeeper.GetParams(c.committedCtx()).FeeRegister)
	reg := wrktypes.NewMsgRegisterWrkChain("mon", "gh", "name", "geth", c.addrOf(2))
	res, _ := c.check(txSpec{msgs: []sdk.Msg{reg}, fee: nundCoins(1000), signers: []acct{c.accts[2]}})
	fmt.Println("CheckTx register:", res.Code, res.Codespace, firstLine(res.Log))
}
