package main

import (
	"encoding/json"
	"fmt"
	"math/big"
	"os"
	"strings"
	"time"

	dbm "github.com/cometbft/cometbft-db"
	abci "github.com/cometbft/cometbft/abci/types"
	"github.com/cometbft/cometbft/libs/log"
	tmproto "github.com/cometbft/cometbft/proto/tendermint/types"
	tmtypes "github.com/cometbft/cometbft/types"
	"github.com/cosmos/cosmos-sdk/baseapp"
	"github.com/cosmos/cosmos-sdk/client/flags"
	cosmosed "github.com/cosmos/cosmos-sdk/crypto/keys/ed25519"
	"github.com/cosmos/cosmos-sdk/crypto/keys/secp256k1"
	cryptotypes "github.com/cosmos/cosmos-sdk/crypto/types"
	"github.com/cosmos/cosmos-sdk/server"
	simtestutil "github.com/cosmos/cosmos-sdk/testutil/sims"
	sdk "github.com/cosmos/cosmos-sdk/types"
	"github.com/cosmos/cosmos-sdk/types/tx/signing"
	authsign "github.com/cosmos/cosmos-sdk/x/auth/signing"
	authtypes "github.com/cosmos/cosmos-sdk/x/auth/types"
	vestingtypes "github.com/cosmos/cosmos-sdk/x/auth/vesting/types"
	banktypes "github.com/cosmos/cosmos-sdk/x/bank/types"
	govv1 "github.com/cosmos/cosmos-sdk/x/gov/types/v1"
	"github.com/cosmos/ibc-go/v7/testing/mock"

	"github.com/unification-com/mainchain/app"
	undtypes "github.com/unification-com/mainchain/types"
	bcntypes "github.com/unification-com/mainchain/x/beacon/types"
	enttypes "github.com/unification-com/mainchain/x/enterprise/types"
	strtypes "github.com/unification-com/mainchain/x/stream/types"
	wrktypes "github.com/unification-com/mainchain/x/wrkchain/types"
)

const chainID = "verif-chain"

var denoms = []string{"nund", "stake", "atest"} // model denominations 0, 1, 2

func denomIndex(d string) int {
	for i, x := range denoms {
		if x == d {
			return i
		}
	}
	return -1
}

type acct struct {
	priv cryptotypes.PrivKey
	addr sdk.AccAddress
}

// Module accounts as the model names them.
const (
	mEnt    = -1
	mStream = -2
	mFee    = -3
	mDistr  = -4
	mGov    = -5
)

type chainCfg struct {
	nAcc                        int
	entParams                   enttypes.Params
	wrkParams                   wrktypes.Params
	bcnParams                   bcntypes.Params
	strValFee                   sdk.Dec
	whitelist                   []int
	votingSecs                  int
	vesting                     map[int]int64 // account index -> original vesting amount of nund (continuous vesting)
	dbBackend                   string        // "memdb" or "goleveldb"
	dbDir                       string
	startPO, startWrk, startBcn uint64    // starting ids of the genesis document when non-zero (default 1)
	extraCoins                  sdk.Coins // added to the genesis balance of account 0 (denominations outside the model; designated scenarios only)
}

type chain struct {
	cfg      chainCfg
	app      *app.App
	db       dbm.DB
	appOpts  simtestutil.AppOptionsMap
	valSet   *tmtypes.ValidatorSet
	height   int64
	now      time.Time
	accts    []acct // model accounts 0..n-1
	govActor acct   // delegator / proposer / voter; not part of the model
	inBlock  bool
	started  time.Time
	addrIdx  map[string]int
	// recording for twin / restart replays
	genesisBytes []byte
	genesisTime  time.Time
	blocks       []blockRec
	results      []blockRes
}

type blockRec struct {
	TimeNs int64    `json:"time_ns"`
	Txs    [][]byte `json:"txs"`
}

type txRes struct {
	Code      uint32 `json:"code"`
	Codespace string `json:"codespace"`
	Data      []byte `json:"data"`
	GasWanted int64  `json:"gas_wanted"`
	GasUsed   int64  `json:"gas_used"`
}

type blockRes struct {
	Height   int64   `json:"height"`
	AppHash  []byte  `json:"app_hash"`
	Txs      []txRes `json:"txs"`
	Reopened bool    `json:"reopened"` // the application object was re-created from the database before or during this block
}

func setBech32() {
	config := sdk.GetConfig()
	if config.GetBech32AccountAddrPrefix() != undtypes.Bech32PrefixAccAddr {
		app.SetConfig()
	}
}

func mkAcct(seed string) acct {
	pk := secp256k1.GenPrivKeyFromSecret([]byte(seed))
	return acct{pk, sdk.AccAddress(pk.PubKey().Address())}
}

func moduleAddr(name string) sdk.AccAddress { return authtypes.NewModuleAddress(name) }

func bigPow2(n uint) sdk.Int { return sdk.NewIntFromBigInt(new(big.Int).Lsh(big.NewInt(1), n)) }

func initialBalances() sdk.Coins {
	return sdk.NewCoins(
		sdk.NewCoin("nund", sdk.NewInt(1_000_000_000_000_000)),
		sdk.NewCoin("stake", sdk.NewInt(1_000_000_000_000)),
		sdk.NewCoin("atest", bigPow2(120)),
	)
}

func openDB(cfg chainCfg) dbm.DB {
	if cfg.dbBackend == "goleveldb" {
		db, err := dbm.NewDB("application", dbm.GoLevelDBBackend, cfg.dbDir)
		if err != nil {
			panic(err)
		}
		return db
	}
	return dbm.NewMemDB()
}

func newChain(cfg chainCfg) *chain {
	setBech32()
	c := &chain{cfg: cfg, addrIdx: map[string]int{}}
	c.db = openDB(cfg)
	c.appOpts = make(simtestutil.AppOptionsMap, 0)
	home := cfg.dbDir
	if home == "" {
		home = os.TempDir()
	}
	c.appOpts[flags.FlagHome] = home
	c.appOpts[server.FlagInvCheckPeriod] = uint(0)
	a := app.NewApp(log.NewNopLogger(), c.db, nil, true, c.appOpts, baseapp.SetChainID(chainID))
	c.app = a
	gs := a.DefaultGenesis()

	privVal := mock.PV{PrivKey: cosmosed.GenPrivKeyFromSecret([]byte("verif-validator-seed"))}
	pubKey, _ := privVal.GetPubKey()
	validator := tmtypes.NewValidator(pubKey, 1)
	c.valSet = tmtypes.NewValidatorSet([]*tmtypes.Validator{validator})

	c.govActor = mkAcct("verif-gov-actor-seed-0123456789")
	var genAccs []authtypes.GenesisAccount
	var bals []banktypes.Balance
	genAccs = append(genAccs, authtypes.NewBaseAccount(c.govActor.addr, nil, 0, 0))
	bals = append(bals, banktypes.Balance{Address: c.govActor.addr.String(), Coins: initialBalances()})
	for i := 0; i < cfg.nAcc; i++ {
		ac := mkAcct(fmt.Sprintf("verif-acct-%d-seed-0123456789abcdef", i))
		c.accts = append(c.accts, ac)
		c.addrIdx[ac.addr.String()] = i
		if v, ok := cfg.vesting[i]; ok {
			start := time.Unix(1700000000, 0).Unix()
			genAccs = append(genAccs, vestingtypes.NewContinuousVestingAccount(authtypes.NewBaseAccount(ac.addr, nil, 0, 0),
				sdk.NewCoins(sdk.NewInt64Coin("nund", v)), start, start+10_000_000))
		} else {
			genAccs = append(genAccs, authtypes.NewBaseAccount(ac.addr, nil, 0, 0))
		}
		coins := initialBalances()
		if i == 0 && !cfg.extraCoins.Empty() {
			coins = coins.Add(cfg.extraCoins...)
		}
		bals = append(bals, banktypes.Balance{Address: ac.addr.String(), Coins: coins})
	}
	c.addrIdx[moduleAddr(enttypes.ModuleName).String()] = mEnt
	c.addrIdx[moduleAddr(strtypes.ModuleName).String()] = mStream
	c.addrIdx[moduleAddr(authtypes.FeeCollectorName).String()] = mFee
	c.addrIdx[moduleAddr("distribution").String()] = mDistr
	c.addrIdx[moduleAddr("gov").String()] = mGov

	gs, err := simtestutil.GenesisStateWithValSet(a.AppCodec(), gs, c.valSet, genAccs, bals...)
	if err != nil {
		panic(err)
	}
	eg := enttypes.DefaultGenesisState()
	eg.Params = cfg.entParams
	for _, w := range cfg.whitelist {
		eg.Whitelist = append(eg.Whitelist, c.accts[w].addr.String())
	}
	if cfg.startPO != 0 {
		eg.StartingPurchaseOrderId = cfg.startPO
	}
	gs[enttypes.ModuleName] = a.AppCodec().MustMarshalJSON(eg)
	wg := wrktypes.DefaultGenesisState()
	wg.Params = cfg.wrkParams
	if cfg.startWrk != 0 {
		wg.StartingWrkchainId = cfg.startWrk
	}
	gs[wrktypes.ModuleName] = a.AppCodec().MustMarshalJSON(wg)
	bg := bcntypes.DefaultGenesisState()
	bg.Params = cfg.bcnParams
	if cfg.startBcn != 0 {
		bg.StartingBeaconId = cfg.startBcn
	}
	gs[bcntypes.ModuleName] = a.AppCodec().MustMarshalJSON(bg)
	sg := strtypes.DefaultGenesis()
	sg.Params = strtypes.NewParams(cfg.strValFee)
	gs[strtypes.ModuleName] = a.AppCodec().MustMarshalJSON(sg)
	// fast governance
	var gg govv1.GenesisState
	a.AppCodec().MustUnmarshalJSON(gs["gov"], &gg)
	vp := time.Duration(cfg.votingSecs) * time.Second
	gg.Params.VotingPeriod = &vp
	md := 2 * vp
	gg.Params.MaxDepositPeriod = &md
	gg.Params.MinDeposit = sdk.NewCoins(sdk.NewInt64Coin("stake", 1))
	gs["gov"] = a.AppCodec().MustMarshalJSON(&gg)

	stateBytes, _ := json.MarshalIndent(gs, "", " ")
	c.now = time.Unix(1700000000, 0).UTC()
	c.started = c.now
	c.genesisBytes = stateBytes
	c.genesisTime = c.now
	a.InitChain(abci.RequestInitChain{
		ChainId:         chainID,
		Time:            c.now,
		Validators:      []abci.ValidatorUpdate{},
		ConsensusParams: simtestutil.DefaultConsensusParams,
		AppStateBytes:   stateBytes,
	})
	a.Commit()
	c.height = a.LastBlockHeight()
	// one empty block so that the check state has a real height (signature checks use account numbers)
	c.begin(time.Second)
	c.end(nil)
	c.commit()
	return c
}

func (c *chain) close() {
	c.db.Close()
	if c.cfg.dbDir != "" {
		os.RemoveAll(c.cfg.dbDir)
	}
}

func (c *chain) header() tmproto.Header {
	return tmproto.Header{ChainID: chainID, Height: c.height, Time: c.now,
		AppHash: c.app.LastCommitID().Hash, ValidatorsHash: c.valSet.Hash(), NextValidatorsHash: c.valSet.Hash()}
}

// begin starts the next block dt after the previous one; returns a recovered panic value, if any.
func (c *chain) begin(dt time.Duration) (panicked interface{}) {
	defer func() {
		if r := recover(); r != nil {
			panicked = r
		}
	}()
	c.height++
	c.now = c.now.Add(dt)
	c.inBlock = true
	c.blocks = append(c.blocks, blockRec{TimeNs: c.now.UnixNano()})
	c.results = append(c.results, blockRes{Height: c.height})
	c.app.BeginBlock(abci.RequestBeginBlock{Header: c.header()})
	return nil
}

func (c *chain) end(_ interface{}) (panicked interface{}) {
	defer func() {
		if r := recover(); r != nil {
			panicked = r
		}
	}()
	c.app.EndBlock(abci.RequestEndBlock{Height: c.height})
	return nil
}

func (c *chain) commit() []byte {
	r := c.app.Commit()
	c.inBlock = false
	if n := len(c.results); n > 0 {
		c.results[n-1].AppHash = r.Data
	}
	return r.Data
}

// ctx returns the deliver-state context inside a block, the check-state context otherwise.
func (c *chain) ctx() sdk.Context {
	return c.app.BaseApp.NewContext(!c.inBlock, tmproto.Header{ChainID: chainID, Height: c.height, Time: c.now})
}

// committedCtx reads the last committed state (the check state may carry ante effects of CheckTx calls)
func (c *chain) committedCtx() sdk.Context {
	ctx, err := c.app.BaseApp.CreateQueryContext(c.app.LastBlockHeight(), false)
	if err != nil {
		panic(err)
	}
	return ctx
}

func (c *chain) ctxFor(check bool) sdk.Context {
	return c.app.BaseApp.NewContext(check, tmproto.Header{ChainID: chainID, Height: c.height, Time: c.now})
}

type txSpec struct {
	msgs     []sdk.Msg
	fee      sdk.Coins
	signers  []acct // keys used to sign, in GetSigners order (wrong keys for the negative stream)
	granter  sdk.AccAddress
	payer    sdk.AccAddress // explicit AuthInfo.Fee.Payer (its key must be among signers, after the message signers)
	seqDelta int            // added to every signer's sequence (1 = wrong sequence)
	gas      uint64
}

// buildTx signs like simtestutil.GenSignedMockTx, plus an optional fee granter; memo is empty.
func (c *chain) buildTx(check bool, ts txSpec) ([]byte, error) {
	ctx := c.ctxFor(check)
	txCfg := c.app.TxConfig()
	signMode := txCfg.SignModeHandler().DefaultMode()
	sigs := make([]signing.SignatureV2, len(ts.signers))
	accNums := make([]uint64, len(ts.signers))
	seqs := make([]uint64, len(ts.signers))
	for i, s := range ts.signers {
		acc := c.app.AccountKeeper.GetAccount(ctx, s.addr)
		if acc != nil {
			accNums[i] = acc.GetAccountNumber()
			seqs[i] = acc.GetSequence() + uint64(ts.seqDelta)
		}
		sigs[i] = signing.SignatureV2{PubKey: s.priv.PubKey(), Data: &signing.SingleSignatureData{SignMode: signMode}, Sequence: seqs[i]}
	}
	tb := txCfg.NewTxBuilder()
	if err := tb.SetMsgs(ts.msgs...); err != nil {
		return nil, err
	}
	if err := tb.SetSignatures(sigs...); err != nil {
		return nil, err
	}
	tb.SetFeeAmount(ts.fee)
	gas := ts.gas
	if gas == 0 {
		gas = 5_000_000
	}
	tb.SetGasLimit(gas)
	if ts.granter != nil {
		tb.SetFeeGranter(ts.granter)
	}
	if ts.payer != nil {
		tb.SetFeePayer(ts.payer)
	}
	for i, s := range ts.signers {
		sd := authsign.SignerData{Address: sdk.AccAddress(s.priv.PubKey().Address()).String(), ChainID: chainID,
			AccountNumber: accNums[i], Sequence: seqs[i], PubKey: s.priv.PubKey()}
		signBytes, err := txCfg.SignModeHandler().GetSignBytes(signMode, sd, tb.GetTx())
		if err != nil {
			return nil, err
		}
		sig, err := s.priv.Sign(signBytes)
		if err != nil {
			return nil, err
		}
		sigs[i].Data.(*signing.SingleSignatureData).Signature = sig
	}
	if err := tb.SetSignatures(sigs...); err != nil {
		return nil, err
	}
	return txCfg.TxEncoder()(tb.GetTx())
}

type txResult struct {
	Code      uint32
	Codespace string
	Log       string
	GasUsed   int64
	GasWanted int64
	Data      []byte
	Events    []abci.Event
}

func (c *chain) deliver(ts txSpec) (txResult, []byte) {
	bz, err := c.buildTx(false, ts)
	if err != nil {
		return txResult{Code: 999999, Codespace: "harness", Log: err.Error()}, nil
	}
	r := c.app.DeliverTx(abci.RequestDeliverTx{Tx: bz})
	if n := len(c.blocks); n > 0 {
		c.blocks[n-1].Txs = append(c.blocks[n-1].Txs, bz)
		c.results[n-1].Txs = append(c.results[n-1].Txs, txRes{r.Code, r.Codespace, r.Data, r.GasWanted, r.GasUsed})
	}
	return txResult{r.Code, r.Codespace, r.Log, r.GasUsed, r.GasWanted, r.Data, r.Events}, bz
}

func (c *chain) check(ts txSpec) (txResult, []byte) {
	bz, err := c.buildTx(true, ts)
	if err != nil {
		return txResult{Code: 999999, Codespace: "harness", Log: err.Error()}, nil
	}
	r := c.app.CheckTx(abci.RequestCheckTx{Tx: bz, Type: abci.CheckTxType_New})
	return txResult{r.Code, r.Codespace, r.Log, r.GasUsed, r.GasWanted, r.Data, r.Events}, bz
}

// resClass maps an ABCI result to the model's observable classes:
// 0 ok, 1 error, 2 panic, 50 wrong fee denom, 51 insufficient fee, 52 too much fee, 54 exceeds max storage.
func resClass(r txResult) int {
	if r.Code == 0 {
		return 0
	}
	if r.Codespace == "undefined" && r.Code == 111222 {
		return 2
	}
	type ec struct {
		space string
		code  uint32
		cls   int
	}
	for _, e := range []ec{
		{wrktypes.ModuleName, wrktypes.ErrIncorrectFeeDenomination.ABCICode(), 50},
		{wrktypes.ModuleName, wrktypes.ErrInsufficientWrkChainFee.ABCICode(), 51},
		{wrktypes.ModuleName, wrktypes.ErrTooMuchWrkChainFee.ABCICode(), 52},
		{wrktypes.ModuleName, wrktypes.ErrExceedsMaxStorage.ABCICode(), 54},
		{bcntypes.ModuleName, bcntypes.ErrIncorrectFeeDenomination.ABCICode(), 50},
		{bcntypes.ModuleName, bcntypes.ErrInsufficientBeaconFee.ABCICode(), 51},
		{bcntypes.ModuleName, bcntypes.ErrTooMuchBeaconFee.ABCICode(), 52},
		{bcntypes.ModuleName, bcntypes.ErrExceedsMaxStorage.ABCICode(), 54},
	} {
		if r.Codespace == e.space && r.Code == e.code {
			return e.cls
		}
	}
	return 1
}

func (c *chain) idx(addr string) int {
	if i, ok := c.addrIdx[addr]; ok {
		return i
	}
	if i, ok := c.addrIdx[strings.ToLower(addr)]; ok {
		return i
	}
	return -999
}

func nundCoins(n int64) sdk.Coins {
	if n == 0 {
		return sdk.Coins{}
	}
	return sdk.NewCoins(sdk.NewInt64Coin("nund", n))
}

func timeNs(t time.Time) *big.Int {
	x := new(big.Int).Mul(big.NewInt(t.Unix()), big.NewInt(1_000_000_000))
	return x.Add(x, big.NewInt(int64(t.Nanosecond())))
}
