package main

import (
	"flag"
	"fmt"
	"path/filepath"
	"sort"
	"strings"
)

// cmdChain: random structured histories on the real application; one Coq trace per history.
func cmdChain(args []string) {
	fs := flag.NewFlagSet("chain", flag.ExitOnError)
	out := fs.String("out", ".", "output directory")
	n := fs.Int("n", 20, "number of histories")
	blocks := fs.Int("blocks", 8, "blocks per history")
	focus := fs.String("focus", "mixed", "weight set: mixed, ent, reg, stream, fees (comma separated: cycled)")
	per := fs.Int("shard", 4, "traces per Coq file")
	props := fs.String("props", "", "comma separated property ids whose Go monitors count (empty = all)")
	bigexport := fs.Bool("bigexport", false, "also run the 20,001+-record export scenario (slow)")
	entenum := fs.Int("entenum", 0, "number of small-scope enumeration chains for C03 (0 = none, 216 = all)")
	fs.Parse(args)
	seed := seedFromEnv()
	focuses := strings.Split(*focus, ",")
	want := map[string]bool{}
	for _, p := range strings.Split(*props, ",") {
		if p != "" {
			want[p] = true
		}
	}

	var failures []monFailure
	scenarioFailures := runScenarios()
	if *bigexport {
		scenarioFailures = append(scenarioFailures, scenBigExport()...)
	}
	for _, f := range scenarioFailures {
		if len(want) == 0 || want[f.Property] {
			failures = append(failures, f)
		}
	}
	var traces []string
	kinds := map[string]int{}
	results := map[string]int{}
	flags := map[string]int{}
	totalOps, totalTx, totalOk := 0, 0, 0
	distinct := map[string]bool{}
	nontrivial := 0
	var samples []string
	absorb := func(h *history, i int) {
		for k, v := range h.kinds {
			kinds[k] += v
		}
		for k, v := range h.results {
			results[k] += v
		}
		for k, v := range h.flags {
			flags[k] += v
		}
		for _, f := range h.mon.failures {
			f.History = i
			if len(want) == 0 || want[f.Property] {
				failures = append(failures, f)
			}
		}
		totalOps += h.nOps
		totalTx += h.nTx
		totalOk += h.nOk
	}
	if *entenum > 0 {
		all := allEntEnumCfgs()
		for j := 0; j < *entenum && j < len(all); j++ {
			e := all[(int(seed)*37+j*(len(all) / *entenum + 1))%len(all)]
			if *entenum >= len(all) {
				e = all[j]
			}
			h, tr := runEntEnum(e, newRng(seed*31+uint64(j)))
			traces = append(traces, tr)
			absorb(h, 10000+j)
			nontrivial++
		}
	}
	for i := 0; i < *n; i++ {
		r := newRng(seed*1_000_003 + uint64(i))
		fname := focuses[i%len(focuses)]
		w, ok := focusWeights[fname]
		if !ok {
			panic("unknown focus " + fname)
		}
		c := newChain(randCfg(r, w.tinyLimits))
		h := newHistory(c, r, w)
		h.focus = fname
		tr := h.run(*blocks)
		c.close()
		traces = append(traces, tr)
		absorb(h, i)
		key := fmt.Sprintf("%x", hashString(strings.Join(h.items, "|")))
		if !distinct[key] && h.nOk >= 3 {
			nontrivial++
		}
		distinct[key] = true
		if len(samples) < 2 && len(h.items) > 3 {
			s := strings.Join(h.items[:4], " ;; ")
			if len(s) > 1500 {
				s = s[:1500] + "…"
			}
			samples = append(samples, s)
		}
	}
	var files []string
	for i, sh := range shard(traces, *per) {
		name := fmt.Sprintf("cases_chain_%d.v", i)
		var sb strings.Builder
		sb.WriteString("From MC Require Import lib.Prelude lib.AMap model.Bank model.Stream model.Registry model.Enterprise model.App model.AppCheck.\nOpen Scope string_scope.\nOpen Scope Z_scope.\n")
		sb.WriteString("Definition cases : list trace :=\n " + coqList(sh) + ".\n")
		sb.WriteString("Definition bad_corr := Eval vm_compute in traces_bad_corr 0 cases.\nPrint bad_corr.\n")
		sb.WriteString("Definition bad_mon : list nat := [].\nPrint bad_mon.\n")
		sb.WriteString("Definition stat_first_bad := Eval vm_compute in traces_first_bad cases.\nPrint stat_first_bad.\n")
		writeFile(filepath.Join(*out, name), sb.String())
		files = append(files, name)
	}
	degenerate := ""
	if totalTx > 50 && totalOk*100 < totalTx*35 {
		degenerate = fmt.Sprintf("only %d of %d delivered transactions succeeded", totalOk, totalTx)
	}
	var ks []string
	for k := range kinds {
		ks = append(ks, k)
	}
	sort.Strings(ks)
	st := map[string]interface{}{
		"files": files, "evaluations": totalOps, "distinct_nontrivial": nontrivial,
		"rule": "structured random histories on the real application (BeginBlock/DeliverTx/EndBlock/Commit/CheckTx with signed transactions, governance by real proposals); state-aware generators aim most operations at existing orders / registrations / streams, a separate stream of malformed ones (unknown ids, non-owners, bad signatures, wrong fees, overflowing counts); evaluations = operations executed; a history is non-trivial when at least 3 delivered transactions succeeded; distinct by hash of the operation+observation sequence",
		"distribution": map[string]interface{}{"focus": *focus, "histories": *n, "blocks_per_history": *blocks, "operations": totalOps,
			"delivered_txs": totalTx, "delivered_ok": totalOk, "by_message_kind": kinds, "by_result_class": results, "events": flags},
		"samples":             samples,
		"go_monitor_failures": failures,
	}
	if degenerate != "" {
		st["degenerate"] = degenerate
	}
	writeJSON(filepath.Join(*out, "stats_chain.json"), st)
}

func hashString(s string) uint64 {
	var h uint64 = 1469598103934665603
	for i := 0; i < len(s); i++ {
		h ^= uint64(s[i])
		h *= 1099511628211
	}
	return h
}
