package main

import (
	"encoding/json"
	"fmt"
	"sort"

	dbm "github.com/cometbft/cometbft-db"
	abci "github.com/cometbft/cometbft/abci/types"
	"github.com/cometbft/cometbft/libs/log"
	tmproto "github.com/cometbft/cometbft/proto/tendermint/types"
	"github.com/cosmos/cosmos-sdk/baseapp"
	sdk "github.com/cosmos/cosmos-sdk/types"

	"github.com/unification-com/mainchain/app"
)

var ownModules = []string{"enterprise", "wrkchain", "beacon", "stream"}

func canonicalJSON(raw json.RawMessage) string {
	var v interface{}
	if err := json.Unmarshal(raw, &v); err != nil {
		return string(raw)
	}
	bz, _ := json.Marshal(v) // map keys are sorted by encoding/json
	return string(bz)
}

func moduleDocs(appState []byte) map[string]string {
	var g map[string]json.RawMessage
	json.Unmarshal(appState, &g)
	out := map[string]string{}
	for _, m := range ownModules {
		out[m] = canonicalJSON(g[m])
	}
	return out
}

// reimport exports the application state, starts a fresh application from the exported document (genesis
// invariants ON, as a node started normally would), re-exports, and switches the chain to the new application.
// It returns the old application (kept as a shadow for the bisimulation check) and a list of problems.
func (c *chain) reimport() (old *app.App, problems []string) {
	exp, err := c.app.ExportAppStateAndValidators(false, nil, nil)
	if err != nil {
		return nil, []string{"export failed: " + err.Error()}
	}
	db2 := dbm.NewMemDB()
	a2 := app.NewApp(log.NewNopLogger(), db2, nil, true, c.appOpts, baseapp.SetChainID(chainID))
	var pan interface{}
	func() {
		defer func() { pan = recover() }()
		a2.InitChain(abci.RequestInitChain{ChainId: chainID, Time: c.now, Validators: []abci.ValidatorUpdate{},
			ConsensusParams: exp.ConsensusParams, AppStateBytes: exp.AppState, InitialHeight: exp.Height})
		a2.Commit()
	}()
	if pan != nil {
		return nil, []string{fmt.Sprint("InitChain from the exported state panicked: ", pan)}
	}
	exp2, err := a2.ExportAppStateAndValidators(false, nil, nil)
	if err != nil {
		problems = append(problems, "re-export failed: "+err.Error())
	} else {
		d1, d2 := moduleDocs(exp.AppState), moduleDocs(exp2.AppState)
		for _, m := range ownModules {
			if d1[m] != d2[m] {
				problems = append(problems, fmt.Sprintf("module %s: exporting again gives a different document (%d vs %d bytes)", m, len(d1[m]), len(d2[m])))
			}
		}
	}
	func() {
		defer func() {
			if r := recover(); r != nil {
				problems = append(problems, fmt.Sprint("a registered invariant is broken after import: ", r))
			}
		}()
		a2.CrisisKeeper.AssertInvariants(a2.BaseApp.NewContext(true, tmproto.Header{ChainID: chainID, Height: a2.LastBlockHeight()}))
	}()
	// the query servers answer alike on both chains (every list query, the per-account and per-record point queries)
	var people []sdk.AccAddress
	for _, ac := range c.accts {
		people = append(people, ac.addr)
	}
	q1, q2 := queryDigest(c.app, people), queryDigest(a2, people)
	nq := 0
	for _, k := range sortedStrings(q1) {
		if q1[k] != q2[k] && nq < 4 {
			nq++
			problems = append(problems, fmt.Sprintf("query %s answers differently on the chain started from the exported state: %.300s  vs  %.300s", k, q1[k], q2[k]))
		}
	}
	for _, k := range sortedStrings(q2) {
		if _, ok := q1[k]; !ok && nq < 4 {
			nq++
			problems = append(problems, fmt.Sprintf("query %s is answered only on the chain started from the exported state: %.300s", k, q2[k]))
		}
	}
	old = c.app
	c.app = a2
	c.db = db2
	c.height = a2.LastBlockHeight()
	c.inBlock = false
	return old, problems
}

func sortedStrings(m map[string]string) []string {
	var ks []string
	for k := range m {
		ks = append(ks, k)
	}
	sort.Strings(ks)
	return ks
}
