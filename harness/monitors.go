package main

import (
	"fmt"
	"github.com/cosmos/cosmos-sdk/x/authz"
	"math/big"
	"sort"
	"strings"

	sdk "github.com/cosmos/cosmos-sdk/types"
	"github.com/cosmos/cosmos-sdk/types/query"
	banktypes "github.com/cosmos/cosmos-sdk/x/bank/types"

	bcntypes "github.com/unification-com/mainchain/x/beacon/types"
	enttypes "github.com/unification-com/mainchain/x/enterprise/types"
	strtypes "github.com/unification-com/mainchain/x/stream/types"
	wrktypes "github.com/unification-com/mainchain/x/wrkchain/types"
)

// monitors evaluate the properties directly on the real application (independent of the Coq
// model).  A failure carries the property id, a known-finding class (0 = none) and a description
// precise enough to replay (history seed + operation index).
type monFailure struct {
	Property string `json:"property"`
	Class    int    `json:"class"`
	OpIndex  int    `json:"op_index"`
	What     string `json:"what"`
	History  int    `json:"history"`
}

type monitors struct {
	h        *history
	failures []monFailure
	// C02: supply before the current step
	supplyBefore map[string]sdk.Int
	acceptedAmt  sdk.Int
	// C07: every accepted record, as first read back
	recLog map[string]string
	// C03: terminal orders as first seen
	terminal map[uint64]string
	// C05: locked per account before the tx
	lockedBefore map[int]sdk.Int
	spentBefore  map[int]sdk.Int
	digestBefore string
	strBefore    *strSnap
	// C06: payer funds in the check state before CheckTx
	checkLiquid sdk.Int
	checkLocked sdk.Int
	// C03: raised orders before BeginBlock
	raisedBefore   []enttypes.EnterpriseUndPurchaseOrder
	acceptedBefore []enttypes.EnterpriseUndPurchaseOrder
	paramsBefore   enttypes.Params
	lockedAtBegin  map[string]sdk.Int
	// C09: static registration fields as first seen
	regStatic map[string]string
	regNext   map[bool]uint64
	// C08: limits before the tx
	limitBefore map[string]uint64
	lastBefore  map[string]uint64 // C07: last recorded height / timestamp id per registration
	purchased   map[string]uint64 // C08: slots bought per registration by the transaction just delivered (as submitted)
	// C13: entitlement of a single top-level message, evaluated before the tx
	entitledBefore int // -1 unknown / not applicable, 0 no, 1 yes
	entitledRole   string
}

func newMonitors(h *history) *monitors {
	return &monitors{h: h, recLog: map[string]string{}, terminal: map[uint64]string{}, regStatic: map[string]string{}, regNext: map[bool]uint64{}, limitBefore: map[string]uint64{}, lastBefore: map[string]uint64{}, entitledBefore: -1}
}

func (m *monitors) fail(prop string, class int, what string) {
	if len(m.failures) < 50 {
		m.failures = append(m.failures, monFailure{Property: prop, Class: class, OpIndex: m.h.nOps, What: what})
	}
}

func (m *monitors) supplies() map[string]sdk.Int {
	out := map[string]sdk.Int{}
	ctx := m.h.c.ctx()
	for _, d := range denoms {
		out[d] = m.h.c.app.BankKeeper.GetSupply(ctx, d).Amount
	}
	return out
}

func (m *monitors) beforeBegin() {
	c := m.h.c
	// the block has not begun: read the committed state
	ctx := c.committedCtx()
	m.supplyBefore = map[string]sdk.Int{}
	for _, d := range denoms {
		m.supplyBefore[d] = c.app.BankKeeper.GetSupply(ctx, d).Amount
	}
	m.acceptedAmt = sdk.ZeroInt()
	m.snapshotOrders()
	next, _ := c.app.EnterpriseKeeper.GetHighestPurchaseOrderID(ctx)
	for id := uint64(1); id < next; id++ {
		if po, ok := c.app.EnterpriseKeeper.GetPurchaseOrder(ctx, id); ok && po.Status == enttypes.StatusAccepted && po.Amount.Denom == "nund" {
			m.acceptedAmt = m.acceptedAmt.Add(po.Amount.Amount)
		}
	}
}

func (m *monitors) afterBegin() {
	// C02: supply rises only by the orders completed in this BeginBlock
	now := m.supplies()
	for _, d := range denoms {
		delta := now[d].Sub(m.supplyBefore[d])
		want := sdk.ZeroInt()
		if d == "nund" {
			want = m.acceptedAmt
		}
		if !delta.Equal(want) {
			m.fail("C02", 0, fmt.Sprintf("BeginBlock changed supply of %s by %s, completed orders amount to %s", d, delta, want))
			m.fail("C03", 0, fmt.Sprintf("BeginBlock minted %s %s for accepted orders worth %s", delta, d, want))
		}
	}
	if m.acceptedAmt.IsPositive() {
		m.h.flags["mint_blocks"]++
	}
	m.checkTally()
	m.invariants("BeginBlock")
}

type strSnap struct {
	exists  bool
	st      strtypes.Stream
	sendBal sdk.Int
	recvBal sdk.Int // receiver's balance in the stream's denomination
	feeBal  sdk.Int // fee collector's balance in the stream's denomination
}

func (m *monitors) snapStream(sn, rc sdk.AccAddress) strSnap {
	c := m.h.c
	st, ok := c.app.StreamKeeper.GetStream(c.ctx(), rc, sn)
	ss := strSnap{exists: ok, st: st, sendBal: sdk.ZeroInt(), recvBal: sdk.ZeroInt(), feeBal: sdk.ZeroInt()}
	if ok {
		ss.recvBal = c.app.BankKeeper.GetBalance(c.ctx(), rc, st.Deposit.Denom).Amount
		ss.feeBal = c.app.BankKeeper.GetBalance(c.ctx(), moduleAddr("fee_collector"), st.Deposit.Denom).Amount
		ss.sendBal = c.app.BankKeeper.GetBalance(c.ctx(), sn, st.Deposit.Denom).Amount
	}
	return ss
}

// entitlement of the signer of a single top-level message, evaluated on the state before the transaction:
// 1 entitled, 0 not entitled, -1 no claim
func (m *monitors) entitlement(g genTx) (int, string) {
	if len(g.msgs) != 1 {
		return -1, ""
	}
	c := m.h.c
	ctx := c.ctx()
	inList := func(list, a string) bool {
		for _, s := range strings.Split(list, ",") {
			if s == a {
				return true
			}
		}
		return false
	}
	b2i := func(b bool) int {
		if b {
			return 1
		}
		return 0
	}
	switch t := g.msgs[0].m.(type) {
	case *enttypes.MsgProcessUndPurchaseOrder:
		return b2i(inList(c.app.EnterpriseKeeper.GetParams(ctx).EntSigners, t.Signer)), "an authorised enterprise signer"
	case *enttypes.MsgWhitelistAddress:
		return b2i(inList(c.app.EnterpriseKeeper.GetParams(ctx).EntSigners, t.Signer)), "an authorised enterprise signer"
	case *enttypes.MsgUndPurchaseOrder:
		a, _ := sdk.AccAddressFromBech32(t.Purchaser)
		return b2i(c.app.EnterpriseKeeper.AddressIsWhitelisted(ctx, a)), "a whitelisted purchaser"
	case *wrktypes.MsgRecordWrkChainBlock:
		wc, ok := c.app.WrkchainKeeper.GetWrkChain(ctx, t.WrkchainId)
		return b2i(ok && wc.Owner == t.Owner), "the registered owner"
	case *wrktypes.MsgPurchaseWrkChainStateStorage:
		wc, ok := c.app.WrkchainKeeper.GetWrkChain(ctx, t.WrkchainId)
		return b2i(ok && wc.Owner == t.Owner), "the registered owner"
	case *bcntypes.MsgRecordBeaconTimestamp:
		b, ok := c.app.BeaconKeeper.GetBeacon(ctx, t.BeaconId)
		return b2i(ok && b.Owner == t.Owner), "the registered owner"
	case *bcntypes.MsgPurchaseBeaconStateStorage:
		b, ok := c.app.BeaconKeeper.GetBeacon(ctx, t.BeaconId)
		return b2i(ok && b.Owner == t.Owner), "the registered owner"
	case *strtypes.MsgClaimStream, *strtypes.MsgTopUpDeposit, *strtypes.MsgUpdateFlowRate, *strtypes.MsgCancelStream:
		var sn, rc string
		switch u := t.(type) {
		case *strtypes.MsgClaimStream:
			sn, rc = u.Sender, u.Receiver
		case *strtypes.MsgTopUpDeposit:
			sn, rc = u.Sender, u.Receiver
		case *strtypes.MsgUpdateFlowRate:
			sn, rc = u.Sender, u.Receiver
		case *strtypes.MsgCancelStream:
			sn, rc = u.Sender, u.Receiver
		}
		return b2i(c.app.StreamKeeper.IsStream(ctx, sdk.MustAccAddressFromBech32(rc), sdk.MustAccAddressFromBech32(sn))), "a party of an existing stream"
	case *enttypes.MsgUpdateParams, *wrktypes.MsgUpdateParams, *bcntypes.MsgUpdateParams, *strtypes.MsgUpdateParams:
		return 0, "the governance authority" // a user transaction can never be signed by the gov module account
	}
	return -1, ""
}

func (m *monitors) beforeTx(g genTx) {
	m.entitledBefore, m.entitledRole = m.entitlement(g)
	m.strBefore = nil
	if len(g.msgs) == 1 {
		switch t := g.msgs[0].m.(type) {
		case *strtypes.MsgClaimStream:
			ss := m.snapStream(sdk.MustAccAddressFromBech32(t.Sender), sdk.MustAccAddressFromBech32(t.Receiver))
			m.strBefore = &ss
		case *strtypes.MsgCancelStream:
			ss := m.snapStream(sdk.MustAccAddressFromBech32(t.Sender), sdk.MustAccAddressFromBech32(t.Receiver))
			m.strBefore = &ss
		case *strtypes.MsgTopUpDeposit:
			ss := m.snapStream(sdk.MustAccAddressFromBech32(t.Sender), sdk.MustAccAddressFromBech32(t.Receiver))
			m.strBefore = &ss
		}
	}
	m.supplyBefore = m.supplies()
	c := m.h.c
	ctx := c.ctx()
	m.lockedBefore = map[int]sdk.Int{}
	m.spentBefore = map[int]sdk.Int{}
	for i := range c.accts {
		m.lockedBefore[i] = c.app.EnterpriseKeeper.GetLockedUndAmountForAccount(ctx, c.addrOf(i)).Amount
		m.spentBefore[i] = c.app.EnterpriseKeeper.GetSpentEFUNDAmountForAccount(ctx, c.addrOf(i)).Amount
	}
}

func (m *monitors) afterTx(g genTx, res txResult, cls int, check bool) {
	if check {
		m.checkAdmission(g, cls)
		return
	}
	now := m.supplies()
	for _, d := range denoms {
		if !now[d].Equal(m.supplyBefore[d]) {
			m.fail("C02", 0, fmt.Sprintf("a transaction changed the supply of %s from %s to %s", d, m.supplyBefore[d], now[d]))
		}
	}
	// C13: a transaction that does not carry the signature of the signer its messages name must not execute
	if cls == 0 && !g.sigOK {
		m.fail("C13", 0, fmt.Sprintf("a transaction with %s executed although it did not carry a valid signature of the signer its messages name", g.msgs[0].kind))
	}
	// C13 / C09: a message took effect although its signer was not the entitled party
	if cls == 0 && m.entitledBefore == 0 {
		what := fmt.Sprintf("%s succeeded although its signer (account %d) was not %s", g.msgs[0].kind, g.msgs[0].signer, m.entitledRole)
		m.fail("C13", 0, what)
		if g.msgs[0].typ >= 5 && g.msgs[0].typ <= 9 {
			m.fail("C09", 0, what)
		}
		if g.msgs[0].typ <= 3 {
			m.fail("C03", 0, what)
		}
	}
	// C09: the owner shown by the registration query is refused as "not the owner"
	if cls != 0 && m.entitledBefore == 1 && g.sigOK && (strings.Contains(res.Log, "not the owner") || strings.Contains(res.Log, "unauthorised signer")) {
		what := fmt.Sprintf("%s by account %d, which is %s according to the stored state, was refused: %s", g.msgs[0].kind, g.msgs[0].signer, m.entitledRole, firstLine(res.Log))
		m.fail("C13", 0, what)
		if g.msgs[0].typ >= 5 && g.msgs[0].typ <= 9 {
			m.fail("C09", 0, what)
		}
		if g.msgs[0].typ <= 3 {
			m.fail("C03", 0, what)
		}
	}
	if m.entitledBefore >= 0 {
		m.h.flags["entitlement_checked"]++
	}
	// C11 / C12 on single-message stream transactions whose ante stage cannot fail
	if m.strBefore != nil && m.strBefore.exists && g.sigOK && g.spec.granter == nil && g.spec.fee.AmountOf("nund").LT(sdk.NewInt(1000)) {
		sb := m.strBefore
		st := sb.st
		now := m.h.c.now
		switch t := g.msgs[0].m.(type) {
		case *strtypes.MsgClaimStream:
			if st.Deposit.Amount.IsPositive() {
				if cls != 0 {
					m.fail("C12", 0, fmt.Sprintf("claim on a funded stream (%s, rate %d) failed: %s", st.Deposit, st.FlowRate, res.Log))
				} else {
					after, _ := m.h.c.app.StreamKeeper.GetStream(m.h.c.ctx(), sdk.MustAccAddressFromBech32(t.Receiver), sdk.MustAccAddressFromBech32(t.Sender))
					paid := st.Deposit.Amount.Sub(after.Deposit.Amount)
					want := st.Deposit.Amount
					if now.Before(st.DepositZeroTime) {
						el := new(big.Int).Sub(timeNs(now), timeNs(st.LastOutflowTime))
						el.Div(el, big.NewInt(1_000_000_000))
						w := sdk.NewIntFromBigInt(el.Mul(el, big.NewInt(st.FlowRate)))
						if w.LT(want) {
							want = w
						}
						if !after.Deposit.Amount.IsPositive() {
							m.fail("C11", 0, fmt.Sprintf("claim at %s before the zero time %s emptied the stream", now, st.DepositZeroTime))
						}
					}
					if !paid.Equal(want) {
						m.fail("C11", 0, fmt.Sprintf("claim released %s, expected %s (deposit %s rate %d last %s zero %s now %s)", paid, want, st.Deposit, st.FlowRate, st.LastOutflowTime, st.DepositZeroTime, now))
					}
					// C10: the release is split floor(release * fee rate) to the fee collector, the rest to the receiver
					{
						cc := m.h.c
						rate := cc.app.StreamKeeper.GetParams(cc.ctx()).ValidatorFee
						wantFee := sdk.NewDecFromInt(paid).Mul(rate).TruncateInt()
						txFee := sdk.ZeroInt()
						if st.Deposit.Denom == "nund" {
							txFee = g.spec.fee.AmountOf("nund")
						}
						rcv := sdk.MustAccAddressFromBech32(t.Receiver)
						gotFee := cc.app.BankKeeper.GetBalance(cc.ctx(), moduleAddr("fee_collector"), st.Deposit.Denom).Amount.Sub(sb.feeBal).Sub(txFee)
						gotRecv := cc.app.BankKeeper.GetBalance(cc.ctx(), rcv, st.Deposit.Denom).Amount.Sub(sb.recvBal)
						if g.msgs[0].signer >= 0 && cc.addrOf(g.msgs[0].signer).Equals(rcv) && st.Deposit.Denom == "nund" {
							gotRecv = gotRecv.Add(txFee) // the receiver paid the transaction fee itself
						}
						if !gotFee.Equal(wantFee) || !gotRecv.Equal(paid.Sub(wantFee)) {
							m.fail("C10", 0, fmt.Sprintf("claim released %s%s at validator fee %s: the fee collector got %s (floor(release x rate) = %s), the receiver %s", paid, st.Deposit.Denom, rate, gotFee, wantFee, gotRecv))
						}
					}
					m.h.flags["claims_checked"]++
				}
			}
		case *strtypes.MsgCancelStream:
			if cls != 0 {
				m.fail("C12", 0, fmt.Sprintf("cancel of stream (%s, rate %d) by its sender failed: %s", st.Deposit, st.FlowRate, res.Log))
			} else {
				m.h.flags["cancels_checked"]++
			}
		case *strtypes.MsgTopUpDeposit:
			if t.Deposit.Denom == st.Deposit.Denom && t.Deposit.Amount.IsPositive() && t.Deposit.Amount.LTE(sb.sendBal) && t.Sender != t.Receiver {
				ext := new(big.Int).Div(t.Deposit.Amount.BigInt(), big.NewInt(st.FlowRate))
				baseT := st.DepositZeroTime
				if !st.DepositZeroTime.After(now) {
					baseT = now
				}
				limit := new(big.Int).Sub(big.NewInt(253402300799), big.NewInt(baseT.Unix()))
				representable := ext.Cmp(limit) <= 0
				if cls != 0 {
					class := 0
					if !representable {
						class = 1 // listed: the new deposit-zero time is not representable
					}
					m.fail("C12", class, fmt.Sprintf("affordable top-up of %s on stream (%s, rate %d, zero time %s) failed: %s", t.Deposit, st.Deposit, st.FlowRate, st.DepositZeroTime, res.Log))
				} else {
					m.h.flags["topups_checked"]++
				}
			}
		}
	}
	// C09: a successful registration stores exactly the submitted moniker / name / genesis / type, and one beyond the size
	// limits never succeeds (single top-level registration per transaction: its id is the counter minus one)
	if cls == 0 && len(g.msgs) == 1 {
		cc := m.h.c
		switch t := g.msgs[0].m.(type) {
		case *wrktypes.MsgRegisterWrkChain:
			next, _ := cc.app.WrkchainKeeper.GetHighestWrkChainID(cc.ctx())
			if wc, ok := cc.app.WrkchainKeeper.GetWrkChain(cc.ctx(), next-1); ok && wc.Owner == t.Owner {
				if wc.Moniker != t.Moniker || wc.Name != t.Name || wc.Genesis != t.GenesisHash || wc.Type != t.BaseType {
					m.fail("C09", 0, fmt.Sprintf("WRKChain %d stores (%q, %q, %q, %q) for a registration submitted as (%q, %q, %q, %q)", next-1, wc.Moniker, wc.Name, wc.Genesis, wc.Type, t.Moniker, t.Name, t.GenesisHash, t.BaseType))
				}
			}
			if len(t.Moniker) > 64 || len(t.Name) > 128 || len(t.GenesisHash) > 66 {
				m.fail("C09", 0, fmt.Sprintf("a WRKChain registration beyond the size limits (moniker %d, name %d, genesis %d bytes) succeeded", len(t.Moniker), len(t.Name), len(t.GenesisHash)))
			}
		case *bcntypes.MsgRegisterBeacon:
			next, _ := cc.app.BeaconKeeper.GetHighestBeaconID(cc.ctx())
			if b, ok := cc.app.BeaconKeeper.GetBeacon(cc.ctx(), next-1); ok && b.Owner == t.Owner {
				if b.Moniker != t.Moniker || b.Name != t.Name {
					m.fail("C09", 0, fmt.Sprintf("BEACON %d stores (%q, %q) for a registration submitted as (%q, %q)", next-1, b.Moniker, b.Name, t.Moniker, t.Name))
				}
			}
			if len(t.Moniker) > 64 || len(t.Name) > 128 {
				m.fail("C09", 0, fmt.Sprintf("a BEACON registration beyond the size limits (moniker %d, name %d bytes) succeeded", len(t.Moniker), len(t.Name)))
			}
		}
	}
	// C05: locked eFUND moves only for the fee payer of a registry transaction, by min(fee, locked)
	c := m.h.c
	ctx := c.ctx()
	payer := g.msgs[0].signer
	isReg := false
	for _, mm := range g.msgs {
		if mm.typ >= 4 && mm.typ <= 9 {
			isReg = true
		}
	}
	for i := range c.accts {
		l := c.app.EnterpriseKeeper.GetLockedUndAmountForAccount(ctx, c.addrOf(i)).Amount
		s := c.app.EnterpriseKeeper.GetSpentEFUNDAmountForAccount(ctx, c.addrOf(i)).Amount
		if l.Equal(m.lockedBefore[i]) && s.Equal(m.spentBefore[i]) {
			continue
		}
		dl := m.lockedBefore[i].Sub(l)
		ds := s.Sub(m.spentBefore[i])
		fee := g.spec.fee.AmountOf("nund")
		want := fee
		if m.lockedBefore[i].LT(fee) {
			want = m.lockedBefore[i]
		}
		if i != payer || !isReg || !dl.Equal(want) || !ds.Equal(dl) {
			m.fail("C05", 0, fmt.Sprintf("tx (registry=%v payer=%d fee=%s) changed locked[%d] by -%s and spent by +%s (allowed: payer only, min(fee,locked)=%s)", isReg, payer, fee, i, dl, ds, want))
		}
		m.h.flags["unlock_events"]++
	}
	// ... and it DOES move then: a delivered registry transaction (it succeeded, so it passed every pre-execution check)
	// whose payer held locked eFUND pays min(fee, locked) out of it
	if fee := g.spec.fee.AmountOf("nund"); isReg && res.Code == 0 && payer >= 0 && payer < len(c.accts) && g.spec.payer.Empty() &&
		// (with a fee granter the payer itself may be too poor for the "unlock everything" branch: only the branch
		// locked >= fee is decided without looking at its liquid funds)
		(g.spec.granter.Empty() || m.lockedBefore[payer].GTE(fee)) &&
		m.lockedBefore[payer].IsPositive() && fee.IsPositive() {
		l := c.app.EnterpriseKeeper.GetLockedUndAmountForAccount(ctx, c.addrOf(payer)).Amount
		want := fee
		if m.lockedBefore[payer].LT(fee) {
			want = m.lockedBefore[payer]
		}
		if !m.lockedBefore[payer].Sub(l).Equal(want) {
			m.fail("C05", 0, fmt.Sprintf("a delivered transaction with a top-level WRKChain/BEACON message (fee %snund) left the payer's locked eFUND at %s (was %s): min(fee, locked) = %s was not taken from it", fee, l, m.lockedBefore[payer], want))
		}
	}
	m.purchased = map[string]uint64{}
	if res.Code == 0 {
		var walk func(ms []sdk.Msg)
		walk = func(ms []sdk.Msg) {
			for _, x := range ms {
				switch t := x.(type) {
				case *wrktypes.MsgPurchaseWrkChainStateStorage:
					m.purchased[fmt.Sprintf("%v|%d", true, t.WrkchainId)] += t.Number
				case *bcntypes.MsgPurchaseBeaconStateStorage:
					m.purchased[fmt.Sprintf("%v|%d", false, t.BeaconId)] += t.Number
				case *authz.MsgExec:
					if inner, err := t.GetMessages(); err == nil {
						walk(inner)
					}
				}
			}
		}
		var top []sdk.Msg
		for _, mm := range g.msgs {
			top = append(top, mm.m)
		}
		walk(top)
	}
	m.invariants("DeliverTx")
	m.purchased = nil
}

func (m *monitors) afterEnd() { m.invariants("EndBlock") }

func pageReq(key []byte, limit uint64) *query.PageRequest {
	return &query.PageRequest{Key: key, Limit: limit}
}

func (m *monitors) afterCommit() {
	// C02: at the block boundary all balances sum to the supply, per denomination
	c := m.h.c
	ctx := c.committedCtx()
	sums := map[string]*big.Int{}
	c.app.BankKeeper.IterateAllBalances(ctx, func(_ sdk.AccAddress, coin sdk.Coin) bool {
		if sums[coin.Denom] == nil {
			sums[coin.Denom] = new(big.Int)
		}
		sums[coin.Denom].Add(sums[coin.Denom], coin.Amount.BigInt())
		return false
	})
	c.app.BankKeeper.IterateTotalSupply(ctx, func(coin sdk.Coin) bool {
		s := sums[coin.Denom]
		if s == nil {
			s = new(big.Int)
		}
		if s.Cmp(coin.Amount.BigInt()) != 0 {
			m.fail("C02", 0, fmt.Sprintf("sum of balances of %s is %s, supply is %s", coin.Denom, s, coin.Amount))
		}
		return false
	})
	_ = banktypes.ModuleName
}

func (m *monitors) chainHalted(what string) {
	m.fail("C14", m.h.haltClass(), "block hook panicked: "+what)
}

// invariants checked after every operation inside a block
func (m *monitors) invariants(where string) {
	c := m.h.c
	ctx := c.ctx()
	defer m.registryInvariants(where)
	m.paramsAndSupply(where)
	// C10: stream escrow = sum of deposits, per denomination
	dep := map[string]*big.Int{}
	c.app.StreamKeeper.IterateAllStreams(ctx, func(_, _ sdk.AccAddress, st strtypes.Stream) bool {
		if dep[st.Deposit.Denom] == nil {
			dep[st.Deposit.Denom] = new(big.Int)
		}
		dep[st.Deposit.Denom].Add(dep[st.Deposit.Denom], st.Deposit.Amount.BigInt())
		return false
	})
	for _, coin := range c.app.BankKeeper.GetAllBalances(ctx, moduleAddr(strtypes.ModuleName)) {
		d := dep[coin.Denom]
		if d == nil {
			d = new(big.Int)
		}
		if d.Cmp(coin.Amount.BigInt()) != 0 {
			m.fail("C10", 0, fmt.Sprintf("after %s: stream escrow holds %s but deposits sum to %s", where, coin, d))
		}
		delete(dep, coin.Denom)
	}
	for d, v := range dep {
		if v.Sign() != 0 {
			m.fail("C10", 0, fmt.Sprintf("after %s: deposits of %s sum to %s but the escrow holds none", where, d, v))
		}
	}
	// C11: every stream can sustain its rate from the last release to the advertised zero time
	c.app.StreamKeeper.IterateAllStreams(ctx, func(rc, sn sdk.AccAddress, st strtypes.Stream) bool {
		lhs := new(big.Int).Mul(big.NewInt(st.FlowRate), new(big.Int).Sub(timeNs(st.DepositZeroTime), timeNs(st.LastOutflowTime)))
		rhs := new(big.Int).Mul(st.Deposit.Amount.BigInt(), big.NewInt(1_000_000_000))
		emptyExpired := st.Deposit.Amount.IsZero() && !st.DepositZeroTime.After(c.now)
		if lhs.Cmp(rhs) > 0 && !emptyExpired {
			m.fail("C11", 0, fmt.Sprintf("after %s: stream %s->%s cannot sustain its rate: deposit %s rate %d last outflow %s zero time %s", where, sn, rc, st.Deposit, st.FlowRate, st.LastOutflowTime, st.DepositZeroTime))
		}
		return false
	})
	// C04: enterprise books
	ek := c.app.EnterpriseKeeper
	tl := ek.GetTotalLockedUnd(ctx)
	sumL := sdk.ZeroInt()
	for _, l := range ek.GetAllLockedUnds(ctx) {
		sumL = sumL.Add(l.Amount.Amount)
	}
	sumS := sdk.ZeroInt()
	for _, s := range ek.GetAllSpentEFUNDs(ctx) {
		sumS = sumS.Add(s.Amount.Amount)
	}
	esc := c.app.BankKeeper.GetAllBalances(ctx, moduleAddr(enttypes.ModuleName))
	if !esc.AmountOf(tl.Denom).Equal(tl.Amount) || !sumL.Equal(tl.Amount) || len(esc) > 1 {
		m.fail("C04", 0, fmt.Sprintf("after %s: escrow %s, total locked %s, sum of locked %s", where, esc, tl, sumL))
	}
	if ts := ek.GetTotalSpentEFUND(ctx); !sumS.Equal(ts.Amount) {
		m.fail("C04", 0, fmt.Sprintf("after %s: total spent %s, sum of spent %s", where, ts, sumS))
	}
	completed := map[string]sdk.Int{}
	next, _ := ek.GetHighestPurchaseOrderID(ctx)
	for id := uint64(1); id < next; id++ {
		po, ok := ek.GetPurchaseOrder(ctx, id)
		if !ok {
			continue
		}
		if po.Status == enttypes.StatusCompleted {
			if _, ok := completed[po.Purchaser]; !ok {
				completed[po.Purchaser] = sdk.ZeroInt()
			}
			completed[po.Purchaser] = completed[po.Purchaser].Add(po.Amount.Amount)
		}
		// C03: terminal orders never change again
		if po.Status == enttypes.StatusCompleted || po.Status == enttypes.StatusRejected {
			s := po.String()
			if old, seen := m.terminal[id]; seen && old != s {
				m.fail("C03", 0, fmt.Sprintf("after %s: terminal order %d changed from %s to %s", where, id, old, s))
			}
			m.terminal[id] = s
		} else if old, seen := m.terminal[id]; seen {
			m.fail("C03", 0, fmt.Sprintf("after %s: terminal order %d left its terminal status: was %s now %s", where, id, old, po.String()))
		}
	}
	for i := range c.accts {
		a := c.addrOf(i)
		l := ek.GetLockedUndAmountForAccount(ctx, a).Amount
		s := ek.GetSpentEFUNDAmountForAccount(ctx, a).Amount
		want, ok := completed[a.String()]
		if !ok {
			want = sdk.ZeroInt()
		}
		if !l.Add(s).Equal(want) {
			m.fail("C04", 0, fmt.Sprintf("after %s: account %d locked %s + spent %s != completed orders %s", where, i, l, s, want))
		}
	}
	// C07/C08: every accepted record is unchanged or pruned (below the lowest retained key)
	for _, rk := range m.h.obs.recList {
		key := fmt.Sprintf("%d|%d|%d", rk[0], rk[1], rk[2])
		var cur string
		var lowest uint64
		found := false
		if rk[0] == 1 {
			blk, ok := c.app.WrkchainKeeper.GetWrkChainBlock(ctx, rk[1], rk[2])
			found = ok
			cur = blk.String()
			wc, _ := c.app.WrkchainKeeper.GetWrkChain(ctx, rk[1])
			lowest = wc.LowestHeight
		} else {
			ts, ok := c.app.BeaconKeeper.GetBeaconTimestampByID(ctx, rk[1], rk[2])
			found = ok
			cur = ts.String()
			b, _ := c.app.BeaconKeeper.GetBeacon(ctx, rk[1])
			lowest = b.FirstIdInState
		}
		old, seen := m.recLog[key]
		switch {
		case found && !seen:
			m.recLog[key] = cur
		case found && seen && old != cur:
			m.fail("C07", 0, fmt.Sprintf("after %s: record %s changed from %s to %s", where, key, old, cur))
		case !found && seen && old != "<pruned>":
			if rk[2] >= lowest && lowest != 0 {
				m.fail("C07", 0, fmt.Sprintf("after %s: record %s vanished although lowest retained is %d", where, key, lowest))
			}
			m.recLog[key] = "<pruned>"
			m.h.flags["pruned_records"]++
		case found && seen && old == "<pruned>":
			m.fail("C07", 0, fmt.Sprintf("after %s: pruned record %s reappeared", where, key))
		}
	}
}

// haltClass: the listed C14 class — the enterprise denomination was changed by governance while an
// accepted order awaits minting
func (h *history) haltClass() int {
	ctx := h.c.ctxFor(true)
	ep := h.c.app.EnterpriseKeeper.GetParams(ctx)
	next, _ := h.c.app.EnterpriseKeeper.GetHighestPurchaseOrderID(ctx)
	for id := uint64(1); id < next; id++ {
		if po, ok := h.c.app.EnterpriseKeeper.GetPurchaseOrder(ctx, id); ok && po.Status == enttypes.StatusAccepted && po.Amount.Denom != ep.Denom {
			return 1
		}
	}
	return 0
}

// ---- C06: CheckTx admits a registry transaction only with the exact fee ----

type feeNeed struct {
	wrk, bcn           sdk.Int
	hasWrk, hasBcn     bool
	nestedWrk, nestedB bool
	nestedSum          sdk.Int
}

func (m *monitors) feeNeeds(ctx sdk.Context, msgs []sdk.Msg, depth int, fn *feeNeed) {
	wp := m.h.c.app.WrkchainKeeper.GetParams(ctx)
	bp := m.h.c.app.BeaconKeeper.GetParams(ctx)
	for _, msg := range msgs {
		add := func(isWrk bool, amt sdk.Int) {
			if depth == 0 {
				if isWrk {
					fn.wrk, fn.hasWrk = fn.wrk.Add(amt), true
				} else {
					fn.bcn, fn.hasBcn = fn.bcn.Add(amt), true
				}
			} else {
				fn.nestedSum = fn.nestedSum.Add(amt)
				if isWrk {
					fn.nestedWrk = true
				} else {
					fn.nestedB = true
				}
			}
		}
		switch t := msg.(type) {
		case *wrktypes.MsgRegisterWrkChain:
			add(true, sdk.NewIntFromUint64(wp.FeeRegister))
		case *wrktypes.MsgRecordWrkChainBlock:
			add(true, sdk.NewIntFromUint64(wp.FeeRecord))
		case *wrktypes.MsgPurchaseWrkChainStateStorage:
			add(true, sdk.NewIntFromUint64(wp.FeePurchaseStorage).Mul(sdk.NewIntFromUint64(t.Number)))
		case *bcntypes.MsgRegisterBeacon:
			add(false, sdk.NewIntFromUint64(bp.FeeRegister))
		case *bcntypes.MsgRecordBeaconTimestamp:
			add(false, sdk.NewIntFromUint64(bp.FeeRecord))
		case *bcntypes.MsgPurchaseBeaconStateStorage:
			add(false, sdk.NewIntFromUint64(bp.FeePurchaseStorage).Mul(sdk.NewIntFromUint64(t.Number)))
		default:
			if ex, ok := msg.(interface{ GetMessages() ([]sdk.Msg, error) }); ok {
				if inner, err := ex.GetMessages(); err == nil {
					m.feeNeeds(ctx, inner, depth+1, fn)
				}
			}
		}
	}
}

func (m *monitors) beforeCheck(g genTx) {
	c := m.h.c
	ctx := c.ctxFor(true)
	payer := c.addrOf(g.msgs[0].signer)
	m.checkLiquid = c.app.BankKeeper.SpendableCoins(ctx, payer).AmountOf("nund")
	m.checkLocked = c.app.EnterpriseKeeper.GetLockedUndAmountForAccount(ctx, payer).Amount
}

func (m *monitors) checkAdmission(g genTx, cls int) {
	c := m.h.c
	ctx := c.ctxFor(true)
	fn := feeNeed{wrk: sdk.ZeroInt(), bcn: sdk.ZeroInt(), nestedSum: sdk.ZeroInt()}
	m.feeNeeds(ctx, g.spec.msgs, 0, &fn)
	if !(fn.hasWrk || fn.hasBcn || fn.nestedWrk || fn.nestedB) {
		return
	}
	m.h.flags["checktx_registry"]++
	if cls != 0 {
		return
	}
	m.h.flags["checktx_registry_admitted"]++
	sent := g.spec.fee.AmountOf("nund")
	want := fn.wrk.Add(fn.bcn).Add(fn.nestedSum)
	// the two listed findings describe ONE behaviour each: every decorator compares the whole fee with the sum of its own
	// module's TOP-LEVEL messages.  An admission is in a listed class only if it is explained by exactly that: each module
	// present at the top level got precisely its own sum.  Anything else (a module's sum not checked at all, ...) is new.
	explained := (!fn.hasWrk || sent.Equal(fn.wrk)) && (!fn.hasBcn || sent.Equal(fn.bcn))
	class := 0
	if explained && (fn.nestedWrk || fn.nestedB) {
		class = 2 // listed: registry message nested in MsgExec
	} else if explained && fn.hasWrk && fn.hasBcn {
		class = 1 // listed: WRKChain and BEACON messages in one transaction
	}
	if !sent.Equal(want) {
		m.fail("C06", class, fmt.Sprintf("CheckTx admitted a registry transaction offering %snund where the operations cost %snund (top-level wrk %s, beacon %s, nested %s)", sent, want, fn.wrk, fn.bcn, fn.nestedSum))
	} else if m.checkLiquid.Add(m.checkLocked).LT(want) {
		m.fail("C06", class, fmt.Sprintf("CheckTx admitted a registry transaction whose payer holds %s liquid + %s locked < fee %s", m.checkLiquid, m.checkLocked, want))
	}
}

// ---- C14: a failed transaction changes nothing but fee / unlock effects ----

func (m *monitors) atomicity(g genTx, cls int, obs []string) {
	if cls == 0 {
		return
	}
	for _, o := range obs {
		if strings.HasSuffix(o, ", VNone)") && m.h.obs.fresh[o] {
			continue // an entity looked at for the first time and found absent
		}
		ok := false
		for _, p := range []string{"(QBal ", "(QLocked ", "(QSpent ", "(QTotLocked", "(QTotSpent", "(QSupplyOf ", "(QEntSupply "} {
			if strings.HasPrefix(o, p) {
				ok = true
			}
		}
		if !ok {
			m.fail("C14", 0, fmt.Sprintf("a failed transaction (class %d) changed %s", cls, o))
			m.fail("C13", 0, fmt.Sprintf("a rejected transaction (class %d, signatures ok=%v) changed %s", cls, g.sigOK, o))
		}
	}
	if !g.sigOK {
		for _, o := range obs {
			if !(strings.HasSuffix(o, ", VNone)") && m.h.obs.fresh[o]) {
				m.fail("C13", 0, fmt.Sprintf("a transaction without valid signatures changed state: %s", o))
			}
		}
	}
}

// ---- C03: the tally rule and next-block completion, recomputed independently ----

func (m *monitors) snapshotOrders() {
	c := m.h.c
	ctx := c.committedCtx()
	ek := c.app.EnterpriseKeeper
	m.raisedBefore, m.acceptedBefore = nil, nil
	m.paramsBefore = ek.GetParams(ctx)
	m.lockedAtBegin = map[string]sdk.Int{}
	next, _ := ek.GetHighestPurchaseOrderID(ctx)
	for id := uint64(1); id < next; id++ {
		if po, ok := ek.GetPurchaseOrder(ctx, id); ok {
			switch po.Status {
			case enttypes.StatusRaised:
				m.raisedBefore = append(m.raisedBefore, po)
			case enttypes.StatusAccepted:
				m.acceptedBefore = append(m.acceptedBefore, po)
			}
		}
	}
	for i := range c.accts {
		m.lockedAtBegin[c.addrOf(i).String()] = ek.GetLockedUndAmountForAccount(ctx, c.addrOf(i)).Amount
	}
}

func (m *monitors) checkTally() {
	c := m.h.c
	ctx := c.ctx()
	ek := c.app.EnterpriseKeeper
	p := m.paramsBefore
	nSigners := int64(len(strings.Split(p.EntSigners, ",")))
	now := uint64(c.now.Unix())
	for _, po := range m.raisedBefore {
		acc, rej := int64(0), int64(0)
		signers := map[string]bool{}
		for _, d := range po.Decisions {
			if signers[d.Signer] {
				m.fail("C03", 0, fmt.Sprintf("order %d carries two decisions of signer %s", po.Id, d.Signer))
			}
			signers[d.Signer] = true
			if d.Decision == enttypes.StatusAccepted {
				acc++
			} else if d.Decision == enttypes.StatusRejected {
				rej++
			}
		}
		want := enttypes.StatusRaised
		switch {
		case now-po.RaiseTime >= p.DecisionTimeLimit && acc < int64(p.MinAccepts):
			want = enttypes.StatusRejected
		case rej > nSigners-int64(p.MinAccepts):
			want = enttypes.StatusRejected
		case acc >= int64(p.MinAccepts):
			want = enttypes.StatusAccepted
		}
		got, _ := ek.GetPurchaseOrder(ctx, po.Id)
		if got.Status != want {
			m.fail("C03", 0, fmt.Sprintf("BeginBlock at %d: order %d (raised %d, %d accepts, %d rejects; %d signers, min %d, limit %d s) is %s, the rule says %s",
				now, po.Id, po.RaiseTime, acc, rej, nSigners, p.MinAccepts, p.DecisionTimeLimit, got.Status, want))
		}
		if want != enttypes.StatusRaised {
			m.h.flags["orders_decided"]++
		}
	}
	credited := map[string]sdk.Int{}
	for _, po := range m.acceptedBefore {
		got, _ := ek.GetPurchaseOrder(ctx, po.Id)
		if got.Status != enttypes.StatusCompleted {
			m.fail("C03", 0, fmt.Sprintf("order %d was accepted before this BeginBlock and is %s after it", po.Id, got.Status))
		}
		if _, ok := credited[po.Purchaser]; !ok {
			credited[po.Purchaser] = sdk.ZeroInt()
		}
		credited[po.Purchaser] = credited[po.Purchaser].Add(po.Amount.Amount)
		m.h.flags["orders_completed"]++
	}
	for i := range c.accts {
		a := c.addrOf(i).String()
		want, ok := credited[a]
		if !ok {
			want = sdk.ZeroInt()
		}
		delta := ek.GetLockedUndAmountForAccount(ctx, c.addrOf(i)).Amount.Sub(m.lockedAtBegin[a])
		if !delta.Equal(want) {
			m.fail("C03", 0, fmt.Sprintf("BeginBlock credited %s locked eFUND to account %d, its completed orders amount to %s", delta, i, want))
			m.fail("C05", 0, fmt.Sprintf("BeginBlock changed locked eFUND of account %d by %s (completed orders: %s)", i, delta, want))
		}
	}
}

// ---- C08 / C09: retention, limits, registration metadata ----

func (m *monitors) registryInvariants(where string) {
	c := m.h.c
	ctx := c.ctx()
	for _, wrk := range []bool{true, false} {
		var next uint64
		if wrk {
			next, _ = c.app.WrkchainKeeper.GetHighestWrkChainID(ctx)
		} else {
			next, _ = c.app.BeaconKeeper.GetHighestBeaconID(ctx)
		}
		if prev, ok := m.regNext[wrk]; ok && next < prev {
			m.fail("C09", 0, fmt.Sprintf("after %s: next registration id went back from %d to %d", where, prev, next))
		}
		m.regNext[wrk] = next
		first := uint64(1) // the chain's genesis numbering
		if wrk && c.cfg.startWrk != 0 {
			first = c.cfg.startWrk
		} else if !wrk && c.cfg.startBcn != 0 {
			first = c.cfg.startBcn
		}
		for id := first; id < next && id < 100; id++ {
			var static string
			var num, lowest, last, limit uint64
			var stored []uint64
			if wrk {
				wc, ok := c.app.WrkchainKeeper.GetWrkChain(ctx, id)
				if !ok {
					m.fail("C09", 0, fmt.Sprintf("after %s: wrkchain id %d below the next id %d does not exist", where, id, next))
					continue
				}
				static = fmt.Sprintf("%d|%s|%s|%s|%s|%s|%d", wc.WrkchainId, wc.Moniker, wc.Name, wc.Genesis, wc.Type, wc.Owner, wc.RegTime)
				num, lowest, last = wc.NumBlocks, wc.LowestHeight, wc.Lastblock
				lim, _ := c.app.WrkchainKeeper.GetWrkChainStorageLimit(ctx, id)
				limit = lim.InStateLimit
				for _, b := range c.app.WrkchainKeeper.GetAllWrkChainBlockHashes(ctx, id) {
					stored = append(stored, b.Height)
				}
			} else {
				b, ok := c.app.BeaconKeeper.GetBeacon(ctx, id)
				if !ok {
					m.fail("C09", 0, fmt.Sprintf("after %s: beacon id %d below the next id %d does not exist", where, id, next))
					continue
				}
				static = fmt.Sprintf("%d|%s|%s|%s|%d", b.BeaconId, b.Moniker, b.Name, b.Owner, b.RegTime)
				num, lowest, last = b.NumInState, b.FirstIdInState, b.LastTimestampId
				lim, _ := c.app.BeaconKeeper.GetBeaconStorageLimit(ctx, id)
				limit = lim.InStateLimit
				for _, t := range c.app.BeaconKeeper.GetAllBeaconTimestamps(ctx, id) {
					stored = append(stored, t.TimestampId)
				}
			}
			key := fmt.Sprintf("%v|%d", wrk, id)
			if old, ok := m.regStatic[key]; ok && old != static {
				m.fail("C09", 0, fmt.Sprintf("after %s: registration %s metadata changed from %s to %s", where, key, old, static))
			}
			m.regStatic[key] = static
			// accepted keys of this registration, in acceptance (= ascending) order
			var accepted []uint64
			w := uint64(0)
			if wrk {
				w = 1
			}
			for _, rk := range m.h.obs.recList {
				if rk[0] == w && rk[1] == id {
					if _, seen := m.recLog[fmt.Sprintf("%d|%d|%d", rk[0], rk[1], rk[2])]; seen {
						accepted = append(accepted, rk[2])
					}
				}
			}
			sort.Slice(accepted, func(i, j int) bool { return accepted[i] < accepted[j] })
			sort.Slice(stored, func(i, j int) bool { return stored[i] < stored[j] })
			if uint64(len(stored)) != num || num > limit {
				m.fail("C08", 0, fmt.Sprintf("after %s: registration %s reports %d in state (limit %d) but %d records can be listed", where, key, num, limit, len(stored)))
			}
			if len(stored) > 0 && (stored[0] != lowest || stored[len(stored)-1] != last) {
				m.fail("C08", 0, fmt.Sprintf("after %s: registration %s reports lowest %d last %d, stored keys are %v", where, key, lowest, last, stored))
			}
			if len(accepted) >= len(stored) {
				tail := accepted[len(accepted)-len(stored):]
				for i := range stored {
					if tail[i] != stored[i] {
						m.fail("C08", 0, fmt.Sprintf("after %s: registration %s holds %v, the newest %d accepted records are %v", where, key, stored, len(stored), tail))
						break
					}
				}
			}
			var maxP, canBuy, qCan uint64
			if wrk {
				maxP = c.app.WrkchainKeeper.GetParams(ctx).MaxStorageLimit
				canBuy = c.app.WrkchainKeeper.GetMaxPurchasableSlots(ctx, id)
				if res, err := c.app.WrkchainKeeper.WrkChainStorage(sdk.WrapSDKContext(ctx), &wrktypes.QueryWrkChainStorageRequest{WrkchainId: id}); err == nil {
					qCan = res.MaxPurchasable
				}
			} else {
				maxP = c.app.BeaconKeeper.GetParams(ctx).MaxStorageLimit
				canBuy = c.app.BeaconKeeper.GetMaxPurchasableSlots(ctx, id)
				if res, err := c.app.BeaconKeeper.BeaconStorage(sdk.WrapSDKContext(ctx), &bcntypes.QueryBeaconStorageRequest{BeaconId: id}); err == nil {
					qCan = res.MaxPurchasable
				}
			}
			wantCan := uint64(0)
			if maxP > limit {
				wantCan = maxP - limit
			}
			if canBuy != wantCan || qCan != wantCan {
				m.fail("C08", 0, fmt.Sprintf("after %s: registration %s reports purchasable capacity %d (query: %d), max %d - limit %d gives %d", where, key, canBuy, qCan, maxP, limit, wantCan))
			}
			if old, ok := m.limitBefore[key]; ok && limit > old && limit > maxP {
				m.fail("C08", 0, fmt.Sprintf("after %s: limit of %s was raised from %d to %d above the maximum in force %d", where, key, old, limit, maxP))
				m.fail("C16", 0, fmt.Sprintf("after %s: a purchase raised the limit of %s from %d to %d although the maximum in force is %d", where, key, old, limit, maxP))
			}
			if old, ok := m.limitBefore[key]; ok && limit < old {
				m.fail("C08", 0, fmt.Sprintf("after %s: limit of %s dropped from %d to %d", where, key, old, limit))
			}
			// ... and rises by exactly the slots the delivered transaction bought for it, as submitted (0 everywhere else)
			if old, ok := m.limitBefore[key]; ok && limit >= old && limit-old != m.purchased[key] {
				m.fail("C08", 0, fmt.Sprintf("after %s: limit of %s rose from %d to %d; the transaction's purchase messages for it add up to %d slots", where, key, old, limit, m.purchased[key]))
			}
			m.limitBefore[key] = limit
			if old, ok := m.lastBefore[key]; ok && last < old {
				m.fail("C07", 0, fmt.Sprintf("after %s: the last recorded height / timestamp id of %s went back from %d to %d: a record at or below the last one was accepted", where, key, old, last))
			}
			m.lastBefore[key] = last
		}
	}
}

// ---- C16 / C17: stored parameters are valid; supply queries ----

func (m *monitors) paramsAndSupply(where string) {
	c := m.h.c
	ctx := c.ctx()
	if err := c.app.EnterpriseKeeper.GetParams(ctx).Validate(); err != nil {
		m.fail("C16", 0, fmt.Sprintf("after %s: stored enterprise params invalid: %v", where, err))
	}
	if err := c.app.WrkchainKeeper.GetParams(ctx).Validate(); err != nil {
		m.fail("C16", 0, fmt.Sprintf("after %s: stored wrkchain params invalid: %v", where, err))
	}
	if err := c.app.BeaconKeeper.GetParams(ctx).Validate(); err != nil {
		m.fail("C16", 0, fmt.Sprintf("after %s: stored beacon params invalid: %v", where, err))
	}
	if err := c.app.StreamKeeper.GetParams(ctx).Validate(); err != nil {
		m.fail("C16", 0, fmt.Sprintf("after %s: stored stream params invalid: %v", where, err))
	}
	ek := c.app.EnterpriseKeeper
	denom := ek.GetParamDenom(ctx)
	tl := ek.GetTotalLockedUnd(ctx)
	for _, d := range denoms {
		sup := c.app.BankKeeper.GetSupply(ctx, d).Amount
		want := sup
		if d == denom {
			want = sup.Sub(tl.Amount)
		}
		ok := safely(func() {
			got := ek.GetSupplyOfWithLockedNundRemoved(ctx, d).Amount
			if !got.Equal(want) || got.IsNegative() {
				m.fail("C17", 0, fmt.Sprintf("after %s: SupplyOf(%s) = %s, bank supply %s, total locked %s", where, d, got, sup, tl))
			}
		})
		if !ok {
			m.fail("C17", 0, fmt.Sprintf("after %s: SupplyOf(%s) panicked", where, d))
		}
	}
	safely(func() {
		es := ek.GetEnterpriseSupplyIncludingLockedUnd(ctx)
		if es.Locked+es.Amount != es.Total || !sdk.NewIntFromUint64(es.Locked).Equal(tl.Amount) {
			m.fail("C17", 0, fmt.Sprintf("after %s: EnterpriseSupply locked %d + unlocked %d != total %d (total locked %s)", where, es.Locked, es.Amount, es.Total, tl))
		}
	})
	// paginated total supply: each denomination exactly once and with the right amount, whatever the page size,
	// direction and paging mode (key / offset / no pagination at all)
	// the gRPC handlers clients reach (TotalSupply and its bank-route replacement), alternating
	nPageCalls := 0
	totalSupplyPage := func(pr *query.PageRequest) (sdk.Coins, *query.PageResponse, error) {
		nPageCalls++
		var res *enttypes.QueryTotalSupplyResponse
		var err error
		if nPageCalls%2 == 0 {
			res, err = ek.TotalSupply(sdk.WrapSDKContext(ctx), &enttypes.QueryTotalSupplyRequest{Pagination: pr})
		} else {
			res, err = ek.TotalSupplyOverwrite(sdk.WrapSDKContext(ctx), &enttypes.QueryTotalSupplyRequest{Pagination: pr})
		}
		if err != nil {
			return nil, nil, err
		}
		return res.Supply, res.Pagination, nil
	}
	checkListing := func(how string, seen map[string]int, amounts map[string]sdk.Int) {
		for _, d := range denoms {
			if seen[d] != 1 {
				m.fail("C17", 0, fmt.Sprintf("after %s: paging total supply (%s) lists %s %d times", where, how, d, seen[d]))
				continue
			}
			want := c.app.BankKeeper.GetSupply(ctx, d).Amount
			if d == denom {
				want = want.Sub(tl.Amount)
			}
			if !amounts[d].Equal(want) {
				m.fail("C17", 0, fmt.Sprintf("after %s: total supply listing (%s) reports %s%s, bank supply less locked is %s", where, how, amounts[d], d, want))
			}
		}
	}
	for _, reverse := range []bool{false, true} {
		for _, limit := range []uint64{1, 2, 100} {
			seen, amounts := map[string]int{}, map[string]sdk.Int{}
			var key []byte
			for page := 0; page < 20; page++ {
				coins, pr, err := totalSupplyPage(&query.PageRequest{Key: key, Limit: limit, Reverse: reverse})
				if err != nil {
					break
				}
				for _, coin := range coins {
					seen[coin.Denom]++
					amounts[coin.Denom] = coin.Amount
				}
				if pr == nil || len(pr.NextKey) == 0 {
					break
				}
				key = pr.NextKey
			}
			checkListing(fmt.Sprintf("by key, limit %d, reverse=%v", limit, reverse), seen, amounts)
		}
		seen, amounts := map[string]int{}, map[string]sdk.Int{}
		for off := uint64(0); off < uint64(len(denoms)); off += 2 {
			coins, _, err := totalSupplyPage(&query.PageRequest{Offset: off, Limit: 2, Reverse: reverse, CountTotal: true})
			if err != nil {
				break
			}
			for _, coin := range coins {
				seen[coin.Denom]++
				amounts[coin.Denom] = coin.Amount
			}
		}
		checkListing(fmt.Sprintf("by offset, limit 2, reverse=%v", reverse), seen, amounts)
	}
	if coins, _, err := totalSupplyPage(nil); err == nil {
		seen, amounts := map[string]int{}, map[string]sdk.Int{}
		for _, coin := range coins {
			seen[coin.Denom]++
			amounts[coin.Denom] = coin.Amount
		}
		checkListing("no pagination", seen, amounts)
	}
}

func firstLine(s string) string {
	if i := strings.Index(s, "\n"); i >= 0 {
		s = s[:i]
	}
	if len(s) > 200 {
		s = s[:200]
	}
	return s
}
