package main

import (
	"fmt"
	"math/big"

	sdk "github.com/cosmos/cosmos-sdk/types"
	banktypes "github.com/cosmos/cosmos-sdk/x/bank/types"

	enttypes "github.com/unification-com/mainchain/x/enterprise/types"
	strtypes "github.com/unification-com/mainchain/x/stream/types"
)

// monitors evaluate the properties directly on the real application (independent of the Coq
// model).  A failure carries the property id, a known-finding class (0 = none) and a description
// precise enough to replay (history seed + operation index).
type monFailure struct {
	Property string `json:"property"`
	Class    int    `json:"class"`
	OpIndex  int    `json:"op_index"`
	What     string `json:"what"`
	History  int    `json:"history"`
}

type monitors struct {
	h        *history
	failures []monFailure
	// C02: supply before the current step
	supplyBefore map[string]sdk.Int
	acceptedAmt  sdk.Int
	// C07: every accepted record, as first read back
	recLog map[string]string
	// C03: terminal orders as first seen
	terminal map[uint64]string
	// C05: locked per account before the tx
	lockedBefore map[int]sdk.Int
	spentBefore  map[int]sdk.Int
	digestBefore string
	strBefore    *strSnap
}

func newMonitors(h *history) *monitors {
	return &monitors{h: h, recLog: map[string]string{}, terminal: map[uint64]string{}}
}

func (m *monitors) fail(prop string, class int, what string) {
	if len(m.failures) < 50 {
		m.failures = append(m.failures, monFailure{Property: prop, Class: class, OpIndex: m.h.nOps, What: what})
	}
}

func (m *monitors) supplies() map[string]sdk.Int {
	out := map[string]sdk.Int{}
	ctx := m.h.c.ctx()
	for _, d := range denoms {
		out[d] = m.h.c.app.BankKeeper.GetSupply(ctx, d).Amount
	}
	return out
}

func (m *monitors) beforeBegin() {
	c := m.h.c
	// the block has not begun: read the committed/check state
	ctx := c.ctxFor(true)
	m.supplyBefore = map[string]sdk.Int{}
	for _, d := range denoms {
		m.supplyBefore[d] = c.app.BankKeeper.GetSupply(ctx, d).Amount
	}
	m.acceptedAmt = sdk.ZeroInt()
	next, _ := c.app.EnterpriseKeeper.GetHighestPurchaseOrderID(ctx)
	for id := uint64(1); id < next; id++ {
		if po, ok := c.app.EnterpriseKeeper.GetPurchaseOrder(ctx, id); ok && po.Status == enttypes.StatusAccepted && po.Amount.Denom == "nund" {
			m.acceptedAmt = m.acceptedAmt.Add(po.Amount.Amount)
		}
	}
}

func (m *monitors) afterBegin() {
	// C02: supply rises only by the orders completed in this BeginBlock
	now := m.supplies()
	for _, d := range denoms {
		delta := now[d].Sub(m.supplyBefore[d])
		want := sdk.ZeroInt()
		if d == "nund" {
			want = m.acceptedAmt
		}
		if !delta.Equal(want) {
			m.fail("C02", 0, fmt.Sprintf("BeginBlock changed supply of %s by %s, completed orders amount to %s", d, delta, want))
			m.fail("C03", 0, fmt.Sprintf("BeginBlock minted %s %s for accepted orders worth %s", delta, d, want))
		}
	}
	if m.acceptedAmt.IsPositive() {
		m.h.flags["mint_blocks"]++
	}
	m.invariants("BeginBlock")
}

type strSnap struct {
	exists  bool
	st      strtypes.Stream
	sendBal sdk.Int
}

func (m *monitors) snapStream(sn, rc sdk.AccAddress) strSnap {
	c := m.h.c
	st, ok := c.app.StreamKeeper.GetStream(c.ctx(), rc, sn)
	ss := strSnap{exists: ok, st: st, sendBal: sdk.ZeroInt()}
	if ok {
		ss.sendBal = c.app.BankKeeper.GetBalance(c.ctx(), sn, st.Deposit.Denom).Amount
	}
	return ss
}

func (m *monitors) beforeTx(g genTx) {
	m.strBefore = nil
	if len(g.msgs) == 1 {
		switch t := g.msgs[0].m.(type) {
		case *strtypes.MsgClaimStream:
			ss := m.snapStream(sdk.MustAccAddressFromBech32(t.Sender), sdk.MustAccAddressFromBech32(t.Receiver))
			m.strBefore = &ss
		case *strtypes.MsgCancelStream:
			ss := m.snapStream(sdk.MustAccAddressFromBech32(t.Sender), sdk.MustAccAddressFromBech32(t.Receiver))
			m.strBefore = &ss
		case *strtypes.MsgTopUpDeposit:
			ss := m.snapStream(sdk.MustAccAddressFromBech32(t.Sender), sdk.MustAccAddressFromBech32(t.Receiver))
			m.strBefore = &ss
		}
	}
	m.supplyBefore = m.supplies()
	c := m.h.c
	ctx := c.ctx()
	m.lockedBefore = map[int]sdk.Int{}
	m.spentBefore = map[int]sdk.Int{}
	for i := range c.accts {
		m.lockedBefore[i] = c.app.EnterpriseKeeper.GetLockedUndAmountForAccount(ctx, c.addrOf(i)).Amount
		m.spentBefore[i] = c.app.EnterpriseKeeper.GetSpentEFUNDAmountForAccount(ctx, c.addrOf(i)).Amount
	}
}

func (m *monitors) afterTx(g genTx, res txResult, cls int, check bool) {
	if check {
		return
	}
	now := m.supplies()
	for _, d := range denoms {
		if !now[d].Equal(m.supplyBefore[d]) {
			m.fail("C02", 0, fmt.Sprintf("a transaction changed the supply of %s from %s to %s", d, m.supplyBefore[d], now[d]))
		}
	}
	// C11 / C12 on single-message stream transactions whose ante stage cannot fail
	if m.strBefore != nil && m.strBefore.exists && g.sigOK && g.spec.granter == nil && g.spec.fee.AmountOf("nund").LT(sdk.NewInt(1000)) {
		sb := m.strBefore
		st := sb.st
		now := m.h.c.now
		switch t := g.msgs[0].m.(type) {
		case *strtypes.MsgClaimStream:
			if st.Deposit.Amount.IsPositive() {
				if cls != 0 {
					m.fail("C12", 0, fmt.Sprintf("claim on a funded stream (%s, rate %d) failed: %s", st.Deposit, st.FlowRate, res.Log))
				} else {
					after, _ := m.h.c.app.StreamKeeper.GetStream(m.h.c.ctx(), sdk.MustAccAddressFromBech32(t.Receiver), sdk.MustAccAddressFromBech32(t.Sender))
					paid := st.Deposit.Amount.Sub(after.Deposit.Amount)
					want := st.Deposit.Amount
					if now.Before(st.DepositZeroTime) {
						el := new(big.Int).Sub(timeNs(now), timeNs(st.LastOutflowTime))
						el.Div(el, big.NewInt(1_000_000_000))
						w := sdk.NewIntFromBigInt(el.Mul(el, big.NewInt(st.FlowRate)))
						if w.LT(want) {
							want = w
						}
						if !after.Deposit.Amount.IsPositive() {
							m.fail("C11", 0, fmt.Sprintf("claim at %s before the zero time %s emptied the stream", now, st.DepositZeroTime))
						}
					}
					if !paid.Equal(want) {
						m.fail("C11", 0, fmt.Sprintf("claim released %s, expected %s (deposit %s rate %d last %s zero %s now %s)", paid, want, st.Deposit, st.FlowRate, st.LastOutflowTime, st.DepositZeroTime, now))
					}
					m.h.flags["claims_checked"]++
				}
			}
		case *strtypes.MsgCancelStream:
			if cls != 0 {
				m.fail("C12", 0, fmt.Sprintf("cancel of stream (%s, rate %d) by its sender failed: %s", st.Deposit, st.FlowRate, res.Log))
			} else {
				m.h.flags["cancels_checked"]++
			}
		case *strtypes.MsgTopUpDeposit:
			if t.Deposit.Denom == st.Deposit.Denom && t.Deposit.Amount.IsPositive() && t.Deposit.Amount.LTE(sb.sendBal) && t.Sender != t.Receiver {
				ext := new(big.Int).Div(t.Deposit.Amount.BigInt(), big.NewInt(st.FlowRate))
				baseT := st.DepositZeroTime
				if !st.DepositZeroTime.After(now) {
					baseT = now
				}
				limit := new(big.Int).Sub(big.NewInt(253402300799), big.NewInt(baseT.Unix()))
				representable := ext.Cmp(limit) <= 0
				if cls != 0 {
					class := 0
					if !representable {
						class = 1 // listed: the new deposit-zero time is not representable
					}
					m.fail("C12", class, fmt.Sprintf("affordable top-up of %s on stream (%s, rate %d, zero time %s) failed: %s", t.Deposit, st.Deposit, st.FlowRate, st.DepositZeroTime, res.Log))
				} else {
					m.h.flags["topups_checked"]++
				}
			}
		}
	}
	// C05: locked eFUND moves only for the fee payer of a registry transaction, by min(fee, locked)
	c := m.h.c
	ctx := c.ctx()
	payer := g.msgs[0].signer
	isReg := false
	for _, mm := range g.msgs {
		if mm.typ >= 4 && mm.typ <= 9 {
			isReg = true
		}
	}
	for i := range c.accts {
		l := c.app.EnterpriseKeeper.GetLockedUndAmountForAccount(ctx, c.addrOf(i)).Amount
		s := c.app.EnterpriseKeeper.GetSpentEFUNDAmountForAccount(ctx, c.addrOf(i)).Amount
		if l.Equal(m.lockedBefore[i]) && s.Equal(m.spentBefore[i]) {
			continue
		}
		dl := m.lockedBefore[i].Sub(l)
		ds := s.Sub(m.spentBefore[i])
		fee := g.spec.fee.AmountOf("nund")
		want := fee
		if m.lockedBefore[i].LT(fee) {
			want = m.lockedBefore[i]
		}
		if i != payer || !isReg || !dl.Equal(want) || !ds.Equal(dl) {
			m.fail("C05", 0, fmt.Sprintf("tx (registry=%v payer=%d fee=%s) changed locked[%d] by -%s and spent by +%s (allowed: payer only, min(fee,locked)=%s)", isReg, payer, fee, i, dl, ds, want))
		}
		m.h.flags["unlock_events"]++
	}
	m.invariants("DeliverTx")
}

func (m *monitors) afterEnd() { m.invariants("EndBlock") }

func (m *monitors) afterCommit() {
	// C02: at the block boundary all balances sum to the supply, per denomination
	c := m.h.c
	ctx := c.ctxFor(true)
	sums := map[string]*big.Int{}
	c.app.BankKeeper.IterateAllBalances(ctx, func(_ sdk.AccAddress, coin sdk.Coin) bool {
		if sums[coin.Denom] == nil {
			sums[coin.Denom] = new(big.Int)
		}
		sums[coin.Denom].Add(sums[coin.Denom], coin.Amount.BigInt())
		return false
	})
	c.app.BankKeeper.IterateTotalSupply(ctx, func(coin sdk.Coin) bool {
		s := sums[coin.Denom]
		if s == nil {
			s = new(big.Int)
		}
		if s.Cmp(coin.Amount.BigInt()) != 0 {
			m.fail("C02", 0, fmt.Sprintf("sum of balances of %s is %s, supply is %s", coin.Denom, s, coin.Amount))
		}
		return false
	})
	_ = banktypes.ModuleName
}

func (m *monitors) chainHalted(what string) {
	m.fail("C14", m.h.haltClass(), "block hook panicked: "+what)
}

// invariants checked after every operation inside a block
func (m *monitors) invariants(where string) {
	c := m.h.c
	ctx := c.ctx()
	// C10: stream escrow = sum of deposits, per denomination
	dep := map[string]*big.Int{}
	c.app.StreamKeeper.IterateAllStreams(ctx, func(_, _ sdk.AccAddress, st strtypes.Stream) bool {
		if dep[st.Deposit.Denom] == nil {
			dep[st.Deposit.Denom] = new(big.Int)
		}
		dep[st.Deposit.Denom].Add(dep[st.Deposit.Denom], st.Deposit.Amount.BigInt())
		return false
	})
	for _, coin := range c.app.BankKeeper.GetAllBalances(ctx, moduleAddr(strtypes.ModuleName)) {
		d := dep[coin.Denom]
		if d == nil {
			d = new(big.Int)
		}
		if d.Cmp(coin.Amount.BigInt()) != 0 {
			m.fail("C10", 0, fmt.Sprintf("after %s: stream escrow holds %s but deposits sum to %s", where, coin, d))
		}
		delete(dep, coin.Denom)
	}
	for d, v := range dep {
		if v.Sign() != 0 {
			m.fail("C10", 0, fmt.Sprintf("after %s: deposits of %s sum to %s but the escrow holds none", where, d, v))
		}
	}
	// C11: every stream can sustain its rate from the last release to the advertised zero time
	c.app.StreamKeeper.IterateAllStreams(ctx, func(rc, sn sdk.AccAddress, st strtypes.Stream) bool {
		lhs := new(big.Int).Mul(big.NewInt(st.FlowRate), new(big.Int).Sub(timeNs(st.DepositZeroTime), timeNs(st.LastOutflowTime)))
		rhs := new(big.Int).Mul(st.Deposit.Amount.BigInt(), big.NewInt(1_000_000_000))
		emptyExpired := st.Deposit.Amount.IsZero() && !st.DepositZeroTime.After(c.now)
		if lhs.Cmp(rhs) > 0 && !emptyExpired {
			m.fail("C11", 0, fmt.Sprintf("after %s: stream %s->%s cannot sustain its rate: deposit %s rate %d last outflow %s zero time %s", where, sn, rc, st.Deposit, st.FlowRate, st.LastOutflowTime, st.DepositZeroTime))
		}
		return false
	})
	// C04: enterprise books
	ek := c.app.EnterpriseKeeper
	tl := ek.GetTotalLockedUnd(ctx)
	sumL := sdk.ZeroInt()
	for _, l := range ek.GetAllLockedUnds(ctx) {
		sumL = sumL.Add(l.Amount.Amount)
	}
	sumS := sdk.ZeroInt()
	for _, s := range ek.GetAllSpentEFUNDs(ctx) {
		sumS = sumS.Add(s.Amount.Amount)
	}
	esc := c.app.BankKeeper.GetAllBalances(ctx, moduleAddr(enttypes.ModuleName))
	if !esc.AmountOf(tl.Denom).Equal(tl.Amount) || !sumL.Equal(tl.Amount) || len(esc) > 1 {
		m.fail("C04", 0, fmt.Sprintf("after %s: escrow %s, total locked %s, sum of locked %s", where, esc, tl, sumL))
	}
	if ts := ek.GetTotalSpentEFUND(ctx); !sumS.Equal(ts.Amount) {
		m.fail("C04", 0, fmt.Sprintf("after %s: total spent %s, sum of spent %s", where, ts, sumS))
	}
	completed := map[string]sdk.Int{}
	next, _ := ek.GetHighestPurchaseOrderID(ctx)
	for id := uint64(1); id < next; id++ {
		po, ok := ek.GetPurchaseOrder(ctx, id)
		if !ok {
			continue
		}
		if po.Status == enttypes.StatusCompleted {
			if _, ok := completed[po.Purchaser]; !ok {
				completed[po.Purchaser] = sdk.ZeroInt()
			}
			completed[po.Purchaser] = completed[po.Purchaser].Add(po.Amount.Amount)
		}
		// C03: terminal orders never change again
		if po.Status == enttypes.StatusCompleted || po.Status == enttypes.StatusRejected {
			s := po.String()
			if old, seen := m.terminal[id]; seen && old != s {
				m.fail("C03", 0, fmt.Sprintf("after %s: terminal order %d changed from %s to %s", where, id, old, s))
			}
			m.terminal[id] = s
		} else if old, seen := m.terminal[id]; seen {
			m.fail("C03", 0, fmt.Sprintf("after %s: terminal order %d left its terminal status: was %s now %s", where, id, old, po.String()))
		}
	}
	for i := range c.accts {
		a := c.addrOf(i)
		l := ek.GetLockedUndAmountForAccount(ctx, a).Amount
		s := ek.GetSpentEFUNDAmountForAccount(ctx, a).Amount
		want, ok := completed[a.String()]
		if !ok {
			want = sdk.ZeroInt()
		}
		if !l.Add(s).Equal(want) {
			m.fail("C04", 0, fmt.Sprintf("after %s: account %d locked %s + spent %s != completed orders %s", where, i, l, s, want))
		}
	}
	// C07/C08: every accepted record is unchanged or pruned (below the lowest retained key)
	for _, rk := range m.h.obs.recList {
		key := fmt.Sprintf("%d|%d|%d", rk[0], rk[1], rk[2])
		var cur string
		var lowest uint64
		found := false
		if rk[0] == 1 {
			blk, ok := c.app.WrkchainKeeper.GetWrkChainBlock(ctx, rk[1], rk[2])
			found = ok
			cur = blk.String()
			wc, _ := c.app.WrkchainKeeper.GetWrkChain(ctx, rk[1])
			lowest = wc.LowestHeight
		} else {
			ts, ok := c.app.BeaconKeeper.GetBeaconTimestampByID(ctx, rk[1], rk[2])
			found = ok
			cur = ts.String()
			b, _ := c.app.BeaconKeeper.GetBeacon(ctx, rk[1])
			lowest = b.FirstIdInState
		}
		old, seen := m.recLog[key]
		switch {
		case found && !seen:
			m.recLog[key] = cur
		case found && seen && old != cur:
			m.fail("C07", 0, fmt.Sprintf("after %s: record %s changed from %s to %s", where, key, old, cur))
		case !found && seen && old != "<pruned>":
			if rk[2] >= lowest && lowest != 0 {
				m.fail("C07", 0, fmt.Sprintf("after %s: record %s vanished although lowest retained is %d", where, key, lowest))
			}
			m.recLog[key] = "<pruned>"
			m.h.flags["pruned_records"]++
		case found && seen && old == "<pruned>":
			m.fail("C07", 0, fmt.Sprintf("after %s: pruned record %s reappeared", where, key))
		}
	}
}

// haltClass: the listed C14 class — the enterprise denomination was changed by governance while an
// accepted order awaits minting
func (h *history) haltClass() int {
	ctx := h.c.ctxFor(true)
	ep := h.c.app.EnterpriseKeeper.GetParams(ctx)
	next, _ := h.c.app.EnterpriseKeeper.GetHighestPurchaseOrderID(ctx)
	for id := uint64(1); id < next; id++ {
		if po, ok := h.c.app.EnterpriseKeeper.GetPurchaseOrder(ctx, id); ok && po.Status == enttypes.StatusAccepted && po.Amount.Denom != ep.Denom {
			return 1
		}
	}
	return 0
}
