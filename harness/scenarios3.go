package main

import (
	"encoding/json"
	"fmt"
	"os"
	"sort"
	"strings"
	"time"

	abci "github.com/cometbft/cometbft/abci/types"
	sdk "github.com/cosmos/cosmos-sdk/types"
	"github.com/cosmos/cosmos-sdk/types/query"
	authtypes "github.com/cosmos/cosmos-sdk/x/auth/types"
	banktypes "github.com/cosmos/cosmos-sdk/x/bank/types"
	govv1 "github.com/cosmos/cosmos-sdk/x/gov/types/v1"

	bcntypes "github.com/unification-com/mainchain/x/beacon/types"
	entkeeper "github.com/unification-com/mainchain/x/enterprise/keeper"
	enttypes "github.com/unification-com/mainchain/x/enterprise/types"
	strtypes "github.com/unification-com/mainchain/x/stream/types"
	wrktypes "github.com/unification-com/mainchain/x/wrkchain/types"
)

// Designated scenarios added in round 5 (state that lives outside the committed store: anything a keeper remembers in
// process memory must not survive a context that is discarded).

func round5Scenarios() []func() []monFailure {
	return []func() []monFailure{scenOwnerAfterRolledBackRegistration, scenParamsAfterFailedProposal, scenRecreateOverExpiredStream, scenPartialUnlockWithOtherHolder, scenSignerListWithBlanks,
		scenRecheckAfterFeeChange, scenReregisterSameMoniker, scenSameBlockCancel, scenManyDenominationsSupply, scenOnlyRegistryMsgsUnlock,
		scenStartingIdsAcrossExport, scenZeroHeightExportInMintWindow, scenEmptiedAccountSurvivesExport, scenFeeRuleOverLayouts, scenQueuesLongerThanAPage,
		scenAcceptAndRejectThresholdsBothMet, scenUpdateAndTopUpSameBlock, scenStaleHeightsInEveryWrapping,
		scenWhitelistRemovalInAcceptanceBlock, scenSameMonikerTwiceInOneBlock, scenForgedRecordBesideOwnRecord, scenPurchaseAfterMaxRaised,
		scenGovSignedEnterpriseMessages, scenGovAccountAsStreamSender, scenFeeParameterAt63Bits}
}

// C09 / C13: a transaction [register; record on the id it is about to receive; a failing message] is rolled back as a
// whole.  The id stays free; whoever registers next owns it, and the sender of the rolled-back transaction is nobody
// for it.  Both registry modules.
func scenOwnerAfterRolledBackRegistration() []monFailure {
	s := &scen{c: newChain(fixedCfg()), name: "owner-after-rolled-back-registration"}
	defer s.c.close()
	c := s.c
	intruder, victim := 1, 2
	for _, wrk := range []bool{true, false} {
		mod := "BEACON"
		if wrk {
			mod = "WRKChain"
		}
		s.blockStart(5 * time.Second)
		var next uint64
		if wrk {
			next, _ = c.app.WrkchainKeeper.GetHighestWrkChainID(c.ctx())
		} else {
			next, _ = c.app.BeaconKeeper.GetHighestBeaconID(c.ctx())
		}
		key := uint64(5)
		if !wrk {
			key = uint64(c.now.Unix())
		}
		r := s.tx(intruder, nundCoins(1020),
			c.mRegRegister(wrk, intruder, "rolledback", "n", "g", "t").m,
			c.mRegRecord(wrk, intruder, next, key, []string{"h1", "", "", "", ""}).m,
			c.mRegRecord(wrk, intruder, next+1000, key, []string{"h2", "", "", "", ""}).m) // unknown id: fails
		if os.Getenv("VERIF_SCEN_DEBUG") != "" {
			fmt.Printf("debug: %s bundle next=%d code=%d log=%s\n", mod, next, r.Code, r.Log)
		}
		if r.Code == 0 {
			s.blockEnd()
			continue // the bundle unexpectedly succeeded: nothing to observe
		}
		s.blockEnd()
		s.blockStart(5 * time.Second)
		if r := s.tx(victim, nundCoins(1000), c.mRegRegister(wrk, victim, "victim", "n", "g", "t").m); r.Code != 0 {
			s.blockEnd()
			continue
		}
		var owner string
		if wrk {
			wc, _ := c.app.WrkchainKeeper.GetWrkChain(c.ctx(), next)
			owner = wc.Owner
		} else {
			b, _ := c.app.BeaconKeeper.GetBeacon(c.ctx(), next)
			owner = b.Owner
		}
		if owner != c.addrOf(victim).String() {
			s.fail("C09", 0, fmt.Sprintf("%s %d registered by account %d after a rolled-back registration reports owner %s", mod, next, victim, owner))
		}
		key2 := key + 1
		if r := s.tx(intruder, nundCoins(10), c.mRegRecord(wrk, intruder, next, key2, []string{"intruder", "", "", "", ""}).m); r.Code == 0 {
			for _, prop := range []string{"C09", "C13"} {
				s.fail(prop, 0, fmt.Sprintf("a record on %s %d (owner: account %d) signed by account %d was accepted; that account had only registered this id in a transaction that was rolled back", mod, next, victim, intruder))
			}
		}
		if r := s.tx(intruder, nundCoins(5), c.mRegPurchase(wrk, intruder, next, 1).m); r.Code == 0 {
			for _, prop := range []string{"C09", "C13"} {
				s.fail(prop, 0, fmt.Sprintf("a storage purchase for %s %d (owner: account %d) signed by account %d was accepted after a rolled-back registration", mod, next, victim, intruder))
			}
		}
		if r := s.tx(victim, nundCoins(10), c.mRegRecord(wrk, victim, next, key2+1, []string{"owner", "", "", "", ""}).m); r.Code != 0 {
			for _, prop := range []string{"C09", "C13"} {
				s.fail(prop, 0, fmt.Sprintf("the registered owner (account %d) of %s %d was refused a record after another account's rolled-back registration: %s", victim, mod, next, r.Log))
			}
		}
		s.blockEnd()
	}
	return s.failures
}

// C06 / C16 / C01: a governance proposal [MsgUpdateParams of a registry module; a message that fails] fails as a whole:
// the committed parameters are the old ones, every reader must keep answering with them, and CheckTx must keep
// admitting exactly the old fee.
func scenParamsAfterFailedProposal() []monFailure {
	s := &scen{c: newChain(fixedCfg()), name: "params-after-failed-proposal"}
	defer s.c.close()
	c := s.c
	gov := authtypes.NewModuleAddress("gov").String()
	// a WRKChain and a BEACON to record to
	s.blockStart(5 * time.Second)
	s.tx(2, nundCoins(1000), c.mRegRegister(true, 2, "w", "n", "g", "t").m)
	s.tx(2, nundCoins(1000), c.mRegRegister(false, 2, "b", "n", "", "").m)
	s.blockEnd()
	wBefore, bBefore := c.app.WrkchainKeeper.GetParams(c.committedCtx()), c.app.BeaconKeeper.GetParams(c.committedCtx())
	wNew := wrktypes.NewParams(7, 1, 1, "nund", 2, 5)
	bNew := bcntypes.NewParams(7, 1, 1, "nund", 2, 5)
	failing := banktypes.NewMsgSend(authtypes.NewModuleAddress("gov"), c.addrOf(0), sdk.NewCoins(sdk.NewInt64Coin("nund", 1_000_000_000_000_000_000))) // gov holds no such funds
	var pid uint64
	prop, found := s.govPass(&pid, &wrktypes.MsgUpdateParams{Authority: gov, Params: wNew}, &bcntypes.MsgUpdateParams{Authority: gov, Params: bNew}, failing)
	if found && prop.Status == govv1.StatusPassed {
		return s.failures // the tail did not fail: nothing to observe
	}
	s.blockStart(5 * time.Second)
	for _, ctx := range []sdk.Context{c.ctx(), c.ctxFor(true), c.committedCtx()} {
		if got := c.app.WrkchainKeeper.GetParams(ctx); got != wBefore {
			for _, prop := range []string{"C16", "C06"} {
				s.fail(prop, 0, fmt.Sprintf("after a FAILED proposal [wrkchain MsgUpdateParams; failing message] the keeper reports wrkchain params %v, committed %v", got, wBefore))
			}
		}
		if got := c.app.BeaconKeeper.GetParams(ctx); got != bBefore {
			for _, prop := range []string{"C16", "C06"} {
				s.fail(prop, 0, fmt.Sprintf("after a FAILED proposal [beacon MsgUpdateParams; failing message] the keeper reports beacon params %v, committed %v", got, bBefore))
			}
		}
	}
	s.blockEnd()
	// CheckTx: the committed record fee (10) is admitted, the never-committed one (1) is not
	for _, wrk := range []bool{true, false} {
		key := uint64(9)
		if !wrk {
			key = uint64(c.now.Unix())
		}
		rec := c.mRegRecord(wrk, 2, 1, key, []string{"h", "", "", "", ""}).m
		if r, _ := c.check(txSpec{msgs: []sdk.Msg{rec}, fee: nundCoins(1), signers: []acct{c.accts[2]}}); r.Code == 0 {
			s.fail("C06", 0, fmt.Sprintf("CheckTx admitted a record (wrkchain=%v) offering 1nund; the committed record fee is 10nund (a failed proposal had tried to set it to 1)", wrk))
		}
		if r, _ := c.check(txSpec{msgs: []sdk.Msg{rec}, fee: nundCoins(10), signers: []acct{c.accts[2]}}); r.Code != 0 {
			s.fail("C16", 0, fmt.Sprintf("CheckTx refused a record (wrkchain=%v) offering the committed fee of 10nund after a failed parameter proposal: %s", wrk, r.Log))
		}
	}
	return s.failures
}

// C10 / C12: a second MsgCreateStream for an existing (sender, receiver) pair — also one whose deposit-zero time has
// passed with funds unclaimed — must not orphan what the escrow holds for it.
func scenRecreateOverExpiredStream() []monFailure {
	s := &scen{c: newChain(fixedCfg()), name: "recreate-over-expired-stream"}
	defer s.c.close()
	c := s.c
	escrow := func() sdk.Int {
		return c.app.BankKeeper.GetBalance(c.ctx(), moduleAddr(strtypes.ModuleName), "nund").Amount
	}
	deposits := func() sdk.Int {
		t := sdk.ZeroInt()
		c.app.StreamKeeper.IterateAllStreams(c.ctx(), func(_, _ sdk.AccAddress, st strtypes.Stream) bool {
			if st.Deposit.Denom == "nund" {
				t = t.Add(st.Deposit.Amount)
			}
			return false
		})
		return t
	}
	s.blockStart(5 * time.Second)
	if r := s.tx(0, nundCoins(0), c.mStrCreate(0, 1, "nund", sdk.NewInt(6000), 10).m); r.Code != 0 {
		s.blockEnd()
		return s.failures
	}
	s.blockEnd()
	s.blockStart(700 * time.Second) // past the zero time (600 s), nothing claimed
	r := s.tx(0, nundCoins(0), c.mStrCreate(0, 1, "nund", sdk.NewInt(1000), 10).m)
	if !escrow().Equal(deposits()) {
		for _, prop := range []string{"C10", "C12"} {
			s.fail(prop, 0, fmt.Sprintf("after a second MsgCreateStream (code %d) over an expired, unclaimed stream the escrow holds %s nund for deposits of %s", r.Code, escrow(), deposits()))
		}
	}
	s.blockEnd()
	return s.failures
}

// C04: the fee payer of a registry transaction holds LESS locked eFUND than the fee (and enough liquid funds) while
// another account holds locked eFUND too: total locked must drop by what the payer had locked, not by the fee.
func scenPartialUnlockWithOtherHolder() []monFailure {
	s := &scen{c: newChain(fixedCfg()), name: "partial-unlock-with-other-holder"}
	defer s.c.close()
	c := s.c
	ek := c.app.EnterpriseKeeper
	// accounts 4 (whitelisted at genesis) and 3 (whitelisted here) buy 40 and 500 eFUND
	s.blockStart(5 * time.Second)
	s.tx(0, nundCoins(0), c.mEntWhitelist(0, 3, 1).m)
	s.tx(4, nundCoins(0), c.mEntRaise(4, "nund", sdk.NewInt(40)).m)
	s.tx(3, nundCoins(0), c.mEntRaise(3, "nund", sdk.NewInt(500)).m)
	for _, id := range []uint64{1, 2} {
		s.tx(0, nundCoins(0), c.mEntDecide(0, id, 2).m)
		s.tx(1, nundCoins(0), c.mEntDecide(1, id, 2).m)
	}
	s.blockEnd()
	s.blockStart(5 * time.Second)
	s.blockEnd()
	s.blockStart(5 * time.Second)
	s.blockEnd()
	s.blockStart(5 * time.Second)
	if !ek.GetLockedUndAmountForAccount(c.ctx(), c.addrOf(4)).Amount.Equal(sdk.NewInt(40)) || !ek.GetLockedUndAmountForAccount(c.ctx(), c.addrOf(3)).Amount.Equal(sdk.NewInt(500)) {
		s.blockEnd()
		return s.failures // the orders did not complete as set up: nothing to observe
	}
	r := s.tx(4, nundCoins(1000), c.mRegRegister(true, 4, "w", "n", "g", "t").m) // fee 1000 > locked 40
	tl := ek.GetTotalLockedUnd(c.ctx()).Amount
	sum := sdk.ZeroInt()
	for _, l := range ek.GetAllLockedUnds(c.ctx()) {
		sum = sum.Add(l.Amount.Amount)
	}
	esc := c.app.BankKeeper.GetBalance(c.ctx(), moduleAddr("enterprise"), "nund").Amount
	if !tl.Equal(sum) || !tl.Equal(esc) {
		s.fail("C04", 0, fmt.Sprintf("after a registry fee of 1000 paid (code %d) by an account with 40 locked eFUND while another holds 500: total locked %s, sum of locked entries %s, escrow %s", r.Code, tl, sum, esc))
	}
	s.blockEnd()
	return s.failures
}

// C16: a governance update of the enterprise signer list written with blanks around a separator ("A, B") is either
// refused as a whole or stored in a form every consumer can use: each stored entry parses as an address exactly as
// the consumers parse it (split on "," without trimming) and at least MinAccepts of them do.
func scenSignerListWithBlanks() []monFailure {
	s := &scen{c: newChain(fixedCfg()), name: "signer-list-with-blanks"}
	defer s.c.close()
	c := s.c
	a, b := c.addrOf(0).String(), c.addrOf(1).String()
	before := c.app.EnterpriseKeeper.GetParams(c.committedCtx())
	for _, list := range []string{a + ", " + b, " " + a + "," + b, a + "," + b + " ", a + " ," + b, a + "," + b + ",", "," + a + "," + b, a + ",," + b} {
		submitted := before
		submitted.EntSigners, submitted.MinAccepts = list, 2
		var pid uint64
		_, _ = s.govPass(&pid, &enttypes.MsgUpdateParams{Authority: authtypes.NewModuleAddress("gov").String(), Params: submitted})
		stored := c.app.EnterpriseKeeper.GetParams(c.committedCtx())
		usable := uint64(0)
		for _, e := range strings.Split(stored.EntSigners, ",") {
			if _, err := sdk.AccAddressFromBech32(e); err == nil {
				usable++
			} else {
				s.fail("C16", 0, fmt.Sprintf("after a governance update with signer list %q the stored list %q has an entry %q no consumer can parse: %v", list, stored.EntSigners, e, err))
				s.fail("C03", 0, fmt.Sprintf("the tally counts %d signers in the stored list %q, but the entry %q is nobody: the reject threshold (signers - MinAccepts) is off", len(strings.Split(stored.EntSigners, ",")), stored.EntSigners, e))
			}
		}
		if usable < stored.MinAccepts {
			s.fail("C16", 0, fmt.Sprintf("after a governance update with signer list %q only %d stored signers are usable for MinAccepts %d", list, usable, stored.MinAccepts))
		}
		if len(s.failures) > 0 {
			break
		}
	}
	return s.failures
}

// ---- round 6 ----

// checkRecheck runs CheckTx of type Recheck (what CometBFT does with every pending transaction after each block)
func (c *chain) recheck(ts txSpec) txResult {
	bz, err := c.buildTx(true, ts)
	if err != nil {
		return txResult{Code: 999999, Codespace: "harness", Log: err.Error()}
	}
	r := c.app.CheckTx(abci.RequestCheckTx{Tx: bz, Type: abci.CheckTxType_Recheck})
	return txResult{r.Code, r.Codespace, r.Log, r.GasUsed, r.GasWanted, r.Data, r.Events}
}

// C06 / C16: a registry transaction admitted at the current fee is pending while governance changes the fee; the
// mempool re-check after the block must measure it against the NEW parameters (DeliverTx never checks these fees).
func scenRecheckAfterFeeChange() []monFailure {
	s := &scen{c: newChain(fixedCfg()), name: "recheck-after-fee-change"}
	defer s.c.close()
	c := s.c
	gov := authtypes.NewModuleAddress("gov").String()
	s.blockStart(5 * time.Second)
	s.blockEnd()
	pend := map[bool]txSpec{}
	for _, wrk := range []bool{true, false} {
		ts := txSpec{msgs: []sdk.Msg{c.mRegRegister(wrk, 3, "pending", "n", "g", "t").m}, fee: nundCoins(1000), signers: []acct{c.accts[3]}}
		if r, _ := c.check(ts); r.Code != 0 {
			return s.failures // set-up did not work: nothing to observe
		}
		pend[wrk] = ts
	}
	wNew := wrktypes.NewParams(2000, 10, 5, "nund", 2, 5)
	bNew := bcntypes.NewParams(2000, 10, 5, "nund", 2, 5)
	var pid uint64
	prop, found := s.govPass(&pid, &wrktypes.MsgUpdateParams{Authority: gov, Params: wNew}, &bcntypes.MsgUpdateParams{Authority: gov, Params: bNew})
	if !found || prop.Status != govv1.StatusPassed {
		return s.failures
	}
	for _, wrk := range []bool{true, false} {
		if r := c.recheck(pend[wrk]); r.Code == 0 {
			for _, prop := range []string{"C06", "C16"} {
				s.fail(prop, 0, fmt.Sprintf("the re-check (CheckTx type Recheck) after a governance change of the registration fee from 1000 to 2000 nund still admits the pending registration (wrkchain=%v) offering 1000 nund", wrk))
			}
		}
		ts := pend[wrk]
		ts.fee = nundCoins(2000)
		if r := c.recheck(ts); r.Code != 0 {
			s.fail("C16", 0, fmt.Sprintf("the re-check refuses a registration (wrkchain=%v) offering the NEW fee of 2000 nund: %s", wrk, r.Log))
		}
	}
	return s.failures
}

// C07 / C09: registering again with a moniker the same owner already uses must not touch the existing WRKChain / BEACON:
// its recorded hashes stay what they were and a record at or below its last height stays refused.
func scenReregisterSameMoniker() []monFailure {
	s := &scen{c: newChain(fixedCfg()), name: "re-register-same-moniker"}
	defer s.c.close()
	c := s.c
	for _, wrk := range []bool{true, false} {
		mod := "BEACON"
		if wrk {
			mod = "WRKChain"
		}
		s.blockStart(5 * time.Second)
		var id uint64
		if wrk {
			id, _ = c.app.WrkchainKeeper.GetHighestWrkChainID(c.ctx())
		} else {
			id, _ = c.app.BeaconKeeper.GetHighestBeaconID(c.ctx())
		}
		if r := s.tx(2, nundCoins(1000), c.mRegRegister(wrk, 2, "samemoniker", "name-one", "genesis-one", "t").m); r.Code != 0 {
			s.blockEnd()
			continue
		}
		key := func(i int) uint64 {
			if wrk {
				return uint64(i)
			}
			return uint64(c.now.Unix()) + uint64(i)
		}
		s.tx(2, nundCoins(10), c.mRegRecord(wrk, 2, id, key(1), []string{"first", "", "", "", ""}).m)
		s.tx(2, nundCoins(10), c.mRegRecord(wrk, 2, id, key(2), []string{"second", "", "", "", ""}).m)
		s.blockEnd()
		snapshot := func() string {
			if wrk {
				wc, _ := c.app.WrkchainKeeper.GetWrkChain(c.ctx(), id)
				b1, _ := c.app.WrkchainKeeper.GetWrkChainBlock(c.ctx(), id, 1)
				b2, _ := c.app.WrkchainKeeper.GetWrkChainBlock(c.ctx(), id, 2)
				return wc.String() + "|" + b1.String() + "|" + b2.String()
			}
			b, _ := c.app.BeaconKeeper.GetBeacon(c.ctx(), id)
			t1, _ := c.app.BeaconKeeper.GetBeaconTimestampByID(c.ctx(), id, 1)
			t2, _ := c.app.BeaconKeeper.GetBeaconTimestampByID(c.ctx(), id, 2)
			return b.String() + "|" + t1.String() + "|" + t2.String()
		}
		s.blockStart(5 * time.Second)
		before := snapshot()
		s.tx(2, nundCoins(1000), c.mRegRegister(wrk, 2, "samemoniker", "name-two", "genesis-two", "t").m)
		if after := snapshot(); after != before {
			for _, prop := range []string{"C09", "C07"} {
				s.fail(prop, 0, fmt.Sprintf("a second registration by the same owner with the same moniker changed %s %d: before %s, after %s", mod, id, before, after))
			}
		}
		if wrk {
			if r := s.tx(2, nundCoins(10), c.mRegRecord(wrk, 2, id, 1, []string{"rewrite", "", "", "", ""}).m); r.Code == 0 {
				s.fail("C07", 0, fmt.Sprintf("after a second registration with the same moniker, a record at height 1 of WRKChain %d (last height 2) was accepted", id))
			}
			if b1, _ := c.app.WrkchainKeeper.GetWrkChainBlock(c.ctx(), id, 1); b1.Blockhash != "first" {
				s.fail("C07", 0, fmt.Sprintf("the accepted record at height 1 of WRKChain %d now reads %q", id, b1.Blockhash))
			}
		}
		s.blockEnd()
	}
	return s.failures
}

// C12 / C10: a cancel in the same block (same second) as the create, or as a claim, refunds the whole unreleased
// remainder and leaves the escrow holding exactly the deposits of the remaining streams.
func scenSameBlockCancel() []monFailure {
	s := &scen{c: newChain(fixedCfg()), name: "cancel-in-the-same-block"}
	defer s.c.close()
	c := s.c
	bal := func(i int) sdk.Int { return c.app.BankKeeper.GetBalance(c.ctx(), c.addrOf(i), "nund").Amount }
	escrow := func() sdk.Int {
		return c.app.BankKeeper.GetBalance(c.ctx(), moduleAddr(strtypes.ModuleName), "nund").Amount
	}
	deposits := func() sdk.Int {
		t := sdk.ZeroInt()
		c.app.StreamKeeper.IterateAllStreams(c.ctx(), func(_, _ sdk.AccAddress, st strtypes.Stream) bool {
			if st.Deposit.Denom == "nund" {
				t = t.Add(st.Deposit.Amount)
			}
			return false
		})
		return t
	}
	s.blockStart(5 * time.Second)
	b0 := bal(0)
	if r := s.tx(0, nundCoins(0), c.mStrCreate(0, 1, "nund", sdk.NewInt(6000), 10).m); r.Code != 0 {
		s.blockEnd()
		return s.failures
	}
	rc := s.tx(0, nundCoins(0), c.mStrCancel(0, 1).m)
	if rc.Code != 0 || !bal(0).Equal(b0) || !escrow().Equal(deposits()) {
		for _, prop := range []string{"C12", "C10"} {
			s.fail(prop, 0, fmt.Sprintf("create 6000 then cancel in the same block: cancel code %d, sender balance %s (was %s), escrow %s, deposits %s", rc.Code, bal(0), b0, escrow(), deposits()))
		}
	}
	s.blockEnd()
	s.blockStart(5 * time.Second)
	b0 = bal(0)
	s.tx(0, nundCoins(0), c.mStrCreate(0, 1, "nund", sdk.NewInt(6000), 10).m)
	s.blockEnd()
	s.blockStart(100 * time.Second)
	s.tx(1, nundCoins(0), c.mStrClaim(0, 1).m) // releases 1000
	rc = s.tx(0, nundCoins(0), c.mStrCancel(0, 1).m)
	if rc.Code != 0 || !bal(0).Equal(b0.Sub(sdk.NewInt(1000))) || !escrow().Equal(deposits()) {
		for _, prop := range []string{"C12", "C10"} {
			s.fail(prop, 0, fmt.Sprintf("claim then cancel in the same block, 100 s into a 6000 @ 10/s stream: cancel code %d, sender got back %s of the unreleased 5000, escrow %s, deposits %s", rc.Code, bal(0).Sub(b0.Sub(sdk.NewInt(6000))), escrow(), deposits()))
		}
	}
	s.blockEnd()
	return s.failures
}

// C17: more than 100 denominations sort before the native one in the bank's supply store (IBC vouchers "ibc/<HEX>"):
// whatever page shape a client asks for - none at all, one big page, or a walk by key - every figure served is the
// bank's supply, less locked eFUND for the native denomination only, and no denomination is served twice.
func scenManyDenominationsSupply() []monFailure {
	cfg := fixedCfg()
	var extra sdk.Coins
	for i := 0; i < 130; i++ {
		extra = extra.Add(sdk.NewInt64Coin(fmt.Sprintf("ibc/%064X", 1000+i), int64(1000+i)))
	}
	cfg.extraCoins = extra
	s := &scen{c: newChain(cfg), name: "supply-with-many-denominations"}
	defer s.c.close()
	c := s.c
	ek := c.app.EnterpriseKeeper
	s.blockStart(5 * time.Second)
	s.tx(4, nundCoins(10), enttypes.NewMsgUndPurchaseOrder(c.addrOf(4), sdk.NewInt64Coin("nund", 1_000_000)))
	s.tx(0, nundCoins(10), &enttypes.MsgProcessUndPurchaseOrder{PurchaseOrderId: 1, Decision: enttypes.StatusAccepted, Signer: c.addrOf(0).String()})
	s.tx(1, nundCoins(10), &enttypes.MsgProcessUndPurchaseOrder{PurchaseOrderId: 1, Decision: enttypes.StatusAccepted, Signer: c.addrOf(1).String()})
	s.blockEnd()
	for i := 0; i < 2; i++ {
		s.blockStart(5 * time.Second)
		s.blockEnd()
	}
	ctx := c.committedCtx()
	gctx := sdk.WrapSDKContext(ctx)
	native := ek.GetParamDenom(ctx)
	locked := ek.GetTotalLockedUnd(ctx).Amount
	if !locked.IsPositive() {
		return s.failures // set-up did not lock anything: nothing to observe
	}
	bank := map[string]sdk.Int{}
	c.app.BankKeeper.IterateTotalSupply(ctx, func(coin sdk.Coin) bool { bank[coin.Denom] = coin.Amount; return false })
	want := func(d string) sdk.Int {
		if d == native {
			return bank[d].Sub(locked)
		}
		return bank[d]
	}
	checkPage := func(how string, coins sdk.Coins, seen map[string]int) {
		for _, x := range coins {
			seen[x.Denom]++
			if _, ok := bank[x.Denom]; !ok {
				s.fail("C17", 0, fmt.Sprintf("TotalSupply (%s) serves %s which the bank does not have", how, x))
			} else if !x.Amount.Equal(want(x.Denom)) {
				s.fail("C17", 0, fmt.Sprintf("TotalSupply (%s) serves %s; the bank's supply is %s%s and %s %s are locked", how, x, bank[x.Denom], x.Denom, locked, native))
			}
			if seen[x.Denom] > 1 {
				s.fail("C17", 0, fmt.Sprintf("TotalSupply (%s) serves %s more than once", how, x.Denom))
			}
		}
	}
	for _, h := range []struct {
		how string
		pg  *query.PageRequest
		all bool
	}{{"no pagination", nil, false}, {"one page of 1000", &query.PageRequest{Limit: 1000}, true}, {"one page of 1000, reverse", &query.PageRequest{Limit: 1000, Reverse: true}, true}} {
		for hi, call := range []func(*enttypes.QueryTotalSupplyRequest) (*enttypes.QueryTotalSupplyResponse, error){
			func(r *enttypes.QueryTotalSupplyRequest) (*enttypes.QueryTotalSupplyResponse, error) {
				return ek.TotalSupply(gctx, r)
			},
			func(r *enttypes.QueryTotalSupplyRequest) (*enttypes.QueryTotalSupplyResponse, error) {
				return ek.TotalSupplyOverwrite(gctx, r)
			},
		} {
			var res *enttypes.QueryTotalSupplyResponse
			var err error
			if !safely(func() { res, err = call(&enttypes.QueryTotalSupplyRequest{Pagination: h.pg}) }) || err != nil || res == nil {
				s.fail("C17", 0, fmt.Sprintf("TotalSupply (%s, handler %d) failed: %v", h.how, hi, err))
				continue
			}
			seen := map[string]int{}
			checkPage(fmt.Sprintf("%s, handler %d", h.how, hi), res.Supply, seen)
			if h.all && len(seen) != len(bank) {
				s.fail("C17", 0, fmt.Sprintf("TotalSupply (%s, handler %d) serves %d of the bank's %d denominations", h.how, hi, len(seen), len(bank)))
			}
		}
	}
	for _, limit := range []uint64{7, 50, 100} {
		seen := map[string]int{}
		var key []byte
		for page := 0; page < 200; page++ {
			res, err := ek.TotalSupply(gctx, &enttypes.QueryTotalSupplyRequest{Pagination: &query.PageRequest{Key: key, Limit: limit}})
			if err != nil {
				s.fail("C17", 0, fmt.Sprintf("TotalSupply walk (limit %d) page %d failed: %v", limit, page, err))
				break
			}
			checkPage(fmt.Sprintf("walk by key, limit %d, page %d", limit, page), res.Supply, seen)
			if res.Pagination == nil || len(res.Pagination.NextKey) == 0 {
				break
			}
			key = res.Pagination.NextKey
		}
		if len(seen) != len(bank) {
			s.fail("C17", 0, fmt.Sprintf("walking TotalSupply by key with limit %d serves %d of the bank's %d denominations", limit, len(seen), len(bank)))
		}
	}
	return s.failures
}

// C05: locked eFUND moves only for the fee payer of a transaction with a top-level WRKChain / BEACON register, record or
// purchase message.  Every OTHER message a locked holder can sign - including the two registry modules' own
// MsgUpdateParams (authority = the signer itself: it fails at execution, but the ante effects of a failed transaction
// persist) - must leave locked and spent eFUND exactly as they were; the fee comes out of the liquid balance.
func scenOnlyRegistryMsgsUnlock() []monFailure {
	s := &scen{c: newChain(fixedCfg()), name: "only-registry-messages-unlock"}
	defer s.c.close()
	c := s.c
	ek := c.app.EnterpriseKeeper
	s.blockStart(5 * time.Second)
	s.tx(4, nundCoins(0), c.mEntRaise(4, "nund", sdk.NewInt(500000)).m)
	s.tx(0, nundCoins(0), c.mEntDecide(0, 1, 2).m)
	s.tx(1, nundCoins(0), c.mEntDecide(1, 1, 2).m)
	s.blockEnd()
	for i := 0; i < 2; i++ {
		s.blockStart(5 * time.Second)
		s.blockEnd()
	}
	s.blockStart(5 * time.Second)
	me := c.addrOf(4)
	if !ek.GetLockedUndAmountForAccount(c.ctx(), me).Amount.Equal(sdk.NewInt(500000)) {
		s.blockEnd()
		return s.failures // set-up did not lock: nothing to observe
	}
	self := me.String()
	msgs := map[string]sdk.Msg{
		"bank MsgSend":               banktypes.NewMsgSend(me, c.addrOf(0), nundCoins(5)),
		"beacon MsgUpdateParams":     &bcntypes.MsgUpdateParams{Authority: self, Params: bcntypes.NewParams(1000, 10, 5, "nund", 2, 5)},
		"wrkchain MsgUpdateParams":   &wrktypes.MsgUpdateParams{Authority: self, Params: wrktypes.NewParams(1000, 10, 5, "nund", 2, 5)},
		"enterprise MsgUpdateParams": &enttypes.MsgUpdateParams{Authority: self, Params: ek.GetParams(c.ctx())},
		"stream MsgUpdateParams":     &strtypes.MsgUpdateParams{Authority: self, Params: strtypes.NewParams(sdk.NewDecWithPrec(1, 2))},
		"stream MsgCreateStream":     c.mStrCreate(4, 1, "nund", sdk.NewInt(6000), 10).m,
		"enterprise purchase order":  c.mEntRaise(4, "nund", sdk.NewInt(7)).m,
	}
	var names []string
	for n := range msgs {
		names = append(names, n)
	}
	sort.Strings(names)
	for _, n := range names {
		lockedBefore := ek.GetLockedUndAmountForAccount(c.ctx(), me).Amount
		spentBefore := ek.GetSpentEFUNDAmountForAccount(c.ctx(), me).Amount
		totalBefore := ek.GetTotalLockedUnd(c.ctx()).Amount
		r := s.tx(4, nundCoins(3000), msgs[n])
		l, sp, t := ek.GetLockedUndAmountForAccount(c.ctx(), me).Amount, ek.GetSpentEFUNDAmountForAccount(c.ctx(), me).Amount, ek.GetTotalLockedUnd(c.ctx()).Amount
		if !l.Equal(lockedBefore) || !sp.Equal(spentBefore) || !t.Equal(totalBefore) {
			s.fail("C05", 0, fmt.Sprintf("a transaction carrying only %s (code %d, fee 3000nund) signed by a holder of locked eFUND changed the books: locked %s -> %s, spent %s -> %s, total locked %s -> %s", n, r.Code, lockedBefore, l, spentBefore, sp, totalBefore, t))
		}
	}
	s.blockEnd()
	return s.failures
}

// ---- round 7: export / import glue ----

// C03 / C09 / C13 / C07 / C12 / C15: a chain whose genesis numbering does not start at 1 holds a completed purchase
// order, a WRKChain registered WITHOUT a base type (legal) with recorded hashes, a BEACON with timestamps and a stream
// between addresses of different lengths.  It is exported and a fresh chain started from the document.  Then other
// accounts raise an order and register: everything that existed keeps its id, content, owner and records; the new
// entities get fresh ids; only the owners can record.
func scenStartingIdsAcrossExport() []monFailure {
	cfg := fixedCfg()
	cfg.startPO, cfg.startWrk, cfg.startBcn = 5, 100, 50
	cfg.wrkParams = wrktypes.NewParams(1000, 10, 5, "nund", 4, 5) // four records stay in state: nothing below is pruned
	cfg.bcnParams = bcntypes.NewParams(1000, 10, 5, "nund", 4, 5)
	s := &scen{c: newChain(cfg), name: "starting-ids-across-export"}
	defer s.c.close()
	c := s.c
	all := func(what string) {
		for _, p := range []string{"C03", "C09", "C13", "C15"} {
			s.fail(p, 0, what)
		}
	}
	s.blockStart(5 * time.Second)
	s.tx(4, nundCoins(0), c.mEntRaise(4, "nund", sdk.NewInt(100)).m)
	s.tx(0, nundCoins(0), c.mEntDecide(0, 5, 2).m)
	s.tx(1, nundCoins(0), c.mEntDecide(1, 5, 2).m)
	s.tx(2, nundCoins(1000), c.mRegRegister(true, 2, "w-one", "name one", "0x5c3a1f", "").m) // no base type
	s.tx(2, nundCoins(1000), c.mRegRegister(false, 2, "b-one", "beacon one", "", "").m)
	s.tx(2, nundCoins(10), c.mRegRecord(true, 2, 100, 1, []string{"wh1", "p", "a", "b", "c"}).m)
	s.tx(2, nundCoins(10), c.mRegRecord(true, 2, 100, 2, []string{"wh2", "p", "", "", ""}).m)
	s.tx(2, nundCoins(10), c.mRegRecord(false, 2, 50, uint64(c.now.Unix()), []string{"bh1"}).m)
	// a stream from a 32-byte sender (a module / group-policy style account) to a 20-byte receiver, written through the keeper
	long := make([]byte, 32)
	for i := range long {
		long[i] = byte(7*i + 3)
	}
	c.app.StreamKeeper.SetStream(c.ctx(), c.addrOf(1), sdk.AccAddress(long), strtypes.Stream{Deposit: sdk.NewInt64Coin("nund", 0), FlowRate: 1, LastOutflowTime: c.now, DepositZeroTime: c.now, Cancellable: true})
	s.blockEnd()
	for i := 0; i < 2; i++ {
		s.blockStart(5 * time.Second)
		s.blockEnd()
	}
	snap := func() map[string]string {
		ctx := c.committedCtx()
		m := map[string]string{}
		po, _ := c.app.EnterpriseKeeper.GetPurchaseOrder(ctx, 5)
		m["purchase order 5"] = po.String()
		wc, _ := c.app.WrkchainKeeper.GetWrkChain(ctx, 100)
		m["WRKChain 100"] = wc.String()
		for _, h := range []uint64{1, 2} {
			b, ok := c.app.WrkchainKeeper.GetWrkChainBlock(ctx, 100, h)
			m[fmt.Sprintf("WRKChain 100 height %d", h)] = fmt.Sprint(ok, " ", b.String())
		}
		b, _ := c.app.BeaconKeeper.GetBeacon(ctx, 50)
		m["BEACON 50"] = b.String()
		t, ok := c.app.BeaconKeeper.GetBeaconTimestampByID(ctx, 50, 1)
		m["BEACON 50 timestamp 1"] = fmt.Sprint(ok, " ", t.String())
		st, ok := c.app.StreamKeeper.GetStream(ctx, c.addrOf(1), sdk.AccAddress(long))
		m["stream 32-byte sender -> account 1"] = fmt.Sprint(ok, " ", st.String())
		return m
	}
	before := snap()
	if before["purchase order 5"] == "" || !strings.Contains(before["purchase order 5"], "STATUS_COMPLETED") {
		return s.failures // set-up did not complete the order: nothing to observe
	}
	_, problems := c.reimport()
	for _, p := range problems {
		what := "export + import of a chain numbered from 5 / 100 / 50: " + p
		s.fail("C15", 0, what)
		switch { // the property whose module the problem is in
		case strings.Contains(p, "enterprise"):
			s.fail("C03", 0, what)
		case strings.Contains(p, "wrkchain"):
			s.fail("C09", 0, what)
			s.fail("C07", 0, what)
		case strings.Contains(p, "beacon"):
			s.fail("C13", 0, what)
		case strings.Contains(p, "stream"):
			s.fail("C12", 0, what)
			s.fail("C18", 0, what)
		default:
			all(what)
		}
	}
	if len(problems) > 0 && strings.Contains(problems[0], "panicked") {
		return s.failures
	}
	check := func(stage string) {
		after := snap()
		for k, v := range before {
			if after[k] != v {
				what := fmt.Sprintf("%s: %s changed: was %.200s, is %.200s", stage, k, v, after[k])
				all(what)
				if strings.HasPrefix(k, "WRKChain 100 height") {
					s.fail("C07", 0, what)
				}
				if strings.HasPrefix(k, "stream") {
					s.fail("C12", 0, what)
					s.fail("C18", 0, what)
				}
			}
		}
	}
	check("after export + import")
	// other accounts now raise an order and register
	s.blockStart(5 * time.Second)
	s.tx(0, nundCoins(0), c.mEntWhitelist(0, 3, 1).m)
	s.tx(3, nundCoins(0), c.mEntRaise(3, "nund", sdk.NewInt(7)).m)
	s.tx(3, nundCoins(1000), c.mRegRegister(true, 3, "w-two", "name two", "0xbeef", "t").m)
	s.tx(3, nundCoins(1000), c.mRegRegister(false, 3, "b-two", "beacon two", "", "").m)
	if r := s.tx(3, nundCoins(10), c.mRegRecord(true, 3, 100, 9, []string{"intruder", "", "", "", ""}).m); r.Code == 0 {
		all("after export + import a record on WRKChain 100 signed by an account that registered AFTER the restart was accepted")
	}
	if r := s.tx(2, nundCoins(10), c.mRegRecord(true, 2, 100, 3, []string{"wh3", "", "", "", ""}).m); r.Code != 0 {
		all("after export + import the owner of WRKChain 100 is refused: " + firstLine(r.Log))
	}
	s.blockEnd()
	// its cursor legitimately moved with the owner's record at height 3
	delete(before, "WRKChain 100")
	check("after new registrations on the restarted chain")
	ctx := c.committedCtx()
	if po, ok := c.app.EnterpriseKeeper.GetPurchaseOrder(ctx, 6); !ok || po.Purchaser != c.addrOf(3).String() {
		all(fmt.Sprintf("the order raised after the restart is not purchase order 6 of account 3 (found %v: %s)", ok, po.String()))
	}
	if wc, ok := c.app.WrkchainKeeper.GetWrkChain(ctx, 101); !ok || wc.Owner != c.addrOf(3).String() {
		all(fmt.Sprintf("the WRKChain registered after the restart is not WRKChain 101 of account 3 (found %v: %s)", ok, wc.String()))
	}
	if b, ok := c.app.BeaconKeeper.GetBeacon(ctx, 51); !ok || b.Owner != c.addrOf(3).String() {
		all(fmt.Sprintf("the BEACON registered after the restart is not BEACON 51 of account 3 (found %v: %s)", ok, b.String()))
	}
	return s.failures
}

// C02 / C15: a zero-height export (und export --for-zero-height) taken in the one-block window in which an order is
// accepted but not yet minted neither mints nor loses it: the exported bank supply is the chain's, and on the chain
// started from the document the order is minted exactly once, in a block.
func scenZeroHeightExportInMintWindow() []monFailure {
	s := &scen{c: newChain(fixedCfg()), name: "zero-height-export-in-mint-window"}
	defer s.c.close()
	c := s.c
	s.blockStart(5 * time.Second)
	s.tx(4, nundCoins(0), c.mEntRaise(4, "nund", sdk.NewInt(1_000_000)).m)
	s.tx(0, nundCoins(0), c.mEntDecide(0, 1, 2).m)
	s.tx(1, nundCoins(0), c.mEntDecide(1, 1, 2).m)
	s.blockEnd()
	s.blockStart(5 * time.Second) // the tally accepts the order
	s.blockEnd()
	po, _ := c.app.EnterpriseKeeper.GetPurchaseOrder(c.committedCtx(), 1)
	if po.Status != enttypes.StatusAccepted {
		return s.failures
	}
	supplyBefore := c.app.BankKeeper.GetSupply(c.committedCtx(), "nund").Amount
	exp, err := c.app.ExportAppStateAndValidators(true, nil, nil)
	if err != nil {
		s.fail("C15", 0, "zero-height export failed: "+err.Error())
		return s.failures
	}
	var g map[string]json.RawMessage
	json.Unmarshal(exp.AppState, &g)
	var bank banktypes.GenesisState
	c.app.AppCodec().MustUnmarshalJSON(g["bank"], &bank)
	if got := bank.Supply.AmountOf("nund"); !got.Equal(supplyBefore) {
		for _, p := range []string{"C02", "C15"} {
			s.fail(p, 0, fmt.Sprintf("a zero-height export taken while purchase order 1 (1000000nund) was accepted but not yet minted writes a bank supply of %snund; the chain's supply is %snund: the export minted outside any block", got, supplyBefore))
		}
	}
	var eg enttypes.GenesisState
	c.app.AppCodec().MustUnmarshalJSON(g["enterprise"], &eg)
	for _, o := range eg.PurchaseOrders {
		if o.Id == 1 && o.Status != enttypes.StatusAccepted {
			for _, p := range []string{"C02", "C03", "C15"} {
				s.fail(p, 0, fmt.Sprintf("the zero-height export writes purchase order 1 as %s; on the chain it is accepted and not yet minted", o.Status))
			}
		}
	}
	return s.failures
}

// C04 / C15: an account that has spent ALL of its locked eFUND (locked exactly 0, spent > 0) keeps its books through
// export + import: locked + spent = its completed orders, total spent = sum of spent.
func scenEmptiedAccountSurvivesExport() []monFailure {
	s := &scen{c: newChain(fixedCfg()), name: "emptied-account-survives-export"}
	defer s.c.close()
	c := s.c
	ek := c.app.EnterpriseKeeper
	s.blockStart(5 * time.Second)
	s.tx(0, nundCoins(0), c.mEntWhitelist(0, 3, 1).m)
	s.tx(4, nundCoins(0), c.mEntRaise(4, "nund", sdk.NewInt(1000)).m)
	s.tx(3, nundCoins(0), c.mEntRaise(3, "nund", sdk.NewInt(5000)).m)
	for _, id := range []uint64{1, 2} {
		s.tx(0, nundCoins(0), c.mEntDecide(0, id, 2).m)
		s.tx(1, nundCoins(0), c.mEntDecide(1, id, 2).m)
	}
	s.blockEnd()
	for i := 0; i < 2; i++ {
		s.blockStart(5 * time.Second)
		s.blockEnd()
	}
	s.blockStart(5 * time.Second)
	s.tx(4, nundCoins(1000), c.mRegRegister(true, 4, "w", "n", "g", "t").m) // spends all 1000 of account 4
	s.tx(3, nundCoins(1000), c.mRegRegister(false, 3, "b", "n", "", "").m)  // spends 1000 of account 3's 5000
	s.blockEnd()
	ctx := c.committedCtx()
	if !ek.GetLockedUndAmountForAccount(ctx, c.addrOf(4)).Amount.IsZero() || !ek.GetSpentEFUNDAmountForAccount(ctx, c.addrOf(4)).Amount.Equal(sdk.NewInt(1000)) {
		return s.failures // set-up did not empty the account: nothing to observe
	}
	_, problems := c.reimport()
	for _, p := range problems {
		s.fail("C15", 0, "export + import with an emptied eFUND account: "+p)
		s.fail("C04", 0, "export + import with an emptied eFUND account: "+p)
	}
	if len(problems) > 0 && strings.Contains(problems[0], "panicked") {
		return s.failures
	}
	ctx, ek = c.committedCtx(), c.app.EnterpriseKeeper
	sumSpent := sdk.ZeroInt()
	for _, x := range ek.GetAllSpentEFUNDs(ctx) {
		sumSpent = sumSpent.Add(x.Amount.Amount)
	}
	for acct, orders := range map[int]int64{4: 1000, 3: 5000} {
		l, sp := ek.GetLockedUndAmountForAccount(ctx, c.addrOf(acct)).Amount, ek.GetSpentEFUNDAmountForAccount(ctx, c.addrOf(acct)).Amount
		if !l.Add(sp).Equal(sdk.NewInt(orders)) {
			for _, p := range []string{"C04", "C15"} {
				s.fail(p, 0, fmt.Sprintf("after export + import account %d holds %s locked + %s spent eFUND; its completed orders sum to %d", acct, l, sp, orders))
			}
		}
	}
	if ts := ek.GetTotalSpentEFUND(ctx).Amount; !ts.Equal(sumSpent) {
		for _, p := range []string{"C04", "C15"} {
			s.fail(p, 0, fmt.Sprintf("after export + import total spent is %s, the per-account spent entries sum to %s", ts, sumSpent))
		}
	}
	return s.failures
}

// C06 (round 8): the exact-fee rule over message LAYOUTS.  A registry message may stand before, after or between
// other messages - bank sends, authz MsgExec wrapping one, two or three harmless messages - and CheckTx must admit the
// transaction only at the exact sum of the top-level registry messages' fees (registry messages nested in MsgExec are the
// listed finding and are not used here).
func scenFeeRuleOverLayouts() []monFailure {
	s := &scen{c: newChain(fixedCfg()), name: "fee-rule-over-message-layouts"}
	defer s.c.close()
	c := s.c
	s.blockStart(5 * time.Second)
	s.tx(2, nundCoins(1000), c.mRegRegister(true, 2, "w", "n", "g", "t").m)
	s.tx(2, nundCoins(1000), c.mRegRegister(false, 2, "b", "n", "", "").m)
	s.blockEnd()
	s.blockStart(5 * time.Second)
	s.blockEnd()
	send := func() mmsg { return c.mSend(2, 3, nundCoins(1)) }
	exec := func(n int) mmsg {
		var in []mmsg
		for i := 0; i < n; i++ {
			in = append(in, send())
		}
		return c.mExec(2, in)
	}
	h := uint64(10)
	rec := func(wrk bool) mmsg {
		h++
		if wrk {
			return c.mRegRecord(true, 2, 1, h, []string{"x", "", "", "", ""})
		}
		return c.mRegRecord(false, 2, 1, uint64(c.now.Unix()), []string{"x"})
	}
	type layout struct {
		what string
		msgs []mmsg
		cost int64 // record fee 10 each
	}
	for _, wrk := range []bool{true, false} {
		layouts := []layout{
			{"[record]", []mmsg{rec(wrk)}, 10},
			{"[send, record]", []mmsg{send(), rec(wrk)}, 10},
			{"[record, send]", []mmsg{rec(wrk), send()}, 10},
			{"[exec{send}, record]", []mmsg{exec(1), rec(wrk)}, 10},
			{"[exec{send,send}, record]", []mmsg{exec(2), rec(wrk)}, 10},
			{"[exec{send,send,send}, record]", []mmsg{exec(3), rec(wrk)}, 10},
			{"[record, exec{send,send}]", []mmsg{rec(wrk), exec(2)}, 10},
			{"[exec{send,send}, record, record]", []mmsg{exec(2), rec(wrk), rec(wrk)}, 20},
			{"[send, exec{send,send}, send, record]", []mmsg{send(), exec(2), send(), rec(wrk)}, 10},
			{"[record, exec{send,send}, record]", []mmsg{rec(wrk), exec(2), rec(wrk)}, 20},
		}
		for _, l := range layouts {
			var msgs []sdk.Msg
			for _, m := range l.msgs {
				msgs = append(msgs, m.m)
			}
			for _, fee := range []int64{0, 1, l.cost / 2, l.cost - 1, l.cost, l.cost + 1, 2 * l.cost} {
				ts := txSpec{msgs: msgs, fee: nundCoins(fee), signers: []acct{c.accts[2]}}
				if fee == 0 {
					ts.fee = sdk.Coins{}
				}
				r, _ := c.check(ts)
				if r.Code == 0 && fee != l.cost {
					s.fail("C06", 0, fmt.Sprintf("CheckTx admitted %s (wrkchain=%v) offering %dnund; the registry messages it carries cost %dnund", l.what, wrk, fee, l.cost))
				}
				if r.Code != 0 && fee == l.cost && !strings.Contains(r.Log, "authorization not found") {
					s.fail("C06", 0, fmt.Sprintf("CheckTx refused %s (wrkchain=%v) at the exact fee of %dnund: %s", l.what, wrk, fee, firstLine(r.Log)))
				}
			}
		}
	}
	return s.failures
}

// C03 / C02 (round 8): queues longer than a query page.  120 orders are raised and left undecided; order 121 reaches its
// quorum: it is accepted at the next BeginBlock and completed (minted, locked) in the one after.  Then 110 of the old
// orders get their quorum in ONE block: all 110 are accepted together and all 110 are completed in the following block,
// the supply rising by exactly their sum.
func scenQueuesLongerThanAPage() []monFailure {
	s := &scen{c: newChain(fixedCfg()), name: "queues-longer-than-a-page"}
	defer s.c.close()
	c := s.c
	ek := func() entkeeper.Keeper { return c.app.EnterpriseKeeper }
	status := func(id uint64) enttypes.PurchaseOrderStatus {
		po, _ := ek().GetPurchaseOrder(c.committedCtx(), id)
		return po.Status
	}
	for b := 0; b < 6; b++ { // 20 per block
		s.blockStart(5 * time.Second)
		for i := 0; i < 20; i++ {
			s.tx(4, nundCoins(0), c.mEntRaise(4, "nund", sdk.NewInt(int64(1000+20*b+i))).m)
		}
		s.blockEnd()
	}
	s.blockStart(5 * time.Second)
	s.tx(4, nundCoins(0), c.mEntRaise(4, "nund", sdk.NewInt(777)).m) // order 121
	s.tx(0, nundCoins(0), c.mEntDecide(0, 121, 2).m)
	s.tx(1, nundCoins(0), c.mEntDecide(1, 121, 2).m)
	s.blockEnd()
	if status(121) != enttypes.StatusRaised || status(120) != enttypes.StatusRaised {
		return s.failures // set-up did not work
	}
	s.blockStart(5 * time.Second)
	s.blockEnd()
	if st := status(121); st != enttypes.StatusAccepted {
		s.fail("C03", 0, fmt.Sprintf("purchase order 121 reached its quorum (2 accepts of 2 needed) behind 120 undecided older orders; after the next BeginBlock it is %s, not accepted", st))
	}
	s.blockStart(5 * time.Second)
	s.blockEnd()
	if st := status(121); st != enttypes.StatusCompleted {
		s.fail("C03", 0, fmt.Sprintf("purchase order 121 is %s two blocks after reaching its quorum (behind 120 undecided older orders), not completed", st))
	}
	// 110 old orders reach quorum in one block
	supplyBefore := c.app.BankKeeper.GetSupply(c.committedCtx(), "nund").Amount
	s.blockStart(5 * time.Second)
	want := sdk.ZeroInt()
	for id := uint64(1); id <= 110; id++ {
		s.tx(0, nundCoins(0), c.mEntDecide(0, id, 2).m)
		s.tx(1, nundCoins(0), c.mEntDecide(1, id, 2).m)
		po, _ := ek().GetPurchaseOrder(c.ctx(), id)
		want = want.Add(po.Amount.Amount)
	}
	s.blockEnd()
	s.blockStart(5 * time.Second)
	s.blockEnd()
	notAcc := 0
	for id := uint64(1); id <= 110; id++ {
		if status(id) != enttypes.StatusAccepted {
			notAcc++
		}
	}
	if notAcc > 0 {
		s.fail("C03", 0, fmt.Sprintf("110 orders reached their quorum in one block; after the next BeginBlock %d of them are not accepted", notAcc))
	}
	s.blockStart(5 * time.Second)
	s.blockEnd()
	notDone := 0
	for id := uint64(1); id <= 110; id++ {
		if status(id) != enttypes.StatusCompleted {
			notDone++
		}
	}
	if notDone > 0 {
		s.fail("C03", 0, fmt.Sprintf("110 orders were accepted in one BeginBlock; after the following BeginBlock %d of them are not completed", notDone))
	}
	if got := c.app.BankKeeper.GetSupply(c.committedCtx(), "nund").Amount.Sub(supplyBefore); notAcc == 0 && !got.Equal(want) {
		s.fail("C02", 0, fmt.Sprintf("110 orders summing to %snund were accepted in one BeginBlock; the following BeginBlocks raised the supply by %snund", want, got))
	}
	return s.failures
}

// C14 / C03 (round 8): an order holds one accept and one reject, undecided under signers {0,1,2} / 2 accepts needed.
// Governance then replaces the signer list by {2} with 1 accept needed: the order now meets BOTH thresholds.  Whatever
// the tally decides, the following BeginBlocks must not panic and the order's status must agree with the queues.
func scenAcceptAndRejectThresholdsBothMet() []monFailure {
	s := &scen{c: newChain(fixedCfg()), name: "accept-and-reject-thresholds-both-met"}
	defer s.c.close()
	c := s.c
	gov := authtypes.NewModuleAddress("gov").String()
	s.blockStart(5 * time.Second)
	s.tx(4, nundCoins(0), c.mEntRaise(4, "nund", sdk.NewInt(4242)).m)
	s.tx(0, nundCoins(0), c.mEntDecide(0, 1, 2).m) // accept
	s.tx(1, nundCoins(0), c.mEntDecide(1, 1, 3).m) // reject
	s.blockEnd()
	p := c.app.EnterpriseKeeper.GetParams(c.committedCtx())
	p.EntSigners, p.MinAccepts = c.addrOf(2).String(), 1
	var pid uint64
	prop, found := s.govPass(&pid, &enttypes.MsgUpdateParams{Authority: gov, Params: p})
	if !found || prop.Status != govv1.StatusPassed {
		return s.failures
	}
	if po, _ := c.app.EnterpriseKeeper.GetPurchaseOrder(c.committedCtx(), 1); po.Status != enttypes.StatusRaised {
		return s.failures // decided before the parameter change: nothing to observe
	}
	supply := c.app.BankKeeper.GetSupply(c.committedCtx(), "nund").Amount
	for b := 0; b < 4; b++ {
		if pv := s.blockStart(5 * time.Second); pv != nil {
			for _, prop := range []string{"C14", "C03"} {
				s.fail(prop, 0, fmt.Sprintf("BeginBlock %d after the signer list was replaced (order 1 holds one accept and one reject, both thresholds met) panicked: %v", b+1, pv))
			}
			return s.failures
		}
		s.blockEnd()
	}
	ctx := c.committedCtx()
	po, _ := c.app.EnterpriseKeeper.GetPurchaseOrder(ctx, 1)
	grew := c.app.BankKeeper.GetSupply(ctx, "nund").Amount.Sub(supply)
	switch po.Status {
	case enttypes.StatusCompleted:
		if !grew.Equal(sdk.NewInt(4242)) {
			s.fail("C02", 0, fmt.Sprintf("order 1 (4242nund) completed; the supply grew by %snund", grew))
		}
	case enttypes.StatusRejected:
		if !grew.IsZero() {
			s.fail("C02", 0, fmt.Sprintf("order 1 was rejected; the supply grew by %snund", grew))
		}
	default:
		s.fail("C03", 0, fmt.Sprintf("four blocks after order 1 met a threshold it is still %s", po.Status))
	}
	return s.failures
}

// C12 / C11 (round 8): two operations on one stream in the same block second.  A stream runs dry and is claimed empty;
// long afterwards the sender changes the flow rate and tops up IN THE SAME BLOCK; ten seconds later the sender cancels:
// the refund is the top-up minus ten seconds of flow, the receiver gets ten seconds of flow less the validator fee.
func scenUpdateAndTopUpSameBlock() []monFailure {
	s := &scen{c: newChain(fixedCfg()), name: "update-flow-and-top-up-in-one-block"}
	defer s.c.close()
	c := s.c
	s.blockStart(5 * time.Second)
	if r := s.tx(0, nundCoins(0), c.mStrCreate(0, 1, "nund", sdk.NewInt(1000), 10).m); r.Code != 0 {
		s.blockEnd()
		return s.failures
	}
	s.blockEnd()
	s.blockStart(200 * time.Second)
	s.tx(1, nundCoins(0), c.mStrClaim(0, 1).m) // drained: deposit 0
	s.blockEnd()
	s.blockStart(5000 * time.Second)
	r1 := s.tx(0, nundCoins(0), c.mStrUpdate(0, 1, 20).m)
	r2 := s.tx(0, nundCoins(0), c.mStrTopUp(0, 1, "nund", sdk.NewInt(6000)).m)
	s.blockEnd()
	if r1.Code != 0 || r2.Code != 0 {
		return s.failures
	}
	s.blockStart(10 * time.Second)
	before := c.app.BankKeeper.GetBalance(c.ctx(), c.addrOf(0), "nund").Amount
	r := s.tx(0, nundCoins(0), c.mStrCancel(0, 1).m)
	refund := c.app.BankKeeper.GetBalance(c.ctx(), c.addrOf(0), "nund").Amount.Sub(before)
	s.blockEnd()
	if r.Code != 0 {
		s.fail("C12", 0, "the cancel of a funded stream failed: "+firstLine(r.Log))
	} else if !refund.Equal(sdk.NewInt(5800)) {
		for _, prop := range []string{"C12", "C11"} {
			s.fail(prop, 0, fmt.Sprintf("a drained stream was re-rated to 20/s and topped up with 6000nund in one block; the cancel 10 s later refunds %snund, the unreleased remainder is 5800nund", refund))
		}
	}
	return s.failures
}

// C07 (round 8): stale heights in every wrapping.  With heights 10, 20, 30 recorded: a transaction [record 50, record 40],
// a record at 25 (a gap) or 5 nested in MsgExec by the owner, and a plain record at 20 with other hashes must all be
// refused; the cursor stays at 30 and the three records read back as submitted.
func scenStaleHeightsInEveryWrapping() []monFailure {
	cfg := fixedCfg()
	cfg.wrkParams = wrktypes.NewParams(1000, 10, 5, "nund", 4, 5)
	s := &scen{c: newChain(cfg), name: "stale-heights-in-every-wrapping"}
	defer s.c.close()
	c := s.c
	s.blockStart(5 * time.Second)
	s.tx(2, nundCoins(1000), c.mRegRegister(true, 2, "w", "n", "g", "t").m)
	for _, h := range []uint64{10, 20, 30} {
		s.tx(2, nundCoins(10), c.mRegRecord(true, 2, 1, h, []string{fmt.Sprintf("h%d", h), "p", "", "", ""}).m)
	}
	s.blockEnd()
	snap := func() string {
		ctx := c.committedCtx()
		wc, _ := c.app.WrkchainKeeper.GetWrkChain(ctx, 1)
		out := fmt.Sprintf("last=%d", wc.Lastblock)
		for _, h := range []uint64{10, 20, 30} {
			b, ok := c.app.WrkchainKeeper.GetWrkChainBlock(ctx, 1, h)
			out += fmt.Sprintf(" | %d:%v:%s", h, ok, b.Blockhash)
		}
		return out
	}
	want := snap()
	if !strings.HasPrefix(want, "last=30") {
		return s.failures
	}
	rec := func(h uint64, tag string) mmsg { return c.mRegRecord(true, 2, 1, h, []string{tag, "p", "", "", ""}) }
	tries := []struct {
		what string
		fee  int64
		msgs []mmsg
	}{
		{"[record 50, record 40] in one transaction", 20, []mmsg{rec(50, "x50"), rec(40, "x40")}},
		{"MsgExec{record 25} by the owner (a height in a gap below the cursor)", 0, []mmsg{c.mExec(2, []mmsg{rec(25, "x25")})}},
		{"MsgExec{record 5} by the owner", 0, []mmsg{c.mExec(2, []mmsg{rec(5, "x5")})}},
		{"a plain record at 20 with other hashes", 10, []mmsg{rec(20, "tampered")}},
		{"a plain record at 30 with other hashes", 10, []mmsg{rec(30, "tampered")}},
	}
	for _, t := range tries {
		var msgs []sdk.Msg
		for _, m := range t.msgs {
			msgs = append(msgs, m.m)
		}
		s.blockStart(5 * time.Second)
		r := s.tx(2, nundCoins(t.fee), msgs...)
		s.blockEnd()
		if got := snap(); got != want {
			s.fail("C07", 0, fmt.Sprintf("%s (code %d) changed the WRKChain's records: before %s, after %s", t.what, r.Code, want, got))
			return s.failures
		}
	}
	return s.failures
}

// C04 / C02 / C03 (round 9): the purchaser leaves the whitelist in the very block whose BeginBlock accepted its order.
// Whatever the policy, an order that ends up COMPLETED is minted and locked: locked + spent of the purchaser equals the
// sum of its completed orders and the supply grew by them.
func scenWhitelistRemovalInAcceptanceBlock() []monFailure {
	s := &scen{c: newChain(fixedCfg()), name: "whitelist-removal-in-the-acceptance-block"}
	defer s.c.close()
	c := s.c
	ek := func() entkeeper.Keeper { return c.app.EnterpriseKeeper }
	s.blockStart(5 * time.Second)
	s.tx(4, nundCoins(0), c.mEntRaise(4, "nund", sdk.NewInt(1000)).m)
	s.tx(0, nundCoins(0), c.mEntDecide(0, 1, 2).m)
	s.tx(1, nundCoins(0), c.mEntDecide(1, 1, 2).m)
	s.blockEnd()
	supply := c.app.BankKeeper.GetSupply(c.committedCtx(), "nund").Amount
	s.blockStart(5 * time.Second) // the tally accepts order 1 ...
	if po, _ := ek().GetPurchaseOrder(c.ctx(), 1); po.Status != enttypes.StatusAccepted {
		s.blockEnd()
		return s.failures
	}
	s.tx(0, nundCoins(0), c.mEntWhitelist(0, 4, 2).m) // ... and in the same block the purchaser is removed from the whitelist
	s.blockEnd()
	for i := 0; i < 2; i++ {
		if pv := s.blockStart(5 * time.Second); pv != nil {
			s.fail("C14", 0, fmt.Sprintf("BeginBlock panicked after the purchaser of an accepted order left the whitelist: %v", pv))
			return s.failures
		}
		s.blockEnd()
	}
	ctx := c.committedCtx()
	po, _ := ek().GetPurchaseOrder(ctx, 1)
	l := ek().GetLockedUndAmountForAccount(ctx, c.addrOf(4)).Amount
	sp := ek().GetSpentEFUNDAmountForAccount(ctx, c.addrOf(4)).Amount
	grew := c.app.BankKeeper.GetSupply(ctx, "nund").Amount.Sub(supply)
	done := sdk.ZeroInt()
	if po.Status == enttypes.StatusCompleted {
		done = po.Amount.Amount
	}
	if !l.Add(sp).Equal(done) {
		for _, prop := range []string{"C04", "C03"} {
			s.fail(prop, 0, fmt.Sprintf("the purchaser left the whitelist in the block that accepted its order of 1000nund; the order is now %s, the purchaser holds %s locked + %s spent eFUND, its completed orders sum to %s", po.Status, l, sp, done))
		}
	}
	if !grew.Equal(done) {
		s.fail("C02", 0, fmt.Sprintf("the purchaser left the whitelist in the block that accepted its order; the order is now %s, completed orders sum to %snund, the supply grew by %snund", po.Status, done, grew))
	}
	return s.failures
}

// C09 (round 9): one owner registers twice with the same moniker (and genesis hash) in ONE block - as two transactions and
// as one two-message transaction: every successful registration gets its own fresh id and is stored as submitted.
func scenSameMonikerTwiceInOneBlock() []monFailure {
	s := &scen{c: newChain(fixedCfg()), name: "same-moniker-twice-in-one-block"}
	defer s.c.close()
	c := s.c
	for _, wrk := range []bool{true, false} {
		mod := "BEACON"
		if wrk {
			mod = "WRKChain"
		}
		next := func() uint64 {
			if wrk {
				n, _ := c.app.WrkchainKeeper.GetHighestWrkChainID(c.ctx())
				return n
			}
			n, _ := c.app.BeaconKeeper.GetHighestBeaconID(c.ctx())
			return n
		}
		nameOf := func(id uint64) (string, bool) {
			if wrk {
				w, ok := c.app.WrkchainKeeper.GetWrkChain(c.ctx(), id)
				return w.Name, ok
			}
			b, ok := c.app.BeaconKeeper.GetBeacon(c.ctx(), id)
			return b.Name, ok
		}
		s.blockStart(5 * time.Second)
		n0 := next()
		r1 := s.tx(2, nundCoins(1000), c.mRegRegister(wrk, 2, "twin", "first name", "gen", "t").m)
		r2 := s.tx(2, nundCoins(1000), c.mRegRegister(wrk, 2, "twin", "second name", "gen", "t2").m)
		r3 := s.tx(2, nundCoins(2000), c.mRegRegister(wrk, 2, "twin3", "third name", "gen", "t").m, c.mRegRegister(wrk, 2, "twin3", "fourth name", "gen", "t").m)
		ok := 0
		var names []string
		for _, r := range []txResult{r1, r2} {
			if r.Code == 0 {
				ok++
			}
		}
		if r3.Code == 0 {
			ok += 2
		}
		if r1.Code == 0 {
			names = append(names, "first name")
		}
		if r2.Code == 0 {
			names = append(names, "second name")
		}
		if r3.Code == 0 {
			names = append(names, "third name", "fourth name")
		}
		if got := next() - n0; got != uint64(ok) {
			s.fail("C09", 0, fmt.Sprintf("%s: %d registrations by one owner with a repeated moniker succeeded in one block; the id counter advanced by %d", mod, ok, got))
		}
		for i, want := range names {
			if got, found := nameOf(n0 + uint64(i)); !found || got != want {
				s.fail("C09", 0, fmt.Sprintf("%s: the %d. successful registration of the block (name %q, moniker repeated) is not stored under id %d (found %v, name %q)", mod, i+1, want, n0+uint64(i), found, got))
			}
		}
		s.blockEnd()
	}
	return s.failures
}

// C13 / C07 (round 9): account 3 owns WRKChain 2 and BEACON 2, account 2 owns WRKChain 1 and BEACON 1.  In ONE transaction
// account 3 records on its own registration and, nested in MsgExec (grantee = itself), records / buys storage on account
// 2's naming itself as owner.  The victim's registration must not change.
func scenForgedRecordBesideOwnRecord() []monFailure {
	s := &scen{c: newChain(fixedCfg()), name: "forged-record-beside-own-record"}
	defer s.c.close()
	c := s.c
	s.blockStart(5 * time.Second)
	for _, wrk := range []bool{true, false} {
		s.tx(2, nundCoins(1000), c.mRegRegister(wrk, 2, "victim", "n", "g", "t").m)
		s.tx(3, nundCoins(1000), c.mRegRegister(wrk, 3, "attacker", "n", "g", "t").m)
	}
	s.tx(2, nundCoins(10), c.mRegRecord(true, 2, 1, 5, []string{"v5"}).m)
	s.tx(2, nundCoins(10), c.mRegRecord(false, 2, 1, uint64(c.now.Unix()), []string{"v1"}).m)
	s.blockEnd()
	snap := func() string {
		ctx := c.committedCtx()
		w, _ := c.app.WrkchainKeeper.GetWrkChain(ctx, 1)
		b, _ := c.app.BeaconKeeper.GetBeacon(ctx, 1)
		wl, _ := c.app.WrkchainKeeper.GetWrkChainStorageLimit(ctx, 1)
		bl, _ := c.app.BeaconKeeper.GetBeaconStorageLimit(ctx, 1)
		return w.String() + " | " + b.String() + " | " + wl.String() + " | " + bl.String()
	}
	want := snap()
	if !strings.Contains(want, "victim") {
		return s.failures
	}
	h := uint64(10)
	for _, wrk := range []bool{true, false} {
		own := func() mmsg {
			h++
			if wrk {
				return c.mRegRecord(true, 3, 2, h, []string{"a"})
			}
			return c.mRegRecord(false, 3, 2, uint64(c.now.Unix()), []string{"a"})
		}
		forgedRec := c.mRegRecord(wrk, 3, 1, 1<<63, []string{"forged"})
		forgedBuy := c.mRegPurchase(wrk, 3, 1, 1)
		for _, tc := range []struct {
			what string
			fee  int64
			msgs []mmsg
		}{
			{"[own record, MsgExec{record on the victim's}]", 10, []mmsg{own(), c.mExec(3, []mmsg{forgedRec})}},
			{"[MsgExec{record on the victim's}, own record]", 10, []mmsg{c.mExec(3, []mmsg{forgedRec}), own()}},
			{"[own record, MsgExec{purchase for the victim's}]", 10, []mmsg{own(), c.mExec(3, []mmsg{forgedBuy})}},
			{"[own record, record on the victim's] at top level", 20, []mmsg{own(), forgedRec}},
		} {
			var msgs []sdk.Msg
			for _, m := range tc.msgs {
				msgs = append(msgs, m.m)
			}
			s.blockStart(5 * time.Second)
			r := s.tx(3, nundCoins(tc.fee), msgs...)
			s.blockEnd()
			if got := snap(); got != want {
				for _, prop := range []string{"C13", "C09"} {
					s.fail(prop, 0, fmt.Sprintf("a transaction signed by account 3 only, %s (wrkchain=%v, code %d), changed account 2's registration: before %.300s, after %.300s", tc.what, wrk, r.Code, want, got))
				}
				return s.failures
			}
		}
	}
	return s.failures
}

// C16 (round 9): governance raises MaxStorageLimit far above its genesis default (to 2,000,000); a purchase of 700,000
// slots - legal under the new limit, above the old default of 600,000 - at the exact fee must be admitted by CheckTx
// and executed, and one above the new room must be refused.
func scenPurchaseAfterMaxRaised() []monFailure {
	s := &scen{c: newChain(fixedCfg()), name: "purchase-after-the-maximum-was-raised"}
	defer s.c.close()
	c := s.c
	gov := authtypes.NewModuleAddress("gov").String()
	s.blockStart(5 * time.Second)
	s.tx(2, nundCoins(1000), c.mRegRegister(true, 2, "w", "n", "g", "t").m)
	s.tx(2, nundCoins(1000), c.mRegRegister(false, 2, "b", "n", "", "").m)
	s.blockEnd()
	wNew := wrktypes.NewParams(1000, 10, 1, "nund", 2, 2_000_000)
	bNew := bcntypes.NewParams(1000, 10, 1, "nund", 2, 2_000_000)
	var pid uint64
	prop, found := s.govPass(&pid, &wrktypes.MsgUpdateParams{Authority: gov, Params: wNew}, &bcntypes.MsgUpdateParams{Authority: gov, Params: bNew})
	if !found || prop.Status != govv1.StatusPassed {
		return s.failures
	}
	for _, wrk := range []bool{true, false} {
		ts := txSpec{msgs: []sdk.Msg{c.mRegPurchase(wrk, 2, 1, 700_000).m}, fee: nundCoins(700_000), signers: []acct{c.accts[2]}}
		if r, _ := c.check(ts); r.Code != 0 {
			for _, p := range []string{"C16", "C08"} {
				s.fail(p, 0, fmt.Sprintf("after governance raised MaxStorageLimit to 2000000, CheckTx refuses a purchase of 700000 slots (wrkchain=%v) at the exact fee: %s", wrk, firstLine(r.Log)))
			}
			continue
		}
		s.blockStart(5 * time.Second)
		r := s.tx(2, nundCoins(700_000), ts.msgs...)
		s.blockEnd()
		if r.Code != 0 {
			for _, p := range []string{"C16", "C08"} {
				s.fail(p, 0, fmt.Sprintf("after governance raised MaxStorageLimit to 2000000, a purchase of 700000 slots (wrkchain=%v) fails: %s", wrk, firstLine(r.Log)))
			}
		}
		over := txSpec{msgs: []sdk.Msg{c.mRegPurchase(wrk, 2, 1, 1_400_000).m}, fee: nundCoins(1_400_000), signers: []acct{c.accts[2]}}
		if r, _ := c.check(over); r.Code == 0 {
			s.fail("C16", 0, fmt.Sprintf("with a limit of 700002 and a maximum of 2000000, CheckTx admits a purchase of 1400000 more slots (wrkchain=%v)", wrk))
		}
	}
	return s.failures
}

// C13 (round 10): the governance authority may update parameters and nothing else.  A proposal carrying enterprise
// messages that name the gov module account as signer - a whitelist change, a decision on a raised order - must fail:
// the whitelist and the order stay as they were.
func scenGovSignedEnterpriseMessages() []monFailure {
	s := &scen{c: newChain(fixedCfg()), name: "gov-signed-enterprise-messages"}
	defer s.c.close()
	c := s.c
	gov := authtypes.NewModuleAddress("gov")
	s.blockStart(5 * time.Second)
	s.tx(4, nundCoins(0), c.mEntRaise(4, "nund", sdk.NewInt(900)).m)
	s.blockEnd()
	var pid uint64
	for _, tc := range []struct {
		what string
		msg  sdk.Msg
	}{
		{"MsgWhitelistAddress", &enttypes.MsgWhitelistAddress{Address: c.addrOf(5).String(), Signer: gov.String(), Action: enttypes.WhitelistAction(1)}},
		{"MsgProcessUndPurchaseOrder", &enttypes.MsgProcessUndPurchaseOrder{PurchaseOrderId: 1, Decision: enttypes.StatusAccepted, Signer: gov.String()}},
	} {
		s.govPass(&pid, tc.msg)
		ctx := c.committedCtx()
		if c.app.EnterpriseKeeper.AddressIsWhitelisted(ctx, c.addrOf(5)) {
			s.fail("C13", 0, "a governance proposal carrying "+tc.what+" signed by the gov module account (not an enterprise signer) changed the whitelist")
		}
		if po, _ := c.app.EnterpriseKeeper.GetPurchaseOrder(ctx, 1); len(po.Decisions) != 0 || po.Status != enttypes.StatusRaised {
			for _, p := range []string{"C13", "C03"} {
				s.fail(p, 0, fmt.Sprintf("a governance proposal carrying %s signed by the gov module account (not an enterprise signer) was recorded on purchase order 1: %s", tc.what, po.String()))
			}
		}
	}
	return s.failures
}

// C12 (round 10): the stream sender is a MODULE account (the gov account paying a grant by proposal).  The cancel by
// that sender succeeds and refunds the unreleased remainder.
func scenGovAccountAsStreamSender() []monFailure {
	s := &scen{c: newChain(fixedCfg()), name: "gov-account-as-stream-sender"}
	defer s.c.close()
	c := s.c
	gov := authtypes.NewModuleAddress("gov")
	s.blockStart(5 * time.Second)
	// fund the gov account through the keeper (set-up; whether user transfers may reach it is not the subject here)
	if err := c.app.BankKeeper.SendCoinsFromAccountToModule(c.ctx(), c.addrOf(0), "gov", nundCoins(100_000)); err != nil {
		s.blockEnd()
		return s.failures
	}
	s.blockEnd()
	var pid uint64
	create := &strtypes.MsgCreateStream{Sender: gov.String(), Receiver: c.addrOf(1).String(), Deposit: sdk.NewInt64Coin("nund", 90_000), FlowRate: 10}
	s.govPass(&pid, create)
	if _, ok := c.app.StreamKeeper.GetStream(c.committedCtx(), c.addrOf(1), gov); !ok {
		return s.failures // the proposal did not create the stream: nothing to observe
	}
	before := c.app.BankKeeper.GetBalance(c.committedCtx(), gov, "nund").Amount
	prop, found := s.govPass(&pid, &strtypes.MsgCancelStream{Sender: gov.String(), Receiver: c.addrOf(1).String()})
	ctx := c.committedCtx()
	st, still := c.app.StreamKeeper.GetStream(ctx, c.addrOf(1), gov)
	back := c.app.BankKeeper.GetBalance(ctx, gov, "nund").Amount.Sub(before)
	if !found || prop.Status != govv1.StatusPassed || still {
		s.fail("C12", 0, fmt.Sprintf("the cancel of a funded stream by its sender, the gov module account (by proposal), did not go through: proposal status %s, stream still present %v with deposit %s", prop.Status, still, st.Deposit))
	} else if !back.IsPositive() {
		s.fail("C12", 0, fmt.Sprintf("the cancel of a stream by its sender, the gov module account, refunded %snund (net of the proposal deposit)", back))
	}
	return s.failures
}

// C06 (round 10): a fee parameter at 2^63 (legal: Validate only asks for a positive value).  CheckTx admits a
// registration only at exactly that fee: offers of 1 nund or of the previous fee are refused.
func scenFeeParameterAt63Bits() []monFailure {
	s := &scen{c: newChain(fixedCfg()), name: "fee-parameter-at-2^63"}
	defer s.c.close()
	c := s.c
	gov := authtypes.NewModuleAddress("gov").String()
	s.blockStart(5 * time.Second)
	s.blockEnd()
	wNew := wrktypes.NewParams(1<<63, 10, 5, "nund", 2, 5)
	bNew := bcntypes.NewParams(1<<63, 10, 5, "nund", 2, 5)
	var pid uint64
	prop, found := s.govPass(&pid, &wrktypes.MsgUpdateParams{Authority: gov, Params: wNew}, &bcntypes.MsgUpdateParams{Authority: gov, Params: bNew})
	if !found || prop.Status != govv1.StatusPassed {
		return s.failures
	}
	for _, wrk := range []bool{true, false} {
		for _, fee := range []int64{1, 1000, 1 << 62} {
			ts := txSpec{msgs: []sdk.Msg{c.mRegRegister(wrk, 3, "m", "n", "g", "t").m}, fee: nundCoins(fee), signers: []acct{c.accts[3]}}
			if r, _ := c.check(ts); r.Code == 0 {
				for _, p := range []string{"C06", "C16"} {
					s.fail(p, 0, fmt.Sprintf("with the registration fee set to 2^63 nund by governance, CheckTx admits a registration (wrkchain=%v) offering %dnund", wrk, fee))
				}
			}
		}
	}
	return s.failures
}
