// vharness drives the real unification-com/mainchain code (pure functions directly, the
// application through ABCI) and writes what it did and observed as Coq terms (cases files)
// plus a JSON statistics file.  Every random choice derives from one splitmix64 state seeded
// by VERIF_SEED, so a run is repeatable.
package main

import (
	"fmt"
	"os"
)

func main() {
	if len(os.Args) < 2 {
		fmt.Fprintln(os.Stderr, "usage: vharness <subcommand> [args]")
		os.Exit(2)
	}
	setBech32()
	sub := os.Args[1]
	args := os.Args[2:]
	switch sub {
	case "probe-fee63":
		cmdProbeFee63()
	case "keys":
		cmdKeys(args)
	case "chain":
		cmdChain(args)
	case "streamfn":
		cmdStreamFn(args)
	case "params":
		cmdParams(args)
	case "lists":
		cmdLists(args)
	case "twin":
		cmdTwin(args)
	case "replay":
		cmdReplay(args)
	case "denom":
		cmdDenom(args)
	case "store":
		cmdStore(args)
	case "scenarios": // the designated scenarios only (debugging aid): prints their failures
		for _, f := range runScenarios() {
			fmt.Printf("%s class=%d %s\n", f.Property, f.Class, f.What)
		}
	default:
		fmt.Fprintf(os.Stderr, "unknown subcommand %q\n", sub)
		os.Exit(2)
	}
}
