package main

import (
	"fmt"
	"strings"
	"time"

	sdk "github.com/cosmos/cosmos-sdk/types"
	govv1 "github.com/cosmos/cosmos-sdk/x/gov/types/v1"

	enttypes "github.com/unification-com/mainchain/x/enterprise/types"
)

// Small-scope enumeration for C03: every decision vector in {none, accept, reject}^n for n signers is put on
// its own order; governance then changes (signers, MinAccepts) between the decisions and the tally.
// One chain per (n, m, n', m', late): all 3^n orders are tallied in one BeginBlock under the new parameters.

type entEnumCfg struct {
	n, m, n2, m2 int
	late         bool
}

func allEntEnumCfgs() []entEnumCfg {
	var out []entEnumCfg
	for n := 1; n <= 3; n++ {
		for m := 1; m <= n; m++ {
			for n2 := 1; n2 <= 3; n2++ {
				for m2 := 1; m2 <= n2; m2++ {
					for _, late := range []bool{false, true} {
						out = append(out, entEnumCfg{n, m, n2, m2, late})
					}
				}
			}
		}
	}
	return out
}

func signersString(k int) string {
	var s []string
	for i := 0; i < k; i++ {
		s = append(s, mkAcct(fmt.Sprintf("verif-acct-%d-seed-0123456789abcdef", i)).addr.String())
	}
	return strings.Join(s, ",")
}

func (h *history) scriptedDeliver(m mmsg, fee sdk.Coins) int {
	g := genTx{spec: txSpec{msgs: []sdk.Msg{m.m}, fee: fee, signers: []acct{h.c.accts[m.signer]}}, msgs: []mmsg{m}, sigOK: true, feeKnd: "plain"}
	g.coq = fmt.Sprintf("{| tx_msgs := [%s]; tx_fee := %s; tx_granter := None; tx_sig_ok := true |}", m.coq, coqCoins(fee))
	h.mon.beforeTx(g)
	res, _ := h.c.deliver(g.spec)
	cls := resClass(res)
	h.nTx++
	h.kinds[m.kind]++
	h.results[fmt.Sprintf("deliver:%d", cls)]++
	if cls == 0 {
		h.nOk++
	}
	obs := h.item("OpDeliver "+g.coq, cls, true, h.c.ctx())
	h.mon.afterTx(g, res, cls, false)
	h.mon.atomicity(g, cls, obs)
	return cls
}

func (h *history) scriptedBegin(dt time.Duration) bool {
	h.mon.beforeBegin()
	if p := h.c.begin(dt); p != nil {
		h.mon.chainHalted(fmt.Sprint(p))
		h.halted = true
		return false
	}
	h.item(fmt.Sprintf("OpBegin %s", coqZ(timeNs(h.c.now))), 0, false, h.c.ctx())
	h.mon.afterBegin()
	return true
}

func (h *history) scriptedEnd() {
	h.c.end(nil)
	props := h.settledProposals()
	var ps []string
	for _, p := range props {
		var cs []string
		for _, m := range p {
			cs = append(cs, m.coq)
		}
		ps = append(ps, "["+strings.Join(cs, "; ")+"]")
	}
	h.item("OpEnd ["+strings.Join(ps, "; ")+"]", 0, false, h.c.ctx())
	h.mon.afterEnd()
	h.c.commit()
	h.item("OpCommit", 0, false, h.c.ctxFor(true))
	h.mon.afterCommit()
}

func runEntEnum(e entEnumCfg, r *rng) (*history, string) {
	cfg := randCfg(r, true)
	cfg.nAcc = 6
	cfg.whitelist = []int{5}
	cfg.entParams = enttypes.Params{EntSigners: signersString(e.n), Denom: "nund", MinAccepts: uint64(e.m), DecisionTimeLimit: 50}
	c := newChain(cfg)
	h := newHistory(c, r, focusWeights["entgov"])
	gen := c.coqGenesis(c.ctxFor(true))
	// block 1: the proposal is submitted and voted
	h.scriptedBegin(2 * time.Second)
	p := cfg.entParams
	p.EntSigners, p.MinAccepts = signersString(e.n2), uint64(e.m2)
	upd := c.mUpdEnt(mGov, p)
	prop, _ := govv1.NewMsgSubmitProposal([]sdk.Msg{upd.m}, sdk.NewCoins(sdk.NewInt64Coin("stake", 10)), c.govActor.addr.String(), "", "t", "s")
	res, _ := c.deliver(txSpec{msgs: []sdk.Msg{prop}, signers: []acct{c.govActor}})
	if res.Code == 0 {
		c.deliver(txSpec{msgs: []sdk.Msg{govv1.NewMsgVote(c.govActor.addr, 1, govv1.OptionYes, "")}, signers: []acct{c.govActor}})
		h.pending = append(h.pending, pendingProposal{1, []mmsg{upd}})
	}
	h.scriptedEnd()
	// block 2 (voting period over at its EndBlock): orders and decisions under the OLD parameters
	h.scriptedBegin(21 * time.Second)
	total := 1
	for i := 0; i < e.n; i++ {
		total *= 3
	}
	for v := 0; v < total; v++ {
		h.scriptedDeliver(c.mEntRaise(5, "nund", sdk.NewInt(int64(100+v))), nundCoins(1))
		id := uint64(v + 1)
		x := v
		for s := 0; s < e.n; s++ {
			d := x % 3
			x /= 3
			if d == 1 {
				h.scriptedDeliver(c.mEntDecide(s, id, 2), nundCoins(1))
			} else if d == 2 {
				h.scriptedDeliver(c.mEntDecide(s, id, 3), nundCoins(1))
			}
		}
	}
	h.scriptedEnd()
	// block 3: tally under the NEW parameters, before or after the decision time limit
	dt := 5 * time.Second
	if e.late {
		dt = 60 * time.Second
	}
	if h.scriptedBegin(dt) {
		h.scriptedEnd()
		// block 4: accepted orders complete
		if h.scriptedBegin(3 * time.Second) {
			h.scriptedEnd()
		}
	}
	c.close()
	h.flags["entenum_chains"]++
	return h, fmt.Sprintf("{| tr_genesis := %s;\n   tr_items := [\n    %s] |}", gen, strings.Join(h.items, ";\n    "))
}
