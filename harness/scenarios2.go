package main

import (
	"encoding/binary"
	"fmt"
	"strings"
	"time"

	sdk "github.com/cosmos/cosmos-sdk/types"
	"github.com/cosmos/cosmos-sdk/types/query"
	authtypes "github.com/cosmos/cosmos-sdk/x/auth/types"
	govv1 "github.com/cosmos/cosmos-sdk/x/gov/types/v1"

	bcntypes "github.com/unification-com/mainchain/x/beacon/types"
	enttypes "github.com/unification-com/mainchain/x/enterprise/types"
	wrktypes "github.com/unification-com/mainchain/x/wrkchain/types"
)

// Designated scenarios, second file: inputs outside the reach of the random generators (parameter values at the top of
// the uint64 range, addresses spelled in upper case, crafted 32-byte addresses, more than a page worth of
// registrations, duplicate signer entries, denominations with upper-case letters).

func moreScenarios() []func() []monFailure {
	return append([]func() []monFailure{scenSlotFeeWraps, scenUpperCaseOwner, scenSignerTextPrefix, scenManyRegistrationsExport, scenDuplicateSignerEntry, scenUpperCaseDenomSupply}, round5Scenarios()...)
}

// govPass submits the messages as one proposal (the next proposal id is *propID+1), votes yes with the only delegator and
// runs the voting period out.  It returns the proposal as the chain holds it afterwards.
func (s *scen) govPass(propID *uint64, msgs ...sdk.Msg) (govv1.Proposal, bool) {
	c := s.c
	prop, err := govv1.NewMsgSubmitProposal(msgs, sdk.NewCoins(sdk.NewInt64Coin("stake", 10)), c.govActor.addr.String(), "", "t", "s")
	if err != nil {
		return govv1.Proposal{}, false
	}
	s.blockStart(5 * time.Second)
	r, _ := c.deliver(txSpec{msgs: []sdk.Msg{prop}, signers: []acct{c.govActor}})
	if r.Code != 0 {
		s.blockEnd()
		return govv1.Proposal{}, false
	}
	*propID++
	c.deliver(txSpec{msgs: []sdk.Msg{govv1.NewMsgVote(c.govActor.addr, *propID, govv1.OptionYes, "")}, signers: []acct{c.govActor}})
	s.blockEnd()
	s.blockStart(30 * time.Second)
	s.blockEnd()
	return c.app.GovKeeper.GetProposal(c.committedCtx(), *propID)
}

// C06: the price of n storage slots is FeePurchaseStorage x n, as a natural number.  With the storage cap lifted to
// 2^64-1 and a per-slot fee of 2^40, 2^24 slots cost 2^64 and 2^24+1 slots cost 2^64+2^40: a transaction offering the
// registration fee alone (resp. 2^40) must not be admitted by CheckTx.
func scenSlotFeeWraps() []monFailure {
	s := &scen{c: newChain(fixedCfg()), name: "slot-fee-product-at-2^64"}
	defer s.c.close()
	c := s.c
	gov := authtypes.NewModuleAddress("gov").String()
	s.blockStart(5 * time.Second)
	r1 := s.tx(2, nundCoins(1000), wrktypes.NewMsgRegisterWrkChain("mon", "gh", "name", "geth", c.addrOf(2)))
	r2 := s.tx(2, nundCoins(1000), bcntypes.NewMsgRegisterBeacon("bmon", "bname", c.addrOf(2)))
	s.blockEnd()
	if r1.Code != 0 || r2.Code != 0 {
		return s.failures
	}
	const perSlot = uint64(1) << 40
	wp := wrktypes.NewParams(1000, 10, perSlot, "nund", 2, 1<<64-1)
	bp := bcntypes.NewParams(1000, 10, perSlot, "nund", 2, 1<<64-1)
	if wp.Validate() != nil || bp.Validate() != nil {
		return s.failures
	}
	var pid uint64
	s.govPass(&pid, &wrktypes.MsgUpdateParams{Authority: gov, Params: wp}, &bcntypes.MsgUpdateParams{Authority: gov, Params: bp})
	ctx := c.committedCtx()
	if c.app.WrkchainKeeper.GetParams(ctx) != wp || c.app.BeaconKeeper.GetParams(ctx) != bp {
		return s.failures // the proposal did not execute: nothing to check
	}
	two64 := bigPow2(64)
	price := func(n uint64) sdk.Int { return sdk.NewIntFromUint64(perSlot).Mul(sdk.NewIntFromUint64(n)) }
	type tcase struct {
		what   string
		msgs   []sdk.Msg
		fee    sdk.Int
		truth  sdk.Int
		admits bool
	}
	own := c.addrOf(2)
	for _, mod := range []string{"WRKChain", "BEACON"} {
		reg, rec := sdk.Msg(wrktypes.NewMsgRegisterWrkChain("mon2", "gh", "name", "geth", own)), sdk.Msg(wrktypes.NewMsgRecordWrkChainBlock(1, 1, "h", "", "", "", "", own))
		buy := func(n uint64) sdk.Msg { return wrktypes.NewMsgPurchaseWrkChainStateStorage(1, n, own) }
		if mod == "BEACON" {
			reg, rec = bcntypes.NewMsgRegisterBeacon("bmon2", "bname", own), bcntypes.NewMsgRecordBeaconTimestamp(1, "h", 1, own)
			buy = func(n uint64) sdk.Msg { return bcntypes.NewMsgPurchaseBeaconStateStorage(1, n, own) }
		}
		cases := []tcase{
			{"a purchase of 3 slots offering 3 x 2^40", []sdk.Msg{buy(3)}, price(3), price(3), true},
			{"a registration plus a purchase of 2^24 slots offering the registration fee alone", []sdk.Msg{reg, buy(1 << 24)}, sdk.NewInt(1000), two64.AddRaw(1000), false},
			{"a record plus a purchase of 2^24 slots offering the record fee alone", []sdk.Msg{rec, buy(1 << 24)}, sdk.NewInt(10), two64.AddRaw(10), false},
			{"a purchase of 2^24+1 slots offering the price of one slot", []sdk.Msg{buy(1<<24 + 1)}, price(1), two64.Add(price(1)), false},
			{"a purchase of 2^25+3 slots offering the price of three slots", []sdk.Msg{buy(1<<25 + 3)}, price(3), two64.MulRaw(2).Add(price(3)), false},
			{"a purchase of 2^23 slots (2^63 nund) offering 1 nund", []sdk.Msg{buy(1 << 23)}, sdk.NewInt(1), bigPow2(63), false},
		}
		for _, tc := range cases {
			r, _ := c.check(txSpec{msgs: tc.msgs, fee: sdk.NewCoins(sdk.NewCoin("nund", tc.fee)), signers: []acct{c.accts[2]}})
			if tc.admits && r.Code != 0 {
				s.fail("C06", 0, fmt.Sprintf("%s: CheckTx refused %s (the exact price) at a per-slot fee of 2^40: %s", mod, tc.what, firstLine(r.Log)))
			}
			if !tc.admits && r.Code == 0 {
				s.fail("C06", 0, fmt.Sprintf("%s: CheckTx admitted %s (%s nund) although the operations cost %s nund at a per-slot fee of 2^40", mod, tc.what, tc.fee, tc.truth))
			}
		}
	}
	return s.failures
}

// C09: the owner of a registration is an account; the spelling of its bech32 text (all lower case or all upper case, both
// legal and both decoding to the same account) in the registration message must not matter afterwards.
func scenUpperCaseOwner() []monFailure {
	s := &scen{c: newChain(fixedCfg()), name: "owner-spelled-in-upper-case"}
	defer s.c.close()
	c := s.c
	own, other := c.addrOf(2), c.addrOf(3)
	up := strings.ToUpper(own.String())
	s.blockStart(5 * time.Second)
	// a control registration by somebody else first, so that the ids under test are not the very first ones
	s.tx(3, nundCoins(1000), bcntypes.NewMsgRegisterBeacon("ctrl", "control", other))
	s.tx(3, nundCoins(1000), wrktypes.NewMsgRegisterWrkChain("ctrl", "gh", "control", "geth", other))
	rb := s.tx(2, nundCoins(1000), &bcntypes.MsgRegisterBeacon{Moniker: "upper", Name: "upper-case owner", Owner: up})
	rw := s.tx(2, nundCoins(1000), &wrktypes.MsgRegisterWrkChain{Moniker: "upper", Name: "upper-case owner", GenesisHash: "gh", BaseType: "geth", Owner: up})
	s.blockEnd()
	if rb.Code != 0 {
		s.fail("C09", 0, "a BEACON registration naming its (signing) owner in upper-case bech32 was refused: "+firstLine(rb.Log))
	}
	if rw.Code != 0 {
		s.fail("C09", 0, "a WRKChain registration naming its (signing) owner in upper-case bech32 was refused: "+firstLine(rw.Log))
	}
	denotes := func(stored string) bool {
		a, err := sdk.AccAddressFromBech32(stored)
		return err == nil && a.Equals(own)
	}
	s.blockStart(5 * time.Second)
	ctx := c.ctx()
	gctx := sdk.WrapSDKContext(ctx)
	if rb.Code == 0 {
		const id = 2
		b, ok := c.app.BeaconKeeper.GetBeacon(ctx, id)
		if !ok || b.Moniker != "upper" || !denotes(b.Owner) {
			s.fail("C09", 0, fmt.Sprintf("BEACON %d registered by %s: stored owner %q does not denote the signer (found=%v, moniker %q)", id, own, b.Owner, ok, b.Moniker))
		}
		if !own.Equals(c.app.BeaconKeeper.GetBeaconOwner(ctx, id)) {
			s.fail("C09", 0, fmt.Sprintf("GetBeaconOwner(%d) is not the registering signer", id))
		}
		listed := false
		res, err := c.app.BeaconKeeper.BeaconsFiltered(gctx, &bcntypes.QueryBeaconsFilteredRequest{Owner: own.String()})
		if err == nil {
			for _, x := range res.Beacons {
				listed = listed || x.BeaconId == id
			}
		}
		if !listed {
			s.fail("C09", 0, fmt.Sprintf("the BEACON list filtered by owner %s does not contain BEACON %d, registered by that account (err=%v)", own, id, err))
		}
		if r := s.tx(3, nundCoins(10), bcntypes.NewMsgRecordBeaconTimestamp(id, "forged", 1, other)); r.Code == 0 {
			s.fail("C09", 0, "an account that is not the owner recorded a BEACON timestamp")
		}
		if r := s.tx(3, nundCoins(5), bcntypes.NewMsgPurchaseBeaconStateStorage(id, 1, other)); r.Code == 0 {
			s.fail("C09", 0, "an account that is not the owner purchased BEACON storage")
		}
		if r := s.tx(2, nundCoins(10), bcntypes.NewMsgRecordBeaconTimestamp(id, "h1", 1, own)); r.Code != 0 {
			s.fail("C09", 0, "the owner (registered in upper-case spelling) could not record a BEACON timestamp: "+firstLine(r.Log))
		}
		if r := s.tx(2, nundCoins(10), &bcntypes.MsgRecordBeaconTimestamp{BeaconId: id, Hash: "h2", SubmitTime: 2, Owner: up}); r.Code != 0 {
			s.fail("C09", 0, "the owner could not record a BEACON timestamp naming itself in upper case: "+firstLine(r.Log))
		}
		if r := s.tx(2, nundCoins(5), bcntypes.NewMsgPurchaseBeaconStateStorage(id, 1, own)); r.Code != 0 {
			s.fail("C09", 0, "the owner (registered in upper-case spelling) could not purchase BEACON storage: "+firstLine(r.Log))
		}
		after, _ := c.app.BeaconKeeper.GetBeacon(c.ctx(), id)
		if !denotes(after.Owner) || after.LastTimestampId != 2 {
			s.fail("C09", 0, fmt.Sprintf("after two records by the owner BEACON %d has owner %q and last timestamp id %d", id, after.Owner, after.LastTimestampId))
		}
	}
	if rw.Code == 0 {
		const id = 2
		w, ok := c.app.WrkchainKeeper.GetWrkChain(ctx, id)
		if !ok || w.Moniker != "upper" || !denotes(w.Owner) {
			s.fail("C09", 0, fmt.Sprintf("WRKChain %d registered by %s: stored owner %q does not denote the signer (found=%v, moniker %q)", id, own, w.Owner, ok, w.Moniker))
		}
		if !own.Equals(c.app.WrkchainKeeper.GetWrkChainOwner(ctx, id)) {
			s.fail("C09", 0, fmt.Sprintf("GetWrkChainOwner(%d) is not the registering signer", id))
		}
		listed := false
		res, err := c.app.WrkchainKeeper.WrkChainsFiltered(gctx, &wrktypes.QueryWrkChainsFilteredRequest{Owner: own.String()})
		if err == nil {
			for _, x := range res.Wrkchains {
				listed = listed || x.WrkchainId == id
			}
		}
		if !listed {
			s.fail("C09", 0, fmt.Sprintf("the WRKChain list filtered by owner %s does not contain WRKChain %d, registered by that account (err=%v)", own, id, err))
		}
		if r := s.tx(3, nundCoins(10), wrktypes.NewMsgRecordWrkChainBlock(id, 1, "forged", "", "", "", "", other)); r.Code == 0 {
			s.fail("C09", 0, "an account that is not the owner recorded a WRKChain block")
		}
		if r := s.tx(3, nundCoins(5), wrktypes.NewMsgPurchaseWrkChainStateStorage(id, 1, other)); r.Code == 0 {
			s.fail("C09", 0, "an account that is not the owner purchased WRKChain storage")
		}
		if r := s.tx(2, nundCoins(10), wrktypes.NewMsgRecordWrkChainBlock(id, 1, "h1", "", "", "", "", own)); r.Code != 0 {
			s.fail("C09", 0, "the owner (registered in upper-case spelling) could not record a WRKChain block: "+firstLine(r.Log))
		}
		if r := s.tx(2, nundCoins(10), &wrktypes.MsgRecordWrkChainBlock{WrkchainId: id, Height: 2, BlockHash: "h2", Owner: up}); r.Code != 0 {
			s.fail("C09", 0, "the owner could not record a WRKChain block naming itself in upper case: "+firstLine(r.Log))
		}
		if r := s.tx(2, nundCoins(5), wrktypes.NewMsgPurchaseWrkChainStateStorage(id, 1, own)); r.Code != 0 {
			s.fail("C09", 0, "the owner (registered in upper-case spelling) could not purchase WRKChain storage: "+firstLine(r.Log))
		}
		after, _ := c.app.WrkchainKeeper.GetWrkChain(c.ctx(), id)
		if !denotes(after.Owner) || after.Lastblock != 2 {
			s.fail("C09", 0, fmt.Sprintf("after two records by the owner WRKChain %d has owner %q and last block %d", id, after.Owner, after.Lastblock))
		}
	}
	s.blockEnd()
	return s.failures
}

const bech32Charset = "qpzry9x8gf2tvdw0s3jn54khce6mua7l"

// longAddressExtending returns a 32-byte account address (the length of group-policy / derived module accounts) whose
// first 20 bytes are those of short and whose next 30 bits are the six 5-bit symbols of short's bech32 checksum: the
// bech32 text of the result begins with the complete bech32 text of short.
func longAddressExtending(short sdk.AccAddress) (sdk.AccAddress, bool) {
	if len(short) != 20 {
		return nil, false
	}
	enc := short.String()
	var acc uint32
	for _, ch := range enc[len(enc)-6:] {
		v := strings.IndexRune(bech32Charset, ch)
		if v < 0 {
			return nil, false
		}
		acc = acc<<5 | uint32(v)
	}
	acc <<= 2
	long := append([]byte{}, short...)
	long = binary.BigEndian.AppendUint32(long, acc)
	long = append(long, 0xa1, 0xb2, 0xc3, 0xd4, 0xe5, 0xf6, 0x07, 0x18)
	if sdk.VerifyAddressFormat(long) != nil || !strings.HasPrefix(sdk.AccAddress(long).String(), enc) {
		return nil, false
	}
	return long, true
}

// C13: only the accounts governance listed as enterprise signers may whitelist and decide.  The list becomes
// {account 0, a 32-byte account whose bech32 text begins with the text of account 5}; account 5 itself is not listed.
func scenSignerTextPrefix() []monFailure {
	s := &scen{c: newChain(fixedCfg()), name: "signer-text-contains-an-outsider"}
	defer s.c.close()
	c := s.c
	outsider := c.addrOf(5)
	policy, ok := longAddressExtending(outsider)
	if !ok {
		s.fail("C13", 0, "harness: could not craft the 32-byte address extending account 5")
		return s.failures
	}
	p := c.app.EnterpriseKeeper.GetParams(c.committedCtx())
	p.EntSigners = c.addrOf(0).String() + "," + policy.String()
	p.MinAccepts = 1
	if p.Validate() != nil {
		return s.failures
	}
	var pid uint64
	s.govPass(&pid, &enttypes.MsgUpdateParams{Authority: authtypes.NewModuleAddress("gov").String(), Params: p})
	if c.app.EnterpriseKeeper.GetParams(c.committedCtx()) != p {
		return s.failures // the proposal did not execute: nothing to check
	}
	for _, a := range c.app.EnterpriseKeeper.GetParamEntSignersAsAddressArray(c.committedCtx()) {
		if a.Equals(outsider) {
			return s.failures
		}
	}
	s.blockStart(5 * time.Second)
	if r := s.tx(4, nundCoins(10), enttypes.NewMsgUndPurchaseOrder(c.addrOf(4), sdk.NewInt64Coin("nund", 1000))); r.Code != 0 {
		s.blockEnd()
		return s.failures
	}
	r := s.tx(5, nundCoins(10), enttypes.NewMsgWhitelistAddress(outsider, enttypes.WhitelistActionAdd, outsider))
	if r.Code == 0 || c.app.EnterpriseKeeper.AddressIsWhitelisted(c.ctx(), outsider) {
		s.fail("C13", 0, fmt.Sprintf("an account that is not an enterprise signer (%s; signers %s) whitelisted itself (code %d)", outsider, p.EntSigners, r.Code))
	}
	r = s.tx(5, nundCoins(10), enttypes.NewMsgWhitelistAddress(c.addrOf(4), enttypes.WhitelistActionRemove, outsider))
	if r.Code == 0 || !c.app.EnterpriseKeeper.AddressIsWhitelisted(c.ctx(), c.addrOf(4)) {
		s.fail("C13", 0, fmt.Sprintf("an account that is not an enterprise signer removed a whitelisted address (code %d)", r.Code))
	}
	for _, d := range []enttypes.PurchaseOrderStatus{enttypes.StatusAccepted, enttypes.StatusRejected} {
		r = s.tx(5, nundCoins(10), &enttypes.MsgProcessUndPurchaseOrder{PurchaseOrderId: 1, Decision: d, Signer: outsider.String()})
		po, found := c.app.EnterpriseKeeper.GetPurchaseOrder(c.ctx(), 1)
		if r.Code == 0 || !found || len(po.Decisions) != 0 || po.Status != enttypes.StatusRaised {
			s.fail("C13", 0, fmt.Sprintf("a decision (%s) by an account that is not an enterprise signer took effect (code %d): order 1 has %d decisions, status %s", d, r.Code, len(po.Decisions), po.Status))
		}
	}
	s.blockEnd()
	s.blockStart(5 * time.Second)
	if po, _ := c.app.EnterpriseKeeper.GetPurchaseOrder(c.ctx(), 1); po.Status != enttypes.StatusRaised {
		s.fail("C13", 0, fmt.Sprintf("order 1, undecided by any listed signer, is %s after the next BeginBlock", po.Status))
	}
	// the listed 20-byte signer keeps working
	if r := s.tx(0, nundCoins(10), &enttypes.MsgProcessUndPurchaseOrder{PurchaseOrderId: 1, Decision: enttypes.StatusAccepted, Signer: c.addrOf(0).String()}); r.Code != 0 {
		s.fail("C13", 0, "a decision by a listed enterprise signer was refused: "+firstLine(r.Log))
	}
	s.blockEnd()
	return s.failures
}

// C15: export + import is lossless also with more than a page (100) worth of registrations in each registry.
func scenManyRegistrationsExport() []monFailure {
	s := &scen{c: newChain(fixedCfg()), name: "export-with-more-than-100-registrations"}
	defer s.c.close()
	c := s.c
	const n = 105
	const perBlock = 35
	ownerOf := func(id uint64) int { return int(id % 6) }
	for id := uint64(1); id <= n; {
		s.blockStart(2 * time.Second)
		for k := 0; k < perBlock && id <= n; k, id = k+1, id+1 {
			o := ownerOf(id)
			rb := s.tx(o, nundCoins(1000), bcntypes.NewMsgRegisterBeacon(fmt.Sprintf("b%d", id), fmt.Sprintf("beacon %d", id), c.addrOf(o)))
			rw := s.tx(o, nundCoins(1000), wrktypes.NewMsgRegisterWrkChain(fmt.Sprintf("w%d", id), "gh", fmt.Sprintf("wrkchain %d", id), "geth", c.addrOf(o)))
			if rb.Code != 0 || rw.Code != 0 {
				s.blockEnd()
				s.fail("C15", 0, fmt.Sprintf("set-up: registration %d refused (%d, %d)", id, rb.Code, rw.Code))
				return s.failures
			}
		}
		s.blockEnd()
	}
	probe := []uint64{1, 2, 99, 100, 101, 102, n - 1, n}
	s.blockStart(2 * time.Second)
	for _, id := range probe {
		o := ownerOf(id)
		s.tx(o, nundCoins(10), bcntypes.NewMsgRecordBeaconTimestamp(id, fmt.Sprintf("hash-%d", id), uint64(c.now.Unix()), c.addrOf(o)))
		s.tx(o, nundCoins(10), wrktypes.NewMsgRecordWrkChainBlock(id, 7, fmt.Sprintf("hash-%d", id), "p", "", "", "", c.addrOf(o)))
	}
	s.tx(ownerOf(n), nundCoins(10), bcntypes.NewMsgPurchaseBeaconStateStorage(n, 2, c.addrOf(ownerOf(n))))
	s.tx(ownerOf(101), nundCoins(5), wrktypes.NewMsgPurchaseWrkChainStateStorage(101, 1, c.addrOf(ownerOf(101))))
	s.blockEnd()
	describe := func() (bs, ws map[uint64]string) {
		ctx := c.committedCtx()
		bs, ws = map[uint64]string{}, map[uint64]string{}
		for id := uint64(1); id <= n; id++ {
			if b, ok := c.app.BeaconKeeper.GetBeacon(ctx, id); ok {
				l, _ := c.app.BeaconKeeper.GetBeaconStorageLimit(ctx, id)
				bs[id] = fmt.Sprint(b.String(), " limit ", l.InStateLimit, " records ", c.app.BeaconKeeper.GetAllBeaconTimestamps(ctx, id))
			}
			if w, ok := c.app.WrkchainKeeper.GetWrkChain(ctx, id); ok {
				l, _ := c.app.WrkchainKeeper.GetWrkChainStorageLimit(ctx, id)
				ws[id] = fmt.Sprint(w.String(), " limit ", l.InStateLimit, " records ", c.app.WrkchainKeeper.GetAllWrkChainBlockHashes(ctx, id))
			}
		}
		return
	}
	b0, w0 := describe()
	if len(b0) != n || len(w0) != n {
		s.fail("C15", 0, fmt.Sprintf("set-up: %d BEACONs and %d WRKChains in state, %d each expected", len(b0), len(w0), n))
		return s.failures
	}
	old, problems := c.reimport()
	for _, p := range problems {
		s.fail("C15", 0, p)
	}
	if old == nil {
		return s.failures
	}
	defer old.Close()
	b1, w1 := describe()
	report := func(kind string, before, after map[uint64]string) {
		var lost, changed []uint64
		for id := uint64(1); id <= n; id++ {
			if a, ok := after[id]; !ok {
				lost = append(lost, id)
			} else if a != before[id] {
				changed = append(changed, id)
			}
		}
		if len(lost) > 0 {
			s.fail("C15", 0, fmt.Sprintf("%d of %d %ss are gone after export + import: ids %v", len(lost), n, kind, lost))
			s.fail("C09", 0, fmt.Sprintf("%s %d, registered and never removed, does not exist after export + import", kind, lost[0]))
		}
		if len(changed) > 0 {
			s.fail("C15", 0, fmt.Sprintf("%d of %d %ss differ after export + import: ids %v; e.g. %s became %s", len(changed), n, kind, changed, before[changed[0]], after[changed[0]]))
		}
	}
	report("BEACON", b0, b1)
	report("WRKChain", w0, w1)
	ctx := c.committedCtx()
	if hb, _ := c.app.BeaconKeeper.GetHighestBeaconID(ctx); hb != n+1 {
		s.fail("C15", 0, fmt.Sprintf("next BEACON id after import is %d, %d expected", hb, n+1))
	}
	if hw, _ := c.app.WrkchainKeeper.GetHighestWrkChainID(ctx); hw != n+1 {
		s.fail("C15", 0, fmt.Sprintf("next WRKChain id after import is %d, %d expected", hw, n+1))
	}
	// the owners can go on recording on the imported chain
	if p := s.blockStart(2 * time.Second); p != nil {
		s.fail("C15", 0, fmt.Sprint("BeginBlock on the imported chain panicked: ", p))
		return s.failures
	}
	for _, id := range []uint64{1, 100, 101, n} {
		o := ownerOf(id)
		if r := s.tx(o, nundCoins(10), bcntypes.NewMsgRecordBeaconTimestamp(id, fmt.Sprintf("post-import-%d", id), uint64(c.now.Unix()), c.addrOf(o))); r.Code != 0 {
			s.fail("C15", 0, fmt.Sprintf("after export + import the owner of BEACON %d cannot record: %s", id, firstLine(r.Log)))
		}
		if r := s.tx(o, nundCoins(10), wrktypes.NewMsgRecordWrkChainBlock(id, 8, fmt.Sprintf("post-import-%d", id), "p", "", "", "", c.addrOf(o))); r.Code != 0 {
			s.fail("C15", 0, fmt.Sprintf("after export + import the owner of WRKChain %d cannot record: %s", id, firstLine(r.Log)))
		}
	}
	s.blockEnd()
	return s.failures
}

// C16: a governance update whose signer list names one account twice ("A,B,A", MinAccepts 3).  Whatever the chain
// answers, the stored parameters must be valid; if the proposal passed they are the submitted ones; and an undecided,
// fresh order must survive the next tally.
func scenDuplicateSignerEntry() []monFailure {
	s := &scen{c: newChain(fixedCfg()), name: "duplicate-signer-entry"}
	defer s.c.close()
	c := s.c
	a, b := c.addrOf(0).String(), c.addrOf(1).String()
	before := c.app.EnterpriseKeeper.GetParams(c.committedCtx())
	submitted := enttypes.Params{EntSigners: strings.Join([]string{a, b, a}, ","), Denom: "nund", MinAccepts: 3, DecisionTimeLimit: 1000}
	var pid uint64
	prop, found := s.govPass(&pid, &enttypes.MsgUpdateParams{Authority: authtypes.NewModuleAddress("gov").String(), Params: submitted})
	stored := c.app.EnterpriseKeeper.GetParams(c.committedCtx())
	if err := stored.Validate(); err != nil {
		s.fail("C16", 0, fmt.Sprintf("after a governance update with signers A,B,A and MinAccepts 3 the stored enterprise params are invalid: %v (stored signers %q, MinAccepts %d)", err, stored.EntSigners, stored.MinAccepts))
	}
	if n := uint64(len(strings.Split(stored.EntSigners, ","))); n < stored.MinAccepts {
		s.fail("C16", 0, fmt.Sprintf("stored enterprise params list %d signers for MinAccepts %d", n, stored.MinAccepts))
	}
	passed := found && prop.Status == govv1.StatusPassed
	switch {
	case passed && stored != submitted:
		s.fail("C16", 0, fmt.Sprintf("the proposal passed but the stored enterprise params %v are not the submitted ones %v", stored, submitted))
	case !passed && stored != before:
		s.fail("C16", 0, fmt.Sprintf("the proposal did not pass (found=%v, status %s) but the stored enterprise params changed to %v", found, prop.Status, stored))
	case !passed && submitted.Validate() == nil:
		s.fail("C16", 0, fmt.Sprintf("a valid enterprise parameter update (signers A,B,A, MinAccepts 3) was not applied: proposal status %s", prop.Status))
	}
	s.blockStart(5 * time.Second)
	r := s.tx(4, nundCoins(10), enttypes.NewMsgUndPurchaseOrder(c.addrOf(4), sdk.NewInt64Coin("nund", 1000)))
	s.blockEnd()
	if r.Code != 0 {
		return s.failures
	}
	if p := s.blockStart(5 * time.Second); p != nil {
		s.fail("C16", 0, fmt.Sprint("BeginBlock panicked under the updated enterprise params: ", p))
		return s.failures
	}
	if po, ok := c.app.EnterpriseKeeper.GetPurchaseOrder(c.ctx(), 1); !ok || po.Status != enttypes.StatusRaised {
		s.fail("C16", 0, fmt.Sprintf("an order raised 5 s ago with no decision at all is %s after the tally (stored signers %q, MinAccepts %d, time limit %d)", po.Status, stored.EntSigners, stored.MinAccepts, stored.DecisionTimeLimit))
		s.fail("C03", 0, fmt.Sprintf("an undecided, fresh order was decided by the tally: %s", po.Status))
	}
	s.blockEnd()
	return s.failures
}

const ibcDenom = "ibc/27394FB092D2ECCD56123C74F36E4C1F926001CEADA9CA97EA622B25F41E5EB2"

// C17: the enterprise supply queries answer for every denomination of the bank's supply, whatever it looks like (IBC
// voucher denominations are "ibc/<UPPER-CASE HEX>"): the bank's amount, less locked eFUND for the native one.
func scenUpperCaseDenomSupply() []monFailure {
	cfg := fixedCfg()
	cfg.extraCoins = sdk.NewCoins(sdk.NewInt64Coin(ibcDenom, 123456), sdk.NewInt64Coin("uatom", 777), sdk.NewInt64Coin("Zzz", 5))
	s := &scen{c: newChain(cfg), name: "supply-of-upper-case-denominations"}
	defer s.c.close()
	c := s.c
	ek := c.app.EnterpriseKeeper
	checkAll := func(stage string) {
		ctx := c.committedCtx()
		gctx := sdk.WrapSDKContext(ctx)
		native := ek.GetParamDenom(ctx)
		locked := ek.GetTotalLockedUnd(ctx).Amount
		var supply sdk.Coins
		c.app.BankKeeper.IterateTotalSupply(ctx, func(coin sdk.Coin) bool {
			supply = append(supply, coin)
			return false
		})
		hasIBC := false
		for _, coin := range supply {
			hasIBC = hasIBC || (coin.Denom == ibcDenom && coin.Amount.IsPositive())
		}
		if !hasIBC {
			s.fail("C17", 0, stage+": harness: the IBC voucher denomination is not in the bank's supply")
		}
		want := func(coin sdk.Coin) sdk.Int {
			if coin.Denom == native {
				return coin.Amount.Sub(locked)
			}
			return coin.Amount
		}
		// also denominations nothing was ever issued in (sorting before, between and after the issued ones): the bank's
		// SupplyOf answers 0 in the requested denomination, never another denomination's amount
		asked := append(sdk.Coins{}, supply...)
		for _, d := range []string{"aaa", "ibc/00", "nunc", "nundx", "uatol", "zzzz", "Aaa"} {
			if c.app.BankKeeper.GetSupply(ctx, d).Amount.IsZero() {
				asked = append(asked, sdk.NewCoin(d, sdk.ZeroInt()))
			}
		}
		for _, coin := range asked {
			for i, h := range []func() (*enttypes.QuerySupplyOfResponse, error){
				func() (*enttypes.QuerySupplyOfResponse, error) {
					return ek.SupplyOf(gctx, &enttypes.QuerySupplyOfRequest{Denom: coin.Denom})
				},
				func() (*enttypes.QuerySupplyOfResponse, error) {
					return ek.SupplyOfOverwrite(gctx, &enttypes.QuerySupplyOfRequest{Denom: coin.Denom})
				},
			} {
				var res *enttypes.QuerySupplyOfResponse
				var err error
				if !safely(func() { res, err = h() }) || err != nil || res == nil {
					s.fail("C17", 0, fmt.Sprintf("%s: SupplyOf(%s) (handler %d) failed: %v", stage, coin.Denom, i, err))
					continue
				}
				if res.Amount.Denom != coin.Denom || !res.Amount.Amount.Equal(want(coin)) {
					s.fail("C17", 0, fmt.Sprintf("%s: SupplyOf(%s) (handler %d) = %s, the bank's supply is %s and %s %s are locked", stage, coin.Denom, i, res.Amount, coin, locked, native))
				}
			}
		}
		listings := map[string]*query.PageRequest{"no pagination": nil, "limit 100": {Limit: 100}, "limit 100, reverse": {Limit: 100, Reverse: true}}
		for _, how := range []string{"no pagination", "limit 100", "limit 100, reverse"} {
			res, err := ek.TotalSupply(gctx, &enttypes.QueryTotalSupplyRequest{Pagination: listings[how]})
			if err != nil {
				s.fail("C17", 0, fmt.Sprintf("%s: TotalSupply (%s) failed: %v", stage, how, err))
				continue
			}
			seen, amount := map[string]int{}, map[string]sdk.Int{}
			for _, x := range res.Supply {
				seen[x.Denom]++
				amount[x.Denom] = x.Amount
			}
			for _, coin := range supply {
				if seen[coin.Denom] != 1 {
					s.fail("C17", 0, fmt.Sprintf("%s: TotalSupply (%s) lists %s %d times", stage, how, coin.Denom, seen[coin.Denom]))
				} else if got := amount[coin.Denom]; !got.Equal(want(coin)) {
					s.fail("C17", 0, fmt.Sprintf("%s: TotalSupply (%s) reports %s%s, the bank's supply less locked eFUND is %s", stage, how, got, coin.Denom, want(coin)))
				}
			}
			if len(res.Supply) != len(supply) {
				s.fail("C17", 0, fmt.Sprintf("%s: TotalSupply (%s) lists %d denominations, the bank has %d", stage, how, len(res.Supply), len(supply)))
			}
		}
		// walking the listing by key, two per page
		seen := map[string]int{}
		var key []byte
		for page := 0; page < 20; page++ {
			res, err := ek.TotalSupply(gctx, &enttypes.QueryTotalSupplyRequest{Pagination: &query.PageRequest{Key: key, Limit: 2}})
			if err != nil {
				s.fail("C17", 0, fmt.Sprintf("%s: TotalSupply page %d failed: %v", stage, page, err))
				break
			}
			for _, x := range res.Supply {
				seen[x.Denom]++
			}
			if res.Pagination == nil || len(res.Pagination.NextKey) == 0 {
				break
			}
			key = res.Pagination.NextKey
		}
		for _, coin := range supply {
			if seen[coin.Denom] != 1 {
				s.fail("C17", 0, fmt.Sprintf("%s: paging TotalSupply two per page lists %s %d times", stage, coin.Denom, seen[coin.Denom]))
			}
		}
	}
	checkAll("at genesis")
	s.blockStart(5 * time.Second)
	s.tx(4, nundCoins(10), enttypes.NewMsgUndPurchaseOrder(c.addrOf(4), sdk.NewInt64Coin("nund", 1_000_000)))
	s.tx(0, nundCoins(10), &enttypes.MsgProcessUndPurchaseOrder{PurchaseOrderId: 1, Decision: enttypes.StatusAccepted, Signer: c.addrOf(0).String()})
	s.tx(1, nundCoins(10), &enttypes.MsgProcessUndPurchaseOrder{PurchaseOrderId: 1, Decision: enttypes.StatusAccepted, Signer: c.addrOf(1).String()})
	s.blockEnd()
	for i := 0; i < 2; i++ {
		s.blockStart(5 * time.Second)
		s.blockEnd()
	}
	checkAll("with eFUND locked")
	s.blockStart(5 * time.Second)
	s.tx(4, nundCoins(1000), bcntypes.NewMsgRegisterBeacon("mon4", "name", c.addrOf(4))) // spends locked eFUND
	s.blockEnd()
	checkAll("with eFUND partly spent")
	return s.failures
}
