package main

import (
	"flag"
	"fmt"
	"path/filepath"
	"strings"

	sdk "github.com/cosmos/cosmos-sdk/types"

	bcntypes "github.com/unification-com/mainchain/x/beacon/types"
	enttypes "github.com/unification-com/mainchain/x/enterprise/types"
	strtypes "github.com/unification-com/mainchain/x/stream/types"
	wrktypes "github.com/unification-com/mainchain/x/wrkchain/types"
)

// C16: Params.Validate of the four modules on generated parameter structures.

func cmdParams(args []string) {
	fs := flag.NewFlagSet("params", flag.ExitOnError)
	out := fs.String("out", ".", "output directory")
	n := fs.Int("n", 3000, "number of random cases")
	per := fs.Int("shard", 1500, "cases per Coq file")
	fs.Parse(args)
	r := newRng(seedFromEnv())
	var items []string
	kinds := map[string]int{}
	valid, invalid := 0, 0
	distinct := map[string]bool{}

	denomsT := []struct {
		s   string
		idx int
	}{{"nund", 0}, {"stake", 1}, {"atest", 2}, {"ibc/ABCDEF", 7}, {"", -1}, {" ", -1}, {"1nund", -1}, {"ab", -1}, {"nu nd", -1}, {"fund", 7}}
	u64s := []uint64{0, 1, 2, 3, 10, 1000, 1 << 31, 1<<63 - 1, 1 << 63, 1<<64 - 1}
	pickU := func() uint64 {
		if r.chance(1, 2) {
			return u64s[r.intn(len(u64s))]
		}
		return uint64(r.intn(20))
	}
	addrs := []string{}
	for i := 0; i < 5; i++ {
		addrs = append(addrs, mkAcct(fmt.Sprintf("verif-acct-%d-seed-0123456789abcdef", i)).addr.String())
	}
	for i := 0; i < *n; i++ {
		switch r.intn(4) {
		case 0:
			d := denomsT[r.intn(len(denomsT))]
			ns := r.intn(5)
			var ss []string
			var ms []string
			for j := 0; j < ns; j++ {
				switch r.intn(12) {
				case 0:
					ss, ms = append(ss, "notanaddress"), append(ms, "(-999)")
				case 1:
					ss, ms = append(ss, ""), append(ms, "(-999)")
				case 2:
					a := addrs[r.intn(len(addrs))]
					ss, ms = append(ss, strings.ToUpper(a)), append(ms, fmt.Sprintf("%d", indexOf(addrs, a)))
				default:
					a := addrs[r.intn(len(addrs))]
					ss, ms = append(ss, a), append(ms, fmt.Sprintf("%d", indexOf(addrs, a)))
				}
			}
			p := enttypes.Params{EntSigners: strings.Join(ss, ","), Denom: d.s, MinAccepts: pickU(), DecisionTimeLimit: pickU()}
			if r.chance(1, 2) && ns > 0 {
				p.MinAccepts = uint64(r.intn(ns + 2))
			}
			ok := p.Validate() == nil
			// strings.Split("", ",") = [""]: an empty signers string is rejected before splitting; the model writes it as []
			msigs := "[" + strings.Join(ms, "; ") + "]"
			items = append(items, fmt.Sprintf("PCEnt {| ep_denom := %s; ep_min_accepts := %s; ep_time_limit := %s; ep_signers := %s |} %s",
				coqZi(int64(d.idx)), coqU64(p.MinAccepts), coqU64(p.DecisionTimeLimit), msigs, coqBool(ok)))
			kinds["enterprise"]++
			if ok {
				valid++
			} else {
				invalid++
			}
		case 1, 2:
			d := denomsT[r.intn(len(denomsT))]
			fr, fc, fp, dl, ml := pickU(), pickU(), pickU(), pickU(), pickU()
			if r.chance(1, 2) {
				dl = uint64(1 + r.intn(5))
				ml = dl + uint64(r.intn(4)) - 1
			}
			var ok bool
			if r.chance(1, 2) {
				ok = wrktypes.NewParams(fr, fc, fp, d.s, dl, ml).Validate() == nil
				kinds["wrkchain"]++
			} else {
				ok = bcntypes.NewParams(fr, fc, fp, d.s, dl, ml).Validate() == nil
				kinds["beacon"]++
			}
			items = append(items, fmt.Sprintf("PCReg {| rp_fee_register := %s; rp_fee_record := %s; rp_fee_purchase := %s; rp_denom := %s; rp_default_limit := %s; rp_max_limit := %s |} %s",
				coqU64(fr), coqU64(fc), coqU64(fp), coqZi(int64(d.idx)), coqU64(dl), coqU64(ml), coqBool(ok)))
			if ok {
				valid++
			} else {
				invalid++
			}
		default:
			vals := []string{"0", "0.01", "1", "1.000000000000000001", "-0.000000000000000001", "0.999999999999999999", "2", "-1", "0.5"}
			v := sdk.MustNewDecFromStr(vals[r.intn(len(vals))])
			ok := strtypes.NewParams(v).Validate() == nil
			items = append(items, fmt.Sprintf("PCStr %s %s", coqZ(v.BigInt()), coqBool(ok)))
			kinds["stream"]++
			if ok {
				valid++
			} else {
				invalid++
			}
		}
		distinct[items[len(items)-1]] = true
	}
	var files []string
	for i, sh := range shard(items, *per) {
		name := fmt.Sprintf("cases_params_%d.v", i)
		var sb strings.Builder
		sb.WriteString("From MC Require Import lib.Prelude model.Bank model.Stream model.Registry model.Enterprise model.ParamsCheck.\nOpen Scope Z_scope.\n")
		sb.WriteString("Definition cases : list param_case :=\n " + coqList(sh) + ".\n")
		sb.WriteString("Definition bad_corr := Eval vm_compute in params_bad_corr cases.\nPrint bad_corr.\n")
		sb.WriteString("Definition bad_mon := Eval vm_compute in params_bad_mon cases.\nPrint bad_mon.\n")
		writeFile(filepath.Join(*out, name), sb.String())
		files = append(files, name)
	}
	var samples []string
	for i := 0; i < len(items) && len(samples) < 6; i += len(items)/6 + 1 {
		samples = append(samples, items[i])
	}
	writeJSON(filepath.Join(*out, "stats_params.json"), map[string]interface{}{
		"files": files, "evaluations": len(items), "distinct_nontrivial": len(distinct),
		"rule":         "Params.Validate of enterprise / wrkchain / beacon / stream on generated structures: every field at, inside and outside its bounds (0, 1, 2^63-1, 2^63, 2^64-1), blank and malformed denominations, empty / malformed / upper-case / repeated signer addresses; distinct = distinct generated structures",
		"distribution": map[string]interface{}{"by_module": kinds, "valid": valid, "invalid": invalid},
		"samples":      samples,
	})
}

func indexOf(xs []string, x string) int {
	for i, y := range xs {
		if y == x {
			return i
		}
	}
	return -1
}
