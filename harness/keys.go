package main

import (
	"bytes"
	"flag"
	"fmt"
	"path/filepath"
	"strings"
	"time"

	sdk "github.com/cosmos/cosmos-sdk/types"

	bcntypes "github.com/unification-com/mainchain/x/beacon/types"
	enttypes "github.com/unification-com/mainchain/x/enterprise/types"
	strtypes "github.com/unification-com/mainchain/x/stream/types"
	wrktypes "github.com/unification-com/mainchain/x/wrkchain/types"
)

// C18: the real key builders/parsers on boundary x random logical keys.

func coqBytes(bz []byte) string {
	parts := make([]string, len(bz))
	for i, b := range bz {
		parts[i] = fmt.Sprintf("%d", b)
	}
	return "[" + strings.Join(parts, ";") + "]%N"
}

func coqN(x uint64) string { return fmt.Sprintf("%d%%N", x) }

func randAddr(r *rng) []byte {
	lens := []int{1, 2, 19, 20, 20, 20, 21, 31, 32, 32, 33, 64, 127, 128, 254, 255}
	n := lens[r.intn(len(lens))]
	if r.chance(1, 4) {
		n = 1 + r.intn(255)
	}
	bz := make([]byte, n)
	for i := range bz {
		switch r.intn(6) {
		case 0:
			bz[i] = 0
		case 1:
			bz[i] = 255
		case 2:
			bz[i] = byte(n) // looks like a length prefix
		default:
			bz[i] = byte(r.next())
		}
	}
	return bz
}

func randID(r *rng) uint64 {
	b := []uint64{0, 1, 2, 255, 256, 257, 65535, 65536, 1 << 24, 1<<32 - 1, 1 << 32, 1<<56 - 1, 1 << 56, 1<<63 - 1, 1 << 63, 1<<64 - 2, 1<<64 - 1}
	if r.chance(1, 2) {
		return b[r.intn(len(b))]
	}
	x := r.next()
	if r.chance(1, 3) {
		x >>= uint(r.intn(64))
	}
	return x
}

func safeParse(key []byte) (r, s []byte, ok bool) {
	defer func() {
		if e := recover(); e != nil {
			ok = false
		}
	}()
	ra, sa := strtypes.AddressesFromStreamKey(key)
	return ra, sa, true
}

func safeFirst(key []byte) (a []byte, ok bool) {
	defer func() {
		if e := recover(); e != nil {
			ok = false
		}
	}()
	return strtypes.FirstAddressFromStreamStoreKey(key), true
}

// structuredAddrPairs: pairs of different addresses that fixed-width, truncating, padding or unprefixed key layouts
// confuse: (a, a ++ suffix) for lengths 1, 19, 20, 21, 32 against 2, 20, 21..32, 33, 255, with zero and non-zero
// suffixes; (short, short ++ zero bytes up to 20 and 21); two 32-byte addresses sharing their first 20 bytes; and an
// address against itself with a length byte in front.
func structuredAddrPairs() [][2][]byte {
	seq := func(n int) []byte { // no zero byte; seq(m) is a prefix of seq(n) for m < n
		bz := make([]byte, n)
		for i := range bz {
			bz[i] = byte(i%251) + 1
		}
		return bz
	}
	cat := func(a []byte, b ...byte) []byte { return append(append([]byte{}, a...), b...) }
	var ps [][2][]byte
	for _, p := range [][2]int{{20, 21}, {20, 22}, {20, 24}, {20, 31}, {20, 32}, {20, 33}, {20, 255}, {1, 2}, {1, 20}, {19, 20}, {19, 21}, {21, 32}, {32, 33}, {32, 255}, {254, 255}} {
		ps = append(ps, [2][]byte{seq(p[0]), seq(p[1])})
		ps = append(ps, [2][]byte{seq(p[0]), cat(seq(p[0]), make([]byte, p[1]-p[0])...)}) // the suffix is all zero bytes
	}
	for _, short := range [][]byte{{0x07}, seq(7), seq(19), {0x00}} {
		for _, n := range []int{20, 21} {
			ps = append(ps, [2][]byte{short, cat(short, make([]byte, n-len(short))...)})
		}
	}
	common := bytes.Repeat([]byte{0xAB}, 20)
	ps = append(ps, [2][]byte{cat(common, bytes.Repeat([]byte{0x01}, 12)...), cat(common, bytes.Repeat([]byte{0x02}, 12)...)})
	ps = append(ps, [2][]byte{cat(seq(20), 0x14), cat([]byte{0x14}, seq(20)...)})
	ps = append(ps, [2][]byte{seq(20), cat([]byte{0x14}, seq(20)...)})
	return ps
}

// hexShort writes long byte strings as their first 24 bytes and the length
func hexShort(bz []byte) string {
	if len(bz) <= 24 {
		return fmt.Sprintf("%x", bz)
	}
	return fmt.Sprintf("%x..(%d bytes)", bz[:24], len(bz))
}

// capFailures keeps the first few failures of a group and says how many more there were
func capFailures(fs []monFailure, keep int) []monFailure {
	if len(fs) <= keep {
		return fs
	}
	out := append([]monFailure{}, fs[:keep]...)
	last := fs[keep]
	last.What = fmt.Sprintf("(%d more failures of this kind not listed) %s", len(fs)-keep-1, last.What)
	return append(out, last)
}

type builtKey struct {
	logical string // store section and logical key, as (abbreviated) text; the section name comes first
	id      string // the logical key in full: two keys are the same logical key iff their ids are equal
	bz      []byte
}

// keyLaws evaluates, on the implementation's own bytes, injectivity (different logical keys of one store have different
// bytes) over all the keys given, and returns the collisions as C18 failures.
func keyLaws(store string, ks []builtKey) []monFailure {
	var out []monFailure
	seen := map[string]builtKey{}
	for _, k := range ks {
		if prev, ok := seen[string(k.bz)]; ok && prev.id != k.id {
			out = append(out, monFailure{Property: "C18", OpIndex: -1, History: -1, What: fmt.Sprintf("%s store: two different logical keys are built into the same bytes %s: %s and %s", store, hexShort(k.bz), prev.logical, k.logical)})
			continue
		}
		seen[string(k.bz)] = k
	}
	return capFailures(out, 8)
}

// keeperIsolation: set / get / delete through the keepers on scratch (cache) contexts of a real application, for every
// structured pair: what is stored for one address must not be read, overwritten or removed through the other.
func keeperIsolation(pairs [][2][]byte) (fails []monFailure, checks int) {
	c := newChain(fixedCfg())
	defer c.close()
	if c.begin(2*time.Second) != nil {
		return nil, 0
	}
	base := c.ctx()
	ek, sk := c.app.EnterpriseKeeper, c.app.StreamKeeper
	fail := func(format string, a ...interface{}) {
		fails = append(fails, monFailure{Property: "C18", OpIndex: -1, History: -1, What: "keeper isolation: " + fmt.Sprintf(format, a...)})
	}
	for _, p := range pairs {
		x, y := sdk.AccAddress(p[0]), sdk.AccAddress(p[1])
		name := fmt.Sprintf("addresses %s (%d bytes) and %s (%d bytes)", hexShort(p[0]), len(p[0]), hexShort(p[1]), len(p[1]))
		ok := safely(func() {
			ctx, _ := base.CacheContext()
			// locked eFUND
			if ek.SetLockedUndForAccount(ctx, enttypes.LockedUnd{Owner: x.String(), Amount: sdk.NewInt64Coin("nund", 11)}) != nil {
				return
			}
			if got := ek.GetLockedUndForAccount(ctx, y); !got.Amount.IsZero() || ek.AccountHasLockedUnd(ctx, y) {
				fail("locked eFUND stored for the first of %s is read through the second (%s)", name, got.Amount)
			}
			ek.SetLockedUndForAccount(ctx, enttypes.LockedUnd{Owner: y.String(), Amount: sdk.NewInt64Coin("nund", 22)})
			gx, gy := ek.GetLockedUndForAccount(ctx, x), ek.GetLockedUndForAccount(ctx, y)
			if gx.Amount.Amount.Int64() != 11 || gy.Amount.Amount.Int64() != 22 || gx.Owner != x.String() || gy.Owner != y.String() {
				fail("locked eFUND 11 and 22 stored for %s reads back as %s (owner %s) and %s (owner %s)", name, gx.Amount, gx.Owner, gy.Amount, gy.Owner)
			}
			if n := len(ek.GetAllLockedUnds(ctx)); n != 2 {
				fail("after storing locked eFUND for %s the store lists %d entries", name, n)
			}
			// spent eFUND
			ek.SetSpentEFUNDForAccount(ctx, enttypes.SpentEFUND{Owner: x.String(), Amount: sdk.NewInt64Coin("nund", 33)})
			if got := ek.GetSpentEFUNDForAccount(ctx, y); !got.Amount.IsZero() || ek.AccountHasSpentEFUND(ctx, y) {
				fail("spent eFUND stored for the first of %s is read through the second (%s)", name, got.Amount)
			}
			ek.SetSpentEFUNDForAccount(ctx, enttypes.SpentEFUND{Owner: y.String(), Amount: sdk.NewInt64Coin("nund", 44)})
			sx, sy := ek.GetSpentEFUNDForAccount(ctx, x), ek.GetSpentEFUNDForAccount(ctx, y)
			if sx.Amount.Amount.Int64() != 33 || sy.Amount.Amount.Int64() != 44 || sx.Owner != x.String() || sy.Owner != y.String() {
				fail("spent eFUND 33 and 44 stored for %s reads back as %s (owner %s) and %s (owner %s)", name, sx.Amount, sx.Owner, sy.Amount, sy.Owner)
			}
			if n := len(ek.GetAllSpentEFUNDs(ctx)); n != 2 {
				fail("after storing spent eFUND for %s the store lists %d entries", name, n)
			}
			// whitelist: adding one does not add the other, removing one does not remove the other
			before := len(ek.GetAllWhitelistedAddresses(ctx))
			ek.AddAddressToWhitelist(ctx, x)
			if !ek.AddressIsWhitelisted(ctx, x) || ek.AddressIsWhitelisted(ctx, y) {
				fail("whitelisting the first of %s: first listed %v, second listed %v", name, ek.AddressIsWhitelisted(ctx, x), ek.AddressIsWhitelisted(ctx, y))
			}
			ek.AddAddressToWhitelist(ctx, y)
			if n := len(ek.GetAllWhitelistedAddresses(ctx)); n != before+2 {
				fail("whitelisting both of %s added %d entries", name, n-before)
			}
			ek.RemoveAddressFromWhitelist(ctx, x)
			if ek.AddressIsWhitelisted(ctx, x) || !ek.AddressIsWhitelisted(ctx, y) {
				fail("removing the first of %s from the whitelist: first listed %v, second listed %v", name, ek.AddressIsWhitelisted(ctx, x), ek.AddressIsWhitelisted(ctx, y))
			}
			// streams: as receivers of one sender, as senders to one receiver, and to each other
			other := c.addrOf(0)
			mkS := func(rate int64) strtypes.Stream {
				return strtypes.Stream{Deposit: sdk.NewInt64Coin("nund", 0), FlowRate: rate, LastOutflowTime: c.now, DepositZeroTime: c.now, Cancellable: true}
			}
			type rs struct{ r, s sdk.AccAddress }
			all := []rs{{x, other}, {y, other}, {other, x}, {other, y}, {x, y}, {y, x}}
			for i, q := range all {
				if _, found := sk.GetStream(ctx, q.r, q.s); found {
					fail("streams of %s: stream %d exists before it is created", name, i)
				}
				sk.SetStream(ctx, q.r, q.s, mkS(int64(100+i)))
			}
			for i, q := range all {
				if st, found := sk.GetStream(ctx, q.r, q.s); !found || st.FlowRate != int64(100+i) {
					fail("streams of %s: stream %d (receiver %s, sender %s) reads back found=%v rate %d, stored with rate %d", name, i, hexShort(q.r), hexShort(q.s), found, st.FlowRate, 100+i)
				}
			}
			n := 0
			sk.IterateAllStreams(ctx, func(r, s sdk.AccAddress, st strtypes.Stream) bool {
				n++
				for i, q := range all {
					if st.FlowRate == int64(100+i) && (!r.Equals(q.r) || !s.Equals(q.s)) {
						fail("streams of %s: the stream stored for (receiver %s, sender %s) is iterated as (receiver %s, sender %s)", name, hexShort(q.r), hexShort(q.s), hexShort(r), hexShort(s))
					}
				}
				return false
			})
			if n != len(all) {
				fail("streams of %s: %d streams stored, %d iterated", name, len(all), n)
			}
			sk.DeleteStream(ctx, all[0].r, all[0].s)
			for i, q := range all[1:] {
				if _, found := sk.GetStream(ctx, q.r, q.s); !found {
					fail("streams of %s: deleting stream 0 removed stream %d", name, i+1)
				}
			}
		})
		if !ok {
			fail("a keeper call panicked for %s", name)
		}
		checks++
	}
	return capFailures(fails, 12), checks
}

func cmdKeys(args []string) {
	fs := flag.NewFlagSet("keys", flag.ExitOnError)
	out := fs.String("out", ".", "output directory")
	n := fs.Int("n", 3000, "number of random cases")
	per := fs.Int("shard", 250, "cases per Coq file")
	fs.Parse(args)
	r := newRng(seedFromEnv())

	var items []string
	kinds := map[string]int{}
	add := func(kind, s string) { items = append(items, s); kinds[kind]++ }
	distinct := map[string]bool{}

	// single-byte keys and prefixes
	add("const", "KCEnt EkHighestPO "+coqBytes(enttypes.HighestPurchaseOrderIDKey))
	add("const", "KCEnt EkParams "+coqBytes(enttypes.ParamsKey))
	add("const", "KCEnt EkTotalSpent "+coqBytes(enttypes.TotalSpentEFUNDKey))
	add("const", "KCEnt EkTotalLocked "+coqBytes(enttypes.TotalLockedUndKey))
	add("const", "KCWrk RkHighestId "+coqBytes(wrktypes.HighestWrkChainIDKey))
	add("const", "KCWrk RkParams "+coqBytes(wrktypes.ParamsKey))
	add("const", "KCBcn RkHighestId "+coqBytes(bcntypes.HighestBeaconIDKey))
	add("const", "KCBcn RkParams "+coqBytes(bcntypes.ParamsKey))
	add("const", "KCStr SkParams "+coqBytes(strtypes.ParamsKey))
	add("const", "KCPrefix ent_prefix_po "+coqBytes(enttypes.PurchaseOrderIDKeyPrefix))
	add("const", "KCPrefix ent_prefix_locked "+coqBytes(enttypes.LockedUndAddressKeyPrefix))
	add("const", "KCPrefix ent_prefix_whitelist "+coqBytes(enttypes.WhitelistKeyPrefix))
	add("const", "KCPrefix ent_prefix_raised "+coqBytes(enttypes.RaisedPoPrefix))
	add("const", "KCPrefix ent_prefix_accepted "+coqBytes(enttypes.AcceptedPoPrefix))
	add("const", "KCPrefix ent_prefix_spent "+coqBytes(enttypes.SpentEFUNDAddressKeyPrefix))
	add("const", "KCPrefix wrk_prefix_regs "+coqBytes(wrktypes.RegisteredWrkChainPrefix))
	add("const", "KCPrefix wrk_prefix_records_all "+coqBytes(wrktypes.RecordedWrkChainBlockHashPrefix))
	add("const", "KCPrefix wrk_prefix_limits "+coqBytes(wrktypes.WrkChainStorageLimitPrefix))
	add("const", "KCPrefix bcn_prefix_regs "+coqBytes(bcntypes.RegisteredBeaconPrefix))
	add("const", "KCPrefix bcn_prefix_records_all "+coqBytes(bcntypes.RecordedBeaconTimestampPrefix))
	add("const", "KCPrefix bcn_prefix_limits "+coqBytes(bcntypes.BeaconStorageLimitPrefix))
	add("const", "KCPrefix str_prefix_all "+coqBytes(strtypes.StreamKeyPrefix))

	// the stream key of (receiver a, sender b) with its prefix and the two parsers' answers
	addStream := func(a, b []byte) []byte {
		key := strtypes.GetStreamKey(sdk.AccAddress(a), sdk.AccAddress(b))
		add("str.stream", fmt.Sprintf("KCStr (SkStream %s %s) %s", coqBytes(a), coqBytes(b), coqBytes(key)))
		add("str.receiver_prefix", fmt.Sprintf("KCPrefix (str_prefix_receiver %s) %s", coqBytes(a), coqBytes(strtypes.GetStreamsByReceiverKey(sdk.AccAddress(a)))))
		pr, ps, ok := safeParse(key)
		if ok {
			add("str.parse", fmt.Sprintf("KCStrParse %s %s (Some (%s, %s))", coqBytes(a), coqBytes(b), coqBytes(pr), coqBytes(ps)))
		} else {
			add("str.parse", fmt.Sprintf("KCStrParse %s %s None", coqBytes(a), coqBytes(b)))
		}
		// what AllStreamsForReceiver does: prefix store strips 0x11 ++ lp(receiver); helper reads the sender
		stripped := key[len(strtypes.GetStreamsByReceiverKey(sdk.AccAddress(a))):]
		fa, ok2 := safeFirst(stripped)
		if ok2 {
			add("str.first", fmt.Sprintf("KCStrFirst %s %s (Some %s)", coqBytes(a), coqBytes(b), coqBytes(fa)))
		} else {
			add("str.first", fmt.Sprintf("KCStrFirst %s %s None", coqBytes(a), coqBytes(b)))
		}
		return key
	}

	// structured address pairs, as one block (the pair laws are evaluated per file): every address-keyed builder of
	// x/enterprise and the stream key builder on both members of each pair; the same laws are evaluated here on the
	// implementation's bytes, over the whole block
	var failures []monFailure
	pairs := structuredAddrPairs()
	{
		var entKeys, strKeys []builtKey
		emitted := map[string]bool{}
		third := []byte{0x5a, 0x5b, 0x5c, 0x5d, 0x5e, 0x5f, 0x60, 0x61, 0x62, 0x63, 0x64, 0x65, 0x66, 0x67, 0x68, 0x69, 0x6a, 0x6b, 0x6c, 0x6d}
		for _, p := range pairs {
			for _, a := range p {
				if emitted[string(a)] {
					continue
				}
				emitted[string(a)] = true
				acc := sdk.AccAddress(a)
				lk, sk, wk := enttypes.LockedUndAddressStoreKey(acc), enttypes.SpentEFUNDAddressStoreKey(acc), enttypes.WhitelistAddressStoreKey(acc)
				add("ent.locked", fmt.Sprintf("KCEnt (EkLocked %s) %s", coqBytes(a), coqBytes(lk)))
				add("ent.spent", fmt.Sprintf("KCEnt (EkSpent %s) %s", coqBytes(a), coqBytes(sk)))
				add("ent.whitelist", fmt.Sprintf("KCEnt (EkWhitelist %s) %s", coqBytes(a), coqBytes(wk)))
				entKeys = append(entKeys, builtKey{fmt.Sprintf("locked(%s)", hexShort(a)), "locked" + string(a), lk}, builtKey{fmt.Sprintf("spent(%s)", hexShort(a)), "spent" + string(a), sk},
					builtKey{fmt.Sprintf("whitelist(%s)", hexShort(a)), "whitelist" + string(a), wk})
			}
			x, y := p[0], p[1]
			for _, q := range [][2][]byte{{x, third}, {y, third}, {third, x}, {third, y}, {x, y}, {y, x}} {
				id := string(q[0]) + "|" + fmt.Sprint(len(q[0])) + "|" + string(q[1])
				if emitted[id] {
					continue
				}
				emitted[id] = true
				strKeys = append(strKeys, builtKey{fmt.Sprintf("stream(receiver %s, sender %s)", hexShort(q[0]), hexShort(q[1])), id, addStream(q[0], q[1])})
			}
			// isolation of the by-receiver prefixes: the range of one receiver holds no key of another
			for _, q := range [][2][]byte{{x, y}, {y, x}} {
				pre := strtypes.GetStreamsByReceiverKey(sdk.AccAddress(q[0]))
				if key := strtypes.GetStreamKey(sdk.AccAddress(q[1]), sdk.AccAddress(third)); bytes.HasPrefix(key, pre) {
					failures = append(failures, monFailure{Property: "C18", OpIndex: -1, History: -1, What: fmt.Sprintf("stream store: the key of a stream to receiver %s lies in the by-receiver range of the different receiver %s", hexShort(q[1]), hexShort(q[0]))})
				}
			}
		}
		for _, k := range []builtKey{{"highest-po", "", enttypes.HighestPurchaseOrderIDKey}, {"params", "", enttypes.ParamsKey}, {"total-spent", "", enttypes.TotalSpentEFUNDKey}, {"total-locked", "", enttypes.TotalLockedUndKey},
			{"po(1)", "", enttypes.PurchaseOrderKey(1)}, {"raised(1)", "", enttypes.RaisedQueueStoreKey(1)}, {"accepted(1)", "", enttypes.AcceptedQueueStoreKey(1)}} {
			k.id = "const:" + k.logical
			entKeys = append(entKeys, k)
		}
		strKeys = append(strKeys, builtKey{"params", "const:params", strtypes.ParamsKey})
		failures = append(failures, keyLaws("enterprise", entKeys)...)
		failures = append(failures, keyLaws("stream", strKeys)...)
		// an address-keyed entry must stay inside its own section: no key of one section extends the prefix of another
		for _, k := range entKeys {
			for _, sec := range []struct {
				name string
				pre  []byte
			}{{"locked", enttypes.LockedUndAddressKeyPrefix}, {"spent", enttypes.SpentEFUNDAddressKeyPrefix}, {"whitelist", enttypes.WhitelistKeyPrefix}} {
				if bytes.HasPrefix(k.bz, sec.pre) != strings.HasPrefix(k.logical, sec.name+"(") {
					failures = append(failures, monFailure{Property: "C18", OpIndex: -1, History: -1, What: fmt.Sprintf("enterprise store: key %s of %s and the range of section %s", hexShort(k.bz), k.logical, sec.name)})
				}
			}
		}
	}
	kfails, kchecks := keeperIsolation(pairs)
	failures = append(failures, kfails...)
	kinds["keeper.isolation_pairs"] = kchecks

	for i := 0; i < *n; i++ {
		id, h := randID(r), randID(r)
		a, b := randAddr(r), randAddr(r)
		if r.chance(1, 10) { // a receiver that is a byte-prefix of another receiver
			b = append(append([]byte{}, a...), randAddr(r)...)
			if len(b) > 255 {
				b = b[:255]
			}
		}
		switch r.intn(16) {
		case 0:
			add("ent.po", fmt.Sprintf("KCEnt (EkPO %s) %s", coqN(id), coqBytes(enttypes.PurchaseOrderKey(id))))
		case 1:
			add("ent.locked", fmt.Sprintf("KCEnt (EkLocked %s) %s", coqBytes(a), coqBytes(enttypes.LockedUndAddressStoreKey(sdk.AccAddress(a)))))
		case 2:
			add("ent.whitelist", fmt.Sprintf("KCEnt (EkWhitelist %s) %s", coqBytes(a), coqBytes(enttypes.WhitelistAddressStoreKey(sdk.AccAddress(a)))))
		case 3:
			add("ent.raised", fmt.Sprintf("KCEnt (EkRaised %s) %s", coqN(id), coqBytes(enttypes.RaisedQueueStoreKey(id))))
		case 4:
			add("ent.accepted", fmt.Sprintf("KCEnt (EkAccepted %s) %s", coqN(id), coqBytes(enttypes.AcceptedQueueStoreKey(id))))
		case 5:
			add("ent.spent", fmt.Sprintf("KCEnt (EkSpent %s) %s", coqBytes(a), coqBytes(enttypes.SpentEFUNDAddressStoreKey(sdk.AccAddress(a)))))
		case 6:
			add("wrk.reg", fmt.Sprintf("KCWrk (RkReg %s) %s", coqN(id), coqBytes(wrktypes.WrkChainKey(id))))
		case 7:
			add("wrk.record", fmt.Sprintf("KCWrk (RkRecord %s %s) %s", coqN(id), coqN(h), coqBytes(wrktypes.WrkChainBlockKey(id, h))))
			add("wrk.records_of", fmt.Sprintf("KCPrefix (wrk_prefix_records_of %s) %s", coqN(id), coqBytes(wrktypes.WrkChainAllBlocksKey(id))))
		case 8:
			add("wrk.limit", fmt.Sprintf("KCWrk (RkLimit %s) %s", coqN(id), coqBytes(wrktypes.WrkChainStorageLimitKey(id))))
		case 9:
			add("bcn.reg", fmt.Sprintf("KCBcn (RkReg %s) %s", coqN(id), coqBytes(bcntypes.BeaconKey(id))))
		case 10:
			add("bcn.record", fmt.Sprintf("KCBcn (RkRecord %s %s) %s", coqN(id), coqN(h), coqBytes(bcntypes.BeaconTimestampKey(id, h))))
			add("bcn.records_of", fmt.Sprintf("KCPrefix (bcn_prefix_records_of %s) %s", coqN(id), coqBytes(bcntypes.BeaconAllTimestampsKey(id))))
		case 11:
			add("bcn.limit", fmt.Sprintf("KCBcn (RkLimit %s) %s", coqN(id), coqBytes(bcntypes.BeaconStorageLimitKey(id))))
		default:
			addStream(a, b)
		}
		distinct[items[len(items)-1]] = true
	}

	var files []string
	for i, sh := range shard(items, *per) {
		name := fmt.Sprintf("cases_keys_%d.v", i)
		var sb strings.Builder
		sb.WriteString("From MC Require Import lib.Prelude model.Keys model.KeysCheck.\nFrom Coq Require Import NArith.\n")
		sb.WriteString("Definition cases : list key_case :=\n " + coqList(sh) + ".\n")
		sb.WriteString("Definition bad_corr := Eval vm_compute in keys_bad_corr cases.\nPrint bad_corr.\n")
		sb.WriteString("Definition bad_mon := Eval vm_compute in keys_bad_mon cases.\nPrint bad_mon.\n")
		writeFile(filepath.Join(*out, name), sb.String())
		files = append(files, name)
	}
	var samples []string
	for i := 0; i < len(items) && len(samples) < 6; i += len(items)/6 + 1 {
		samples = append(samples, items[i])
	}
	writeJSON(filepath.Join(*out, "stats_keys.json"), map[string]interface{}{
		"files": files, "evaluations": len(items), "distinct_nontrivial": len(distinct),
		"rule":         "every key builder / prefix / stream-key parser of the four keys.go on ids from a boundary table (0, 2^8.., 2^63, 2^64-1) or random, addresses of length 1..255 (20/32 favoured, bytes 0x00/0xff/len favoured, receivers that are byte-prefixes of other receivers), preceded by a block of structured address pairs (a, a ++ suffix) / (short, short ++ zero bytes) for the address-keyed builders of x/enterprise and x/stream whose injectivity, section isolation and keeper-level set/get/delete isolation are also evaluated on the implementation side; distinct = distinct generated (logical key, bytes) lines",
		"distribution": map[string]interface{}{"by_kind": kinds},
		"samples":      samples, "go_monitor_failures": failures,
	})
}
