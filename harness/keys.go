package main

import (
	"flag"
	"fmt"
	"path/filepath"
	"strings"

	sdk "github.com/cosmos/cosmos-sdk/types"

	bcntypes "github.com/unification-com/mainchain/x/beacon/types"
	enttypes "github.com/unification-com/mainchain/x/enterprise/types"
	strtypes "github.com/unification-com/mainchain/x/stream/types"
	wrktypes "github.com/unification-com/mainchain/x/wrkchain/types"
)

// C18: the real key builders/parsers on boundary x random logical keys.

func coqBytes(bz []byte) string {
	parts := make([]string, len(bz))
	for i, b := range bz {
		parts[i] = fmt.Sprintf("%d", b)
	}
	return "[" + strings.Join(parts, ";") + "]%N"
}

func coqN(x uint64) string { return fmt.Sprintf("%d%%N", x) }

func randAddr(r *rng) []byte {
	lens := []int{1, 2, 19, 20, 20, 20, 21, 31, 32, 32, 33, 64, 127, 128, 254, 255}
	n := lens[r.intn(len(lens))]
	if r.chance(1, 4) {
		n = 1 + r.intn(255)
	}
	bz := make([]byte, n)
	for i := range bz {
		switch r.intn(6) {
		case 0:
			bz[i] = 0
		case 1:
			bz[i] = 255
		case 2:
			bz[i] = byte(n) // looks like a length prefix
		default:
			bz[i] = byte(r.next())
		}
	}
	return bz
}

func randID(r *rng) uint64 {
	b := []uint64{0, 1, 2, 255, 256, 257, 65535, 65536, 1 << 24, 1<<32 - 1, 1 << 32, 1<<56 - 1, 1 << 56, 1<<63 - 1, 1 << 63, 1<<64 - 2, 1<<64 - 1}
	if r.chance(1, 2) {
		return b[r.intn(len(b))]
	}
	x := r.next()
	if r.chance(1, 3) {
		x >>= uint(r.intn(64))
	}
	return x
}

func safeParse(key []byte) (r, s []byte, ok bool) {
	defer func() {
		if e := recover(); e != nil {
			ok = false
		}
	}()
	ra, sa := strtypes.AddressesFromStreamKey(key)
	return ra, sa, true
}

func safeFirst(key []byte) (a []byte, ok bool) {
	defer func() {
		if e := recover(); e != nil {
			ok = false
		}
	}()
	return strtypes.FirstAddressFromStreamStoreKey(key), true
}

func cmdKeys(args []string) {
	fs := flag.NewFlagSet("keys", flag.ExitOnError)
	out := fs.String("out", ".", "output directory")
	n := fs.Int("n", 3000, "number of random cases")
	per := fs.Int("shard", 250, "cases per Coq file")
	fs.Parse(args)
	r := newRng(seedFromEnv())

	var items []string
	kinds := map[string]int{}
	add := func(kind, s string) { items = append(items, s); kinds[kind]++ }
	distinct := map[string]bool{}

	// single-byte keys and prefixes
	add("const", "KCEnt EkHighestPO "+coqBytes(enttypes.HighestPurchaseOrderIDKey))
	add("const", "KCEnt EkParams "+coqBytes(enttypes.ParamsKey))
	add("const", "KCEnt EkTotalSpent "+coqBytes(enttypes.TotalSpentEFUNDKey))
	add("const", "KCEnt EkTotalLocked "+coqBytes(enttypes.TotalLockedUndKey))
	add("const", "KCWrk RkHighestId "+coqBytes(wrktypes.HighestWrkChainIDKey))
	add("const", "KCWrk RkParams "+coqBytes(wrktypes.ParamsKey))
	add("const", "KCBcn RkHighestId "+coqBytes(bcntypes.HighestBeaconIDKey))
	add("const", "KCBcn RkParams "+coqBytes(bcntypes.ParamsKey))
	add("const", "KCStr SkParams "+coqBytes(strtypes.ParamsKey))
	add("const", "KCPrefix ent_prefix_po "+coqBytes(enttypes.PurchaseOrderIDKeyPrefix))
	add("const", "KCPrefix ent_prefix_locked "+coqBytes(enttypes.LockedUndAddressKeyPrefix))
	add("const", "KCPrefix ent_prefix_whitelist "+coqBytes(enttypes.WhitelistKeyPrefix))
	add("const", "KCPrefix ent_prefix_raised "+coqBytes(enttypes.RaisedPoPrefix))
	add("const", "KCPrefix ent_prefix_accepted "+coqBytes(enttypes.AcceptedPoPrefix))
	add("const", "KCPrefix ent_prefix_spent "+coqBytes(enttypes.SpentEFUNDAddressKeyPrefix))
	add("const", "KCPrefix wrk_prefix_regs "+coqBytes(wrktypes.RegisteredWrkChainPrefix))
	add("const", "KCPrefix wrk_prefix_records_all "+coqBytes(wrktypes.RecordedWrkChainBlockHashPrefix))
	add("const", "KCPrefix wrk_prefix_limits "+coqBytes(wrktypes.WrkChainStorageLimitPrefix))
	add("const", "KCPrefix bcn_prefix_regs "+coqBytes(bcntypes.RegisteredBeaconPrefix))
	add("const", "KCPrefix bcn_prefix_records_all "+coqBytes(bcntypes.RecordedBeaconTimestampPrefix))
	add("const", "KCPrefix bcn_prefix_limits "+coqBytes(bcntypes.BeaconStorageLimitPrefix))
	add("const", "KCPrefix str_prefix_all "+coqBytes(strtypes.StreamKeyPrefix))

	for i := 0; i < *n; i++ {
		id, h := randID(r), randID(r)
		a, b := randAddr(r), randAddr(r)
		if r.chance(1, 10) { // a receiver that is a byte-prefix of another receiver
			b = append(append([]byte{}, a...), randAddr(r)...)
			if len(b) > 255 {
				b = b[:255]
			}
		}
		switch r.intn(16) {
		case 0:
			add("ent.po", fmt.Sprintf("KCEnt (EkPO %s) %s", coqN(id), coqBytes(enttypes.PurchaseOrderKey(id))))
		case 1:
			add("ent.locked", fmt.Sprintf("KCEnt (EkLocked %s) %s", coqBytes(a), coqBytes(enttypes.LockedUndAddressStoreKey(sdk.AccAddress(a)))))
		case 2:
			add("ent.whitelist", fmt.Sprintf("KCEnt (EkWhitelist %s) %s", coqBytes(a), coqBytes(enttypes.WhitelistAddressStoreKey(sdk.AccAddress(a)))))
		case 3:
			add("ent.raised", fmt.Sprintf("KCEnt (EkRaised %s) %s", coqN(id), coqBytes(enttypes.RaisedQueueStoreKey(id))))
		case 4:
			add("ent.accepted", fmt.Sprintf("KCEnt (EkAccepted %s) %s", coqN(id), coqBytes(enttypes.AcceptedQueueStoreKey(id))))
		case 5:
			add("ent.spent", fmt.Sprintf("KCEnt (EkSpent %s) %s", coqBytes(a), coqBytes(enttypes.SpentEFUNDAddressStoreKey(sdk.AccAddress(a)))))
		case 6:
			add("wrk.reg", fmt.Sprintf("KCWrk (RkReg %s) %s", coqN(id), coqBytes(wrktypes.WrkChainKey(id))))
		case 7:
			add("wrk.record", fmt.Sprintf("KCWrk (RkRecord %s %s) %s", coqN(id), coqN(h), coqBytes(wrktypes.WrkChainBlockKey(id, h))))
			add("wrk.records_of", fmt.Sprintf("KCPrefix (wrk_prefix_records_of %s) %s", coqN(id), coqBytes(wrktypes.WrkChainAllBlocksKey(id))))
		case 8:
			add("wrk.limit", fmt.Sprintf("KCWrk (RkLimit %s) %s", coqN(id), coqBytes(wrktypes.WrkChainStorageLimitKey(id))))
		case 9:
			add("bcn.reg", fmt.Sprintf("KCBcn (RkReg %s) %s", coqN(id), coqBytes(bcntypes.BeaconKey(id))))
		case 10:
			add("bcn.record", fmt.Sprintf("KCBcn (RkRecord %s %s) %s", coqN(id), coqN(h), coqBytes(bcntypes.BeaconTimestampKey(id, h))))
			add("bcn.records_of", fmt.Sprintf("KCPrefix (bcn_prefix_records_of %s) %s", coqN(id), coqBytes(bcntypes.BeaconAllTimestampsKey(id))))
		case 11:
			add("bcn.limit", fmt.Sprintf("KCBcn (RkLimit %s) %s", coqN(id), coqBytes(bcntypes.BeaconStorageLimitKey(id))))
		default:
			key := strtypes.GetStreamKey(sdk.AccAddress(a), sdk.AccAddress(b))
			add("str.stream", fmt.Sprintf("KCStr (SkStream %s %s) %s", coqBytes(a), coqBytes(b), coqBytes(key)))
			add("str.receiver_prefix", fmt.Sprintf("KCPrefix (str_prefix_receiver %s) %s", coqBytes(a), coqBytes(strtypes.GetStreamsByReceiverKey(sdk.AccAddress(a)))))
			pr, ps, ok := safeParse(key)
			if ok {
				add("str.parse", fmt.Sprintf("KCStrParse %s %s (Some (%s, %s))", coqBytes(a), coqBytes(b), coqBytes(pr), coqBytes(ps)))
			} else {
				add("str.parse", fmt.Sprintf("KCStrParse %s %s None", coqBytes(a), coqBytes(b)))
			}
			// what AllStreamsForReceiver does: prefix store strips 0x11 ++ lp(receiver); helper reads the sender
			stripped := key[len(strtypes.GetStreamsByReceiverKey(sdk.AccAddress(a))):]
			fa, ok2 := safeFirst(stripped)
			if ok2 {
				add("str.first", fmt.Sprintf("KCStrFirst %s %s (Some %s)", coqBytes(a), coqBytes(b), coqBytes(fa)))
			} else {
				add("str.first", fmt.Sprintf("KCStrFirst %s %s None", coqBytes(a), coqBytes(b)))
			}
		}
		distinct[items[len(items)-1]] = true
	}

	var files []string
	for i, sh := range shard(items, *per) {
		name := fmt.Sprintf("cases_keys_%d.v", i)
		var sb strings.Builder
		sb.WriteString("From MC Require Import lib.Prelude model.Keys model.KeysCheck.\nFrom Coq Require Import NArith.\n")
		sb.WriteString("Definition cases : list key_case :=\n " + coqList(sh) + ".\n")
		sb.WriteString("Definition bad_corr := Eval vm_compute in keys_bad_corr cases.\nPrint bad_corr.\n")
		sb.WriteString("Definition bad_mon := Eval vm_compute in keys_bad_mon cases.\nPrint bad_mon.\n")
		writeFile(filepath.Join(*out, name), sb.String())
		files = append(files, name)
	}
	var samples []string
	for i := 0; i < len(items) && len(samples) < 6; i += len(items)/6 + 1 {
		samples = append(samples, items[i])
	}
	writeJSON(filepath.Join(*out, "stats_keys.json"), map[string]interface{}{
		"files": files, "evaluations": len(items), "distinct_nontrivial": len(distinct),
		"rule":         "every key builder / prefix / stream-key parser of the four keys.go on ids from a boundary table (0, 2^8.., 2^63, 2^64-1) or random, addresses of length 1..255 (20/32 favoured, bytes 0x00/0xff/len favoured, receivers that are byte-prefixes of other receivers); distinct = distinct generated (logical key, bytes) lines",
		"distribution": map[string]interface{}{"by_kind": kinds},
		"samples":      samples,
	})
}
