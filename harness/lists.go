package main

import (
	"encoding/binary"
	"flag"
	"fmt"
	"path/filepath"
	"sort"
	"strings"
	"time"

	sdk "github.com/cosmos/cosmos-sdk/types"
	"github.com/cosmos/cosmos-sdk/types/query"

	bcntypes "github.com/unification-com/mainchain/x/beacon/types"
	enttypes "github.com/unification-com/mainchain/x/enterprise/types"
	strtypes "github.com/unification-com/mainchain/x/stream/types"
	wrktypes "github.com/unification-com/mainchain/x/wrkchain/types"
)

// C20: the real gRPC list queries, paged every way, on states reached by random histories.
// Ground truth (which items exist, in store order, and which match the filter) comes from keeper
// iteration and point queries, not from the pagination code under test.

type listItem struct {
	key   uint64 // model key: the numeric id, or 2*rank+1 for stream keys
	match bool
	ident string // what a returned element is recognised by
	point string // the corresponding point query's answer, as text
}

type listRun struct {
	name   string
	items  []listItem
	keyOf  func(nextKey []byte) (uint64, bool) // decode NextKey into a model key
	encKey func(k uint64) []byte               // encode a model key as a request key
	call   func(p *query.PageRequest) (idents []string, texts []string, next []byte, total uint64, err error)
	last   []string // identifiers returned by the most recent page request made through one()
}

func coqPageReq(keyState string, offset, limit uint64, count, reverse bool) string {
	return fmt.Sprintf("{| pr_key := %s; pr_offset := %d; pr_limit := %s; pr_count_total := %s; pr_reverse := %s |}",
		keyState, offset, coqU64(limit), coqBool(count), coqBool(reverse))
}

func (lr *listRun) coqItems() string {
	var ps []string
	for _, it := range lr.items {
		ps = append(ps, fmt.Sprintf("(%d, %s)", it.key, coqBool(it.match)))
	}
	return "[" + strings.Join(ps, "; ") + "]%N"
}

type listStats struct {
	cases, errors, walks, pointMismatch int
	failures                            []monFailure
	kinds                               map[string]int
}

func (lr *listRun) one(ls *listStats, keyState string, key []byte, offset, limit uint64, count, reverse bool, out *[]string) (next []byte, ok bool) {
	req := &query.PageRequest{Key: key, Offset: offset, Limit: limit, CountTotal: count, Reverse: reverse}
	var idents, texts []string
	var total uint64
	var err error
	good := safely(func() { idents, texts, next, total, err = lr.call(req) })
	lr.last = idents
	obs := "None"
	if good && err == nil {
		byIdent := map[string]listItem{}
		for _, it := range lr.items {
			byIdent[it.ident] = it
		}
		var ks []string
		for i, id := range idents {
			it, found := byIdent[id]
			if !found {
				ls.failures = append(ls.failures, monFailure{Property: "C20", What: fmt.Sprintf("%s returned an item that is not stored: %s", lr.name, id)})
				if strings.HasPrefix(lr.name, "streams") {
					ls.failures = append(ls.failures, monFailure{Property: "C18", What: fmt.Sprintf("%s lists a stream with a (receiver|sender) pair no stream was created with: %s", lr.name, id)})
				}
				ks = append(ks, "999999999")
				continue
			}
			ks = append(ks, fmt.Sprintf("%d", it.key))
			if it.point != texts[i] {
				ls.pointMismatch++
				ls.failures = append(ls.failures, monFailure{Property: "C20", What: fmt.Sprintf("%s: listed item %s differs from the point query: %s vs %s", lr.name, id, texts[i], it.point)})
				if strings.HasPrefix(lr.name, "streams") {
					ls.failures = append(ls.failures, monFailure{Property: "C18", What: fmt.Sprintf("%s: stream %s is listed differently from what is stored for that pair", lr.name, id)})
				}
			}
		}
		nk := "None"
		if len(next) > 0 {
			if k, ok := lr.keyOf(next); ok {
				nk = fmt.Sprintf("(Some %d)", k)
			} else {
				nk = "(Some 999999999)"
			}
		}
		obs = fmt.Sprintf("(Some ([%s], %s, %d))", strings.Join(ks, "; "), nk, total)
	} else {
		ls.errors++
		// a list query that panics, or that fails on a first page (no continuation key: nothing about the request can be
		// wrong), does not answer at all: the listing is not complete
		if !good {
			ls.failures = append(ls.failures, monFailure{Property: "C20", What: fmt.Sprintf("%s panicked on the request {offset %d, limit %d, count %v, reverse %v, key %x} over %d stored items", lr.name, offset, limit, count, reverse, key, len(lr.items))})
		} else if len(key) == 0 {
			ls.failures = append(ls.failures, monFailure{Property: "C20", What: fmt.Sprintf("%s failed on the request {offset %d, limit %d, count %v, reverse %v} over %d stored items: %v", lr.name, offset, limit, count, reverse, len(lr.items), err)})
		}
	}
	*out = append(*out, fmt.Sprintf("PPage %s %s %s", lr.coqItems(), coqPageReq(keyState, offset, limit, count, reverse), obs)+"%N")
	ls.cases++
	ls.kinds[lr.name]++
	return next, good && err == nil
}

func (lr *listRun) battery(ls *listStats, r *rng, out *[]string) {
	n := uint64(len(lr.items))
	limits := []uint64{1, 2, 3, n, n + 1, n + 2, 0}
	if n > 4 {
		limits = append(limits, n/2)
	}
	for _, lim := range limits {
		for _, rev := range []bool{false, true} {
			if rev && !r.chance(1, 3) {
				continue
			}
			// walk by key
			var collected []uint64
			var key []byte
			keyState := "KeyNil"
			okWalk := true
			for page := 0; page < int(n)+3; page++ {
				next, ok := lr.one(ls, keyState, key, 0, lim, r.chance(1, 4), rev, out)
				if !ok {
					okWalk = false
					break
				}
				// re-run the page to collect (cheap): the observation is already in out; collect via call
				ids, _, _, _, _ := lr.call(&query.PageRequest{Key: key, Limit: lim, Reverse: rev})
				for _, id := range ids {
					for _, it := range lr.items {
						if it.ident == id {
							collected = append(collected, it.key)
						}
					}
				}
				if len(next) == 0 {
					break
				}
				key = next
				if k, ok := lr.keyOf(next); ok {
					keyState = fmt.Sprintf("(KeyAt %d)", k)
				} else {
					okWalk = false
					break
				}
			}
			if okWalk {
				var want []uint64
				for _, it := range lr.items {
					if it.match {
						want = append(want, it.key)
					}
				}
				if rev {
					for i, j := 0, len(want)-1; i < j; i, j = i+1, j-1 {
						want[i], want[j] = want[j], want[i]
					}
				}
				if fmt.Sprint(want) != fmt.Sprint(collected) {
					ls.failures = append(ls.failures, monFailure{Property: "C20", What: fmt.Sprintf("%s: paging by key with limit %d (reverse=%v) returned %v, matching items are %v", lr.name, lim, rev, collected, want)})
				}
				ls.walks++
			}
			// pages by offset
			for _, off := range []uint64{0, 1, 2, n - 1, n, n + 1} {
				if off > n+1 || (off > 2 && !r.chance(1, 2)) {
					continue
				}
				lr.one(ls, "KeyNil", nil, off, lim, r.chance(1, 2), rev, out)
			}
		}
	}
	// both key and offset: must be refused
	if n > 0 {
		lr.one(ls, fmt.Sprintf("(KeyAt %d)", lr.items[0].key), lr.encKey(lr.items[0].key), 1, 2, false, false, out)
		// a key between / beyond stored keys
		if lr.encKey != nil && r.chance(1, 2) {
			k := lr.items[r.intn(len(lr.items))].key + 1
			lr.one(ls, fmt.Sprintf("(KeyAt %d)", k), lr.encKey(k), 0, 2, false, false, out)
		}
	}
}

// bigBattery: for lists of more than 100 items, page limits above the default page size (100).  Every walk - following
// NextKey, and by offset in steps of the limit - must return every matching item exactly once, in store order, nothing
// else, and must end.  The pages are emitted as cases like those of battery.
func (lr *listRun) bigBattery(ls *listStats, r *rng, out *[]string) {
	n := uint64(len(lr.items))
	byIdent := map[string]uint64{}
	for _, it := range lr.items {
		byIdent[it.ident] = it.key
	}
	collect := func(dst []uint64) []uint64 {
		for _, id := range lr.last {
			if k, ok := byIdent[id]; ok {
				dst = append(dst, k)
			} else {
				dst = append(dst, 999999999)
			}
		}
		return dst
	}
	for _, lim := range []uint64{101, 120, 500} {
		for _, rev := range []bool{false, true} {
			if rev && lim != 120 {
				continue
			}
			var want []uint64
			for _, it := range lr.items {
				if it.match {
					want = append(want, it.key)
				}
			}
			if rev {
				for i, j := 0, len(want)-1; i < j; i, j = i+1, j-1 {
					want[i], want[j] = want[j], want[i]
				}
			}
			// following NextKey
			var collected []uint64
			var key []byte
			keyState := "KeyNil"
			okWalk, ended := true, false
			for page := 0; page < int(n)+3; page++ {
				next, ok := lr.one(ls, keyState, key, 0, lim, r.chance(1, 4), rev, out)
				if !ok {
					okWalk = false
					break
				}
				collected = collect(collected)
				if len(next) == 0 {
					ended = true
					break
				}
				key = next
				if k, ok := lr.keyOf(next); ok {
					keyState = fmt.Sprintf("(KeyAt %d)", k)
				} else {
					ls.failures = append(ls.failures, monFailure{Property: "C20", What: fmt.Sprintf("%s (%d items): limit %d (reverse=%v): NextKey %x is not the key of a stored item", lr.name, n, lim, rev, next)})
					okWalk = false
					break
				}
			}
			if okWalk {
				if !ended {
					ls.failures = append(ls.failures, monFailure{Property: "C20", What: fmt.Sprintf("%s (%d items): paging by key with limit %d (reverse=%v) does not end: %d pages returned %d items, %d match", lr.name, n, lim, rev, n+3, len(collected), len(want))})
				} else if fmt.Sprint(want) != fmt.Sprint(collected) {
					ls.failures = append(ls.failures, monFailure{Property: "C20", What: fmt.Sprintf("%s (%d items): paging by key with limit %d (reverse=%v) returned %d items, %d match: %s", lr.name, n, lim, rev, len(collected), len(want), walkDiff(want, collected))})
				}
				ls.walks++
			}
			// by offset, in steps of the limit
			collected = nil
			okWalk = true
			for off := uint64(0); off <= n; off += lim {
				if _, ok := lr.one(ls, "KeyNil", nil, off, lim, r.chance(1, 2), rev, out); !ok {
					okWalk = false
					break
				}
				if uint64(len(lr.last)) > lim {
					ls.failures = append(ls.failures, monFailure{Property: "C20", What: fmt.Sprintf("%s (%d items): a page of limit %d holds %d items", lr.name, n, lim, len(lr.last))})
				}
				collected = collect(collected)
			}
			if okWalk {
				if fmt.Sprint(want) != fmt.Sprint(collected) {
					ls.failures = append(ls.failures, monFailure{Property: "C20", What: fmt.Sprintf("%s (%d items): paging by offset in steps of the limit %d (reverse=%v) returned %d items, %d match: %s", lr.name, n, lim, rev, len(collected), len(want), walkDiff(want, collected))})
				}
				ls.walks++
			}
		}
	}
}

// walkDiff says briefly how a walk differs from the expected sequence of model keys
func walkDiff(want, got []uint64) string {
	count := map[uint64]int{}
	for _, k := range got {
		count[k]++
	}
	var missing, repeated, foreign []uint64
	wanted := map[uint64]bool{}
	for _, k := range want {
		wanted[k] = true
		if count[k] == 0 {
			missing = append(missing, k)
		} else if count[k] > 1 {
			repeated = append(repeated, k)
		}
	}
	for _, k := range got {
		if !wanted[k] {
			foreign = append(foreign, k)
		}
	}
	head := func(l []uint64) string {
		if len(l) > 6 {
			return fmt.Sprintf("%v... (%d)", l[:6], len(l))
		}
		return fmt.Sprint(l)
	}
	if len(missing)+len(repeated)+len(foreign) == 0 {
		return "same items in another order"
	}
	return fmt.Sprintf("missing %s, returned more than once %s, not matching %s (model keys)", head(missing), head(repeated), head(foreign))
}

// bigListingChain builds a state with more than a default page (100) of items in every list: 120 WRKChains, 120 BEACONs
// and 120 purchase orders through transactions, 130 streams from 130 senders to one receiver (plus a few to two other
// receivers) through the keeper, as addSyntheticStreams does.
func bigListingChain() *chain {
	c := newChain(fixedCfg())
	s := &scen{c: c, name: "big-listing"}
	const nReg, nStr, perBlock = 120, 130, 40
	for id := 1; id <= nReg; {
		s.blockStart(2 * time.Second)
		for k := 0; k < perBlock && id <= nReg; k, id = k+1, id+1 {
			o := 1
			if id%10 == 0 {
				o = 2
			}
			s.tx(o, nundCoins(1000), wrktypes.NewMsgRegisterWrkChain(fmt.Sprintf("w%d", id), "gh", fmt.Sprintf("wrkchain %d", id), "geth", c.addrOf(o)))
			s.tx(o, nundCoins(1000), bcntypes.NewMsgRegisterBeacon(fmt.Sprintf("b%d", id), fmt.Sprintf("beacon %d", id), c.addrOf(o)))
			s.tx(4, nundCoins(10), enttypes.NewMsgUndPurchaseOrder(c.addrOf(4), sdk.NewInt64Coin("nund", int64(1000+id))))
			if id%7 == 0 { // some orders are decided: the status filters select sub-lists
				d := enttypes.StatusAccepted
				if id%14 == 0 {
					d = enttypes.StatusRejected
				}
				s.tx(0, nundCoins(10), &enttypes.MsgProcessUndPurchaseOrder{PurchaseOrderId: uint64(id), Decision: d, Signer: c.addrOf(0).String()})
				s.tx(1, nundCoins(10), &enttypes.MsgProcessUndPurchaseOrder{PurchaseOrderId: uint64(id), Decision: d, Signer: c.addrOf(1).String()})
			}
		}
		s.blockEnd()
	}
	s.blockStart(2 * time.Second)
	ctx := c.ctx()
	sender := func(i int) sdk.AccAddress {
		bz := make([]byte, 20)
		binary.BigEndian.PutUint64(bz[4:], hashString(fmt.Sprintf("big-listing-sender-%d", i)))
		binary.BigEndian.PutUint32(bz[16:], uint32(i))
		bz[0] = byte(i * 37)
		return sdk.AccAddress(bz)
	}
	for i := 0; i < nStr; i++ {
		st := strtypes.Stream{Deposit: sdk.NewInt64Coin("nund", 0), FlowRate: int64(1 + i), LastOutflowTime: c.now, DepositZeroTime: c.now, Cancellable: true}
		c.app.StreamKeeper.SetStream(ctx, c.addrOf(0), sender(i), st)
		if i < 3 {
			c.app.StreamKeeper.SetStream(ctx, c.addrOf(1), sender(i), st)
			c.app.StreamKeeper.SetStream(ctx, c.addrOf(2), sender(0), st)
		}
	}
	s.blockEnd()
	return c
}

func be64(x uint64) []byte {
	b := make([]byte, 8)
	binary.BigEndian.PutUint64(b, x)
	return b
}

func idKey(next []byte) (uint64, bool) {
	if len(next) != 8 {
		return 0, false
	}
	return binary.BigEndian.Uint64(next), true
}

func listRuns(c *chain, ctx sdk.Context, r *rng) []*listRun {
	var runs []*listRun
	gctx := sdk.WrapSDKContext(ctx)
	// ---- purchase orders ----
	pos := c.app.EnterpriseKeeper.GetAllPurchaseOrders(ctx)
	purchasers := []string{"", c.addrOf(0).String()}
	for _, po := range pos {
		purchasers = append(purchasers, po.Purchaser, strings.ToUpper(po.Purchaser))
		break
	}
	for _, st := range []enttypes.PurchaseOrderStatus{enttypes.StatusNil, enttypes.StatusRaised, enttypes.StatusAccepted, enttypes.StatusRejected, enttypes.StatusCompleted} {
		for _, pu := range purchasers {
			if st != enttypes.StatusNil && pu != "" && !r.chance(1, 3) {
				continue
			}
			st, pu := st, pu
			lr := &listRun{name: fmt.Sprintf("purchase-orders(status=%s,purchaser=%v)", st, pu != ""), keyOf: idKey, encKey: be64}
			for _, po := range pos {
				pt, _ := c.app.EnterpriseKeeper.GetPurchaseOrder(ctx, po.Id)
				lr.items = append(lr.items, listItem{po.Id, (st == enttypes.StatusNil || po.Status == st) && (pu == "" || strings.EqualFold(po.Purchaser, pu)), fmt.Sprint(po.Id), pt.String()})
			}
			lr.call = func(p *query.PageRequest) ([]string, []string, []byte, uint64, error) {
				res, err := c.app.EnterpriseKeeper.EnterpriseUndPurchaseOrders(gctx, &enttypes.QueryEnterpriseUndPurchaseOrdersRequest{Pagination: p, Purchaser: pu, Status: st})
				if err != nil {
					return nil, nil, nil, 0, err
				}
				var ids, ts []string
				for _, x := range res.PurchaseOrders {
					ids, ts = append(ids, fmt.Sprint(x.Id)), append(ts, x.String())
				}
				return ids, ts, res.Pagination.NextKey, res.Pagination.Total, nil
			}
			runs = append(runs, lr)
		}
	}
	// ---- wrkchains / beacons ----
	wcs := c.app.WrkchainKeeper.GetAllWrkChains(ctx)
	type flt struct{ owner, moniker string }
	wf := []flt{{"", ""}, {c.addrOf(1).String(), ""}}
	if len(wcs) > 0 {
		wf = append(wf, flt{wcs[0].Owner, ""}, flt{"", wcs[0].Moniker}, flt{wcs[len(wcs)-1].Owner, wcs[len(wcs)-1].Moniker}, flt{"", "nosuchmoniker"})
		lo, hi := wcs[0].Moniker, wcs[0].Moniker
		for _, w := range wcs {
			if len(w.Moniker) < len(lo) {
				lo = w.Moniker
			}
			if len(w.Moniker) >= len(hi) {
				hi = w.Moniker
			}
		}
		wf = append(wf, flt{"", lo}, flt{"", hi})
	}
	for _, f := range wf {
		f := f
		lr := &listRun{name: fmt.Sprintf("wrkchains(owner=%v,moniker=%v)", f.owner != "", f.moniker != ""), keyOf: idKey, encKey: be64}
		for _, wc := range wcs {
			pt, _ := c.app.WrkchainKeeper.GetWrkChain(ctx, wc.WrkchainId)
			lr.items = append(lr.items, listItem{wc.WrkchainId, (f.owner == "" || wc.Owner == f.owner) && (f.moniker == "" || wc.Moniker == f.moniker), fmt.Sprint(wc.WrkchainId), pt.String()})
		}
		lr.call = func(p *query.PageRequest) ([]string, []string, []byte, uint64, error) {
			res, err := c.app.WrkchainKeeper.WrkChainsFiltered(gctx, &wrktypes.QueryWrkChainsFilteredRequest{Pagination: p, Owner: f.owner, Moniker: f.moniker})
			if err != nil {
				return nil, nil, nil, 0, err
			}
			var ids, ts []string
			for _, x := range res.Wrkchains {
				ids, ts = append(ids, fmt.Sprint(x.WrkchainId)), append(ts, x.String())
			}
			return ids, ts, res.Pagination.NextKey, res.Pagination.Total, nil
		}
		runs = append(runs, lr)
	}
	bcs := c.app.BeaconKeeper.GetAllBeacons(ctx)
	bf := []flt{{"", ""}, {c.addrOf(1).String(), ""}}
	if len(bcs) > 0 {
		bf = append(bf, flt{bcs[0].Owner, ""}, flt{"", bcs[0].Moniker}, flt{"", "nosuchmoniker"})
		lo, hi := bcs[0].Moniker, bcs[0].Moniker
		for _, b := range bcs {
			if len(b.Moniker) < len(lo) {
				lo = b.Moniker
			}
			if len(b.Moniker) >= len(hi) {
				hi = b.Moniker
			}
		}
		bf = append(bf, flt{"", lo}, flt{"", hi})
	}
	for _, f := range bf {
		f := f
		lr := &listRun{name: fmt.Sprintf("beacons(owner=%v,moniker=%v)", f.owner != "", f.moniker != ""), keyOf: idKey, encKey: be64}
		for _, b := range bcs {
			pt, _ := c.app.BeaconKeeper.GetBeacon(ctx, b.BeaconId)
			lr.items = append(lr.items, listItem{b.BeaconId, (f.owner == "" || b.Owner == f.owner) && (f.moniker == "" || b.Moniker == f.moniker), fmt.Sprint(b.BeaconId), pt.String()})
		}
		lr.call = func(p *query.PageRequest) ([]string, []string, []byte, uint64, error) {
			res, err := c.app.BeaconKeeper.BeaconsFiltered(gctx, &bcntypes.QueryBeaconsFilteredRequest{Pagination: p, Owner: f.owner, Moniker: f.moniker})
			if err != nil {
				return nil, nil, nil, 0, err
			}
			var ids, ts []string
			for _, x := range res.Beacons {
				ids, ts = append(ids, fmt.Sprint(x.BeaconId)), append(ts, x.String())
			}
			return ids, ts, res.Pagination.NextKey, res.Pagination.Total, nil
		}
		runs = append(runs, lr)
	}
	// ---- streams: all, by sender, by receiver ----
	type sitem struct {
		r, s sdk.AccAddress
		st   strtypes.Stream
		key  []byte
	}
	var all []sitem
	c.app.StreamKeeper.IterateAllStreams(ctx, func(rc, sn sdk.AccAddress, st strtypes.Stream) bool {
		all = append(all, sitem{rc, sn, st, strtypes.GetStreamKey(rc, sn)[1:]})
		return false
	})
	sort.Slice(all, func(i, j int) bool { return string(all[i].key) < string(all[j].key) })
	mk := func(name string, sel func(sitem) bool, matchf func(sitem) bool, strip func(sitem) []byte,
		call func(p *query.PageRequest) ([]*strtypes.StreamResult, *query.PageResponse, error)) {
		lr := &listRun{name: name}
		var keys [][]byte
		for _, it := range all {
			if !sel(it) {
				continue
			}
			keys = append(keys, strip(it))
			lr.items = append(lr.items, listItem{uint64(2*len(lr.items) + 1), matchf(it), it.r.String() + "|" + it.s.String(), (&strtypes.StreamResult{Receiver: it.r.String(), Sender: it.s.String(), Stream: &it.st}).String()})
		}
		lr.keyOf = func(next []byte) (uint64, bool) {
			for i, k := range keys {
				if string(k) == string(next) {
					return uint64(2*i + 1), true
				}
			}
			return 0, false
		}
		lr.encKey = func(k uint64) []byte {
			i := int(k / 2)
			if k%2 == 1 && i < len(keys) {
				return keys[i]
			}
			if i < len(keys) { // between keys[i-1] and keys[i]: keys[i-1] with a trailing zero byte
				if i == 0 {
					return []byte{0}
				}
				return append(append([]byte{}, keys[i-1]...), 0)
			}
			return []byte{0xff, 0xff}
		}
		lr.call = func(p *query.PageRequest) ([]string, []string, []byte, uint64, error) {
			res, pr, err := call(p)
			if err != nil {
				return nil, nil, nil, 0, err
			}
			var ids, ts []string
			for _, x := range res {
				ids, ts = append(ids, x.Receiver+"|"+x.Sender), append(ts, x.String())
			}
			return ids, ts, pr.NextKey, pr.Total, nil
		}
		runs = append(runs, lr)
	}
	mk("streams", func(sitem) bool { return true }, func(sitem) bool { return true }, func(it sitem) []byte { return it.key },
		func(p *query.PageRequest) ([]*strtypes.StreamResult, *query.PageResponse, error) {
			res, err := c.app.StreamKeeper.Streams(gctx, &strtypes.QueryStreamsRequest{Pagination: p})
			if err != nil {
				return nil, nil, err
			}
			return res.Streams, res.Pagination, nil
		})
	seenS, seenR := map[string]bool{}, map[string]bool{}
	for _, it := range all {
		if !seenS[it.s.String()] && len(seenS) < 3 {
			seenS[it.s.String()] = true
			sender := it.s
			mk("streams-by-sender", func(sitem) bool { return true }, func(x sitem) bool { return x.s.Equals(sender) }, func(x sitem) []byte { return x.key },
				func(p *query.PageRequest) ([]*strtypes.StreamResult, *query.PageResponse, error) {
					res, err := c.app.StreamKeeper.AllStreamsForSender(gctx, &strtypes.QueryAllStreamsForSenderRequest{SenderAddr: sender.String(), Pagination: p})
					if err != nil {
						return nil, nil, err
					}
					return res.Streams, res.Pagination, nil
				})
		}
		if !seenR[it.r.String()] && len(seenR) < 3 {
			seenR[it.r.String()] = true
			recv := it.r
			plen := len(strtypes.GetStreamsByReceiverKey(recv)) - 1
			mk("streams-by-receiver", func(x sitem) bool { return x.r.Equals(recv) }, func(sitem) bool { return true }, func(x sitem) []byte { return x.key[plen:] },
				func(p *query.PageRequest) ([]*strtypes.StreamResult, *query.PageResponse, error) {
					res, err := c.app.StreamKeeper.AllStreamsForReceiver(gctx, &strtypes.QueryAllStreamsForReceiverRequest{ReceiverAddr: recv.String(), Pagination: p})
					if err != nil {
						return nil, nil, err
					}
					return res.Streams, res.Pagination, nil
				})
		}
	}
	return runs
}

// addSyntheticStreams stores (in one extra committed block, through the keeper) streams between addresses of
// other legal lengths - 1, 21, 32, 255 bytes - including senders whose bytes END in "<len><shorter sender>" and
// receivers that are byte-prefixes of other receivers: the states a chain with module / group-policy /
// interchain accounts reaches.  Only the list queries look at them.
func addSyntheticStreams(c *chain, r *rng) {
	if c.begin(2*time.Second) != nil {
		return
	}
	ctx := c.ctx()
	var base []sdk.AccAddress
	for i := 0; i < 3; i++ {
		base = append(base, c.addrOf(i))
	}
	pad := func(n int, tail []byte) sdk.AccAddress {
		bz := make([]byte, n)
		for i := range bz {
			bz[i] = byte(r.next())
		}
		copy(bz[n-len(tail):], tail)
		return sdk.AccAddress(bz)
	}
	var addrs []sdk.AccAddress
	for _, a := range base {
		suffix := append([]byte{byte(len(a))}, a...) // looks like a length-prefixed shorter address
		addrs = append(addrs, pad(32, suffix), pad(21, a[:20]), sdk.AccAddress(append(append([]byte{}, a...), 0x14)), pad(255, suffix))
	}
	addrs = append(addrs, sdk.AccAddress([]byte{0x01}), sdk.AccAddress([]byte{0x14}))
	// lengths and leading bytes that coincide with store prefixes (0x11 = 17 is the stream store prefix; a prefix-stripped
	// stream key begins with the receiver's length byte)
	lead := pad(20, nil)
	lead[0] = 0x11
	addrs = append(addrs, pad(17, nil), pad(17, nil), pad(2, nil), pad(3, nil), lead)
	n := 0
	for i := 0; i < 22; i++ {
		rc := addrs[r.intn(len(addrs))]
		sn := addrs[r.intn(len(addrs))]
		if r.chance(1, 2) {
			rc = base[r.intn(len(base))]
		}
		if r.chance(1, 3) {
			sn = base[r.intn(len(base))]
		}
		if rc.Equals(sn) {
			continue
		}
		st := strtypes.Stream{Deposit: sdk.NewInt64Coin("nund", 0), FlowRate: int64(1 + n), LastOutflowTime: c.now, DepositZeroTime: c.now, Cancellable: true}
		if c.app.StreamKeeper.SetStream(ctx, rc, sn, st) == nil {
			n++
		}
	}
	// registrations with monikers of the extreme legal lengths (64 bytes is the maximum ValidateBasic accepts, 1 the
	// minimum), two of them sharing the 64-byte moniker: the moniker filter must find them like any other
	long := strings.Repeat("m", 63) + string(rune('a'+r.intn(3)))
	for i, mon := range []string{long, long, "q"} {
		c.app.WrkchainKeeper.RegisterNewWrkChain(ctx, mon, fmt.Sprintf("syn%d", i), "g", "t", c.addrOf(i%2))
		c.app.BeaconKeeper.RegisterNewBeacon(ctx, bcntypes.Beacon{Moniker: mon, Name: fmt.Sprintf("syn%d", i), Owner: c.addrOf(i % 2).String()})
	}
	c.end(nil)
	c.commit()
}

func cmdLists(args []string) {
	fs := flag.NewFlagSet("lists", flag.ExitOnError)
	out := fs.String("out", ".", "output directory")
	n := fs.Int("n", 6, "number of histories (states)")
	blocks := fs.Int("blocks", 14, "blocks per history")
	per := fs.Int("shard", 600, "cases per Coq file")
	only := fs.String("only", "", "run only the list queries whose name starts with this (e.g. streams)")
	big := fs.Bool("big", true, "also walk a state with more than 100 items in every list with page limits above 100")
	fs.Parse(args)
	seed := seedFromEnv()
	ls := &listStats{kinds: map[string]int{}}
	var items []string
	sizes := map[string]int{}
	w := focusWeights["mixed"]
	w.regRegister, w.strCreate, w.entRaise, w.checkPerBlock, w.govEvery = 14, 14, 14, 0, 0
	for i := 0; i < *n; i++ {
		r := newRng(seed*7_000_003 + uint64(i))
		cfg := randCfg(r, true)
		if i%2 == 1 && cfg.startWrk == 0 { // a chain whose genesis numbering does not start at 1 (a chain restarted from an export, a fork)
			cfg.startPO, cfg.startWrk, cfg.startBcn = uint64(2+r.intn(40)), uint64(2+r.intn(40)), uint64(2+r.intn(40))
		}
		c := newChain(cfg)
		h := newHistory(c, r, w)
		h.run(*blocks)
		addSyntheticStreams(c, r)
		ctx := c.committedCtx()
		hashBefore := fmt.Sprintf("%X", c.app.LastCommitID().Hash)
		exportBefore := moduleExport(c)
		for _, lr := range listRuns(c, ctx, r) {
			if *only != "" && !strings.HasPrefix(lr.name, *only) {
				continue
			}
			sizes[fmt.Sprintf("%s:%d items", strings.Split(lr.name, "(")[0], len(lr.items))]++
			lr.battery(ls, r, &items)
		}
		if hashBefore != fmt.Sprintf("%X", c.app.LastCommitID().Hash) || exportBefore != moduleExport(c) {
			ls.failures = append(ls.failures, monFailure{Property: "C20", What: "running the list queries changed the application state"})
		}
		c.close()
	}
	if *big {
		r := newRng(seed*7_000_003 + 999_983)
		c := bigListingChain()
		ctx := c.committedCtx()
		hashBefore := fmt.Sprintf("%X", c.app.LastCommitID().Hash)
		for _, lr := range listRuns(c, ctx, r) {
			if *only != "" && !strings.HasPrefix(lr.name, *only) {
				continue
			}
			sizes[fmt.Sprintf("%s:%d items (big listing)", strings.Split(lr.name, "(")[0], len(lr.items))]++
			lr.bigBattery(ls, r, &items)
		}
		if hashBefore != fmt.Sprintf("%X", c.app.LastCommitID().Hash) {
			ls.failures = append(ls.failures, monFailure{Property: "C20", What: "running the list queries on the big listing changed the application state"})
		}
		c.close()
	}
	var files []string
	for i, sh := range shard(items, *per) {
		name := fmt.Sprintf("cases_lists_%d.v", i)
		var sb strings.Builder
		sb.WriteString("From MC Require Import lib.Prelude model.Paginate model.PaginateCheck.\nFrom Coq Require Import NArith.\n")
		sb.WriteString("Definition cases : list page_case :=\n " + coqList(sh) + ".\n")
		sb.WriteString("Definition bad_corr := Eval vm_compute in page_bad_corr cases.\nPrint bad_corr.\n")
		sb.WriteString("Definition bad_mon := Eval vm_compute in page_bad_mon cases.\nPrint bad_mon.\n")
		writeFile(filepath.Join(*out, name), sb.String())
		files = append(files, name)
	}
	var samples []string
	for i := 0; i < len(items) && len(samples) < 5; i += len(items)/5 + 1 {
		samples = append(samples, items[i])
	}
	for i := range ls.failures {
		ls.failures[i].History = -1
	}
	writeJSON(filepath.Join(*out, "stats_lists.json"), map[string]interface{}{
		"files": files, "evaluations": ls.cases, "distinct_nontrivial": ls.walks,
		"rule":         "every paginated list query of the four modules (purchase orders by status/purchaser, wrkchains and beacons by owner/moniker, streams, streams by sender, streams by receiver) on states reached by random histories; limits 1,2,3,n/2,n,n+1,n+2,0; key walks following NextKey to the end, offset pages, count_total, reverse, key+offset; plus one state with 120 WRKChains / BEACONs / purchase orders and 130+ streams walked by key and by offset with limits 101, 120, 500; ground truth from keeper iteration and point queries; distinct_nontrivial = complete key walks compared with the filtered ground truth",
		"distribution": map[string]interface{}{"by_list": ls.kinds, "list_sizes": sizes, "errors": ls.errors, "walks": ls.walks},
		"samples":      samples, "go_monitor_failures": ls.failures,
	})
}

// moduleExport: the four modules' exported genesis as text (to show queries do not write)
func moduleExport(c *chain) string {
	ctx := c.committedCtx()
	var sb strings.Builder
	sb.WriteString(fmt.Sprint(c.app.EnterpriseKeeper.GetAllPurchaseOrders(ctx)))
	sb.WriteString(fmt.Sprint(c.app.WrkchainKeeper.GetAllWrkChains(ctx)))
	sb.WriteString(fmt.Sprint(c.app.BeaconKeeper.GetAllBeacons(ctx)))
	c.app.StreamKeeper.IterateAllStreams(ctx, func(r, s sdk.AccAddress, st strtypes.Stream) bool {
		sb.WriteString(r.String() + s.String() + st.String())
		return false
	})
	return sb.String()
}
