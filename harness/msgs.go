package main

import (
	"fmt"
	"math/big"
	"strings"

	sdk "github.com/cosmos/cosmos-sdk/types"
	"github.com/cosmos/cosmos-sdk/x/authz"
	banktypes "github.com/cosmos/cosmos-sdk/x/bank/types"
	"github.com/cosmos/cosmos-sdk/x/feegrant"

	bcntypes "github.com/unification-com/mainchain/x/beacon/types"
	enttypes "github.com/unification-com/mainchain/x/enterprise/types"
	strtypes "github.com/unification-com/mainchain/x/stream/types"
	wrktypes "github.com/unification-com/mainchain/x/wrkchain/types"
)

// mmsg is a message in both worlds: the real sdk.Msg and the Coq term of the model's [msg].
type mmsg struct {
	m      sdk.Msg
	coq    string
	signer int    // model address of GetSigners()[0]
	kind   string // for the distribution statistics
	typ    int    // model msg_type
	url    string
}

func (c *chain) addrOf(i int) sdk.AccAddress {
	switch i {
	case mEnt:
		return moduleAddr(enttypes.ModuleName)
	case mStream:
		return moduleAddr(strtypes.ModuleName)
	case mFee:
		return moduleAddr("fee_collector")
	case mDistr:
		return moduleAddr("distribution")
	case mGov:
		return moduleAddr("gov")
	}
	return c.accts[i].addr
}

func coqCoins(cs sdk.Coins) string {
	var parts []string
	for _, x := range cs {
		parts = append(parts, fmt.Sprintf("(%d, %s)", denomIndex(x.Denom), coqZ(x.Amount.BigInt())))
	}
	return "[" + strings.Join(parts, "; ") + "]"
}

func coqStrList(xs []string) string {
	var parts []string
	for _, x := range xs {
		parts = append(parts, coqString(x))
	}
	return "[" + strings.Join(parts, "; ") + "]"
}

func coqU64(x uint64) string { return new(big.Int).SetUint64(x).String() }

func (c *chain) mEntRaise(p int, denom string, amt sdk.Int) mmsg {
	m := enttypes.NewMsgUndPurchaseOrder(c.addrOf(p), sdk.Coin{Denom: denom, Amount: amt})
	return mmsg{m, fmt.Sprintf("MEnt (ERaise %s %d %s)", coqZi(int64(p)), denomIndex(denom), coqZ(amt.BigInt())), p, "ent.raise", 1, sdk.MsgTypeURL(m)}
}

func (c *chain) mEntDecide(s int, id uint64, dec int) mmsg {
	m := &enttypes.MsgProcessUndPurchaseOrder{PurchaseOrderId: id, Decision: enttypes.PurchaseOrderStatus(dec), Signer: c.addrOf(s).String()}
	return mmsg{m, fmt.Sprintf("MEnt (EDecide %s %s %d)", coqZi(int64(s)), coqU64(id), dec), s, "ent.decide", 2, sdk.MsgTypeURL(m)}
}

func (c *chain) mEntWhitelist(s, target, action int) mmsg {
	m := &enttypes.MsgWhitelistAddress{Address: c.addrOf(target).String(), Signer: c.addrOf(s).String(), Action: enttypes.WhitelistAction(action)}
	return mmsg{m, fmt.Sprintf("MEnt (EWhitelist %s %s %d)", coqZi(int64(s)), coqZi(int64(target)), action), s, "ent.whitelist", 3, sdk.MsgTypeURL(m)}
}

func (c *chain) mRegRegister(wrk bool, o int, moniker, name, genesis, typ string) mmsg {
	if wrk {
		m := wrktypes.NewMsgRegisterWrkChain(moniker, genesis, name, typ, c.addrOf(o))
		return mmsg{m, fmt.Sprintf("MWrk (RRegister %s %s %s %s %s)", coqZi(int64(o)), coqString(moniker), coqString(name), coqString(genesis), coqString(typ)), o, "wrk.register", 4, sdk.MsgTypeURL(m)}
	}
	m := bcntypes.NewMsgRegisterBeacon(moniker, name, c.addrOf(o))
	return mmsg{m, fmt.Sprintf("MBcn (RRegister %s %s %s %s %s)", coqZi(int64(o)), coqString(moniker), coqString(name), coqString(""), coqString("")), o, "bcn.register", 7, sdk.MsgTypeURL(m)}
}

func (c *chain) mRegRecord(wrk bool, o int, id, key uint64, hashes []string) mmsg {
	if wrk {
		for len(hashes) < 5 {
			hashes = append(hashes, "")
		}
		m := wrktypes.NewMsgRecordWrkChainBlock(id, key, hashes[0], hashes[1], hashes[2], hashes[3], hashes[4], c.addrOf(o))
		return mmsg{m, fmt.Sprintf("MWrk (RRecord %s %s %s %s)", coqZi(int64(o)), coqU64(id), coqU64(key), coqStrList(hashes[:5])), o, "wrk.record", 5, sdk.MsgTypeURL(m)}
	}
	m := bcntypes.NewMsgRecordBeaconTimestamp(id, hashes[0], key, c.addrOf(o))
	return mmsg{m, fmt.Sprintf("MBcn (RRecord %s %s %s %s)", coqZi(int64(o)), coqU64(id), coqU64(key), coqStrList(hashes[:1])), o, "bcn.record", 8, sdk.MsgTypeURL(m)}
}

func (c *chain) mRegPurchase(wrk bool, o int, id, n uint64) mmsg {
	if wrk {
		m := wrktypes.NewMsgPurchaseWrkChainStateStorage(id, n, c.addrOf(o))
		return mmsg{m, fmt.Sprintf("MWrk (RPurchase %s %s %s)", coqZi(int64(o)), coqU64(id), coqU64(n)), o, "wrk.purchase", 6, sdk.MsgTypeURL(m)}
	}
	m := bcntypes.NewMsgPurchaseBeaconStateStorage(id, n, c.addrOf(o))
	return mmsg{m, fmt.Sprintf("MBcn (RPurchase %s %s %s)", coqZi(int64(o)), coqU64(id), coqU64(n)), o, "bcn.purchase", 9, sdk.MsgTypeURL(m)}
}

func (c *chain) mStrCreate(sn, r int, denom string, amt sdk.Int, rate int64) mmsg {
	m := strtypes.NewMsgCreateStream(sdk.Coin{Denom: denom, Amount: amt}, rate, c.addrOf(r), c.addrOf(sn))
	return mmsg{m, fmt.Sprintf("MStr (SCreate %s %s %d %s %s)", coqZi(int64(sn)), coqZi(int64(r)), denomIndex(denom), coqZ(amt.BigInt()), coqZi(rate)), sn, "str.create", 10, sdk.MsgTypeURL(m)}
}

func (c *chain) mStrClaim(sn, r int) mmsg {
	m := strtypes.NewMsgClaimStream(c.addrOf(r), c.addrOf(sn))
	return mmsg{m, fmt.Sprintf("MStr (SClaim %s %s)", coqZi(int64(sn)), coqZi(int64(r))), r, "str.claim", 11, sdk.MsgTypeURL(m)}
}

func (c *chain) mStrTopUp(sn, r int, denom string, amt sdk.Int) mmsg {
	m := strtypes.NewMsgTopUpDeposit(c.addrOf(r), c.addrOf(sn), sdk.Coin{Denom: denom, Amount: amt})
	return mmsg{m, fmt.Sprintf("MStr (STopUp %s %s %d %s)", coqZi(int64(sn)), coqZi(int64(r)), denomIndex(denom), coqZ(amt.BigInt())), sn, "str.topup", 12, sdk.MsgTypeURL(m)}
}

func (c *chain) mStrUpdate(sn, r int, rate int64) mmsg {
	m := strtypes.NewMsgUpdateFlowRate(c.addrOf(r), c.addrOf(sn), rate)
	return mmsg{m, fmt.Sprintf("MStr (SUpdateFlow %s %s %s)", coqZi(int64(sn)), coqZi(int64(r)), coqZi(rate)), sn, "str.update", 13, sdk.MsgTypeURL(m)}
}

func (c *chain) mStrCancel(sn, r int) mmsg {
	m := strtypes.NewMsgCancelStream(c.addrOf(r), c.addrOf(sn))
	return mmsg{m, fmt.Sprintf("MStr (SCancel %s %s)", coqZi(int64(sn)), coqZi(int64(r))), sn, "str.cancel", 14, sdk.MsgTypeURL(m)}
}

func (c *chain) mSend(from, to int, coins sdk.Coins) mmsg {
	m := banktypes.NewMsgSend(c.addrOf(from), c.addrOf(to), coins)
	return mmsg{m, fmt.Sprintf("MSend %s %s %s", coqZi(int64(from)), coqZi(int64(to)), coqCoins(coins)), from, "bank.send", 15, sdk.MsgTypeURL(m)}
}

func (c *chain) mGrant(granter, grantee int, of mmsg) mmsg {
	m, err := authz.NewMsgGrant(c.addrOf(granter), c.addrOf(grantee), authz.NewGenericAuthorization(of.url), nil)
	if err != nil {
		panic(err)
	}
	return mmsg{m, fmt.Sprintf("MGrant %s %s %d", coqZi(int64(granter)), coqZi(int64(grantee)), of.typ), granter, "authz.grant", 16, sdk.MsgTypeURL(m)}
}

func (c *chain) mFeeAllow(granter, grantee int) mmsg {
	m, err := feegrant.NewMsgGrantAllowance(&feegrant.BasicAllowance{}, c.addrOf(granter), c.addrOf(grantee))
	if err != nil {
		panic(err)
	}
	return mmsg{m, fmt.Sprintf("MFeeAllow %s %s", coqZi(int64(granter)), coqZi(int64(grantee))), granter, "feegrant.grant", 17, sdk.MsgTypeURL(m)}
}

func (c *chain) mExec(grantee int, inner []mmsg) mmsg {
	var ms []sdk.Msg
	var cs []string
	for _, i := range inner {
		ms = append(ms, i.m)
		cs = append(cs, i.coq)
	}
	m := authz.NewMsgExec(c.addrOf(grantee), ms)
	kind := "authz.exec"
	for _, i := range inner {
		kind += "+" + i.kind
	}
	return mmsg{&m, fmt.Sprintf("MExec %s [%s]", coqZi(int64(grantee)), strings.Join(cs, "; ")), grantee, kind, 18, sdk.MsgTypeURL(&m)}
}

// ---- parameter updates (executed by governance) ----

func (c *chain) coqEntParams(p enttypes.Params) string {
	var signers []string
	if p.EntSigners != "" {
		for _, s := range strings.Split(p.EntSigners, ",") {
			if _, err := sdk.AccAddressFromBech32(s); err != nil {
				signers = append(signers, "(-999)")
			} else {
				signers = append(signers, coqZi(int64(c.idx(s))))
			}
		}
	}
	d := denomIndex(p.Denom)
	return fmt.Sprintf("{| ep_denom := %s; ep_min_accepts := %s; ep_time_limit := %s; ep_signers := [%s] |}",
		coqZi(int64(d)), coqU64(p.MinAccepts), coqU64(p.DecisionTimeLimit), strings.Join(signers, "; "))
}

func coqRegParams(feeReg, feeRec, feePur uint64, denom string, def, max uint64) string {
	return fmt.Sprintf("{| rp_fee_register := %s; rp_fee_record := %s; rp_fee_purchase := %s; rp_denom := %s; rp_default_limit := %s; rp_max_limit := %s |}",
		coqU64(feeReg), coqU64(feeRec), coqU64(feePur), coqZi(int64(denomIndex(denom))), coqU64(def), coqU64(max))
}

func decScaled(d sdk.Dec) *big.Int { return d.BigInt() }

func (c *chain) mUpdEnt(authority int, p enttypes.Params) mmsg {
	m := &enttypes.MsgUpdateParams{Authority: c.addrOf(authority).String(), Params: p}
	return mmsg{m, fmt.Sprintf("MUpdParams %s (UEnt %s)", coqZi(int64(authority)), c.coqEntParams(p)), authority, "ent.updparams", 19, sdk.MsgTypeURL(m)}
}

func (c *chain) mUpdWrk(authority int, p wrktypes.Params) mmsg {
	m := &wrktypes.MsgUpdateParams{Authority: c.addrOf(authority).String(), Params: p}
	return mmsg{m, fmt.Sprintf("MUpdParams %s (UWrk %s)", coqZi(int64(authority)), coqRegParams(p.FeeRegister, p.FeeRecord, p.FeePurchaseStorage, p.Denom, p.DefaultStorageLimit, p.MaxStorageLimit)), authority, "wrk.updparams", 20, sdk.MsgTypeURL(m)}
}

func (c *chain) mUpdBcn(authority int, p bcntypes.Params) mmsg {
	m := &bcntypes.MsgUpdateParams{Authority: c.addrOf(authority).String(), Params: p}
	return mmsg{m, fmt.Sprintf("MUpdParams %s (UBcn %s)", coqZi(int64(authority)), coqRegParams(p.FeeRegister, p.FeeRecord, p.FeePurchaseStorage, p.Denom, p.DefaultStorageLimit, p.MaxStorageLimit)), authority, "bcn.updparams", 21, sdk.MsgTypeURL(m)}
}

func (c *chain) mUpdStr(authority int, fee sdk.Dec) mmsg {
	m := &strtypes.MsgUpdateParams{Authority: c.addrOf(authority).String(), Params: strtypes.NewParams(fee)}
	return mmsg{m, fmt.Sprintf("MUpdParams %s (UStr %s)", coqZi(int64(authority)), coqZ(decScaled(fee))), authority, "str.updparams", 22, sdk.MsgTypeURL(m)}
}
