package main

import (
	"fmt"

	sdk "github.com/cosmos/cosmos-sdk/types"
	"github.com/cosmos/cosmos-sdk/types/query"
	"github.com/cosmos/gogoproto/proto"

	"github.com/unification-com/mainchain/app"
	bcntypes "github.com/unification-com/mainchain/x/beacon/types"
	enttypes "github.com/unification-com/mainchain/x/enterprise/types"
	strtypes "github.com/unification-com/mainchain/x/stream/types"
	wrktypes "github.com/unification-com/mainchain/x/wrkchain/types"
)

// queryDigest: what the gRPC query servers of the four modules answer on the committed state of an application -
// parameters, every list query (one big page), the per-account queries for the given addresses and every listed
// sender / receiver.  Used to compare a chain with the chain started from its exported genesis (C15: the same answers).
func queryDigest(a *app.App, addrs []sdk.AccAddress) map[string]string {
	out := map[string]string{}
	ctx, err := a.BaseApp.CreateQueryContext(a.LastBlockHeight(), false)
	if err != nil {
		out["context"] = err.Error()
		return out
	}
	g := sdk.WrapSDKContext(ctx)
	big := &query.PageRequest{Limit: 100000}
	put := func(name string, f func() (proto.Message, error)) {
		var m proto.Message
		var err error
		if !safely(func() { m, err = f() }) {
			out[name] = "PANIC"
			return
		}
		if err != nil {
			out[name] = "ERR " + err.Error()
			return
		}
		out[name] = m.String()
	}
	sk, ek, wk, bk := a.StreamKeeper, a.EnterpriseKeeper, a.WrkchainKeeper, a.BeaconKeeper
	put("stream.Params", func() (proto.Message, error) { return sk.Params(g, &strtypes.QueryParamsRequest{}) })
	put("stream.Streams", func() (proto.Message, error) { return sk.Streams(g, &strtypes.QueryStreamsRequest{Pagination: big}) })
	people := map[string]sdk.AccAddress{}
	for _, x := range addrs {
		people[string(x)] = x
	}
	sk.IterateAllStreams(ctx, func(r, s sdk.AccAddress, _ strtypes.Stream) bool {
		people[string(r)], people[string(s)] = r, s
		return false
	})
	for _, x := range people {
		x := x
		put("stream.AllStreamsForSender "+x.String(), func() (proto.Message, error) {
			return sk.AllStreamsForSender(g, &strtypes.QueryAllStreamsForSenderRequest{SenderAddr: x.String(), Pagination: big})
		})
		put("stream.AllStreamsForReceiver "+x.String(), func() (proto.Message, error) {
			return sk.AllStreamsForReceiver(g, &strtypes.QueryAllStreamsForReceiverRequest{ReceiverAddr: x.String(), Pagination: big})
		})
		put("enterprise.LockedUndByAddress "+x.String(), func() (proto.Message, error) {
			return ek.LockedUndByAddress(g, &enttypes.QueryLockedUndByAddressRequest{Owner: x.String()})
		})
		put("enterprise.SpentEFUNDByAddress "+x.String(), func() (proto.Message, error) {
			return ek.SpentEFUNDByAddress(g, &enttypes.QuerySpentEFUNDByAddressRequest{Address: x.String()})
		})
		put("enterprise.Whitelisted "+x.String(), func() (proto.Message, error) {
			return ek.Whitelisted(g, &enttypes.QueryWhitelistedRequest{Address: x.String()})
		})
	}
	put("enterprise.Params", func() (proto.Message, error) { return ek.Params(g, &enttypes.QueryParamsRequest{}) })
	put("enterprise.PurchaseOrders", func() (proto.Message, error) {
		return ek.EnterpriseUndPurchaseOrders(g, &enttypes.QueryEnterpriseUndPurchaseOrdersRequest{Pagination: big})
	})
	put("enterprise.Whitelist", func() (proto.Message, error) { return ek.Whitelist(g, &enttypes.QueryWhitelistRequest{}) })
	put("enterprise.TotalLocked", func() (proto.Message, error) { return ek.TotalLocked(g, &enttypes.QueryTotalLockedRequest{}) })
	put("enterprise.TotalSpentEFUND", func() (proto.Message, error) { return ek.TotalSpentEFUND(g, &enttypes.QueryTotalSpentEFUNDRequest{}) })
	put("wrkchain.Params", func() (proto.Message, error) { return wk.Params(g, &wrktypes.QueryParamsRequest{}) })
	put("wrkchain.WrkChainsFiltered", func() (proto.Message, error) {
		return wk.WrkChainsFiltered(g, &wrktypes.QueryWrkChainsFilteredRequest{Pagination: big})
	})
	for _, wc := range wk.GetAllWrkChains(ctx) {
		id := wc.WrkchainId
		put(fmt.Sprintf("wrkchain.WrkChain %d", id), func() (proto.Message, error) { return wk.WrkChain(g, &wrktypes.QueryWrkChainRequest{WrkchainId: id}) })
		put(fmt.Sprintf("wrkchain.WrkChainStorage %d", id), func() (proto.Message, error) {
			return wk.WrkChainStorage(g, &wrktypes.QueryWrkChainStorageRequest{WrkchainId: id})
		})
		for _, b := range wk.GetAllWrkChainBlockHashes(ctx, id) {
			h := b.Height
			put(fmt.Sprintf("wrkchain.WrkChainBlock %d %d", id, h), func() (proto.Message, error) {
				return wk.WrkChainBlock(g, &wrktypes.QueryWrkChainBlockRequest{WrkchainId: id, Height: h})
			})
		}
	}
	put("beacon.Params", func() (proto.Message, error) { return bk.Params(g, &bcntypes.QueryParamsRequest{}) })
	put("beacon.BeaconsFiltered", func() (proto.Message, error) {
		return bk.BeaconsFiltered(g, &bcntypes.QueryBeaconsFilteredRequest{Pagination: big})
	})
	for _, b := range bk.GetAllBeacons(ctx) {
		id := b.BeaconId
		put(fmt.Sprintf("beacon.Beacon %d", id), func() (proto.Message, error) { return bk.Beacon(g, &bcntypes.QueryBeaconRequest{BeaconId: id}) })
		put(fmt.Sprintf("beacon.BeaconStorage %d", id), func() (proto.Message, error) {
			return bk.BeaconStorage(g, &bcntypes.QueryBeaconStorageRequest{BeaconId: id})
		})
		for _, t := range bk.GetAllBeaconTimestamps(ctx, id) {
			tid := t.TimestampId
			put(fmt.Sprintf("beacon.BeaconTimestamp %d %d", id, tid), func() (proto.Message, error) {
				return bk.BeaconTimestamp(g, &bcntypes.QueryBeaconTimestampRequest{BeaconId: id, TimestampId: tid})
			})
		}
	}
	return out
}
