package main

import (
	"math/big"
	"os"
	"strconv"
)

// splitmix64: the single PRNG state all choices derive from.
type rng struct{ s uint64 }

// newRng scrambles the seed first: with s = seed*gamma the streams of consecutive seeds would be the same
// sequence shifted by one step.
func newRng(seed uint64) *rng {
	z := seed + 0x632BE59BD9B4E019
	z = (z ^ (z >> 30)) * 0xBF58476D1CE4E5B9
	z = (z ^ (z >> 27)) * 0x94D049BB133111EB
	z = z ^ (z >> 31)
	z = (z ^ (z >> 33)) * 0xFF51AFD7ED558CCD
	return &rng{s: z ^ (z >> 29)}
}

func seedFromEnv() uint64 {
	if v := os.Getenv("VERIF_SEED"); v != "" {
		if n, err := strconv.ParseUint(v, 10, 64); err == nil {
			return n
		}
	}
	return 1
}

func (r *rng) next() uint64 {
	r.s += 0x9E3779B97F4A7C15
	z := r.s
	z = (z ^ (z >> 30)) * 0xBF58476D1CE4E5B9
	z = (z ^ (z >> 27)) * 0x94D049BB133111EB
	return z ^ (z >> 31)
}

func (r *rng) intn(n int) int {
	if n <= 0 {
		return 0
	}
	return int(r.next() % uint64(n))
}

func (r *rng) chance(num, den int) bool { return r.intn(den) < num }

// bigBits returns a uniformly random non-negative integer below 2^bits.
func (r *rng) bigBits(bits int) *big.Int {
	x := new(big.Int)
	for i := 0; i < bits; i += 64 {
		x.Lsh(x, 64)
		x.Or(x, new(big.Int).SetUint64(r.next()))
	}
	if bits%64 != 0 || bits == 0 {
		x.Rsh(x, uint(64-bits%64)%64)
	}
	m := new(big.Int).Lsh(big.NewInt(1), uint(bits))
	return x.Mod(x, m)
}

func (r *rng) pick(xs []string) string { return xs[r.intn(len(xs))] }
