package main

import (
	"bytes"
	"encoding/json"
	"flag"
	"fmt"
	sdk "github.com/cosmos/cosmos-sdk/types"
	"os"
	"os/exec"
	"path/filepath"
	"time"

	dbm "github.com/cometbft/cometbft-db"
	abci "github.com/cometbft/cometbft/abci/types"
	"github.com/cometbft/cometbft/libs/log"
	tmproto "github.com/cometbft/cometbft/proto/tendermint/types"
	tmtypes "github.com/cometbft/cometbft/types"
	"github.com/cosmos/cosmos-sdk/baseapp"
	"github.com/cosmos/cosmos-sdk/client/flags"
	cosmosed "github.com/cosmos/cosmos-sdk/crypto/keys/ed25519"
	"github.com/cosmos/cosmos-sdk/server"
	simtestutil "github.com/cosmos/cosmos-sdk/testutil/sims"
	"github.com/cosmos/ibc-go/v7/testing/mock"

	"github.com/unification-com/mainchain/app"
)

// C01: the same genesis and blocks executed (a) in the generating process on memdb, (b) in a second process
// on goleveldb with GOMAXPROCS=1 started more than a second later, (c) in a process that drops the
// application object without committing at chosen points, reopens it on the same database and replays the
// interrupted block.  App hashes and per-transaction (code, data, gas wanted, gas used) must be byte-identical.

type twinFile struct {
	Genesis     []byte     `json:"genesis"`
	GenesisNs   int64      `json:"genesis_time_ns"`
	Blocks      []blockRec `json:"blocks"`
	Results     []blockRes `json:"results"`
	CrashPoints [][2]int   `json:"crash_points"` // (block index, point): point 0 = after BeginBlock, k = after the k-th DeliverTx, -1 = after EndBlock, -2 = after Commit
}

type replayOut struct {
	Results  []blockRes `json:"results"`
	Problems []string   `json:"problems"`
	Reopens  int        `json:"reopens"`
}

func replayValSet() *tmtypes.ValidatorSet {
	privVal := mock.PV{PrivKey: cosmosed.GenPrivKeyFromSecret([]byte("verif-validator-seed"))}
	pubKey, _ := privVal.GetPubKey()
	return tmtypes.NewValidatorSet([]*tmtypes.Validator{tmtypes.NewValidator(pubKey, 1)})
}

// node-local configuration of a replaying process (never part of consensus): how often x/crisis asserts the registered
// invariants in EndBlock, and whether it asserts them at InitChain
var replayInvCheckPeriod = uint(0)
var replaySkipGenesisInvariants = false

func openApp(db dbm.DB, home string) *app.App {
	opts := make(simtestutil.AppOptionsMap, 0)
	opts[flags.FlagHome] = home
	opts[server.FlagInvCheckPeriod] = replayInvCheckPeriod
	if replaySkipGenesisInvariants {
		opts["x-crisis-skip-assert-invariants"] = true
	}
	if tf := os.Getenv("VH_TRACE"); tf != "" {
		f, _ := os.OpenFile(tf, os.O_CREATE|os.O_WRONLY|os.O_APPEND, 0o644)
		fmt.Fprintln(f, "=== openApp")
		return app.NewApp(log.NewNopLogger(), db, f, true, opts, baseapp.SetChainID(chainID))
	}
	return app.NewApp(log.NewNopLogger(), db, nil, true, opts, baseapp.SetChainID(chainID))
}

func cmdReplay(args []string) {
	fs := flag.NewFlagSet("replay", flag.ExitOnError)
	in := fs.String("in", "", "twin file")
	out := fs.String("out", "", "result file")
	backend := fs.String("backend", "memdb", "memdb or goleveldb")
	dir := fs.String("dir", "", "database directory (goleveldb)")
	crash := fs.Bool("crash", false, "drop and reopen the application at the recorded crash points")
	delay := fs.Int("delay-ms", 0, "sleep before starting (wall-clock offset)")
	inv := fs.Uint("inv-check-period", 0, "x/crisis invariant check period of this node (node-local configuration)")
	skipInv := fs.Bool("skip-genesis-invariants", false, "x-crisis-skip-assert-invariants of this node (node-local configuration)")
	fs.Parse(args)
	replayInvCheckPeriod, replaySkipGenesisInvariants = *inv, *skipInv
	time.Sleep(time.Duration(*delay) * time.Millisecond)
	var tf twinFile
	bz, err := os.ReadFile(*in)
	if err != nil {
		panic(err)
	}
	if err := json.Unmarshal(bz, &tf); err != nil {
		panic(err)
	}
	var db dbm.DB
	home := os.TempDir()
	if *backend == "goleveldb" {
		d, err := dbm.NewDB("application", dbm.GoLevelDBBackend, *dir)
		if err != nil {
			panic(err)
		}
		db = d
		home = *dir
	} else {
		db = dbm.NewMemDB()
	}
	ro := replayOut{}
	a := openApp(db, home)
	valSet := replayValSet()
	a.InitChain(abci.RequestInitChain{ChainId: chainID, Time: time.Unix(0, tf.GenesisNs).UTC(), Validators: []abci.ValidatorUpdate{},
		ConsensusParams: simtestutil.DefaultConsensusParams, AppStateBytes: tf.Genesis})
	a.Commit()
	height := a.LastBlockHeight()
	crashAt := map[[2]int]bool{}
	if *crash {
		for _, cp := range tf.CrashPoints {
			crashAt[cp] = true
		}
	}
	header := func(h int64, ns int64) tmproto.Header {
		return tmproto.Header{ChainID: chainID, Height: h, Time: time.Unix(0, ns).UTC(), AppHash: a.LastCommitID().Hash,
			ValidatorsHash: valSet.Hash(), NextValidatorsHash: valSet.Hash()}
	}
	freshApp := false
	reopen := func(where string, wantHeight int64, wantHash []byte) {
		a = openApp(db, home)
		freshApp = true
		ro.Reopens++
		if a.LastBlockHeight() != wantHeight {
			ro.Problems = append(ro.Problems, fmt.Sprintf("reopened %s: height %d, last committed was %d", where, a.LastBlockHeight(), wantHeight))
		}
		if !bytes.Equal(a.LastCommitID().Hash, wantHash) {
			ro.Problems = append(ro.Problems, fmt.Sprintf("reopened %s: hash %X, last committed was %X", where, a.LastCommitID().Hash, wantHash))
		}
	}
	for bi, blk := range tf.Blocks {
		// run the block; if a crash point is hit, drop the app, reopen and run the whole block again
		for attempt := 0; attempt < 2; attempt++ {
			prevHeight, prevHash := a.LastBlockHeight(), append([]byte{}, a.LastCommitID().Hash...)
			crashed := false
			h := height + 1
			br := blockRes{Height: h}
			a.BeginBlock(abci.RequestBeginBlock{Header: header(h, blk.TimeNs)})
			if attempt == 0 && crashAt[[2]int{bi, 0}] {
				reopen(fmt.Sprintf("after BeginBlock of block %d", bi), prevHeight, prevHash)
				continue
			}
			for ti, tx := range blk.Txs {
				r := a.DeliverTx(abci.RequestDeliverTx{Tx: tx})
				br.Txs = append(br.Txs, txRes{r.Code, r.Codespace, r.Data, r.GasWanted, r.GasUsed})
				if attempt == 0 && crashAt[[2]int{bi, ti + 1}] {
					reopen(fmt.Sprintf("after DeliverTx %d of block %d", ti+1, bi), prevHeight, prevHash)
					crashed = true
					break
				}
			}
			if crashed {
				continue
			}
			a.EndBlock(abci.RequestEndBlock{Height: h})
			if attempt == 0 && crashAt[[2]int{bi, -1}] {
				reopen(fmt.Sprintf("after EndBlock of block %d", bi), prevHeight, prevHash)
				continue
			}
			cr := a.Commit()
			br.AppHash = cr.Data
			br.Reopened = freshApp
			freshApp = false
			height = h
			if crashAt[[2]int{bi, -2}] {
				reopen(fmt.Sprintf("after Commit of block %d", bi), h, cr.Data)
			}
			ro.Results = append(ro.Results, br)
			break
		}
	}
	db.Close()
	obz, _ := json.Marshal(ro)
	os.WriteFile(*out, obz, 0o644)
}

type runDiff struct {
	what  string
	class int
}

func compareRuns(name string, a, b []blockRes) []runDiff {
	var out []runDiff
	if len(a) != len(b) {
		return []runDiff{{fmt.Sprintf("%s: %d blocks vs %d blocks", name, len(a), len(b)), 0}}
	}
	for i := range a {
		if !bytes.Equal(a[i].AppHash, b[i].AppHash) {
			out = append(out, runDiff{fmt.Sprintf("%s: app hash at height %d differs: %X vs %X", name, a[i].Height, a[i].AppHash, b[i].AppHash), 0})
			break // later heights differ as a consequence
		}
		if len(a[i].Txs) != len(b[i].Txs) {
			out = append(out, runDiff{fmt.Sprintf("%s: height %d has %d vs %d transaction results", name, a[i].Height, len(a[i].Txs), len(b[i].Txs)), 0})
			continue
		}
		for j := range a[i].Txs {
			x, y := a[i].Txs[j], b[i].Txs[j]
			if x.Code != y.Code || x.Codespace != y.Codespace || !bytes.Equal(x.Data, y.Data) || x.GasWanted != y.GasWanted || x.GasUsed != y.GasUsed {
				class := 0
				// listed finding: only the gas used differs, for a transaction that failed before the ante handler ran
				// (gas wanted still 0), in the first block executed by a re-created application object
				if x.Code == y.Code && x.Code != 0 && x.Codespace == y.Codespace && bytes.Equal(x.Data, y.Data) && x.GasWanted == 0 && y.GasWanted == 0 && (a[i].Reopened || b[i].Reopened) {
					class = 1
				}
				out = append(out, runDiff{fmt.Sprintf("%s: tx %d at height %d: (code %d/%s gas %d/%d data %X) vs (code %d/%s gas %d/%d data %X)", name, j, a[i].Height,
					x.Code, x.Codespace, x.GasUsed, x.GasWanted, x.Data, y.Code, y.Codespace, y.GasUsed, y.GasWanted, y.Data), class})
			}
		}
	}
	return out
}

func cmdTwin(args []string) {
	fs := flag.NewFlagSet("twin", flag.ExitOnError)
	out := fs.String("out", ".", "output directory")
	n := fs.Int("n", 6, "number of histories")
	blocks := fs.Int("blocks", 5, "blocks per history")
	allCrash := fs.Bool("all-crash-points", false, "every crash point of every block (default: a sample)")
	fs.Parse(args)
	seed := seedFromEnv()
	self, _ := os.Executable()
	var failures []monFailure
	totalBlocks, totalTxs, crashPoints, reopens := 0, 0, 0, 0
	kinds := map[string]int{}
	results := map[string]int{}
	events := map[string]int{}
	var samples []string
	focuses := []string{"mixed", "fees", "reggov", "stream", "efund"}
	replayTwins := func(i int, c *chain, r *rng, all bool) {
		tf := twinFile{Genesis: c.genesisBytes, GenesisNs: c.genesisTime.UnixNano(), Blocks: c.blocks, Results: c.results}
		// only fully committed blocks are replayed
		for len(tf.Results) > 0 && tf.Results[len(tf.Results)-1].AppHash == nil {
			tf.Results = tf.Results[:len(tf.Results)-1]
			tf.Blocks = tf.Blocks[:len(tf.Blocks)-1]
		}
		for bi, b := range tf.Blocks {
			pts := []int{0, -1, -2}
			for k := range b.Txs {
				pts = append(pts, k+1)
			}
			for _, p := range pts {
				if all || r.chance(1, 3) {
					tf.CrashPoints = append(tf.CrashPoints, [2]int{bi, p})
				}
			}
			totalTxs += len(b.Txs)
		}
		totalBlocks += len(tf.Blocks)
		crashPoints += len(tf.CrashPoints)
		c.close()
		tfPath := filepath.Join(*out, fmt.Sprintf("twin_%d.json", i))
		bz, _ := json.Marshal(tf)
		os.WriteFile(tfPath, bz, 0o644)
		type run struct {
			name string
			args []string
			env  []string
		}
		dbDir := filepath.Join(*out, fmt.Sprintf("twin_%d_leveldb", i))
		runs := []run{
			{"second process, goleveldb, GOMAXPROCS=1, started 1.1 s later", []string{"-backend", "goleveldb", "-dir", dbDir, "-delay-ms", "1100", "-inv-check-period", "3", "-skip-genesis-invariants"}, []string{"GOMAXPROCS=1"}},
			{"process with crash + reopen at the chosen points, goleveldb", []string{"-backend", "goleveldb", "-dir", dbDir + "_crash", "-crash"}, []string{"GOMAXPROCS=4"}},
			{"third process, memdb, crash + reopen is not possible on memdb: plain replay; crisis invariants asserted every block", []string{"-backend", "memdb", "-inv-check-period", "1"}, nil},
		}
		for ri, rn := range runs {
			outPath := filepath.Join(*out, fmt.Sprintf("twin_%d_run%d.json", i, ri))
			cmd := exec.Command(self, append([]string{"replay", "-in", tfPath, "-out", outPath}, rn.args...)...)
			cmd.Env = append(os.Environ(), rn.env...)
			if outb, err := cmd.CombinedOutput(); err != nil {
				failures = append(failures, monFailure{Property: "C01", History: i, What: fmt.Sprintf("replay (%s) failed: %v %s", rn.name, err, tail(string(outb), 600))})
				continue
			}
			var ro replayOut
			rb, _ := os.ReadFile(outPath)
			json.Unmarshal(rb, &ro)
			reopens += ro.Reopens
			for _, p := range ro.Problems {
				failures = append(failures, monFailure{Property: "C01", History: i, What: rn.name + ": " + p})
			}
			for _, p := range compareRuns(rn.name, tf.Results, ro.Results) {
				failures = append(failures, monFailure{Property: "C01", History: i, What: p.what, Class: p.class})
			}
			os.Remove(outPath)
		}
		os.RemoveAll(dbDir)
		os.RemoveAll(dbDir + "_crash")
		if len(samples) < 2 && len(tf.Results) > 1 {
			samples = append(samples, fmt.Sprintf("history %d: %d blocks, %d txs, app hash at height %d = %X, crash points %v", i, len(tf.Blocks), totalTxs, tf.Results[len(tf.Results)-1].Height, tf.Results[len(tf.Results)-1].AppHash, tf.CrashPoints))
		}
		if os.Getenv("VH_KEEP_TWIN") == "" {
			os.Remove(tfPath)
		}
	}
	for i := 0; i < *n; i++ {
		r := newRng(seed*9_000_011 + uint64(i))
		w := focusWeights[focuses[i%len(focuses)]]
		w.reimportEvery = 0 // the twins replay recorded blocks: an export + import is not a block
		w.checkPerBlock = 0
		c := newChain(randCfg(r, true))
		h := newHistory(c, r, w)
		h.focus = focuses[i%len(focuses)]
		h.futureSubmit = 2 // values a node could be tempted to compare with its own clock
		h.twinValidator = true
		h.run(*blocks)
		for k, v := range h.kinds {
			kinds[k] += v
		}
		for k, v := range h.results {
			results[k] += v
		}
		for k, v := range h.flags {
			events[k] += v
		}
		replayTwins(i, c, r, *allCrash)
	}
	// a designated history with EVERY crash point: the life cycle of a purchase order (raised, decided, tallied, minted,
	// spent on a registry fee), registry records up to the pruning boundary and a stream created, claimed and cancelled,
	// a few seconds apart - whatever a begin blocker or a keeper remembers between two blocks outside the store shows up
	// as a difference between the node that is dropped and reopened and the nodes that are not
	{
		cfg := fixedCfg()
		s := &scen{c: newChain(cfg), name: "twin-lifecycle"}
		c := s.c
		s.blockStart(5 * time.Second)
		s.tx(4, nundCoins(0), c.mEntRaise(4, "nund", sdk.NewInt(5000)).m)
		s.tx(0, nundCoins(0), c.mStrCreate(0, 1, "nund", sdk.NewInt(6000), 10).m)
		s.blockEnd()
		s.blockStart(3 * time.Second)
		s.tx(0, nundCoins(0), c.mEntDecide(0, 1, 2).m)
		s.tx(1, nundCoins(0), c.mEntDecide(1, 1, 2).m)
		s.tx(2, nundCoins(1000), c.mRegRegister(true, 2, "w", "n", "g", "t").m)
		s.blockEnd()
		s.blockStart(3 * time.Second) // tally
		s.tx(1, nundCoins(0), c.mStrClaim(0, 1).m)
		s.blockEnd()
		s.blockStart(3 * time.Second) // mint
		s.tx(2, nundCoins(10), c.mRegRecord(true, 2, 1, 1, []string{"a"}).m)
		s.blockEnd()
		s.blockStart(3 * time.Second)
		s.tx(4, nundCoins(1000), c.mRegRegister(false, 4, "b", "n", "", "").m) // paid out of locked eFUND
		s.tx(2, nundCoins(10), c.mRegRecord(true, 2, 1, 2, []string{"b"}).m)
		s.tx(4, nundCoins(0), c.mEntRaise(4, "nund", sdk.NewInt(70)).m)
		s.blockEnd()
		s.blockStart(40 * time.Second)
		s.tx(2, nundCoins(10), c.mRegRecord(true, 2, 1, 3, []string{"c"}).m) // prunes (default limit 2)
		s.tx(0, nundCoins(0), c.mEntDecide(0, 2, 3).m)
		s.tx(1, nundCoins(0), c.mEntDecide(1, 2, 3).m)
		s.tx(0, nundCoins(0), c.mStrCancel(0, 1).m)
		s.blockEnd()
		s.blockStart(3 * time.Second)
		s.blockEnd()
		s.blockStart(3 * time.Second)
		s.blockEnd()
		replayTwins(*n, c, newRng(seed), true)
	}
	writeJSON(filepath.Join(*out, "stats_twin.json"), map[string]interface{}{
		"files": []string{}, "evaluations": totalBlocks * 3, "distinct_nontrivial": *n,
		"rule":         "each random history (all custom message types, failing and panicking transactions, governance) is executed in the generating process (memdb) and replayed from the recorded transaction bytes in three further processes: goleveldb with GOMAXPROCS=1 started 1.1 s later and a different node-local x/crisis configuration (invariants every 3 blocks, none at InitChain); goleveldb with the application object dropped and reopened at the chosen crash points (after BeginBlock, after the k-th DeliverTx, after EndBlock, after Commit) and the interrupted block replayed; memdb. Compared: app hash per height, (code, codespace, data, gas wanted, gas used) per transaction, height and hash after every reopen. evaluations = block executions compared",
		"distribution": map[string]interface{}{"histories": *n, "blocks": totalBlocks, "txs": totalTxs, "crash_points": crashPoints, "reopens": reopens, "by_message_kind": kinds, "by_result_class": results, "events": events},
		"samples":      samples, "go_monitor_failures": failures,
	})
}

func tail(s string, n int) string {
	if len(s) > n {
		return s[len(s)-n:]
	}
	return s
}
