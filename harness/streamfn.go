package main

import (
	"flag"
	"fmt"
	"math/big"
	"path/filepath"
	"strings"
	"time"

	sdk "github.com/cosmos/cosmos-sdk/types"

	strtypes "github.com/unification-com/mainchain/x/stream/types"
)

// C11/C12: the three pure functions of x/stream/types/utils.go on boundary tables + random inputs.

func tsFromNs(ns *big.Int) time.Time {
	sec := new(big.Int)
	nsec := new(big.Int)
	sec.DivMod(ns, big.NewInt(1_000_000_000), nsec)
	return time.Unix(sec.Int64(), nsec.Int64()).UTC()
}

func cmdStreamFn(args []string) {
	fs := flag.NewFlagSet("streamfn", flag.ExitOnError)
	out := fs.String("out", ".", "output directory")
	n := fs.Int("n", 3000, "number of random cases")
	per := fs.Int("shard", 1500, "cases per Coq file")
	fs.Parse(args)
	r := newRng(seedFromEnv())
	var items []string
	kinds := map[string]int{}
	panics := 0
	distinct := map[string]bool{}

	rates := []int64{1, 2, 3, 7, 10, 100, 999, 1_000_000, 1 << 31, 1<<31 + 1, 1 << 40, 1 << 62, 1<<63 - 1, 0, -1}
	randRate := func() int64 {
		if r.chance(2, 3) {
			return rates[r.intn(len(rates))]
		}
		return int64(r.next() >> uint(1+r.intn(62)))
	}
	randAmt := func() *big.Int {
		switch r.intn(6) {
		case 0:
			return big.NewInt(int64(r.intn(1000)))
		case 1:
			return new(big.Int).Lsh(big.NewInt(1), uint(r.intn(201)))
		case 2:
			x := new(big.Int).Lsh(big.NewInt(1), uint(60+r.intn(140)))
			return x.Sub(x, big.NewInt(int64(r.intn(3))))
		default:
			return r.bigBits(1 + r.intn(200))
		}
	}
	base := int64(1700000000)
	secsTable := []int64{0, 1, 2, 59, 60, 61, 1 << 24, 1<<24 + 1, 1<<24 - 1, 86400 * 365 * 292, 86400*365*292 + 86400*100, 9223372036, 9223372037, 1 << 40}
	nsTable := []int64{0, 1, 499999999, 500000000, 999999999}

	for i := 0; i < *n; i++ {
		switch r.intn(3) {
		case 0: // CalculateDuration
			amt, rate := randAmt(), randRate()
			if r.chance(1, 4) && rate > 0 { // around the int64 boundary of the quotient
				amt = new(big.Int).Mul(big.NewInt(rate), new(big.Int).Lsh(big.NewInt(1), 63))
				amt.Add(amt, big.NewInt(int64(r.intn(3))-1))
			}
			var res int64
			ok := safely(func() { res = strtypes.CalculateDuration(sdk.NewCoin("nund", sdk.NewIntFromBigInt(amt)), rate) })
			obs := "None"
			if ok {
				obs = fmt.Sprintf("(Some %s)", coqZi(res))
			} else {
				panics++
			}
			items = append(items, fmt.Sprintf("FDuration %s %s %s", coqZ(amt), coqZi(rate), obs))
			kinds["duration"]++
		case 1: // CalculateAmountToClaim
			lotS := base + int64(r.intn(1000))
			lotN := nsTable[r.intn(len(nsTable))]
			el := secsTable[r.intn(len(secsTable))]
			if r.chance(1, 3) {
				el = int64(r.intn(100000))
			}
			elN := nsTable[r.intn(len(nsTable))]
			lot := new(big.Int).Add(new(big.Int).Mul(big.NewInt(lotS), big.NewInt(1e9)), big.NewInt(lotN))
			now := new(big.Int).Add(lot, new(big.Int).Add(new(big.Int).Mul(big.NewInt(el), big.NewInt(1e9)), big.NewInt(elN)))
			// dzt: before, equal, after now
			dzt := new(big.Int).Set(now)
			switch r.intn(5) {
			case 0:
				dzt.Sub(dzt, big.NewInt(int64(1+r.intn(1000))))
			case 1:
			case 2:
				dzt.Add(dzt, big.NewInt(1))
			default:
				dzt.Add(dzt, new(big.Int).Mul(big.NewInt(int64(1+r.intn(1_000_000))), big.NewInt(1e9)))
			}
			rate := randRate()
			if rate <= 0 {
				rate = 1
			}
			dep := randAmt()
			if r.chance(1, 3) { // around rate*elapsed
				dep = new(big.Int).Mul(big.NewInt(rate), big.NewInt(el))
				dep.Add(dep, big.NewInt(int64(r.intn(3))-1))
				if dep.Sign() < 0 {
					dep = big.NewInt(0)
				}
			}
			var c1, c2 sdk.Coin
			ok := safely(func() {
				c1, c2 = strtypes.CalculateAmountToClaim(tsFromNs(now), tsFromNs(dzt), tsFromNs(lot), sdk.NewCoin("nund", sdk.NewIntFromBigInt(dep)), rate)
			})
			obs := "None"
			if ok {
				obs = fmt.Sprintf("(Some (%s, %s))", coqZ(c1.Amount.BigInt()), coqZ(c2.Amount.BigInt()))
			} else {
				panics++
			}
			items = append(items, fmt.Sprintf("FClaim %s %s %s %s %s %s", coqZ(now), coqZ(dzt), coqZ(lot), coqZ(dep), coqZi(rate), obs))
			kinds["claim"]++
		default: // CalculateValidatorFee
			fees := []string{"0", "0.01", "0.24", "0.000000000000000001", "1", "0.5", "0.999999999999999999", "0.333333333333333333"}
			f := sdk.MustNewDecFromStr(fees[r.intn(len(fees))])
			if r.chance(1, 3) {
				f = sdk.NewDecFromBigIntWithPrec(r.bigBits(59), 18)
				if f.GT(sdk.OneDec()) {
					f = sdk.OneDec()
				}
			}
			amt := randAmt()
			var c1, c2 sdk.Coin
			ok := safely(func() { c1, c2 = strtypes.CalculateValidatorFee(f, sdk.NewCoin("nund", sdk.NewIntFromBigInt(amt))) })
			obs := "None"
			if ok {
				obs = fmt.Sprintf("(Some (%s, %s))", coqZ(c1.Amount.BigInt()), coqZ(c2.Amount.BigInt()))
			} else {
				panics++
			}
			items = append(items, fmt.Sprintf("FFee %s %s %s", coqZ(f.BigInt()), coqZ(amt), obs))
			kinds["fee"]++
		}
		distinct[items[len(items)-1]] = true
	}
	var files []string
	for i, sh := range shard(items, *per) {
		name := fmt.Sprintf("cases_streamfn_%d.v", i)
		var sb strings.Builder
		sb.WriteString("From MC Require Import lib.Prelude model.Stream model.StreamFnCheck.\nOpen Scope Z_scope.\n")
		sb.WriteString("Definition cases : list fn_case :=\n " + coqList(sh) + ".\n")
		sb.WriteString("Definition bad_corr := Eval vm_compute in fn_bad_corr cases.\nPrint bad_corr.\n")
		sb.WriteString("Definition bad_mon := Eval vm_compute in fn_bad_mon cases.\nPrint bad_mon.\n")
		writeFile(filepath.Join(*out, name), sb.String())
		files = append(files, name)
	}
	var samples []string
	for i := 0; i < len(items) && len(samples) < 6; i += len(items)/6 + 1 {
		samples = append(samples, items[i])
	}
	writeJSON(filepath.Join(*out, "stats_streamfn.json"), map[string]interface{}{
		"files": files, "evaluations": len(items), "distinct_nontrivial": len(distinct),
		"rule":         "CalculateDuration / CalculateAmountToClaim / CalculateValidatorFee on boundary tables (0 s, sub-second, 2^24 s +- 1 ns, 292 y +- 100 d, rates 1..2^63-1, deposits to 2^200, quotients around 2^63) plus random inputs; distinct = distinct generated input lines",
		"distribution": map[string]interface{}{"by_function": kinds, "panics": panics},
		"samples":      samples,
	})
}
