package main

import (
	"encoding/json"
	"fmt"
	"math/big"
	"os"
	"strings"
)

// coqString renders a Go string as a Coq string literal.
func coqString(s string) string {
	return "\"" + strings.ReplaceAll(s, "\"", "\"\"") + "\""
}

func coqOptString(s string, ok bool) string {
	if !ok {
		return "None"
	}
	return "(Some " + coqString(s) + ")"
}

func coqZ(x *big.Int) string {
	if x.Sign() < 0 {
		return "(" + x.String() + ")"
	}
	return x.String()
}

func coqZi(x int64) string { return coqZ(big.NewInt(x)) }

func coqBool(b bool) string {
	if b {
		return "true"
	}
	return "false"
}

func coqList(items []string) string {
	return "[" + strings.Join(items, ";\n  ") + "]"
}

func writeFile(path, content string) {
	if err := os.WriteFile(path, []byte(content), 0o644); err != nil {
		fmt.Fprintln(os.Stderr, "write:", err)
		os.Exit(3)
	}
}

func writeJSON(path string, v interface{}) {
	bz, err := json.MarshalIndent(v, "", " ")
	if err != nil {
		panic(err)
	}
	writeFile(path, string(bz))
}

// shard splits items into chunks of at most n.
func shard(items []string, n int) [][]string {
	var out [][]string
	for len(items) > n {
		out = append(out, items[:n])
		items = items[n:]
	}
	if len(items) > 0 {
		out = append(out, items)
	}
	return out
}
