package main

import (
	"fmt"
	"math/big"
	"sort"
	"strings"

	sdk "github.com/cosmos/cosmos-sdk/types"

	bcntypes "github.com/unification-com/mainchain/x/beacon/types"
	enttypes "github.com/unification-com/mainchain/x/enterprise/types"
	strtypes "github.com/unification-com/mainchain/x/stream/types"
)

// observer keeps the last emitted value of every query and returns only what changed.
type observer struct {
	c      *chain
	deltas [][2]string // (query, value) pairs emitted by the last snapshot
	last   map[string]string
	order  []string
	// entities to look at
	recKeys  map[string]bool // "w|id|key"
	recList  [][3]uint64     // wrk(1/0), id, key
	pairs    map[string]bool // stream pairs "r|s"
	pairList [][2]int
	fresh    map[string]bool // observations of the last snapshot whose query had never been emitted before
}

func newObserver(c *chain) *observer {
	return &observer{c: c, last: map[string]string{}, recKeys: map[string]bool{}, pairs: map[string]bool{}}
}

func (o *observer) watchRecord(wrk bool, id, key uint64) {
	w := uint64(0)
	if wrk {
		w = 1
	}
	k := fmt.Sprintf("%d|%d|%d", w, id, key)
	if !o.recKeys[k] {
		o.recKeys[k] = true
		o.recList = append(o.recList, [3]uint64{w, id, key})
	}
}

func (o *observer) watchPair(r, s int) {
	k := fmt.Sprintf("%d|%d", r, s)
	if !o.pairs[k] {
		o.pairs[k] = true
		o.pairList = append(o.pairList, [2]int{r, s})
	}
}

func vz(x *big.Int) string  { return "VZ " + coqZ(x) }
func vzi(x int64) string    { return "VZ " + coqZi(x) }
func vzu(x uint64) string   { return "VZ " + coqU64(x) }
func vs(s string) string    { return "VS " + coqString(s) }
func vl(xs []string) string { return "VL " + coqStrList(xs) }
func cb(b bool) string      { return coqBool(b) }
func zi(i int) string       { return coqZi(int64(i)) }
func safely(f func()) (ok bool) {
	defer func() {
		if r := recover(); r != nil {
			ok = false
		}
	}()
	f()
	return true
}

// snapshot reads every standard query from ctx and returns the (qry, oval) pairs whose value changed.
func (o *observer) snapshot(ctx sdk.Context) []string {
	c := o.c
	a := c.app
	var out []string
	o.fresh = map[string]bool{}
	o.deltas = nil
	emit := func(q, v string) {
		if old, ok := o.last[q]; !ok || old != v {
			o.last[q] = v
			out = append(out, "("+q+", "+v+")")
			o.deltas = append(o.deltas, [2]string{q, v})
			if !ok {
				o.fresh["("+q+", "+v+")"] = true
			}
		}
	}
	holders := []int{mEnt, mStream}
	for i := range c.accts {
		holders = append(holders, i)
	}
	for _, h := range holders {
		for di, d := range denoms {
			emit(fmt.Sprintf("QBal %s %d", zi(h), di), vz(a.BankKeeper.GetBalance(ctx, c.addrOf(h), d).Amount.BigInt()))
		}
	}
	for di, d := range denoms {
		emit(fmt.Sprintf("QSupply %d", di), vz(a.BankKeeper.GetSupply(ctx, d).Amount.BigInt()))
		ok := safely(func() {
			emit(fmt.Sprintf("QSupplyOf %d", di), vz(a.EnterpriseKeeper.GetSupplyOfWithLockedNundRemoved(ctx, d).Amount.BigInt()))
		})
		if !ok {
			emit(fmt.Sprintf("QSupplyOf %d", di), "VNone")
		}
	}
	if !safely(func() {
		es := a.EnterpriseKeeper.GetEnterpriseSupplyIncludingLockedUnd(ctx)
		emit("QEntSupply 0", vzu(es.Locked))
		emit("QEntSupply 1", vzu(es.Amount))
		emit("QEntSupply 2", vzu(es.Total))
	}) {
		emit("QEntSupply 0", "VNone")
		emit("QEntSupply 1", "VNone")
		emit("QEntSupply 2", "VNone")
	}
	// enterprise
	ek := a.EnterpriseKeeper
	ep := ek.GetParams(ctx)
	emit("QEntParam 0", vzi(int64(denomIndex(ep.Denom))))
	emit("QEntParam 1", vzu(ep.MinAccepts))
	emit("QEntParam 2", vzu(ep.DecisionTimeLimit))
	emit("QEntParam 3", vzi(int64(len(strings.Split(ep.EntSigners, ",")))))
	next, _ := ek.GetHighestPurchaseOrderID(ctx)
	for id := uint64(1); id < next && id < 200; id++ {
		po, found := ek.GetPurchaseOrder(ctx, id)
		if !found {
			continue
		}
		emit(fmt.Sprintf("QPo %d 0", id), vzi(int64(po.Status)))
		emit(fmt.Sprintf("QPo %d 1", id), vz(po.Amount.Amount.BigInt()))
		emit(fmt.Sprintf("QPo %d 2", id), vzi(int64(c.idx(po.Purchaser))))
		emit(fmt.Sprintf("QPo %d 3", id), vzi(int64(len(po.Decisions))))
		emit(fmt.Sprintf("QPo %d 4", id), vzu(po.RaiseTime))
		emit(fmt.Sprintf("QPo %d 5", id), vzu(po.CompletionTime))
		emit(fmt.Sprintf("QPo %d 6", id), vzi(int64(denomIndex(po.Amount.Denom))))
	}
	for i := range c.accts {
		emit(fmt.Sprintf("QLocked %d", i), vz(ek.GetLockedUndAmountForAccount(ctx, c.addrOf(i)).Amount.BigInt()))
		emit(fmt.Sprintf("QSpent %d", i), vz(ek.GetSpentEFUNDAmountForAccount(ctx, c.addrOf(i)).Amount.BigInt()))
		w := int64(0)
		if ek.AddressIsWhitelisted(ctx, c.addrOf(i)) {
			w = 1
		}
		emit(fmt.Sprintf("QWhitelisted %d", i), vzi(w))
	}
	emit("QTotLocked", vz(ek.GetTotalLockedUnd(ctx).Amount.BigInt()))
	emit("QTotSpent", vz(ek.GetTotalSpentEFUND(ctx).Amount.BigInt()))
	// registries
	wk := a.WrkchainKeeper
	wp := wk.GetParams(ctx)
	for f, v := range []uint64{wp.FeeRegister, wp.FeeRecord, wp.FeePurchaseStorage, 0, wp.DefaultStorageLimit, wp.MaxStorageLimit} {
		if f == 3 {
			emit("QRegParam true 3", vzi(int64(denomIndex(wp.Denom))))
		} else {
			emit(fmt.Sprintf("QRegParam true %d", f), vzu(v))
		}
	}
	wnext, _ := wk.GetHighestWrkChainID(ctx)
	for id := uint64(1); id < wnext && id < 100; id++ {
		wc, found := wk.GetWrkChain(ctx, id)
		if !found {
			continue
		}
		lim, _ := wk.GetWrkChainStorageLimit(ctx, id)
		emit(fmt.Sprintf("QReg true %d 0", id), vzi(int64(c.idx(wc.Owner))))
		emit(fmt.Sprintf("QReg true %d 1", id), vzu(wc.Lastblock))
		emit(fmt.Sprintf("QReg true %d 2", id), vzu(wc.NumBlocks))
		emit(fmt.Sprintf("QReg true %d 3", id), vzu(wc.LowestHeight))
		emit(fmt.Sprintf("QReg true %d 4", id), vzu(wc.RegTime))
		emit(fmt.Sprintf("QReg true %d 5", id), vzu(lim.InStateLimit))
		emit(fmt.Sprintf("QReg true %d 6", id), vzu(wk.GetMaxPurchasableSlots(ctx, id)))
		emit(fmt.Sprintf("QRegS true %d 0", id), vs(wc.Moniker))
		emit(fmt.Sprintf("QRegS true %d 1", id), vs(wc.Name))
		emit(fmt.Sprintf("QRegS true %d 2", id), vs(wc.Genesis))
		emit(fmt.Sprintf("QRegS true %d 3", id), vs(wc.Type))
	}
	bk := a.BeaconKeeper
	bp := bk.GetParams(ctx)
	for f, v := range []uint64{bp.FeeRegister, bp.FeeRecord, bp.FeePurchaseStorage, 0, bp.DefaultStorageLimit, bp.MaxStorageLimit} {
		if f == 3 {
			emit("QRegParam false 3", vzi(int64(denomIndex(bp.Denom))))
		} else {
			emit(fmt.Sprintf("QRegParam false %d", f), vzu(v))
		}
	}
	bnext, _ := bk.GetHighestBeaconID(ctx)
	for id := uint64(1); id < bnext && id < 100; id++ {
		b, found := bk.GetBeacon(ctx, id)
		if !found {
			continue
		}
		lim, _ := bk.GetBeaconStorageLimit(ctx, id)
		emit(fmt.Sprintf("QReg false %d 0", id), vzi(int64(c.idx(b.Owner))))
		emit(fmt.Sprintf("QReg false %d 1", id), vzu(b.LastTimestampId))
		emit(fmt.Sprintf("QReg false %d 2", id), vzu(b.NumInState))
		emit(fmt.Sprintf("QReg false %d 3", id), vzu(b.FirstIdInState))
		emit(fmt.Sprintf("QReg false %d 4", id), vzu(b.RegTime))
		emit(fmt.Sprintf("QReg false %d 5", id), vzu(lim.InStateLimit))
		emit(fmt.Sprintf("QReg false %d 6", id), vzu(bk.GetMaxPurchasableSlots(ctx, id)))
		emit(fmt.Sprintf("QRegS false %d 0", id), vs(b.Moniker))
		emit(fmt.Sprintf("QRegS false %d 1", id), vs(b.Name))
	}
	for _, rk := range o.recList {
		if rk[0] == 1 {
			blk, found := wk.GetWrkChainBlock(ctx, rk[1], rk[2])
			q := fmt.Sprintf("QRec true %d %s", rk[1], coqU64(rk[2]))
			qh := fmt.Sprintf("QRecH true %d %s", rk[1], coqU64(rk[2]))
			if found {
				emit(q, vzu(blk.SubTime))
				emit(qh, vl([]string{blk.Blockhash, blk.Parenthash, blk.Hash1, blk.Hash2, blk.Hash3}))
			} else {
				emit(q, "VNone")
				emit(qh, "VNone")
			}
		} else {
			ts, found := bk.GetBeaconTimestampByID(ctx, rk[1], rk[2])
			q := fmt.Sprintf("QRec false %d %s", rk[1], coqU64(rk[2]))
			qh := fmt.Sprintf("QRecH false %d %s", rk[1], coqU64(rk[2]))
			if found {
				emit(q, vzu(ts.SubmitTime))
				emit(qh, vl([]string{ts.Hash}))
			} else {
				emit(q, "VNone")
				emit(qh, "VNone")
			}
		}
	}
	// streams
	sk := a.StreamKeeper
	emit("QStrParam", vz(sk.GetParams(ctx).ValidatorFee.BigInt()))
	for _, p := range o.pairList {
		st, found := sk.GetStream(ctx, c.addrOf(p[0]), c.addrOf(p[1]))
		base := fmt.Sprintf("QStream %s %s", zi(p[0]), zi(p[1]))
		if found {
			emit(base+" 0", vz(st.Deposit.Amount.BigInt()))
			emit(base+" 1", vzi(st.FlowRate))
			emit(base+" 2", vz(timeNs(st.LastOutflowTime)))
			emit(base+" 3", vz(timeNs(st.DepositZeroTime)))
			emit(base+" 4", vzi(int64(denomIndex(st.Deposit.Denom))))
		} else {
			for f := 0; f < 5; f++ {
				emit(fmt.Sprintf("%s %d", base, f), "VNone")
			}
		}
	}
	return out
}

// coqGenesis renders the application state right after InitChain (+ one empty block) as the model's [app].
func (c *chain) coqGenesis(ctx sdk.Context) string {
	a := c.app
	var bals, sups []string
	holders := []int{mEnt, mStream, mFee, mDistr}
	for i := range c.accts {
		holders = append(holders, i)
	}
	for _, h := range holders {
		for di, d := range denoms {
			amt := a.BankKeeper.GetBalance(ctx, c.addrOf(h), d).Amount
			if !amt.IsZero() {
				bals = append(bals, fmt.Sprintf("((%s, %d), %s)", zi(h), di, coqZ(amt.BigInt())))
			}
		}
	}
	for di, d := range denoms {
		sups = append(sups, fmt.Sprintf("(%d, %s)", di, coqZ(a.BankKeeper.GetSupply(ctx, d).Amount.BigInt())))
	}
	ep := a.EnterpriseKeeper.GetParams(ctx)
	enext, _ := a.EnterpriseKeeper.GetHighestPurchaseOrderID(ctx)
	var wl []string
	var wlIdx []int
	for i := range c.accts {
		if a.EnterpriseKeeper.AddressIsWhitelisted(ctx, c.addrOf(i)) {
			wlIdx = append(wlIdx, i)
		}
	}
	sort.Ints(wlIdx)
	for _, i := range wlIdx {
		wl = append(wl, zi(i))
	}
	wp := a.WrkchainKeeper.GetParams(ctx)
	wnext, _ := a.WrkchainKeeper.GetHighestWrkChainID(ctx)
	bp := a.BeaconKeeper.GetParams(ctx)
	bnext, _ := a.BeaconKeeper.GetHighestBeaconID(ctx)
	sp := a.StreamKeeper.GetParams(ctx)
	_ = enttypes.ModuleName
	_ = bcntypes.ModuleName
	_ = strtypes.ModuleName
	return fmt.Sprintf(`{| a_bank := {| bal := [%s]; supply := [%s] |};
     a_ent := {| e_params := %s; e_next := %d; e_pos := []; e_raisedq := []; e_acceptedq := []; e_wl := [%s];
                 e_locked := []; e_spent := []; e_totlocked := None; e_totspent := None |};
     a_wrk := {| r_params := %s; r_next := %d; r_regs := []; r_limits := []; r_recs := [] |};
     a_bcn := {| r_params := %s; r_next := %d; r_regs := []; r_limits := []; r_recs := [] |};
     a_str := {| s_valfee := %s; s_streams := [] |};
     a_grants := []; a_allow := []; a_now := %s |}`,
		strings.Join(bals, "; "), strings.Join(sups, "; "),
		c.coqEntParams(ep), enext, strings.Join(wl, "; "),
		coqRegParams(wp.FeeRegister, wp.FeeRecord, wp.FeePurchaseStorage, wp.Denom, wp.DefaultStorageLimit, wp.MaxStorageLimit), wnext,
		coqRegParams(bp.FeeRegister, bp.FeeRecord, bp.FeePurchaseStorage, bp.Denom, bp.DefaultStorageLimit, bp.MaxStorageLimit), bnext,
		coqZ(sp.ValidatorFee.BigInt()), coqZ(timeNs(c.now)))
}
