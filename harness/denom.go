package main

import (
	"flag"
	"fmt"
	"path/filepath"
	"strings"

	undtypes "github.com/unification-com/mainchain/types"
)

// C19: the real ConvertUndDenomination on boundary tables + random decimal strings.
// A case is (input, direction, first output, second output) where the second output is the
// conversion back of the numeric part of the first one (None when a conversion errs).

type denomCase struct {
	In   string
	Dir  string // "Fund" (fund->nund) or "Nund" (nund->fund)
	Out1 string
	Ok1  bool
	Out2 string
	Ok2  bool
	Kind string
}

func convSafe(amount, from, to string) (res string, ok bool, panicked bool) {
	defer func() {
		if r := recover(); r != nil {
			res, ok, panicked = "", false, true
		}
	}()
	r, err := undtypes.ConvertUndDenomination(amount, from, to)
	if err != nil {
		return "", false, false
	}
	return r, true, false
}

func runDenomCase(in, dir, kind string) denomCase {
	c := denomCase{In: in, Dir: dir, Kind: kind}
	from, to := "fund", "nund"
	if dir == "Nund" {
		from, to = "nund", "fund"
	}
	c.Out1, c.Ok1, _ = convSafe(in, from, to)
	if c.Ok1 && strings.HasSuffix(c.Out1, to) {
		num := strings.TrimSuffix(c.Out1, to)
		c.Out2, c.Ok2, _ = convSafe(num, to, from)
	}
	return c
}

func randDigits(r *rng, n int, leadingNonZero bool) string {
	var sb strings.Builder
	for i := 0; i < n; i++ {
		d := r.intn(10)
		if i == 0 && leadingNonZero && d == 0 {
			d = 1 + r.intn(9)
		}
		// bias towards 0 and 9 runs: they are where rounding shows
		if r.chance(1, 4) {
			if r.chance(1, 2) {
				d = 9
			} else {
				d = 0
			}
		}
		sb.WriteByte(byte('0' + d))
	}
	return sb.String()
}

func cmdDenom(args []string) {
	fs := flag.NewFlagSet("denom", flag.ExitOnError)
	out := fs.String("out", ".", "output directory")
	n := fs.Int("n", 2000, "number of random cases")
	per := fs.Int("shard", 1000, "cases per Coq file")
	fs.Parse(args)
	r := newRng(seedFromEnv())

	var cases []denomCase
	// boundary table
	table := []string{"0", "1", "9", "10", "0.1", "0.000000001", "0.999999999", "1.000000000", "123456789.123456789",
		"999999999999999999", "1000000000", "999999999", "1000000001", "120000000000.000000001",
		"99999999999999999999.999999999", "000123.4500", ".5", "5.", "00", "0.0", "7.50",
		"123456789012345678901234567890", "0.1234567891", "0.0000000019", "0.9999999999", "1.0000000005",
		"9007199254740993", "9007199254740993.000000001", "18446744073709551616", "4.35", "1.15", "2.675"}
	for _, s := range table {
		cases = append(cases, runDenomCase(s, "Fund", "table"), runDenomCase(s, "Nund", "table"))
	}
	malformed := []string{"", ".", "1.2.3", "12a", "abc", " 1", "1 ", "1,5", "..", "1..", "a.5"}
	for _, s := range malformed {
		cases = append(cases, runDenomCase(s, "Fund", "malformed"), runDenomCase(s, "Nund", "malformed"))
	}
	for i := 0; i < *n; i++ {
		sig := r.intn(31) // 0..30 significant integer digits
		fl := r.intn(10)  // 0..9 fractional digits
		kind := "frac<=9"
		if r.chance(1, 10) {
			fl = 10 + r.intn(4)
			kind = "frac>9"
		}
		ip := randDigits(r, sig, !r.chance(1, 8))
		fp := randDigits(r, fl, false)
		s := ip
		if fl > 0 || r.chance(1, 20) {
			s = ip + "." + fp
		}
		if s == "" || s == "." {
			s = "0"
		}
		dir := "Fund"
		if r.chance(1, 2) {
			dir = "Nund"
			if !r.chance(1, 6) { // nund inputs are mostly integers
				s = ip
				if s == "" {
					s = "0"
				}
				kind = "int"
			}
		}
		cases = append(cases, runDenomCase(s, dir, kind))
	}

	kinds := map[string]int{}
	okCount, errCount := 0, 0
	distinct := map[string]bool{}
	var items []string
	for _, c := range cases {
		kinds[c.Dir+"/"+c.Kind]++
		if c.Ok1 {
			okCount++
		} else {
			errCount++
		}
		if c.Ok1 && len(c.In) > 1 {
			distinct[c.Dir+":"+c.In] = true
		}
		items = append(items, fmt.Sprintf("(%s, %s, %s, %s)", coqString(c.In), c.Dir, coqOptString(c.Out1, c.Ok1), coqOptString(c.Out2, c.Ok2)))
	}
	var files []string
	for i, sh := range shard(items, *per) {
		name := fmt.Sprintf("cases_denom_%d.v", i)
		var sb strings.Builder
		sb.WriteString("From MC Require Import lib.Prelude model.Denom model.DenomCheck.\nOpen Scope string_scope.\n")
		sb.WriteString("Definition cases : list denom_case :=\n " + coqList(sh) + ".\n")
		sb.WriteString("Definition bad_corr := Eval vm_compute in denom_bad_corr cases.\nPrint bad_corr.\n")
		sb.WriteString("Definition bad_mon := Eval vm_compute in denom_bad_mon cases.\nPrint bad_mon.\n")
		writeFile(filepath.Join(*out, name), sb.String())
		files = append(files, name)
	}
	samples := []denomCase{}
	for i := 0; i < len(cases) && len(samples) < 6; i += len(cases)/6 + 1 {
		samples = append(samples, cases[i])
	}
	writeJSON(filepath.Join(*out, "stats_denom.json"), map[string]interface{}{
		"files": files, "shard": *per, "evaluations": len(cases), "distinct_nontrivial": len(distinct),
		"rule":         "boundary table + malformed strings + random decimal strings (0-30 integer digits, 0-9 or 10-13 fractional digits, runs of 0/9 favoured); distinct = distinct (direction,input) pairs the implementation converted successfully with more than one character",
		"distribution": map[string]interface{}{"by_kind": kinds, "accepted": okCount, "rejected": errCount},
		"samples":      samples,
	})
}
