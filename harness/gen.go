package main

import (
	"fmt"
	"math/big"
	"os"
	"strings"
	"time"

	sdk "github.com/cosmos/cosmos-sdk/types"
	govv1 "github.com/cosmos/cosmos-sdk/x/gov/types/v1"

	bcntypes "github.com/unification-com/mainchain/x/beacon/types"
	enttypes "github.com/unification-com/mainchain/x/enterprise/types"
	wrktypes "github.com/unification-com/mainchain/x/wrkchain/types"

	cosmosed "github.com/cosmos/cosmos-sdk/crypto/keys/ed25519"
	stakingtypes "github.com/cosmos/cosmos-sdk/x/staking/types"
)

var debugLogs = os.Getenv("VH_DEBUG") != ""

// weights of message kinds for one scenario focus
type weights struct {
	entRaise, entDecide, entWhitelist        int
	regRegister, regRecord, regPurchase      int
	strCreate, strClaim, strTopUp, strUpdate int
	strCancel                                int
	send, grant, exec, feeAllow, updParams   int
	govEvery                                 int // a governance parameter change about every n blocks (0 = never)
	govModule                                int // -1 any module, 0 enterprise, 1 wrkchain, 2 beacon, 3 stream
	checkPerBlock                            int // CheckTx operations after each commit (max)
	reimportEvery                            int // export + fresh InitChain about every n blocks (0 = never)
	tinyLimits                               bool
}

var focusWeights = map[string]weights{
	"mixed":   {8, 10, 3, 6, 14, 5, 6, 8, 4, 3, 3, 5, 3, 4, 2, 2, 5, -1, 1, 10, true},
	"ent":     {14, 22, 6, 3, 6, 1, 1, 1, 0, 0, 0, 3, 1, 2, 1, 1, 4, -1, 0, 10, true},
	"entgov":  {12, 30, 3, 0, 0, 0, 0, 0, 0, 0, 0, 1, 0, 0, 0, 0, 2, 0, 0, 10, true},
	"genesis": {8, 12, 3, 7, 16, 5, 7, 8, 4, 3, 3, 2, 1, 2, 1, 1, 6, -1, 0, 3, true},
	"efund":   {16, 26, 4, 8, 22, 6, 0, 0, 0, 0, 0, 1, 0, 1, 2, 0, 0, -1, 2, 10, true},
	"reg":     {2, 3, 1, 10, 30, 12, 0, 0, 0, 0, 0, 2, 3, 5, 1, 1, 5, -1, 0, 10, true},
	"reggov":  {0, 0, 0, 8, 30, 16, 0, 0, 0, 0, 0, 1, 2, 4, 0, 0, 2, 12, 0, 10, true},
	"stream":  {1, 1, 0, 1, 1, 0, 12, 18, 8, 6, 5, 4, 2, 3, 1, 1, 5, -1, 0, 10, true},
	"strgov":  {0, 0, 0, 0, 0, 0, 12, 22, 8, 6, 5, 2, 0, 0, 0, 0, 2, 3, 0, 10, true},
	"fees":    {5, 6, 2, 8, 14, 8, 1, 1, 0, 0, 0, 2, 3, 4, 3, 0, 6, -1, 6, 10, true},
}

type history struct {
	focus            string
	aimPair          *[2]int // a stream the current block is aimed at (block time placed around its zero time)
	c                *chain
	r                *rng
	w                weights
	obs              *observer
	items            []string // Coq titem terms
	kinds            map[string]int
	results          map[string]int
	nOps             int
	nTx              int
	nOk              int
	pending          []pendingProposal
	flags            map[string]int // counters of interesting things that happened (pruning, minting, ...)
	mon              *monitors
	halted           bool
	lastObs          []string
	futureSubmit     int  // one in so many BEACON records carries a submit time far in the future (0 = default 6)
	twinValidator    bool // twin histories: create a validator in a block where a proposal ends
	validatorCreated bool
	reimportNext     bool // the chain was exported and re-imported just before the next operation
	carry            [][2]string
	shadow           *chain // the application the state was exported from, run in lockstep after a re-import
	shadowLeft       int
}

type pendingProposal struct {
	id   uint64
	msgs []mmsg
}

func randCfg(r *rng, tiny bool) chainCfg {
	n := 6 + r.intn(3)
	cfg := chainCfg{nAcc: n, votingSecs: 20}
	ns := 1 + r.intn(3)
	var signers []string
	for i := 0; i < ns; i++ {
		signers = append(signers, mkAcct(fmt.Sprintf("verif-acct-%d-seed-0123456789abcdef", i)).addr.String())
	}
	cfg.entParams = enttypes.Params{EntSigners: strings.Join(signers, ","), Denom: "nund", MinAccepts: uint64(1 + r.intn(ns)), DecisionTimeLimit: uint64(20 + r.intn(100))}
	def := uint64(1 + r.intn(3))
	if !tiny {
		def = 50
	}
	cfg.wrkParams = wrktypes.NewParams(uint64(100+r.intn(2000)), uint64(1+r.intn(20)), uint64(1+r.intn(9)), "nund", def, def+uint64(r.intn(5)))
	def2 := uint64(1 + r.intn(3))
	cfg.bcnParams = bcntypes.NewParams(uint64(100+r.intn(2000)), uint64(1+r.intn(20)), uint64(1+r.intn(9)), "nund", def2, def2+uint64(r.intn(5)))
	fees := []string{"0", "0.01", "0.24", "0.000000000000000001", "1", "0.5", "0.999999999999999999", "0.03"}
	cfg.strValFee = sdk.MustNewDecFromStr(fees[r.intn(len(fees))])
	for i := 0; i < n; i++ {
		if r.chance(1, 2) {
			cfg.whitelist = append(cfg.whitelist, i)
		}
	}
	if r.chance(1, 3) { // a chain whose genesis numbering does not start at 1 (restarted from an export, a fork)
		cfg.startPO, cfg.startWrk, cfg.startBcn = uint64(2+r.intn(30)), uint64(2+r.intn(30)), uint64(2+r.intn(30))
	}
	return cfg
}

func newHistory(c *chain, r *rng, w weights) *history {
	h := &history{c: c, r: r, w: w, obs: newObserver(c), kinds: map[string]int{}, results: map[string]int{}, flags: map[string]int{}}
	h.mon = newMonitors(h)
	return h
}

func (h *history) futureOneIn() int {
	if h.futureSubmit > 0 {
		return h.futureSubmit
	}
	return 6
}

func (h *history) item(op string, res int, hasRes bool, ctx sdk.Context) []string {
	obs := h.obs.snapshot(ctx)
	if len(h.carry) > 0 {
		// deltas flushed just before an export + import (they belong to the state before it): deliver them with this
		// item unless it reports the same query anew
		again := map[string]bool{}
		for _, d := range h.obs.deltas {
			again[d[0]] = true
		}
		var pre []string
		for _, d := range h.carry {
			if !again[d[0]] {
				pre = append(pre, "("+d[0]+", "+d[1]+")")
			}
		}
		obs = append(pre, obs...)
		h.carry = nil
	}
	defer func() { h.lastObs = obs }()
	rs := "None"
	if hasRes {
		rs = fmt.Sprintf("(Some %d)", res)
	}
	h.items = append(h.items, fmt.Sprintf("{| ti_op := %s; ti_res := %s; ti_obs := [%s]; ti_reimport := %s |}", op, rs, strings.Join(obs, "; "), coqBool(h.reimportNext)))
	h.reimportNext = false
	h.nOps++
	return obs
}

// ---- state readers used to aim operations at existing entities ----

func (h *history) signers() []int {
	var out []int
	for _, s := range strings.Split(h.c.app.EnterpriseKeeper.GetParams(h.c.ctx()).EntSigners, ",") {
		if i := h.c.idx(s); i >= 0 {
			out = append(out, i)
		}
	}
	return out
}

func (h *history) posWithStatus(st enttypes.PurchaseOrderStatus) []uint64 {
	ctx := h.c.ctx()
	next, _ := h.c.app.EnterpriseKeeper.GetHighestPurchaseOrderID(ctx)
	var out []uint64
	for id := uint64(1); id < next; id++ {
		if po, ok := h.c.app.EnterpriseKeeper.GetPurchaseOrder(ctx, id); ok && po.Status == st {
			out = append(out, id)
		}
	}
	return out
}

type regInfo struct {
	id, last, limit, max uint64
	owner                int
}

func (h *history) regs(wrk bool) []regInfo {
	ctx := h.c.ctx()
	var out []regInfo
	if wrk {
		next, _ := h.c.app.WrkchainKeeper.GetHighestWrkChainID(ctx)
		for id := uint64(1); id < next; id++ {
			if wc, ok := h.c.app.WrkchainKeeper.GetWrkChain(ctx, id); ok {
				lim, _ := h.c.app.WrkchainKeeper.GetWrkChainStorageLimit(ctx, id)
				out = append(out, regInfo{id, wc.Lastblock, lim.InStateLimit, h.c.app.WrkchainKeeper.GetMaxPurchasableSlots(ctx, id), h.c.idx(wc.Owner)})
			}
		}
	} else {
		next, _ := h.c.app.BeaconKeeper.GetHighestBeaconID(ctx)
		for id := uint64(1); id < next; id++ {
			if b, ok := h.c.app.BeaconKeeper.GetBeacon(ctx, id); ok {
				lim, _ := h.c.app.BeaconKeeper.GetBeaconStorageLimit(ctx, id)
				out = append(out, regInfo{id, b.LastTimestampId, lim.InStateLimit, h.c.app.BeaconKeeper.GetMaxPurchasableSlots(ctx, id), h.c.idx(b.Owner)})
			}
		}
	}
	return out
}

func (h *history) livePairs() [][2]int {
	ctx := h.c.ctx()
	var out [][2]int
	for _, p := range h.obs.pairList {
		if p[0] < 0 || p[1] < 0 {
			continue
		}
		if _, ok := h.c.app.StreamKeeper.GetStream(ctx, h.c.addrOf(p[0]), h.c.addrOf(p[1])); ok {
			out = append(out, p)
		}
	}
	return out
}

func (h *history) anyAcct() int { return h.r.intn(len(h.c.accts)) }

// lockedHolderOrAny prefers (in the efund focus) an account that currently holds locked eFUND
func (h *history) lockedHolderOrAny() int {
	if h.focus == "efund" && h.r.chance(3, 4) {
		var hs []int
		for i := range h.c.accts {
			if h.c.app.EnterpriseKeeper.GetLockedUndAmountForAccount(h.c.ctx(), h.c.addrOf(i)).Amount.IsPositive() {
				hs = append(hs, i)
			}
		}
		if len(hs) > 0 {
			return hs[h.r.intn(len(hs))]
		}
	}
	return h.anyAcct()
}

func (h *history) randText(maxLen int) string {
	n := 1 + h.r.intn(12)
	switch h.r.intn(90) {
	case 0:
		n = maxLen
	case 1:
		n = maxLen + 1
	case 2:
		n = 0
	}
	const alpha = "abcdef0123456789xyzXYZ-_ "
	var sb strings.Builder
	for i := 0; i < n; i++ {
		sb.WriteByte(alpha[h.r.intn(len(alpha))])
	}
	return sb.String()
}

func (h *history) randU64Edge() uint64 {
	e := []uint64{0, 1, 2, 1<<63 - 1, 1 << 63, 1<<64 - 2, 1<<64 - 1, 1 << 32}
	return e[h.r.intn(len(e))]
}

// ---- message generators ----

func (h *history) genMsg(depth int) mmsg {
	c, r, w := h.c, h.r, h.w
	total := w.entRaise + w.entDecide + w.entWhitelist + w.regRegister + w.regRecord + w.regPurchase + w.strCreate + w.strClaim +
		w.strTopUp + w.strUpdate + w.strCancel + w.send + w.grant + w.exec + w.feeAllow + w.updParams
	x := r.intn(total)
	pick := func(n int) bool {
		if x < n {
			x = 1 << 30
			return true
		}
		x -= n
		return false
	}
	switch {
	case pick(w.entRaise):
		p := h.anyAcct()
		wl := []int{}
		for i := range c.accts {
			if c.app.EnterpriseKeeper.AddressIsWhitelisted(c.ctx(), c.addrOf(i)) {
				wl = append(wl, i)
			}
		}
		if len(wl) > 0 && r.chance(4, 5) {
			p = wl[r.intn(len(wl))]
		}
		denom := "nund"
		if r.chance(1, 25) {
			denom = "stake"
		}
		amt := sdk.NewInt(int64(1 + r.intn(1_000_000)))
		if r.chance(1, 10) {
			amt = sdk.NewIntFromBigInt(r.bigBits(40 + r.intn(100))).AddRaw(1)
		}
		if h.focus == "efund" && r.chance(4, 5) {
			amt = sdk.NewInt(int64(1 + r.intn(1500))) // locked balances around the size of the registry fees
		}
		return c.mEntRaise(p, denom, amt)
	case pick(w.entDecide):
		if len(h.posWithStatus(enttypes.StatusRaised)) == 0 && r.chance(5, 6) {
			wl := []int{}
			for i := range c.accts {
				if c.app.EnterpriseKeeper.AddressIsWhitelisted(c.ctx(), c.addrOf(i)) {
					wl = append(wl, i)
				}
			}
			if len(wl) > 0 {
				return c.mEntRaise(wl[r.intn(len(wl))], "nund", sdk.NewInt(int64(1+r.intn(1_000_000))))
			}
			if sg := h.signers(); len(sg) > 0 {
				return c.mEntWhitelist(sg[r.intn(len(sg))], h.anyAcct(), 1)
			}
		}
		s := h.anyAcct()
		if sg := h.signers(); len(sg) > 0 && r.chance(5, 6) {
			s = sg[r.intn(len(sg))]
		}
		id := uint64(1 + r.intn(6))
		if raised := h.posWithStatus(enttypes.StatusRaised); len(raised) > 0 && r.chance(5, 6) {
			id = raised[r.intn(len(raised))]
		} else if r.chance(1, 8) {
			id = h.randU64Edge()
		}
		dec := 2
		switch r.intn(20) {
		case 0, 1, 2, 3, 4, 5:
			dec = 3
		case 6:
			dec = r.intn(6)
		}
		return c.mEntDecide(s, id, dec)
	case pick(w.entWhitelist):
		s := h.anyAcct()
		if sg := h.signers(); len(sg) > 0 && r.chance(5, 6) {
			s = sg[r.intn(len(sg))]
		}
		act := 1 + r.intn(2)
		if r.chance(1, 20) {
			act = 0
		}
		return c.mEntWhitelist(s, h.anyAcct(), act)
	case pick(w.regRegister):
		wrk := r.chance(1, 2)
		return c.mRegRegister(wrk, h.lockedHolderOrAny(), h.randText(64), h.randText(128), h.randText(66), h.randText(10))
	case pick(w.regRecord):
		wrk := r.chance(1, 2)
		regs := h.regs(wrk)
		if len(regs) == 0 && r.chance(7, 8) {
			return c.mRegRegister(wrk, h.anyAcct(), h.randText(64), h.randText(128), h.randText(66), h.randText(10))
		}
		o, id, key := h.anyAcct(), uint64(1+r.intn(4)), uint64(1+r.intn(50))
		if len(regs) > 0 && r.chance(9, 10) {
			g := regs[r.intn(len(regs))]
			id = g.id
			if r.chance(9, 10) {
				o = g.owner
			}
			if wrk {
				key = g.last + uint64(1+r.intn(4))
				switch r.intn(30) {
				case 0:
					key = g.last
				case 1:
					if g.last > 1 {
						key = g.last - 1
					}
				case 2:
					key = h.randU64Edge()
				case 3:
					key = g.last + uint64(r.intn(1<<20))
				}
			} else {
				key = uint64(c.now.Unix()) + uint64(r.intn(100))
				if r.chance(1, 25) {
					key = h.randU64Edge()
				} else if r.chance(1, h.futureOneIn()) {
					key = 4102444800 + uint64(r.intn(1<<30)) // a submit time far in the future of any wall clock (2100+)
				}
			}
		} else if r.chance(1, 6) {
			id = h.randU64Edge()
		}
		nh := 5
		if !wrk {
			nh = 1
		}
		var hashes []string
		for i := 0; i < nh; i++ {
			if i == 0 || r.chance(1, 2) {
				hashes = append(hashes, h.randText(66))
			} else {
				hashes = append(hashes, "")
			}
		}
		return c.mRegRecord(wrk, o, id, key, hashes)
	case pick(w.regPurchase):
		wrk := r.chance(1, 2)
		regs := h.regs(wrk)
		if len(regs) == 0 && r.chance(7, 8) {
			return c.mRegRegister(wrk, h.anyAcct(), h.randText(64), h.randText(128), h.randText(66), h.randText(10))
		}
		o, id, n := h.anyAcct(), uint64(1+r.intn(4)), uint64(1+r.intn(3))
		if len(regs) > 0 && r.chance(9, 10) {
			g := regs[r.intn(len(regs))]
			id = g.id
			if r.chance(9, 10) {
				o = g.owner
			}
			switch r.intn(12) {
			case 0:
				n = g.max
			case 1:
				n = g.max + 1
			case 2:
				n = h.randU64Edge()
			}
		}
		return c.mRegPurchase(wrk, o, id, n)
	case pick(w.strCreate):
		sn, rc := h.anyAcct(), h.anyAcct()
		for rc == sn && !r.chance(1, 30) {
			rc = h.anyAcct()
		}
		if r.chance(1, 30) {
			rc = []int{mStream, mEnt, mGov}[r.intn(3)]
		}
		denom := "nund"
		if r.chance(1, 3) {
			denom = "atest"
		}
		rates := []int64{1, 7, 10, 100, 1_000_000, 1 << 31, 1 << 40}
		if denom == "atest" {
			rates = append(rates, 1<<62, 1<<63-1)
		}
		rate := rates[r.intn(len(rates))]
		dur := int64(60 + r.intn(5000))
		switch r.intn(20) {
		case 0:
			dur = int64(r.intn(60))
		case 1:
			dur = 86400 * 365 * int64(1+r.intn(400)) // centuries
		case 2:
			dur = 253402300799 - 1700000000 + int64(r.intn(3)) - 1 // around year 9999
		}
		amt := new(big.Int).Mul(big.NewInt(rate), big.NewInt(dur))
		amt.Add(amt, big.NewInt(int64(r.intn(int(minI64(rate, 1000))+1))))
		if r.chance(1, 40) {
			amt = r.bigBits(130)
		}
		if r.chance(1, 40) {
			rate = 0 - int64(r.intn(2))
		}
		if amt.Sign() <= 0 {
			amt = big.NewInt(1)
		}
		h.obs.watchPair(rc, sn)
		return c.mStrCreate(sn, rc, denom, sdk.NewIntFromBigInt(amt), rate)
	case pick(w.strClaim), pick(w.strTopUp), pick(w.strUpdate), pick(w.strCancel):
		// which one was picked is recovered below from a second draw weighted the same way
		live := h.livePairs()
		sn, rc := h.anyAcct(), h.anyAcct()
		if len(live) == 0 && r.chance(7, 8) {
			for rc == sn {
				rc = h.anyAcct()
			}
			h.obs.watchPair(rc, sn)
			rate := []int64{1, 10, 100, 1_000_000}[r.intn(4)]
			return c.mStrCreate(sn, rc, "nund", sdk.NewInt(rate*int64(60+r.intn(4000))+int64(r.intn(7))), rate)
		}
		if len(live) > 0 && r.chance(9, 10) {
			p := live[r.intn(len(live))]
			rc, sn = p[0], p[1]
		}
		if h.aimPair != nil && r.chance(3, 4) {
			rc, sn = h.aimPair[0], h.aimPair[1]
		}
		h.obs.watchPair(rc, sn)
		tw := w.strClaim + w.strTopUp + w.strUpdate + w.strCancel
		y := r.intn(tw)
		switch {
		case y < w.strClaim:
			if r.chance(1, 15) { // someone else's stream named by the signer
				return c.mStrClaim(sn, h.anyAcct())
			}
			return c.mStrClaim(sn, rc)
		case y < w.strClaim+w.strTopUp:
			denom := "nund"
			if st, ok := c.app.StreamKeeper.GetStream(c.ctx(), c.addrOf(rc), c.addrOf(sn)); ok && r.chance(9, 10) {
				denom = st.Deposit.Denom
			}
			amt := sdk.NewInt(int64(1 + r.intn(1_000_000)))
			if r.chance(1, 8) {
				amt = sdk.NewIntFromBigInt(r.bigBits(30 + r.intn(90))).AddRaw(1)
			}
			return c.mStrTopUp(sn, rc, denom, amt)
		case y < w.strClaim+w.strTopUp+w.strUpdate:
			rates := []int64{1, 3, 10, 100, 999, 1_000_000, 1 << 31, 1 << 62, 1<<63 - 1, 0, -5}
			return c.mStrUpdate(sn, rc, rates[r.intn(len(rates))])
		default:
			return c.mStrCancel(sn, rc)
		}
	case pick(w.send):
		from, to := h.anyAcct(), h.anyAcct()
		if r.chance(1, 5) {
			to = []int{mEnt, mStream, mFee, mGov}[r.intn(4)]
		}
		d := denoms[r.intn(len(denoms))]
		amt := sdk.NewInt(int64(1 + r.intn(1_000_000)))
		if r.chance(1, 10) {
			amt = sdk.NewIntFromBigInt(r.bigBits(125)).AddRaw(1)
		}
		return c.mSend(from, to, sdk.NewCoins(sdk.NewCoin(d, amt)))
	case pick(w.grant):
		granter, grantee := h.anyAcct(), h.anyAcct()
		for grantee == granter && !r.chance(1, 20) {
			grantee = h.anyAcct()
		}
		of := h.genMsg(9)
		return c.mGrant(granter, grantee, of)
	case pick(w.exec):
		if depth >= 3 {
			return c.mSend(h.anyAcct(), h.anyAcct(), nundCoins(1+int64(r.intn(100))))
		}
		n := 1
		if r.chance(1, 4) {
			n = 2
		}
		var inner []mmsg
		for i := 0; i < n; i++ {
			inner = append(inner, h.genMsg(depth+1))
		}
		grantee := h.anyAcct()
		if r.chance(1, 2) { // the common legitimate use: the grantee executes its own message
			grantee = inner[0].signer
			if grantee < 0 {
				grantee = h.anyAcct()
			}
		}
		return c.mExec(grantee, inner)
	case pick(w.feeAllow):
		granter, grantee := h.anyAcct(), h.anyAcct()
		for grantee == granter {
			grantee = h.anyAcct()
		}
		return c.mFeeAllow(granter, grantee)
	default: // parameter update sent by a user: must be refused (wrong authority) or, naming gov, fail the signature check
		auth := h.anyAcct()
		return h.genUpdParams(auth, false)
	}
}

func minI64(a, b int64) int64 {
	if a < b {
		return a
	}
	return b
}

// genUpdParams builds a parameter update; valid=true keeps every field inside its bounds.
func (h *history) genUpdParams(authority int, valid bool) mmsg {
	c, r := h.c, h.r
	ctx := c.ctx()
	which := r.intn(4)
	if authority == mGov && h.w.govModule >= 0 {
		switch h.w.govModule {
		case 0:
			which = 0
		case 12: // wrkchain or beacon
			which = 1 + r.intn(2)
		case 3:
			which = 3
		}
	}
	switch which {
	case 0:
		p := c.app.EnterpriseKeeper.GetParams(ctx)
		n := 1 + r.intn(3)
		var signers []string
		cur := strings.Split(p.EntSigners, ",")
		if r.chance(2, 3) { // shrink or grow the current signer set: decisions already made stay on the orders
			for _, s := range cur {
				if r.chance(1, 2) {
					signers = append(signers, s)
				}
			}
			if r.chance(1, 3) || len(signers) == 0 {
				signers = append(signers, c.addrOf(h.anyAcct()).String())
			}
			n = len(signers)
		} else {
			for i := 0; i < n; i++ {
				signers = append(signers, c.addrOf(h.anyAcct()).String())
			}
		}
		dup := r.chance(1, 8) // one account listed twice: the list (and MinAccepts up to its length) is stored as submitted
		if dup {
			signers = append(signers, signers[r.intn(len(signers))])
			n = len(signers)
		}
		p.EntSigners = strings.Join(signers, ",")
		p.MinAccepts = uint64(1 + r.intn(n))
		if dup && r.chance(1, 2) {
			p.MinAccepts = uint64(n)
		}
		p.DecisionTimeLimit = uint64(10 + r.intn(200))
		if !valid {
			switch r.intn(6) {
			case 0:
				p.MinAccepts = uint64(n + 1 + r.intn(3))
			case 1:
				p.MinAccepts = 0
			case 2:
				p.DecisionTimeLimit = 0
			case 3:
				p.EntSigners = p.EntSigners + ",notanaddress"
			case 4:
				p.MinAccepts = 1 << 63
			}
		}
		return c.mUpdEnt(authority, p)
	case 1:
		p := c.app.WrkchainKeeper.GetParams(ctx)
		p.FeeRegister, p.FeeRecord, p.FeePurchaseStorage = uint64(50+r.intn(3000)), uint64(1+r.intn(30)), uint64(1+r.intn(9))
		p.DefaultStorageLimit = uint64(1 + r.intn(4))
		p.MaxStorageLimit = p.DefaultStorageLimit + uint64(r.intn(6))
		if !valid {
			switch r.intn(5) {
			case 0:
				p.MaxStorageLimit = p.DefaultStorageLimit - 1
			case 1:
				p.FeeRecord = 0
			case 2:
				p.DefaultStorageLimit = 0
			}
		}
		return c.mUpdWrk(authority, p)
	case 2:
		p := c.app.BeaconKeeper.GetParams(ctx)
		p.FeeRegister, p.FeeRecord, p.FeePurchaseStorage = uint64(50+r.intn(3000)), uint64(1+r.intn(30)), uint64(1+r.intn(9))
		p.DefaultStorageLimit = uint64(1 + r.intn(4))
		p.MaxStorageLimit = p.DefaultStorageLimit + uint64(r.intn(6))
		if !valid {
			switch r.intn(5) {
			case 0:
				p.MaxStorageLimit = p.DefaultStorageLimit - 1
			case 1:
				p.FeeRegister = 0
			case 2:
				p.MaxStorageLimit = 0
			}
		}
		return c.mUpdBcn(authority, p)
	default:
		fees := []string{"0", "0.01", "0.1", "0.333333333333333333", "1", "0.75"}
		f := sdk.MustNewDecFromStr(fees[r.intn(len(fees))])
		if !valid && r.chance(1, 2) {
			f = sdk.MustNewDecFromStr([]string{"1.000000000000000001", "-0.1", "2"}[r.intn(3)])
		}
		return c.mUpdStr(authority, f)
	}
}

// expectedRegFees: the exact fee the two decorators expect for the top-level registry messages of one module
func (h *history) expectedRegFee(msgs []mmsg) (sdk.Int, bool) {
	ctx := h.c.ctx()
	wp := h.c.app.WrkchainKeeper.GetParams(ctx)
	bp := h.c.app.BeaconKeeper.GetParams(ctx)
	total := sdk.ZeroInt()
	any := false
	for _, m := range msgs {
		switch t := m.m.(type) {
		case *wrktypes.MsgRegisterWrkChain:
			total, any = total.Add(sdk.NewIntFromUint64(wp.FeeRegister)), true
		case *wrktypes.MsgRecordWrkChainBlock:
			total, any = total.Add(sdk.NewIntFromUint64(wp.FeeRecord)), true
		case *wrktypes.MsgPurchaseWrkChainStateStorage:
			total, any = total.Add(sdk.NewIntFromUint64(wp.FeePurchaseStorage).Mul(sdk.NewIntFromUint64(t.Number))), true
		case *bcntypes.MsgRegisterBeacon:
			total, any = total.Add(sdk.NewIntFromUint64(bp.FeeRegister)), true
		case *bcntypes.MsgRecordBeaconTimestamp:
			total, any = total.Add(sdk.NewIntFromUint64(bp.FeeRecord)), true
		case *bcntypes.MsgPurchaseBeaconStateStorage:
			total, any = total.Add(sdk.NewIntFromUint64(bp.FeePurchaseStorage).Mul(sdk.NewIntFromUint64(t.Number))), true
		}
	}
	return total, any
}

type genTx struct {
	spec   txSpec
	coq    string
	msgs   []mmsg
	sigOK  bool
	feeKnd string
}

// regBundle: 2-4 messages of ONE registry module by one owner, ids repeated (several purchases / records for the same id)
func (h *history) regBundle() []mmsg {
	c, r := h.c, h.r
	wrk := r.chance(1, 2)
	regs := h.regs(wrk)
	if len(regs) == 0 {
		return nil
	}
	g := regs[r.intn(len(regs))]
	if g.owner < 0 {
		return nil
	}
	var out []mmsg
	k := 2 + r.intn(3)
	last := g.last
	if r.chance(1, 5) {
		// a fresh registration followed by records / purchases on the id it is about to receive, possibly ending in a
		// message that fails (the whole transaction is then rolled back and the id stays free for the next registrant)
		var next uint64
		if wrk {
			next, _ = c.app.WrkchainKeeper.GetHighestWrkChainID(c.ctx())
		} else {
			next, _ = c.app.BeaconKeeper.GetHighestBeaconID(c.ctx())
		}
		o := h.anyAcct()
		out = append(out, c.mRegRegister(wrk, o, "m"+h.randText(20), "n"+h.randText(20), h.randText(60), "t"))
		key := uint64(5)
		if !wrk {
			key = uint64(c.now.Unix())
		}
		out = append(out, c.mRegRecord(wrk, o, next, key, []string{"h" + h.randText(30), "", "", "", ""}))
		if r.chance(2, 3) {
			out = append(out, c.mRegRecord(wrk, o, next, key, []string{"h" + h.randText(30), "", "", "", ""})) // same height again: fails for wrkchain
			if !wrk {
				out = append(out, c.mRegPurchase(wrk, o, next, 1<<40)) // exceeds max: fails
			}
		}
		return out
	}
	if r.chance(1, 4) && len(regs) >= 2 {
		// purchases for several different registrations of one owner (one of them possibly beyond its capacity)
		for _, g2 := range regs {
			if g2.owner == g.owner && len(out) < 4 {
				n := uint64(1 + r.intn(2))
				if r.chance(1, 3) {
					n = g2.max + 1
				}
				out = append(out, c.mRegPurchase(wrk, g.owner, g2.id, n))
			}
		}
		if len(out) >= 2 {
			return out
		}
		out = nil
	}
	for i := 0; i < k; i++ {
		switch r.intn(7) {
		case 0:
			out = append(out, c.mRegRegister(wrk, g.owner, h.randText(64), h.randText(128), h.randText(66), "t"))
		case 1:
			last += uint64(1 + r.intn(3))
			key := last
			if !wrk {
				key = uint64(c.now.Unix())
			}
			out = append(out, c.mRegRecord(wrk, g.owner, g.id, key, []string{h.randText(66), "", "", "", ""}))
		case 2:
			// message LAYOUTS: a MsgExec wrapping one to three harmless transfers of the owner stands among the registry
			// messages (the fee and ownership checks must see the messages around it as they are)
			var inner []mmsg
			for j := 0; j <= r.intn(3); j++ {
				inner = append(inner, c.mSend(g.owner, h.anyAcct(), nundCoins(1+int64(r.intn(20)))))
			}
			out = append(out, c.mExec(g.owner, inner))
		case 3:
			// two records in one transaction, the second BELOW the first (both above the cursor), or a stale height
			// wrapped in MsgExec: the transaction must fail as a whole
			if wrk {
				last += uint64(4 + r.intn(3))
				out = append(out, c.mRegRecord(true, g.owner, g.id, last, []string{h.randText(20), "", "", "", ""}))
				low := c.mRegRecord(true, g.owner, g.id, last-uint64(1+r.intn(2)), []string{h.randText(20), "", "", "", ""})
				if r.chance(1, 2) {
					low = c.mExec(g.owner, []mmsg{low})
				}
				out = append(out, low)
			} else {
				out = append(out, c.mRegPurchase(wrk, g.owner, g.id, uint64(1+r.intn(3))))
			}
		case 4:
			// the same moniker twice by one owner in one transaction: two registrations, two ids
			mon := "dup" + h.randText(6)
			out = append(out, c.mRegRegister(wrk, g.owner, mon, "a"+h.randText(8), "gh", "t"), c.mRegRegister(wrk, g.owner, mon, "b"+h.randText(8), "gh", "t2"))
		case 5:
			// a record or purchase on SOMEBODY ELSE'S registration naming this owner, nested in MsgExec beside the owner's
			// own messages: must fail
			var other *regInfo
			for i2 := range regs {
				if regs[i2].owner != g.owner && regs[i2].owner >= 0 {
					other = &regs[i2]
				}
			}
			if other != nil {
				forged := c.mRegPurchase(wrk, g.owner, other.id, 1)
				if r.chance(1, 2) {
					key := other.last + 1
					if !wrk {
						key = uint64(c.now.Unix())
					}
					forged = c.mRegRecord(wrk, g.owner, other.id, key, []string{"forged", "", "", "", ""})
				}
				out = append(out, c.mExec(g.owner, []mmsg{forged}))
			} else {
				out = append(out, c.mRegPurchase(wrk, g.owner, g.id, uint64(1+r.intn(3))))
			}
		default:
			out = append(out, c.mRegPurchase(wrk, g.owner, g.id, uint64(1+r.intn(3))))
		}
	}
	return out
}

func (h *history) genTx(forCheck bool) genTx {
	c, r := h.c, h.r
	n := 1
	if r.chance(1, 5) {
		n = 2 + r.intn(2)
	}
	var msgs []mmsg
	if (h.w.regPurchase > 4) && r.chance(1, 6) {
		msgs = h.regBundle()
	}
	for i := 0; i < n && len(msgs) < n; i++ {
		m := h.genMsg(0)
		if m.signer < 0 { // a module account cannot sign: fall back to a plain transfer
			m = c.mSend(h.anyAcct(), h.anyAcct(), nundCoins(1+int64(r.intn(50))))
		}
		msgs = append(msgs, m)
	}
	// signers in GetSigners order, de-duplicated
	var signerIdx []int
	seen := map[int]bool{}
	for _, m := range msgs {
		if !seen[m.signer] {
			seen[m.signer] = true
			signerIdx = append(signerIdx, m.signer)
		}
	}
	var keys []acct
	for _, s := range signerIdx {
		keys = append(keys, c.accts[s])
	}
	sigOK := true
	seqDelta := 0
	switch r.intn(40) {
	case 0, 2:
		keys[r.intn(len(keys))] = c.govActor
		sigOK = false
	case 1:
		seqDelta = 1
		sigOK = false
	}
	// fee
	fee := sdk.Coins{}
	feeKind := "none"
	if exp, any := h.expectedRegFee(msgs); any {
		feeKind = "exact"
		amt := exp
		k := r.intn(30)
		if forCheck {
			k = r.intn(8)
		}
		switch k {
		case 0:
			amt, feeKind = exp.SubRaw(1), "low"
		case 1:
			amt, feeKind = exp.AddRaw(1), "high"
		case 2:
			amt, feeKind = sdk.ZeroInt(), "missing"
		}
		if amt.IsPositive() {
			fee = sdk.NewCoins(sdk.NewCoin("nund", amt))
		}
		if r.chance(1, 12) {
			fee = fee.Add(sdk.NewInt64Coin("stake", int64(1+r.intn(50))))
			feeKind += "+extra"
		}
	} else if r.chance(2, 3) {
		fee = nundCoins(int64(r.intn(200)))
		feeKind = "plain"
	}
	spec := txSpec{msgs: nil, fee: fee, signers: keys, seqDelta: seqDelta}
	for _, m := range msgs {
		spec.msgs = append(spec.msgs, m.m)
	}
	granter := "None"
	if r.chance(1, 8) {
		g := -1
		payer := signerIdx[0]
		for i := range c.accts {
			if i != payer {
				if a, _ := c.app.FeeGrantKeeper.GetAllowance(c.ctx(), c.addrOf(i), c.addrOf(payer)); a != nil {
					g = i
				}
			}
		}
		if g < 0 && r.chance(1, 4) {
			g = h.anyAcct()
		}
		if g >= 0 {
			spec.granter = c.addrOf(g)
			granter = fmt.Sprintf("(Some %d)", g)
			h.flags["fee_granter_txs"]++
		}
	}
	var cs []string
	for _, m := range msgs {
		cs = append(cs, m.coq)
	}
	coq := fmt.Sprintf("{| tx_msgs := [%s]; tx_fee := %s; tx_granter := %s; tx_sig_ok := %s |}",
		strings.Join(cs, "; "), coqCoins(fee), granter, coqBool(sigOK))
	return genTx{spec, coq, msgs, sigOK, feeKind}
}

// watchAfter registers the records a transaction may have created
func (h *history) watchAfter(g genTx, before map[string]uint64) {
	var walk func(ms []mmsg)
	_ = walk
	for _, wrk := range []bool{true, false} {
		for _, ri := range h.regs(wrk) {
			k := fmt.Sprintf("%v|%d", wrk, ri.id)
			if !wrk {
				for t := before[k] + 1; t <= ri.last && t < before[k]+10; t++ {
					h.obs.watchRecord(false, ri.id, t)
				}
			} else if ri.last != 0 {
				h.obs.watchRecord(true, ri.id, ri.last)
			}
		}
	}
}

func (h *history) lastKeys() map[string]uint64 {
	out := map[string]uint64{}
	for _, wrk := range []bool{true, false} {
		for _, ri := range h.regs(wrk) {
			out[fmt.Sprintf("%v|%d", wrk, ri.id)] = ri.last
		}
	}
	return out
}

func (h *history) watchHeights(g genTx) {
	var visit func(m sdk.Msg)
	visit = func(m sdk.Msg) {
		switch t := m.(type) {
		case *wrktypes.MsgRecordWrkChainBlock:
			h.obs.watchRecord(true, t.WrkchainId, t.Height)
		}
	}
	for _, m := range g.msgs {
		visit(m.m)
		if ex, ok := m.m.(interface{ GetMessages() ([]sdk.Msg, error) }); ok {
			if inner, err := ex.GetMessages(); err == nil {
				for _, i := range inner {
					visit(i)
				}
			}
		}
	}
}

func (h *history) doDeliver() {
	g := h.genTx(false)
	before := h.lastKeys()
	h.watchHeights(g)
	h.mon.beforeTx(g)
	res, _ := h.c.deliver(g.spec)
	cls := resClass(res)
	if h.shadow != nil {
		res2, _ := h.shadow.deliver(g.spec)
		if resClass(res2) != cls {
			h.mon.fail("C15", 0, fmt.Sprintf("after export + import the same transaction has a different effect: code %d/%s on the imported chain, %d/%s on the original (%s)", res.Code, res.Codespace, res2.Code, res2.Codespace, g.coq))
		}
	}
	h.watchAfter(g, before)
	h.nTx++
	for _, m := range g.msgs {
		h.kinds[m.kind]++
	}
	h.results[fmt.Sprintf("deliver:%d", cls)]++
	if os.Getenv("VH_DEBUG2") != "" {
		ks := ""
		for _, m := range g.msgs {
			ks += m.coq + " ; "
		}
		if strings.Contains(ks, "MWrk") {
			fmt.Fprintf(os.Stderr, "TX cls=%d %s\n", cls, ks)
		}
	}
	if cls == 0 {
		h.nOk++
	} else if debugLogs {
		ks := ""
		for _, m := range g.msgs {
			ks += m.kind + ","
		}
		lg := res.Log
		if len(lg) > 160 {
			lg = lg[:160]
		}
		fmt.Fprintf(os.Stderr, "FAIL %s sig=%v fee=%s: %s\n", ks, g.sigOK, g.feeKnd, lg)
	}
	obs := h.item("OpDeliver "+g.coq, cls, true, h.c.ctx())
	h.mon.afterTx(g, res, cls, false)
	h.mon.atomicity(g, cls, obs)
}

func (h *history) doCheck() {
	g := h.genTx(true)
	h.mon.beforeCheck(g)
	res, _ := h.c.check(g.spec)
	cls := resClass(res)
	for _, m := range g.msgs {
		h.kinds["check:"+m.kind]++
	}
	h.results[fmt.Sprintf("check:%d", cls)]++
	h.item("OpCheck "+g.coq, cls, true, h.c.ctxFor(true))
	h.mon.afterTx(g, res, cls, true)
	// the exact fee was refused as too low / too high: search for a fee this build does admit
	// (sums over sub-multisets of the registry messages) - on a correct build none is admitted
	if (cls == 51 || cls == 52) && g.feeKnd == "exact" && len(g.msgs) >= 2 && len(g.msgs) <= 4 {
		tried := map[string]bool{g.spec.fee.String(): true}
		for mask := 1; mask < (1<<len(g.msgs))-1; mask++ {
			var sub []mmsg
			for i, m := range g.msgs {
				if mask&(1<<i) != 0 {
					sub = append(sub, m)
				}
			}
			amt, any := h.expectedRegFee(sub)
			if !any || !amt.IsPositive() {
				continue
			}
			fee := sdk.NewCoins(sdk.NewCoin("nund", amt))
			if tried[fee.String()] {
				continue
			}
			tried[fee.String()] = true
			g2 := g
			g2.spec.fee = fee
			g2.feeKnd = "candidate"
			g2.coq = strings.Replace(g.coq, "tx_fee := "+coqCoins(g.spec.fee), "tx_fee := "+coqCoins(fee), 1)
			h.mon.beforeCheck(g2)
			res2, _ := h.c.check(g2.spec)
			cls2 := resClass(res2)
			h.results[fmt.Sprintf("check-candidate:%d", cls2)]++
			h.item("OpCheck "+g2.coq, cls2, true, h.c.ctxFor(true))
			h.mon.afterTx(g2, res2, cls2, true)
			if cls2 == 0 {
				break
			}
		}
	}
}

// governance: submit + vote now, execution happens in the EndBlock after the voting period
func (h *history) submitProposal() {
	c := h.c
	nm := 1
	if h.r.chance(1, 5) {
		nm = 2
	}
	var msgs []mmsg
	var sdkMsgs []sdk.Msg
	for i := 0; i < nm; i++ {
		m := h.genUpdParams(mGov, !h.r.chance(1, 8))
		msgs = append(msgs, m)
		sdkMsgs = append(sdkMsgs, m.m)
	}
	if h.r.chance(1, 4) {
		// a proposal whose last message fails on execution: gov sends more than it owns; everything before it must be discarded
		fail := c.mSend(mGov, h.anyAcct(), sdk.NewCoins(sdk.NewCoin("nund", bigPow2(100))))
		msgs = append(msgs, fail)
		sdkMsgs = append(sdkMsgs, fail.m)
		h.flags["gov_proposals_with_failing_tail"]++
	}
	prop, err := govv1.NewMsgSubmitProposal(sdkMsgs, sdk.NewCoins(sdk.NewInt64Coin("stake", 10)), c.govActor.addr.String(), "", "t", "s")
	if err != nil {
		return
	}
	res, _ := c.deliver(txSpec{msgs: []sdk.Msg{prop}, fee: sdk.Coins{}, signers: []acct{c.govActor}})
	if h.shadow != nil {
		h.shadow.deliver(txSpec{msgs: []sdk.Msg{prop}, fee: sdk.Coins{}, signers: []acct{c.govActor}})
	}
	h.results[fmt.Sprintf("gov.submit:%d", resClass(res))]++
	if res.Code != 0 {
		return
	}
	var id uint64
	for _, ev := range res.Events {
		for _, at := range ev.Attributes {
			if at.Key == "proposal_id" {
				fmt.Sscanf(at.Value, "%d", &id)
			}
		}
	}
	vote := govv1.NewMsgVote(c.govActor.addr, id, govv1.OptionYes, "")
	res2, _ := c.deliver(txSpec{msgs: []sdk.Msg{vote}, fee: sdk.Coins{}, signers: []acct{c.govActor}})
	if h.shadow != nil {
		h.shadow.deliver(txSpec{msgs: []sdk.Msg{vote}, fee: sdk.Coins{}, signers: []acct{c.govActor}})
	}
	h.results[fmt.Sprintf("gov.vote:%d", resClass(res2))]++
	h.pending = append(h.pending, pendingProposal{id, msgs})
}

// after EndBlock: which pending proposals were executed?
func (h *history) settledProposals() [][]mmsg {
	ctx := h.c.ctx()
	var passed [][]mmsg
	var keep []pendingProposal
	for _, p := range h.pending {
		pr, ok := h.c.app.GovKeeper.GetProposal(ctx, p.id)
		if !ok {
			continue
		}
		switch pr.Status {
		case govv1.StatusPassed:
			passed = append(passed, p.msgs)
			h.flags["gov_passed"]++
		case govv1.StatusVotingPeriod, govv1.StatusDepositPeriod:
			keep = append(keep, p)
		default:
			h.flags["gov_failed"]++
			// executed and failed: the model must agree that nothing changed; present it as a proposal too
			passed = append(passed, p.msgs)
		}
	}
	h.pending = keep
	return passed
}

func (h *history) block() bool {
	c, r := h.c, h.r
	dts := []time.Duration{time.Millisecond, 999 * time.Millisecond, time.Second, 1500 * time.Millisecond, 5 * time.Second, 7*time.Second + 250*time.Millisecond,
		21 * time.Second, 37 * time.Second, 61 * time.Second, 1000 * time.Second, 3*time.Hour + 999999999*time.Nanosecond}
	dt := dts[r.intn(len(dts))]
	if r.chance(1, 40) {
		dt = time.Duration(1+r.intn(300)) * 24 * time.Hour
	}
	h.aimPair = nil
	if h.w.strClaim > 4 && r.chance(1, 3) {
		// place this block just before / in the same second as / at / just after the advertised zero time of a live stream
		if live := h.livePairs(); len(live) > 0 {
			p := live[r.intn(len(live))]
			if st, ok := c.app.StreamKeeper.GetStream(c.committedCtx(), c.addrOf(p[0]), c.addrOf(p[1])); ok {
				offs := []time.Duration{-1300 * time.Millisecond, -300 * time.Millisecond, -1, 0, 1, 400 * time.Millisecond, -999999999}
				target := st.DepositZeroTime.Add(offs[r.intn(len(offs))])
				if d := target.Sub(c.now); d > time.Millisecond && d < 100*24*time.Hour {
					dt = d
					pp := p
					h.aimPair = &pp
					h.flags["blocks_aimed_at_zero_time"]++
				}
			}
		}
	}
	if h.shadow != nil {
		if h.shadowLeft <= 0 {
			h.shadow = nil
		} else {
			h.shadowLeft--
			if p := h.shadow.begin(dt); p != nil {
				h.shadow = nil
			}
		}
	}
	h.mon.beforeBegin()
	if p := c.begin(dt); p != nil {
		h.flags["beginblock_panic"]++
		h.mon.chainHalted(fmt.Sprint(p))
		h.halted = true
		return false
	}
	h.item(fmt.Sprintf("OpBegin %s", coqZ(timeNs(c.now))), 0, false, c.ctx())
	h.mon.afterBegin()
	if h.twinValidator && !h.validatorCreated && h.proposalEndsNow() {
		// (twin histories only: the model does not follow staking) a validator is created in the very block in which a
		// proposal's voting period ends: the order of the gov and staking EndBlockers decides the tally
		h.createValidator()
	}
	k := r.intn(7)
	for i := 0; i < k; i++ {
		h.doDeliver()
	}
	if h.w.govEvery > 0 && r.chance(1, h.w.govEvery) {
		h.submitProposal()
	}
	if p := c.end(nil); p != nil {
		h.flags["endblock_panic"]++
		h.mon.chainHalted(fmt.Sprint(p))
		h.halted = true
		return false
	}
	props := h.settledProposals()
	var ps []string
	for _, p := range props {
		var cs []string
		for _, m := range p {
			cs = append(cs, m.coq)
		}
		ps = append(ps, "["+strings.Join(cs, "; ")+"]")
	}
	h.item("OpEnd ["+strings.Join(ps, "; ")+"]", 0, false, c.ctx())
	h.mon.afterEnd()
	if h.shadow != nil {
		if p := h.shadow.end(nil); p != nil {
			h.shadow = nil
		} else {
			h.shadow.commit()
			e1, err1 := c.app.ExportAppStateAndValidators(false, nil, nil)
			_ = e1
			_ = err1
		}
	}
	c.commit()
	if h.shadow != nil {
		ea, erra := h.shadow.app.ExportAppStateAndValidators(false, nil, nil)
		eb, errb := c.app.ExportAppStateAndValidators(false, nil, nil)
		if erra == nil && errb == nil {
			da, db := moduleDocs(ea.AppState), moduleDocs(eb.AppState)
			for _, m := range ownModules {
				if da[m] != db[m] {
					h.mon.fail("C15", 0, fmt.Sprintf("one block after export + import the %s state of the two chains differs: %s", m, firstDiff(da[m], db[m])))
				}
			}
			h.flags["shadow_blocks_compared"]++
		}
	}
	h.item("OpCommit", 0, false, c.ctxFor(true))
	h.mon.afterCommit()
	// export + import right after Commit, when the check state equals the committed state (ExportAppStateAndValidators
	// reads the check state, as `und export` does on a stopped node where no CheckTx has run since the last commit)
	if h.w.reimportEvery > 0 && h.nOps > 8 && r.chance(1, h.w.reimportEvery) {
		h.doReimport()
		c = h.c
	}
	for i := 0; i < h.w.checkPerBlock; i++ {
		if r.chance(2, 3) {
			h.doCheck()
		}
	}
	return true
}

// doReimport: export at the block boundary, start a fresh application from the document, keep going on it.
// The old application stays alive for two blocks as a shadow: the same transactions must have the same effects.
func (h *history) doReimport() {
	h.obs.snapshot(h.c.committedCtx()) // flush pending deltas so that the next snapshot shows only import effects
	h.carry = append(h.carry, h.obs.deltas...)
	old, problems := h.c.reimport()
	for _, p := range problems {
		class := 0
		if strings.Contains(p, "expected module account was") {
			class = 1 // listed: coins were sent to the (deliberately unblocked) gov module account; x/gov's InitGenesis insists on balance == deposits
		}
		h.mon.fail("C15", class, p)
	}
	if old == nil {
		h.flags["reimport_failed"]++
		return
	}
	h.flags["reimports"]++
	after := h.obs.snapshot(h.c.committedCtx())
	for _, o := range after {
		if !h.obs.fresh[o] {
			h.mon.fail("C15", 0, "observable state changed by export + import: now "+o)
		}
	}
	h.reimportNext = true
	h.shadow = &chain{cfg: h.c.cfg, app: old, appOpts: h.c.appOpts, valSet: h.c.valSet, height: old.LastBlockHeight(), now: h.c.now,
		accts: h.c.accts, govActor: h.c.govActor, addrIdx: h.c.addrIdx, started: h.c.started, db: nil}
	h.shadowLeft = 2
}

func firstDiff(a, b string) string {
	i := 0
	for i < len(a) && i < len(b) && a[i] == b[i] {
		i++
	}
	lo := i - 80
	if lo < 0 {
		lo = 0
	}
	ha, hb := i+80, i+80
	if ha > len(a) {
		ha = len(a)
	}
	if hb > len(b) {
		hb = len(b)
	}
	return fmt.Sprintf("original ...%s... vs imported ...%s...", a[lo:ha], b[lo:hb])
}

func (h *history) run(nBlocks int) string {
	gen := h.c.coqGenesis(h.c.ctxFor(true))
	for b := 0; b < nBlocks; b++ {
		if !h.block() {
			break
		}
	}
	return fmt.Sprintf("{| tr_genesis := %s;\n   tr_items := [\n    %s] |}", gen, strings.Join(h.items, ";\n    "))
}

// proposalEndsNow: some pending proposal's voting period ends at or before the current block time
func (h *history) proposalEndsNow() bool {
	ctx := h.c.ctx()
	for _, p := range h.pending {
		if pr, ok := h.c.app.GovKeeper.GetProposal(ctx, p.id); ok && pr.Status == govv1.StatusVotingPeriod && pr.VotingEndTime != nil && !pr.VotingEndTime.After(h.c.now) {
			return true
		}
	}
	return false
}

// createValidator: the last account self-delegates three times the genesis validator's stake
func (h *history) createValidator() {
	c := h.c
	a := c.accts[len(c.accts)-1]
	pk := cosmosed.GenPrivKeyFromSecret([]byte("verif-twin-validator")).PubKey()
	msg, err := stakingtypes.NewMsgCreateValidator(sdk.ValAddress(a.addr), pk, sdk.NewInt64Coin("stake", 3_000_000),
		stakingtypes.NewDescription("twin", "", "", "", ""), stakingtypes.NewCommissionRates(sdk.ZeroDec(), sdk.OneDec(), sdk.ZeroDec()), sdk.OneInt())
	if err != nil {
		return
	}
	res, _ := c.deliver(txSpec{msgs: []sdk.Msg{msg}, fee: sdk.Coins{}, signers: []acct{a}})
	h.validatorCreated = true
	h.flags[fmt.Sprintf("validator_created_with_proposal_ending:%d", res.Code)]++
}
