module vharness

go 1.22

require github.com/unification-com/mainchain v0.0.0

replace (
	github.com/unification-com/mainchain => /repo
	github.com/99designs/keyring => github.com/cosmos/keyring v1.2.0
	github.com/syndtr/goleveldb => github.com/syndtr/goleveldb v1.0.1-0.20210819022825-2ae1ddf74ef7
	golang.org/x/exp => golang.org/x/exp v0.0.0-20230711153332-06a737ee72cb
)
