package main

import (
	"encoding/json"
	"fmt"
	"os"
	"strings"
	"time"

	dbm "github.com/cometbft/cometbft-db"
	abci "github.com/cometbft/cometbft/abci/types"
	"github.com/cometbft/cometbft/libs/log"
	tmproto "github.com/cometbft/cometbft/proto/tendermint/types"
	"github.com/cosmos/cosmos-sdk/baseapp"
	"github.com/unification-com/mainchain/app"

	sdk "github.com/cosmos/cosmos-sdk/types"
	authtypes "github.com/cosmos/cosmos-sdk/x/auth/types"
	vestingtypes "github.com/cosmos/cosmos-sdk/x/auth/vesting/types"
	"github.com/cosmos/cosmos-sdk/x/authz"
	banktypes "github.com/cosmos/cosmos-sdk/x/bank/types"
	govv1 "github.com/cosmos/cosmos-sdk/x/gov/types/v1"

	bcntypes "github.com/unification-com/mainchain/x/beacon/types"
	enttypes "github.com/unification-com/mainchain/x/enterprise/types"
	strtypes "github.com/unification-com/mainchain/x/stream/types"
	wrktypes "github.com/unification-com/mainchain/x/wrkchain/types"
)

// Designated scenarios: the minimised histories of every defect found so far (fixed ones must stay
// fixed, listed ones are re-witnessed).  They run first on every chain check, implementation side only.

func fixedCfg() chainCfg {
	var signers []string
	for i := 0; i < 3; i++ {
		signers = append(signers, mkAcct(fmt.Sprintf("verif-acct-%d-seed-0123456789abcdef", i)).addr.String())
	}
	return chainCfg{nAcc: 6, votingSecs: 20,
		entParams: enttypes.Params{EntSigners: strings.Join(signers, ","), Denom: "nund", MinAccepts: 2, DecisionTimeLimit: 1000},
		wrkParams: wrktypes.NewParams(1000, 10, 5, "nund", 2, 5),
		bcnParams: bcntypes.NewParams(1000, 10, 5, "nund", 2, 5),
		strValFee: sdk.MustNewDecFromStr("0.01"), whitelist: []int{4}}
}

type scen struct {
	c        *chain
	failures []monFailure
	name     string
}

func (s *scen) fail(prop string, class int, what string) {
	s.failures = append(s.failures, monFailure{Property: prop, Class: class, OpIndex: -1, What: "[scenario " + s.name + "] " + what, History: -1})
}

func (s *scen) tx(signer int, fee sdk.Coins, msgs ...sdk.Msg) txResult {
	r, _ := s.c.deliver(txSpec{msgs: msgs, fee: fee, signers: []acct{s.c.accts[signer]}})
	return r
}

func (s *scen) blockStart(dt time.Duration) interface{} { return s.c.begin(dt) }
func (s *scen) blockEnd()                               { s.c.end(nil); s.c.commit() }

func runScenarios() []monFailure {
	var out []monFailure
	for _, f := range []func() []monFailure{scenUpperCaseDecision, scenNestedOverflowPurchase, scenMixedModulesFee, scenDenomChange, scenVestingPurchaser, scenExtraDenomFee, scenGovPurchaser, scenMaxHeight, scenGovFundedExport, scenFeeBoundary, scenForgedForLockedOwner, scenMaxLoweredBelowLimit, scenExplicitFeePayer, scenForgedWithGranter, scenInconsistentGenesis, scenHugeOrder} {
		out = append(out, f()...)
	}
	for _, f := range moreScenarios() {
		out = append(out, f()...)
	}
	return out
}

// D3 (fixed): the same signer decides twice, the second time spelling its address in upper case.
func scenUpperCaseDecision() []monFailure {
	s := &scen{c: newChain(fixedCfg()), name: "upper-case-second-decision"}
	defer s.c.close()
	c := s.c
	s.blockStart(5 * time.Second)
	s.tx(4, nundCoins(10), enttypes.NewMsgUndPurchaseOrder(c.addrOf(4), sdk.NewInt64Coin("nund", 777)))
	r1 := s.tx(0, nundCoins(10), &enttypes.MsgProcessUndPurchaseOrder{PurchaseOrderId: 1, Decision: enttypes.StatusAccepted, Signer: c.addrOf(0).String()})
	r2 := s.tx(0, nundCoins(10), &enttypes.MsgProcessUndPurchaseOrder{PurchaseOrderId: 1, Decision: enttypes.StatusAccepted, Signer: strings.ToUpper(c.addrOf(0).String())})
	s.blockEnd()
	s.blockStart(5 * time.Second)
	po, _ := c.app.EnterpriseKeeper.GetPurchaseOrder(c.ctx(), 1)
	if r1.Code != 0 {
		s.fail("C03", 0, "first decision was refused: "+r1.Log)
	}
	if r2.Code == 0 || len(po.Decisions) != 1 || po.Status != enttypes.StatusRaised {
		s.fail("C03", 0, fmt.Sprintf("one signer decided twice (second code %d); order has %d decisions and status %s at MinAccepts=2", r2.Code, len(po.Decisions), po.Status))
	}
	s.blockEnd()
	return s.failures
}

// D2 (fixed): a purchase of 2^64-1 slots nested in MsgExec must not wrap the limit.
func scenNestedOverflowPurchase() []monFailure {
	s := &scen{c: newChain(fixedCfg()), name: "nested-overflow-purchase"}
	defer s.c.close()
	c := s.c
	s.blockStart(5 * time.Second)
	s.tx(2, nundCoins(1000), wrktypes.NewMsgRegisterWrkChain("mon", "gh", "name", "geth", c.addrOf(2)))
	s.tx(2, nundCoins(1000), bcntypes.NewMsgRegisterBeacon("mon", "name", c.addrOf(2)))
	for _, wrk := range []bool{true, false} {
		var inner sdk.Msg = wrktypes.NewMsgPurchaseWrkChainStateStorage(1, 1<<64-1, c.addrOf(2))
		if !wrk {
			inner = bcntypes.NewMsgPurchaseBeaconStateStorage(1, 1<<64-1, c.addrOf(2))
		}
		ex := authz.NewMsgExec(c.addrOf(2), []sdk.Msg{inner})
		r := s.tx(2, nundCoins(10), &ex)
		var limit uint64
		if wrk {
			l, _ := c.app.WrkchainKeeper.GetWrkChainStorageLimit(c.ctx(), 1)
			limit = l.InStateLimit
		} else {
			l, _ := c.app.BeaconKeeper.GetBeaconStorageLimit(c.ctx(), 1)
			limit = l.InStateLimit
		}
		if r.Code == 0 || limit != 2 {
			s.fail("C08", 0, fmt.Sprintf("nested purchase of 2^64-1 slots (wrk=%v): code %d, limit now %d (was 2, max 5)", wrk, r.Code, limit))
		}
	}
	s.blockEnd()
	return s.failures
}

// D1 (fixed) : an extra fee denomination must not bypass the exact-fee check.
func scenExtraDenomFee() []monFailure {
	s := &scen{c: newChain(fixedCfg()), name: "extra-denom-fee"}
	defer s.c.close()
	c := s.c
	fee := sdk.NewCoins(sdk.NewInt64Coin("nund", 1), sdk.NewInt64Coin("stake", 1))
	r, _ := c.check(txSpec{msgs: []sdk.Msg{wrktypes.NewMsgRegisterWrkChain("mon", "gh", "name", "geth", c.addrOf(2))}, fee: fee, signers: []acct{c.accts[2]}})
	if r.Code == 0 {
		s.fail("C06", 0, "CheckTx admitted fee {nund:1, stake:1} for a 1000-nund registration")
	}
	r2, _ := c.check(txSpec{msgs: []sdk.Msg{bcntypes.NewMsgRegisterBeacon("mon", "name", c.addrOf(2))}, fee: fee, signers: []acct{c.accts[2]}})
	if r2.Code == 0 {
		s.fail("C06", 0, "CheckTx admitted fee {nund:1, stake:1} for a 1000-nund beacon registration")
	}
	return s.failures
}

// D1m (listed): WRKChain + BEACON messages in one transaction.
func scenMixedModulesFee() []monFailure {
	s := &scen{c: newChain(fixedCfg()), name: "mixed-modules-fee"}
	defer s.c.close()
	c := s.c
	msgs := []sdk.Msg{wrktypes.NewMsgRegisterWrkChain("mon", "gh", "name", "geth", c.addrOf(2)), bcntypes.NewMsgRegisterBeacon("mon", "name", c.addrOf(2))}
	r1, _ := c.check(txSpec{msgs: msgs, fee: nundCoins(1000), signers: []acct{c.accts[2]}})
	if r1.Code == 0 {
		s.fail("C06", 1, "CheckTx admitted a WRKChain+BEACON transaction offering 1000nund where the operations cost 2000nund")
	}
	return s.failures
}

// D11 (listed): governance changes the enterprise denomination while an accepted order waits.
func scenDenomChange() []monFailure {
	s := &scen{c: newChain(fixedCfg()), name: "denom-change-with-accepted-order"}
	defer s.c.close()
	c := s.c
	s.blockStart(5 * time.Second)
	p := c.app.EnterpriseKeeper.GetParams(c.ctx())
	p.Denom = "stake"
	upd := &enttypes.MsgUpdateParams{Authority: authtypes.NewModuleAddress("gov").String(), Params: p}
	prop, _ := govv1.NewMsgSubmitProposal([]sdk.Msg{upd}, sdk.NewCoins(sdk.NewInt64Coin("stake", 10)), c.govActor.addr.String(), "", "t", "s")
	c.deliver(txSpec{msgs: []sdk.Msg{prop}, signers: []acct{c.govActor}})
	c.deliver(txSpec{msgs: []sdk.Msg{govv1.NewMsgVote(c.govActor.addr, 1, govv1.OptionYes, "")}, signers: []acct{c.govActor}})
	s.blockEnd()
	// voting period ends in this block's EndBlock: the denomination changes with the order still queued? no - it was
	// completed by the BeginBlock of this block unless the proposal executed first; so order a second one
	if p := s.blockStart(30 * time.Second); p != nil {
		s.fail("C14", 0, fmt.Sprint("BeginBlock panicked: ", p))
		return s.failures
	}
	s.tx(4, nundCoins(10), enttypes.NewMsgUndPurchaseOrder(c.addrOf(4), sdk.NewInt64Coin("nund", 444)))
	s.tx(0, nundCoins(10), &enttypes.MsgProcessUndPurchaseOrder{PurchaseOrderId: 1, Decision: enttypes.StatusAccepted, Signer: c.addrOf(0).String()})
	s.tx(1, nundCoins(10), &enttypes.MsgProcessUndPurchaseOrder{PurchaseOrderId: 1, Decision: enttypes.StatusAccepted, Signer: c.addrOf(1).String()})
	s.blockEnd() // EndBlock executes the proposal: Denom = stake
	if got := c.app.EnterpriseKeeper.GetParams(c.ctxFor(true)).Denom; got != "stake" {
		return s.failures // the proposal did not execute here: nothing to witness
	}
	if p := s.blockStart(5 * time.Second); p != nil { // tally accepts order 2 (nund) under Denom = stake
		s.fail("C14", 1, fmt.Sprint("BeginBlock panicked after governance changed the enterprise denomination: ", p))
		return s.failures
	}
	s.blockEnd()
	supplyBefore := c.app.BankKeeper.GetSupply(c.committedCtx(), "nund").Amount
	if p := s.blockStart(5 * time.Second); p != nil { // completion of order 2: coin denominations differ
		s.fail("C14", 1, fmt.Sprint("BeginBlock panicked after governance changed the enterprise denomination with an accepted order queued: ", p))
		return s.failures
	}
	// the block did not halt: then the order must have been completed, and minted exactly once, however many blocks follow
	s.blockEnd()
	for i := 0; i < 3; i++ {
		if p := s.blockStart(5 * time.Second); p != nil {
			s.fail("C14", 0, fmt.Sprint("a later BeginBlock panicked: ", p))
			return s.failures
		}
		s.blockEnd()
	}
	minted := c.app.BankKeeper.GetSupply(c.committedCtx(), "nund").Amount.Sub(supplyBefore)
	want := sdk.ZeroInt()
	if po, ok := c.app.EnterpriseKeeper.GetPurchaseOrder(c.committedCtx(), 1); ok && po.Status == enttypes.StatusCompleted {
		want = po.Amount.Amount
	}
	if !minted.Equal(want) {
		s.fail("C02", 0, fmt.Sprintf("native supply rose by %s over four blocks while completed purchase orders amount to %s", minted, want))
		s.fail("C03", 0, fmt.Sprintf("an accepted order was minted for %s in total, completed orders amount to %s", minted, want))
	}
	return s.failures
}

// the boundary of the stream validator fee: a rate above 1 must not be accepted (it strands every stream: the fee
// exceeds the claim), and at exactly 1 claims, cancels and top-ups must still work and keep the escrow backed.
func scenFeeBoundary() []monFailure {
	s := &scen{c: newChain(fixedCfg()), name: "validator-fee-boundary"}
	defer s.c.close()
	c := s.c
	propID := uint64(0)
	govSet := func(fee string) bool {
		d, err := sdk.NewDecFromStr(fee)
		if err != nil {
			return false
		}
		upd := &strtypes.MsgUpdateParams{Authority: authtypes.NewModuleAddress("gov").String(), Params: strtypes.Params{ValidatorFee: d}}
		prop, err := govv1.NewMsgSubmitProposal([]sdk.Msg{upd}, sdk.NewCoins(sdk.NewInt64Coin("stake", 10)), c.govActor.addr.String(), "", "t", "s")
		if err != nil {
			return false
		}
		s.blockStart(5 * time.Second)
		r, _ := c.deliver(txSpec{msgs: []sdk.Msg{prop}, signers: []acct{c.govActor}})
		if r.Code == 0 {
			propID++
			c.deliver(txSpec{msgs: []sdk.Msg{govv1.NewMsgVote(c.govActor.addr, propID, govv1.OptionYes, "")}, signers: []acct{c.govActor}})
		}
		s.blockEnd()
		s.blockStart(30 * time.Second)
		s.blockEnd()
		return c.app.StreamKeeper.GetParams(c.committedCtx()).ValidatorFee.Equal(d)
	}
	big := func(mant int64, zeros int) sdk.Int {
		v := sdk.NewInt(mant)
		for i := 0; i < zeros; i++ {
			v = v.MulRaw(10)
		}
		return v
	}
	pair := 0
	exercise := func(label string) {
		sn, rc := 2+pair%2, 3-pair%2 // alternate direction: a fresh (sender, receiver) pair per call needs distinct pairs
		pair++
		dep := sdk.NewCoin("atest", big(4, 19))
		s.blockStart(5 * time.Second)
		if r := s.tx(sn, nundCoins(10), strtypes.NewMsgCreateStream(dep, 100_000_000_000_000_000, c.addrOf(rc), c.addrOf(sn))); r.Code != 0 {
			s.blockEnd()
			return // could not create (e.g. the pair exists): nothing to check
		}
		s.blockEnd()
		s.blockStart(100 * time.Second)
		if r := s.tx(rc, nundCoins(10), strtypes.NewMsgClaimStream(c.addrOf(rc), c.addrOf(sn))); r.Code != 0 {
			s.fail("C12", 0, fmt.Sprintf("claim on a funded stream failed under validator fee %s: %s", label, firstLine(r.Log)))
		}
		if r := s.tx(sn, nundCoins(10), strtypes.NewMsgTopUpDeposit(c.addrOf(rc), c.addrOf(sn), dep)); r.Code != 0 {
			s.fail("C12", 0, fmt.Sprintf("top-up failed under validator fee %s: %s", label, firstLine(r.Log)))
		}
		s.blockEnd()
		s.blockStart(50 * time.Second)
		if r := s.tx(sn, nundCoins(10), strtypes.NewMsgCancelStream(c.addrOf(rc), c.addrOf(sn))); r.Code != 0 {
			s.fail("C12", 0, fmt.Sprintf("cancel failed under validator fee %s: %s", label, firstLine(r.Log)))
		}
		s.blockEnd()
		// escrow backing after the stream is gone
		ctx := c.committedCtx()
		held := c.app.BankKeeper.GetBalance(ctx, moduleAddr(strtypes.ModuleName), "atest").Amount
		sum := sdk.ZeroInt()
		c.app.StreamKeeper.IterateAllStreams(ctx, func(_, _ sdk.AccAddress, st strtypes.Stream) bool {
			if st.Deposit.Denom == "atest" {
				sum = sum.Add(st.Deposit.Amount)
			}
			return false
		})
		if !held.Equal(sum) {
			s.fail("C10", 0, fmt.Sprintf("under validator fee %s the escrow holds %s atest, remaining deposits sum to %s", label, held, sum))
		}
	}
	for _, fee := range []string{"1.000000000000000001", "1.000000000000000010", "1.000000000000000100"} {
		if govSet(fee) {
			s.fail("C16", 0, "governance stored a stream validator fee above 1: "+fee)
			s.fail("C12", 0, "the chain accepted a validator fee above 1 ("+fee+"): a claim of 1/(fee-1) or more can never be paid")
			exercise(fee)
		}
	}
	if govSet("1.000000000000000000") {
		exercise("1.0")
	} else {
		s.fail("C16", 0, "a valid stream validator fee of exactly 1 was not stored")
	}
	return s.failures
}

// D8 (listed): completing an order for a vesting-account purchaser must not raise its spendable balance.
func scenVestingPurchaser() []monFailure {
	cfg := fixedCfg()
	cfg.vesting = map[int]int64{4: 900_000_000_000_000}
	s := &scen{c: newChain(cfg), name: "vesting-purchaser"}
	defer s.c.close()
	c := s.c
	s.blockStart(5 * time.Second)
	s.tx(4, nundCoins(10), enttypes.NewMsgUndPurchaseOrder(c.addrOf(4), sdk.NewInt64Coin("nund", 500_000_000_000_000)))
	s.tx(0, nundCoins(10), &enttypes.MsgProcessUndPurchaseOrder{PurchaseOrderId: 1, Decision: enttypes.StatusAccepted, Signer: c.addrOf(0).String()})
	s.tx(1, nundCoins(10), &enttypes.MsgProcessUndPurchaseOrder{PurchaseOrderId: 1, Decision: enttypes.StatusAccepted, Signer: c.addrOf(1).String()})
	s.blockEnd()
	s.blockStart(5 * time.Second) // accepted
	before := c.app.BankKeeper.SpendableCoins(c.ctx(), c.addrOf(4)).AmountOf("nund")
	supplyBefore := c.app.BankKeeper.GetSupply(c.ctx(), "nund").Amount
	s.blockEnd()
	if p := s.blockStart(5 * time.Second); p != nil { // completed
		s.fail("C14", 0, fmt.Sprint("BeginBlock panicked completing an order of a vesting purchaser: ", p))
		return s.failures
	}
	after := c.app.BankKeeper.SpendableCoins(c.ctx(), c.addrOf(4)).AmountOf("nund")
	po, _ := c.app.EnterpriseKeeper.GetPurchaseOrder(c.ctx(), 1)
	// the kind of account the purchaser is does not change what is minted and locked for a completed order
	if po.Status == enttypes.StatusCompleted {
		grew := c.app.BankKeeper.GetSupply(c.ctx(), "nund").Amount.Sub(supplyBefore)
		if !grew.Equal(po.Amount.Amount) {
			s.fail("C02", 0, fmt.Sprintf("completing an order of %s for a vesting-account purchaser raised the supply by %snund", po.Amount, grew))
		}
		if l := c.app.EnterpriseKeeper.GetLockedUndAmountForAccount(c.ctx(), c.addrOf(4)).Amount; !l.Equal(po.Amount.Amount) {
			s.fail("C04", 0, fmt.Sprintf("completing an order of %s for a vesting-account purchaser left it with %snund locked", po.Amount, l))
		}
	}
	if po.Status == enttypes.StatusCompleted && after.GT(before) {
		s.fail("C05", 1, fmt.Sprintf("completing a 5e14 order raised the vesting purchaser's spendable balance from %s to %s", before, after))
	}
	s.blockEnd()
	_ = vestingtypes.ModuleName
	return s.failures
}

// purchasers of every account kind: the governance module account (the only module account that can raise an
// order, through a passed proposal) must be able to receive its completed order without halting the chain.
func scenGovPurchaser() []monFailure {
	s := &scen{c: newChain(fixedCfg()), name: "gov-module-account-purchaser"}
	defer s.c.close()
	c := s.c
	gov := authtypes.NewModuleAddress("gov")
	s.blockStart(5 * time.Second)
	s.tx(0, nundCoins(10), enttypes.NewMsgWhitelistAddress(gov, enttypes.WhitelistActionAdd, c.addrOf(0)))
	raise := enttypes.NewMsgUndPurchaseOrder(gov, sdk.NewInt64Coin("nund", 321))
	prop, err := govv1.NewMsgSubmitProposal([]sdk.Msg{raise}, sdk.NewCoins(sdk.NewInt64Coin("stake", 10)), c.govActor.addr.String(), "", "t", "s")
	if err != nil {
		return s.failures
	}
	c.deliver(txSpec{msgs: []sdk.Msg{prop}, signers: []acct{c.govActor}})
	c.deliver(txSpec{msgs: []sdk.Msg{govv1.NewMsgVote(c.govActor.addr, 1, govv1.OptionYes, "")}, signers: []acct{c.govActor}})
	s.blockEnd()
	s.blockStart(30 * time.Second)
	s.blockEnd() // the proposal executes: order 1 raised by gov
	s.blockStart(5 * time.Second)
	po, ok := c.app.EnterpriseKeeper.GetPurchaseOrder(c.ctx(), 1)
	if !ok || po.Purchaser != gov.String() {
		s.blockEnd()
		return s.failures // the proposal did not raise the order: nothing to check
	}
	s.tx(0, nundCoins(10), &enttypes.MsgProcessUndPurchaseOrder{PurchaseOrderId: 1, Decision: enttypes.StatusAccepted, Signer: c.addrOf(0).String()})
	s.tx(1, nundCoins(10), &enttypes.MsgProcessUndPurchaseOrder{PurchaseOrderId: 1, Decision: enttypes.StatusAccepted, Signer: c.addrOf(1).String()})
	s.blockEnd()
	for i := 0; i < 2; i++ {
		if p := s.blockStart(5 * time.Second); p != nil {
			s.fail("C14", 0, fmt.Sprint("BeginBlock panicked completing an order whose purchaser is the governance module account: ", p))
			s.fail("C04", 0, fmt.Sprint("order completion for the governance module account failed: ", p))
			return s.failures
		}
		s.blockEnd()
	}
	return s.failures
}

// heights at the top of the uint64 range: after a record at 2^64-1 nothing can be recorded any more and every
// earlier record stays as it was (the property's "max uint64" height choice).
func scenMaxHeight() []monFailure {
	s := &scen{c: newChain(fixedCfg()), name: "max-uint64-height"}
	defer s.c.close()
	c := s.c
	s.blockStart(5 * time.Second)
	s.tx(2, nundCoins(1000), wrktypes.NewMsgRegisterWrkChain("mon", "gh", "name", "geth", c.addrOf(2)))
	rec := func(h uint64, hash string) txResult {
		return s.tx(2, nundCoins(10), wrktypes.NewMsgRecordWrkChainBlock(1, h, hash, "p", "", "", "", c.addrOf(2)))
	}
	rec(7, "seven")
	if r := rec(1<<64-1, "max"); r.Code != 0 {
		s.fail("C07", 0, "a record at height 2^64-1 (above the last height) was refused: "+r.Log)
	}
	before7, _ := c.app.WrkchainKeeper.GetWrkChainBlock(c.ctx(), 1, 7)
	beforeMax, _ := c.app.WrkchainKeeper.GetWrkChainBlock(c.ctx(), 1, 1<<64-1)
	for _, h := range []uint64{1, 7, 8, 1<<64 - 2, 1<<64 - 1} {
		if r := rec(h, "tampered"); r.Code == 0 {
			s.fail("C07", 0, fmt.Sprintf("after a record at height 2^64-1, a record at height %d was accepted", h))
		}
	}
	after7, ok7 := c.app.WrkchainKeeper.GetWrkChainBlock(c.ctx(), 1, 7)
	afterMax, okMax := c.app.WrkchainKeeper.GetWrkChainBlock(c.ctx(), 1, 1<<64-1)
	if !ok7 || !okMax || before7.String() != after7.String() || beforeMax.String() != afterMax.String() {
		s.fail("C07", 0, "records at heights 7 / 2^64-1 changed after later submissions")
	}
	s.blockEnd()
	return s.failures
}

// The export cap: a registration holding more than 20,000 records is exported with its newest 20,000 and
// consistent counters; the chain started from the document must report counters that match what it holds.
func scenBigExport() []monFailure {
	cfg := fixedCfg()
	cfg.wrkParams = wrktypes.NewParams(1000, 10, 5, "nund", 20003, 600000)
	cfg.bcnParams = bcntypes.NewParams(1000, 10, 5, "nund", 20002, 600000)
	s := &scen{c: newChain(cfg), name: "export-above-cap"}
	defer s.c.close()
	c := s.c
	s.blockStart(5 * time.Second)
	s.tx(2, nundCoins(1000), wrktypes.NewMsgRegisterWrkChain("mon", "gh", "name", "geth", c.addrOf(2)))
	s.tx(3, nundCoins(1000), bcntypes.NewMsgRegisterBeacon("mon", "name", c.addrOf(3)))
	s.blockEnd()
	for blk := 0; blk < 41; blk++ {
		s.blockStart(2 * time.Second)
		for i := 0; i < 500; i++ {
			k := uint64(blk*500 + i + 1)
			if k > 20003 {
				break
			}
			s.tx(2, nundCoins(10), wrktypes.NewMsgRecordWrkChainBlock(1, k, fmt.Sprintf("h%d", k), "", "", "", "", c.addrOf(2)))
			if k <= 20002 {
				s.tx(3, nundCoins(10), bcntypes.NewMsgRecordBeaconTimestamp(1, fmt.Sprintf("t%d", k), uint64(c.now.Unix()), c.addrOf(3)))
			}
		}
		s.blockEnd()
	}
	wc, _ := c.app.WrkchainKeeper.GetWrkChain(c.committedCtx(), 1)
	if wc.NumBlocks != 20003 {
		s.fail("C15", 0, fmt.Sprintf("set-up: expected 20003 records in state, have %d", wc.NumBlocks))
		return s.failures
	}
	old, problems := c.reimport()
	_ = old
	for _, p := range problems {
		// above the cap the two chains are MEANT to answer differently about the capped registrations (the property keeps
		// "the newest 20,000 per registration"): counters and the oldest records; what must hold is checked below
		if strings.HasPrefix(p, "query wrkchain.") || strings.HasPrefix(p, "query beacon.") {
			continue
		}
		s.fail("C15", 0, p)
	}
	ctx := c.committedCtx()
	check := func(name string, num, lowest, last uint64, stored []uint64) {
		if uint64(len(stored)) != 20000 {
			s.fail("C15", 0, fmt.Sprintf("%s: %d records after import, the newest 20000 were expected", name, len(stored)))
			return
		}
		if num != uint64(len(stored)) || lowest != stored[0] || last != stored[len(stored)-1] {
			s.fail("C15", 0, fmt.Sprintf("%s after import reports num %d lowest %d last %d, but holds %d records from %d to %d", name, num, lowest, last, len(stored), stored[0], stored[len(stored)-1]))
			s.fail("C08", 0, fmt.Sprintf("%s counters after import do not match the store", name))
		}
	}
	wc2, _ := c.app.WrkchainKeeper.GetWrkChain(ctx, 1)
	var hs []uint64
	for _, b := range c.app.WrkchainKeeper.GetAllWrkChainBlockHashes(ctx, 1) {
		hs = append(hs, b.Height)
	}
	check("wrkchain 1", wc2.NumBlocks, wc2.LowestHeight, wc2.Lastblock, hs)
	b2, _ := c.app.BeaconKeeper.GetBeacon(ctx, 1)
	var ts []uint64
	for _, t := range c.app.BeaconKeeper.GetAllBeaconTimestamps(ctx, 1) {
		ts = append(ts, t.TimestampId)
	}
	check("beacon 1", b2.NumInState, b2.FirstIdInState, b2.LastTimestampId, ts)
	// the next record on the imported chain must behave: nothing pruned below the limit
	s.blockStart(2 * time.Second)
	r := s.tx(2, nundCoins(10), wrktypes.NewMsgRecordWrkChainBlock(1, 20004, "h20004", "", "", "", "", c.addrOf(2)))
	wc3, _ := c.app.WrkchainKeeper.GetWrkChain(c.ctx(), 1)
	if r.Code != 0 || wc3.NumBlocks != 20001 {
		s.fail("C15", 0, fmt.Sprintf("recording on the imported chain: code %d, %d in state (20001 expected, limit 20003)", r.Code, wc3.NumBlocks))
	}
	s.blockEnd()
	return s.failures
}

// listed C15 finding: a plain transfer to the gov module account makes the exported state un-importable.
func scenGovFundedExport() []monFailure {
	s := &scen{c: newChain(fixedCfg()), name: "gov-account-funded-export"}
	defer s.c.close()
	c := s.c
	s.blockStart(5 * time.Second)
	r := s.tx(2, nundCoins(10), banktypes.NewMsgSend(c.addrOf(2), authtypes.NewModuleAddress("gov"), nundCoins(5)))
	s.blockEnd()
	if r.Code != 0 {
		return s.failures
	}
	_, problems := c.reimport()
	for _, p := range problems {
		class := 0
		if strings.Contains(p, "expected module account was") {
			class = 1
		}
		s.fail("C15", class, p)
	}
	return s.failures
}

// a registry transaction naming an owner who holds locked eFUND, signed by somebody else / with a stale sequence, must be
// rejected like any other forged transaction (the eFUND branch of the ante chain must not end the chain early), and a
// genuine one must pay its fee and advance the sequence.
func scenForgedForLockedOwner() []monFailure {
	s := &scen{c: newChain(fixedCfg()), name: "forged-registry-tx-for-locked-efund-owner"}
	defer s.c.close()
	c := s.c
	s.blockStart(5 * time.Second)
	s.tx(4, nundCoins(10), enttypes.NewMsgUndPurchaseOrder(c.addrOf(4), sdk.NewInt64Coin("nund", 1_000_000)))
	s.tx(0, nundCoins(10), &enttypes.MsgProcessUndPurchaseOrder{PurchaseOrderId: 1, Decision: enttypes.StatusAccepted, Signer: c.addrOf(0).String()})
	s.tx(1, nundCoins(10), &enttypes.MsgProcessUndPurchaseOrder{PurchaseOrderId: 1, Decision: enttypes.StatusAccepted, Signer: c.addrOf(1).String()})
	s.blockEnd()
	for i := 0; i < 2; i++ {
		s.blockStart(5 * time.Second)
		s.blockEnd()
	}
	s.blockStart(5 * time.Second)
	defer s.blockEnd()
	if !c.app.EnterpriseKeeper.IsLocked(c.ctx(), c.addrOf(4)) {
		return s.failures // no locked eFUND: nothing to check
	}
	if r := s.tx(4, nundCoins(1000), bcntypes.NewMsgRegisterBeacon("mon4", "name", c.addrOf(4))); r.Code != 0 {
		return s.failures
	}
	rec := bcntypes.NewMsgRecordBeaconTimestamp(1, "forged-hash", 1, c.addrOf(4))
	lockedBefore := c.app.EnterpriseKeeper.GetLockedUndAmountForAccount(c.ctx(), c.addrOf(4)).Amount
	r, _ := c.deliver(txSpec{msgs: []sdk.Msg{rec}, fee: nundCoins(10), signers: []acct{c.accts[5]}})
	if r.Code == 0 {
		s.fail("C13", 0, "a BEACON record naming an owner with locked eFUND executed although it was signed by another account's key")
		s.fail("C09", 0, "a BEACON record took effect without the registered owner's signature")
	}
	if now := c.app.EnterpriseKeeper.GetLockedUndAmountForAccount(c.ctx(), c.addrOf(4)).Amount; !now.Equal(lockedBefore) {
		s.fail("C05", 0, fmt.Sprintf("a rejected forged transaction changed the owner's locked eFUND from %s to %s", lockedBefore, now))
	}
	r, _ = c.deliver(txSpec{msgs: []sdk.Msg{rec}, fee: nundCoins(10), signers: []acct{c.accts[4]}, seqDelta: 1})
	if r.Code == 0 {
		s.fail("C13", 0, "a BEACON record of an owner with locked eFUND executed with a signature over the wrong sequence number")
	}
	seq := c.app.AccountKeeper.GetAccount(c.ctx(), c.addrOf(4)).GetSequence()
	if r := s.tx(4, nundCoins(10), rec); r.Code != 0 {
		s.fail("C09", 0, "the owner's genuine record was refused: "+firstLine(r.Log))
	} else if now := c.app.AccountKeeper.GetAccount(c.ctx(), c.addrOf(4)).GetSequence(); now != seq+1 {
		s.fail("C13", 0, fmt.Sprintf("the owner's genuine record did not advance the account sequence (%d -> %d): the transaction can be replayed", seq, now))
	}
	return s.failures
}

// governance lowers the maximum storage limit below a limit that was bought earlier: every later limit check must use
// the new maximum (no further purchase, reported capacity 0), the bought limit itself stays, and an export + import
// keeps it too.
func scenMaxLoweredBelowLimit() []monFailure {
	s := &scen{c: newChain(fixedCfg()), name: "max-storage-lowered-below-bought-limit"}
	defer s.c.close()
	c := s.c
	gov := authtypes.NewModuleAddress("gov").String()
	s.blockStart(5 * time.Second)
	s.tx(2, nundCoins(1000), wrktypes.NewMsgRegisterWrkChain("mon", "gh", "name", "geth", c.addrOf(2)))
	s.tx(2, nundCoins(1000), bcntypes.NewMsgRegisterBeacon("bmon", "bname", c.addrOf(2)))
	s.tx(2, nundCoins(10), wrktypes.NewMsgPurchaseWrkChainStateStorage(1, 2, c.addrOf(2))) // limit 2 -> 4 (max 5)
	s.tx(2, nundCoins(10), bcntypes.NewMsgPurchaseBeaconStateStorage(1, 2, c.addrOf(2)))
	wp := wrktypes.NewParams(1000, 10, 5, "nund", 2, 3)
	bp := bcntypes.NewParams(1000, 10, 5, "nund", 2, 3)
	prop, err := govv1.NewMsgSubmitProposal([]sdk.Msg{&wrktypes.MsgUpdateParams{Authority: gov, Params: wp}, &bcntypes.MsgUpdateParams{Authority: gov, Params: bp}},
		sdk.NewCoins(sdk.NewInt64Coin("stake", 10)), c.govActor.addr.String(), "", "t", "s")
	if err != nil {
		s.blockEnd()
		return s.failures
	}
	c.deliver(txSpec{msgs: []sdk.Msg{prop}, signers: []acct{c.govActor}})
	c.deliver(txSpec{msgs: []sdk.Msg{govv1.NewMsgVote(c.govActor.addr, 1, govv1.OptionYes, "")}, signers: []acct{c.govActor}})
	s.blockEnd()
	s.blockStart(30 * time.Second)
	s.blockEnd()
	ctx := c.committedCtx()
	if c.app.WrkchainKeeper.GetParams(ctx).MaxStorageLimit != 3 || c.app.BeaconKeeper.GetParams(ctx).MaxStorageLimit != 3 {
		return s.failures // the proposal did not execute: nothing to check
	}
	wl, _ := c.app.WrkchainKeeper.GetWrkChainStorageLimit(ctx, 1)
	bl, _ := c.app.BeaconKeeper.GetBeaconStorageLimit(ctx, 1)
	if wl.InStateLimit != 4 || bl.InStateLimit != 4 {
		return s.failures
	}
	if n := c.app.WrkchainKeeper.GetMaxPurchasableSlots(ctx, 1); n != 0 {
		s.fail("C08", 0, fmt.Sprintf("WRKChain limit 4 above the new maximum 3: purchasable capacity reported as %d", n))
		s.fail("C16", 0, fmt.Sprintf("after the maximum was lowered to 3 the capacity of a WRKChain with limit 4 is reported as %d", n))
	}
	if n := c.app.BeaconKeeper.GetMaxPurchasableSlots(ctx, 1); n != 0 {
		s.fail("C08", 0, fmt.Sprintf("BEACON limit 4 above the new maximum 3: purchasable capacity reported as %d", n))
		s.fail("C16", 0, fmt.Sprintf("after the maximum was lowered to 3 the capacity of a BEACON with limit 4 is reported as %d", n))
	}
	s.blockStart(5 * time.Second)
	if r := s.tx(2, nundCoins(5), wrktypes.NewMsgPurchaseWrkChainStateStorage(1, 1, c.addrOf(2))); r.Code == 0 {
		s.fail("C16", 0, "a WRKChain storage purchase succeeded above the maximum set by governance")
		s.fail("C08", 0, "a WRKChain limit was raised above the maximum in force")
	}
	if r := s.tx(2, nundCoins(5), bcntypes.NewMsgPurchaseBeaconStateStorage(1, 1, c.addrOf(2))); r.Code == 0 {
		s.fail("C16", 0, "a BEACON storage purchase succeeded above the maximum set by governance")
		s.fail("C08", 0, "a BEACON limit was raised above the maximum in force")
	}
	s.blockEnd()
	ctx = c.committedCtx()
	wl, _ = c.app.WrkchainKeeper.GetWrkChainStorageLimit(ctx, 1)
	bl, _ = c.app.BeaconKeeper.GetBeaconStorageLimit(ctx, 1)
	old, problems := c.reimport()
	for _, p := range problems {
		s.fail("C15", 0, p)
	}
	if old == nil {
		return s.failures
	}
	defer old.Close()
	ctx = c.committedCtx()
	wl2, _ := c.app.WrkchainKeeper.GetWrkChainStorageLimit(ctx, 1)
	bl2, _ := c.app.BeaconKeeper.GetBeaconStorageLimit(ctx, 1)
	if wl2.InStateLimit != wl.InStateLimit {
		s.fail("C15", 0, fmt.Sprintf("WRKChain limit %d became %d through export + import", wl.InStateLimit, wl2.InStateLimit))
	}
	if bl2.InStateLimit != bl.InStateLimit {
		s.fail("C15", 0, fmt.Sprintf("BEACON limit %d became %d through export + import", bl.InStateLimit, bl2.InStateLimit))
		s.fail("C08", 0, fmt.Sprintf("a BEACON's bought limit %d dropped to %d", bl.InStateLimit, bl2.InStateLimit))
	}
	return s.failures
}

// a registry transaction whose fee is paid by an explicitly named, co-signing fee payer: locked eFUND may be touched only
// for that fee payer, never for the owner named in the message.
func scenExplicitFeePayer() []monFailure {
	s := &scen{c: newChain(fixedCfg()), name: "explicit-fee-payer-on-registry-tx"}
	defer s.c.close()
	c := s.c
	s.blockStart(5 * time.Second)
	s.tx(4, nundCoins(10), enttypes.NewMsgUndPurchaseOrder(c.addrOf(4), sdk.NewInt64Coin("nund", 1_000_000)))
	s.tx(0, nundCoins(10), &enttypes.MsgProcessUndPurchaseOrder{PurchaseOrderId: 1, Decision: enttypes.StatusAccepted, Signer: c.addrOf(0).String()})
	s.tx(1, nundCoins(10), &enttypes.MsgProcessUndPurchaseOrder{PurchaseOrderId: 1, Decision: enttypes.StatusAccepted, Signer: c.addrOf(1).String()})
	s.blockEnd()
	for i := 0; i < 2; i++ {
		s.blockStart(5 * time.Second)
		s.blockEnd()
	}
	s.blockStart(5 * time.Second)
	defer s.blockEnd()
	ek := c.app.EnterpriseKeeper
	if !ek.IsLocked(c.ctx(), c.addrOf(4)) {
		return s.failures
	}
	lockedBefore := ek.GetLockedUndAmountForAccount(c.ctx(), c.addrOf(4)).Amount
	spentBefore := ek.GetSpentEFUNDAmountForAccount(c.ctx(), c.addrOf(4)).Amount
	liquidOwner := c.app.BankKeeper.GetBalance(c.ctx(), c.addrOf(4), "nund").Amount
	liquidPayer := c.app.BankKeeper.GetBalance(c.ctx(), c.addrOf(5), "nund").Amount
	reg := bcntypes.NewMsgRegisterBeacon("mon4", "name", c.addrOf(4))
	r, _ := c.deliver(txSpec{msgs: []sdk.Msg{reg}, fee: nundCoins(1000), signers: []acct{c.accts[4], c.accts[5]}, payer: c.addrOf(5)})
	if debugLogs {
		fmt.Fprintf(os.Stderr, "scenExplicitFeePayer: code %d %s\n", r.Code, firstLine(r.Log))
	}
	if r.Code != 0 {
		return s.failures // the chain refuses explicit fee payers here: nothing to check
	}
	if now := ek.GetLockedUndAmountForAccount(c.ctx(), c.addrOf(4)).Amount; !now.Equal(lockedBefore) {
		s.fail("C05", 0, fmt.Sprintf("locked eFUND of the BEACON owner went from %s to %s although another account paid the fee", lockedBefore, now))
	}
	if now := ek.GetSpentEFUNDAmountForAccount(c.ctx(), c.addrOf(4)).Amount; !now.Equal(spentBefore) {
		s.fail("C04", 0, fmt.Sprintf("spent eFUND of the BEACON owner went from %s to %s although another account paid the fee", spentBefore, now))
	}
	if now := c.app.BankKeeper.GetBalance(c.ctx(), c.addrOf(4), "nund").Amount; !now.Equal(liquidOwner) {
		s.fail("C05", 0, fmt.Sprintf("the owner's liquid balance changed from %s to %s in a transaction paid by another account", liquidOwner, now))
	}
	if now := c.app.BankKeeper.GetBalance(c.ctx(), c.addrOf(5), "nund").Amount; !liquidPayer.Sub(now).Equal(sdk.NewInt(1000)) {
		s.fail("C06", 0, fmt.Sprintf("the explicit fee payer paid %s instead of the fee 1000", liquidPayer.Sub(now)))
	}
	return s.failures
}

// a transaction that names a fee granter goes through the same signature checks as any other: forged ones are refused.
func scenForgedWithGranter() []monFailure {
	s := &scen{c: newChain(fixedCfg()), name: "forged-tx-naming-a-fee-granter"}
	defer s.c.close()
	c := s.c
	s.blockStart(5 * time.Second)
	defer s.blockEnd()
	dep := sdk.NewInt64Coin("nund", 100_000)
	if r := s.tx(2, nundCoins(10), strtypes.NewMsgCreateStream(dep, 10, c.addrOf(3), c.addrOf(2))); r.Code != 0 {
		return s.failures
	}
	cancel := strtypes.NewMsgCancelStream(c.addrOf(3), c.addrOf(2))
	// signed by account 5's key, naming the victim itself as fee granter (no grant needed when granter = payer)
	r, _ := c.deliver(txSpec{msgs: []sdk.Msg{cancel}, fee: nundCoins(10), signers: []acct{{addr: c.addrOf(2), priv: c.accts[5].priv}}, granter: c.addrOf(2)})
	if r.Code == 0 {
		s.fail("C13", 0, "a stream cancel naming the sender but signed with another account's key executed (fee granter set)")
	}
	if _, ok := c.app.StreamKeeper.GetStream(c.ctx(), c.addrOf(3), c.addrOf(2)); !ok {
		s.fail("C13", 0, "the stream is gone after a forged cancel")
		s.fail("C12", 0, "a stream was cancelled without its sender's signature")
	}
	wl := enttypes.NewMsgWhitelistAddress(c.addrOf(5), enttypes.WhitelistActionAdd, c.addrOf(0))
	r, _ = c.deliver(txSpec{msgs: []sdk.Msg{wl}, fee: nundCoins(10), signers: []acct{{addr: c.addrOf(0), priv: c.accts[5].priv}}, granter: c.addrOf(0)})
	if r.Code == 0 || c.app.EnterpriseKeeper.AddressIsWhitelisted(c.ctx(), c.addrOf(5)) {
		s.fail("C13", 0, "a whitelist message naming an enterprise signer but signed with another account's key executed (fee granter set)")
		s.fail("C03", 0, "an address was whitelisted without an authorised signer's signature")
	}
	return s.failures
}

// a genesis document whose enterprise section claims locked eFUND that the bank section does not hold must be refused, and
// in no case may the chain start with more native supply than the bank section declares.
func scenInconsistentGenesis() []monFailure {
	s := &scen{c: newChain(fixedCfg()), name: "genesis-claims-locked-efund-the-bank-does-not-hold"}
	defer s.c.close()
	c := s.c
	s.blockStart(5 * time.Second)
	s.blockEnd()
	exp, err := c.app.ExportAppStateAndValidators(false, nil, nil)
	if err != nil {
		return s.failures
	}
	var gs map[string]json.RawMessage
	if json.Unmarshal(exp.AppState, &gs) != nil {
		return s.failures
	}
	var eg enttypes.GenesisState
	c.app.AppCodec().MustUnmarshalJSON(gs[enttypes.ModuleName], &eg)
	eg.TotalLocked = sdk.NewInt64Coin("nund", 1_000_000)
	eg.LockedUnd = append(eg.LockedUnd, enttypes.LockedUnd{Owner: c.addrOf(4).String(), Amount: sdk.NewInt64Coin("nund", 1_000_000)})
	gs[enttypes.ModuleName] = c.app.AppCodec().MustMarshalJSON(&eg)
	var bg banktypes.GenesisState
	c.app.AppCodec().MustUnmarshalJSON(gs[banktypes.ModuleName], &bg)
	declared := bg.Supply.AmountOf("nund")
	state, _ := json.Marshal(gs)
	a2 := app.NewApp(log.NewNopLogger(), dbm.NewMemDB(), nil, true, c.appOpts, baseapp.SetChainID(chainID))
	var pan interface{}
	func() {
		defer func() { pan = recover() }()
		a2.InitChain(abci.RequestInitChain{ChainId: chainID, Time: c.now, Validators: []abci.ValidatorUpdate{},
			ConsensusParams: exp.ConsensusParams, AppStateBytes: state, InitialHeight: exp.Height})
		a2.Commit()
	}()
	defer a2.Close()
	if debugLogs {
		fmt.Fprintf(os.Stderr, "scenInconsistentGenesis: panic=%v\n", pan)
	}
	if pan != nil {
		return s.failures // refused, as it must be
	}
	s.fail("C15", 0, "InitChain accepted an enterprise genesis claiming 1000000 locked nund that the bank genesis does not hold")
	ctx := a2.BaseApp.NewContext(true, tmproto.Header{ChainID: chainID, Height: a2.LastBlockHeight()})
	if got := a2.BankKeeper.GetSupply(ctx, "nund").Amount; !got.Equal(declared) {
		s.fail("C02", 0, fmt.Sprintf("the chain started with a native supply of %s although the bank genesis declares %s and no purchase order completed", got, declared))
	}
	return s.failures
}

// a purchase order of exactly 2^64 nund (legal: only positivity is required) is accepted and completed: the begin blockers
// of the minting block and of the following ones must not halt the chain, and the books must carry the amount.
func scenHugeOrder() []monFailure {
	s := &scen{c: newChain(fixedCfg()), name: "purchase-order-of-2^64-nund"}
	defer s.c.close()
	c := s.c
	amt, _ := sdk.NewIntFromString("18446744073709551616")
	s.blockStart(5 * time.Second)
	if r := s.tx(4, nundCoins(10), enttypes.NewMsgUndPurchaseOrder(c.addrOf(4), sdk.NewCoin("nund", amt))); r.Code != 0 {
		s.blockEnd()
		return s.failures
	}
	s.tx(0, nundCoins(10), &enttypes.MsgProcessUndPurchaseOrder{PurchaseOrderId: 1, Decision: enttypes.StatusAccepted, Signer: c.addrOf(0).String()})
	s.tx(1, nundCoins(10), &enttypes.MsgProcessUndPurchaseOrder{PurchaseOrderId: 1, Decision: enttypes.StatusAccepted, Signer: c.addrOf(1).String()})
	s.blockEnd()
	for i := 0; i < 4; i++ {
		if p := s.blockStart(5 * time.Second); p != nil {
			s.fail("C14", 0, fmt.Sprintf("BeginBlock %d after a 2^64 nund order was accepted panicked: %v", i+1, p))
			s.fail("C03", 0, fmt.Sprintf("an accepted order of 2^64 nund could not be completed: BeginBlock panicked: %v", p))
			return s.failures
		}
		s.blockEnd()
	}
	if got := c.app.EnterpriseKeeper.GetLockedUndAmountForAccount(c.committedCtx(), c.addrOf(4)).Amount; !got.Equal(amt) {
		s.fail("C03", 0, fmt.Sprintf("after completion of a 2^64 nund order the purchaser's locked eFUND is %s", got))
	}
	return s.failures
}
