package main

import (
	"bytes"
	"flag"
	"fmt"
	"github.com/unification-com/mainchain/x/beacon"
	"github.com/unification-com/mainchain/x/wrkchain"
	"math/big"
	"os"
	"path/filepath"
	"sort"
	"strings"

	"github.com/cosmos/cosmos-sdk/types/query"
	"time"

	sdk "github.com/cosmos/cosmos-sdk/types"

	bcntypes "github.com/unification-com/mainchain/x/beacon/types"
	enttypes "github.com/unification-com/mainchain/x/enterprise/types"
	strtypes "github.com/unification-com/mainchain/x/stream/types"
	wrktypes "github.com/unification-com/mainchain/x/wrkchain/types"
)

// C18 (store level): sequences of REAL keeper store-accessor calls (x/wrkchain, x/stream) on a cached context of the
// real application.  Every call and what it returned is written as a Coq term; model/StoreCheck{Wrk,Str}.v run the
// TRANSLATED accessors (Generated*Store.v) over the store model (model/KVStore.v) on the same sequence from the empty
// store.  Independently of the model, a shadow map kept here decides the property on the implementation: every read
// returns what was last written under that logical key, a write never changes the read of another key, listings are
// complete, duplicate-free and ascending.

func coqU(x uint64) string { return new(big.Int).SetUint64(x).String() }

var storeIDs = []uint64{1, 2, 3, 0, 4, 255, 256, 257, 65536, 1 << 32, 1<<63 - 1, 1 << 63, 1<<64 - 2, 1<<64 - 1}

func pickID(r *rng) uint64 {
	if r.chance(3, 4) {
		return storeIDs[r.intn(7)]
	}
	return storeIDs[r.intn(len(storeIDs))]
}

func randWord(r *rng) string {
	const al = "abcdefghijklmnopqrstuvwxyz0123456789"
	n := r.intn(9)
	b := make([]byte, n)
	for i := range b {
		b[i] = al[r.intn(len(al))]
	}
	return string(b)
}

func coqWrkChain(w wrktypes.WrkChain, owner int) string {
	return fmt.Sprintf("(mk_go_WrkChain %s %s %s %s %s %s %s %s %s %s)", coqU(w.WrkchainId), coqString(w.Moniker), coqString(w.Name), coqString(w.Genesis), coqString(w.Type),
		coqU(w.Lastblock), coqU(w.NumBlocks), coqU(w.LowestHeight), coqU(w.RegTime), coqZi(int64(owner)))
}

func coqWrkBlock(b wrktypes.WrkChainBlock) string {
	return fmt.Sprintf("(mk_go_WrkChainBlock %s %s %s %s %s %s %s)", coqU(b.Height), coqString(b.Blockhash), coqString(b.Parenthash), coqString(b.Hash1), coqString(b.Hash2), coqString(b.Hash3), coqU(b.SubTime))
}

func coqWrkParams(p wrktypes.Params) string {
	return fmt.Sprintf("(mk_go_Params %s %s %s %d %s %s)", coqU(p.FeeRegister), coqU(p.FeeRecord), coqU(p.FeePurchaseStorage), denomIndex(p.Denom), coqU(p.DefaultStorageLimit), coqU(p.MaxStorageLimit))
}

type storeMon struct {
	fails []monFailure
	hist  int
}

func (m *storeMon) fail(op int, format string, a ...interface{}) {
	m.fails = append(m.fails, monFailure{Property: "C18", OpIndex: op, History: m.hist, What: "store accessors: " + fmt.Sprintf(format, a...)})
}

// one wrkchain history; returns the Coq ops
func wrkStoreHistory(c *chain, r *rng, nops int, mon *storeMon, kinds map[string]int) []string {
	ctx, _ := c.ctx().CacheContext()
	k := c.app.WrkchainKeeper
	var ops []string
	add := func(kind, s string) { ops = append(ops, s); kinds["wrk."+kind]++ }
	// shadow state
	chains := map[uint64]wrktypes.WrkChain{}
	owners := map[uint64]int{}
	limits := map[uint64]uint64{}
	type bk struct{ id, h uint64 }
	blocks := map[bk]wrktypes.WrkChainBlock{}
	ownerIx := func(s string) int {
		for i := 0; i < 6; i++ {
			if c.addrOf(i).String() == s {
				return i
			}
		}
		return -100
	}
	params := wrktypes.NewParams(1000, 10, 5, "nund", 50000, 600000)
	if err := k.SetParams(ctx, params); err != nil {
		panic(err)
	}
	add("set_params", "WoSetParams "+coqWrkParams(params)+" true")
	k.SetHighestWrkChainID(ctx, 1)
	add("set_highest", "WoSetHighest 1")
	highest := uint64(1)
	sortedBlocks := func(id uint64) []wrktypes.WrkChainBlock {
		var hs []uint64
		for key := range blocks {
			if key.id == id {
				hs = append(hs, key.h)
			}
		}
		sort.Slice(hs, func(i, j int) bool { return hs[i] < hs[j] })
		var out []wrktypes.WrkChainBlock
		for _, h := range hs {
			out = append(out, blocks[bk{id, h}])
		}
		return out
	}
	blockList := func(bs []wrktypes.WrkChainBlock) string {
		var xs []string
		for _, b := range bs {
			xs = append(xs, coqWrkBlock(b))
		}
		return "[" + strings.Join(xs, "; ") + "]"
	}
	sameBlocks := func(a, b []wrktypes.WrkChainBlock) bool {
		if len(a) != len(b) {
			return false
		}
		for i := range a {
			if a[i] != b[i] {
				return false
			}
		}
		return true
	}
	for i := 0; i < nops; i++ {
		opIx := len(ops)
		id, h := pickID(r), pickID(r)
		switch r.intn(20) {
		case 0:
			p := wrktypes.NewParams(r.next()>>uint(r.intn(64)), r.next()>>uint(r.intn(64)), r.next()>>uint(r.intn(64)), denoms[r.intn(len(denoms))], uint64(r.intn(5)), uint64(r.intn(8)))
			err := k.SetParams(ctx, p)
			if err == nil {
				params = p
			}
			add("set_params", fmt.Sprintf("WoSetParams %s %s", coqWrkParams(p), coqBool(err == nil)))
		case 1:
			got := k.GetParams(ctx)
			if got != params {
				mon.fail(opIx, "wrkchain GetParams returns %v, last stored %v", got, params)
			}
			add("get_params", "WoGetParams "+coqWrkParams(got))
		case 2:
			highest = id
			k.SetHighestWrkChainID(ctx, id)
			add("set_highest", "WoSetHighest "+coqU(id))
		case 3:
			got, err := k.GetHighestWrkChainID(ctx)
			if err != nil || got != highest {
				mon.fail(opIx, "GetHighestWrkChainID returns %d (%v), last stored %d", got, err, highest)
			}
			if err != nil {
				add("get_highest", "WoGetHighest None")
			} else {
				add("get_highest", "WoGetHighest (Some "+coqU(got)+")")
			}
		case 4, 5, 6:
			o := r.intn(6)
			wc := wrktypes.WrkChain{WrkchainId: id, Moniker: randWord(r), Name: randWord(r), Genesis: randWord(r), Type: randWord(r), Lastblock: pickID(r) % 7, NumBlocks: uint64(r.intn(4)),
				LowestHeight: uint64(r.intn(3)), RegTime: uint64(r.intn(1000)), Owner: c.addrOf(o).String()}
			if r.chance(1, 6) {
				wc = wrktypes.WrkChain{WrkchainId: id, Owner: c.addrOf(o).String()} // (almost) all-zero message
			}
			if err := k.SetWrkChain(ctx, wc); err != nil {
				panic(err)
			}
			chains[id], owners[id] = wc, o
			add("set_chain", "WoSetChain "+coqWrkChain(wc, o))
		case 7, 8:
			got, found := k.GetWrkChain(ctx, id)
			want, has := chains[id]
			if found != has || (has && got != want) {
				mon.fail(opIx, "GetWrkChain(%d) returns (%v, %v), last stored (%v, %v)", id, got, found, want, has)
			}
			add("get_chain", fmt.Sprintf("WoGetChain %s (%s, %s)", coqU(id), coqWrkChain(got, ownerIx(got.Owner)), coqBool(found)))
		case 9:
			got := k.IsWrkChainRegistered(ctx, id)
			if _, has := chains[id]; got != has {
				mon.fail(opIx, "IsWrkChainRegistered(%d) = %v, stored %v", id, got, has)
			}
			add("is_reg", fmt.Sprintf("WoIsReg %s %s", coqU(id), coqBool(got)))
		case 10:
			all := k.GetAllWrkChains(ctx)
			var xs []string
			for j, wc := range all {
				xs = append(xs, coqWrkChain(wc, ownerIx(wc.Owner)))
				if want, has := chains[wc.WrkchainId]; !has || want != wc {
					mon.fail(opIx, "GetAllWrkChains lists %v which is not what is stored under its id", wc)
				}
				if j > 0 && all[j-1].WrkchainId >= wc.WrkchainId {
					mon.fail(opIx, "GetAllWrkChains not strictly ascending / duplicate at id %d", wc.WrkchainId)
				}
			}
			if len(all) != len(chains) {
				mon.fail(opIx, "GetAllWrkChains lists %d of %d stored WRKChains", len(all), len(chains))
			}
			add("all_chains", "WoAllChains ["+strings.Join(xs, "; ")+"]")
		case 11:
			l := pickID(r)
			if err := k.SetWrkChainStorageLimit(ctx, id, l); err != nil {
				panic(err)
			}
			limits[id] = l
			add("set_limit", fmt.Sprintf("WoSetLimit %s %s", coqU(id), coqU(l)))
		case 12:
			got, found := k.GetWrkChainStorageLimit(ctx, id)
			want, has := limits[id]
			if !has {
				want = wrktypes.DefaultStorageLimit
			}
			if found != has || got.InStateLimit != want || got.WrkchainId != id {
				mon.fail(opIx, "GetWrkChainStorageLimit(%d) returns (%v, %v), stored (%d, %v)", id, got, found, want, has)
			}
			if k.HasWrkChainStorageLimit(ctx, id) != has {
				mon.fail(opIx, "HasWrkChainStorageLimit(%d) disagrees with what was stored", id)
			}
			add("get_limit", fmt.Sprintf("WoGetLimit %s ((mk_go_WrkChainStorageLimit %s %s), %s)", coqU(id), coqU(got.WrkchainId), coqU(got.InStateLimit), coqBool(found)))
			add("has_limit", fmt.Sprintf("WoHasLimit %s %s", coqU(id), coqBool(has)))
		case 13, 14, 15:
			b := wrktypes.WrkChainBlock{Height: h, Blockhash: randWord(r), Parenthash: randWord(r), Hash1: randWord(r), Hash2: randWord(r), Hash3: randWord(r), SubTime: uint64(r.intn(1000))}
			if err := k.SetWrkChainBlock(ctx, id, b); err != nil {
				panic(err)
			}
			blocks[bk{id, h}] = b
			add("set_block", fmt.Sprintf("WoSetBlock %s %s", coqU(id), coqWrkBlock(b)))
		case 16:
			got, found := k.GetWrkChainBlock(ctx, id, h)
			want, has := blocks[bk{id, h}]
			if found != has || (has && got != want) {
				mon.fail(opIx, "GetWrkChainBlock(%d, %d) returns (%v, %v), stored (%v, %v)", id, h, got, found, want, has)
			}
			if k.IsWrkChainBlockRecorded(ctx, id, h) != has {
				mon.fail(opIx, "IsWrkChainBlockRecorded(%d, %d) disagrees with what was stored", id, h)
			}
			add("get_block", fmt.Sprintf("WoGetBlock %s %s (%s, %s)", coqU(id), coqU(h), coqWrkBlock(got), coqBool(found)))
			add("is_recorded", fmt.Sprintf("WoIsRecorded %s %s %s", coqU(id), coqU(h), coqBool(has)))
		case 17:
			all := k.GetAllWrkChainBlockHashes(ctx, id)
			want := sortedBlocks(id)
			if !sameBlocks(all, want) {
				mon.fail(opIx, "GetAllWrkChainBlockHashes(%d) lists %d records, stored %d (ascending by height expected)", id, len(all), len(want))
			}
			add("all_blocks", fmt.Sprintf("WoAllBlocks %s %s", coqU(id), blockList(all)))
			var rev []wrktypes.WrkChainBlock
			k.IterateWrkChainBlockHashesReverse(ctx, id, func(b wrktypes.WrkChainBlock) bool { rev = append(rev, b); return false })
			for j := range rev {
				if len(rev) != len(want) || rev[j] != want[len(want)-1-j] {
					mon.fail(opIx, "IterateWrkChainBlockHashesReverse(%d) is not the descending listing", id)
					break
				}
			}
			add("blocks_rev", fmt.Sprintf("WoBlocksRev %s %s", coqU(id), blockList(rev)))
		case 18:
			page, limit := uint(1+r.intn(4)), uint(r.intn(4))
			var got []wrktypes.WrkChainBlock
			k.IterateWrkChainBlockHashesPaginated(ctx, id, page, limit, func(b wrktypes.WrkChainBlock) bool { got = append(got, b); return false })
			want := sortedBlocks(id)
			lo := int((page - 1) * limit)
			if lo > len(want) {
				lo = len(want)
			}
			hi := lo + int(limit)
			if hi > len(want) {
				hi = len(want)
			}
			if !sameBlocks(got, want[lo:hi]) {
				mon.fail(opIx, "IterateWrkChainBlockHashesPaginated(%d, page %d, limit %d) is not that window of the ascending listing", id, page, limit)
			}
			add("blocks_page", fmt.Sprintf("WoBlocksPage %s %d %d %s", coqU(id), page, limit, blockList(got)))
			var two []wrktypes.WrkChainBlock
			k.IterateWrkChainBlockHashes(ctx, id, func(b wrktypes.WrkChainBlock) bool { two = append(two, b); return len(two) >= 2 })
			add("first_stop", fmt.Sprintf("WoFirstStop %s %s", coqU(id), blockList(two)))
		default:
			got := k.GetLastWrkChainHeightInState(ctx, id)
			want := uint64(0)
			if bs := sortedBlocks(id); len(bs) > 0 {
				want = bs[0].Height
			}
			if got != want {
				mon.fail(opIx, "GetLastWrkChainHeightInState(%d) = %d, lowest stored height of that WRKChain is %d", id, got, want)
			}
			add("last_height", fmt.Sprintf("WoLastHeight %s %s", coqU(id), coqU(got)))
		}
	}
	return ops
}

func coqStream(s strtypes.Stream) string {
	return fmt.Sprintf("(mk_go_Stream (%d, %s) %s %s %s %s)", denomIndex(s.Deposit.Denom), coqZ(s.Deposit.Amount.BigInt()), coqZi(s.FlowRate), coqZ(timeNs(s.LastOutflowTime)), coqZ(timeNs(s.DepositZeroTime)), coqBool(s.Cancellable))
}

func streamEq(a, b strtypes.Stream) bool {
	return a.Deposit.IsEqual(b.Deposit) && a.FlowRate == b.FlowRate && a.LastOutflowTime.Equal(b.LastOutflowTime) && a.DepositZeroTime.Equal(b.DepositZeroTime) && a.Cancellable == b.Cancellable
}

// addresses of a stream history are emitted once as named Coq definitions (long byte lists parse slowly)
var strAddrDefs []string
var strAddrName = map[string]string{}

func coqAddrRef(bz []byte) string {
	if n, ok := strAddrName[string(bz)]; ok {
		return n
	}
	return coqBytes(bz)
}

func strStoreHistory(c *chain, r *rng, nops int, mon *storeMon, kinds map[string]int) []string {
	ctx, _ := c.ctx().CacheContext()
	k := c.app.StreamKeeper
	var ops []string
	add := func(kind, s string) { ops = append(ops, s); kinds["str."+kind]++ }
	type sk struct{ r, s string }
	streams := map[sk]strtypes.Stream{}
	// a small pool of addresses of assorted lengths, some byte-prefixes of others
	var pool [][]byte
	for i := 0; i < 4; i++ {
		pool = append(pool, randAddr(r))
	}
	pool = append(pool, append(append([]byte{}, pool[0]...), 1, 2, 3)[:min(len(pool[0])+3, 255)])
	pool = append(pool, pool[1][:1+r.intn(len(pool[1]))])
	big255 := make([]byte, 255)
	for i := range big255 {
		big255[i] = byte(r.next())
	}
	pool = append(pool, big255)
	for _, a := range pool {
		if _, ok := strAddrName[string(a)]; !ok {
			nm := fmt.Sprintf("addr_%d", len(strAddrName))
			strAddrName[string(a)] = nm
			strAddrDefs = append(strAddrDefs, "Definition "+nm+" : list N := "+coqBytes(a)+".")
		}
	}
	fee := sdk.NewDecWithPrec(1, 2)
	if err := k.SetParams(ctx, strtypes.NewParams(fee)); err != nil {
		panic(err)
	}
	decZ := func(d sdk.Dec) string { return coqZ(d.BigInt()) }
	add("set_params", "SoSetParams (mk_go_Params "+decZ(fee)+") true")
	curFee := fee
	listing := func(stop bool) (string, [][3]interface{}) {
		var xs []string
		var got [][3]interface{}
		k.IterateAllStreams(ctx, func(ra, sa sdk.AccAddress, st strtypes.Stream) bool {
			xs = append(xs, fmt.Sprintf("(%s, %s, %s)", coqAddrRef(ra), coqAddrRef(sa), coqStream(st)))
			got = append(got, [3]interface{}{string(ra), string(sa), st})
			return stop
		})
		return "[" + strings.Join(xs, "; ") + "]", got
	}
	base := time.Unix(1_700_000_000, 0).UTC()
	for i := 0; i < nops; i++ {
		opIx := len(ops)
		ra, sa := pool[r.intn(len(pool))], pool[r.intn(len(pool))]
		key := sk{string(ra), string(sa)}
		switch r.intn(12) {
		case 0:
			f := sdk.NewDecWithPrec(int64(r.intn(150)), 2)
			err := k.SetParams(ctx, strtypes.NewParams(f))
			if err == nil {
				curFee = f
			}
			add("set_params", fmt.Sprintf("SoSetParams (mk_go_Params %s) %s", decZ(f), coqBool(err == nil)))
		case 1:
			got := k.GetParams(ctx)
			if !got.ValidatorFee.Equal(curFee) {
				mon.fail(opIx, "stream GetParams returns %s, last stored %s", got.ValidatorFee, curFee)
			}
			add("get_params", "SoGetParams (mk_go_Params "+decZ(got.ValidatorFee)+")")
		case 2, 3, 4, 5:
			st := strtypes.Stream{Deposit: sdk.NewInt64Coin(denoms[r.intn(len(denoms))], int64(r.intn(100000))), FlowRate: int64(r.intn(1000)),
				LastOutflowTime: base.Add(time.Duration(r.intn(1_000_000_000)) * time.Microsecond), DepositZeroTime: base.Add(time.Duration(r.intn(1_000_000)) * time.Second), Cancellable: r.chance(1, 2)}
			if r.chance(1, 12) { // a time MustMarshal cannot encode
				st.DepositZeroTime = time.Unix(253402300800+int64(r.intn(1000)), 0).UTC()
			}
			ok := safely(func() {
				if err := k.SetStream(ctx, ra, sa, st); err != nil {
					panic(err)
				}
			})
			if ok {
				streams[key] = st
			}
			add("set_stream", fmt.Sprintf("SoSetStream %s %s %s %s", coqAddrRef(ra), coqAddrRef(sa), coqStream(st), coqBool(ok)))
		case 6, 7:
			got, found := k.GetStream(ctx, ra, sa)
			want, has := streams[key]
			if found != has || (has && !streamEq(got, want)) {
				mon.fail(opIx, "GetStream(receiver %s, sender %s) returns (%v, %v), last stored (%v, %v)", hexShort(ra), hexShort(sa), got, found, want, has)
			}
			if k.IsStream(ctx, ra, sa) != has {
				mon.fail(opIx, "IsStream(receiver %s, sender %s) disagrees with what was stored", hexShort(ra), hexShort(sa))
			}
			if found {
				add("get_stream", fmt.Sprintf("SoGetStream %s %s (%s, true)", coqAddrRef(ra), coqAddrRef(sa), coqStream(got)))
			} else {
				add("get_stream", fmt.Sprintf("SoGetStream %s %s (zero_go_Stream, false)", coqAddrRef(ra), coqAddrRef(sa)))
			}
			add("is_stream", fmt.Sprintf("SoIsStream %s %s %s", coqAddrRef(ra), coqAddrRef(sa), coqBool(has)))
		case 8, 9:
			k.DeleteStream(ctx, ra, sa)
			delete(streams, key)
			add("del_stream", fmt.Sprintf("SoDelStream %s %s", coqAddrRef(ra), coqAddrRef(sa)))
		case 10:
			txt, got := listing(false)
			seen := map[sk]bool{}
			for _, g := range got {
				kk := sk{g[0].(string), g[1].(string)}
				want, has := streams[kk]
				if !has || !streamEq(want, g[2].(strtypes.Stream)) || seen[kk] {
					mon.fail(opIx, "IterateAllStreams reports a stream (receiver %s, sender %s) that is not the one stored for that pair, or reports it twice", hexShort([]byte(kk.r)), hexShort([]byte(kk.s)))
				}
				seen[kk] = true
			}
			if len(got) != len(streams) {
				mon.fail(opIx, "IterateAllStreams reports %d of %d stored streams", len(got), len(streams))
			}
			add("all_streams", "SoAllStreams "+txt)
		default:
			txt, _ := listing(true)
			add("first_stream", "SoFirstStream "+txt)
		}
	}
	return ops
}

// ---- x/beacon and x/enterprise ----

// rawKeys lists the keys a module's store holds in ctx.  Setup only (the accessors under test are the keeper's): a
// history either starts from the wiped store (the model starts from the EMPTY store) or re-plays the genesis content
// through the keeper after checking here that the genesis holds nothing else.
func rawKeys(ctx sdk.Context, c *chain, storeKey string) [][]byte {
	it := ctx.KVStore(c.app.GetKey(storeKey)).Iterator(nil, nil)
	defer it.Close()
	var out [][]byte
	for ; it.Valid(); it.Next() {
		out = append(out, append([]byte{}, it.Key()...))
	}
	return out
}

func wipeStore(ctx sdk.Context, c *chain, storeKey string) {
	st := ctx.KVStore(c.app.GetKey(storeKey))
	for _, k := range rawKeys(ctx, c, storeKey) {
		st.Delete(k)
	}
	if n := len(rawKeys(ctx, c, storeKey)); n != 0 {
		panic(fmt.Sprintf("store %s not empty after wipe: %d keys", storeKey, n))
	}
}

func coqBeacon(b bcntypes.Beacon, owner int) string {
	return fmt.Sprintf("(mk_go_Beacon %s %s %s %s %s %s %s %s)", coqU(b.BeaconId), coqString(b.Moniker), coqString(b.Name), coqU(b.LastTimestampId), coqU(b.FirstIdInState),
		coqU(b.NumInState), coqU(b.RegTime), coqZi(int64(owner)))
}

func coqBcnTs(t bcntypes.BeaconTimestamp) string {
	return fmt.Sprintf("(mk_go_BeaconTimestamp %s %s %s)", coqU(t.TimestampId), coqU(t.SubmitTime), coqString(t.Hash))
}

// the denomination index as a Coq term (-1, the empty / unknown denomination, needs its parentheses)
func coqDenom(d string) string { return coqZi(int64(denomIndex(d))) }

func coqBcnParams(p bcntypes.Params) string {
	return fmt.Sprintf("(mk_go_Params %s %s %s %s %s %s)", coqU(p.FeeRegister), coqU(p.FeeRecord), coqU(p.FeePurchaseStorage), coqDenom(p.Denom), coqU(p.DefaultStorageLimit), coqU(p.MaxStorageLimit))
}

// genesis facts recorded for the statistics file
var storeGenesisNotes = map[string]interface{}{}

// one beacon history; returns the Coq ops
func bcnStoreHistory(c *chain, r *rng, nops int, mon *storeMon, kinds map[string]int) []string {
	ctx, _ := c.ctx().CacheContext()
	k := c.app.BeaconKeeper
	var ops []string
	add := func(kind, s string) { ops = append(ops, s); kinds["bcn."+kind]++ }
	// shadow state
	beacons := map[uint64]bcntypes.Beacon{}
	limits := map[uint64]uint64{}
	type tk struct{ id, t uint64 }
	stamps := map[tk]bcntypes.BeaconTimestamp{}
	ownerIx := func(s string) int {
		if s == "" {
			return -100
		}
		for i := 0; i < 6; i++ {
			if c.addrOf(i).String() == s {
				return i
			}
		}
		return -999
	}
	var params bcntypes.Params
	highest, hasHighest := uint64(0), false
	// the genesis of fixedCfg() holds the parameters and the highest id and nothing else
	gen := rawKeys(ctx, c, bcntypes.StoreKey)
	storeGenesisNotes["beacon_genesis_keys"] = len(gen)
	if len(gen) != 2 || !bytes.Equal(gen[0], bcntypes.ParamsKey) && !bytes.Equal(gen[1], bcntypes.ParamsKey) {
		panic(fmt.Sprintf("beacon genesis store: expected exactly the params and the highest id, found %x", gen))
	}
	if r.chance(1, 2) {
		// from the wiped store: nothing is set until an operation sets it
		wipeStore(ctx, c, bcntypes.StoreKey)
		kinds["bcn.history_from_wiped_store"]++
		if _, err := k.GetHighestBeaconID(ctx); err == nil {
			mon.fail(0, "GetHighestBeaconID on the empty store does not err")
		}
		add("get_highest", "BoGetHighest None")
		got := k.GetParams(ctx)
		if got != (bcntypes.Params{}) {
			mon.fail(1, "beacon GetParams on the empty store returns %v", got)
		}
		add("get_params", "BoGetParams "+coqBcnParams(got))
	} else {
		// re-play the genesis content through the keeper
		kinds["bcn.history_from_genesis"]++
		gp := k.GetParams(ctx)
		gh, err := k.GetHighestBeaconID(ctx)
		if err != nil {
			panic(err)
		}
		if err := k.SetParams(ctx, gp); err != nil {
			panic(err)
		}
		params = gp
		add("set_params", "BoSetParams "+coqBcnParams(gp)+" true")
		k.SetHighestBeaconID(ctx, gh)
		highest, hasHighest = gh, true
		add("set_highest", "BoSetHighest "+coqU(gh))
	}
	sortedStamps := func(id uint64) []bcntypes.BeaconTimestamp {
		var ts []uint64
		for key := range stamps {
			if key.id == id {
				ts = append(ts, key.t)
			}
		}
		sort.Slice(ts, func(i, j int) bool { return ts[i] < ts[j] })
		var out []bcntypes.BeaconTimestamp
		for _, t := range ts {
			out = append(out, stamps[tk{id, t}])
		}
		return out
	}
	sortedBeacons := func() []bcntypes.Beacon {
		var ids []uint64
		for id := range beacons {
			ids = append(ids, id)
		}
		sort.Slice(ids, func(i, j int) bool { return ids[i] < ids[j] })
		var out []bcntypes.Beacon
		for _, id := range ids {
			out = append(out, beacons[id])
		}
		return out
	}
	tsList := func(ts []bcntypes.BeaconTimestamp) string {
		var xs []string
		for _, t := range ts {
			xs = append(xs, coqBcnTs(t))
		}
		return "[" + strings.Join(xs, "; ") + "]"
	}
	beaconList := func(bs []bcntypes.Beacon) string {
		var xs []string
		for _, b := range bs {
			xs = append(xs, coqBeacon(b, ownerIx(b.Owner)))
		}
		return "[" + strings.Join(xs, "; ") + "]"
	}
	sameTs := func(a, b []bcntypes.BeaconTimestamp) bool {
		if len(a) != len(b) {
			return false
		}
		for i := range a {
			if a[i] != b[i] {
				return false
			}
		}
		return true
	}
	sameBeacons := func(a, b []bcntypes.Beacon) bool {
		if len(a) != len(b) {
			return false
		}
		for i := range a {
			if a[i] != b[i] {
				return false
			}
		}
		return true
	}
	prefix := func(n int, ts []bcntypes.BeaconTimestamp) []bcntypes.BeaconTimestamp {
		if len(ts) < n {
			return ts
		}
		return ts[:n]
	}
	for i := 0; i < nops; i++ {
		opIx := len(ops)
		id, t := pickID(r), pickID(r)
		switch r.intn(20) {
		case 0:
			p := bcntypes.NewParams(r.next()>>uint(r.intn(64)), r.next()>>uint(r.intn(64)), r.next()>>uint(r.intn(64)), denoms[r.intn(len(denoms))], uint64(r.intn(5)), uint64(r.intn(8)))
			if r.chance(1, 8) {
				p.Denom = []string{"", "1x", " "}[r.intn(3)] // not a denomination
			}
			err := k.SetParams(ctx, p)
			if err == nil {
				params = p
			}
			add("set_params", fmt.Sprintf("BoSetParams %s %s", coqBcnParams(p), coqBool(err == nil)))
		case 1:
			got := k.GetParams(ctx)
			if got != params {
				mon.fail(opIx, "beacon GetParams returns %v, last stored %v", got, params)
			}
			add("get_params", "BoGetParams "+coqBcnParams(got))
		case 2:
			highest, hasHighest = id, true
			k.SetHighestBeaconID(ctx, id)
			add("set_highest", "BoSetHighest "+coqU(id))
		case 3:
			got, err := k.GetHighestBeaconID(ctx)
			if (err == nil) != hasHighest || (hasHighest && got != highest) {
				mon.fail(opIx, "GetHighestBeaconID returns %d (%v), last stored %d (stored: %v)", got, err, highest, hasHighest)
			}
			if err != nil {
				add("get_highest", "BoGetHighest None")
			} else {
				add("get_highest", "BoGetHighest (Some "+coqU(got)+")")
			}
		case 4, 5, 6:
			o := r.intn(6)
			b := bcntypes.Beacon{BeaconId: id, Moniker: randWord(r), Name: randWord(r), LastTimestampId: pickID(r), FirstIdInState: pickID(r) % 7, NumInState: uint64(r.intn(4)),
				RegTime: uint64(r.intn(1000)), Owner: c.addrOf(o).String()}
			if r.chance(1, 6) {
				b = bcntypes.Beacon{BeaconId: id, Owner: c.addrOf(o).String()} // (almost) all-zero message
			}
			if err := k.SetBeacon(ctx, b); err != nil {
				panic(err)
			}
			beacons[id] = b
			add("set_beacon", "BoSetBeacon "+coqBeacon(b, o))
		case 7, 8:
			got, found := k.GetBeacon(ctx, id)
			want, has := beacons[id]
			if found != has || (has && got != want) || (!has && got != (bcntypes.Beacon{})) {
				mon.fail(opIx, "GetBeacon(%d) returns (%v, %v), last stored (%v, %v)", id, got, found, want, has)
			}
			add("get_beacon", fmt.Sprintf("BoGetBeacon %s (%s, %s)", coqU(id), coqBeacon(got, ownerIx(got.Owner)), coqBool(found)))
		case 9:
			got := k.IsBeaconRegistered(ctx, id)
			if _, has := beacons[id]; got != has {
				mon.fail(opIx, "IsBeaconRegistered(%d) = %v, stored %v", id, got, has)
			}
			add("is_reg", fmt.Sprintf("BoIsReg %s %s", coqU(id), coqBool(got)))
		case 10:
			all := k.GetAllBeacons(ctx)
			want := sortedBeacons()
			if !sameBeacons(all, want) {
				mon.fail(opIx, "GetAllBeacons lists %d records, stored %d (ascending by id, each as last stored, expected)", len(all), len(want))
			}
			add("all_beacons", "BoAllBeacons "+beaconList(all))
			var two []bcntypes.Beacon
			k.IterateBeacons(ctx, func(b bcntypes.Beacon) bool { two = append(two, b); return len(two) >= 2 })
			if n := min(2, len(want)); !sameBeacons(two, want[:n]) {
				mon.fail(opIx, "IterateBeacons stopped after 2 does not give the first %d of the ascending listing", n)
			}
			add("beacons_stop", "BoBeaconsStop "+beaconList(two))
		case 11:
			l := pickID(r)
			if err := k.SetBeaconStorageLimit(ctx, id, l); err != nil {
				panic(err)
			}
			limits[id] = l
			add("set_limit", fmt.Sprintf("BoSetLimit %s %s", coqU(id), coqU(l)))
		case 12:
			got, found := k.GetBeaconStorageLimit(ctx, id)
			want, has := limits[id]
			if !has {
				want = bcntypes.DefaultStorageLimit
			}
			if found != has || got.InStateLimit != want || got.BeaconId != id {
				mon.fail(opIx, "GetBeaconStorageLimit(%d) returns (%v, %v), stored (%d, %v)", id, got, found, want, has)
			}
			if k.HasBeaconStorageLimit(ctx, id) != has {
				mon.fail(opIx, "HasBeaconStorageLimit(%d) disagrees with what was stored", id)
			}
			add("get_limit", fmt.Sprintf("BoGetLimit %s ((mk_go_BeaconStorageLimit %s %s), %s)", coqU(id), coqU(got.BeaconId), coqU(got.InStateLimit), coqBool(found)))
			add("has_limit", fmt.Sprintf("BoHasLimit %s %s", coqU(id), coqBool(has)))
		case 13, 14, 15:
			ts := bcntypes.BeaconTimestamp{TimestampId: t, SubmitTime: uint64(r.intn(1000)), Hash: randWord(r)}
			if r.chance(1, 8) {
				ts = bcntypes.BeaconTimestamp{TimestampId: t}
			}
			if err := k.SetBeaconTimestamp(ctx, id, ts); err != nil {
				panic(err)
			}
			stamps[tk{id, t}] = ts
			add("set_ts", fmt.Sprintf("BoSetTs %s %s", coqU(id), coqBcnTs(ts)))
		case 16:
			got, found := k.GetBeaconTimestampByID(ctx, id, t)
			want, has := stamps[tk{id, t}]
			if found != has || (has && got != want) || (!has && got != (bcntypes.BeaconTimestamp{})) {
				mon.fail(opIx, "GetBeaconTimestampByID(%d, %d) returns (%v, %v), stored (%v, %v)", id, t, got, found, want, has)
			}
			if k.IsBeaconTimestampRecordedByID(ctx, id, t) != has {
				mon.fail(opIx, "IsBeaconTimestampRecordedByID(%d, %d) disagrees with what was stored", id, t)
			}
			add("get_ts", fmt.Sprintf("BoGetTs %s %s (%s, %s)", coqU(id), coqU(t), coqBcnTs(got), coqBool(found)))
			add("is_recorded", fmt.Sprintf("BoIsRecorded %s %s %s", coqU(id), coqU(t), coqBool(has)))
		case 17, 18:
			all := k.GetAllBeaconTimestamps(ctx, id)
			want := sortedStamps(id)
			if !sameTs(all, want) {
				mon.fail(opIx, "GetAllBeaconTimestamps(%d) lists %d records, stored %d (ascending by timestamp id expected)", id, len(all), len(want))
			}
			add("all_ts", fmt.Sprintf("BoAllTs %s %s", coqU(id), tsList(all)))
			var rev []bcntypes.BeaconTimestamp
			k.IterateBeaconTimestampsReverse(ctx, id, func(b bcntypes.BeaconTimestamp) bool { rev = append(rev, b); return false })
			if len(rev) != len(want) {
				mon.fail(opIx, "IterateBeaconTimestampsReverse(%d) visits %d of %d records", id, len(rev), len(want))
			}
			for j := range rev {
				if len(rev) != len(want) || rev[j] != want[len(want)-1-j] {
					mon.fail(opIx, "IterateBeaconTimestampsReverse(%d) is not the descending listing", id)
					break
				}
			}
			add("ts_rev", fmt.Sprintf("BoTsRev %s %s", coqU(id), tsList(rev)))
		default:
			want := sortedStamps(id)
			var two []bcntypes.BeaconTimestamp
			k.IterateBeaconTimestamps(ctx, id, func(b bcntypes.BeaconTimestamp) bool { two = append(two, b); return len(two) >= 2 })
			if !sameTs(two, prefix(2, want)) {
				mon.fail(opIx, "IterateBeaconTimestamps(%d) stopped after 2 does not give the two lowest stored ids", id)
			}
			add("first_stop", fmt.Sprintf("BoFirstStop %s %s", coqU(id), tsList(two)))
			var one []bcntypes.BeaconTimestamp
			k.IterateBeaconTimestampsReverse(ctx, id, func(b bcntypes.BeaconTimestamp) bool { one = append(one, b); return true })
			if len(one) != min(1, len(want)) || (len(one) == 1 && one[0] != want[len(want)-1]) {
				mon.fail(opIx, "IterateBeaconTimestampsReverse(%d) stopped at the first does not give the highest stored id", id)
			}
			add("rev_stop", fmt.Sprintf("BoRevStop %s %s", coqU(id), tsList(one)))
		}
	}
	return ops
}

// ---- x/enterprise ----

// the address table of the enterprise histories: the six accounts of the chain plus addresses of other lengths
// (one byte; a byte-prefix of account 0; account 1 extended; 32 bytes; the 255-byte maximum).  Every address a
// history stores is one of these; the table is emitted in every cases file (index <-> bytes).
var entAddrs [][]byte
var entAddrDefs []string

func entTable(c *chain, r *rng) {
	if entAddrs != nil {
		return
	}
	for i := 0; i < 6; i++ {
		entAddrs = append(entAddrs, append([]byte{}, c.addrOf(i)...))
	}
	a0, a1 := entAddrs[0], entAddrs[1]
	entAddrs = append(entAddrs, []byte{7}, append([]byte{}, a0[:10]...), append(append([]byte{}, a1...), 0, 1))
	b32, b255 := make([]byte, 32), make([]byte, 255)
	for i := range b32 {
		b32[i] = byte(r.next())
	}
	for i := range b255 {
		b255[i] = byte(r.next())
	}
	entAddrs = append(entAddrs, b32, b255)
	var rows []string
	for i, a := range entAddrs {
		back, err := sdk.AccAddressFromBech32(sdk.AccAddress(a).String())
		if err != nil || !bytes.Equal(back, a) {
			panic(fmt.Sprintf("table address %d (%d bytes) does not survive String / AccAddressFromBech32: %v", i, len(a), err))
		}
		entAddrDefs = append(entAddrDefs, fmt.Sprintf("Definition ea_%d : list N := %s.", i, coqBytes(a)))
		rows = append(rows, fmt.Sprintf("(%d, ea_%d)", i, i))
	}
	entAddrDefs = append(entAddrDefs, "Definition addr_table : list (Z * list N) := ["+strings.Join(rows, "; ")+"].")
}

// the index of a string: "" is the empty address (go_zero_addr), the bech32 of a table address its index, anything
// else BAD_ADDR
func entIx(s string) int {
	if s == "" {
		return -100
	}
	for i, a := range entAddrs {
		if sdk.AccAddress(a).String() == s {
			return i
		}
	}
	return -999
}

func entRef(bz []byte) string {
	if len(bz) == 0 {
		return "[]"
	}
	for i, a := range entAddrs {
		if bytes.Equal(a, bz) {
			return fmt.Sprintf("ea_%d", i)
		}
	}
	return coqBytes(bz)
}

func coqCoin(c sdk.Coin) string {
	if c.Amount.IsNil() {
		return fmt.Sprintf("(%s, 0)", coqDenom(c.Denom))
	}
	return fmt.Sprintf("(%s, %s)", coqDenom(c.Denom), coqZ(c.Amount.BigInt()))
}

// EntSigners is a comma-separated list; the empty string is the empty list.  An empty element ("a," - strings.Split
// gives "") is the empty string, go_zero_addr.
func coqSigners(s string) string {
	if s == "" {
		return "[]"
	}
	var xs []string
	for _, a := range strings.Split(s, ",") {
		xs = append(xs, coqZi(int64(entIx(a))))
	}
	return "[" + strings.Join(xs, "; ") + "]"
}

func coqEntParams(p enttypes.Params) string {
	return fmt.Sprintf("(mk_go_Params %s %s %s %s)", coqSigners(p.EntSigners), coqDenom(p.Denom), coqU(p.MinAccepts), coqU(p.DecisionTimeLimit))
}

func coqPO(po enttypes.EnterpriseUndPurchaseOrder) string {
	var ds []string
	for _, d := range po.Decisions {
		ds = append(ds, fmt.Sprintf("(mk_go_PurchaseOrderDecision %s %s %s)", coqZi(int64(entIx(d.Signer))), coqZi(int64(d.Decision)), coqU(d.DecisionTime)))
	}
	return fmt.Sprintf("(mk_go_EnterpriseUndPurchaseOrder %s %s %s %s %s %s [%s])", coqU(po.Id), coqZi(int64(entIx(po.Purchaser))), coqCoin(po.Amount), coqZi(int64(po.Status)),
		coqU(po.RaiseTime), coqU(po.CompletionTime), strings.Join(ds, "; "))
}

func coqLocked(l enttypes.LockedUnd) string {
	return fmt.Sprintf("(mk_go_LockedUnd %s %s)", coqZi(int64(entIx(l.Owner))), coqCoin(l.Amount))
}

func coqSpent(l enttypes.SpentEFUND) string {
	return fmt.Sprintf("(mk_go_SpentEFUND %s %s)", coqZi(int64(entIx(l.Owner))), coqCoin(l.Amount))
}

func sortedKeysU(m map[uint64]bool) []uint64 {
	var ids []uint64
	for id := range m {
		ids = append(ids, id)
	}
	sort.Slice(ids, func(i, j int) bool { return ids[i] < ids[j] })
	return ids
}

func coqUList(xs []uint64) string {
	var out []string
	for _, x := range xs {
		out = append(out, coqU(x))
	}
	return "[" + strings.Join(out, "; ") + "]"
}

func sameU(a, b []uint64) bool {
	if len(a) != len(b) {
		return false
	}
	for i := range a {
		if a[i] != b[i] {
			return false
		}
	}
	return true
}

// one enterprise history; returns the Coq ops
func entStoreHistory(c *chain, r *rng, nops int, mon *storeMon, kinds map[string]int) []string {
	ctx, _ := c.ctx().CacheContext()
	k := c.app.EnterpriseKeeper
	entTable(c, r)
	var ops []string
	add := func(kind, s string) { ops = append(ops, s); kinds["ent."+kind]++ }
	// shadow state: values are kept as their Coq rendering (what the model must hold as well)
	var params enttypes.Params
	highest, hasHighest := uint64(0), false
	pos := map[uint64]string{}
	raised, accepted := map[uint64]bool{}, map[uint64]bool{}
	wl := map[string]bool{}
	var totalLocked, totalSpent *sdk.Coin
	locked, spent := map[string]string{}, map[string]string{}
	lockedPos := map[string]bool{}
	lockedAmt, spentAmt := map[string]string{}, map[string]string{}
	sortedAddrs := func(has func(string) bool) []string {
		var ks []string
		for _, a := range entAddrs {
			if has(string(a)) {
				ks = append(ks, string(a))
			}
		}
		sort.Slice(ks, func(i, j int) bool { return bytes.Compare([]byte(ks[i]), []byte(ks[j])) < 0 })
		return ks
	}
	zeroCoin := func() string { return fmt.Sprintf("(%s, 0)", coqDenom(params.Denom)) }
	randCoin := func(allowNeg bool) sdk.Coin {
		d := denoms[r.intn(len(denoms))]
		var x *big.Int
		switch r.intn(8) {
		case 0:
			x = big.NewInt(0)
		case 1:
			x = new(big.Int).Add(new(big.Int).Lsh(big.NewInt(1), 70), big.NewInt(int64(r.intn(1000))))
		case 2:
			x = big.NewInt(int64(r.intn(100000)))
			if allowNeg {
				x = big.NewInt(-1 - int64(r.intn(1000)))
			}
		default:
			x = big.NewInt(int64(1 + r.intn(1000000)))
		}
		return sdk.Coin{Denom: d, Amount: sdk.NewIntFromBigInt(x)}
	}
	// an owner / purchaser / signer string and (for documentation) whether it parses
	randOwner := func() string {
		switch r.intn(12) {
		case 0:
			return ""
		case 1:
			return []string{"not-an-address", "und1qqqqqqqqqqqqqqqqqqqqqqqqqqqqqqqq5x8kpX", "cosmos1qqqqqqqqqqqqqqqqqqqqqqqqqqqqqqqqnrql8a"}[r.intn(3)]
		}
		return sdk.AccAddress(entAddrs[r.intn(len(entAddrs))]).String()
	}
	pickAddr := func() []byte {
		if r.chance(1, 10) {
			return nil
		}
		return entAddrs[r.intn(len(entAddrs))]
	}
	validParams := func() enttypes.Params {
		n := 1 + r.intn(3)
		var ss []string
		for j := 0; j < n; j++ {
			ss = append(ss, sdk.AccAddress(entAddrs[r.intn(len(entAddrs))]).String())
		}
		return enttypes.Params{EntSigners: strings.Join(ss, ","), Denom: denoms[r.intn(len(denoms))], MinAccepts: uint64(1 + r.intn(n)), DecisionTimeLimit: 1 + r.next()>>uint(r.intn(64))}
	}
	setParams := func(p enttypes.Params) {
		err := k.SetParams(ctx, p)
		if err == nil {
			params = p
		}
		add("set_params", fmt.Sprintf("EoSetParams %s %s", coqEntParams(p), coqBool(err == nil)))
	}
	// the genesis of fixedCfg(): parameters, highest purchase order id, the whitelist, total locked, total spent
	gen := rawKeys(ctx, c, enttypes.StoreKey)
	gwl := k.GetAllWhitelistedAddresses(ctx)
	storeGenesisNotes["enterprise_genesis_keys"] = len(gen)
	storeGenesisNotes["enterprise_genesis_whitelist"] = len(gwl)
	if len(gen) != 4+len(gwl) || len(k.GetAllPurchaseOrders(ctx))+len(k.GetAllLockedUnds(ctx))+len(k.GetAllSpentEFUNDs(ctx))+len(k.GetAllRaisedPurchaseOrders(ctx))+len(k.GetAllAcceptedPurchaseOrders(ctx)) != 0 {
		panic(fmt.Sprintf("enterprise genesis store: expected params, highest id, totals and %d whitelist entries only, found %x", len(gwl), gen))
	}
	if r.chance(1, 2) {
		wipeStore(ctx, c, enttypes.StoreKey)
		kinds["ent.history_from_wiped_store"]++
		if _, ok := storeGenesisNotes["enterprise_GetTotalLockedUnd_on_store_without_params"]; !ok {
			// no parameters stored: the default coin has the empty denomination, which sdk.NewInt64Coin refuses
			res := "returns"
			if !safely(func() { k.GetTotalLockedUnd(ctx) }) {
				res = "panics"
			}
			storeGenesisNotes["enterprise_GetTotalLockedUnd_on_store_without_params"] = res
		}
		if _, err := k.GetHighestPurchaseOrderID(ctx); err == nil {
			mon.fail(0, "GetHighestPurchaseOrderID on the empty store does not err")
		}
		add("get_highest", "EoGetHighest None")
		got := k.GetParams(ctx)
		if got != (enttypes.Params{}) {
			mon.fail(1, "enterprise GetParams on the empty store returns %v", got)
		}
		add("get_params", "EoGetParams "+coqEntParams(got))
		if all := k.GetAllWhitelistedAddresses(ctx); len(all) != 0 {
			mon.fail(2, "whitelist of the empty store lists %d addresses", len(all))
		}
		add("wl_all", "EoWlAll []")
		setParams(validParams())
		if params.Denom == "" {
			panic("valid parameters refused")
		}
	} else {
		// re-play the genesis content through the keeper
		kinds["ent.history_from_genesis"]++
		gp := k.GetParams(ctx)
		setParams(gp)
		if params != gp {
			panic("genesis parameters refused")
		}
		gh, err := k.GetHighestPurchaseOrderID(ctx)
		if err != nil {
			panic(err)
		}
		k.SetHighestPurchaseOrderID(ctx, gh)
		highest, hasHighest = gh, true
		add("set_highest", "EoSetHighest "+coqU(gh))
		for _, s := range gwl {
			a, err := sdk.AccAddressFromBech32(s)
			if err != nil || entIx(s) < 0 {
				panic("genesis whitelist entry outside the address table: " + s)
			}
			if err := k.AddAddressToWhitelist(ctx, a); err != nil {
				panic(err)
			}
			wl[string(a)] = true
			add("wl_add", fmt.Sprintf("EoWlAdd %s true", entRef(a)))
		}
		tl, ts := k.GetTotalLockedUnd(ctx), k.GetTotalSpentEFUND(ctx)
		if err := k.SetTotalLockedUnd(ctx, tl); err != nil {
			panic(err)
		}
		totalLocked = &tl
		add("set_total_locked", "EoSetTotalLocked "+coqCoin(tl))
		if err := k.SetTotalSpentEFUND(ctx, ts); err != nil {
			panic(err)
		}
		totalSpent = &ts
		add("set_total_spent", "EoSetTotalSpent "+coqCoin(ts))
	}
	poList := func(ps []enttypes.EnterpriseUndPurchaseOrder) (string, []string) {
		var xs []string
		for _, p := range ps {
			xs = append(xs, coqPO(p))
		}
		return "[" + strings.Join(xs, "; ") + "]", xs
	}
	wantPOs := func() []string {
		m := map[uint64]bool{}
		for id := range pos {
			m[id] = true
		}
		var out []string
		for _, id := range sortedKeysU(m) {
			out = append(out, pos[id])
		}
		return out
	}
	sameS := func(a, b []string) bool {
		if len(a) != len(b) {
			return false
		}
		for i := range a {
			if a[i] != b[i] {
				return false
			}
		}
		return true
	}
	firstN := func(n int, xs []string) []string {
		if len(xs) < n {
			return xs
		}
		return xs[:n]
	}
	for i := 0; i < nops; i++ {
		opIx := len(ops)
		id := pickID(r)
		a := pickAddr()
		ar := entRef(a)
		switch r.intn(42) {
		case 0:
			p := validParams()
			switch r.intn(8) {
			case 0:
				p.Denom = []string{"", "1x", " "}[r.intn(3)]
			case 1:
				p.MinAccepts = 0
			case 2:
				p.DecisionTimeLimit = 0
			case 3:
				p.EntSigners = ""
			case 4:
				p.EntSigners += ",not-an-address"
			case 5:
				p.MinAccepts = uint64(len(strings.Split(p.EntSigners, ",")) + 1)
			case 6:
				if emptySignerElems {
					p.EntSigners += "," // an empty element
				}
			}
			setParams(p)
		case 1:
			got := k.GetParams(ctx)
			if got != params {
				mon.fail(opIx, "enterprise GetParams returns %v, last stored %v", got, params)
			}
			add("get_params", "EoGetParams "+coqEntParams(got))
		case 2:
			highest, hasHighest = id, true
			k.SetHighestPurchaseOrderID(ctx, id)
			add("set_highest", "EoSetHighest "+coqU(id))
		case 3:
			got, err := k.GetHighestPurchaseOrderID(ctx)
			if (err == nil) != hasHighest || (hasHighest && got != highest) {
				mon.fail(opIx, "GetHighestPurchaseOrderID returns %d (%v), last stored %d (stored: %v)", got, err, highest, hasHighest)
			}
			if err != nil {
				add("get_highest", "EoGetHighest None")
			} else {
				add("get_highest", "EoGetHighest (Some "+coqU(got)+")")
			}
		case 4, 5, 6, 7:
			po := enttypes.EnterpriseUndPurchaseOrder{Id: id, Purchaser: randOwner(), Amount: randCoin(r.chance(1, 4)), Status: enttypes.PurchaseOrderStatus(1 + r.intn(4)),
				RaiseTime: uint64(r.intn(100000)), CompletionTime: uint64(r.intn(3)) * pickID(r)}
			for j := r.intn(4); j > 0; j-- {
				po.Decisions = append(po.Decisions, enttypes.PurchaseOrderDecision{Signer: randOwner(), Decision: enttypes.PurchaseOrderStatus(r.intn(6)), DecisionTime: uint64(r.intn(100000))})
			}
			if r.chance(1, 5) {
				po.Status = enttypes.PurchaseOrderStatus([]int32{0, 5, -1, 99, 1 << 30}[r.intn(5)])
			}
			valid := po.Status >= 1 && po.Status <= 4
			err := k.SetPurchaseOrder(ctx, po)
			if (err == nil) != valid {
				mon.fail(opIx, "SetPurchaseOrder with status %d: error %v", po.Status, err)
			}
			if err == nil {
				pos[id] = coqPO(po)
			}
			add("set_po", fmt.Sprintf("EoSetPO %s %s", coqPO(po), coqBool(err == nil)))
		case 8, 9:
			got, found := k.GetPurchaseOrder(ctx, id)
			want, has := pos[id]
			if !has {
				want = coqPO(enttypes.EnterpriseUndPurchaseOrder{})
			}
			if found != has || coqPO(got) != want {
				mon.fail(opIx, "GetPurchaseOrder(%d) returns (%v, %v), last stored (%s, %v)", id, got, found, want, has)
			}
			if k.PurchaseOrderExists(ctx, id) != has {
				mon.fail(opIx, "PurchaseOrderExists(%d) disagrees with what was stored", id)
			}
			add("get_po", fmt.Sprintf("EoGetPO %s (%s, %s)", coqU(id), coqPO(got), coqBool(found)))
			add("po_exists", fmt.Sprintf("EoPOExists %s %s", coqU(id), coqBool(has)))
		case 10:
			txt, got := poList(k.GetAllPurchaseOrders(ctx))
			want := wantPOs()
			if !sameS(got, want) {
				mon.fail(opIx, "GetAllPurchaseOrders lists %d records, stored %d (ascending by id, each as last stored, expected)", len(got), len(want))
			}
			add("all_pos", "EoAllPOs "+txt)
			var two []enttypes.EnterpriseUndPurchaseOrder
			k.IteratePurchaseOrders(ctx, func(p enttypes.EnterpriseUndPurchaseOrder) bool { two = append(two, p); return len(two) >= 2 })
			txt2, got2 := poList(two)
			if !sameS(got2, firstN(2, want)) {
				mon.fail(opIx, "IteratePurchaseOrders stopped after 2 does not give the two lowest stored ids")
			}
			add("pos_stop", "EoPOsStop "+txt2)
		case 11, 12:
			k.AddPoToRaisedQueue(ctx, id)
			raised[id] = true
			add("add_raised", "EoAddRaised "+coqU(id))
		case 13:
			got := k.PurchaseOrderIsInRaisedQueue(ctx, id)
			if got != raised[id] {
				mon.fail(opIx, "PurchaseOrderIsInRaisedQueue(%d) = %v, shadow %v", id, got, raised[id])
			}
			add("in_raised", fmt.Sprintf("EoInRaised %s %s", coqU(id), coqBool(got)))
		case 14:
			k.RemovePurchaseOrderFromRaisedQueue(ctx, id)
			delete(raised, id)
			add("rem_raised", "EoRemRaised "+coqU(id))
		case 15:
			got := k.GetAllRaisedPurchaseOrders(ctx)
			want := sortedKeysU(raised)
			if !sameU(got, want) {
				mon.fail(opIx, "GetAllRaisedPurchaseOrders = %v, queued (ascending) %v", got, want)
			}
			add("all_raised", "EoAllRaised "+coqUList(got))
			var two []uint64
			k.IterateRaisedQueue(ctx, func(x uint64) bool { two = append(two, x); return len(two) >= 2 })
			if !sameU(two, want[:min(2, len(want))]) {
				mon.fail(opIx, "IterateRaisedQueue stopped after 2 = %v, queued (ascending) %v", two, want)
			}
			add("raised_stop", "EoRaisedStop "+coqUList(two))
		case 16, 17:
			k.AddPoToAcceptedQueue(ctx, id)
			accepted[id] = true
			add("add_accepted", "EoAddAccepted "+coqU(id))
		case 18:
			got := k.PurchaseOrderIsInAcceptedQueue(ctx, id)
			if got != accepted[id] {
				mon.fail(opIx, "PurchaseOrderIsInAcceptedQueue(%d) = %v, shadow %v", id, got, accepted[id])
			}
			add("in_accepted", fmt.Sprintf("EoInAccepted %s %s", coqU(id), coqBool(got)))
		case 19:
			k.RemovePurchaseOrderFromAcceptedQueue(ctx, id)
			delete(accepted, id)
			add("rem_accepted", "EoRemAccepted "+coqU(id))
		case 20:
			got := k.GetAllAcceptedPurchaseOrders(ctx)
			want := sortedKeysU(accepted)
			if !sameU(got, want) {
				mon.fail(opIx, "GetAllAcceptedPurchaseOrders = %v, queued (ascending) %v", got, want)
			}
			add("all_accepted", "EoAllAccepted "+coqUList(got))
			var one []uint64
			k.IterateAcceptedQueue(ctx, func(x uint64) bool { one = append(one, x); return true })
			if !sameU(one, want[:min(1, len(want))]) {
				mon.fail(opIx, "IterateAcceptedQueue stopped at the first = %v, queued (ascending) %v", one, want)
			}
			add("accepted_stop", "EoAcceptedStop "+coqUList(one))
		case 21, 22:
			err := k.AddAddressToWhitelist(ctx, a)
			if (err == nil) != (len(a) > 0) {
				mon.fail(opIx, "AddAddressToWhitelist(%s): error %v", hexShort(a), err)
			}
			if err == nil {
				wl[string(a)] = true
			}
			add("wl_add", fmt.Sprintf("EoWlAdd %s %s", ar, coqBool(err == nil)))
		case 23, 40:
			if r.chance(1, 5) {
				a, ar = nil, "[]"
			}
			err := k.RemoveAddressFromWhitelist(ctx, a)
			if (err == nil) != (len(a) > 0) {
				mon.fail(opIx, "RemoveAddressFromWhitelist(%s): error %v", hexShort(a), err)
			}
			if err == nil {
				delete(wl, string(a))
			}
			add("wl_remove", fmt.Sprintf("EoWlRemove %s %s", ar, coqBool(err == nil)))
		case 24:
			got := k.AddressIsWhitelisted(ctx, a)
			if got != wl[string(a)] {
				mon.fail(opIx, "AddressIsWhitelisted(%s) = %v, shadow %v", hexShort(a), got, wl[string(a)])
			}
			add("wl_is", fmt.Sprintf("EoWlIs %s %s", ar, coqBool(got)))
		case 25:
			got := k.GetAllWhitelistedAddresses(ctx)
			want := sortedAddrs(func(s string) bool { return wl[s] })
			var xs []string
			for j, s := range got {
				xs = append(xs, coqZi(int64(entIx(s))))
				if j >= len(want) || sdk.AccAddress(want[j]).String() != s {
					mon.fail(opIx, "GetAllWhitelistedAddresses entry %d is %s: not the ascending listing of the whitelisted addresses", j, s)
				}
			}
			if len(got) != len(want) {
				mon.fail(opIx, "GetAllWhitelistedAddresses lists %d of %d whitelisted addresses", len(got), len(want))
			}
			add("wl_all", "EoWlAll ["+strings.Join(xs, "; ")+"]")
			var two [][]byte
			k.IterateWhitelist(ctx, func(x sdk.AccAddress) bool { two = append(two, append([]byte{}, x...)); return len(two) >= 2 })
			var ys []string
			for j, x := range two {
				ys = append(ys, entRef(x))
				if j >= len(want) || want[j] != string(x) {
					mon.fail(opIx, "IterateWhitelist stopped after 2: entry %d is not the ascending listing", j)
				}
			}
			if len(two) != min(2, len(want)) {
				mon.fail(opIx, "IterateWhitelist stopped after 2 visits %d entries of %d", len(two), len(want))
			}
			add("wl_stop", "EoWlStop ["+strings.Join(ys, "; ")+"]")
		case 26:
			if r.chance(1, 2) { // mostly read: the default before any Set is the interesting answer
				got := coqCoin(k.GetTotalLockedUnd(ctx))
				want := zeroCoin()
				if totalLocked != nil {
					want = coqCoin(*totalLocked)
				}
				if got != want {
					mon.fail(opIx, "GetTotalLockedUnd = %s, expected %s (stored: %v)", got, want, totalLocked != nil)
				}
				add("get_total_locked", "EoGetTotalLocked "+got)
				break
			}
			cn := randCoin(r.chance(1, 4))
			if err := k.SetTotalLockedUnd(ctx, cn); err != nil {
				panic(err)
			}
			totalLocked = &cn
			add("set_total_locked", "EoSetTotalLocked "+coqCoin(cn))
		case 27:
			got := coqCoin(k.GetTotalLockedUnd(ctx))
			want := zeroCoin()
			if totalLocked != nil {
				want = coqCoin(*totalLocked)
			}
			if got != want {
				mon.fail(opIx, "GetTotalLockedUnd = %s, expected %s (stored: %v)", got, want, totalLocked != nil)
			}
			add("get_total_locked", "EoGetTotalLocked "+got)
		case 28:
			if r.chance(1, 2) {
				got := coqCoin(k.GetTotalSpentEFUND(ctx))
				want := zeroCoin()
				if totalSpent != nil {
					want = coqCoin(*totalSpent)
				}
				if got != want {
					mon.fail(opIx, "GetTotalSpentEFUND = %s, expected %s (stored: %v)", got, want, totalSpent != nil)
				}
				add("get_total_spent", "EoGetTotalSpent "+got)
				break
			}
			cn := randCoin(r.chance(1, 4))
			if err := k.SetTotalSpentEFUND(ctx, cn); err != nil {
				panic(err)
			}
			totalSpent = &cn
			add("set_total_spent", "EoSetTotalSpent "+coqCoin(cn))
		case 29:
			got := coqCoin(k.GetTotalSpentEFUND(ctx))
			want := zeroCoin()
			if totalSpent != nil {
				want = coqCoin(*totalSpent)
			}
			if got != want {
				mon.fail(opIx, "GetTotalSpentEFUND = %s, expected %s (stored: %v)", got, want, totalSpent != nil)
			}
			add("get_total_spent", "EoGetTotalSpent "+got)
		case 30, 31, 32:
			l := enttypes.LockedUnd{Owner: randOwner(), Amount: randCoin(r.chance(1, 2))}
			ix := entIx(l.Owner)
			err := k.SetLockedUndForAccount(ctx, l)
			if (err == nil) != (ix >= 0 && !l.Amount.IsNegative()) {
				mon.fail(opIx, "SetLockedUndForAccount(%v): error %v", l, err)
			}
			if err == nil {
				key := string(entAddrs[ix])
				locked[key], lockedAmt[key], lockedPos[key] = coqLocked(l), coqCoin(l.Amount), l.Amount.IsPositive()
			}
			add("set_locked", fmt.Sprintf("EoSetLocked %s %s", coqLocked(l), coqBool(err == nil)))
		case 33, 34:
			got := k.GetLockedUndForAccount(ctx, a)
			want, has := locked[string(a)]
			wantAmt, wantPos := lockedAmt[string(a)], lockedPos[string(a)]
			if !has {
				want = fmt.Sprintf("(mk_go_LockedUnd %s %s)", coqZi(int64(entIx(sdk.AccAddress(a).String()))), zeroCoin())
				wantAmt = zeroCoin()
			}
			if coqLocked(got) != want {
				mon.fail(opIx, "GetLockedUndForAccount(%s) = %s, expected %s (stored: %v)", hexShort(a), coqLocked(got), want, has)
			}
			add("get_locked", fmt.Sprintf("EoGetLocked %s %s", ar, coqLocked(got)))
			if g := k.AccountHasLockedUnd(ctx, a); g != has {
				mon.fail(opIx, "AccountHasLockedUnd(%s) = %v, stored %v", hexShort(a), g, has)
			}
			add("has_locked", fmt.Sprintf("EoHasLocked %s %s", ar, coqBool(has)))
			isl := k.IsLocked(ctx, a)
			if isl != wantPos {
				mon.fail(opIx, "IsLocked(%s) = %v, stored amount positive: %v", hexShort(a), isl, wantPos)
			}
			add("is_locked", fmt.Sprintf("EoIsLocked %s %s", ar, coqBool(isl)))
			amt := coqCoin(k.GetLockedUndAmountForAccount(ctx, a))
			if amt != wantAmt {
				mon.fail(opIx, "GetLockedUndAmountForAccount(%s) = %s, expected %s", hexShort(a), amt, wantAmt)
			}
			add("locked_amt", fmt.Sprintf("EoLockedAmt %s %s", ar, amt))
		case 35:
			all := k.GetAllLockedUnds(ctx)
			want := sortedAddrs(func(s string) bool { _, ok := locked[s]; return ok })
			var xs []string
			for j, l := range all {
				xs = append(xs, coqLocked(l))
				if j >= len(want) || locked[want[j]] != coqLocked(l) {
					mon.fail(opIx, "GetAllLockedUnds entry %d (%v) is not the ascending listing of what was stored", j, l)
				}
			}
			if len(all) != len(want) {
				mon.fail(opIx, "GetAllLockedUnds lists %d of %d stored records", len(all), len(want))
			}
			add("all_locked", "EoAllLocked ["+strings.Join(xs, "; ")+"]")
		case 36, 37:
			sp := enttypes.SpentEFUND{Owner: randOwner(), Amount: randCoin(r.chance(1, 4))}
			ix := entIx(sp.Owner)
			err := k.SetSpentEFUNDForAccount(ctx, sp)
			if (err == nil) != (ix >= 0) {
				mon.fail(opIx, "SetSpentEFUNDForAccount(%v): error %v", sp, err)
			}
			if err == nil {
				key := string(entAddrs[ix])
				spent[key], spentAmt[key] = coqSpent(sp), coqCoin(sp.Amount)
			}
			add("set_spent", fmt.Sprintf("EoSetSpent %s %s", coqSpent(sp), coqBool(err == nil)))
		case 38:
			got := k.GetSpentEFUNDForAccount(ctx, a)
			want, has := spent[string(a)]
			wantAmt := spentAmt[string(a)]
			if !has {
				want = fmt.Sprintf("(mk_go_SpentEFUND %s %s)", coqZi(int64(entIx(sdk.AccAddress(a).String()))), zeroCoin())
				wantAmt = zeroCoin()
			}
			if coqSpent(got) != want {
				mon.fail(opIx, "GetSpentEFUNDForAccount(%s) = %s, expected %s (stored: %v)", hexShort(a), coqSpent(got), want, has)
			}
			add("get_spent", fmt.Sprintf("EoGetSpent %s %s", ar, coqSpent(got)))
			if g := k.AccountHasSpentEFUND(ctx, a); g != has {
				mon.fail(opIx, "AccountHasSpentEFUND(%s) = %v, stored %v", hexShort(a), g, has)
			}
			add("has_spent", fmt.Sprintf("EoHasSpent %s %s", ar, coqBool(has)))
			amt := coqCoin(k.GetSpentEFUNDAmountForAccount(ctx, a))
			if amt != wantAmt {
				mon.fail(opIx, "GetSpentEFUNDAmountForAccount(%s) = %s, expected %s", hexShort(a), amt, wantAmt)
			}
			add("spent_amt", fmt.Sprintf("EoSpentAmt %s %s", ar, amt))
		default:
			all := k.GetAllSpentEFUNDs(ctx)
			want := sortedAddrs(func(s string) bool { _, ok := spent[s]; return ok })
			var xs []string
			for j, l := range all {
				xs = append(xs, coqSpent(l))
				if j >= len(want) || spent[want[j]] != coqSpent(l) {
					mon.fail(opIx, "GetAllSpentEFUNDs entry %d (%v) is not the ascending listing of what was stored", j, l)
				}
			}
			if len(all) != len(want) {
				mon.fail(opIx, "GetAllSpentEFUNDs lists %d of %d stored records", len(all), len(want))
			}
			add("all_spent", "EoAllSpent ["+strings.Join(xs, "; ")+"]")
		}
	}
	return ops
}

// enterprise parameters whose signer list has an EMPTY element ("addr," - strings.Split gives ""), rendered as
// go_zero_addr (the model's empty string) are generated too: the real validation refuses them
// (sdk.AccAddressFromBech32("") errs).  This input exposed that the hand-written ent_AccAddressFromBech32 accepted the
// empty string; the model was corrected (addr_parses, model/Enterprise.v).  VERIF_STORE_EMPTY_SIGNER=0 switches it off.
var emptySignerElems = os.Getenv("VERIF_STORE_EMPTY_SIGNER") != "0"

// guardedHistory: a panic of a keeper accessor on a generated (legal) operation sequence is an observation, not a
// harness crash: it is reported as a failure of the property on the implementation.
func guardedHistory(mon *storeMon, name string, f func() []string) (ops []string) {
	defer func() {
		if e := recover(); e != nil {
			mon.fail(-1, fmt.Sprintf("%s: a keeper store accessor panicked on a generated operation sequence (what one entity stored was read as another?): %v", name, e))
			ops = nil
		}
	}()
	return f()
}

func cmdStore(args []string) {
	fs := flag.NewFlagSet("store", flag.ExitOnError)
	out := fs.String("out", ".", "output directory")
	n := fs.Int("n", 60, "histories per module")
	nops := fs.Int("ops", 60, "operations per history")
	per := fs.Int("shard", 20, "histories per Coq file")
	fs.Parse(args)
	r := newRng(seedFromEnv())
	c := newChain(fixedCfg())
	defer c.close()
	if p := c.begin(2 * time.Second); p != nil {
		panic(p)
	}
	kinds := map[string]int{}
	mon := &storeMon{}
	var files []string
	var samples []string
	total, distinct := 0, map[string]bool{}
	emit := func(prefix, imports, fn string, hists [][]string, defs []string) {
		var items []string
		for _, h := range hists {
			items = append(items, "["+strings.Join(h, ";\n   ")+"]")
			total += len(h)
			for _, o := range h {
				distinct[o] = true
			}
		}
		for i, sh := range shard(items, *per) {
			name := fmt.Sprintf("cases_store_%s_%d.v", prefix, i)
			var sb strings.Builder
			sb.WriteString("From Coq Require Import String NArith.\nFrom MC Require Import lib.Prelude lib.GoSdk " + imports + ".\nOpen Scope Z_scope.\nOpen Scope string_scope.\n")
			sb.WriteString(strings.Join(defs, "\n") + "\n")
			sb.WriteString("Definition cases :=\n " + coqList(sh) + ".\n")
			sb.WriteString("Definition bad_corr := Eval vm_compute in " + fn + " cases.\nPrint bad_corr.\n")
			sb.WriteString("Definition bad_mon : list nat := [].\nPrint bad_mon.\n")
			writeFile(filepath.Join(*out, name), sb.String())
			files = append(files, name)
		}
	}
	var wh, sh, bh, eh [][]string
	for i := 0; i < *n; i++ {
		mon.hist = i
		wh = append(wh, guardedHistory(mon, "wrkStoreHistory", func() []string { return wrkStoreHistory(c, r, *nops, mon, kinds) }))
	}
	for i := 0; i < *n; i++ {
		mon.hist = *n + i
		sh = append(sh, guardedHistory(mon, "strStoreHistory", func() []string { return strStoreHistory(c, r, *nops, mon, kinds) }))
	}
	for i := 0; i < *n; i++ {
		mon.hist = 2**n + i
		bh = append(bh, guardedHistory(mon, "bcnStoreHistory", func() []string { return bcnStoreHistory(c, r, *nops, mon, kinds) }))
	}
	for i := 0; i < *n; i++ {
		mon.hist = 3**n + i
		eh = append(eh, guardedHistory(mon, "entStoreHistory", func() []string { return entStoreHistory(c, r, *nops, mon, kinds) }))
	}
	emit("wrk", "GeneratedWrkchainTypes model.StoreCheckWrk", "wst_bad_corr", wh, nil)
	emit("str", "GeneratedStreamTypes model.StoreCheckStr", "sst_bad_corr", sh, strAddrDefs)
	emit("bcn", "GeneratedBeaconTypes model.StoreCheckBcn", "bst_bad_corr", bh, nil)
	emit("ent", "GeneratedEnterpriseTypes model.StoreCheckEnt", "est_bad_corr addr_table", eh, entAddrDefs)
	if len(wh) > 0 && len(wh[0]) > 3 {
		samples = append(samples, wh[0][2], wh[0][3])
	}
	if len(sh) > 0 && len(sh[0]) > 3 {
		samples = append(samples, sh[0][2], sh[0][3])
	}
	if len(bh) > 0 && len(bh[0]) > 3 {
		samples = append(samples, bh[0][2], bh[0][3])
	}
	if len(eh) > 0 && len(eh[0]) > 3 {
		samples = append(samples, eh[0][2], eh[0][3])
	}
	kinds["genesis_import.reads"] = genesisImportIsolation(c, mon)
	kinds["str.list_queries_on_prefix_like_addresses"] = streamQueriesAgainstKeys(c, mon)
	func() {
		defer func() {
			if r := recover(); r != nil {
				mon.fail(-1, "the retention path panicked with several registrations at their limit: %v", r)
			}
		}()
		kinds["retention.isolation_checks"] = pruningIsolation(c, mon)
	}()
	writeJSON(filepath.Join(*out, "stats_store.json"), map[string]interface{}{
		"files": files, "evaluations": total, "distinct_nontrivial": len(distinct),
		"rule":          "(x/beacon and x/enterprise: see rule_bcn_ent) sequences of real keeper store-accessor calls of x/wrkchain (params, highest id, WRKChains, storage limits, block records: set / get / has / listings ascending, descending, paginated, early stop, lowest height in state) and x/stream (params, streams keyed by address pairs of 1..255 bytes incl. byte-prefixes of one another: set / get / is / delete / listing with the pair parsed from the key, unencodable times) on a cached context of the real application; ids and heights from a boundary pool (1..4, 2^8, 2^16, 2^32, 2^63, 2^64-1); the translated accessors replay each sequence from the empty store (vm_compute) and a Go shadow map decides read-your-write / non-interference / listing completeness on the implementation",
		"distribution":  map[string]interface{}{"by_kind": kinds, "histories_per_module": *n, "ops_per_history": *nops},
		"rule_bcn_ent":  "x/beacon (params valid / refused, highest id, beacons, storage limits, timestamps: set / get / is-recorded / listings ascending, descending, early stop) and x/enterprise (params valid / refused, highest purchase order id, purchase orders incl. refused statuses, raised and accepted queues, whitelist incl. the empty address, total locked / spent incl. the default before any Set, locked / spent per account incl. refused owners and negative amounts, defaults for accounts with nothing stored) the same way; half of the histories start from the wiped module store (nothing set: the defaults show), the other half re-play the genesis content of the store through the keeper; enterprise addresses come from a table of 11 addresses of 1..255 bytes (the six accounts, a byte-prefix and an extension of one of them) emitted with the cases",
		"genesis_notes": storeGenesisNotes,
		"samples":       samples, "go_monitor_failures": append([]monFailure{}, mon.fails...),
	})
}

// genesisImportIsolation (C18): InitGenesis of the two registry modules writes several records per registration in one
// go; every record must afterwards be read back under its own (id, height / timestamp id) and the listing must hold
// all of them, ascending - on the cached context the import ran in and after its writes were flushed to the parent.
func genesisImportIsolation(c *chain, mon *storeMon) int {
	heights := []uint64{1, 2, 255, 256, 65536, 1 << 63, 1<<64 - 1}
	checks := 0
	parent, _ := c.ctx().CacheContext()
	func() {
		defer func() {
			if e := recover(); e != nil {
				mon.fail(-1, fmt.Sprintf("genesis import of several records per registration panicked: %v", e))
			}
		}()
		ctx, write := parent.CacheContext()
		wipeStore(ctx, c, wrktypes.StoreKey)
		wipeStore(ctx, c, bcntypes.StoreKey)
		wg := wrktypes.GenesisState{Params: wrktypes.NewParams(1000, 10, 5, "nund", 50, 600000), StartingWrkchainId: 1<<64 - 1}
		bg := bcntypes.GenesisState{Params: bcntypes.NewParams(1000, 10, 5, "nund", 50, 600000), StartingBeaconId: 1<<64 - 1}
		ids := []uint64{1, 2, 1<<64 - 2}
		for _, id := range ids {
			we := wrktypes.WrkChainExport{Wrkchain: wrktypes.WrkChain{WrkchainId: id, Moniker: fmt.Sprintf("w%d", id), Name: "n", Genesis: "g", Type: "t", Lastblock: heights[len(heights)-1],
				NumBlocks: uint64(len(heights)), LowestHeight: heights[0], RegTime: 7, Owner: c.addrOf(1).String()}, InStateLimit: 50}
			be := bcntypes.BeaconExport{Beacon: bcntypes.Beacon{BeaconId: id, Moniker: fmt.Sprintf("b%d", id), Name: "n", LastTimestampId: heights[len(heights)-1], FirstIdInState: heights[0],
				NumInState: uint64(len(heights)), RegTime: 7, Owner: c.addrOf(1).String()}, InStateLimit: 50}
			for _, h := range heights {
				we.Blocks = append(we.Blocks, wrktypes.WrkChainBlockGenesisExport{He: h, Bh: fmt.Sprintf("bh-%d-%d", id, h), Ph: "p", St: 3})
				be.Timestamps = append(be.Timestamps, bcntypes.BeaconTimestampGenesisExport{Id: h, T: 5, H: fmt.Sprintf("h-%d-%d", id, h)})
			}
			wg.RegisteredWrkchains = append(wg.RegisteredWrkchains, we)
			bg.RegisteredBeacons = append(bg.RegisteredBeacons, be)
		}
		wrkchain.InitGenesis(ctx, c.app.WrkchainKeeper, wg)
		beacon.InitGenesis(ctx, c.app.BeaconKeeper, bg)
		verify := func(where string, x sdk.Context) {
			for _, id := range ids {
				for _, h := range heights {
					checks++
					if b, ok := c.app.WrkchainKeeper.GetWrkChainBlock(x, id, h); !ok || b.Height != h || b.Blockhash != fmt.Sprintf("bh-%d-%d", id, h) {
						mon.fail(-1, fmt.Sprintf("genesis import (%s): WRKChain %d height %d reads back as (%v, found %v): records of one import alias each other", where, id, h, b, ok))
					}
					if t, ok := c.app.BeaconKeeper.GetBeaconTimestampByID(x, id, h); !ok || t.TimestampId != h || t.Hash != fmt.Sprintf("h-%d-%d", id, h) {
						mon.fail(-1, fmt.Sprintf("genesis import (%s): BEACON %d timestamp %d reads back as (%v, found %v): records of one import alias each other", where, id, h, t, ok))
					}
				}
				if n := len(c.app.WrkchainKeeper.GetAllWrkChainBlockHashes(x, id)); n != len(heights) {
					mon.fail(-1, fmt.Sprintf("genesis import (%s): WRKChain %d lists %d of %d imported records", where, id, n, len(heights)))
				}
				if n := len(c.app.BeaconKeeper.GetAllBeaconTimestamps(x, id)); n != len(heights) {
					mon.fail(-1, fmt.Sprintf("genesis import (%s): BEACON %d lists %d of %d imported timestamps", where, id, n, len(heights)))
				}
			}
			if n := len(c.app.WrkchainKeeper.GetAllWrkChains(x)); n != len(ids) {
				mon.fail(-1, fmt.Sprintf("genesis import (%s): %d of %d imported WRKChains listed", where, n, len(ids)))
			}
		}
		verify("in the importing context", ctx)
		write()
		verify("after flushing to the parent context", parent)
	}()
	return checks
}

// streamQueriesAgainstKeys (C18): the three stream list queries receive keys of a PREFIX store (without the 0x11 module
// prefix) and parse the address pair back out of them.  Streams are written through the keeper between addresses whose
// LENGTH is the value of a store prefix byte (17 = 0x11, 1, 2, 16, 18), whose first byte is one, and of 1 / 20 / 32 / 255
// bytes; every query answer must name exactly the pairs that were written, each once.
func streamQueriesAgainstKeys(c *chain, mon *storeMon) int {
	ctx, _ := c.ctx().CacheContext()
	wipeStore(ctx, c, strtypes.StoreKey)
	k := c.app.StreamKeeper
	k.SetParams(ctx, strtypes.DefaultParams())
	mkAddr := func(n int, first byte) sdk.AccAddress {
		a := make([]byte, n)
		for i := range a {
			a[i] = byte(31*i + n)
		}
		a[0] = first
		return a
	}
	var addrs []sdk.AccAddress
	for _, n := range []int{1, 2, 16, 17, 18, 20, 32, 255} {
		addrs = append(addrs, mkAddr(n, 0x11), mkAddr(n, byte(n)))
	}
	want := map[string]bool{}
	for i, ra := range addrs {
		for j, sa := range addrs {
			if i == j || (i+2*j)%3 != 0 {
				continue
			}
			if err := k.SetStream(ctx, ra, sa, strtypes.Stream{Deposit: sdk.NewInt64Coin("nund", int64(1+i)), FlowRate: int64(1 + j), LastOutflowTime: c.now, DepositZeroTime: c.now}); err != nil {
				continue
			}
			want[ra.String()+"|"+sa.String()] = true
		}
	}
	gctx := sdk.WrapSDKContext(ctx)
	n := 0
	check := func(name string, got []*strtypes.StreamResult, err error, keep func(r, s string) bool) {
		n++
		if err != nil {
			mon.fail(-1, "stream query %s fails on streams between addresses of 1..255 bytes: %v", name, err)
			return
		}
		seen := map[string]bool{}
		for _, x := range got {
			p := x.Receiver + "|" + x.Sender
			if !want[p] || seen[p] {
				mon.fail(-1, "stream query %s reports a stream of (receiver %s, sender %s): no stream was stored for that pair (or it is reported twice) - the pair parsed out of the store key is not the one the key was built from", name, x.Receiver, x.Sender)
				return
			}
			seen[p] = true
		}
		for p := range want {
			rs := strings.SplitN(p, "|", 2)
			if keep(rs[0], rs[1]) && !seen[p] {
				mon.fail(-1, "stream query %s omits the stored stream of (receiver %s, sender %s)", name, rs[0], rs[1])
				return
			}
		}
	}
	func() {
		defer func() {
			if r := recover(); r != nil {
				mon.fail(-1, "a stream list query panics on streams between addresses of 1..255 bytes: %v", r)
			}
		}()
		all := &query.PageRequest{Limit: 10000}
		res, err := k.Streams(gctx, &strtypes.QueryStreamsRequest{Pagination: all})
		var got []*strtypes.StreamResult
		if res != nil {
			got = res.Streams
		}
		check("Streams", got, err, func(string, string) bool { return true })
		for _, a := range addrs {
			who := a.String()
			rs, err := k.AllStreamsForSender(gctx, &strtypes.QueryAllStreamsForSenderRequest{SenderAddr: who, Pagination: all})
			got = nil
			if rs != nil {
				got = rs.Streams
			}
			check("AllStreamsForSender("+who+")", got, err, func(_, s string) bool { return s == who })
			rr, err := k.AllStreamsForReceiver(gctx, &strtypes.QueryAllStreamsForReceiverRequest{ReceiverAddr: who, Pagination: all})
			got = nil
			if rr != nil {
				got = rr.Streams
			}
			check("AllStreamsForReceiver("+who+")", got, err, func(r, _ string) bool { return r == who })
		}
	}()
	return n
}

// pruningIsolation (C18): the retention path deletes records.  Three BEACONs and three WRKChains with an in-state limit
// of 3 record six entries each, interleaved, through the keepers' record functions; after every record the set each
// registration holds - read back one by one and through its listing - must be exactly its own newest three, whatever
// the other registrations pruned.
func pruningIsolation(c *chain, mon *storeMon) int {
	ctx, _ := c.ctx().CacheContext()
	n := 0
	bk, wk := c.app.BeaconKeeper, c.app.WrkchainKeeper
	bp := bk.GetParams(ctx)
	bp.DefaultStorageLimit, bp.MaxStorageLimit = 3, 10
	bk.SetParams(ctx, bp)
	wp := wk.GetParams(ctx)
	wp.DefaultStorageLimit, wp.MaxStorageLimit = 3, 10
	wk.SetParams(ctx, wp)
	var bids, wids []uint64
	for i := 0; i < 3; i++ {
		id, err := bk.RegisterNewBeacon(ctx, bcntypes.Beacon{Moniker: fmt.Sprintf("pb%d", i), Name: "n", Owner: c.addrOf(i).String()})
		if err != nil {
			return n
		}
		bids = append(bids, id)
		wid, err := wk.RegisterNewWrkChain(ctx, fmt.Sprintf("pw%d", i), "n", "g", "t", c.addrOf(i))
		if err != nil {
			return n
		}
		wids = append(wids, wid)
	}
	shadowB, shadowW := map[uint64]map[uint64]string{}, map[uint64]map[uint64]string{}
	check := func(step string) {
		n++
		for _, id := range bids {
			var listed []uint64
			for _, t := range bk.GetAllBeaconTimestamps(ctx, id) {
				listed = append(listed, t.TimestampId)
			}
			if len(listed) != len(shadowB[id]) {
				mon.fail(-1, "%s: BEACON %d lists %d timestamps %v, it holds %d of its own", step, id, len(listed), listed, len(shadowB[id]))
			}
			for ts, h := range shadowB[id] {
				got, ok := bk.GetBeaconTimestampByID(ctx, id, ts)
				if !ok || got.Hash != h {
					mon.fail(-1, "%s: timestamp %d of BEACON %d is read back as (%v, %q), it was recorded as %q and is among that BEACON's newest three - another registration's pruning removed or replaced it", step, ts, id, ok, got.Hash, h)
				}
			}
		}
		for _, id := range wids {
			var listed []uint64
			for _, b := range wk.GetAllWrkChainBlockHashes(ctx, id) {
				listed = append(listed, b.Height)
			}
			if len(listed) != len(shadowW[id]) {
				mon.fail(-1, "%s: WRKChain %d lists %d block records %v, it holds %d of its own", step, id, len(listed), listed, len(shadowW[id]))
			}
			for h, bh := range shadowW[id] {
				got, ok := wk.GetWrkChainBlock(ctx, id, h)
				if !ok || got.Blockhash != bh {
					mon.fail(-1, "%s: height %d of WRKChain %d is read back as (%v, %q), it was recorded as %q and is among that WRKChain's newest three - another registration's pruning removed or replaced it", step, h, id, ok, got.Blockhash, bh)
				}
			}
		}
	}
	prune := func(m map[uint64]string) {
		for len(m) > 3 {
			lo := uint64(1<<64 - 1)
			for k := range m {
				if k < lo {
					lo = k
				}
			}
			delete(m, lo)
		}
	}
	for round := 1; round <= 6; round++ {
		for i := 2; i >= 0; i-- { // highest id first, so that a higher registration prunes while lower ones hold records
			bid, wid := bids[i], wids[i]
			hash := fmt.Sprintf("b%d-%d", bid, round)
			tsID, _, err := bk.RecordNewBeaconTimestamp(ctx, bid, hash, uint64(1000+round))
			if err == nil {
				if shadowB[bid] == nil {
					shadowB[bid] = map[uint64]string{}
				}
				shadowB[bid][tsID] = hash
				prune(shadowB[bid])
			}
			check(fmt.Sprintf("after timestamp %d of BEACON %d", round, bid))
			bh := fmt.Sprintf("w%d-%d", wid, round)
			if _, err := wk.RecordNewWrkchainHashes(ctx, wid, uint64(10*round), bh, "p", "", "", ""); err == nil {
				if shadowW[wid] == nil {
					shadowW[wid] = map[uint64]string{}
				}
				shadowW[wid][uint64(10*round)] = bh
				prune(shadowW[wid])
			}
			check(fmt.Sprintf("after height %d of WRKChain %d", 10*round, wid))
		}
	}
	return n
}
