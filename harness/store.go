package main

import (
	"flag"
	"fmt"
	"math/big"
	"path/filepath"
	"sort"
	"strings"
	"time"

	sdk "github.com/cosmos/cosmos-sdk/types"

	strtypes "github.com/unification-com/mainchain/x/stream/types"
	wrktypes "github.com/unification-com/mainchain/x/wrkchain/types"
)

// C18 (store level): sequences of REAL keeper store-accessor calls (x/wrkchain, x/stream) on a cached context of the
// real application.  Every call and what it returned is written as a Coq term; model/StoreCheck{Wrk,Str}.v run the
// TRANSLATED accessors (Generated*Store.v) over the store model (model/KVStore.v) on the same sequence from the empty
// store.  Independently of the model, a shadow map kept here decides the property on the implementation: every read
// returns what was last written under that logical key, a write never changes the read of another key, listings are
// complete, duplicate-free and ascending.

func coqU(x uint64) string { return new(big.Int).SetUint64(x).String() }

var storeIDs = []uint64{1, 2, 3, 0, 4, 255, 256, 257, 65536, 1 << 32, 1<<63 - 1, 1 << 63, 1<<64 - 2, 1<<64 - 1}

func pickID(r *rng) uint64 {
	if r.chance(3, 4) {
		return storeIDs[r.intn(7)]
	}
	return storeIDs[r.intn(len(storeIDs))]
}

func randWord(r *rng) string {
	const al = "abcdefghijklmnopqrstuvwxyz0123456789"
	n := r.intn(9)
	b := make([]byte, n)
	for i := range b {
		b[i] = al[r.intn(len(al))]
	}
	return string(b)
}

func coqWrkChain(w wrktypes.WrkChain, owner int) string {
	return fmt.Sprintf("(mk_go_WrkChain %s %s %s %s %s %s %s %s %s %s)", coqU(w.WrkchainId), coqString(w.Moniker), coqString(w.Name), coqString(w.Genesis), coqString(w.Type),
		coqU(w.Lastblock), coqU(w.NumBlocks), coqU(w.LowestHeight), coqU(w.RegTime), coqZi(int64(owner)))
}

func coqWrkBlock(b wrktypes.WrkChainBlock) string {
	return fmt.Sprintf("(mk_go_WrkChainBlock %s %s %s %s %s %s %s)", coqU(b.Height), coqString(b.Blockhash), coqString(b.Parenthash), coqString(b.Hash1), coqString(b.Hash2), coqString(b.Hash3), coqU(b.SubTime))
}

func coqWrkParams(p wrktypes.Params) string {
	return fmt.Sprintf("(mk_go_Params %s %s %s %d %s %s)", coqU(p.FeeRegister), coqU(p.FeeRecord), coqU(p.FeePurchaseStorage), denomIndex(p.Denom), coqU(p.DefaultStorageLimit), coqU(p.MaxStorageLimit))
}

type storeMon struct {
	fails []monFailure
	hist  int
}

func (m *storeMon) fail(op int, format string, a ...interface{}) {
	m.fails = append(m.fails, monFailure{Property: "C18", OpIndex: op, History: m.hist, What: "store accessors: " + fmt.Sprintf(format, a...)})
}

// one wrkchain history; returns the Coq ops
func wrkStoreHistory(c *chain, r *rng, nops int, mon *storeMon, kinds map[string]int) []string {
	ctx, _ := c.ctx().CacheContext()
	k := c.app.WrkchainKeeper
	var ops []string
	add := func(kind, s string) { ops = append(ops, s); kinds["wrk."+kind]++ }
	// shadow state
	chains := map[uint64]wrktypes.WrkChain{}
	owners := map[uint64]int{}
	limits := map[uint64]uint64{}
	type bk struct{ id, h uint64 }
	blocks := map[bk]wrktypes.WrkChainBlock{}
	ownerIx := func(s string) int {
		for i := 0; i < 6; i++ {
			if c.addrOf(i).String() == s {
				return i
			}
		}
		return -100
	}
	params := wrktypes.NewParams(1000, 10, 5, "nund", 50000, 600000)
	if err := k.SetParams(ctx, params); err != nil {
		panic(err)
	}
	add("set_params", "WoSetParams "+coqWrkParams(params)+" true")
	k.SetHighestWrkChainID(ctx, 1)
	add("set_highest", "WoSetHighest 1")
	highest := uint64(1)
	sortedBlocks := func(id uint64) []wrktypes.WrkChainBlock {
		var hs []uint64
		for key := range blocks {
			if key.id == id {
				hs = append(hs, key.h)
			}
		}
		sort.Slice(hs, func(i, j int) bool { return hs[i] < hs[j] })
		var out []wrktypes.WrkChainBlock
		for _, h := range hs {
			out = append(out, blocks[bk{id, h}])
		}
		return out
	}
	blockList := func(bs []wrktypes.WrkChainBlock) string {
		var xs []string
		for _, b := range bs {
			xs = append(xs, coqWrkBlock(b))
		}
		return "[" + strings.Join(xs, "; ") + "]"
	}
	sameBlocks := func(a, b []wrktypes.WrkChainBlock) bool {
		if len(a) != len(b) {
			return false
		}
		for i := range a {
			if a[i] != b[i] {
				return false
			}
		}
		return true
	}
	for i := 0; i < nops; i++ {
		opIx := len(ops)
		id, h := pickID(r), pickID(r)
		switch r.intn(20) {
		case 0:
			p := wrktypes.NewParams(r.next()>>uint(r.intn(64)), r.next()>>uint(r.intn(64)), r.next()>>uint(r.intn(64)), denoms[r.intn(len(denoms))], uint64(r.intn(5)), uint64(r.intn(8)))
			err := k.SetParams(ctx, p)
			if err == nil {
				params = p
			}
			add("set_params", fmt.Sprintf("WoSetParams %s %s", coqWrkParams(p), coqBool(err == nil)))
		case 1:
			got := k.GetParams(ctx)
			if got != params {
				mon.fail(opIx, "wrkchain GetParams returns %v, last stored %v", got, params)
			}
			add("get_params", "WoGetParams "+coqWrkParams(got))
		case 2:
			highest = id
			k.SetHighestWrkChainID(ctx, id)
			add("set_highest", "WoSetHighest "+coqU(id))
		case 3:
			got, err := k.GetHighestWrkChainID(ctx)
			if err != nil || got != highest {
				mon.fail(opIx, "GetHighestWrkChainID returns %d (%v), last stored %d", got, err, highest)
			}
			if err != nil {
				add("get_highest", "WoGetHighest None")
			} else {
				add("get_highest", "WoGetHighest (Some "+coqU(got)+")")
			}
		case 4, 5, 6:
			o := r.intn(6)
			wc := wrktypes.WrkChain{WrkchainId: id, Moniker: randWord(r), Name: randWord(r), Genesis: randWord(r), Type: randWord(r), Lastblock: pickID(r) % 7, NumBlocks: uint64(r.intn(4)),
				LowestHeight: uint64(r.intn(3)), RegTime: uint64(r.intn(1000)), Owner: c.addrOf(o).String()}
			if r.chance(1, 6) {
				wc = wrktypes.WrkChain{WrkchainId: id, Owner: c.addrOf(o).String()} // (almost) all-zero message
			}
			if err := k.SetWrkChain(ctx, wc); err != nil {
				panic(err)
			}
			chains[id], owners[id] = wc, o
			add("set_chain", "WoSetChain "+coqWrkChain(wc, o))
		case 7, 8:
			got, found := k.GetWrkChain(ctx, id)
			want, has := chains[id]
			if found != has || (has && got != want) {
				mon.fail(opIx, "GetWrkChain(%d) returns (%v, %v), last stored (%v, %v)", id, got, found, want, has)
			}
			add("get_chain", fmt.Sprintf("WoGetChain %s (%s, %s)", coqU(id), coqWrkChain(got, ownerIx(got.Owner)), coqBool(found)))
		case 9:
			got := k.IsWrkChainRegistered(ctx, id)
			if _, has := chains[id]; got != has {
				mon.fail(opIx, "IsWrkChainRegistered(%d) = %v, stored %v", id, got, has)
			}
			add("is_reg", fmt.Sprintf("WoIsReg %s %s", coqU(id), coqBool(got)))
		case 10:
			all := k.GetAllWrkChains(ctx)
			var xs []string
			for j, wc := range all {
				xs = append(xs, coqWrkChain(wc, ownerIx(wc.Owner)))
				if want, has := chains[wc.WrkchainId]; !has || want != wc {
					mon.fail(opIx, "GetAllWrkChains lists %v which is not what is stored under its id", wc)
				}
				if j > 0 && all[j-1].WrkchainId >= wc.WrkchainId {
					mon.fail(opIx, "GetAllWrkChains not strictly ascending / duplicate at id %d", wc.WrkchainId)
				}
			}
			if len(all) != len(chains) {
				mon.fail(opIx, "GetAllWrkChains lists %d of %d stored WRKChains", len(all), len(chains))
			}
			add("all_chains", "WoAllChains ["+strings.Join(xs, "; ")+"]")
		case 11:
			l := pickID(r)
			if err := k.SetWrkChainStorageLimit(ctx, id, l); err != nil {
				panic(err)
			}
			limits[id] = l
			add("set_limit", fmt.Sprintf("WoSetLimit %s %s", coqU(id), coqU(l)))
		case 12:
			got, found := k.GetWrkChainStorageLimit(ctx, id)
			want, has := limits[id]
			if !has {
				want = wrktypes.DefaultStorageLimit
			}
			if found != has || got.InStateLimit != want || got.WrkchainId != id {
				mon.fail(opIx, "GetWrkChainStorageLimit(%d) returns (%v, %v), stored (%d, %v)", id, got, found, want, has)
			}
			if k.HasWrkChainStorageLimit(ctx, id) != has {
				mon.fail(opIx, "HasWrkChainStorageLimit(%d) disagrees with what was stored", id)
			}
			add("get_limit", fmt.Sprintf("WoGetLimit %s ((mk_go_WrkChainStorageLimit %s %s), %s)", coqU(id), coqU(got.WrkchainId), coqU(got.InStateLimit), coqBool(found)))
			add("has_limit", fmt.Sprintf("WoHasLimit %s %s", coqU(id), coqBool(has)))
		case 13, 14, 15:
			b := wrktypes.WrkChainBlock{Height: h, Blockhash: randWord(r), Parenthash: randWord(r), Hash1: randWord(r), Hash2: randWord(r), Hash3: randWord(r), SubTime: uint64(r.intn(1000))}
			if err := k.SetWrkChainBlock(ctx, id, b); err != nil {
				panic(err)
			}
			blocks[bk{id, h}] = b
			add("set_block", fmt.Sprintf("WoSetBlock %s %s", coqU(id), coqWrkBlock(b)))
		case 16:
			got, found := k.GetWrkChainBlock(ctx, id, h)
			want, has := blocks[bk{id, h}]
			if found != has || (has && got != want) {
				mon.fail(opIx, "GetWrkChainBlock(%d, %d) returns (%v, %v), stored (%v, %v)", id, h, got, found, want, has)
			}
			if k.IsWrkChainBlockRecorded(ctx, id, h) != has {
				mon.fail(opIx, "IsWrkChainBlockRecorded(%d, %d) disagrees with what was stored", id, h)
			}
			add("get_block", fmt.Sprintf("WoGetBlock %s %s (%s, %s)", coqU(id), coqU(h), coqWrkBlock(got), coqBool(found)))
			add("is_recorded", fmt.Sprintf("WoIsRecorded %s %s %s", coqU(id), coqU(h), coqBool(has)))
		case 17:
			all := k.GetAllWrkChainBlockHashes(ctx, id)
			want := sortedBlocks(id)
			if !sameBlocks(all, want) {
				mon.fail(opIx, "GetAllWrkChainBlockHashes(%d) lists %d records, stored %d (ascending by height expected)", id, len(all), len(want))
			}
			add("all_blocks", fmt.Sprintf("WoAllBlocks %s %s", coqU(id), blockList(all)))
			var rev []wrktypes.WrkChainBlock
			k.IterateWrkChainBlockHashesReverse(ctx, id, func(b wrktypes.WrkChainBlock) bool { rev = append(rev, b); return false })
			for j := range rev {
				if len(rev) != len(want) || rev[j] != want[len(want)-1-j] {
					mon.fail(opIx, "IterateWrkChainBlockHashesReverse(%d) is not the descending listing", id)
					break
				}
			}
			add("blocks_rev", fmt.Sprintf("WoBlocksRev %s %s", coqU(id), blockList(rev)))
		case 18:
			page, limit := uint(1+r.intn(4)), uint(r.intn(4))
			var got []wrktypes.WrkChainBlock
			k.IterateWrkChainBlockHashesPaginated(ctx, id, page, limit, func(b wrktypes.WrkChainBlock) bool { got = append(got, b); return false })
			want := sortedBlocks(id)
			lo := int((page - 1) * limit)
			if lo > len(want) {
				lo = len(want)
			}
			hi := lo + int(limit)
			if hi > len(want) {
				hi = len(want)
			}
			if !sameBlocks(got, want[lo:hi]) {
				mon.fail(opIx, "IterateWrkChainBlockHashesPaginated(%d, page %d, limit %d) is not that window of the ascending listing", id, page, limit)
			}
			add("blocks_page", fmt.Sprintf("WoBlocksPage %s %d %d %s", coqU(id), page, limit, blockList(got)))
			var two []wrktypes.WrkChainBlock
			k.IterateWrkChainBlockHashes(ctx, id, func(b wrktypes.WrkChainBlock) bool { two = append(two, b); return len(two) >= 2 })
			add("first_stop", fmt.Sprintf("WoFirstStop %s %s", coqU(id), blockList(two)))
		default:
			got := k.GetLastWrkChainHeightInState(ctx, id)
			want := uint64(0)
			if bs := sortedBlocks(id); len(bs) > 0 {
				want = bs[0].Height
			}
			if got != want {
				mon.fail(opIx, "GetLastWrkChainHeightInState(%d) = %d, lowest stored height of that WRKChain is %d", id, got, want)
			}
			add("last_height", fmt.Sprintf("WoLastHeight %s %s", coqU(id), coqU(got)))
		}
	}
	return ops
}

func coqStream(s strtypes.Stream) string {
	return fmt.Sprintf("(mk_go_Stream (%d, %s) %s %s %s %s)", denomIndex(s.Deposit.Denom), coqZ(s.Deposit.Amount.BigInt()), coqZi(s.FlowRate), coqZ(timeNs(s.LastOutflowTime)), coqZ(timeNs(s.DepositZeroTime)), coqBool(s.Cancellable))
}

func streamEq(a, b strtypes.Stream) bool {
	return a.Deposit.IsEqual(b.Deposit) && a.FlowRate == b.FlowRate && a.LastOutflowTime.Equal(b.LastOutflowTime) && a.DepositZeroTime.Equal(b.DepositZeroTime) && a.Cancellable == b.Cancellable
}

// addresses of a stream history are emitted once as named Coq definitions (long byte lists parse slowly)
var strAddrDefs []string
var strAddrName = map[string]string{}

func coqAddrRef(bz []byte) string {
	if n, ok := strAddrName[string(bz)]; ok {
		return n
	}
	return coqBytes(bz)
}

func strStoreHistory(c *chain, r *rng, nops int, mon *storeMon, kinds map[string]int) []string {
	ctx, _ := c.ctx().CacheContext()
	k := c.app.StreamKeeper
	var ops []string
	add := func(kind, s string) { ops = append(ops, s); kinds["str."+kind]++ }
	type sk struct{ r, s string }
	streams := map[sk]strtypes.Stream{}
	// a small pool of addresses of assorted lengths, some byte-prefixes of others
	var pool [][]byte
	for i := 0; i < 4; i++ {
		pool = append(pool, randAddr(r))
	}
	pool = append(pool, append(append([]byte{}, pool[0]...), 1, 2, 3)[:min(len(pool[0])+3, 255)])
	pool = append(pool, pool[1][:1+r.intn(len(pool[1]))])
	big255 := make([]byte, 255)
	for i := range big255 {
		big255[i] = byte(r.next())
	}
	pool = append(pool, big255)
	for _, a := range pool {
		if _, ok := strAddrName[string(a)]; !ok {
			nm := fmt.Sprintf("addr_%d", len(strAddrName))
			strAddrName[string(a)] = nm
			strAddrDefs = append(strAddrDefs, "Definition "+nm+" : list N := "+coqBytes(a)+".")
		}
	}
	fee := sdk.NewDecWithPrec(1, 2)
	if err := k.SetParams(ctx, strtypes.NewParams(fee)); err != nil {
		panic(err)
	}
	decZ := func(d sdk.Dec) string { return coqZ(d.BigInt()) }
	add("set_params", "SoSetParams (mk_go_Params "+decZ(fee)+") true")
	curFee := fee
	listing := func(stop bool) (string, [][3]interface{}) {
		var xs []string
		var got [][3]interface{}
		k.IterateAllStreams(ctx, func(ra, sa sdk.AccAddress, st strtypes.Stream) bool {
			xs = append(xs, fmt.Sprintf("(%s, %s, %s)", coqAddrRef(ra), coqAddrRef(sa), coqStream(st)))
			got = append(got, [3]interface{}{string(ra), string(sa), st})
			return stop
		})
		return "[" + strings.Join(xs, "; ") + "]", got
	}
	base := time.Unix(1_700_000_000, 0).UTC()
	for i := 0; i < nops; i++ {
		opIx := len(ops)
		ra, sa := pool[r.intn(len(pool))], pool[r.intn(len(pool))]
		key := sk{string(ra), string(sa)}
		switch r.intn(12) {
		case 0:
			f := sdk.NewDecWithPrec(int64(r.intn(150)), 2)
			err := k.SetParams(ctx, strtypes.NewParams(f))
			if err == nil {
				curFee = f
			}
			add("set_params", fmt.Sprintf("SoSetParams (mk_go_Params %s) %s", decZ(f), coqBool(err == nil)))
		case 1:
			got := k.GetParams(ctx)
			if !got.ValidatorFee.Equal(curFee) {
				mon.fail(opIx, "stream GetParams returns %s, last stored %s", got.ValidatorFee, curFee)
			}
			add("get_params", "SoGetParams (mk_go_Params "+decZ(got.ValidatorFee)+")")
		case 2, 3, 4, 5:
			st := strtypes.Stream{Deposit: sdk.NewInt64Coin(denoms[r.intn(len(denoms))], int64(r.intn(100000))), FlowRate: int64(r.intn(1000)),
				LastOutflowTime: base.Add(time.Duration(r.intn(1_000_000_000)) * time.Microsecond), DepositZeroTime: base.Add(time.Duration(r.intn(1_000_000)) * time.Second), Cancellable: r.chance(1, 2)}
			if r.chance(1, 12) { // a time MustMarshal cannot encode
				st.DepositZeroTime = time.Unix(253402300800+int64(r.intn(1000)), 0).UTC()
			}
			ok := safely(func() {
				if err := k.SetStream(ctx, ra, sa, st); err != nil {
					panic(err)
				}
			})
			if ok {
				streams[key] = st
			}
			add("set_stream", fmt.Sprintf("SoSetStream %s %s %s %s", coqAddrRef(ra), coqAddrRef(sa), coqStream(st), coqBool(ok)))
		case 6, 7:
			got, found := k.GetStream(ctx, ra, sa)
			want, has := streams[key]
			if found != has || (has && !streamEq(got, want)) {
				mon.fail(opIx, "GetStream(receiver %s, sender %s) returns (%v, %v), last stored (%v, %v)", hexShort(ra), hexShort(sa), got, found, want, has)
			}
			if k.IsStream(ctx, ra, sa) != has {
				mon.fail(opIx, "IsStream(receiver %s, sender %s) disagrees with what was stored", hexShort(ra), hexShort(sa))
			}
			if found {
				add("get_stream", fmt.Sprintf("SoGetStream %s %s (%s, true)", coqAddrRef(ra), coqAddrRef(sa), coqStream(got)))
			} else {
				add("get_stream", fmt.Sprintf("SoGetStream %s %s (zero_go_Stream, false)", coqAddrRef(ra), coqAddrRef(sa)))
			}
			add("is_stream", fmt.Sprintf("SoIsStream %s %s %s", coqAddrRef(ra), coqAddrRef(sa), coqBool(has)))
		case 8, 9:
			k.DeleteStream(ctx, ra, sa)
			delete(streams, key)
			add("del_stream", fmt.Sprintf("SoDelStream %s %s", coqAddrRef(ra), coqAddrRef(sa)))
		case 10:
			txt, got := listing(false)
			seen := map[sk]bool{}
			for _, g := range got {
				kk := sk{g[0].(string), g[1].(string)}
				want, has := streams[kk]
				if !has || !streamEq(want, g[2].(strtypes.Stream)) || seen[kk] {
					mon.fail(opIx, "IterateAllStreams reports a stream (receiver %s, sender %s) that is not the one stored for that pair, or reports it twice", hexShort([]byte(kk.r)), hexShort([]byte(kk.s)))
				}
				seen[kk] = true
			}
			if len(got) != len(streams) {
				mon.fail(opIx, "IterateAllStreams reports %d of %d stored streams", len(got), len(streams))
			}
			add("all_streams", "SoAllStreams "+txt)
		default:
			txt, _ := listing(true)
			add("first_stream", "SoFirstStream "+txt)
		}
	}
	return ops
}

func cmdStore(args []string) {
	fs := flag.NewFlagSet("store", flag.ExitOnError)
	out := fs.String("out", ".", "output directory")
	n := fs.Int("n", 60, "histories per module")
	nops := fs.Int("ops", 60, "operations per history")
	per := fs.Int("shard", 20, "histories per Coq file")
	fs.Parse(args)
	r := newRng(seedFromEnv())
	c := newChain(fixedCfg())
	defer c.close()
	if p := c.begin(2 * time.Second); p != nil {
		panic(p)
	}
	kinds := map[string]int{}
	mon := &storeMon{}
	var files []string
	var samples []string
	total, distinct := 0, map[string]bool{}
	emit := func(prefix, imports, fn string, hists [][]string, defs []string) {
		var items []string
		for _, h := range hists {
			items = append(items, "["+strings.Join(h, ";\n   ")+"]")
			total += len(h)
			for _, o := range h {
				distinct[o] = true
			}
		}
		for i, sh := range shard(items, *per) {
			name := fmt.Sprintf("cases_store_%s_%d.v", prefix, i)
			var sb strings.Builder
			sb.WriteString("From Coq Require Import String NArith.\nFrom MC Require Import lib.Prelude lib.GoSdk " + imports + ".\nOpen Scope Z_scope.\nOpen Scope string_scope.\n")
			sb.WriteString(strings.Join(defs, "\n") + "\n")
			sb.WriteString("Definition cases :=\n " + coqList(sh) + ".\n")
			sb.WriteString("Definition bad_corr := Eval vm_compute in " + fn + " cases.\nPrint bad_corr.\n")
			sb.WriteString("Definition bad_mon : list nat := [].\nPrint bad_mon.\n")
			writeFile(filepath.Join(*out, name), sb.String())
			files = append(files, name)
		}
	}
	var wh, sh [][]string
	for i := 0; i < *n; i++ {
		mon.hist = i
		wh = append(wh, wrkStoreHistory(c, r, *nops, mon, kinds))
	}
	for i := 0; i < *n; i++ {
		mon.hist = *n + i
		sh = append(sh, strStoreHistory(c, r, *nops, mon, kinds))
	}
	emit("wrk", "GeneratedWrkchainTypes model.StoreCheckWrk", "wst_bad_corr", wh, nil)
	emit("str", "GeneratedStreamTypes model.StoreCheckStr", "sst_bad_corr", sh, strAddrDefs)
	if len(wh) > 0 && len(wh[0]) > 3 {
		samples = append(samples, wh[0][2], wh[0][3])
	}
	if len(sh) > 0 && len(sh[0]) > 3 {
		samples = append(samples, sh[0][2], sh[0][3])
	}
	writeJSON(filepath.Join(*out, "stats_store.json"), map[string]interface{}{
		"files": files, "evaluations": total, "distinct_nontrivial": len(distinct),
		"rule":         "sequences of real keeper store-accessor calls of x/wrkchain (params, highest id, WRKChains, storage limits, block records: set / get / has / listings ascending, descending, paginated, early stop, lowest height in state) and x/stream (params, streams keyed by address pairs of 1..255 bytes incl. byte-prefixes of one another: set / get / is / delete / listing with the pair parsed from the key, unencodable times) on a cached context of the real application; ids and heights from a boundary pool (1..4, 2^8, 2^16, 2^32, 2^63, 2^64-1); the translated accessors replay each sequence from the empty store (vm_compute) and a Go shadow map decides read-your-write / non-interference / listing completeness on the implementation",
		"distribution": map[string]interface{}{"by_kind": kinds, "histories_per_module": *n, "ops_per_history": *nops},
		"samples":      samples, "go_monitor_failures": append([]monFailure{}, mon.fails...),
	})
}
