package main

// "State outside the store": everything the consensus code can remember between two calls must live in the committed
// multistore (C01: a restarted node, and a context that is discarded, must forget nothing and remember nothing else).
// The facts emitted here are the places where a Go program could keep such state in the packages on the consensus
// path: the fields of the keeper / decorator / server structs, and the package-level variables.  proofs/Wiring.v pins
// them; a new field (a cache, a mutex, a map) or a new package-level variable breaks the obligation.

import (
	"bytes"
	"go/ast"
	"go/printer"
	"go/token"
	"os"
	"path/filepath"
	"sort"
	"strings"
)

func typeText(e ast.Expr) string {
	var b bytes.Buffer
	printer.Fprint(&b, fset, e)
	return strings.Join(strings.Fields(b.String()), " ")
}

func processState(repo string) []string {
	dirs := []string{"ante"}
	for _, m := range []string{"beacon", "enterprise", "stream", "wrkchain"} {
		dirs = append(dirs, "x/"+m, "x/"+m+"/keeper", "x/"+m+"/ante")
	}
	var out []string
	for _, d := range dirs {
		ents, err := os.ReadDir(filepath.Join(repo, d))
		if err != nil {
			continue
		}
		for _, e := range ents {
			if e.IsDir() || !strings.HasSuffix(e.Name(), ".go") || strings.HasSuffix(e.Name(), "_test.go") {
				continue
			}
			f := parseFile(filepath.Join(repo, d, e.Name()))
			for _, dcl := range f.Decls {
				gd, ok := dcl.(*ast.GenDecl)
				if !ok {
					continue
				}
				for _, sp := range gd.Specs {
					switch t := sp.(type) {
					case *ast.TypeSpec:
						st, ok := t.Type.(*ast.StructType)
						if !ok {
							continue
						}
						n := t.Name.Name
						if !(n == "Keeper" || n == "msgServer" || n == "Migrator" || strings.HasSuffix(n, "Decorator") || n == "AppModule" || n == "AppModuleBasic") {
							continue
						}
						for _, fl := range st.Fields.List {
							ty := typeText(fl.Type)
							if len(fl.Names) == 0 {
								out = append(out, d+": "+n+" embeds "+ty)
							}
							for _, nm := range fl.Names {
								out = append(out, d+": "+n+"."+nm.Name+" "+ty)
							}
						}
					case *ast.ValueSpec:
						if gd.Tok != token.VAR {
							continue
						}
						for _, nm := range t.Names {
							if nm.Name == "_" {
								continue // interface assertions
							}
							ty := ""
							if t.Type != nil {
								ty = " " + typeText(t.Type)
							}
							out = append(out, d+": var "+nm.Name+ty)
						}
					}
				}
			}
		}
	}
	sort.Strings(out)
	return out
}
