package main

// "Aliasing sites".  The translation renders Go slices, maps and messages as immutable values; a defect that lives in
// aliasing - an append onto a sub-slice (which overwrites the tail of the array it was cut from), a write into a byte
// slice that was not allocated in the same function (the bytes store.Get returns are shared with the cache layers and
// the IAVL node cache), a decorator or ValidateBasic that assigns to a field of the message it was handed (DeliverTx
// executes that very object) - cannot be seen by the theorems.  The places where the consensus code does any of this are
// listed here; proofs/Aliasing.v pins the list, so a new one breaks an obligation.

import (
	"go/ast"
	"go/token"
	"os"
	"path/filepath"
	"sort"
	"strings"
)

func baseIdent(e ast.Expr) string {
	for {
		switch t := e.(type) {
		case *ast.SliceExpr:
			e = t.X
		case *ast.IndexExpr:
			e = t.X
		case *ast.ParenExpr:
			e = t.X
		case *ast.StarExpr:
			e = t.X
		case *ast.Ident:
			return t.Name
		default:
			return ""
		}
	}
}

func isAllocation(e ast.Expr) bool {
	switch t := e.(type) {
	case *ast.CompositeLit:
		return true
	case *ast.UnaryExpr:
		_, ok := t.X.(*ast.CompositeLit)
		return ok && t.Op == token.AND
	case *ast.CallExpr:
		if id, ok := t.Fun.(*ast.Ident); ok && (id.Name == "make" || id.Name == "new") {
			return true
		}
	}
	return false
}

func aliasingSites(repo string) []string {
	dirs := []string{"ante", "app", "types"}
	for _, m := range []string{"beacon", "enterprise", "stream", "wrkchain"} {
		dirs = append(dirs, "x/"+m, "x/"+m+"/keeper", "x/"+m+"/ante", "x/"+m+"/exported", "x/"+m+"/types")
	}
	var out []string
	for _, d := range dirs {
		ents, err := os.ReadDir(filepath.Join(repo, d))
		if err != nil {
			continue
		}
		fieldWritesEverywhere := d == "ante" || strings.HasSuffix(d, "/ante") || strings.HasSuffix(d, "/exported")
		for _, e := range ents {
			n := e.Name()
			if e.IsDir() || !strings.HasSuffix(n, ".go") || strings.HasSuffix(n, "_test.go") || strings.HasSuffix(n, ".pb.go") || strings.HasSuffix(n, ".pb.gw.go") {
				continue
			}
			f := parseFile(filepath.Join(repo, d, n))
			for _, dcl := range f.Decls {
				fd, ok := dcl.(*ast.FuncDecl)
				if !ok || fd.Body == nil {
					continue
				}
				fname := fd.Name.Name
				if fd.Recv != nil && len(fd.Recv.List) > 0 {
					fname = typeText(fd.Recv.List[0].Type) + "." + fname
				}
				msgMethod := strings.HasSuffix(d, "/types") && fd.Recv != nil && (fd.Name.Name == "ValidateBasic" || fd.Name.Name == "GetSigners" || fd.Name.Name == "GetSignBytes" || fd.Name.Name == "Route" || fd.Name.Name == "Type" || fd.Name.Name == "Validate")
				local := map[string]bool{} // identifiers bound to a fresh allocation in this function
				ast.Inspect(fd.Body, func(nd ast.Node) bool {
					switch t := nd.(type) {
					case *ast.AssignStmt:
						if len(t.Lhs) == len(t.Rhs) {
							for i, l := range t.Lhs {
								if id, ok := l.(*ast.Ident); ok && isAllocation(t.Rhs[i]) {
									local[id.Name] = true
								}
							}
						}
					case *ast.ValueSpec:
						for i, id := range t.Names {
							if i < len(t.Values) && isAllocation(t.Values[i]) {
								local[id.Name] = true
							}
							if len(t.Values) == 0 { // var x T: a zero value of its own
								local[id.Name] = true
							}
						}
					}
					return true
				})
				site := func(kind, what string) {
					out = append(out, d+"/"+n+": "+fname+": "+kind+" "+what)
				}
				ast.Inspect(fd.Body, func(nd ast.Node) bool {
					switch t := nd.(type) {
					case *ast.CallExpr:
						if id, ok := t.Fun.(*ast.Ident); ok && id.Name == "append" && len(t.Args) > 0 {
							if _, sub := t.Args[0].(*ast.SliceExpr); sub {
								site("append-onto-subslice", typeText(t.Args[0]))
							}
						}
						dst := ast.Expr(nil)
						if id, ok := t.Fun.(*ast.Ident); ok && id.Name == "copy" && len(t.Args) > 0 {
							dst = t.Args[0]
						}
						if se, ok := t.Fun.(*ast.SelectorExpr); ok && strings.HasPrefix(se.Sel.Name, "PutUint") && len(t.Args) > 0 {
							dst = t.Args[0]
						}
						if dst != nil {
							if b := baseIdent(dst); b == "" || !local[b] {
								site("write-into-foreign-bytes", typeText(dst))
							}
						}
					case *ast.AssignStmt:
						for _, l := range t.Lhs {
							switch lt := l.(type) {
							case *ast.IndexExpr:
								if b := baseIdent(lt.X); b == "" || !local[b] {
									site("index-write", typeText(lt.X))
								}
							case *ast.SelectorExpr:
								if fieldWritesEverywhere || msgMethod {
									if b := baseIdent(lt.X); b == "" || !local[b] {
										site("field-write", typeText(l))
									}
								}
							}
						}
					case *ast.IncDecStmt:
						if lt, ok := t.X.(*ast.SelectorExpr); ok && (fieldWritesEverywhere || msgMethod) {
							site("field-write", typeText(lt))
						}
					}
					return true
				})
			}
		}
	}
	sort.Strings(out)
	return out
}
