package main

// Go -> Gallina translator for the STORE ACCESSORS of the four modules' keepers: the functions the keeper-level
// translation (gokeeper.go) calls as primitives (GetStream, SetWrkChain, IterateWrkChainBlockHashesPaginated, ...).
// They are rendered against the ordered byte-keyed store of model/KVStore.v with the key builders of GeneratedKeys.v:
//     go_st_F (s : okv <module>_val) args : outcome R                       -- a reader
//     go_st_F (s : okv <module>_val) args : outcome (okv <module>_val * R)  -- a writer (store.Set / store.Delete)
//     go_st_IterateX {St} (s) args (cb : St -> A -> outcome (St * bool)) (st : St) : outcome St
// Integers are Z (as in the Generated*Types records), byte strings and sdk.AccAddress values are list N.
//
// Supported subset (anything else: the function is listed under <module>_store_functions_failed, a pinned list):
//   store := ctx.KVStore(k.storeKey)                       (dropped: one store per module)
//   store.Get/Has/Set/Delete(KEY)                          (okv_Get .. of model/KVStore.v, with the empty-key panic)
//   KEY: a prefix constant or a call of a key builder of types/keys.go (GeneratedKeys.v)
//   k.cdc.MustMarshal(&x)                                  (the constructor of <module>_val for x's type)
//   var x T; k.cdc.MustUnmarshal(bz, &x)  /  err := k.cdc.Unmarshal(bz, &x); if err != nil { panic(err) }
//   if bz == nil { return .. }   if !k.F(ctx, ..) { return .. }   if cond { return .. }   (then-branch must return)
//   if err := params.Validate(); err != nil { return err }
//   a, err := sdk.AccAddressFromBech32(x.F); if err != nil { return err }
//   x := e / x = e, named results, return, struct literals, field reads, calls of other translated accessors
//   it := sdk.KVStorePrefixIterator | KVStoreReversePrefixIterator | KVStorePrefixIteratorPaginated(store, P[, page, limit])
//   defer it.Close()                                       (dropped)
//   for ; it.Valid(); it.Next() { decode; if cb(..) { break } }      (okv_iterate, the callback is a parameter)
//   for ; it.Valid(); it.Next() { decode; xs = append(xs, x) }       (okv_iterate with an appending callback)
//   k.IterateX(ctx, .., func(..) bool { assignments to captured variables; return b })   (captured variables = state)

import (
	"fmt"
	"go/ast"
	"go/token"
	"os"
	"path/filepath"
	"sort"
	"strings"
)

type stKind string

const (
	skZ     stKind = "Z"
	skBytes stKind = "bytes"
	skBool  stKind = "bool"
	skOpt   stKind = "optval" // what store.Get returned
	skVal   stKind = "val"    // a marshalled value
	skIter  stKind = "iter"
	skUnit  stKind = "unit"
	skCoin  stKind = "coin"
	skDenom stKind = "denom"
	skStr   stKind = "string"
	skAddrS stKind = "addrstr" // a bech32 string held in a struct field (abstract address)
	skErr   stKind = "error"
)

func skStruct(n string) stKind      { return stKind("S:" + n) }
func skList(k stKind) stKind        { return stKind("L:" + string(k)) }
func (k stKind) isStruct() bool     { return strings.HasPrefix(string(k), "S:") }
func (k stKind) isList() bool       { return strings.HasPrefix(string(k), "L:") }
func (k stKind) structName() string { return strings.TrimPrefix(string(k), "S:") }
func (k stKind) elem() stKind       { return stKind(strings.TrimPrefix(string(k), "L:")) }

type storeSpec struct {
	module   string
	files    []string
	want     []string // callees first
	typesMod string
	keepMod  string          // generated keeper file (for go_Params_Validate)
	valCtor  string          // prefix of the value constructors
	section  bool            // the accessors convert between address bytes and bech32 strings: the two conversions are Section variables
	checked  map[string]bool // struct types whose MustMarshal can panic (hand-written marshal_check_<T> in model/StoreCodecPrims.v)
}

var storeSpecs = []storeSpec{
	{module: "stream", files: []string{"stream.go", "params.go"}, typesMod: "GeneratedStreamTypes", keepMod: "GeneratedStreamKeeper", valCtor: "SV",
		want:    []string{"GetParams", "SetParams", "SetStream", "IsStream", "GetStream", "DeleteStream", "IterateAllStreams"},
		checked: map[string]bool{"Stream": true}},
	{module: "wrkchain", files: []string{"register.go", "record.go", "params.go"}, typesMod: "GeneratedWrkchainTypes", keepMod: "GeneratedWrkchainKeeper", valCtor: "WV",
		want: []string{"GetParams", "SetParams", "GetParamDenom", "GetParamRegistrationFee", "GetParamRecordFee", "GetParamPurchaseStorageFee", "GetParamDefaultStorageLimit", "GetParamMaxStorageLimit",
			"GetHighestWrkChainID", "SetHighestWrkChainID", "SetWrkChain", "IsWrkChainRegistered", "GetWrkChain", "IterateWrkChains", "GetAllWrkChains",
			"HasWrkChainStorageLimit", "GetWrkChainStorageLimit", "SetWrkChainStorageLimit",
			"SetWrkChainBlock", "IsWrkChainBlockRecorded", "GetWrkChainBlock", "IterateWrkChainBlockHashes", "IterateWrkChainBlockHashesPaginated", "IterateWrkChainBlockHashesReverse",
			"GetAllWrkChainBlockHashes", "GetLastWrkChainHeightInState", "GetAllWrkChainBlockHashesForGenesisExport", "deleteWrkChainHash"}},
	{module: "beacon", files: []string{"register.go", "record.go", "params.go"}, typesMod: "GeneratedBeaconTypes", keepMod: "GeneratedBeaconKeeper", valCtor: "BV",
		want: []string{"GetParams", "SetParams", "GetParamDenom", "GetParamRegistrationFee", "GetParamRecordFee", "GetParamPurchaseStorageFee", "GetParamDefaultStorageLimit", "GetParamMaxStorageLimit",
			"GetHighestBeaconID", "SetHighestBeaconID", "SetBeacon", "IsBeaconRegistered", "GetBeacon", "IterateBeacons", "GetAllBeacons",
			"HasBeaconStorageLimit", "GetBeaconStorageLimit", "SetBeaconStorageLimit",
			"SetBeaconTimestamp", "IsBeaconTimestampRecordedByID", "GetBeaconTimestampByID", "IterateBeaconTimestamps", "IterateBeaconTimestampsReverse",
			"GetAllBeaconTimestamps", "GetAllBeaconTimestampsForExport", "deleteBeaconTimestamp"}},
}

func init() {
	storeSpecs = append(storeSpecs, storeSpec{module: "enterprise", files: []string{"params.go", "purchase.go", "whitelist.go", "locked.go"}, typesMod: "GeneratedEnterpriseTypes", keepMod: "GeneratedEnterpriseKeeper", valCtor: "EV", section: true,
		want: []string{"GetParams", "SetParams", "GetParamDenom", "GetParamMinAccepts", "GetParamDecisionLimit", "GetParamEntSigners",
			"GetHighestPurchaseOrderID", "SetHighestPurchaseOrderID",
			"AddPoToRaisedQueue", "PurchaseOrderIsInRaisedQueue", "RemovePurchaseOrderFromRaisedQueue", "IterateRaisedQueue", "GetAllRaisedPurchaseOrders",
			"AddPoToAcceptedQueue", "PurchaseOrderIsInAcceptedQueue", "RemovePurchaseOrderFromAcceptedQueue", "IterateAcceptedQueue", "GetAllAcceptedPurchaseOrders",
			"PurchaseOrderExists", "GetPurchaseOrder", "IteratePurchaseOrders", "GetAllPurchaseOrders", "SetPurchaseOrder",
			"AddressIsWhitelisted", "AddAddressToWhitelist", "RemoveAddressFromWhitelist", "IterateWhitelist", "GetAllWhitelistedAddresses",
			"GetTotalLockedUnd", "SetTotalLockedUnd", "GetTotalSpentEFUND", "SetTotalSpentEFUND",
			"AccountHasSpentEFUND", "GetSpentEFUNDForAccount", "SetSpentEFUNDForAccount", "GetSpentEFUNDAmountForAccount", "GetAllSpentEFUNDAccountsIterator", "GetAllSpentEFUNDs",
			"AccountHasLockedUnd", "GetLockedUndForAccount", "IsLocked", "SetLockedUndForAccount", "GetLockedUndAmountForAccount", "GetAllLockedUndAccountsIterator", "GetAllLockedUnds"}})
}

type stSig struct {
	coq     string
	params  []stKind // without ctx / cb
	results []stKind
	hasErr  bool
	writer  bool
	iter    bool // takes a callback: go_st_F s args cb st
	cbArgs  []stKind
	retIter bool // returns an iterator (the listing)
}

type stTrans struct {
	spec         *storeSpec
	env          map[string]stKind
	fns          map[string]stSig
	sig          stSig
	named        []string // named results
	errs         []string
	fresh        int
	cbName       string
	inClosure    bool
	closureState []string
	inDecode     bool
	namedAll     []string
	usedCb       bool
	decodeOuts   []string
}

func isPkgIdent(e ast.Expr) bool {
	id, ok := e.(*ast.Ident)
	return ok && (id.Name == "k" || id.Name == "types" || id.Name == "store" || id.Name == "sdk" || id.Name == "sdkerrors")
}

func (t *stTrans) namedNonErr() []string {
	var o []string
	for _, n := range t.namedAll {
		if t.env[n] != skErr {
			o = append(o, n)
		}
	}
	return o
}
func (t *stTrans) outerSig() *stSig { return &t.sig }

func (t *stTrans) fail(f string, a ...interface{}) { t.errs = append(t.errs, fmt.Sprintf(f, a...)) }
func (t *stTrans) tmp() string                     { t.fresh++; return fmt.Sprintf("t%d_", t.fresh) }

func (t *stTrans) coqType(k stKind) string {
	switch k {
	case skZ:
		return "Z"
	case skBytes:
		return "(list N)"
	case skBool:
		return "bool"
	case skUnit:
		return "unit"
	case skCoin:
		return "go_coin"
	case skDenom:
		return "go_denom"
	case skStr:
		return "string"
	case skAddrS:
		return "go_addr"
	case skIter:
		return "(okv " + t.spec.module + "_val)"
	case skOpt:
		return "(option " + t.spec.module + "_val)"
	case skVal:
		return t.spec.module + "_val"
	}
	if k.isStruct() {
		return "go_" + k.structName()
	}
	if k.isList() {
		return "(list " + t.coqType(k.elem()) + ")"
	}
	return "?"
}

func (t *stTrans) zero(k stKind) string {
	switch k {
	case skZ:
		return "0"
	case skBytes:
		return "[]"
	case skBool:
		return "false"
	case skUnit:
		return "tt"
	case skCoin:
		return "go_zero_coin"
	case skDenom:
		return "go_zero_denom"
	case skStr:
		return "EmptyString"
	case skAddrS:
		return "go_zero_addr"
	}
	if k.isStruct() {
		return "zero_go_" + k.structName()
	}
	if k.isList() {
		return "[]"
	}
	return "?"
}

func (t *stTrans) goType(e ast.Expr) stKind {
	switch n := exprName(e); n {
	case "uint64", "uint", "int", "int64":
		return skZ
	case "bool":
		return skBool
	case "sdk.AccAddress":
		return skBytes
	case "string":
		return skStr
	case "error":
		return skErr
	case "sdk.Coin":
		return skCoin
	case "sdk.Iterator":
		return skIter
	}
	if at, ok := e.(*ast.ArrayType); ok && at.Len == nil {
		if exprName(at.Elt) == "byte" {
			return skBytes
		}
		return skList(t.goType(at.Elt))
	}
	n := exprName(e)
	if _, isId := e.(*ast.Ident); isId {
		if _, ok := structTable[n]; ok {
			return skStruct(n) // a type of package types named from inside that package (element of a named slice type)
		}
	}
	if strings.HasPrefix(n, "types.") {
		nm := strings.TrimPrefix(n, "types.")
		if _, ok := structTable[nm]; ok {
			return skStruct(nm)
		}
		if el, ok := sliceTypes[nm]; ok {
			return skList(t.goType(el))
		}
	}
	return "?"
}

func fieldKind(g gtype) stKind {
	switch g {
	case tUint64, tInt64, tInt, tTime, tDec, tEnum:
		return skZ
	case tBool:
		return skBool
	case tCoin:
		return skCoin
	case tDenom:
		return skDenom
	case tStr, tString:
		return skStr
	case tAddrStr:
		return skAddrS
	case tSigners:
		return skList(skAddrS)
	}
	if isStruct(g) {
		return skStruct(structName(g))
	}
	if isList(g) {
		return skList(fieldKind(elemOf(g)))
	}
	return "?"
}

type stBind struct{ pat, rhs string }

func stWrap(pre []stBind, body string) string {
	var sb strings.Builder
	for _, b := range pre {
		sb.WriteString("do " + b.pat + " <- " + b.rhs + ";\n")
	}
	sb.WriteString(body)
	return sb.String()
}

// keyFnResult: result kind of a function of types/keys.go (by its GeneratedKeys.v type)
func keyFnResult(name string) (stKind, bool) {
	switch {
	case strings.HasSuffix(name, "FromBytes"), strings.HasPrefix(name, "Split"):
		return skZ, true
	case name == "AddressesFromStreamKey":
		return "pairbytes", true
	case name == "FirstAddressFromStreamStoreKey":
		return skBytes, true
	}
	return skBytes, true
}

// expr renders an expression; monadic sub-terms are hoisted into pre
func (t *stTrans) expr(e ast.Expr) (pre []stBind, val string, k stKind) {
	switch x := e.(type) {
	case *ast.ParenExpr:
		return t.expr(x.X)
	case *ast.Ident:
		switch x.Name {
		case "true", "false":
			return nil, x.Name, skBool
		case "nil":
			return nil, "nil", skErr
		}
		if kk, ok := t.env[x.Name]; ok {
			return nil, x.Name, kk
		}
		t.fail("unknown identifier %s", x.Name)
		return nil, "?", "?"
	case *ast.BasicLit:
		if x.Kind == token.INT {
			return nil, x.Value, skZ
		}
		t.fail("literal %s", x.Value)
		return nil, "?", "?"
	case *ast.UnaryExpr:
		if x.Op == token.NOT {
			p, v, kk := t.expr(x.X)
			if kk != skBool {
				t.fail("! of %s", kk)
			}
			return p, "(negb " + v + ")", skBool
		}
	case *ast.BinaryExpr:
		pa, va, ka := t.expr(x.X)
		pb, vb, kb := t.expr(x.Y)
		pre = append(pa, pb...)
		switch x.Op {
		case token.EQL:
			if ka == skZ && kb == skZ {
				return pre, "(" + va + " =? " + vb + ")", skBool
			}
		case token.ADD:
			if ka == skZ && kb == skZ {
				return pre, "(u64_add " + va + " " + vb + ")", skZ
			}
		case token.LAND:
			if ka == skBool && kb == skBool && len(pb) == 0 {
				return pre, "(" + va + " && " + vb + ")", skBool
			}
		}
		t.fail("binary %s on %s, %s", x.Op, ka, kb)
		return nil, "?", "?"
	case *ast.SelectorExpr:
		n := exprName(x)
		if strings.HasPrefix(n, "types.") {
			nm := strings.TrimPrefix(n, "types.")
			if nm == "DefaultStorageLimit" || nm == "MaxBlockSubmissionsKeepInState" || nm == "MaxHashSubmissionsToExport" {
				return nil, "store_const_" + nm, skZ
			}
			return nil, t.spec.module + "_" + nm, skBytes // a prefix / fixed key of keys.go
		}
		p, v, kk := t.expr(x.X)
		if kk.isStruct() {
			for _, f := range structTable[kk.structName()] {
				if f.name == x.Sel.Name {
					return p, "(" + kk.structName() + "_" + f.name + " " + v + ")", fieldKind(f.typ)
				}
			}
		}
		t.fail("field %s of %s", x.Sel.Name, kk)
		return nil, "?", "?"
	case *ast.CompositeLit:
		tn := exprName(x.Type)
		if strings.HasPrefix(tn, "types.") {
			nm := strings.TrimPrefix(tn, "types.")
			fs, ok := structTable[nm]
			if !ok {
				t.fail("struct %s", nm)
				return nil, "?", "?"
			}
			vals := map[string]string{}
			for _, el := range x.Elts {
				kv, ok := el.(*ast.KeyValueExpr)
				if !ok {
					t.fail("positional struct literal")
					return nil, "?", "?"
				}
				p, v, _ := t.expr(kv.Value)
				pre = append(pre, p...)
				vals[exprName(kv.Key)] = v
			}
			args := []string{}
			for _, f := range fs {
				if v, ok := vals[f.name]; ok {
					args = append(args, v)
				} else {
					args = append(args, t.zero(fieldKind(f.typ)))
				}
			}
			if len(x.Elts) == 0 {
				return nil, "zero_go_" + nm, skStruct(nm)
			}
			return pre, "(mk_go_" + nm + " " + strings.Join(args, " ") + ")", skStruct(nm)
		}
		if tn == "sdk.AccAddress" && len(x.Elts) == 0 {
			return nil, "[]", skBytes
		}
		t.fail("composite literal %s", tn)
		return nil, "?", "?"
	case *ast.CallExpr:
		if n := exprName(x.Fun); len(x.Args) == 0 {
			switch {
			case strings.HasSuffix(n, ".Value"):
				y := t.tmp()
				return []stBind{{y, "(" + t.spec.module + "_unmarshal_bytes (Some val_))"}}, y, skBytes
			case strings.HasSuffix(n, ".Key"):
				return nil, "key_", skBytes
			}
			if sel, ok := x.Fun.(*ast.SelectorExpr); ok && !isPkgIdent(sel.X) {
				p, v, kk := t.expr(sel.X)
				switch {
				case kk == skBytes && sel.Sel.Name == "Empty":
					return p, "(Addr_bytes_Empty " + v + ")", skBool
				case kk == skBytes && sel.Sel.Name == "String":
					return p, "(store_addr_string " + v + ")", skAddrS
				case kk == skCoin && sel.Sel.Name == "IsNegative":
					return p, "(Coin_IsNegative " + v + ")", skBool
				case kk == skCoin && sel.Sel.Name == "IsPositive":
					return p, "(Coin_IsPositive " + v + ")", skBool
				}
			}
		}
		return t.call(x)
	}
	t.fail("expression %T", e)
	return nil, "?", "?"
}

func (t *stTrans) keyArg(e ast.Expr) (pre []stBind, val string) {
	p, v, k := t.expr(e)
	switch k {
	case skZ:
		return p, "(Z.to_N " + v + ")"
	case skBytes:
		return p, v
	case skOpt:
		x := t.tmp()
		return append(p, stBind{x, "(" + t.spec.module + "_unmarshal_bytes " + v + ")"}), x
	}
	t.fail("key argument of kind %s", k)
	return p, v
}

func (t *stTrans) call(c *ast.CallExpr) (pre []stBind, val string, k stKind) {
	n := exprName(c.Fun)
	switch {
	case n == "store.Get" || n == "store.Has":
		p, v, kk := t.expr(c.Args[0])
		if kk != skBytes {
			t.fail("%s key of kind %s", n, kk)
		}
		x := t.tmp()
		if n == "store.Get" {
			return append(p, stBind{x, "(okv_Get s " + v + ")"}), x, skOpt
		}
		return append(p, stBind{x, "(okv_Has s " + v + ")"}), x, skBool
	case strings.HasSuffix(n, ".cdc.MustMarshal"):
		ue, ok := c.Args[0].(*ast.UnaryExpr)
		if !ok || ue.Op != token.AND {
			t.fail("MustMarshal argument")
			return nil, "?", "?"
		}
		p, v, kk := t.expr(ue.X)
		var ctor string
		switch {
		case kk.isStruct():
			ctor = kk.structName()
		case kk == skCoin:
			ctor = "Coin"
		default:
			t.fail("MustMarshal of %s", kk)
			return nil, "?", "?"
		}
		x := t.tmp()
		return append(p, stBind{x, "(" + t.spec.module + "_marshal_" + ctor + " " + v + ")"}), x, skVal
	case n == "types.ValidPurchaseOrderStatus":
		p, v, _ := t.expr(c.Args[0])
		x := t.tmp()
		return append(p, stBind{x, "(go_ValidPurchaseOrderStatus " + v + ")"}), x, skBool
	case strings.HasPrefix(n, "types."):
		fn := strings.TrimPrefix(n, "types.")
		rk, _ := keyFnResult(fn)
		var args []string
		for _, a := range c.Args {
			p, v := t.keyArg(a)
			pre = append(pre, p...)
			args = append(args, v)
		}
		x := t.tmp()
		pre = append(pre, stBind{x, "(go_" + t.spec.module + "_" + fn + " " + strings.Join(args, " ") + ")"})
		if rk == skZ {
			return pre, "(Z.of_N " + x + ")", skZ
		}
		return pre, x, rk
	case n == "sdk.KVStorePrefixIterator" || n == "sdk.KVStoreReversePrefixIterator" || n == "sdk.KVStorePrefixIteratorPaginated":
		if exprName(c.Args[0]) != "store" {
			t.fail("iterator over %s", exprName(c.Args[0]))
		}
		p, v, kk := t.expr(c.Args[1])
		if kk != skBytes {
			t.fail("iterator prefix of kind %s", kk)
		}
		x := t.tmp()
		op := map[string]string{"sdk.KVStorePrefixIterator": "okv_iter_prefix", "sdk.KVStoreReversePrefixIterator": "okv_iter_prefix_rev", "sdk.KVStorePrefixIteratorPaginated": "okv_iter_prefix_paginated"}[n]
		extra := ""
		for _, a := range c.Args[2:] {
			pa, va, ka := t.expr(a)
			if ka != skZ {
				t.fail("page/limit of kind %s", ka)
			}
			p = append(p, pa...)
			extra += " (Z.to_N " + va + ")"
		}
		return append(p, stBind{x, "(" + op + " s " + v + extra + ")"}), x, skIter
	case n == "prependBlock" || n == "prependTimestamp":
		// keeper-local helper: x = append(x, y); copy(x[1:], x); x[0] = y  ==  y in front of x
		pa, va, ka := t.expr(c.Args[0])
		pb, vb, _ := t.expr(c.Args[1])
		return append(pa, pb...), "(store_prepend " + va + " " + vb + ")", ka
	case n == "sdk.NewInt64Coin":
		pa, va, _ := t.expr(c.Args[0])
		pb, vb, _ := t.expr(c.Args[1])
		x := t.tmp()
		return append(append(pa, pb...), stBind{x, "(sdk_NewCoin " + va + " " + vb + ")"}), x, skCoin
	case n == "int64":
		p, v, _ := t.expr(c.Args[0])
		return p, "(go_int64_of_uint64 " + v + ")", skZ
	case strings.HasPrefix(n, "k."):
		fn := strings.TrimPrefix(n, "k.")
		sig, ok := t.fns[fn]
		if !ok {
			t.fail("call of %s (not a translated accessor)", fn)
			return nil, "?", "?"
		}
		if sig.writer || sig.iter {
			t.fail("call of %s in expression position", fn)
			return nil, "?", "?"
		}
		args := []string{"s"}
		for i, a := range c.Args {
			if i == 0 && exprName(a) == "ctx" {
				continue
			}
			p, v, _ := t.expr(a)
			pre = append(pre, p...)
			args = append(args, v)
		}
		x := t.tmp()
		pre = append(pre, stBind{x, "(" + sig.coq + " " + strings.Join(args, " ") + ")"})
		if sig.retIter {
			return pre, x, skIter
		}
		if len(sig.results) == 1 {
			return pre, x, sig.results[0]
		}
		return pre, x, stKind("tuple")
	}
	t.fail("call %s", n)
	return nil, "?", "?"
}

func (t *stTrans) ret(vals []string) string {
	var v string
	switch len(vals) {
	case 0:
		v = "tt"
	case 1:
		v = vals[0]
	default:
		v = "(" + strings.Join(vals, ", ") + ")"
	}
	if t.sig.writer {
		return "Ok (s, " + v + ")"
	}
	return "Ok " + v
}

func (t *stTrans) retStmt(r *ast.ReturnStmt) string {
	results := r.Results
	if len(results) == 0 {
		var vals []string
		for _, n := range t.named {
			if t.env[n] != skErr {
				vals = append(vals, n)
			}
		}
		return t.ret(vals)
	}
	if t.sig.hasErr {
		last := results[len(results)-1]
		if exprName(last) != "nil" {
			if ce, ok := last.(*ast.CallExpr); ok && (exprName(ce.Fun) == "sdkerrors.Wrap" || exprName(ce.Fun) == "sdkerrors.Wrapf") {
				if strings.HasPrefix(exprName(ce.Args[0]), "sdkerrors.") {
					return "Err STORE_ERR_SDK"
				}
				return "Err STORE_ERR"
			}
			t.fail("return of error %s", exprName(last))
			return "?"
		}
		results = results[:len(results)-1]
	}
	if t.sig.retIter && len(results) == 1 {
		p, v, k := t.expr(results[0])
		if k != skIter {
			t.fail("iterator result of kind %s", k)
		}
		return stWrap(p, "Ok "+v)
	}
	var pre []stBind
	var vals []string
	for i, e := range results {
		p, v, k := t.expr(e)
		pre = append(pre, p...)
		if i < len(t.sig.results) && t.sig.results[i] == skStr && (k == skDenom || k == skAddrS || k == skList(skAddrS)) {
			t.sig.results[i] = k // a Go string holding a denomination / an address
		}
		if i < len(t.sig.results) && k != t.sig.results[i] && k != "?" {
			t.fail("result %d has kind %s, expected %s", i, k, t.sig.results[i])
		}
		vals = append(vals, v)
	}
	return stWrap(pre, t.ret(vals))
}

func endsInReturn(b *ast.BlockStmt) bool {
	if len(b.List) == 0 {
		return false
	}
	_, ok := b.List[len(b.List)-1].(*ast.ReturnStmt)
	return ok
}

func (t *stTrans) stmts(list []ast.Stmt) string {
	if len(list) == 0 {
		if t.inClosure {
			t.fail("closure without return")
			return "?"
		}
		return t.retStmt(&ast.ReturnStmt{})
	}
	s, rest := list[0], list[1:]
	switch x := s.(type) {
	case *ast.DeferStmt:
		if strings.HasSuffix(exprName(x.Call.Fun), ".Close") {
			return t.stmts(rest)
		}
	case *ast.ReturnStmt:
		if t.inClosure {
			return t.closureRet(x)
		}
		return t.retStmt(x)
	case *ast.DeclStmt:
		gd := x.Decl.(*ast.GenDecl)
		if gd.Tok == token.VAR && len(gd.Specs) == 1 {
			vs := gd.Specs[0].(*ast.ValueSpec)
			if len(vs.Names) == 1 && len(vs.Values) == 0 {
				k := t.goType(vs.Type)
				t.env[vs.Names[0].Name] = k
				return "let " + vs.Names[0].Name + " := " + t.zero(k) + " in\n" + t.stmts(rest)
			}
		}
	case *ast.AssignStmt:
		return t.assign(x, rest)
	case *ast.ExprStmt:
		if c, ok := x.X.(*ast.CallExpr); ok {
			return t.callStmt(c, rest)
		}
	case *ast.IfStmt:
		return t.ifStmt(x, rest)
	case *ast.ForStmt:
		return t.forStmt(x, rest)
	}
	t.fail("statement %T", s)
	return "?"
}

func (t *stTrans) assign(x *ast.AssignStmt, rest []ast.Stmt) string {
	if len(x.Lhs) == 1 && len(x.Rhs) == 1 {
		lhs := exprName(x.Lhs[0])
		rn := exprName(x.Rhs[0])
		if lhs == "store" && strings.HasPrefix(rn, "ctx.KVStore(") {
			return t.stmts(rest)
		}
		// err := k.cdc.Unmarshal(v, &x); if err != nil { panic(err) }
		if c, ok := x.Rhs[0].(*ast.CallExpr); ok && strings.HasSuffix(exprName(c.Fun), ".cdc.Unmarshal") && len(rest) > 0 {
			if ifs, ok := rest[0].(*ast.IfStmt); ok && exprName(ifs.Cond) == "?" {
				if be, ok := ifs.Cond.(*ast.BinaryExpr); ok && exprName(be.X) == lhs && exprName(be.Y) == "nil" && be.Op == token.NEQ && len(ifs.Body.List) == 1 {
					if es, ok := ifs.Body.List[0].(*ast.ExprStmt); ok && strings.HasPrefix(exprName(es.X), "panic(") {
						return t.unmarshal(c, rest[1:])
					}
				}
			}
		}
		// x = append(x, e)
		if c, ok := x.Rhs[0].(*ast.CallExpr); ok && exprName(c.Fun) == "append" && len(c.Args) == 2 && exprName(c.Args[0]) == lhs {
			p, v, ek := t.expr(c.Args[1])
			if t.env[lhs] == skList(skStr) && ek == skAddrS {
				t.env[lhs] = skList(skAddrS) // a []string of bech32 addresses
				for i, n := range t.namedNonErr() {
					if n == lhs && i < len(t.outerSig().results) {
						t.outerSig().results[i] = skList(skAddrS)
					}
				}
			}
			return stWrap(p, "let "+lhs+" := ("+lhs+" ++ ["+v+"]) in\n"+t.stmts(rest))
		}
		p, v, k := t.expr(x.Rhs[0])
		if k == "?" {
			return "?"
		}
		if x.Tok == token.DEFINE {
			t.env[lhs] = k
		} else if old, ok := t.env[lhs]; !ok || old != k {
			t.fail("assignment to %s of kind %s (was %s)", lhs, k, old)
		}
		return stWrap(p, "let "+lhs+" := "+v+" in\n"+t.stmts(rest))
	}
	if len(x.Lhs) == 2 && len(x.Rhs) == 1 {
		c, ok := x.Rhs[0].(*ast.CallExpr)
		if ok {
			a, b := exprName(x.Lhs[0]), exprName(x.Lhs[1])
			n := exprName(c.Fun)
			// a, err := sdk.AccAddressFromBech32(e); if err != nil { return err }
			if n == "sdk.AccAddressFromBech32" && len(rest) > 0 {
				if ifs, ok := rest[0].(*ast.IfStmt); ok {
					if be, ok := ifs.Cond.(*ast.BinaryExpr); ok && exprName(be.X) == b && exprName(be.Y) == "nil" && be.Op == token.NEQ &&
						len(ifs.Body.List) == 1 {
						if rs, ok := ifs.Body.List[0].(*ast.ReturnStmt); ok && exprName(rs.Results[len(rs.Results)-1]) == b {
							p, v, k := t.expr(c.Args[0])
							if k != skAddrS {
								t.fail("AccAddressFromBech32 of %s", k)
							}
							t.env[a] = skBytes
							return stWrap(append(p, stBind{a, "(store_bech32_bytes " + v + ")"}), t.stmts(rest[1:]))
						}
					}
				}
			}
			if n == "types.AddressesFromStreamKey" {
				p, v, _ := t.expr(c)
				t.env[a], t.env[b] = skBytes, skBytes
				return stWrap(p, "let "+a+" := fst "+v+" in\nlet "+b+" := snd "+v+" in\n"+t.stmts(rest))
			}
			if strings.HasPrefix(n, "k.") {
				sig, ok := t.fns[strings.TrimPrefix(n, "k.")]
				if ok && len(sig.results) == 2 && !sig.writer {
					p, v, _ := t.expr(c)
					if a != "_" {
						t.env[a] = sig.results[0]
					}
					if b != "_" {
						t.env[b] = sig.results[1]
					}
					body := ""
					if a != "_" {
						body += "let " + a + " := fst " + v + " in\n"
					}
					if b != "_" {
						body += "let " + b + " := snd " + v + " in\n"
					}
					return stWrap(p, body+t.stmts(rest))
				}
			}
		}
	}
	t.fail("assignment %s", exprName(x.Rhs[0]))
	return "?"
}

// k.cdc.MustUnmarshal(src, &x) / Unmarshal
func (t *stTrans) unmarshal(c *ast.CallExpr, rest []ast.Stmt) string {
	ue, ok := c.Args[1].(*ast.UnaryExpr)
	if !ok || ue.Op != token.AND {
		t.fail("Unmarshal target")
		return "?"
	}
	x := exprName(ue.X)
	k, ok := t.env[x]
	if !ok {
		t.fail("Unmarshal into unknown %s", x)
		return "?"
	}
	var ctor string
	switch {
	case k.isStruct():
		ctor = k.structName()
	case k == skCoin:
		ctor = "Coin"
	default:
		t.fail("Unmarshal into %s", k)
		return "?"
	}
	var src string
	var pre []stBind
	if sn := exprName(c.Args[0]); strings.HasSuffix(sn, ".Value()") {
		src = "(Some val_)"
	} else {
		p, v, kk := t.expr(c.Args[0])
		if kk != skOpt {
			t.fail("Unmarshal of %s", kk)
		}
		pre, src = p, v
	}
	return stWrap(append(pre, stBind{x, "(" + t.spec.module + "_unmarshal_" + ctor + " " + src + ")"}), t.stmts(rest))
}

func (t *stTrans) callStmt(c *ast.CallExpr, rest []ast.Stmt) string {
	n := exprName(c.Fun)
	switch {
	case n == "store.Set":
		pk, vk, kk := t.expr(c.Args[0])
		pv, vv, kv := t.expr(c.Args[1])
		if kk != skBytes {
			t.fail("store.Set key of kind %s", kk)
		}
		switch kv {
		case skVal:
		case skBytes:
			vv = "(" + t.spec.module + "_marshal_bytes " + vv + ")"
			x := t.tmp()
			pv = append(pv, stBind{x, vv})
			vv = x
		default:
			t.fail("store.Set value of kind %s", kv)
		}
		return stWrap(append(append(pk, pv...), stBind{"s", "(okv_Set s " + vk + " " + vv + ")"}), t.stmts(rest))
	case n == "store.Delete":
		pk, vk, kk := t.expr(c.Args[0])
		if kk != skBytes {
			t.fail("store.Delete key of kind %s", kk)
		}
		return stWrap(append(pk, stBind{"s", "(okv_Delete s " + vk + ")"}), t.stmts(rest))
	case strings.HasSuffix(n, ".cdc.MustUnmarshal"):
		return t.unmarshal(c, rest)
	case strings.HasPrefix(n, "k."):
		fn := strings.TrimPrefix(n, "k.")
		sig, ok := t.fns[fn]
		if ok && sig.iter {
			return t.iterCall(sig, c, rest)
		}
	}
	t.fail("call statement %s", n)
	return "?"
}

func (t *stTrans) ifStmt(x *ast.IfStmt, rest []ast.Stmt) string {
	// if err := params.Validate(); err != nil { return err }
	if x.Init != nil {
		if as, ok := x.Init.(*ast.AssignStmt); ok && len(as.Rhs) == 1 {
			if c, ok := as.Rhs[0].(*ast.CallExpr); ok && strings.HasSuffix(exprName(c.Fun), ".Validate") && len(c.Args) == 0 {
				recv := c.Fun.(*ast.SelectorExpr).X
				p, v, k := t.expr(recv)
				if k == skStruct("Params") && len(x.Body.List) == 1 && x.Else == nil {
					return stWrap(append(p, stBind{"_", "(go_Params_Validate " + v + ")"}), t.stmts(rest))
				}
			}
		}
		t.fail("if with init")
		return "?"
	}
	if x.Else != nil {
		t.fail("if with else")
		return "?"
	}
	if !endsInReturn(x.Body) {
		// fall-through: the continuation runs after the then-branch as well
		p, v, k := t.expr(x.Cond)
		if k != skBool {
			t.fail("condition of kind %s", k)
			return "?"
		}
		save := t.snapshot()
		thenT := t.stmts(append(append([]ast.Stmt{}, x.Body.List...), rest...))
		t.restore(save)
		return stWrap(p, "if "+v+" then (\n"+thenT+")\nelse (\n"+t.stmts(rest)+")")
	}
	// if bz == nil { .. }
	if be, ok := x.Cond.(*ast.BinaryExpr); ok && be.Op == token.EQL && exprName(be.Y) == "nil" {
		p, v, k := t.expr(be.X)
		if k == skOpt {
			save := t.snapshot()
			thenT := t.stmts(x.Body.List)
			t.restore(save)
			return stWrap(p, "match "+v+" with\n| None =>\n"+thenT+"\n| Some _ =>\n"+t.stmts(rest)+"\nend")
		}
	}
	p, v, k := t.expr(x.Cond)
	if k != skBool {
		t.fail("condition of kind %s", k)
		return "?"
	}
	save := t.snapshot()
	thenT := t.stmts(x.Body.List)
	t.restore(save)
	return stWrap(p, "if "+v+" then (\n"+thenT+")\nelse (\n"+t.stmts(rest)+")")
}

func (t *stTrans) snapshot() map[string]stKind {
	m := map[string]stKind{}
	for k, v := range t.env {
		m[k] = v
	}
	return m
}
func (t *stTrans) restore(m map[string]stKind) { t.env = m }

// for ; it.Valid(); it.Next() { BODY }
func (t *stTrans) forStmt(x *ast.ForStmt, rest []ast.Stmt) string {
	if x.Init != nil || x.Cond == nil || x.Post == nil {
		t.fail("for loop shape")
		return "?"
	}
	cn := exprName(x.Cond)
	if !strings.HasSuffix(cn, ".Valid()") {
		t.fail("for condition %s", cn)
		return "?"
	}
	it := strings.TrimSuffix(cn, ".Valid()")
	if ps, ok := x.Post.(*ast.ExprStmt); !ok || exprName(ps.X) != it+".Next()" {
		t.fail("for post")
		return "?"
	}
	if t.env[it] != skIter {
		t.fail("for over %s which is not an iterator", it)
		return "?"
	}
	body := x.Body.List
	if len(body) == 0 {
		t.fail("empty loop")
		return "?"
	}
	last := body[len(body)-1]
	decodeStmts := body[:len(body)-1]
	save := t.snapshot()
	// shape 1: if cb(args) { break }
	if ifs, ok := last.(*ast.IfStmt); ok && ifs.Init == nil && ifs.Else == nil && len(ifs.Body.List) == 1 {
		if br, ok := ifs.Body.List[0].(*ast.BranchStmt); ok && br.Tok == token.BREAK {
			if c, ok := ifs.Cond.(*ast.CallExpr); ok && exprName(c.Fun) == t.cbName && t.cbName != "" {
				// decode: statements binding the callback's arguments
				t.inDecode = true
				var args []string
				for _, a := range c.Args {
					args = append(args, exprName(a))
				}
				dec := t.decode(decodeStmts, args)
				t.inDecode = false
				t.restore(save)
				t.usedCb = true
				return "do st_ <- (okv_iterate (fun key_ val_ =>\n" + dec + ") cb_ " + it + " st_);\n" + t.afterLoop(rest, "st_")
			}
		}
	}
	// shape 2: xs = append(xs, x)
	if as, ok := last.(*ast.AssignStmt); ok && len(as.Lhs) == 1 && len(as.Rhs) == 1 {
		if c, ok := as.Rhs[0].(*ast.CallExpr); ok && exprName(c.Fun) == "append" && len(c.Args) == 2 && exprName(c.Args[0]) == exprName(as.Lhs[0]) {
			xs := exprName(as.Lhs[0])
			dec := t.decode(decodeStmts, []string{exprName(c.Args[1])})
			t.restore(save)
			return "do " + xs + " <- (okv_iterate (fun key_ val_ =>\n" + dec + ") (fun acc_ a_ => Ok (acc_ ++ [a_], false)) " + it + " " + xs + ");\n" + t.stmts(rest)
		}
	}
	t.fail("loop body shape")
	return "?"
}

func (t *stTrans) afterLoop(rest []ast.Stmt, st string) string {
	if len(rest) != 0 {
		t.fail("statements after a callback loop")
		return "?"
	}
	return "Ok " + st
}

// decode renders the loop-body statements that produce the values handed to the callback / appended
func (t *stTrans) decode(list []ast.Stmt, outs []string) string {
	saveSig, saveNamed := t.sig, t.named
	t.sig = stSig{}
	t.named = nil
	t.decodeOuts = outs
	r := t.stmtsDecode(list)
	t.sig, t.named = saveSig, saveNamed
	return r
}

func (t *stTrans) stmtsDecode(list []ast.Stmt) string {
	if len(list) == 0 {
		var vals []string
		for _, o := range t.decodeOuts {
			if _, ok := t.env[o]; !ok {
				t.fail("callback argument %s is not a decoded variable", o)
			}
			vals = append(vals, o)
		}
		if len(vals) == 1 {
			return "Ok " + vals[0]
		}
		return "Ok (" + strings.Join(vals, ", ") + ")"
	}
	s, rest := list[0], list[1:]
	switch x := s.(type) {
	case *ast.DeclStmt:
		gd := x.Decl.(*ast.GenDecl)
		if gd.Tok == token.VAR && len(gd.Specs) == 1 {
			vs := gd.Specs[0].(*ast.ValueSpec)
			if len(vs.Names) == 1 && len(vs.Values) == 0 {
				k := t.goType(vs.Type)
				t.env[vs.Names[0].Name] = k
				return "let " + vs.Names[0].Name + " := " + t.zero(k) + " in\n" + t.stmtsDecode(rest)
			}
		}
	case *ast.ExprStmt:
		if c, ok := x.X.(*ast.CallExpr); ok && strings.HasSuffix(exprName(c.Fun), ".cdc.MustUnmarshal") {
			return t.unmarshalDecode(c, rest)
		}
	case *ast.AssignStmt:
		if len(x.Rhs) == 1 {
			if c, ok := x.Rhs[0].(*ast.CallExpr); ok {
				n := exprName(c.Fun)
				if strings.HasSuffix(n, ".Value") && len(c.Args) == 0 && len(x.Lhs) == 1 {
					p, v, k := t.expr(c)
					t.env[exprName(x.Lhs[0])] = k
					return stWrap(p, "let "+exprName(x.Lhs[0])+" := "+v+" in\n"+t.stmtsDecode(rest))
				}
				if strings.HasSuffix(n, ".cdc.Unmarshal") && len(rest) > 0 {
					if ifs, ok := rest[0].(*ast.IfStmt); ok && len(ifs.Body.List) == 1 {
						if es, ok := ifs.Body.List[0].(*ast.ExprStmt); ok && strings.HasPrefix(exprName(es.X), "panic(") {
							return t.unmarshalDecode(c, rest[1:])
						}
					}
				}
				if n == "types.AddressesFromStreamKey" && len(x.Lhs) == 2 {
					p, v, _ := t.expr(c)
					a, b := exprName(x.Lhs[0]), exprName(x.Lhs[1])
					t.env[a], t.env[b] = skBytes, skBytes
					return stWrap(p, "let "+a+" := fst "+v+" in\nlet "+b+" := snd "+v+" in\n"+t.stmtsDecode(rest))
				}
				if strings.HasPrefix(n, "types.") && len(x.Lhs) == 1 {
					p, v, k := t.expr(c)
					t.env[exprName(x.Lhs[0])] = k
					return stWrap(p, "let "+exprName(x.Lhs[0])+" := "+v+" in\n"+t.stmtsDecode(rest))
				}
			}
		}
	}
	t.fail("decode statement %T", s)
	return "?"
}

func (t *stTrans) unmarshalDecode(c *ast.CallExpr, rest []ast.Stmt) string {
	ue, ok := c.Args[1].(*ast.UnaryExpr)
	if !ok || ue.Op != token.AND || !strings.HasSuffix(exprName(c.Args[0]), ".Value()") {
		t.fail("Unmarshal in a loop")
		return "?"
	}
	x := exprName(ue.X)
	k := t.env[x]
	ctor := ""
	switch {
	case k.isStruct():
		ctor = k.structName()
	case k == skCoin:
		ctor = "Coin"
	default:
		t.fail("Unmarshal into %s", k)
		return "?"
	}
	return "do " + x + " <- (" + t.spec.module + "_unmarshal_" + ctor + " (Some val_));\n" + t.stmtsDecode(rest)
}

// k.IterateX(ctx, args.., func(a T) bool { .. })  followed by the rest of the function
func (t *stTrans) iterCall(sig stSig, c *ast.CallExpr, rest []ast.Stmt) string {
	fl, ok := c.Args[len(c.Args)-1].(*ast.FuncLit)
	if !ok {
		t.fail("iterate call without a function literal")
		return "?"
	}
	var pre []stBind
	args := []string{"s"}
	for i, a := range c.Args[:len(c.Args)-1] {
		if i == 0 && exprName(a) == "ctx" {
			continue
		}
		p, v, _ := t.expr(a)
		pre = append(pre, p...)
		args = append(args, v)
	}
	// captured variables assigned in the closure = the state
	assigned := map[string]bool{}
	ast.Inspect(fl.Body, func(n ast.Node) bool {
		if as, ok := n.(*ast.AssignStmt); ok && as.Tok == token.ASSIGN {
			for _, l := range as.Lhs {
				assigned[exprName(l)] = true
			}
		}
		return true
	})
	var state []string
	for v := range assigned {
		if _, ok := t.env[v]; !ok {
			t.fail("closure assigns unknown %s", v)
		}
		state = append(state, v)
	}
	sort.Strings(state)
	if len(state) == 0 {
		t.fail("closure without captured state")
		return "?"
	}
	stT := state[0]
	if len(state) > 1 {
		stT = "(" + strings.Join(state, ", ") + ")"
	}
	// closure parameters
	save := t.snapshot()
	var params []string
	for _, f := range fl.Type.Params.List {
		for _, nm := range f.Names {
			params = append(params, nm.Name)
			t.env[nm.Name] = t.goType(f.Type)
		}
	}
	if len(params) != len(sig.cbArgs) {
		t.fail("closure arity")
	}
	pT := params[0]
	if len(params) > 1 {
		pT = "(" + strings.Join(params, ", ") + ")"
	}
	t.inClosure = true
	t.closureState = state
	saveSig := t.sig
	body := t.stmts(fl.Body.List)
	t.sig = saveSig
	t.inClosure = false
	t.restore(save)
	return stWrap(append(pre, stBind{stT, "(" + sig.coq + " " + strings.Join(args, " ") + " (fun '" + tupleOrName(stT) + " '" + tupleOrName(pT) + " =>\n" + body + ") " + stT + ")"}), t.stmts(rest))
}

func tupleOrName(s string) string {
	if strings.HasPrefix(s, "(") {
		return s
	}
	return "(" + s + ")"
}

func (t *stTrans) closureRet(r *ast.ReturnStmt) string {
	if len(r.Results) != 1 {
		t.fail("closure return")
		return "?"
	}
	p, v, k := t.expr(r.Results[0])
	if k != skBool {
		t.fail("closure returns %s", k)
	}
	st := t.closureState[0]
	if len(t.closureState) > 1 {
		st = "(" + strings.Join(t.closureState, ", ") + ")"
	}
	return stWrap(p, "Ok ("+st+", "+v+")")
}

func (t *stTrans) sigOf(fd *ast.FuncDecl) stSig {
	sig := stSig{coq: "go_st_" + fd.Name.Name}
	for _, f := range fd.Type.Params.List {
		ty := exprName(f.Type)
		if ty == "sdk.Context" {
			continue
		}
		if ft, ok := f.Type.(*ast.FuncType); ok {
			sig.iter = true
			t.cbName = f.Names[0].Name
			for _, pf := range ft.Params.List {
				n := len(pf.Names)
				if n == 0 {
					n = 1
				}
				for i := 0; i < n; i++ {
					sig.cbArgs = append(sig.cbArgs, t.goType(pf.Type))
				}
			}
			continue
		}
		k := t.goType(f.Type)
		if k == "?" {
			t.fail("parameter type %s", ty)
		}
		for _, nm := range f.Names {
			sig.params = append(sig.params, k)
			t.env[nm.Name] = k
		}
	}
	if fd.Type.Results != nil {
		for _, f := range fd.Type.Results.List {
			k := t.goType(f.Type)
			if k == skErr {
				sig.hasErr = true
				for _, nm := range f.Names {
					t.named = append(t.named, nm.Name)
					t.namedAll = append(t.namedAll, nm.Name)
					t.env[nm.Name] = skErr
				}
				continue
			}
			if k == skIter {
				sig.retIter = true
			}
			if k == "?" {
				t.fail("result type %s", exprName(f.Type))
			}
			n := len(f.Names)
			if n == 0 {
				sig.results = append(sig.results, k)
			}
			for _, nm := range f.Names {
				sig.results = append(sig.results, k)
				t.named = append(t.named, nm.Name)
				t.namedAll = append(t.namedAll, nm.Name)
				t.env[nm.Name] = k
			}
		}
	}
	ast.Inspect(fd.Body, func(n ast.Node) bool {
		if c, ok := n.(*ast.CallExpr); ok {
			cn := exprName(c.Fun)
			if cn == "store.Set" || cn == "store.Delete" {
				sig.writer = true
			}
			if strings.HasPrefix(cn, "k.") {
				if s2, ok := t.fns[strings.TrimPrefix(cn, "k.")]; ok && s2.writer {
					sig.writer = true
				}
			}
		}
		return true
	})
	return sig
}

func (t *stTrans) resultType() string {
	var rs []string
	for _, r := range t.sig.results {
		rs = append(rs, t.coqType(r))
	}
	r := "unit"
	if len(rs) == 1 {
		r = rs[0]
	} else if len(rs) > 1 {
		r = "(" + strings.Join(rs, " * ") + ")"
	}
	if t.sig.retIter {
		r = t.coqType(skIter)
	}
	if t.sig.writer {
		return "outcome (okv " + t.spec.module + "_val * " + r + ")"
	}
	return "outcome " + r
}

func translateStoreFunc(spec *storeSpec, fd *ast.FuncDecl, fns map[string]stSig) (string, stSig, []string) {
	t := &stTrans{spec: spec, env: map[string]stKind{}, fns: fns}
	t.sig = t.sigOf(fd)
	var ps []string
	i := 0
	for _, f := range fd.Type.Params.List {
		if exprName(f.Type) == "sdk.Context" {
			continue
		}
		if _, ok := f.Type.(*ast.FuncType); ok {
			continue
		}
		for _, nm := range f.Names {
			ps = append(ps, "("+nm.Name+" : "+t.coqType(t.sig.params[i])+")")
			i++
		}
	}
	// named results start at their zero values
	var inits string
	for _, n := range t.named {
		if t.env[n] != skErr {
			inits += "let " + n + " := " + t.zero(t.env[n]) + " in\n"
		}
	}
	body := t.stmts(fd.Body.List)
	if t.sig.iter && !t.usedCb {
		t.fail("callback parameter never used in the iterate shape")
	}
	var sb strings.Builder
	hdr := "Definition " + t.sig.coq
	if t.sig.iter {
		var as []string
		for _, a := range t.sig.cbArgs {
			as = append(as, t.coqType(a))
		}
		aT := strings.Join(as, " * ")
		hdr += " {St : Type} (s : okv " + spec.module + "_val) " + strings.Join(ps, " ") + " (cb_ : St -> " + aT + " -> outcome (St * bool)) (st_ : St) : outcome St :=\n"
	} else {
		hdr += " (s : okv " + spec.module + "_val) " + strings.Join(ps, " ") + " : " + t.resultType() + " :=\n"
	}
	sb.WriteString(hdr + inits + body + ".\n")
	return sb.String(), t.sig, t.errs
}

func writeStore(repo string, spec storeSpec, out string) {
	cur = modules[spec.module]
	loadStructs(repo)
	decls := map[string]*ast.FuncDecl{}
	var storeUsers []string
	for _, fn := range spec.files {
		f := parseFile(filepath.Join(repo, "x", spec.module, "keeper", fn))
		for _, d := range f.Decls {
			fd, ok := d.(*ast.FuncDecl)
			if !ok || fd.Body == nil || fd.Recv == nil {
				continue
			}
			decls[fd.Name.Name] = fd
			uses := false
			ast.Inspect(fd.Body, func(n ast.Node) bool {
				if c, ok := n.(*ast.CallExpr); ok {
					cn := exprName(c.Fun)
					if cn == "ctx.KVStore" || strings.HasPrefix(cn, "sdk.KVStore") {
						uses = true
					}
				}
				return true
			})
			if uses {
				storeUsers = append(storeUsers, fd.Name.Name)
			}
		}
	}
	sort.Strings(storeUsers)
	var sb strings.Builder
	sb.WriteString("(* GENERATED by /verif/translator (gostore.go) from /repo/x/" + spec.module + "/keeper/{" + strings.Join(spec.files, ",") + "} on every check.\n")
	sb.WriteString("   The store accessors of the keeper, rendered against the ordered byte-keyed store of model/KVStore.v and the key\n")
	sb.WriteString("   builders of GeneratedKeys.v.  proofs/Generated*StoreEq.v prove them to implement the maps the keeper-level\n")
	sb.WriteString("   translation uses as primitives.  Do not edit. *)\n")
	sb.WriteString("From Coq Require Import String NArith.\nFrom MC Require Import lib.Prelude lib.GoSdk model.Keys model.KeyPrims model.KVStore model.StoreCodecPrims GeneratedKeys " + spec.typesMod + " " + spec.keepMod + ".\nOpen Scope Z_scope.\n\n")
	// value type: one constructor per marshalled type, found by scanning the wanted functions
	ctors := map[string]string{}
	fnsTmp := map[string]stSig{}
	_ = fnsTmp
	for _, w := range spec.want {
		fd, ok := decls[w]
		if !ok {
			continue
		}
		tt := &stTrans{spec: &spec, env: map[string]stKind{}, fns: map[string]stSig{}}
		tt.sigOf(fd)
		locals := map[string]stKind{}
		for k, v := range tt.env {
			locals[k] = v
		}
		ast.Inspect(fd.Body, func(n ast.Node) bool {
			if ds, ok := n.(*ast.DeclStmt); ok {
				if gd := ds.Decl.(*ast.GenDecl); gd.Tok == token.VAR {
					for _, sp := range gd.Specs {
						vs := sp.(*ast.ValueSpec)
						for _, nm := range vs.Names {
							if vs.Type != nil {
								locals[nm.Name] = tt.goType(vs.Type)
							}
						}
					}
				}
			}
			if c, ok := n.(*ast.CallExpr); ok {
				cn := exprName(c.Fun)
				if strings.HasSuffix(cn, ".cdc.MustMarshal") || strings.HasSuffix(cn, ".cdc.MustUnmarshal") || strings.HasSuffix(cn, ".cdc.Unmarshal") {
					arg := c.Args[len(c.Args)-1]
					if ue, ok := arg.(*ast.UnaryExpr); ok {
						k := locals[exprName(ue.X)]
						if k.isStruct() {
							ctors[k.structName()] = "go_" + k.structName()
						} else if k == skCoin {
							ctors["Coin"] = "go_coin"
						}
					}
				}
			}
			return true
		})
	}
	var cn []string
	for c := range ctors {
		cn = append(cn, c)
	}
	sort.Strings(cn)
	sb.WriteString("(* what the module's store holds: one constructor per protobuf message it marshals, raw bytes otherwise *)\n")
	sb.WriteString("Inductive " + spec.module + "_val :=\n")
	for _, c := range cn {
		sb.WriteString("| " + spec.valCtor + "_" + c + " (x : " + ctors[c] + ")\n")
	}
	sb.WriteString("| " + spec.valCtor + "_bytes (b : list N).\n\n")
	for _, c := range cn {
		if spec.checked[c] {
			sb.WriteString("Definition " + spec.module + "_marshal_" + c + " (x : " + ctors[c] + ") : outcome " + spec.module + "_val :=\n  do _ <- marshal_check_" + c + " x; Ok (" + spec.valCtor + "_" + c + " x).\n")
		} else {
			sb.WriteString("Definition " + spec.module + "_marshal_" + c + " (x : " + ctors[c] + ") : outcome " + spec.module + "_val := Ok (" + spec.valCtor + "_" + c + " x).\n")
		}
		zero := "zero_go_" + c
		if c == "Coin" {
			zero = "go_zero_coin"
		}
		sb.WriteString("Definition " + spec.module + "_unmarshal_" + c + " (o : option " + spec.module + "_val) : outcome " + ctors[c] + " :=\n  match o with Some (" + spec.valCtor + "_" + c + " x) => Ok x | None => Ok " + zero + " | Some _ => Panic OKV_PANIC_UNMARSHAL end.\n")
	}
	sb.WriteString("Definition " + spec.module + "_marshal_bytes (b : list N) : outcome " + spec.module + "_val := Ok (" + spec.valCtor + "_bytes b).\n")
	sb.WriteString("Definition " + spec.module + "_unmarshal_bytes (o : option " + spec.module + "_val) : outcome (list N) :=\n  match o with Some (" + spec.valCtor + "_bytes b) => Ok b | None => Ok [] | Some _ => Panic OKV_PANIC_UNMARSHAL end.\n\n")
	if spec.section {
		sb.WriteString("(* sdk.AccAddressFromBech32 of a stored owner string / AccAddress.String(): the conversions between the abstract\n   address of the records and its bytes are parameters of the accessors *)\nSection Accessors.\nVariable store_bech32_bytes : go_addr -> outcome (list N).\nVariable store_addr_string : list N -> go_addr.\n\n")
	}
	fns := map[string]stSig{}
	var done, failed []string
	for _, w := range spec.want {
		fd, ok := decls[w]
		if !ok {
			failed = append(failed, w)
			sb.WriteString("(* NOT FOUND: " + w + " *)\n\n")
			continue
		}
		def, sig, errs := translateStoreFunc(&spec, fd, fns)
		if len(errs) > 0 {
			failed = append(failed, w)
			sb.WriteString("(* NOT TRANSLATED " + w + ": " + strings.Join(errs, "; ") + " *)\n\n")
			continue
		}
		fns[w] = sig
		done = append(done, w)
		sb.WriteString(def + "\n")
	}
	if spec.section {
		sb.WriteString("End Accessors.\n\n")
	}
	q := func(xs []string) string {
		var o []string
		for _, x := range xs {
			o = append(o, "\""+x+"\"")
		}
		return "[" + strings.Join(o, "; ") + "]%string"
	}
	var others []string
	wanted := map[string]bool{}
	for _, w := range spec.want {
		wanted[w] = true
	}
	for _, u := range storeUsers {
		if !wanted[u] {
			others = append(others, u)
		}
	}
	sb.WriteString("Definition " + spec.module + "_store_functions : list String.string := " + q(done) + ".\n")
	sb.WriteString("Definition " + spec.module + "_store_functions_failed : list String.string := " + q(failed) + ".\n")
	sb.WriteString("(* functions of the same files that touch the store and are not in the list above *)\n")
	sb.WriteString("Definition " + spec.module + "_store_functions_other : list String.string := " + q(others) + ".\n")
	if err := os.WriteFile(out, []byte(sb.String()), 0o644); err != nil {
		fmt.Fprintln(os.Stderr, err)
		os.Exit(1)
	}
}
