package main

// Go -> Gallina translator for types/denom.go: ConvertUndDenomination (big.Rat arithmetic on decimal strings).
// Output: coq/GeneratedDenom.v with the package's string constants, `nundPerFund`, and
//     go_ConvertUndDenomination (amount from to : string) : outcome string
// against the primitives of model/DenomPrims.v (big.Rat / big.Int on non-negative values: SetString, SetInt, Mul, Quo,
// Num, Denom, Int.Quo, Int.String, FloatString(9)).
//
// Supported subset: `if a == b { return .. }`, `switch x { case C: .. }` on strings (no fallthrough), `v, ok := e`,
// `if !ok { return "", fmt.Errorf(..) }`, `x := e`, `return e, nil`, string concatenation with +,
// new(big.Rat).SetString(s) / .SetInt(n), r.Mul(a, b) / r.Quo(a, b) (the receiver is overwritten and returned: the
// result is the value, and the receiver variable may not be read again), new(big.Int).Quo(a, b), r.Num(), r.Denom(),
// i.String(), r.FloatString(9).

import (
	"fmt"
	"go/ast"
	"go/token"
	"os"
	"path/filepath"
	"strings"
)

type dnT string

const (
	dnStr  dnT = "string"
	dnRat  dnT = "go_rat"
	dnInt  dnT = "N"
	dnBool dnT = "bool"
	dnBad  dnT = "?"
)

type dnTrans struct {
	env    map[string]dnT
	dead   map[string]bool // big.Rat variables overwritten through a method call: reading them again is not supported
	consts map[string]dnT
	errs   []string
	fresh  int
	pre    []string
}

func (d *dnTrans) fail(f string, a ...interface{}) { d.errs = append(d.errs, fmt.Sprintf(f, a...)) }
func (d *dnTrans) bind(term string) string {
	d.fresh++
	t := fmt.Sprintf("t%d_", d.fresh)
	d.pre = append(d.pre, "do "+t+" <- "+term+";\n")
	return t
}
func (d *dnTrans) flush() string { s := strings.Join(d.pre, ""); d.pre = nil; return s }

func isNew(e ast.Expr, typ string) bool {
	ce, ok := e.(*ast.CallExpr)
	return ok && exprName(ce.Fun) == "new" && len(ce.Args) == 1 && exprName(ce.Args[0]) == typ
}

func (d *dnTrans) expr(e ast.Expr) (string, dnT) {
	switch t := e.(type) {
	case *ast.ParenExpr:
		return d.expr(t.X)
	case *ast.Ident:
		if d.dead[t.Name] {
			d.fail("%s is read after it was overwritten by a big.Rat method", t.Name)
		}
		if ty, ok := d.env[t.Name]; ok {
			return t.Name, ty
		}
		if ty, ok := d.consts[t.Name]; ok {
			return "types_" + t.Name, ty
		}
		d.fail("unknown identifier %s", t.Name)
		return "?", dnBad
	case *ast.BasicLit:
		if t.Kind == token.STRING {
			return "(" + t.Value + ")%string", dnStr
		}
	case *ast.UnaryExpr:
		if t.Op == token.NOT {
			a, ta := d.expr(t.X)
			if ta != dnBool {
				d.fail("! on %s", ta)
			}
			return "(negb " + a + ")", dnBool
		}
	case *ast.BinaryExpr:
		a, ta := d.expr(t.X)
		b, tb := d.expr(t.Y)
		if ta == dnStr && tb == dnStr {
			switch t.Op {
			case token.ADD:
				return "(" + a + " ++ " + b + ")%string", dnStr
			case token.EQL:
				return "(String.eqb " + a + " " + b + ")", dnBool
			}
		}
		d.fail("unsupported %s on %s, %s", t.Op, ta, tb)
		return "?", dnBad
	case *ast.CallExpr:
		sel, ok := t.Fun.(*ast.SelectorExpr)
		if !ok {
			break
		}
		m := sel.Sel.Name
		// constructors on a fresh value
		if isNew(sel.X, "big.Rat") {
			switch {
			case m == "SetInt" && len(t.Args) == 1:
				a, ta := d.expr(t.Args[0])
				if ta != dnInt {
					d.fail("SetInt of %s", ta)
				}
				return "(Rat_SetInt " + a + ")", dnRat
			}
		}
		if isNew(sel.X, "big.Int") && m == "Quo" && len(t.Args) == 2 {
			a, ta := d.expr(t.Args[0])
			b, tb := d.expr(t.Args[1])
			if ta != dnInt || tb != dnInt {
				d.fail("Int.Quo of %s, %s", ta, tb)
			}
			return d.bind("(BigInt_Quo " + a + " " + b + ")"), dnInt
		}
		// methods on a value
		if id, isId := sel.X.(*ast.Ident); isId && d.env[id.Name] == dnRat && (m == "Mul" || m == "Quo") && len(t.Args) == 2 {
			a, ta := d.expr(t.Args[0])
			b, tb := d.expr(t.Args[1])
			if ta != dnRat || tb != dnRat {
				d.fail("Rat.%s of %s, %s", m, ta, tb)
			}
			d.dead[id.Name] = true // the receiver now holds the result
			if m == "Mul" {
				return "(Rat_Mul " + a + " " + b + ")", dnRat
			}
			return d.bind("(Rat_Quo " + a + " " + b + ")"), dnRat
		}
		r, tr := d.expr(sel.X)
		switch {
		case tr == dnRat && m == "Num" && len(t.Args) == 0:
			return "(Rat_Num " + r + ")", dnInt
		case tr == dnRat && m == "Denom" && len(t.Args) == 0:
			return "(Rat_Denom " + r + ")", dnInt
		case tr == dnInt && m == "String" && len(t.Args) == 0:
			return "(BigInt_String " + r + ")", dnStr
		case tr == dnRat && m == "FloatString" && len(t.Args) == 1 && exprName(t.Args[0]) == "9":
			return "(Rat_FloatString9 " + r + ")", dnStr
		}
		d.fail("unsupported method %s on %s", m, tr)
		return "?", dnBad
	}
	d.fail("unsupported expression %T", e)
	return "?", dnBad
}

func (d *dnTrans) stmts(list []ast.Stmt) string {
	if len(list) == 0 {
		d.fail("control reaches the end of a block")
		return "?"
	}
	s, rest := list[0], list[1:]
	switch t := s.(type) {
	case *ast.ReturnStmt:
		if len(t.Results) != 2 {
			break
		}
		if exprName(t.Results[1]) == "nil" {
			v, ty := d.expr(t.Results[0])
			if ty != dnStr {
				d.fail("return of %s", ty)
			}
			return d.flush() + "Ok " + v
		}
		if ce, ok := t.Results[1].(*ast.CallExpr); ok && exprName(ce.Fun) == "fmt.Errorf" {
			return d.flush() + "Err types_ErrInvalidAmount"
		}
	case *ast.AssignStmt:
		if len(t.Rhs) != 1 || t.Tok != token.DEFINE {
			break
		}
		if len(t.Lhs) == 2 {
			// x, ok := new(big.Rat).SetString(s)
			ce, ok := t.Rhs[0].(*ast.CallExpr)
			if ok {
				if sel, isSel := ce.Fun.(*ast.SelectorExpr); isSel && isNew(sel.X, "big.Rat") && sel.Sel.Name == "SetString" && len(ce.Args) == 1 {
					a, ta := d.expr(ce.Args[0])
					if ta != dnStr {
						d.fail("SetString of %s", ta)
					}
					x, okn := exprName(t.Lhs[0]), exprName(t.Lhs[1])
					d.env[x], d.env[okn] = dnRat, dnBool
					delete(d.dead, x)
					return d.flush() + "let '(" + x + ", " + okn + ") := (Rat_SetString " + a + ") in\n" + d.stmts(rest)
				}
			}
			break
		}
		if len(t.Lhs) == 1 {
			v, ty := d.expr(t.Rhs[0])
			x := exprName(t.Lhs[0])
			d.env[x] = ty
			delete(d.dead, x)
			return d.flush() + "let " + x + " := " + v + " in\n" + d.stmts(rest)
		}
	case *ast.IfStmt:
		if t.Init != nil || t.Else != nil {
			break
		}
		c, tc := d.expr(t.Cond)
		if tc != dnBool {
			d.fail("condition of type %s", tc)
		}
		pre := d.flush()
		saved := map[string]dnT{}
		for k, v := range d.env {
			saved[k] = v
		}
		th := d.stmts(t.Body.List) // the branches of this function all return
		d.env = saved
		return pre + "if " + c + " then (\n" + th + ")\nelse (\n" + d.stmts(rest) + ")"
	case *ast.SwitchStmt:
		if t.Init != nil || t.Tag == nil {
			break
		}
		tag, tt := d.expr(t.Tag)
		if tt != dnStr {
			d.fail("switch on %s", tt)
		}
		out := d.flush()
		closeP := ""
		for _, cl := range t.Body.List {
			cc := cl.(*ast.CaseClause)
			if len(cc.List) != 1 {
				d.fail("unsupported case clause")
				return "?"
			}
			c, tc := d.expr(cc.List[0])
			if tc != dnStr {
				d.fail("case of type %s", tc)
			}
			saved := map[string]dnT{}
			for k, v := range d.env {
				saved[k] = v
			}
			savedDead := map[string]bool{}
			for k, v := range d.dead {
				savedDead[k] = v
			}
			body := d.stmts(cc.Body) // every case of this function returns
			d.env, d.dead = saved, savedDead
			out += "if (String.eqb " + tag + " " + c + ") then (\n" + body + ")\nelse (\n"
			closeP += ")"
		}
		return out + d.stmts(rest) + closeP
	}
	d.fail("unsupported statement %T", s)
	return "?"
}

func writeDenom(repo, out string) {
	f := parseFile(filepath.Join(repo, "types", "denom.go"))
	var sb strings.Builder
	sb.WriteString("(* GENERATED by /verif/translator (godenom.go) from /repo/types/denom.go on every check.  Do not edit. *)\n")
	sb.WriteString("From Coq Require Import String NArith.\nFrom MC Require Import lib.Prelude model.DenomPrims.\n\n")
	consts := map[string]dnT{}
	for _, dcl := range f.Decls {
		gd, ok := dcl.(*ast.GenDecl)
		if !ok {
			continue
		}
		for _, sp := range gd.Specs {
			vs, ok := sp.(*ast.ValueSpec)
			if !ok || len(vs.Names) != 1 || len(vs.Values) != 1 {
				continue
			}
			n := vs.Names[0].Name
			switch v := vs.Values[0].(type) {
			case *ast.BasicLit:
				if v.Kind == token.STRING {
					consts[n] = dnStr
					sb.WriteString(fmt.Sprintf("Definition types_%s : string := %s%%string.\n", n, v.Value))
				}
			case *ast.Ident: // an alias of another string constant
				if consts[v.Name] == dnStr {
					consts[n] = dnStr
					sb.WriteString(fmt.Sprintf("Definition types_%s : string := types_%s.\n", n, v.Name))
				}
			case *ast.CallExpr: // big.NewInt(k)
				if exprName(v.Fun) == "big.NewInt" && len(v.Args) == 1 {
					if bl, ok := v.Args[0].(*ast.BasicLit); ok && bl.Kind == token.INT {
						consts[n] = dnInt
						sb.WriteString(fmt.Sprintf("Definition types_%s : N := %s%%N.\n", n, bl.Value))
					}
				}
			}
		}
	}
	sb.WriteString("\n")
	found := false
	for _, dcl := range f.Decls {
		fd, ok := dcl.(*ast.FuncDecl)
		if !ok || fd.Name.Name != "ConvertUndDenomination" || fd.Body == nil {
			continue
		}
		found = true
		d := &dnTrans{env: map[string]dnT{}, dead: map[string]bool{}, consts: consts}
		var ps []string
		for _, p := range fd.Type.Params.List {
			if exprName(p.Type) != "string" {
				d.fail("parameter of type %s", exprName(p.Type))
			}
			for _, n := range p.Names {
				d.env[n.Name] = dnStr
				ps = append(ps, "("+n.Name+" : string)")
			}
		}
		body := d.stmts(fd.Body.List)
		if len(d.errs) > 0 {
			sb.WriteString("(* NOT TRANSLATED ConvertUndDenomination: " + strings.Join(d.errs, "; ") + " *)\n")
		} else {
			sb.WriteString("Definition go_ConvertUndDenomination " + strings.Join(ps, " ") + " : outcome string :=\n" + body + ".\n")
		}
	}
	if !found {
		sb.WriteString("(* NOT FOUND ConvertUndDenomination *)\n")
	}
	os.WriteFile(out, []byte(sb.String()), 0o644)
}
