package main

// Go -> Gallina translator for the store-key builders and parsers of the four modules' types/keys.go.
// Output: coq/GeneratedKeys.v, one Definition per function over byte strings ([list N], one N < 256 per byte):
//     go_<module>_<F> args : outcome result
// and one constant per package-level `X = []byte{..}` variable.  A Go panic (index / slice out of range, an explicit
// panic, MustLengthPrefix, AssertKeyAtLeastLength) is the [Panic] outcome.
//
// Supported subset (anything else makes the function NOT TRANSLATED, which breaks the build and hence an obligation):
//   parameters and results of type uint64 / int / byte (N), []byte / sdk.AccAddress (list N); named results with a
//   naked return; x := e, x = e, a, b := f(..); make([]byte, n); binary.BigEndian.PutUint64(x, v) (rebinds x);
//   binary.BigEndian.Uint64(x); append(a, b...); a[i]; a[i:], a[i:j]; len(a); int(..); + on ints; == and != on ints;
//   if c { panic(..) }; calls of the package's own functions; acc.Bytes(); sdk.AccAddress(x);
//   address.MustLengthPrefix, sdk.ParseLengthPrefixedBytes, kv.AssertKeyAtLeastLength (primitives of model/KeyPrims.v).
// Integers are non-negative here (they come from bytes, lengths and sums); subtraction is not supported.

import (
	"fmt"
	"go/ast"
	"go/token"
	"os"
	"path/filepath"
	"sort"
	"strings"
)

type kyT string

const (
	kyN    kyT = "N"
	kyB    kyT = "(list N)"
	kyBool kyT = "bool"
	kyBad  kyT = "?"
)

func kyType(e ast.Expr) kyT {
	if at, ok := e.(*ast.ArrayType); ok && at.Len == nil && exprName(at.Elt) == "byte" {
		return kyB
	}
	switch exprName(e) {
	case "uint64", "int", "byte":
		return kyN
	case "sdk.AccAddress":
		return kyB
	}
	return kyBad
}

type kyFn struct {
	coq     string
	results []kyT
}

type kyTrans struct {
	mod      string
	env      map[string]kyT
	consts   map[string]bool
	funcs    map[string]kyFn
	named    []string // named results (for a naked return)
	errs     []string
	fresh    int
	pre      []string // pending monadic bindings of the statement being translated
	callback bool     // translating the callback of a GenericFilteredPaginate call
}

func (k *kyTrans) fail(f string, a ...interface{}) { k.errs = append(k.errs, fmt.Sprintf(f, a...)) }
func (k *kyTrans) tmp() string                     { k.fresh++; return fmt.Sprintf("t%d_", k.fresh) }
func (k *kyTrans) bind(term string) string {
	t := k.tmp()
	k.pre = append(k.pre, "do "+t+" <- "+term+";\n")
	return t
}
func (k *kyTrans) flush() string {
	s := strings.Join(k.pre, "")
	k.pre = nil
	return s
}

var kyPrims = map[string]kyFn{
	"binary.BigEndian.Uint64":        {"be_Uint64", []kyT{kyN}},
	"address.MustLengthPrefix":       {"address_MustLengthPrefix", []kyT{kyB}},
	"sdk.ParseLengthPrefixedBytes":   {"sdk_ParseLengthPrefixedBytes", []kyT{kyB, kyN}},
	"types.ParseLengthPrefixedBytes": {"sdk_ParseLengthPrefixedBytes", []kyT{kyB, kyN}},
}

func (k *kyTrans) expr(e ast.Expr) (string, kyT) {
	switch t := e.(type) {
	case *ast.ParenExpr:
		return k.expr(t.X)
	case *ast.Ident:
		if ty, ok := k.env[t.Name]; ok {
			return t.Name, ty
		}
		if k.consts[t.Name] {
			return k.mod + "_" + t.Name, kyB
		}
		k.fail("unknown identifier %s", t.Name)
		return "?", kyBad
	case *ast.BasicLit:
		if t.Kind == token.INT {
			return t.Value, kyN
		}
	case *ast.SelectorExpr:
		if id, ok := t.X.(*ast.Ident); ok && id.Name == "types" && k.consts[t.Sel.Name] {
			return k.mod + "_" + t.Sel.Name, kyB
		}
	case *ast.UnaryExpr:
		if t.Op == token.NOT {
			a, ta := k.expr(t.X)
			if ta != kyBool {
				k.fail("! on %s", ta)
			}
			return "(negb " + a + ")", kyBool
		}
	case *ast.BinaryExpr:
		a, ta := k.expr(t.X)
		b, tb := k.expr(t.Y)
		if ta != kyN || tb != kyN {
			k.fail("binary %s on %s, %s", t.Op, ta, tb)
			return "?", kyBad
		}
		switch t.Op {
		case token.ADD:
			return "(" + a + " + " + b + ")", kyN
		case token.EQL:
			return "(" + a + " =? " + b + ")", kyBool
		case token.NEQ:
			return "(negb (" + a + " =? " + b + "))", kyBool
		}
		k.fail("unsupported operator %s", t.Op)
		return "?", kyBad
	case *ast.IndexExpr:
		a, ta := k.expr(t.X)
		i, ti := k.expr(t.Index)
		if ta != kyB || ti != kyN {
			k.fail("index %s[%s]", ta, ti)
			return "?", kyBad
		}
		return k.bind("(bytes_index " + a + " " + i + ")"), kyN
	case *ast.SliceExpr:
		a, ta := k.expr(t.X)
		if ta != kyB || t.Slice3 {
			k.fail("slice of %s", ta)
			return "?", kyBad
		}
		lo := "0"
		if t.Low != nil {
			l, tl := k.expr(t.Low)
			if tl != kyN {
				k.fail("slice bound %s", tl)
			}
			lo = l
		}
		if t.High == nil {
			return k.bind("(bytes_from " + a + " " + lo + ")"), kyB
		}
		h, th := k.expr(t.High)
		if th != kyN {
			k.fail("slice bound %s", th)
		}
		return k.bind("(bytes_slice " + a + " " + lo + " " + h + ")"), kyB
	case *ast.CallExpr:
		name := exprName(t.Fun)
		switch {
		case name == "len" && len(t.Args) == 1:
			a, ta := k.expr(t.Args[0])
			if ta != kyB {
				k.fail("len of %s", ta)
			}
			return "(bytes_len " + a + ")", kyN
		case (name == "int" || name == "uint64") && len(t.Args) == 1:
			a, ta := k.expr(t.Args[0])
			if ta != kyN {
				k.fail("%s of %s", name, ta)
			}
			return a, kyN
		case name == "sdk.AccAddress" && len(t.Args) == 1:
			a, ta := k.expr(t.Args[0])
			if ta != kyB {
				k.fail("AccAddress of %s", ta)
			}
			return a, kyB
		case name == "append" && len(t.Args) == 2 && t.Ellipsis != token.NoPos:
			a, ta := k.expr(t.Args[0])
			b, tb := k.expr(t.Args[1])
			if ta != kyB || tb != kyB {
				k.fail("append(%s, %s...)", ta, tb)
			}
			return "(" + a + " ++ " + b + ")", kyB
		case name == "make" && len(t.Args) == 2 && kyType(t.Args[0]) == kyB:
			n, tn := k.expr(t.Args[1])
			if tn != kyN {
				k.fail("make with %s", tn)
			}
			return "(bytes_make " + n + ")", kyB
		}
		if sel, ok := t.Fun.(*ast.SelectorExpr); ok && (sel.Sel.Name == "Bytes" || sel.Sel.Name == "String") && len(t.Args) == 0 {
			if id, isId := sel.X.(*ast.Ident); isId && k.env[id.Name] == kyB {
				// AccAddress.Bytes(); AccAddress.String(): the bech32 text of an address stands for the address
				return id.Name, kyB
			}
		}
		if sel, ok := t.Fun.(*ast.SelectorExpr); ok && sel.Sel.Name == "Equals" && len(t.Args) == 1 {
			a, ta := k.expr(sel.X)
			b, tb := k.expr(t.Args[0])
			if ta == kyB && tb == kyB {
				return "(key_eqb " + a + " " + b + ")", kyBool // AccAddress.Equals: bytes.Equal
			}
		}
		fn, ok := kyPrims[name]
		if !ok {
			fn, ok = k.funcs[name]
		}
		if !ok {
			fn, ok = k.funcs[strings.TrimPrefix(name, "types.")]
		}
		if !ok {
			k.fail("unsupported call %s", name)
			return "?", kyBad
		}
		if len(fn.results) != 1 {
			k.fail("call %s used as a single value", name)
			return "?", kyBad
		}
		return k.bind(k.callTerm(fn, t.Args)), fn.results[0]
	}
	k.fail("unsupported expression %T", e)
	return "?", kyBad
}

func (k *kyTrans) callTerm(fn kyFn, args []ast.Expr) string {
	parts := []string{fn.coq}
	for _, a := range args {
		v, _ := k.expr(a)
		parts = append(parts, v)
	}
	if len(parts) == 1 {
		return fn.coq
	}
	return "(" + strings.Join(parts, " ") + ")"
}

func (k *kyTrans) ret(vals []string) string {
	if len(vals) == 1 {
		return "Ok " + vals[0]
	}
	return "Ok (" + strings.Join(vals, ", ") + ")"
}

func (k *kyTrans) stmts(list []ast.Stmt) string {
	if len(list) == 0 {
		k.fail("control reaches the end of the function")
		return "?"
	}
	s, rest := list[0], list[1:]
	switch t := s.(type) {
	case *ast.ReturnStmt:
		if k.callback {
			// (result, error) of a GenericFilteredPaginate callback: nil, nil = no hit; a StreamResult = a hit
			if len(t.Results) != 2 || exprName(t.Results[1]) != "nil" {
				k.fail("unsupported callback return")
				return "?"
			}
			if exprName(t.Results[0]) == "nil" {
				return k.flush() + "Ok None"
			}
			ue, ok := t.Results[0].(*ast.UnaryExpr)
			var cl *ast.CompositeLit
			if ok && ue.Op == token.AND {
				cl, _ = ue.X.(*ast.CompositeLit)
			}
			if cl == nil || exprName(cl.Type) != "types.StreamResult" {
				k.fail("unsupported callback result")
				return "?"
			}
			vals := map[string]string{}
			for _, el := range cl.Elts {
				kv, ok := el.(*ast.KeyValueExpr)
				if !ok {
					k.fail("positional struct literal")
					continue
				}
				switch exprName(kv.Key) {
				case "Receiver", "Sender":
					v, ty := k.expr(kv.Value)
					if ty != kyB {
						k.fail("%s of type %s", exprName(kv.Key), ty)
					}
					vals[exprName(kv.Key)] = v
				case "Stream":
					if exprName(kv.Value) != "stream" {
						k.fail("the reported stream is not the stored one")
					}
				default:
					k.fail("unexpected field %s", exprName(kv.Key))
				}
			}
			if vals["Receiver"] == "" || vals["Sender"] == "" {
				k.fail("result without receiver / sender")
			}
			return k.flush() + "Ok (Some (" + vals["Receiver"] + ", " + vals["Sender"] + "))"
		}
		var vals []string
		if len(t.Results) == 0 {
			vals = append(vals, k.named...)
			if len(vals) == 0 {
				k.fail("naked return without named results")
			}
		}
		for _, r := range t.Results {
			v, _ := k.expr(r)
			vals = append(vals, v)
		}
		return k.flush() + k.ret(vals)
	case *ast.ExprStmt:
		ce, ok := t.X.(*ast.CallExpr)
		if !ok {
			break
		}
		switch name := exprName(ce.Fun); {
		case name == "binary.BigEndian.PutUint64" && len(ce.Args) == 2:
			id, isId := ce.Args[0].(*ast.Ident)
			v, tv := k.expr(ce.Args[1])
			if !isId || k.env[id.Name] != kyB || tv != kyN {
				k.fail("unsupported PutUint64 target")
				return "?"
			}
			return k.flush() + "do " + id.Name + " <- (be_PutUint64 " + id.Name + " " + v + ");\n" + k.stmts(rest)
		case name == "kv.AssertKeyAtLeastLength" && len(ce.Args) == 2:
			a, _ := k.expr(ce.Args[0])
			n, _ := k.expr(ce.Args[1])
			return k.flush() + "do _ <- (kv_AssertKeyAtLeastLength " + a + " " + n + ");\n" + k.stmts(rest)
		case name == "panic":
			return k.flush() + "Panic GO_PANIC_EXPLICIT"
		}
	case *ast.AssignStmt:
		if len(t.Rhs) != 1 {
			break
		}
		if len(t.Lhs) == 2 {
			ce, ok := t.Rhs[0].(*ast.CallExpr)
			if !ok {
				break
			}
			fn, found := kyPrims[exprName(ce.Fun)]
			if !found {
				fn, found = k.funcs[exprName(ce.Fun)]
			}
			if !found {
				fn, found = k.funcs[strings.TrimPrefix(exprName(ce.Fun), "types.")]
			}
			if !found || len(fn.results) != 2 {
				k.fail("unsupported two-value call %s", exprName(ce.Fun))
				return "?"
			}
			term := k.callTerm(fn, ce.Args)
			a, b := exprName(t.Lhs[0]), exprName(t.Lhs[1])
			if a != "_" {
				k.env[a] = fn.results[0]
			}
			if b != "_" {
				k.env[b] = fn.results[1]
			}
			return k.flush() + "do (" + a + ", " + b + ") <- " + term + ";\n" + k.stmts(rest)
		}
		if len(t.Lhs) != 1 {
			break
		}
		id, isId := t.Lhs[0].(*ast.Ident)
		if !isId {
			break
		}
		v, ty := k.expr(t.Rhs[0])
		k.env[id.Name] = ty
		return k.flush() + "let " + id.Name + " := " + v + " in\n" + k.stmts(rest)
	case *ast.IfStmt:
		if t.Init != nil || t.Else != nil || len(t.Body.List) != 1 {
			break
		}
		if rs, isRet := t.Body.List[0].(*ast.ReturnStmt); isRet && k.callback {
			c, tc := k.expr(t.Cond)
			if tc != kyBool {
				k.fail("condition of type %s", tc)
			}
			pre := k.flush()
			return pre + "if " + c + " then (" + k.stmts([]ast.Stmt{rs}) + ") else\n" + k.stmts(rest)
		}
		es, ok := t.Body.List[0].(*ast.ExprStmt)
		if !ok {
			break
		}
		if ce, ok := es.X.(*ast.CallExpr); !ok || exprName(ce.Fun) != "panic" {
			break
		}
		c, tc := k.expr(t.Cond)
		if tc != kyBool {
			k.fail("condition of type %s", tc)
		}
		return k.flush() + "if " + c + " then Panic GO_PANIC_EXPLICIT else\n" + k.stmts(rest)
	}
	k.fail("unsupported statement %T", s)
	return "?"
}

func byteLitN(e ast.Expr) (string, bool) {
	bs, ok := byteLit(e)
	if !ok {
		return "", false
	}
	var xs []string
	for _, b := range bs {
		xs = append(xs, fmt.Sprint(b))
	}
	return "[" + strings.Join(xs, "; ") + "]", true
}

// writeKeys translates x/<module>/types/keys.go of the four modules
func writeKeys(repo, out string) {
	var sb strings.Builder
	sb.WriteString("(* GENERATED by /verif/translator (gokeys.go) from x/{enterprise,wrkchain,beacon,stream}/types/keys.go.  Do not edit. *)\n")
	sb.WriteString("From MC Require Import lib.Prelude model.Keys model.KeyPrims.\nLocal Open Scope N_scope.\n\n")
	var untranslated []string
	var lastFuncs map[string]kyFn
	var lastConsts map[string]bool
	for _, mod := range []string{"enterprise", "wrkchain", "beacon", "stream"} {
		f := parseFile(filepath.Join(repo, "x", mod, "types", "keys.go"))
		consts := map[string]bool{}
		sb.WriteString("(* ---- x/" + mod + "/types/keys.go ---- *)\n")
		for _, d := range f.Decls {
			gd, ok := d.(*ast.GenDecl)
			if !ok || gd.Tok != token.VAR {
				continue
			}
			for _, sp := range gd.Specs {
				vs := sp.(*ast.ValueSpec)
				if len(vs.Names) != 1 || len(vs.Values) != 1 {
					continue
				}
				if lit, ok := byteLitN(vs.Values[0]); ok {
					consts[vs.Names[0].Name] = true
					sb.WriteString(fmt.Sprintf("Definition %s_%s : list N := %s.\n", mod, vs.Names[0].Name, lit))
				}
			}
		}
		sb.WriteString("\n")
		// signatures first (a function may call one declared later), then the bodies, emitted callees first
		funcs := map[string]kyFn{}
		var decls []*ast.FuncDecl
		for _, d := range f.Decls {
			fd, ok := d.(*ast.FuncDecl)
			if !ok || fd.Recv != nil || fd.Body == nil {
				continue
			}
			decls = append(decls, fd)
			var rts []kyT
			good := true
			if fd.Type.Results != nil {
				for _, r := range fd.Type.Results.List {
					n := len(r.Names)
					if n == 0 {
						n = 1
					}
					for i := 0; i < n; i++ {
						rts = append(rts, kyType(r.Type))
						good = good && kyType(r.Type) != kyBad
					}
				}
			}
			if good && len(rts) > 0 {
				funcs[fd.Name.Name] = kyFn{"go_" + mod + "_" + fd.Name.Name, rts}
			}
		}
		var names []string
		defs := map[string]string{}
		calls := map[string][]string{}
		for _, fd := range decls {
			k := &kyTrans{mod: mod, env: map[string]kyT{}, consts: consts, funcs: funcs}
			var ps []string
			for _, p := range fd.Type.Params.List {
				ty := kyType(p.Type)
				if ty == kyBad {
					k.fail("parameter type %s", exprName(p.Type))
				}
				for _, n := range p.Names {
					k.env[n.Name] = ty
					ps = append(ps, fmt.Sprintf("(%s : %s)", n.Name, ty))
				}
			}
			var rts []kyT
			pre := ""
			if fd.Type.Results != nil {
				for _, r := range fd.Type.Results.List {
					ty := kyType(r.Type)
					if ty == kyBad {
						k.fail("result type %s", exprName(r.Type))
					}
					if len(r.Names) == 0 {
						rts = append(rts, ty)
					}
					for _, n := range r.Names {
						rts = append(rts, ty)
						k.named = append(k.named, n.Name)
						k.env[n.Name] = ty
						// a named result starts as the zero value
						if ty == kyB {
							pre += "let " + n.Name + " := ([] : list N) in\n"
						} else {
							pre += "let " + n.Name + " := 0 in\n"
						}
					}
				}
			}
			body := k.stmts(fd.Body.List)
			if len(k.errs) > 0 || len(rts) == 0 {
				untranslated = append(untranslated, mod+"."+fd.Name.Name)
				delete(funcs, fd.Name.Name)
				defs[fd.Name.Name] = fmt.Sprintf("(* NOT TRANSLATED %s.%s: %s *)\n\n", mod, fd.Name.Name, strings.Join(k.errs, "; "))
				continue
			}
			var rs []string
			for _, r := range rts {
				rs = append(rs, string(r))
			}
			rt := rs[0]
			if len(rs) > 1 {
				rt = "(" + strings.Join(rs, " * ") + ")"
			}
			names = append(names, fd.Name.Name)
			ast.Inspect(fd.Body, func(n ast.Node) bool {
				if ce, ok := n.(*ast.CallExpr); ok {
					if id, ok := ce.Fun.(*ast.Ident); ok {
						calls[fd.Name.Name] = append(calls[fd.Name.Name], id.Name)
					}
				}
				return true
			})
			defs[fd.Name.Name] = fmt.Sprintf("Definition go_%s_%s %s : outcome %s :=\n%s%s.\n\n", mod, fd.Name.Name, strings.Join(ps, " "), rt, pre, body)
		}
		emitted := map[string]bool{}
		var emit func(n string)
		emit = func(n string) {
			if emitted[n] {
				return
			}
			emitted[n] = true
			for _, c := range calls[n] {
				if _, ok := defs[c]; ok {
					emit(c)
				}
			}
			sb.WriteString(defs[n])
		}
		for _, fd := range decls {
			emit(fd.Name.Name)
		}
		lastFuncs, lastConsts = funcs, consts // the stream module is the last one
		sort.Strings(names)
		var q []string
		for _, n := range names {
			q = append(q, "\""+n+"\"")
		}
		sb.WriteString(fmt.Sprintf("Definition %s_key_functions : list String.string := [%s]%%string.\n\n", mod, strings.Join(q, "; ")))
	}
	untranslated = append(untranslated, writeKeyCallbacks(repo, &sb, lastFuncs, lastConsts)...)
	var q []string
	for _, n := range untranslated {
		q = append(q, "\""+n+"\"")
	}
	sb.WriteString(fmt.Sprintf("Definition key_functions_not_translated : list String.string := [%s]%%string.\n", strings.Join(q, "; ")))
	if err := os.WriteFile(out, []byte(sb.String()), 0o644); err != nil {
		fmt.Fprintln(os.Stderr, err)
		os.Exit(1)
	}
}

// writeKeyCallbacks: x/stream/keeper/query_streams.go.  Each list query hands query.GenericFilteredPaginate a prefix
// store and a callback that derives the reported (receiver, sender) from the key the prefix store yields.  For every
// such handler: go_stream_<Handler>_prefix (the prefix of the store) and go_stream_<Handler>_callback (the reported
// pair for a callback key, None for "no hit"); addresses the handler decoded from the request (captured variables)
// are parameters.
func writeKeyCallbacks(repo string, sb *strings.Builder, funcs map[string]kyFn, consts map[string]bool) []string {
	var untranslated []string
	f := parseFile(filepath.Join(repo, "x", "stream", "keeper", "query_streams.go"))
	sb.WriteString("(* ---- x/stream/keeper/query_streams.go: prefix stores and callbacks of the list queries ---- *)\n")
	var names []string
	var skeletons []string
	for _, d := range f.Decls {
		fd, ok := d.(*ast.FuncDecl)
		if !ok || fd.Body == nil {
			continue
		}
		var lit *ast.FuncLit
		var prefixExpr ast.Expr
		captured := map[string]bool{}
		for _, st := range fd.Body.List {
			as, ok := st.(*ast.AssignStmt)
			if !ok || len(as.Rhs) != 1 {
				continue
			}
			ce, ok := as.Rhs[0].(*ast.CallExpr)
			if !ok {
				continue
			}
			switch exprName(ce.Fun) {
			case "sdk.AccAddressFromBech32":
				captured[exprName(as.Lhs[0])] = true
			case "prefix.NewStore":
				if len(ce.Args) == 2 {
					prefixExpr = ce.Args[1]
				}
			case "query.GenericFilteredPaginate":
				if len(ce.Args) >= 4 {
					lit, _ = ce.Args[3].(*ast.FuncLit)
				}
			}
		}
		if lit == nil {
			continue
		}
		name := fd.Name.Name
		skeletons = append(skeletons, fmt.Sprintf("(\"%s\", \"%s\")", name, skeletonDigest(fd)))
		mk := func(body ast.Node) (*kyTrans, []string) {
			k := &kyTrans{mod: "stream", env: map[string]kyT{}, consts: consts, funcs: funcs}
			var used []string
			for c := range captured {
				u := false
				ast.Inspect(body, func(n ast.Node) bool {
					if id, ok := n.(*ast.Ident); ok && id.Name == c {
						u = true
					}
					return true
				})
				if u {
					used = append(used, c)
				}
			}
			sort.Strings(used)
			var ps []string
			for _, c := range used {
				k.env[c] = kyB
				ps = append(ps, "("+c+" : (list N))")
			}
			return k, ps
		}
		// the prefix
		if prefixExpr == nil {
			untranslated = append(untranslated, "stream.query."+name+".prefix")
		} else {
			k, ps := mk(prefixExpr)
			v, ty := k.expr(prefixExpr)
			if ty != kyB || len(k.errs) > 0 {
				untranslated = append(untranslated, "stream.query."+name+".prefix")
				sb.WriteString(fmt.Sprintf("(* NOT TRANSLATED prefix of %s: %s *)\n\n", name, strings.Join(k.errs, "; ")))
			} else {
				sb.WriteString(fmt.Sprintf("Definition go_stream_%s_prefix %s : outcome (list N) :=\n%sOk %s.\n\n", name, strings.Join(ps, " "), k.flush(), v))
			}
		}
		// the callback
		k, ps := mk(lit.Body)
		k.callback = true
		okSig := len(lit.Type.Params.List) == 2
		if okSig {
			p0 := lit.Type.Params.List[0]
			if len(p0.Names) != 1 || kyType(p0.Type) != kyB {
				okSig = false
			} else {
				k.env[p0.Names[0].Name] = kyB
				ps = append(ps, "("+p0.Names[0].Name+" : (list N))")
			}
		}
		if !okSig {
			k.fail("unsupported callback signature")
		}
		body := k.stmts(lit.Body.List)
		if len(k.errs) > 0 {
			untranslated = append(untranslated, "stream.query."+name+".callback")
			sb.WriteString(fmt.Sprintf("(* NOT TRANSLATED callback of %s: %s *)\n\n", name, strings.Join(k.errs, "; ")))
			continue
		}
		names = append(names, name)
		sb.WriteString(fmt.Sprintf("Definition go_stream_%s_callback %s : outcome (option ((list N) * (list N))) :=\n%s.\n\n", name, strings.Join(ps, " "), body))
	}
	var q []string
	for _, n := range names {
		q = append(q, "\""+n+"\"")
	}
	sb.WriteString(fmt.Sprintf("Definition stream_list_queries : list String.string := [%s]%%string.\n\n", strings.Join(q, "; ")))
	// the handlers around the callbacks: a digest of each with the callback bodies blanked
	sb.WriteString(fmt.Sprintf("Definition stream_list_query_skeletons : list (String.string * String.string) :=\n  [%s]%%string.\n\n", strings.Join(skeletons, ";\n   ")))
	return untranslated
}
