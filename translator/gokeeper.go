package main

// Go -> Gallina translator for the *stateful* code of x/stream: keeper/stream.go (addSeconds, ClaimFromStream,
// AddDeposit, SetNewFlowRate, CancelStreamBySenderReceiver, CreateNewStream) and keeper/msg_server.go (the five
// stream handlers and UpdateParams).  Output:
//   coq/GeneratedStreamTypes.v  - one Record per protobuf struct of x/stream/types/{stream,params,tx}.pb.go
//   coq/GeneratedStreamKeeper.v - one Definition go_<F> per function, in state-passing style:
//        go_F (w : kworld) args : outcome (kworld * results)
//     an `error` result is the [Err] outcome (the SDK discards a message's writes when its handler errors, so no
//     state accompanies it); a Go panic is [Panic].
// The calls it meets that are not themselves translated are the *primitives* of model/StreamKeeperPrims.v (store
// access of one stream, parameters, the three bank transfers, sdk.NewCoins, bech32 decoding, time.Unix, Coin methods),
// plus lib/GoSdk.v and the functions of GeneratedFns.v.
//
// Supported subset (anything else fails the translation, i.e. breaks a proof obligation):
//   x := e / x = e / x.F = e / var x T; a, b := f(..) (tuple results); ExprStmt of a stateful void primitive;
//   `v.., err := f(..)` (or `err = f(..)`, or `if err := f(..); err != nil`) immediately followed by
//   `if err != nil { return .., err }`  ==> monadic bind  (any other use of an error value is rejected);
//   if / else with fall-through (the continuation is duplicated into both branches); return;
//   struct literals; ctx.EventManager().EmitEvent(..), `defer telemetry.*` and `ctx := sdk.UnwrapSDKContext(..)`
//   are dropped (events and telemetry are not modelled).

import (
	"bytes"
	"crypto/sha256"
	"fmt"
	"go/ast"
	"go/printer"
	"go/token"
	"os"
	"path/filepath"
	"sort"
	"strings"
)

const (
	tAddr    gtype = "Addr"    // sdk.AccAddress
	tAddrStr gtype = "AddrStr" // a Go string holding a bech32 address (abstract: the address itself)
	tDenom   gtype = "Denom"
	tCoins   gtype = "Coins"
	tModName gtype = "ModName"
	tUnit    gtype = "unit"
	tErrT    gtype = "error"
	tCtx     gtype = "ctx"
	tStr     gtype = "Str" // a Go string that is data (names, hashes)
)

// string-typed struct fields that hold an address / a denomination rather than free text
var addrFieldNames = map[string]bool{"Owner": true, "Sender": true, "Receiver": true, "Authority": true, "Purchaser": true, "Signer": true}
var denomFieldNames = map[string]bool{"Denom": true}

func isStruct(t gtype) bool { return strings.HasPrefix(string(t), "S:") }
func structName(t gtype) string {
	return strings.TrimPrefix(string(t), "S:")
}

func coqTypeK(t gtype) string {
	switch t {
	case tInt64, tUint64, tInt, tDec, tDecCoin, tTime:
		return "Z"
	case tCoin:
		return "go_coin"
	case tBool:
		return "bool"
	case tAddr, tAddrStr, tModName:
		return "go_addr"
	case tDenom, tString:
		return "go_denom"
	case tCoins:
		return "(list go_coin)"
	case tUnit:
		return "unit"
	case tStr:
		return "string"
	}
	if isStruct(t) {
		return "go_" + structName(t)
	}
	return "?"
}

func zeroOf(t gtype) string {
	switch t {
	case tInt64, tUint64, tInt, tDec, tDecCoin:
		return "0"
	case tTime:
		return "go_zero_time"
	case tCoin:
		return "go_zero_coin"
	case tBool:
		return "false"
	case tAddr, tAddrStr, tModName:
		return "go_zero_addr"
	case tDenom, tString:
		return "go_zero_denom"
	case tCoins:
		return "[]"
	case tUnit:
		return "tt"
	case tStr:
		return "EmptyString"
	}
	if isStruct(t) {
		return "zero_go_" + structName(t)
	}
	return "?"
}

// Go type expression -> gtype in keeper mode
func goTypeK(e ast.Expr) gtype {
	if e == nil {
		return tUnknown
	}
	n := exprName(e)
	switch n {
	case "int64":
		return tInt64
	case "uint64":
		return tUint64
	case "bool":
		return tBool
	case "string":
		return tStr
	case "error":
		return tErrT
	case "sdk.Int", "math.Int":
		return tInt
	case "sdk.Dec", "github_com_cosmos_cosmos_sdk_types.Dec", "math.LegacyDec":
		return tDec
	case "sdk.Coin", "types.Coin":
		return tCoin
	case "sdk.AccAddress":
		return tAddr
	case "time.Time":
		return tTime
	case "sdk.Context", "context.Context":
		return tCtx
	}
	n = strings.TrimPrefix(n, "types.")
	if _, ok := structTable[n]; ok {
		return gtype("S:" + n)
	}
	return tUnknown
}

type field struct {
	name string
	typ  gtype
}

// moduleSpec: what to translate for one module and against which primitives
type moduleSpec struct {
	name      string   // directory under x/
	pbFiles   []string // files of x/<name>/types holding the struct declarations
	goFiles   []string // files of x/<name>/keeper to translate from
	want      []string // functions to translate, callees first
	prims     map[string]fnSig
	consts    map[string]constDef
	world     string // Coq type of the state threaded through
	imports   string // Coq imports of the generated keeper file
	typesMod  string // name of the generated types file (without .v)
	keeperMod string
	listName  string   // name of the Definition listing the functions that are NOT translated
	msgTypes  []string // message types whose ValidateBasic (types/msgs.go) is translated too
}

type constDef struct {
	coq string
	typ gtype
}

var cur *moduleSpec

var structTable = map[string][]field{}
var structOrder []string

// loadStructs reads the struct declarations of the generated protobuf files
func loadStructs(repo string) {
	structTable = map[string][]field{}
	structOrder = nil
	for _, fn := range cur.pbFiles {
		f := parseFile(filepath.Join(repo, "x", cur.name, "types", fn))
		// two passes so that a struct can mention one declared later in the same file
		for pass := 0; pass < 2; pass++ {
			for _, d := range f.Decls {
				gd, ok := d.(*ast.GenDecl)
				if !ok || gd.Tok != token.TYPE {
					continue
				}
				for _, sp := range gd.Specs {
					ts := sp.(*ast.TypeSpec)
					st, ok := ts.Type.(*ast.StructType)
					if !ok {
						continue
					}
					var fs []field
					good := true
					for _, fl := range st.Fields.List {
						ty := goTypeK(fl.Type)
						if ty == tUnknown || ty == tErrT || ty == tCtx {
							good = false
						}
						for _, nm := range fl.Names {
							fty := ty
							if ty == tStr && addrFieldNames[nm.Name] {
								fty = tAddrStr
							} else if ty == tStr && denomFieldNames[nm.Name] {
								fty = tDenom
							}
							fs = append(fs, field{nm.Name, fty})
						}
					}
					if _, seen := structTable[ts.Name.Name]; !seen {
						if pass == 0 {
							// reserve the name so that later structs can refer to it
							structTable[ts.Name.Name] = nil
							structOrder = append(structOrder, ts.Name.Name)
						}
					}
					if good {
						structTable[ts.Name.Name] = fs
					} else if pass == 1 {
						structTable[ts.Name.Name] = []field{{"UNSUPPORTED", tUnknown}}
					}
				}
			}
		}
	}
}

func writeStructTypes(out string) {
	var sb strings.Builder
	sb.WriteString("(* GENERATED by /verif/translator (gokeeper.go) from /repo/x/" + cur.name + "/types/{" + strings.Join(cur.pbFiles, ",") + "} on every check.\n")
	sb.WriteString("   One record per protobuf struct; strings holding addresses are abstract addresses, Coin = go_coin. Do not edit. *)\n")
	sb.WriteString("From Coq Require Import String.\nFrom MC Require Import lib.Prelude lib.GoSdk.\nOpen Scope Z_scope.\n\n")
	// order: a struct after the structs it mentions
	done := map[string]bool{}
	var emit func(n string)
	emit = func(n string) {
		if done[n] {
			return
		}
		done[n] = true
		fs := structTable[n]
		for _, f := range fs {
			if f.typ == tUnknown {
				sb.WriteString("(* NOT TRANSLATED struct " + n + ": unsupported field type *)\n\n")
				return
			}
			if isStruct(f.typ) {
				emit(structName(f.typ))
			}
		}
		var decl, zeros []string
		for _, f := range fs {
			decl = append(decl, fmt.Sprintf("%s_%s : %s", n, f.name, coqTypeK(f.typ)))
			zeros = append(zeros, zeroOf(f.typ))
		}
		sb.WriteString(fmt.Sprintf("Record go_%s := mk_go_%s { %s }.\n", n, n, strings.Join(decl, "; ")))
		sb.WriteString(fmt.Sprintf("Definition zero_go_%s : go_%s := mk_go_%s %s.\n", n, n, n, strings.Join(zeros, " ")))
		for i, f := range fs {
			var args []string
			for j, g := range fs {
				if i == j {
					args = append(args, "v")
				} else {
					args = append(args, fmt.Sprintf("(%s_%s s)", n, g.name))
				}
			}
			sb.WriteString(fmt.Sprintf("Definition set_%s_%s (s : go_%s) (v : %s) : go_%s := mk_go_%s %s.\n",
				n, f.name, n, coqTypeK(f.typ), n, n, strings.Join(args, " ")))
		}
		sb.WriteString("\n")
	}
	for _, n := range structOrder {
		emit(n)
	}
	os.WriteFile(out, []byte(sb.String()), 0o644)
}

// ---- function signatures ----

type fnSig struct {
	coq      string
	stateful bool    // takes the world and returns a new one
	reads    bool    // takes the world, returns no new one (pure read)
	impure   bool    // returns an outcome
	hasErr   bool    // last Go result is `error`
	results  []gtype // without the error
	dropCtx  bool    // first Go argument is the context
}

// primitives: described by hand in model/StreamKeeperPrims.v, lib/GoSdk.v or produced in GeneratedFns.v
var primTable map[string]fnSig

var streamPrims = map[string]fnSig{
	"k.GetStream":    {coq: "str_GetStream", reads: true, results: []gtype{"S:Stream", tBool}, dropCtx: true},
	"k.IsStream":     {coq: "str_IsStream", reads: true, results: []gtype{tBool}, dropCtx: true},
	"k.GetParams":    {coq: "str_GetParams", reads: true, results: []gtype{"S:Params"}, dropCtx: true},
	"k.SetStream":    {coq: "str_SetStream", stateful: true, impure: true, hasErr: true, dropCtx: true},
	"k.DeleteStream": {coq: "str_DeleteStream", stateful: true, impure: true, dropCtx: true},
	"k.SetParams":    {coq: "str_SetParams", stateful: true, impure: true, hasErr: true, dropCtx: true},
	"k.bankKeeper.SendCoinsFromModuleToModule":  {coq: "bank_SendCoinsFromModuleToModule", stateful: true, impure: true, hasErr: true, dropCtx: true},
	"k.bankKeeper.SendCoinsFromModuleToAccount": {coq: "bank_SendCoinsFromModuleToAccount", stateful: true, impure: true, hasErr: true, dropCtx: true},
	"k.bankKeeper.SendCoinsFromAccountToModule": {coq: "bank_SendCoinsFromAccountToModule", stateful: true, impure: true, hasErr: true, dropCtx: true},
	"k.bankKeeper.BlockedAddr":                  {coq: "bank_BlockedAddr", results: []gtype{tBool}},
	"ctx.BlockTime":                             {coq: "kw_now", reads: true, results: []gtype{tTime}},
	"sdk.NewCoins":                              {coq: "sdk_NewCoins1", impure: true, results: []gtype{tCoins}},
	"sdk.AccAddressFromBech32":                  {coq: "sdk_AccAddressFromBech32", impure: true, hasErr: true, results: []gtype{tAddr}},
	"types.CalculateDuration":                   {coq: "go_CalculateDuration", impure: true, results: []gtype{tInt64}},
	"types.CalculateAmountToClaim":              {coq: "go_CalculateAmountToClaim", impure: true, results: []gtype{tCoin, tCoin}},
	"types.CalculateValidatorFee":               {coq: "go_CalculateValidatorFee", impure: true, results: []gtype{tCoin, tCoin}},
	"time.Unix":                                 {coq: "Time_FromUnix", results: []gtype{tTime}},
	"sdk.NewInt":                                {coq: "sdk_NewInt", results: []gtype{tInt}},
	"sdk.NewIntFromUint64":                      {coq: "sdk_NewIntFromUint64", results: []gtype{tInt}},
	"sdk.NewCoin":                               {coq: "sdk_NewCoin", impure: true, results: []gtype{tCoin}},
}

var kMethodTable = map[methodKey]fnSig{
	{tInt, "GT"}: {coq: "Int_GT", results: []gtype{tBool}}, {tInt, "LT"}: {coq: "Int_LT", results: []gtype{tBool}},
	{tInt, "IsZero"}:      {coq: "Int_IsZero", results: []gtype{tBool}},
	{tCoin, "IsNil"}:      {coq: "Coin_IsNil", results: []gtype{tBool}},
	{tCoin, "IsNegative"}: {coq: "Coin_IsNegative", results: []gtype{tBool}},
	{tCoin, "IsZero"}:     {coq: "Coin_IsZero", results: []gtype{tBool}},
	{tCoin, "IsLT"}:       {coq: "Coin_IsLT", impure: true, results: []gtype{tBool}},
	{tCoin, "Add"}:        {coq: "Coin_Add", impure: true, results: []gtype{tCoin}},
	{tCoin, "Sub"}:        {coq: "Coin_Sub", impure: true, results: []gtype{tCoin}},
	{tTime, "Unix"}:       {coq: "Time_Unix", results: []gtype{tInt64}}, {tTime, "Nanosecond"}: {coq: "Time_Nanosecond", results: []gtype{tInt64}},
	{tTime, "After"}: {coq: "Time_After", results: []gtype{tBool}}, {tTime, "Before"}: {coq: "Time_Before", results: []gtype{tBool}},
	{tTime, "Equal"}: {coq: "Time_Equal", results: []gtype{tBool}}, {tTime, "UTC"}: {coq: "Time_UTC", results: []gtype{tTime}},
	{tAddr, "String"}: {coq: "Addr_String", results: []gtype{tAddrStr}},
	{tAddr, "Empty"}:  {coq: "Addr_Empty", results: []gtype{tBool}},
}

// package-level / keeper-field constants
var constTable map[string]constDef

var streamConsts = map[string]constDef{
	"types.ModuleName":   {"MOD_stream", tModName},
	"k.feeCollectorName": {"MOD_fee_collector", tModName},
	"k.authority":        {"KEEPER_authority", tAddrStr},
}

func u64(coq string, reads bool) fnSig {
	return fnSig{coq: coq, reads: reads, results: []gtype{tUint64}, dropCtx: reads}
}

// the registry modules (wrkchain / beacon): store accessors of one entity are the primitives
func registryPrims(ent, rec string) map[string]fnSig {
	E := "S:" + ent
	L := gtype("S:" + ent + "StorageLimit")
	m := map[string]fnSig{
		"k.Get" + ent:                   {coq: "reg_GetEntity", reads: true, results: []gtype{gtype(E), tBool}, dropCtx: true},
		"k.Set" + ent:                   {coq: "reg_SetEntity", stateful: true, impure: true, hasErr: true, dropCtx: true},
		"k.Is" + ent + "Registered":     {coq: "reg_IsRegistered", reads: true, results: []gtype{tBool}, dropCtx: true},
		"k.GetHighest" + ent + "ID":     {coq: "reg_GetHighestID", reads: true, impure: true, hasErr: true, results: []gtype{tUint64}, dropCtx: true},
		"k.SetHighest" + ent + "ID":     {coq: "reg_SetHighestID", stateful: true, impure: true, dropCtx: true},
		"k.Get" + ent + "StorageLimit":  {coq: "reg_GetStorageLimit", reads: true, results: []gtype{L, tBool}, dropCtx: true},
		"k.Set" + ent + "StorageLimit":  {coq: "reg_SetStorageLimit", stateful: true, impure: true, hasErr: true, dropCtx: true},
		"k.IsAuthorisedToRecord":        {coq: "reg_IsAuthorisedToRecord", reads: true, results: []gtype{tBool}, dropCtx: true},
		"k.GetParamMaxStorageLimit":     u64("reg_GetParamMaxStorageLimit", true),
		"k.GetParamDefaultStorageLimit": u64("reg_GetParamDefaultStorageLimit", true),
		"k.SetParams":                   {coq: "reg_SetParams", stateful: true, impure: true, hasErr: true, dropCtx: true},
		"ctx.BlockTime":                 {coq: "rw_now", reads: true, results: []gtype{tTime}},
		"time.Now":                      {coq: "rw_wall", reads: true, results: []gtype{tTime}},
		"sdk.AccAddressFromBech32":      {coq: "sdk_AccAddressFromBech32", impure: true, hasErr: true, results: []gtype{tAddr}},
	}
	for k, v := range rec2prims(rec) {
		m[k] = v
	}
	return m
}

func rec2prims(rec string) map[string]fnSig {
	if rec == "WrkChainBlock" {
		return map[string]fnSig{
			"k.SetWrkChainBlock":             {coq: "reg_SetRecord", stateful: true, impure: true, hasErr: true, dropCtx: true},
			"k.deleteWrkChainHash":           {coq: "reg_DeleteRecord", stateful: true, impure: true, hasErr: true, dropCtx: true},
			"k.GetLastWrkChainHeightInState": u64("reg_LowestKeyInState", true),
		}
	}
	return map[string]fnSig{
		"k.SetBeaconTimestamp":    {coq: "reg_SetRecord", stateful: true, impure: true, hasErr: true, dropCtx: true},
		"k.deleteBeaconTimestamp": {coq: "reg_DeleteRecord", stateful: true, impure: true, hasErr: true, dropCtx: true},
	}
}

var registryConsts = map[string]constDef{
	"k.authority": {"KEEPER_authority", tAddrStr},
}

var modules = map[string]*moduleSpec{
	"stream": {name: "stream", pbFiles: []string{"params.pb.go", "stream.pb.go", "tx.pb.go"}, goFiles: []string{"stream.go", "msg_server.go"},
		want: []string{"addSeconds", "ClaimFromStream", "AddDeposit", "SetNewFlowRate", "CancelStreamBySenderReceiver",
			"CreateNewStream", "CreateStream", "ClaimStream", "TopUpDeposit", "UpdateFlowRate", "CancelStream", "UpdateParams"},
		prims: streamPrims, consts: streamConsts, world: "kworld",
		imports:  "lib.Prelude lib.GoSdk GeneratedFns GeneratedStreamTypes model.StreamKeeperPrims",
		typesMod: "GeneratedStreamTypes", keeperMod: "GeneratedStreamKeeper", listName: "stream_keeper_other_functions",
		msgTypes: []string{"MsgCreateStream", "MsgClaimStream", "MsgTopUpDeposit", "MsgUpdateFlowRate", "MsgCancelStream"}},
	"wrkchain": {name: "wrkchain", pbFiles: []string{"wrkchain.pb.go", "tx.pb.go"}, goFiles: []string{"register.go", "record.go", "msg_server.go"},
		want: []string{"QuickCheckHeightIsNew", "GetMaxPurchasableSlots", "IncreaseInStateStorage", "RegisterNewWrkChain", "RecordNewWrkchainHashes",
			"RegisterWrkChain", "RecordWrkChainBlock", "PurchaseWrkChainStateStorage", "UpdateParams"},
		prims: registryPrims("WrkChain", "WrkChainBlock"), consts: registryConsts, world: "rworld",
		imports:  "lib.Prelude lib.GoSdk GeneratedWrkchainTypes model.WrkchainKeeperPrims",
		typesMod: "GeneratedWrkchainTypes", keeperMod: "GeneratedWrkchainKeeper", listName: "wrkchain_keeper_other_functions",
		msgTypes: []string{"MsgRegisterWrkChain", "MsgRecordWrkChainBlock", "MsgPurchaseWrkChainStateStorage"}},
	"beacon": {name: "beacon", pbFiles: []string{"beacon.pb.go", "tx.pb.go"}, goFiles: []string{"register.go", "record.go", "msg_server.go"},
		want: []string{"GetMaxPurchasableSlots", "IncreaseInStateStorage", "RegisterNewBeacon", "RecordNewBeaconTimestamp",
			"RegisterBeacon", "RecordBeaconTimestamp", "PurchaseBeaconStateStorage", "UpdateParams"},
		prims: registryPrims("Beacon", "BeaconTimestamp"), consts: registryConsts, world: "rworld",
		imports:  "lib.Prelude lib.GoSdk GeneratedBeaconTypes model.BeaconKeeperPrims",
		typesMod: "GeneratedBeaconTypes", keeperMod: "GeneratedBeaconKeeper", listName: "beacon_keeper_other_functions",
		msgTypes: []string{"MsgRegisterBeacon", "MsgRecordBeaconTimestamp", "MsgPurchaseBeaconStateStorage"}},
}

type kbinding struct {
	pat, rhs string
}

type kTrans struct {
	usedStateful bool
	env          map[string]gtype
	recv         string // receiver name (normalised to "k")
	stateful     bool
	results      []gtype
	hasErr       bool
	fresh        int
	errs         []string
	funcs        map[string]fnSig
}

func (kt *kTrans) fail(format string, a ...interface{}) {
	kt.errs = append(kt.errs, fmt.Sprintf(format, a...))
}
func (kt *kTrans) tmp() string { kt.fresh++; return fmt.Sprintf("t%d_", kt.fresh) }

func tuple(xs []string) string {
	if len(xs) == 0 {
		return "tt"
	}
	if len(xs) == 1 {
		return xs[0]
	}
	return "(" + strings.Join(xs, ", ") + ")"
}

func (kt *kTrans) callName(fun ast.Expr) string {
	n := exprName(fun)
	if kt.recv != "" && strings.HasPrefix(n, kt.recv+".") {
		n = "k." + strings.TrimPrefix(n, kt.recv+".")
	}
	return n
}

func (kt *kTrans) lookup(name string) (fnSig, bool) {
	if s, ok := primTable[name]; ok {
		return s, true
	}
	if !strings.Contains(name, ".") {
		if s, ok := primTable["types."+name]; ok {
			return s, true
		}
	}
	if s, ok := kt.funcs[name]; ok {
		return s, true
	}
	return fnSig{}, false
}

func isEventOrTelemetry(e ast.Expr) bool {
	n := exprName(e)
	return strings.HasPrefix(n, "ctx.EventManager().EmitEvent") || strings.HasPrefix(n, "ctx.EventManager().EmitEvents") ||
		strings.HasPrefix(n, "telemetry.")
}

// call renders a call; returns the Coq term and whether it is an outcome, and its result types
func (kt *kTrans) call(t *ast.CallExpr) (pre []kbinding, term string, sig fnSig, ok bool) {
	name := kt.callName(t.Fun)
	sig, found := kt.lookup(name)
	var recvArg []string
	if !found {
		// method on a value
		if sel, isSel := t.Fun.(*ast.SelectorExpr); isSel {
			p, rv, rty := kt.expr(sel.X)
			if mt, okm := kMethodTable[methodKey{rty, sel.Sel.Name}]; okm {
				pre = append(pre, p...)
				sig, found = mt, true
				recvArg = []string{rv}
			} else {
				kt.fail("unsupported method %s.%s", rty, sel.Sel.Name)
				return nil, "?", fnSig{}, false
			}
		}
	}
	if !found {
		kt.fail("unsupported call %s", name)
		return nil, "?", fnSig{}, false
	}
	args := recvArg
	goArgs := t.Args
	if sig.dropCtx {
		if len(goArgs) == 0 || exprName(goArgs[0]) != "ctx" {
			kt.fail("call %s: first argument is not ctx", name)
		} else {
			goArgs = goArgs[1:]
		}
	}
	for _, a := range goArgs {
		p, v, _ := kt.expr(a)
		pre = append(pre, p...)
		args = append(args, v)
	}
	if sig.stateful || sig.reads {
		args = append([]string{"w"}, args...)
	}
	if sig.stateful {
		kt.usedStateful = true
	}
	term = "(" + sig.coq + " " + strings.Join(args, " ") + ")"
	if len(args) == 0 {
		term = sig.coq
	}
	return pre, term, sig, true
}

// expr translates an expression (no state change allowed inside expressions)
func (kt *kTrans) expr(e ast.Expr) (pre []kbinding, val string, typ gtype) {
	switch t := e.(type) {
	case *ast.ParenExpr:
		return kt.expr(t.X)
	case *ast.Ident:
		switch t.Name {
		case "true", "false":
			return nil, t.Name, tBool
		}
		ty, ok := kt.env[t.Name]
		if !ok {
			kt.fail("unknown identifier %s", t.Name)
		}
		return nil, t.Name, ty
	case *ast.BasicLit:
		if t.Kind == token.INT {
			return nil, t.Value, tInt64
		}
		kt.fail("unsupported literal %s", t.Value)
		return nil, "?", tUnknown
	case *ast.UnaryExpr:
		if t.Op == token.NOT {
			p, v, _ := kt.expr(t.X)
			return p, "(negb " + v + ")", tBool
		}
		if t.Op == token.AND { // &T{...}
			return kt.expr(t.X)
		}
		kt.fail("unsupported unary %s", t.Op)
		return nil, "?", tUnknown
	case *ast.CompositeLit:
		ty := goTypeK(t.Type)
		if ty == tCoin && len(t.Elts) == 0 {
			return nil, "go_zero_coin", tCoin
		}
		if !isStruct(ty) {
			kt.fail("unsupported composite literal %s", exprName(t.Type))
			return nil, "?", tUnknown
		}
		sn := structName(ty)
		vals := map[string]string{}
		for _, el := range t.Elts {
			kv, ok := el.(*ast.KeyValueExpr)
			if !ok {
				kt.fail("positional struct literal")
				continue
			}
			p, v, _ := kt.expr(kv.Value)
			pre = append(pre, p...)
			vals[exprName(kv.Key)] = v
		}
		var args []string
		for _, f := range structTable[sn] {
			if v, ok := vals[f.name]; ok {
				args = append(args, v)
				delete(vals, f.name)
			} else {
				args = append(args, zeroOf(f.typ))
			}
		}
		for k := range vals {
			kt.fail("struct %s has no field %s", sn, k)
		}
		if len(args) == 0 {
			return pre, "mk_go_" + sn, ty
		}
		return pre, "(mk_go_" + sn + " " + strings.Join(args, " ") + ")", ty
	case *ast.SelectorExpr:
		if c, ok := constTable[kt.callName(t)]; ok {
			return nil, c.coq, c.typ
		}
		p, v, ty := kt.expr(t.X)
		switch {
		case ty == tCoin && t.Sel.Name == "Amount":
			return p, "(Coin_Amount " + v + ")", tInt
		case ty == tCoin && t.Sel.Name == "Denom":
			return p, "(Coin_Denom " + v + ")", tDenom
		case isStruct(ty):
			for _, f := range structTable[structName(ty)] {
				if f.name == t.Sel.Name {
					return p, "(" + structName(ty) + "_" + f.name + " " + v + ")", f.typ
				}
			}
		}
		kt.fail("unsupported field %s on %s", t.Sel.Name, ty)
		return p, "?", tUnknown
	case *ast.BinaryExpr:
		p1, a, ta := kt.expr(t.X)
		p2, b, tb := kt.expr(t.Y)
		pre = append(p1, p2...)
		switch t.Op {
		case token.LOR:
			return pre, "(" + a + " || " + b + ")", tBool
		case token.LAND:
			return pre, "(" + a + " && " + b + ")", tBool
		}
		num := func(x gtype) bool { return x == tInt64 || x == tUint64 }
		eqable := func(x gtype) bool { return num(x) || x == tDenom || x == tAddrStr || x == tString }
		_, litA := t.X.(*ast.BasicLit)
		_, litB := t.Y.(*ast.BasicLit)
		// an untyped integer constant takes the type of the other operand
		if litA && num(tb) {
			ta = tb
		}
		if litB && num(ta) {
			tb = ta
		}
		switch t.Op {
		case token.EQL, token.NEQ:
			var eq string
			switch {
			case ta == tb && ta == tStr:
				eq = "(String.eqb " + a + " " + b + ")"
			case ta == tb && eqable(ta):
				eq = "(" + a + " =? " + b + ")"
			default:
				kt.fail("%s on %s, %s", t.Op, ta, tb)
				eq = "?"
			}
			if t.Op == token.NEQ {
				return pre, "(negb " + eq + ")", tBool
			}
			return pre, eq, tBool
		}
		if !num(ta) || ta != tb {
			kt.fail("binary %s on %s, %s", t.Op, ta, tb)
		}
		pfx := "i64"
		if ta == tUint64 {
			pfx = "u64"
		}
		switch t.Op {
		case token.SUB:
			return pre, "(" + pfx + "_sub " + a + " " + b + ")", ta
		case token.ADD:
			return pre, "(" + pfx + "_add " + a + " " + b + ")", ta
		case token.MUL:
			return pre, "(" + pfx + "_mul " + a + " " + b + ")", ta
		case token.LSS:
			return pre, "(" + a + " <? " + b + ")", tBool
		case token.LEQ:
			return pre, "(" + a + " <=? " + b + ")", tBool
		case token.GTR:
			return pre, "(" + b + " <? " + a + ")", tBool
		case token.GEQ:
			return pre, "(" + b + " <=? " + a + ")", tBool
		}
		kt.fail("unsupported operator %s", t.Op)
		return pre, "?", tUnknown
	case *ast.CallExpr:
		name := exprName(t.Fun)
		if name == "len" && len(t.Args) == 1 {
			p, v, ty := kt.expr(t.Args[0])
			if ty != tStr {
				kt.fail("len of %s", ty)
			}
			return p, "(go_len " + v + ")", tInt64
		}
		if name == "uint64" || name == "int64" {
			p, v, ty := kt.expr(t.Args[0])
			switch {
			case name == "uint64" && ty == tUint64:
				return p, v, tUint64
			case name == "uint64" && ty == tInt64:
				return p, "(go_uint64_of_int64 " + v + ")", tUint64
			case name == "int64" && ty == tUint64:
				return p, "(go_int64_of_uint64 " + v + ")", tInt64
			case name == "int64" && ty == tInt64:
				return p, v, tInt64
			}
			kt.fail("unsupported conversion %s(%s)", name, ty)
			return p, "?", tUnknown
		}
		p, term, sig, ok := kt.call(t)
		if !ok {
			return p, "?", tUnknown
		}
		if sig.stateful {
			kt.fail("state-changing call %s inside an expression", name)
		}
		if sig.hasErr {
			kt.fail("error-returning call %s inside an expression", name)
		}
		if len(sig.results) != 1 {
			kt.fail("call %s used as a single value", name)
			return p, "?", tUnknown
		}
		if sig.impure {
			tn := kt.tmp()
			return append(p, kbinding{tn, term}), tn, sig.results[0]
		}
		return p, term, sig.results[0]
	}
	kt.fail("unsupported expression %T", e)
	return nil, "?", tUnknown
}

func kwrap(pre []kbinding, body string) string {
	for i := len(pre) - 1; i >= 0; i-- {
		body = "do " + pre[i].pat + " <- " + pre[i].rhs + ";\n" + body
	}
	return body
}

// isErrCheck recognises `if <errName> != nil { return ..., <errName> }`
// or `if <errName> != nil { return ..., sdkerrors.Wrap[f](E, ...) }` (the error is replaced by E: remap = E)
func isErrCheck(s ast.Stmt, errName string) (bool, string) {
	is, ok := s.(*ast.IfStmt)
	if !ok || is.Init != nil || is.Else != nil {
		return false, ""
	}
	be, ok := is.Cond.(*ast.BinaryExpr)
	if !ok || be.Op != token.NEQ || exprName(be.X) != errName || exprName(be.Y) != "nil" {
		return false, ""
	}
	if len(is.Body.List) != 1 {
		return false, ""
	}
	rs, ok := is.Body.List[0].(*ast.ReturnStmt)
	if !ok || len(rs.Results) == 0 {
		return false, ""
	}
	last := rs.Results[len(rs.Results)-1]
	if exprName(last) == errName {
		return true, ""
	}
	if ce, ok := last.(*ast.CallExpr); ok && isWrap(exprName(ce.Fun)) && len(ce.Args) >= 1 {
		return true, errConst(ce.Args[0])
	}
	return false, ""
}

func isWrap(fn string) bool {
	return fn == "sdkerrors.Wrap" || fn == "sdkerrors.Wrapf" || fn == "errorsmod.Wrap" || fn == "errorsmod.Wrapf"
}

// bindCall renders `lhs.. := f(..)` for a call; consumes the following error check when f returns an error
func (kt *kTrans) bindCall(lhs []ast.Expr, ce *ast.CallExpr, rest []ast.Stmt) (string, []ast.Stmt, bool) {
	pre, term, sig, ok := kt.call(ce)
	if !ok {
		return "?", rest, false
	}
	name := kt.callName(ce.Fun)
	nval := len(sig.results)
	want := nval
	if sig.hasErr {
		want++
	}
	if len(lhs) != want {
		kt.fail("call %s: %d values assigned, %d returned", name, len(lhs), want)
		return "?", rest, false
	}
	if sig.hasErr {
		errName := exprName(lhs[len(lhs)-1])
		okc, remap := false, ""
		if errName != "_" && len(rest) > 0 {
			okc, remap = isErrCheck(rest[0], errName)
		}
		if !okc {
			kt.fail("call %s: the error is not propagated by the next statement", name)
			return "?", rest, false
		}
		if remap != "" {
			term = "(map_err " + remap + " " + term + ")"
		}
		rest = rest[1:]
	}
	var names []string
	for i := 0; i < nval; i++ {
		n := exprName(lhs[i])
		if _, isIdent := lhs[i].(*ast.Ident); !isIdent {
			kt.fail("call %s: assignment target %s", name, n)
		}
		if n != "_" {
			kt.env[n] = sig.results[i]
		}
		names = append(names, n)
	}
	pat := tuple(names)
	if nval == 0 {
		pat = "_"
	}
	var line string
	switch {
	case sig.stateful:
		line = "do (w, " + pat + ") <- " + term + ";\n"
	case sig.impure:
		line = "do " + pat + " <- " + term + ";\n"
	default:
		if nval == 1 {
			line = "let " + pat + " := " + term + " in\n"
		} else {
			line = "let '" + pat + " := " + term + " in\n"
		}
	}
	return kwrap(pre, line), rest, true
}

func (kt *kTrans) stmts(list []ast.Stmt) string {
	if len(list) == 0 {
		if len(kt.results) == 0 && !kt.hasErr {
			return kt.ret(nil)
		}
		kt.fail("control reaches the end of the function without return")
		return "?"
	}
	s, rest := list[0], list[1:]
	switch t := s.(type) {
	case *ast.ReturnStmt:
		return kt.ret(t.Results)
	case *ast.DeferStmt:
		if isEventOrTelemetry(t.Call) {
			return kt.stmts(rest)
		}
		kt.fail("unsupported defer")
		return "?"
	case *ast.ExprStmt:
		ce, ok := t.X.(*ast.CallExpr)
		if !ok {
			kt.fail("unsupported expression statement")
			return "?"
		}
		if isEventOrTelemetry(ce) {
			return kt.stmts(rest)
		}
		line, rest2, ok := kt.bindCall(nil, ce, rest)
		if !ok {
			return "?"
		}
		return line + kt.stmts(rest2)
	case *ast.DeclStmt:
		gd := t.Decl.(*ast.GenDecl)
		out := ""
		for _, sp := range gd.Specs {
			vs := sp.(*ast.ValueSpec)
			ty := goTypeK(vs.Type)
			if len(vs.Values) != 0 || ty == tUnknown {
				kt.fail("unsupported var declaration")
			}
			for _, n := range vs.Names {
				kt.env[n.Name] = ty
				out += "let " + n.Name + " := " + zeroOf(ty) + " in\n"
			}
		}
		return out + kt.stmts(rest)
	case *ast.AssignStmt:
		if len(t.Rhs) != 1 {
			kt.fail("unsupported parallel assignment")
			return "?"
		}
		// ctx := sdk.UnwrapSDKContext(goCtx)
		if ce, ok := t.Rhs[0].(*ast.CallExpr); ok && exprName(ce.Fun) == "sdk.UnwrapSDKContext" {
			kt.env[exprName(t.Lhs[0])] = tCtx
			return kt.stmts(rest)
		}
		if ce, ok := t.Rhs[0].(*ast.CallExpr); ok {
			name := kt.callName(ce.Fun)
			if sig, found := kt.lookup(name); found && (sig.stateful || sig.hasErr || len(sig.results) != 1) {
				line, rest2, ok := kt.bindCall(t.Lhs, ce, rest)
				if !ok {
					return "?"
				}
				return line + kt.stmts(rest2)
			}
		}
		if len(t.Lhs) != 1 {
			kt.fail("unsupported multi-assignment")
			return "?"
		}
		pre, v, ty := kt.expr(t.Rhs[0])
		switch l := t.Lhs[0].(type) {
		case *ast.Ident:
			kt.env[l.Name] = ty
			return kwrap(pre, "let "+l.Name+" := "+v+" in\n"+kt.stmts(rest))
		case *ast.SelectorExpr:
			base, ok := l.X.(*ast.Ident)
			bty := kt.env[exprName(l.X)]
			if !ok || !isStruct(bty) {
				kt.fail("unsupported assignment target %s", exprName(l))
				return "?"
			}
			sn := structName(bty)
			return kwrap(pre, "let "+base.Name+" := (set_"+sn+"_"+l.Sel.Name+" "+base.Name+" "+v+") in\n"+kt.stmts(rest))
		}
		kt.fail("unsupported assignment target")
		return "?"
	case *ast.IfStmt:
		if t.Init != nil {
			// if err := f(..); err != nil { return .., err }
			as, ok := t.Init.(*ast.AssignStmt)
			if ok && len(as.Rhs) == 1 {
				if ce, ok := as.Rhs[0].(*ast.CallExpr); ok {
					plain := &ast.IfStmt{Cond: t.Cond, Body: t.Body, Else: t.Else}
					line, rest2, ok := kt.bindCall(as.Lhs, ce, append([]ast.Stmt{plain}, rest...))
					if !ok {
						return "?"
					}
					return line + kt.stmts(rest2)
				}
			}
			kt.fail("unsupported if with init statement")
			return "?"
		}
		pre, c, _ := kt.expr(t.Cond)
		saved := map[string]gtype{}
		for k, v := range kt.env {
			saved[k] = v
		}
		thenS := kt.stmts(append(append([]ast.Stmt{}, t.Body.List...), rest...))
		kt.env = saved
		var elseList []ast.Stmt
		if t.Else != nil {
			switch e := t.Else.(type) {
			case *ast.BlockStmt:
				elseList = e.List
			case *ast.IfStmt:
				elseList = []ast.Stmt{e}
			}
		}
		saved2 := map[string]gtype{}
		for k, v := range kt.env {
			saved2[k] = v
		}
		elseS := kt.stmts(append(append([]ast.Stmt{}, elseList...), rest...))
		kt.env = saved2
		return kwrap(pre, "if "+c+" then (\n"+thenS+")\nelse (\n"+elseS+")")
	}
	kt.fail("unsupported statement %T", s)
	return "?"
}

func errConst(e ast.Expr) string {
	n := exprName(e)
	switch {
	case strings.HasPrefix(n, "types."):
		n = cur.name + "_" + strings.TrimPrefix(n, "types.")
	case !strings.Contains(n, "."):
		n = cur.name + "_" + n // inside package types
	}
	return strings.Replace(n, ".", "_", -1)
}

func (kt *kTrans) ret(results []ast.Expr) string {
	nval := len(kt.results)
	want := nval
	if kt.hasErr {
		want++
	}
	if len(results) != want {
		kt.fail("return of %d values, %d expected", len(results), want)
		return "?"
	}
	if kt.hasErr {
		last := results[len(results)-1]
		if exprName(last) != "nil" {
			ce, ok := last.(*ast.CallExpr)
			if ok {
				fn := exprName(ce.Fun)
				if isWrap(fn) && len(ce.Args) >= 1 {
					return "Err " + errConst(ce.Args[0])
				}
			}
			kt.fail("unsupported error value %s", exprName(last))
			return "?"
		}
		results = results[:len(results)-1]
	}
	var pre []kbinding
	var vals []string
	for _, r := range results {
		p, v, _ := kt.expr(r)
		pre = append(pre, p...)
		vals = append(vals, v)
	}
	if kt.stateful {
		return kwrap(pre, "Ok (w, "+tuple(vals)+")")
	}
	return kwrap(pre, "Ok "+tuple(vals))
}

func sigOf(fd *ast.FuncDecl) (fnSig, []field, string) {
	var sig fnSig
	var params []field
	recv := ""
	if fd.Recv != nil && len(fd.Recv.List) == 1 && len(fd.Recv.List[0].Names) == 1 {
		recv = fd.Recv.List[0].Names[0].Name
		if rt := goTypeK(fd.Recv.List[0].Type); isStruct(rt) {
			params = append(params, field{recv, rt})
			recv = ""
		}
	}
	for i, f := range fd.Type.Params.List {
		ty := goTypeK(f.Type)
		for _, n := range f.Names {
			if ty == tCtx && i == 0 {
				sig.stateful = true
				sig.dropCtx = n.Name == "ctx"
				params = append(params, field{n.Name, tCtx})
				continue
			}
			params = append(params, field{n.Name, ty})
		}
	}
	if fd.Type.Results != nil {
		for _, f := range fd.Type.Results.List {
			ty := goTypeK(f.Type)
			n := len(f.Names)
			if n == 0 {
				n = 1
			}
			for i := 0; i < n; i++ {
				if ty == tErrT {
					sig.hasErr = true
				} else {
					sig.results = append(sig.results, ty)
				}
			}
		}
	}
	sig.impure = true
	sig.coq = "go_" + fd.Name.Name
	return sig, params, recv
}

// translateKeeperFunc renders one function. A function that takes the context but never calls anything
// state-changing is rendered as a *reader*: it takes the world and returns only its results.
func translateKeeperFunc(fd *ast.FuncDecl, funcs map[string]fnSig, defName string) (string, []string, fnSig) {
	sig, params, recv := sigOf(fd)
	if defName == "" {
		defName = fd.Name.Name
	}
	sig.coq = "go_" + defName
	render := func(stateful bool) (string, []string, bool) {
		kt := &kTrans{env: map[string]gtype{}, recv: recv, stateful: stateful, results: sig.results, hasErr: sig.hasErr, funcs: funcs}
		var ps []string
		if sig.stateful {
			ps = append(ps, "(w : "+cur.world+")")
		}
		for _, p := range params {
			kt.env[p.name] = p.typ
			if p.typ == tCtx {
				continue
			}
			if p.typ == tUnknown {
				kt.fail("parameter %s: unsupported type", p.name)
			}
			ps = append(ps, fmt.Sprintf("(%s : %s)", p.name, coqTypeK(p.typ)))
		}
		var rts []string
		for _, r := range sig.results {
			if r == tUnknown {
				kt.fail("unsupported result type")
			}
			rts = append(rts, coqTypeK(r))
		}
		rt := "unit"
		if len(rts) == 1 {
			rt = rts[0]
		} else if len(rts) > 1 {
			rt = "(" + strings.Join(rts, " * ") + ")"
		}
		if stateful {
			rt = "(" + cur.world + " * " + rt + ")"
		}
		body := kt.stmts(fd.Body.List)
		def := fmt.Sprintf("Definition go_%s %s : outcome %s :=\n%s.\n", defName, strings.Join(ps, " "), rt, body)
		return def, kt.errs, kt.usedStateful
	}
	def, errs, used := render(sig.stateful)
	if sig.stateful && !used && len(errs) == 0 {
		// a reader
		def, errs, _ = render(false)
		sig.reads = true
		sig.stateful = false
	}
	return def, errs, sig
}

// writeKeeper emits the records and the translated functions of one module
func writeKeeper(repo, module, typesOut, keeperOut string) {
	cur = modules[module]
	primTable = cur.prims
	constTable = cur.consts
	loadStructs(repo)
	writeStructTypes(typesOut)
	decls := map[string]*ast.FuncDecl{}
	var allNames []string
	for _, fn := range cur.goFiles {
		f := parseFile(filepath.Join(repo, "x", cur.name, "keeper", fn))
		for _, d := range f.Decls {
			if fd, ok := d.(*ast.FuncDecl); ok && fd.Body != nil {
				decls[fd.Name.Name] = fd
				allNames = append(allNames, fd.Name.Name)
			}
		}
	}
	sort.Strings(allNames)
	var sb strings.Builder
	sb.WriteString("(* GENERATED by /verif/translator (gokeeper.go) from /repo/x/" + cur.name + "/keeper/{" + strings.Join(cur.goFiles, ",") + "} on every check.\n")
	sb.WriteString("   State-passing rendering of the keeper and message-server code against the hand-written primitives it imports.\n")
	sb.WriteString("   The proofs/Generated*Eq.v files prove these equal to the hand-written model. Do not edit. *)\n")
	sb.WriteString("From Coq Require Import String.\nFrom MC Require Import " + cur.imports + ".\nOpen Scope Z_scope.\n\n")
	funcs := map[string]fnSig{}
	// the stateless checks of the messages (x/<module>/types/msgs.go)
	if len(cur.msgTypes) > 0 {
		mf := parseFile(filepath.Join(repo, "x", cur.name, "types", "msgs.go"))
		for _, mt := range cur.msgTypes {
			found := false
			for _, d := range mf.Decls {
				fd, ok := d.(*ast.FuncDecl)
				if !ok || fd.Body == nil || fd.Name.Name != "ValidateBasic" || fd.Recv == nil || len(fd.Recv.List) != 1 {
					continue
				}
				if strings.TrimPrefix(exprName(fd.Recv.List[0].Type), "types.") != mt {
					continue
				}
				found = true
				def, errs, _ := translateKeeperFunc(fd, funcs, mt+"_ValidateBasic")
				if len(errs) > 0 {
					sb.WriteString("(* NOT TRANSLATED " + mt + ".ValidateBasic: " + strings.Join(errs, "; ") + " *)\n\n")
				} else {
					sb.WriteString(def + "\n")
				}
			}
			if !found {
				sb.WriteString("(* NOT FOUND " + mt + ".ValidateBasic *)\n\n")
			}
		}
	}
	for _, want := range cur.want {
		fd, ok := decls[want]
		if !ok {
			sb.WriteString("(* NOT FOUND " + want + " *)\n\n")
			continue
		}
		def, errs, sig := translateKeeperFunc(fd, funcs, "")
		if len(errs) > 0 {
			sb.WriteString("(* NOT TRANSLATED " + want + ": " + strings.Join(errs, "; ") + " *)\n\n")
			continue
		}
		sb.WriteString(def + "\n")
		key := "k." + want
		if fd.Recv == nil {
			key = want
		}
		funcs[key] = sig
	}
	// every other function of the files is listed, so that a new state-changing function cannot appear unnoticed
	var others []string
	inWant := map[string]bool{}
	for _, w := range cur.want {
		inWant[w] = true
	}
	for _, n := range allNames {
		if !inWant[n] {
			others = append(others, n)
		}
	}
	sb.WriteString("Local Open Scope string_scope.\n")
	sb.WriteString("Definition " + cur.listName + " : list string :=\n  " + strList(others) + ".\n")
	// the bodies of the module's own functions that the translated code calls as PRIMITIVES (described by hand in the
	// prims files): a digest of each body (comments stripped, gofmt layout), so that an edit to one of them is noticed
	for _, fn := range []string{"params.go", "keeper.go"} {
		f := parseFile(filepath.Join(repo, "x", cur.name, "keeper", fn))
		for _, d := range f.Decls {
			if fd, ok := d.(*ast.FuncDecl); ok && fd.Body != nil {
				if _, dup := decls[fd.Name.Name]; !dup {
					decls[fd.Name.Name] = fd
				}
			}
		}
	}
	var prims []string
	for k := range cur.prims {
		if strings.HasPrefix(k, "k.") && !strings.Contains(strings.TrimPrefix(k, "k."), ".") {
			prims = append(prims, strings.TrimPrefix(k, "k."))
		}
	}
	// ... and, transitively, the module functions those bodies call
	inPrims := map[string]bool{}
	for _, pn := range prims {
		inPrims[pn] = true
	}
	for i := 0; i < len(prims); i++ {
		fd, ok := decls[prims[i]]
		if !ok {
			continue
		}
		ast.Inspect(fd.Body, func(n ast.Node) bool {
			ce, ok := n.(*ast.CallExpr)
			if !ok {
				return true
			}
			if sel, ok := ce.Fun.(*ast.SelectorExpr); ok {
				callee := sel.Sel.Name
				if _, isDecl := decls[callee]; isDecl && !inPrims[callee] && !inWant[callee] {
					if id, ok := sel.X.(*ast.Ident); ok && (id.Name == "k" || id.Name == "q" || id.Name == "keeper") {
						inPrims[callee] = true
						prims = append(prims, callee)
					}
				}
			}
			return true
		})
	}
	sort.Strings(prims)
	var digests []string
	for _, pn := range prims {
		fd, ok := decls[pn]
		if !ok {
			digests = append(digests, fmt.Sprintf("(%s, %s)", q(pn), q("MISSING")))
			continue
		}
		cp := *fd
		cp.Doc = nil
		var buf bytes.Buffer
		printer.Fprint(&buf, token.NewFileSet(), &cp)
		sum := sha256.Sum256(buf.Bytes())
		digests = append(digests, fmt.Sprintf("(%s, %s)", q(pn), q(fmt.Sprintf("%x", sum[:8]))))
	}
	sb.WriteString("Definition " + cur.name + "_primitive_bodies : list (string * string) :=\n  [" + strings.Join(digests, ";\n   ") + "].\n")
	os.WriteFile(keeperOut, []byte(sb.String()), 0o644)
}
