package main

// Go -> Gallina translator for the *stateful* code of x/stream: keeper/stream.go (addSeconds, ClaimFromStream,
// AddDeposit, SetNewFlowRate, CancelStreamBySenderReceiver, CreateNewStream) and keeper/msg_server.go (the five
// stream handlers and UpdateParams).  Output:
//   coq/GeneratedStreamTypes.v  - one Record per protobuf struct of x/stream/types/{stream,params,tx}.pb.go
//   coq/GeneratedStreamKeeper.v - one Definition go_<F> per function, in state-passing style:
//        go_F (w : kworld) args : outcome (kworld * results)
//     an `error` result is the [Err] outcome (the SDK discards a message's writes when its handler errors, so no
//     state accompanies it); a Go panic is [Panic].
// The calls it meets that are not themselves translated are the *primitives* of model/StreamKeeperPrims.v (store
// access of one stream, parameters, the three bank transfers, sdk.NewCoins, bech32 decoding, time.Unix, Coin methods),
// plus lib/GoSdk.v and the functions of GeneratedFns.v.
//
// Supported subset (anything else fails the translation, i.e. breaks a proof obligation):
//   x := e / x = e / x.F = e / var x T; a, b := f(..) (tuple results); ExprStmt of a stateful void primitive;
//   `v.., err := f(..)` (or `err = f(..)`, or `if err := f(..); err != nil`) immediately followed by
//   `if err != nil { return .., err }`  ==> monadic bind  (any other use of an error value is rejected);
//   if / else with fall-through (the continuation is duplicated into both branches); return;
//   struct literals; ctx.EventManager().EmitEvent(..), `defer telemetry.*` and `ctx := sdk.UnwrapSDKContext(..)`
//   are dropped (events and telemetry are not modelled).

import (
	"bytes"
	"crypto/sha256"
	"fmt"
	"go/ast"
	"go/printer"
	"go/token"
	"os"
	"path/filepath"
	"sort"
	"strings"
)

const (
	tAddr    gtype = "Addr"    // sdk.AccAddress
	tAddrStr gtype = "AddrStr" // a Go string holding a bech32 address (abstract: the address itself)
	tDenom   gtype = "Denom"
	tCoins   gtype = "Coins"
	tModName gtype = "ModName"
	tUnit    gtype = "unit"
	tErrT    gtype = "error"
	tCtx     gtype = "ctx"
	tStr     gtype = "Str" // a Go string that is data (names, hashes)
)

// string-typed struct fields that hold an address / a denomination rather than free text
var addrFieldNames = map[string]bool{"Owner": true, "Sender": true, "Receiver": true, "Authority": true, "Purchaser": true, "Signer": true, "Address": true, "ReceiverAddr": true, "SenderAddr": true}
var denomFieldNames = map[string]bool{"Denom": true}

const (
	tEnum     gtype = "Enum"     // a protobuf enum (int32 constants)
	tSigners  gtype = "Signers"  // Params.EntSigners: the comma-separated list of addresses, abstract: the list itself
	tModAcc   gtype = "ModAcc"   // a module account handle as returned by Get<Module>Account (nil when not set)
	tAnyMsg   gtype = "AnyMsg"   // an sdk.Msg: one of the module's message structs or something else
	tTx       gtype = "Tx"       // sdk.Tx / sdk.FeeTx: messages, fee, fee payer
	tPageReq  gtype = "PageReq"  // *query.PageRequest (abstract: what it selects from an ordered listing, lib/GoSdk.v)
	tPageResp gtype = "PageResp" // *query.PageResponse
	tErrV     gtype = "ErrVal"   // an error value carried to the return (deferred-error idiom)
	tEmptyLit gtype = "EmptyLit" // the literal ""
	tNext     gtype = "Next"     // sdk.AnteHandler: the rest of the ante chain
)

func isMap(t gtype) bool   { return strings.HasPrefix(string(t), "M:") } // M:<value type>, keys are uint64
func mapVal(t gtype) gtype { return gtype(strings.TrimPrefix(string(t), "M:")) }

func isStruct(t gtype) bool { return strings.HasPrefix(string(t), "S:") }
func isList(t gtype) bool   { return strings.HasPrefix(string(t), "L:") }
func elemOf(t gtype) gtype  { return gtype(strings.TrimPrefix(string(t), "L:")) }

var enumTypeNames = map[string]bool{"PurchaseOrderStatus": true, "WhitelistAction": true}

// named slice types of the module's types package (type X []Y), read from types/types.go
var sliceTypes = map[string]ast.Expr{}

func structName(t gtype) string {
	return strings.TrimPrefix(string(t), "S:")
}

func coqTypeK(t gtype) string {
	switch t {
	case tInt64, tUint64, tInt, tDec, tDecCoin, tTime:
		return "Z"
	case tCoin:
		return "go_coin"
	case tBool:
		return "bool"
	case tAddr, tAddrStr, tModName:
		return "go_addr"
	case tDenom, tString:
		return "go_denom"
	case tCoins:
		return "(list go_coin)"
	case tUnit:
		return "unit"
	case tStr:
		return "string"
	case tEnum:
		return "Z"
	case tSigners:
		return "(list go_addr)"
	case tModAcc:
		return "go_modacc"
	case tAnyMsg:
		return "go_anymsg"
	case tTx:
		return "go_tx"
	case tPageReq:
		return "go_PageRequest"
	case tPageResp:
		return "go_PageResponse"
	case tErrV:
		return "(option Z)"
	}
	if isStruct(t) {
		return "go_" + structName(t)
	}
	if isList(t) {
		return "(list " + coqTypeK(elemOf(t)) + ")"
	}
	if isMap(t) {
		return "(list (Z * " + coqTypeK(mapVal(t)) + "))"
	}
	return "?"
}

func zeroOf(t gtype) string {
	switch t {
	case tInt64, tUint64, tInt, tDec, tDecCoin:
		return "0"
	case tTime:
		return "go_zero_time"
	case tCoin:
		return "go_zero_coin"
	case tBool:
		return "false"
	case tAddr, tAddrStr, tModName:
		return "go_zero_addr"
	case tDenom, tString:
		return "go_zero_denom"
	case tCoins:
		return "[]"
	case tUnit:
		return "tt"
	case tPageReq:
		return "go_zero_PageRequest"
	case tPageResp:
		return "go_zero_PageResponse"
	case tStr:
		return "EmptyString"
	case tEnum:
		return "0"
	case tSigners:
		return "[]"
	}
	if isStruct(t) {
		return "zero_go_" + structName(t)
	}
	if isList(t) {
		return "[]"
	}
	return "?"
}

// Go type expression -> gtype in keeper mode
func goTypeK(e ast.Expr) gtype {
	if e == nil {
		return tUnknown
	}
	if at, ok := e.(*ast.ArrayType); ok && at.Len == nil {
		if exprName(at.Elt) == "abci.ValidatorUpdate" {
			return tUnit // InitGenesis returns no validator updates
		}
		et := goTypeK(at.Elt)
		if et == tUnknown {
			return tUnknown
		}
		return gtype("L:" + string(et))
	}
	n := exprName(e)
	switch n {
	case "int64", "int":
		return tInt64
	case "uint64":
		return tUint64
	case "bool":
		return tBool
	case "string":
		return tStr
	case "error":
		return tErrT
	case "sdk.Int", "math.Int":
		return tInt
	case "sdk.Dec", "github_com_cosmos_cosmos_sdk_types.Dec", "math.LegacyDec":
		return tDec
	case "sdk.Coin", "types.Coin":
		return tCoin
	case "sdk.Coins", "github_com_cosmos_cosmos_sdk_types.Coins":
		return tCoins
	case "sdk.AccAddress":
		return tAddr
	case "time.Time":
		return tTime
	case "sdk.Context", "context.Context":
		return tCtx
	case "sdk.Tx", "sdk.FeeTx":
		return tTx
	case "sdk.Msg":
		return tAnyMsg
	case "query.PageRequest":
		return tPageReq
	case "query.PageResponse":
		return tPageResp
	case "sdk.AnteHandler":
		return tNext
	}
	if mt, ok := e.(*ast.MapType); ok && exprName(mt.Key) == "uint64" {
		vt := goTypeK(mt.Value)
		if vt != tUnknown {
			return gtype("M:" + string(vt))
		}
	}
	n = strings.TrimPrefix(n, "types.")
	if a, ok := localTypeAlias[n]; ok {
		return gtype("S:" + a)
	}
	if _, ok := structTable[n]; ok {
		return gtype("S:" + n)
	}
	if enumTypeNames[n] {
		return tEnum
	}
	if elt, ok := sliceTypes[n]; ok {
		et := goTypeK(elt)
		if et != tUnknown {
			return gtype("L:" + string(et))
		}
	}
	return tUnknown
}

type field struct {
	name string
	typ  gtype
}

// moduleSpec: what to translate for one module and against which primitives
type moduleSpec struct {
	name      string   // directory under x/
	pbFiles   []string // files of x/<name>/types holding the struct declarations
	goFiles   []string // files of x/<name>/keeper to translate from
	want      []string // functions to translate, callees first
	prims     map[string]fnSig
	consts    map[string]constDef
	world     string // Coq type of the state threaded through
	imports   string // Coq imports of the generated keeper file
	typesMod  string // name of the generated types file (without .v)
	keeperMod string
	listName  string      // name of the Definition listing the functions that are NOT translated
	msgTypes  []string    // message types whose ValidateBasic (types/msgs.go) is translated too
	typeFuncs [][2]string // (file of x/<module>/types, function): pure helpers of package types translated too
	rootFiles []string    // files of x/<module>/ (package root: genesis.go) whose functions may be listed in want
	anteFiles []string    // files relative to x/<module>/ (ante/ante.go, exported/exported.go) whose functions may be listed
	callbacks []string    // list-query handlers whose query.FilteredPaginate callback is translated (go_<Handler>_callback)
	secVars   string      // Section variables of the generated keeper file (a definition is generalised over the ones it uses)
}

type constDef struct {
	coq string
	typ gtype
}

var cur *moduleSpec

// struct types declared inside the function being translated: Go name -> name in structTable
var localTypeAlias = map[string]string{}

var structTable = map[string][]field{}
var structOrder []string

// protobuf enum value names (<Enum>_name maps of the .pb.go files): "STATUS_NIL" -> "0"
var enumNames = map[string]string{}

// typed enum constants of the protobuf files: Go name -> value
var enumConsts = map[string]string{}
var enumOrder []string

// loadStructs reads the struct declarations of the generated protobuf files
func loadStructs(repo string) {
	structTable = map[string][]field{}
	structOrder = nil
	enumConsts = map[string]string{}
	enumOrder = nil
	enumNames = map[string]string{}
	sliceTypes = map[string]ast.Expr{}
	if _, err := os.Stat(filepath.Join(repo, "x", cur.name, "types", "types.go")); err == nil {
		tf := parseFile(filepath.Join(repo, "x", cur.name, "types", "types.go"))
		for _, d := range tf.Decls {
			if gd, ok := d.(*ast.GenDecl); ok && gd.Tok == token.TYPE {
				for _, sp := range gd.Specs {
					ts := sp.(*ast.TypeSpec)
					if at, ok := ts.Type.(*ast.ArrayType); ok && at.Len == nil {
						sliceTypes[ts.Name.Name] = at.Elt
					}
				}
			}
		}
	}
	for _, fn := range cur.pbFiles {
		f := parseFile(filepath.Join(repo, "x", cur.name, "types", fn))
		for _, d := range f.Decls {
			if gd, ok := d.(*ast.GenDecl); ok && gd.Tok == token.VAR {
				for _, sp := range gd.Specs {
					vs := sp.(*ast.ValueSpec)
					if len(vs.Names) != 1 || len(vs.Values) != 1 || !strings.HasSuffix(vs.Names[0].Name, "_name") {
						continue
					}
					if cl, ok := vs.Values[0].(*ast.CompositeLit); ok {
						for _, el := range cl.Elts {
							if kv, ok := el.(*ast.KeyValueExpr); ok {
								if v, ok := kv.Value.(*ast.BasicLit); ok && v.Kind == token.STRING {
									enumNames[v.Value] = exprName(kv.Key)
								}
							}
						}
					}
				}
			}
			gd, ok := d.(*ast.GenDecl)
			if !ok || gd.Tok != token.CONST {
				continue
			}
			for _, sp := range gd.Specs {
				vs := sp.(*ast.ValueSpec)
				if vs.Type == nil || !enumTypeNames[exprName(vs.Type)] || len(vs.Names) != 1 || len(vs.Values) != 1 {
					continue
				}
				if bl, ok := vs.Values[0].(*ast.BasicLit); ok && bl.Kind == token.INT {
					enumConsts[vs.Names[0].Name] = bl.Value
					enumOrder = append(enumOrder, vs.Names[0].Name)
				}
			}
		}
		// two passes so that a struct can mention one declared later in the same file
		for pass := 0; pass < 2; pass++ {
			for _, d := range f.Decls {
				gd, ok := d.(*ast.GenDecl)
				if !ok || gd.Tok != token.TYPE {
					continue
				}
				for _, sp := range gd.Specs {
					ts := sp.(*ast.TypeSpec)
					st, ok := ts.Type.(*ast.StructType)
					if !ok {
						continue
					}
					var fs []field
					good := true
					for _, fl := range st.Fields.List {
						ty := goTypeK(fl.Type)
						if ty == tUnknown || ty == tErrT || ty == tCtx {
							good = false
						}
						for _, nm := range fl.Names {
							fty := ty
							if ty == tStr && addrFieldNames[nm.Name] {
								fty = tAddrStr
							} else if ty == tStr && denomFieldNames[nm.Name] {
								fty = tDenom
							} else if ty == tStr && nm.Name == "EntSigners" {
								fty = tSigners
							} else if ty == gtype("L:"+string(tStr)) && (nm.Name == "Whitelist" || nm.Name == "Addresses") {
								fty = gtype("L:" + string(tAddrStr))
							}
							fs = append(fs, field{nm.Name, fty})
						}
					}
					if _, seen := structTable[ts.Name.Name]; !seen {
						if pass == 0 {
							// reserve the name so that later structs can refer to it
							structTable[ts.Name.Name] = nil
							structOrder = append(structOrder, ts.Name.Name)
						}
					}
					if good {
						structTable[ts.Name.Name] = fs
					} else if pass == 1 {
						structTable[ts.Name.Name] = []field{{"UNSUPPORTED", tUnknown}}
					}
				}
			}
		}
	}
}

func writeStructTypes(out string) {
	var sb strings.Builder
	sb.WriteString("(* GENERATED by /verif/translator (gokeeper.go) from /repo/x/" + cur.name + "/types/{" + strings.Join(cur.pbFiles, ",") + "} on every check.\n")
	sb.WriteString("   One record per protobuf struct; strings holding addresses are abstract addresses, Coin = go_coin. Do not edit. *)\n")
	sb.WriteString("From Coq Require Import String.\nFrom MC Require Import lib.Prelude lib.GoSdk.\nOpen Scope Z_scope.\n\n")
	// order: a struct after the structs it mentions
	done := map[string]bool{}
	var emit func(n string)
	emit = func(n string) {
		if done[n] {
			return
		}
		done[n] = true
		fs := structTable[n]
		for _, f := range fs {
			if f.typ == tUnknown {
				sb.WriteString("(* NOT TRANSLATED struct " + n + ": unsupported field type *)\n\n")
				return
			}
			ft := f.typ
			for isList(ft) {
				ft = elemOf(ft)
			}
			if isStruct(ft) {
				emit(structName(ft))
			}
		}
		var decl, zeros []string
		for _, f := range fs {
			decl = append(decl, fmt.Sprintf("%s_%s : %s", n, f.name, coqTypeK(f.typ)))
			zeros = append(zeros, zeroOf(f.typ))
		}
		sb.WriteString(fmt.Sprintf("Record go_%s := mk_go_%s { %s }.\n", n, n, strings.Join(decl, "; ")))
		sb.WriteString(fmt.Sprintf("Definition zero_go_%s : go_%s := mk_go_%s %s.\n", n, n, n, strings.Join(zeros, " ")))
		for i, f := range fs {
			var args []string
			for j, g := range fs {
				if i == j {
					args = append(args, "v")
				} else {
					args = append(args, fmt.Sprintf("(%s_%s s)", n, g.name))
				}
			}
			sb.WriteString(fmt.Sprintf("Definition set_%s_%s (s : go_%s) (v : %s) : go_%s := mk_go_%s %s.\n",
				n, f.name, n, coqTypeK(f.typ), n, n, strings.Join(args, " ")))
		}
		sb.WriteString("\n")
	}
	for _, n := range structOrder {
		emit(n)
	}
	for _, n := range enumOrder {
		sb.WriteString(fmt.Sprintf("Definition %s_%s : Z := %s.\n", cur.name, n, enumConsts[n]))
	}
	// sdk.Msg as seen by this module's ante decorator: its own message structs, or anything else
	var ctors []string
	for _, n := range structOrder {
		if strings.HasPrefix(n, "Msg") && !strings.HasSuffix(n, "Response") && done[n] && len(structTable[n]) > 0 && structTable[n][0].typ != tUnknown {
			ctors = append(ctors, fmt.Sprintf("| AM_%s (m : go_%s)", n, n))
		}
	}
	if len(ctors) > 0 {
		sb.WriteString("\nInductive go_anymsg :=\n" + strings.Join(ctors, "\n") + "\n| AM_Other (tag : Z).\n")
		sb.WriteString("Record go_tx := mk_go_tx { Tx_Msgs : list go_anymsg; Tx_Fee : list go_coin; Tx_FeePayer : go_addr }.\n")
	}
	os.WriteFile(out, []byte(sb.String()), 0o644)
}

// ---- function signatures ----

type fnSig struct {
	coq         string
	stateful    bool     // takes the world and returns a new one
	reads       bool     // takes the world, returns no new one (pure read)
	impure      bool     // returns an outcome
	hasErr      bool     // last Go result is `error`
	results     []gtype  // without the error
	dropCtx     bool     // first Go argument is the context
	iterListing string   // an Iterate*(ctx, callback) helper: the primitive listing what it visits, in order ...
	iterFields  []string // ... and the fields of a listed element handed to the callback's parameters
	ctxResult   bool     // first Go result is the context (AnteHandle): dropped
	zeroOnErr   bool     // on error the Go function returns the zero values of its other results (allows the deferred-error idiom)
}

// primitives: described by hand in model/StreamKeeperPrims.v, lib/GoSdk.v or produced in GeneratedFns.v
var primTable map[string]fnSig

var streamPrims = map[string]fnSig{
	"k.IterateAllStreams":                       {iterListing: "allStreamsListing", iterFields: []string{"Receiver", "Sender", "Stream"}},
	"k.allStreamsListing":                       {coq: "str_AllStreams", reads: true, results: []gtype{"L:S:StreamExport"}, dropCtx: true},
	"k.GetStreamModuleAccount":                  {coq: "str_GetStreamModuleAccount", reads: true, results: []gtype{tModAcc}, dropCtx: true},
	"k.bankKeeper.GetAllBalances":               {coq: "bank_GetAllBalances", reads: true, results: []gtype{tCoins}, dropCtx: true},
	"k.accKeeper.SetModuleAccount":              {coq: "acc_SetModuleAccount", stateful: true, impure: true, dropCtx: true},
	"k.GetStream":                               {coq: "str_GetStream", reads: true, results: []gtype{"S:Stream", tBool}, dropCtx: true},
	"k.IsStream":                                {coq: "str_IsStream", reads: true, results: []gtype{tBool}, dropCtx: true},
	"k.GetParams":                               {coq: "str_GetParams", reads: true, results: []gtype{"S:Params"}, dropCtx: true},
	"k.SetStream":                               {coq: "str_SetStream", stateful: true, impure: true, hasErr: true, dropCtx: true},
	"k.DeleteStream":                            {coq: "str_DeleteStream", stateful: true, impure: true, dropCtx: true},
	"k.SetParams":                               {coq: "str_SetParams", stateful: true, impure: true, hasErr: true, dropCtx: true},
	"k.bankKeeper.SendCoinsFromModuleToModule":  {coq: "bank_SendCoinsFromModuleToModule", stateful: true, impure: true, hasErr: true, dropCtx: true},
	"k.bankKeeper.SendCoinsFromModuleToAccount": {coq: "bank_SendCoinsFromModuleToAccount", stateful: true, impure: true, hasErr: true, dropCtx: true},
	"k.bankKeeper.SendCoinsFromAccountToModule": {coq: "bank_SendCoinsFromAccountToModule", stateful: true, impure: true, hasErr: true, dropCtx: true},
	"k.bankKeeper.BlockedAddr":                  {coq: "bank_BlockedAddr", results: []gtype{tBool}},
	"ctx.BlockTime":                             {coq: "kw_now", reads: true, results: []gtype{tTime}},
	"sdk.NewCoins":                              {coq: "sdk_NewCoins1", impure: true, results: []gtype{tCoins}},
	"sdk.AccAddressFromBech32":                  {coq: "sdk_AccAddressFromBech32", impure: true, hasErr: true, results: []gtype{tAddr}},
	"types.CalculateDuration":                   {coq: "go_CalculateDuration", impure: true, results: []gtype{tInt64}},
	"types.CalculateAmountToClaim":              {coq: "go_CalculateAmountToClaim", impure: true, results: []gtype{tCoin, tCoin}},
	"types.CalculateValidatorFee":               {coq: "go_CalculateValidatorFee", impure: true, results: []gtype{tCoin, tCoin}},
	"time.Unix":                                 {coq: "Time_FromUnix", results: []gtype{tTime}},
	"sdk.NewInt":                                {coq: "sdk_NewInt", results: []gtype{tInt}},
	"sdk.NewIntFromUint64":                      {coq: "sdk_NewIntFromUint64", results: []gtype{tInt}},
	"sdk.NewCoin":                               {coq: "sdk_NewCoin", impure: true, results: []gtype{tCoin}},
}

var kMethodTable = map[methodKey]fnSig{
	{tInt, "GT"}: {coq: "Int_GT", results: []gtype{tBool}}, {tInt, "LT"}: {coq: "Int_LT", results: []gtype{tBool}},
	{tInt, "IsZero"}:      {coq: "Int_IsZero", results: []gtype{tBool}},
	{tInt, "Mul"}:         {coq: "Int_Mul", results: []gtype{tInt}},
	{tCoin, "IsNil"}:      {coq: "Coin_IsNil", results: []gtype{tBool}},
	{tCoin, "IsNegative"}: {coq: "Coin_IsNegative", results: []gtype{tBool}},
	{tCoin, "IsZero"}:     {coq: "Coin_IsZero", results: []gtype{tBool}},
	{tCoin, "IsLT"}:       {coq: "Coin_IsLT", impure: true, results: []gtype{tBool}},
	{tCoin, "Add"}:        {coq: "Coin_Add", impure: true, results: []gtype{tCoin}},
	{tCoin, "Sub"}:        {coq: "Coin_Sub", impure: true, results: []gtype{tCoin}},
	{tTime, "Unix"}:       {coq: "Time_Unix", results: []gtype{tInt64}}, {tTime, "Nanosecond"}: {coq: "Time_Nanosecond", results: []gtype{tInt64}},
	{tTime, "After"}: {coq: "Time_After", results: []gtype{tBool}}, {tTime, "Before"}: {coq: "Time_Before", results: []gtype{tBool}},
	{tTime, "Equal"}: {coq: "Time_Equal", results: []gtype{tBool}}, {tTime, "UTC"}: {coq: "Time_UTC", results: []gtype{tTime}},
	{tAddr, "String"}:       {coq: "Addr_String", results: []gtype{tAddrStr}},
	{tAddrStr, "String"}:    {coq: "Addr_String", results: []gtype{tAddrStr}}, // an address handed over as its text
	{tAddr, "Empty"}:        {coq: "Addr_Empty", results: []gtype{tBool}},
	{tAddr, "Equals"}:       {coq: "Addr_Equals", results: []gtype{tBool}},
	{tDec, "IsNil"}:         {coq: "Dec_IsNil", results: []gtype{tBool}},
	{tDec, "IsNegative"}:    {coq: "Dec_IsNegative", results: []gtype{tBool}},
	{tDec, "GT"}:            {coq: "Dec_GT", results: []gtype{tBool}},
	{tCoin, "IsValid"}:      {coq: "Coin_IsValid", results: []gtype{tBool}},
	{tCoins, "AmountOf"}:    {coq: "Coins_AmountOf", results: []gtype{tInt}},
	{tCoins, "Find"}:        {coq: "Coins_Find", results: []gtype{tBool, tCoin}},
	{tCoins, "SafeSub"}:     {coq: "Coins_SafeSub1", impure: true, results: []gtype{tCoins, tBool}},
	{tCoins, "Add"}:         {coq: "Coins_AddAll", impure: true, results: []gtype{tCoins}},
	{tCoins, "Empty"}:       {coq: "Coins_Empty", results: []gtype{tBool}},
	{tCoins, "IsZero"}:      {coq: "Coins_IsZero", results: []gtype{tBool}},
	{tCoins, "IsEqual"}:     {coq: "Coins_IsEqual", impure: true, results: []gtype{tBool}},
	{tModAcc, "GetAddress"}: {coq: "modacc_addr", results: []gtype{tAddr}},
	{tTx, "GetMsgs"}:        {coq: "Tx_Msgs", results: []gtype{"L:AnyMsg"}},
	{tTx, "GetFee"}:         {coq: "Tx_Fee", results: []gtype{tCoins}},
	{tTx, "FeePayer"}:       {coq: "Tx_FeePayer", results: []gtype{tAddr}},
	{tCoin, "IsPositive"}:   {coq: "Coin_IsPositive", results: []gtype{tBool}},
	{tInt, "Uint64"}:        {coq: "Int_Uint64", impure: true, results: []gtype{tUint64}},
	{tCoins, "IsValid"}:     {coq: "Coins_IsValid", results: []gtype{tBool}},
}

// parameter names under which the ante helpers receive keepers
var keeperParamNames = map[string]bool{"bankKeeper": true, "accKeeper": true, "ek": true, "wk": true, "bk": true, "wck": true}

// package-level / keeper-field constants
var constTable map[string]constDef

var streamConsts = map[string]constDef{
	"types.ModuleName":   {"MOD_stream", tModName},
	"k.feeCollectorName": {"MOD_fee_collector", tModName},
	"k.authority":        {"KEEPER_authority", tAddrStr},
}

// onStorePrims: the same primitive table, written against model/StreamStoreWorld.v: every primitive that takes the world
// is the adapter os_<name> over the byte-level store (readers return an outcome there: the generated accessors can panic)
func onStorePrims(src map[string]fnSig) map[string]fnSig {
	out := map[string]fnSig{}
	for k, v := range src {
		if v.stateful || v.reads {
			v.coq = "os_" + v.coq
			if v.reads && !strings.HasSuffix(v.coq, "_now") && !strings.HasSuffix(v.coq, "_wall") {
				v.impure = true // the generated accessors return an outcome (they can panic)
			}
		}
		out[k] = v
	}
	return out
}

// withPrims: a primitive table with some entries replaced
func withPrims(src, over map[string]fnSig) map[string]fnSig {
	out := map[string]fnSig{}
	for k, v := range src {
		out[k] = v
	}
	for k, v := range over {
		out[k] = v
	}
	return out
}

func u64(coq string, reads bool) fnSig {
	return fnSig{coq: coq, reads: reads, results: []gtype{tUint64}, dropCtx: reads}
}

// the registry modules (wrkchain / beacon): store accessors of one entity are the primitives
func registryPrims(ent, rec string) map[string]fnSig {
	E := "S:" + ent
	L := gtype("S:" + ent + "StorageLimit")
	m := map[string]fnSig{
		"k.Get" + ent:                   {coq: "reg_GetEntity", reads: true, results: []gtype{gtype(E), tBool}, dropCtx: true},
		"k.Set" + ent:                   {coq: "reg_SetEntity", stateful: true, impure: true, hasErr: true, dropCtx: true},
		"k.Is" + ent + "Registered":     {coq: "reg_IsRegistered", reads: true, results: []gtype{tBool}, dropCtx: true},
		"k.GetHighest" + ent + "ID":     {coq: "reg_GetHighestID", reads: true, impure: true, hasErr: true, results: []gtype{tUint64}, dropCtx: true},
		"k.SetHighest" + ent + "ID":     {coq: "reg_SetHighestID", stateful: true, impure: true, dropCtx: true},
		"k.Get" + ent + "StorageLimit":  {coq: "reg_GetStorageLimit", reads: true, results: []gtype{L, tBool}, dropCtx: true},
		"k.Set" + ent + "StorageLimit":  {coq: "reg_SetStorageLimit", stateful: true, impure: true, hasErr: true, dropCtx: true},
		"k.IsAuthorisedToRecord":        {coq: "reg_IsAuthorisedToRecord", reads: true, results: []gtype{tBool}, dropCtx: true},
		"k.GetParamMaxStorageLimit":     u64("reg_GetParamMaxStorageLimit", true),
		"k.GetParamDefaultStorageLimit": u64("reg_GetParamDefaultStorageLimit", true),
		"k.SetParams":                   {coq: "reg_SetParams", stateful: true, impure: true, hasErr: true, dropCtx: true},
		"ctx.BlockTime":                 {coq: "rw_now", reads: true, results: []gtype{tTime}},
		"time.Now":                      {coq: "rw_wall", reads: true, results: []gtype{tTime}},
		"sdk.AccAddressFromBech32":      {coq: "sdk_AccAddressFromBech32", impure: true, hasErr: true, results: []gtype{tAddr}},
	}
	for k, v := range rec2prims(rec) {
		m[k] = v
	}
	// ante
	m["k.GetParamDenom"] = fnSig{coq: "reg_GetParamDenom", reads: true, results: []gtype{tDenom}, dropCtx: true}
	for _, g := range []string{"GetZeroFeeAsCoin", "GetRegistrationFeeAsCoin", "GetRecordFeeAsCoin", "GetPurchaseStorageFeeAsCoin"} {
		m["k."+g] = fnSig{coq: "reg_" + g, reads: true, impure: true, results: []gtype{tCoin}, dropCtx: true}
	}
	// genesis
	m["k.GetParams"] = fnSig{coq: "reg_GetParams", reads: true, results: []gtype{"S:Params"}, dropCtx: true}
	m["k.GetAll"+ent+"s"] = fnSig{coq: "reg_GetAllEntities", reads: true, results: []gtype{gtype("L:" + E)}, dropCtx: true}
	return m
}

func rec2prims(rec string) map[string]fnSig {
	if rec == "WrkChainBlock" {
		return map[string]fnSig{
			"k.SetWrkChainBlock":                          {coq: "reg_SetRecord", stateful: true, impure: true, hasErr: true, dropCtx: true},
			"k.deleteWrkChainHash":                        {coq: "reg_DeleteRecord", stateful: true, impure: true, hasErr: true, dropCtx: true},
			"k.GetLastWrkChainHeightInState":              u64("reg_LowestKeyInState", true),
			"k.GetAllWrkChainBlockHashesForGenesisExport": {coq: "reg_GetRecordsForExport", reads: true, results: []gtype{"L:S:WrkChainBlockGenesisExport"}, dropCtx: true},
			"k.GetWrkChainBlock":                          {coq: "reg_GetRecord", reads: true, results: []gtype{"S:WrkChainBlock", tBool}, dropCtx: true},
		}
	}
	return map[string]fnSig{
		"k.SetBeaconTimestamp":              {coq: "reg_SetRecord", stateful: true, impure: true, hasErr: true, dropCtx: true},
		"k.deleteBeaconTimestamp":           {coq: "reg_DeleteRecord", stateful: true, impure: true, hasErr: true, dropCtx: true},
		"k.GetAllBeaconTimestampsForExport": {coq: "reg_GetRecordsForExport", reads: true, results: []gtype{"L:S:BeaconTimestampGenesisExport"}, dropCtx: true},
		"k.GetBeaconTimestampByID":          {coq: "reg_GetRecord", reads: true, results: []gtype{"S:BeaconTimestamp", tBool}, dropCtx: true},
	}
}

var registryConsts = map[string]constDef{
	"k.authority": {"KEEPER_authority", tAddrStr},
}

var enterprisePrims = map[string]fnSig{
	"k.GetLockedUndForAccount":                        {coq: "ent_GetLockedUndForAccount", reads: true, results: []gtype{"S:LockedUnd"}, dropCtx: true},
	"k.SetLockedUndForAccount":                        {coq: "ent_SetLockedUndForAccount", stateful: true, impure: true, hasErr: true, dropCtx: true},
	"k.GetTotalLockedUnd":                             {coq: "ent_GetTotalLockedUnd", reads: true, results: []gtype{tCoin}, dropCtx: true},
	"k.SetTotalLockedUnd":                             {coq: "ent_SetTotalLockedUnd", stateful: true, impure: true, hasErr: true, dropCtx: true},
	"k.GetSpentEFUNDForAccount":                       {coq: "ent_GetSpentEFUNDForAccount", reads: true, results: []gtype{"S:SpentEFUND"}, dropCtx: true},
	"k.SetSpentEFUNDForAccount":                       {coq: "ent_SetSpentEFUNDForAccount", stateful: true, impure: true, hasErr: true, dropCtx: true},
	"k.GetTotalSpentEFUND":                            {coq: "ent_GetTotalSpentEFUND", reads: true, results: []gtype{tCoin}, dropCtx: true},
	"k.SetTotalSpentEFUND":                            {coq: "ent_SetTotalSpentEFUND", stateful: true, impure: true, hasErr: true, dropCtx: true},
	"k.GetParamDenom":                                 {coq: "ent_GetParamDenom", reads: true, results: []gtype{tDenom}, dropCtx: true},
	"k.bankKeeper.MintCoins":                          {coq: "bank_MintCoins", stateful: true, impure: true, hasErr: true, dropCtx: true},
	"k.bankKeeper.SendCoinsFromModuleToAccount":       {coq: "bank_SendCoinsFromModuleToAccount", stateful: true, impure: true, hasErr: true, dropCtx: true},
	"k.bankKeeper.DelegateCoinsFromAccountToModule":   {coq: "bank_DelegateCoinsFromAccountToModule", stateful: true, impure: true, hasErr: true, dropCtx: true},
	"k.bankKeeper.UndelegateCoinsFromModuleToAccount": {coq: "bank_UndelegateCoinsFromModuleToAccount", stateful: true, impure: true, hasErr: true, dropCtx: true},
	"k.bankKeeper.SpendableCoins":                     {coq: "bank_SpendableCoins", reads: true, results: []gtype{tCoins}, dropCtx: true},
	"k.bankKeeper.GetSupply":                          {coq: "bank_GetSupply", reads: true, results: []gtype{tCoin}, dropCtx: true},
	"k.bankKeeper.GetBalance":                         {coq: "bank_GetBalance", reads: true, results: []gtype{tCoin}, dropCtx: true},
	"k.bankKeeper.GetPaginatedTotalSupply":            {coq: "bank_GetPaginatedTotalSupply", reads: true, impure: true, hasErr: true, zeroOnErr: true, results: []gtype{tCoins, tPageResp}, dropCtx: true},
	"sdk.NewCoins":                                    {coq: "sdk_NewCoins1", impure: true, results: []gtype{tCoins}},
	"sdk.NewCoin":                                     {coq: "sdk_NewCoin", impure: true, results: []gtype{tCoin}},
	"sdk.NewInt64Coin":                                {coq: "sdk_NewCoin", impure: true, results: []gtype{tCoin}},
	// begin blocker
	"ctx.BlockTime":                          {coq: "ew_now", reads: true, results: []gtype{tTime}},
	"k.GetAllRaisedPurchaseOrders":           {coq: "ent_GetAllRaisedPurchaseOrders", reads: true, results: []gtype{"L:uint64"}, dropCtx: true},
	"k.GetAllAcceptedPurchaseOrders":         {coq: "ent_GetAllAcceptedPurchaseOrders", reads: true, results: []gtype{"L:uint64"}, dropCtx: true},
	"k.GetParams":                            {coq: "ent_GetParams", reads: true, results: []gtype{"S:Params"}, dropCtx: true},
	"k.GetPurchaseOrder":                     {coq: "ent_GetPurchaseOrder", reads: true, results: []gtype{"S:EnterpriseUndPurchaseOrder", tBool}, dropCtx: true},
	"k.SetPurchaseOrder":                     {coq: "ent_SetPurchaseOrder", stateful: true, impure: true, hasErr: true, dropCtx: true},
	"k.RemovePurchaseOrderFromRaisedQueue":   {coq: "ent_RemovePurchaseOrderFromRaisedQueue", stateful: true, impure: true, dropCtx: true},
	"k.RemovePurchaseOrderFromAcceptedQueue": {coq: "ent_RemovePurchaseOrderFromAcceptedQueue", stateful: true, impure: true, dropCtx: true},
	"k.AddPoToAcceptedQueue":                 {coq: "ent_AddPoToAcceptedQueue", stateful: true, impure: true, dropCtx: true},
	"sdk.AccAddressFromBech32":               {coq: "ent_AccAddressFromBech32", impure: true, hasErr: true, results: []gtype{tAddr}},
	// message server
	"k.GetHighestPurchaseOrderID":        {coq: "ent_GetHighestPurchaseOrderID", reads: true, impure: true, hasErr: true, results: []gtype{tUint64}, dropCtx: true},
	"k.SetHighestPurchaseOrderID":        {coq: "ent_SetHighestPurchaseOrderID", stateful: true, impure: true, dropCtx: true},
	"k.AddPoToRaisedQueue":               {coq: "ent_AddPoToRaisedQueue", stateful: true, impure: true, dropCtx: true},
	"k.GetParamEntSignersAsAddressArray": {coq: "ent_GetParamEntSignersAsAddressArray", reads: true, results: []gtype{"L:Addr"}, dropCtx: true},
	"k.PurchaseOrderExists":              {coq: "ent_PurchaseOrderExists", reads: true, results: []gtype{tBool}, dropCtx: true},
	"k.AddressIsWhitelisted":             {coq: "ent_AddressIsWhitelisted", reads: true, results: []gtype{tBool}, dropCtx: true},
	"k.AddAddressToWhitelist":            {coq: "ent_AddAddressToWhitelist", stateful: true, impure: true, hasErr: true, dropCtx: true},
	"k.RemoveAddressFromWhitelist":       {coq: "ent_RemoveAddressFromWhitelist", stateful: true, impure: true, hasErr: true, dropCtx: true},
	"k.SetParams":                        {coq: "ent_SetParams", stateful: true, impure: true, hasErr: true, dropCtx: true},
	// genesis
	"k.GetEnterpriseAccount":         {coq: "ent_GetEnterpriseAccount", reads: true, results: []gtype{tModAcc}, dropCtx: true},
	"bankKeeper.GetAllBalances":      {coq: "bank_GetAllBalances", reads: true, results: []gtype{tCoins}, dropCtx: true},
	"accountKeeper.SetModuleAccount": {coq: "acc_SetModuleAccount", stateful: true, impure: true, dropCtx: true},
	"k.GetAllPurchaseOrders":         {coq: "ent_GetAllPurchaseOrders", reads: true, results: []gtype{"L:S:EnterpriseUndPurchaseOrder"}, dropCtx: true},
	"k.GetAllLockedUnds":             {coq: "ent_GetAllLockedUnds", reads: true, results: []gtype{"L:S:LockedUnd"}, dropCtx: true},
	"k.GetAllWhitelistedAddresses":   {coq: "ent_GetAllWhitelistedAddresses", reads: true, results: []gtype{"L:AddrStr"}, dropCtx: true},
	"k.GetAllSpentEFUNDs":            {coq: "ent_GetAllSpentEFUNDs", reads: true, results: []gtype{"L:S:SpentEFUND"}, dropCtx: true},
}

// the fee decorators of x/wrkchain/ante and x/beacon/ante, translated against the application-level world
// (model/AnteWorld.v: bank, enterprise and the module's registry state, the CheckTx flag)
func antePrims() map[string]fnSig {
	m := map[string]fnSig{
		"ctx.IsCheckTx":                   {coq: "aw_IsCheckTx", reads: true, results: []gtype{tBool}},
		"k.GetParamDenom":                 {coq: "reg_GetParamDenom", reads: true, results: []gtype{tDenom}, dropCtx: true},
		"k.GetMaxPurchasableSlots":        {coq: "reg_GetMaxPurchasableSlots", reads: true, results: []gtype{tUint64}, dropCtx: true},
		"accKeeper.GetAccount":            {coq: "acc_GetAccount", reads: true, results: []gtype{tModAcc}, dropCtx: true},
		"bankKeeper.GetAllBalances":       {coq: "bank_GetAllBalances", reads: true, results: []gtype{tCoins}, dropCtx: true},
		"bankKeeper.SpendableCoins":       {coq: "bank_SpendableCoins", reads: true, results: []gtype{tCoins}, dropCtx: true},
		"ek.GetLockedUndAmountForAccount": {coq: "ent_GetLockedUndAmountForAccount", reads: true, results: []gtype{tCoin}, dropCtx: true},
		"sdk.NewCoins":                    {coq: "sdk_NewCoins1", impure: true, results: []gtype{tCoins}},
	}
	for _, g := range []string{"GetZeroFeeAsCoin", "GetRegistrationFeeAsCoin", "GetRecordFeeAsCoin", "GetPurchaseStorageFeeAsCoin"} {
		m["k."+g] = fnSig{coq: "reg_" + g, reads: true, impure: true, results: []gtype{tCoin}, dropCtx: true}
	}
	return m
}

var modules = map[string]*moduleSpec{
	"wrkante": {name: "wrkchain", pbFiles: []string{"wrkchain.pb.go", "tx.pb.go", "genesis.pb.go", "query.pb.go"}, anteFiles: []string{"ante/ante.go", "exported/exported.go"},
		want:  []string{"CheckIsWrkChainTx", "checkWrkchainFees", "checkFeePayerHasFunds", "checkWrkChainMaxSlots", "AnteHandle"},
		prims: antePrims(), consts: map[string]constDef{}, world: "aworld", imports: "lib.Prelude lib.GoSdk GeneratedWrkchainTypes model.WrkchainAntePrims",
		typesMod: "", keeperMod: "GeneratedWrkchainAnte", listName: "wrkchain_ante_other_functions"},
	"entante": {name: "enterprise", pbFiles: []string{"enterprise.pb.go", "tx.pb.go", "genesis.pb.go", "query.pb.go"}, anteFiles: []string{"ante/ante.go"},
		want: []string{"AnteHandle"},
		prims: map[string]fnSig{
			"wrkchain.CheckIsWrkChainTx": {coq: "wrkchain_CheckIsWrkChainTx", results: []gtype{tBool}},
			"beacon.CheckIsBeaconTx":     {coq: "beacon_CheckIsBeaconTx", results: []gtype{tBool}},
			"k.entk.IsLocked":            {coq: "ent_IsLocked", reads: true, results: []gtype{tBool}, dropCtx: true},
			"k.entk.UnlockCoinsForFees":  {coq: "go_UnlockCoinsForFees", stateful: true, impure: true, hasErr: true, dropCtx: true},
		},
		consts: map[string]constDef{}, world: "eworld", imports: "lib.Prelude lib.GoSdk GeneratedEnterpriseTypes model.EnterpriseKeeperPrims GeneratedEnterpriseKeeper model.EnterpriseAntePrims",
		typesMod: "", keeperMod: "GeneratedEnterpriseAnte", listName: "enterprise_ante_other_functions"},
	"bcnante": {name: "beacon", pbFiles: []string{"beacon.pb.go", "tx.pb.go", "genesis.pb.go", "query.pb.go"}, anteFiles: []string{"ante/ante.go", "exported/exported.go"},
		want:  []string{"CheckIsBeaconTx", "checkBeaconFees", "checkFeePayerHasFunds", "checkBeaconMaxSlots", "AnteHandle"},
		prims: antePrims(), consts: map[string]constDef{}, world: "aworld", imports: "lib.Prelude lib.GoSdk GeneratedBeaconTypes model.BeaconAntePrims",
		typesMod: "", keeperMod: "GeneratedBeaconAnte", listName: "beacon_ante_other_functions"},
	"enterprise": {name: "enterprise", pbFiles: []string{"enterprise.pb.go", "tx.pb.go", "genesis.pb.go", "query.pb.go"}, rootFiles: []string{"genesis.go"}, goFiles: []string{"locked.go", "blocker.go", "purchase.go", "whitelist.go", "msg_server.go", "grpc_query.go"},
		want: []string{"GetTotalUnLockedUnd", "GetTotalUndSupply", "GetEnterpriseSupplyIncludingLockedUnd", "GetTotalSupplyWithLockedNundRemoved",
			"GetSupplyOfWithLockedNundRemoved", "GetEnterpriseUserAccount",
			"TotalLocked", "TotalUnlocked", "EnterpriseSupply", "TotalSupply", "TotalSupplyOverwrite", "SupplyOf", "SupplyOfOverwrite",
			"GetLockedUndAmountForAccount", "GetSpentEFUNDAmountForAccount", "EnterpriseUndPurchaseOrder", "LockedUndByAddress", "TotalSpentEFUND", "SpentEFUNDByAddress", "Whitelist", "Whitelisted", "EnterpriseAccount",
			"sendCoinsFromModuleToAccount", "incrementSpentEFUND", "incrementLockedUnd", "decrementLockedUnd", "MintCoinsAndLock", "UnlockCoinsForFees",
			"ProcessAcceptedPurchaseOrders", "TallyPurchaseOrderDecisions",
			"RaiseNewPurchaseOrder", "IsAuthorisedToDecide", "ProcessPurchaseOrderDecision", "ProcessWhitelistAction",
			"UndPurchaseOrder", "ProcessUndPurchaseOrder", "WhitelistAddress", "UpdateParams", "InitGenesis", "ExportGenesis"},
		typeFuncs: [][2]string{{"purchase_order_status.go", "ValidPurchaseOrderStatus"}, {"purchase_order_status.go", "ValidPurchaseOrderAcceptRejectStatus"}, {"whitelist_action.go", "ValidWhitelistAction"},
			{"params.go", "validateDenom"}, {"params.go", "validateMinAccepts"}, {"params.go", "validateDecisionLimit"}, {"params.go", "validateEntSigners"}, {"params.go", "Params.Validate"}},
		msgTypes: []string{"MsgUndPurchaseOrder", "MsgProcessUndPurchaseOrder", "MsgWhitelistAddress"}, callbacks: []string{"EnterpriseUndPurchaseOrders"},
		prims: enterprisePrims, consts: map[string]constDef{"types.ModuleName": {"MOD_enterprise", tModName}, "k.authority": {"KEEPER_authority", tAddrStr}}, world: "eworld",
		imports:  "lib.Prelude lib.GoSdk GeneratedEnterpriseTypes model.EnterpriseKeeperPrims",
		typesMod: "GeneratedEnterpriseTypes", keeperMod: "GeneratedEnterpriseKeeper", listName: "enterprise_keeper_other_functions"},
	"stream": {name: "stream", typeFuncs: [][2]string{{"params.go", "validateBaseValidatorFee"}, {"params.go", "Params.Validate"}, {"genesis.go", "NewGenesisState"}}, pbFiles: []string{"params.pb.go", "stream.pb.go", "tx.pb.go", "genesis.pb.go", "query.pb.go"}, goFiles: []string{"stream.go", "msg_server.go", "genesis.go", "query_streams.go"},
		want: []string{"addSeconds", "ClaimFromStream", "AddDeposit", "SetNewFlowRate", "CancelStreamBySenderReceiver",
			"CreateNewStream", "CreateStream", "ClaimStream", "TopUpDeposit", "UpdateFlowRate", "CancelStream", "UpdateParams", "InitGenesis", "ExportGenesis", "StreamByReceiverSender", "StreamReceiverSenderCurrentFlow"},
		prims: streamPrims, consts: streamConsts, world: "kworld",
		imports:  "lib.Prelude lib.GoSdk GeneratedFns GeneratedStreamTypes model.StreamKeeperPrims",
		typesMod: "GeneratedStreamTypes", keeperMod: "GeneratedStreamKeeper", listName: "stream_keeper_other_functions",
		msgTypes: []string{"MsgCreateStream", "MsgClaimStream", "MsgTopUpDeposit", "MsgUpdateFlowRate", "MsgCancelStream"}},
	"streamonstore": {name: "stream", typeFuncs: [][2]string{{"params.go", "validateBaseValidatorFee"}, {"params.go", "Params.Validate"}, {"genesis.go", "NewGenesisState"}}, pbFiles: []string{"params.pb.go", "stream.pb.go", "tx.pb.go", "genesis.pb.go", "query.pb.go"}, goFiles: []string{"stream.go", "msg_server.go", "genesis.go"},
		want: []string{"addSeconds", "ClaimFromStream", "AddDeposit", "SetNewFlowRate", "CancelStreamBySenderReceiver",
			"CreateNewStream", "CreateStream", "ClaimStream", "TopUpDeposit", "UpdateFlowRate", "CancelStream", "UpdateParams", "InitGenesis", "ExportGenesis"},
		// ExportGenesis spells the address BYTES parsed from a store key as the strings of the document: the conversion
		// back to an abstract address is a Section variable of the generated file (only ExportGenesis depends on it)
		secVars: "Variable os_unemb : list N -> go_addr.",
		prims:   withPrims(onStorePrims(streamPrims), map[string]fnSig{"k.allStreamsListing": {coq: "os_str_AllStreams os_unemb", reads: true, impure: true, results: []gtype{"L:S:StreamExport"}, dropCtx: true}}), consts: streamConsts, world: "sworld",
		imports:  "lib.Prelude lib.GoSdk GeneratedFns GeneratedStreamTypes model.StreamStoreWorld",
		typesMod: "", keeperMod: "GeneratedStreamKeeperOnStore", listName: "stream_keeper_onstore_other_functions",
		msgTypes: []string{"MsgCreateStream", "MsgClaimStream", "MsgTopUpDeposit", "MsgUpdateFlowRate", "MsgCancelStream"}},
	"enterpriseonstore": {name: "enterprise", pbFiles: []string{"enterprise.pb.go", "tx.pb.go", "genesis.pb.go", "query.pb.go"}, rootFiles: []string{"genesis.go"}, goFiles: []string{"locked.go", "blocker.go", "purchase.go", "whitelist.go", "msg_server.go"},
		want: []string{"sendCoinsFromModuleToAccount", "incrementSpentEFUND", "incrementLockedUnd", "decrementLockedUnd", "MintCoinsAndLock", "UnlockCoinsForFees",
			"ProcessAcceptedPurchaseOrders", "TallyPurchaseOrderDecisions",
			"RaiseNewPurchaseOrder", "IsAuthorisedToDecide", "ProcessPurchaseOrderDecision", "ProcessWhitelistAction",
			"UndPurchaseOrder", "ProcessUndPurchaseOrder", "WhitelistAddress", "UpdateParams", "InitGenesis", "ExportGenesis"},
		typeFuncs: [][2]string{{"purchase_order_status.go", "ValidPurchaseOrderStatus"}, {"purchase_order_status.go", "ValidPurchaseOrderAcceptRejectStatus"}, {"whitelist_action.go", "ValidWhitelistAction"},
			{"params.go", "validateDenom"}, {"params.go", "validateMinAccepts"}, {"params.go", "validateDecisionLimit"}, {"params.go", "validateEntSigners"}, {"params.go", "Params.Validate"}},
		msgTypes: []string{"MsgUndPurchaseOrder", "MsgProcessUndPurchaseOrder", "MsgWhitelistAddress"},
		prims:    onStorePrims(enterprisePrims), consts: map[string]constDef{"types.ModuleName": {"MOD_enterprise", tModName}, "k.authority": {"KEEPER_authority", tAddrStr}}, world: "esworld",
		imports:  "lib.Prelude lib.GoSdk GeneratedEnterpriseTypes model.EnterpriseStoreWorld",
		typesMod: "", keeperMod: "GeneratedEnterpriseKeeperOnStore", listName: "enterprise_keeper_onstore_other_functions"},
	"wrkchainonstore": {name: "wrkchain", pbFiles: []string{"wrkchain.pb.go", "tx.pb.go", "genesis.pb.go", "query.pb.go"}, typeFuncs: [][2]string{{"params.go", "validateFeeDenom"}, {"params.go", "validateFeeRegister"}, {"params.go", "validateFeeRecord"}, {"params.go", "validateFeePurchaseStorage"}, {"params.go", "validateDefaultStorageLimit"}, {"params.go", "validateMaxStorageLimit"}, {"params.go", "Params.Validate"}, {"genesis.go", "NewGenesisState"}}, goFiles: []string{"register.go", "record.go", "msg_server.go"},
		want: []string{"QuickCheckHeightIsNew", "GetMaxPurchasableSlots", "IncreaseInStateStorage", "RegisterNewWrkChain", "RecordNewWrkchainHashes",
			"RegisterWrkChain", "RecordWrkChainBlock", "PurchaseWrkChainStateStorage", "UpdateParams", "InitGenesis", "ExportGenesis"},
		rootFiles: []string{"genesis.go"},
		prims:     onStorePrims(registryPrims("WrkChain", "WrkChainBlock")), consts: registryConsts, world: "wsworld",
		imports:  "lib.Prelude lib.GoSdk GeneratedWrkchainTypes model.WrkchainStoreWorld",
		typesMod: "", keeperMod: "GeneratedWrkchainKeeperOnStore", listName: "wrkchain_keeper_onstore_other_functions",
		msgTypes: []string{"MsgRegisterWrkChain", "MsgRecordWrkChainBlock", "MsgPurchaseWrkChainStateStorage"}},
	"beacononstore": {name: "beacon", pbFiles: []string{"beacon.pb.go", "tx.pb.go", "genesis.pb.go", "query.pb.go"}, typeFuncs: [][2]string{{"params.go", "validateFeeDenom"}, {"params.go", "validateFeeRegister"}, {"params.go", "validateFeeRecord"}, {"params.go", "validateFeePurchaseStorage"}, {"params.go", "validateDefaultStorageLimit"}, {"params.go", "validateMaxStorageLimit"}, {"params.go", "Params.Validate"}, {"genesis.go", "NewGenesisState"}}, goFiles: []string{"register.go", "record.go", "msg_server.go"},
		want: []string{"GetMaxPurchasableSlots", "IncreaseInStateStorage", "RegisterNewBeacon", "RecordNewBeaconTimestamp",
			"RegisterBeacon", "RecordBeaconTimestamp", "PurchaseBeaconStateStorage", "UpdateParams", "InitGenesis", "ExportGenesis"},
		rootFiles: []string{"genesis.go"},
		prims:     onStorePrims(registryPrims("Beacon", "BeaconTimestamp")), consts: registryConsts, world: "bsworld",
		imports:  "lib.Prelude lib.GoSdk GeneratedBeaconTypes model.BeaconStoreWorld",
		typesMod: "", keeperMod: "GeneratedBeaconKeeperOnStore", listName: "beacon_keeper_onstore_other_functions",
		msgTypes: []string{"MsgRegisterBeacon", "MsgRecordBeaconTimestamp", "MsgPurchaseBeaconStateStorage"}},
	"wrkchain": {name: "wrkchain", pbFiles: []string{"wrkchain.pb.go", "tx.pb.go", "genesis.pb.go", "query.pb.go"}, rootFiles: []string{"genesis.go"}, typeFuncs: [][2]string{{"params.go", "validateFeeDenom"}, {"params.go", "validateFeeRegister"}, {"params.go", "validateFeeRecord"}, {"params.go", "validateFeePurchaseStorage"}, {"params.go", "validateDefaultStorageLimit"}, {"params.go", "validateMaxStorageLimit"}, {"params.go", "Params.Validate"}, {"genesis.go", "NewGenesisState"}}, goFiles: []string{"register.go", "record.go", "msg_server.go", "grpc_query.go"},
		want: []string{"QuickCheckHeightIsNew", "GetMaxPurchasableSlots", "IncreaseInStateStorage", "RegisterNewWrkChain", "RecordNewWrkchainHashes",
			"RegisterWrkChain", "RecordWrkChainBlock", "PurchaseWrkChainStateStorage", "UpdateParams", "InitGenesis", "ExportGenesis", "CheckIsWrkChainTx", "checkWrkchainFees",
			"WrkChain", "WrkChainBlock", "WrkChainStorage"},
		anteFiles: []string{"ante/ante.go", "exported/exported.go"},
		prims:     registryPrims("WrkChain", "WrkChainBlock"), consts: registryConsts, world: "rworld",
		imports:  "lib.Prelude lib.GoSdk GeneratedWrkchainTypes model.WrkchainKeeperPrims",
		typesMod: "GeneratedWrkchainTypes", keeperMod: "GeneratedWrkchainKeeper", listName: "wrkchain_keeper_other_functions",
		msgTypes: []string{"MsgRegisterWrkChain", "MsgRecordWrkChainBlock", "MsgPurchaseWrkChainStateStorage"}, callbacks: []string{"WrkChainsFiltered"}},
	"beacon": {name: "beacon", pbFiles: []string{"beacon.pb.go", "tx.pb.go", "genesis.pb.go", "query.pb.go"}, rootFiles: []string{"genesis.go"}, typeFuncs: [][2]string{{"params.go", "validateFeeDenom"}, {"params.go", "validateFeeRegister"}, {"params.go", "validateFeeRecord"}, {"params.go", "validateFeePurchaseStorage"}, {"params.go", "validateDefaultStorageLimit"}, {"params.go", "validateMaxStorageLimit"}, {"params.go", "Params.Validate"}, {"genesis.go", "NewGenesisState"}}, goFiles: []string{"register.go", "record.go", "msg_server.go", "grpc_query.go"},
		want: []string{"GetMaxPurchasableSlots", "IncreaseInStateStorage", "RegisterNewBeacon", "RecordNewBeaconTimestamp",
			"RegisterBeacon", "RecordBeaconTimestamp", "PurchaseBeaconStateStorage", "UpdateParams", "InitGenesis", "ExportGenesis", "CheckIsBeaconTx", "checkBeaconFees",
			"Beacon", "BeaconTimestamp", "BeaconStorage"},
		anteFiles: []string{"ante/ante.go", "exported/exported.go"},
		prims:     registryPrims("Beacon", "BeaconTimestamp"), consts: registryConsts, world: "rworld",
		imports:  "lib.Prelude lib.GoSdk GeneratedBeaconTypes model.BeaconKeeperPrims",
		typesMod: "GeneratedBeaconTypes", keeperMod: "GeneratedBeaconKeeper", listName: "beacon_keeper_other_functions",
		msgTypes: []string{"MsgRegisterBeacon", "MsgRecordBeaconTimestamp", "MsgPurchaseBeaconStateStorage"}, callbacks: []string{"BeaconsFiltered"}},
}

type kbinding struct {
	pat, rhs string
}

type kTrans struct {
	caseOf       map[string][2]string // inside a type-switch case on an sdk.Msg variable: (struct name, bound variable)
	loops        []string             // innermost last: the state tuple of the enclosing range loops
	usedStateful bool
	env          map[string]gtype
	recv         string // receiver name (normalised to "k")
	stateful     bool
	results      []gtype
	hasErr       bool
	fresh        int
	errs         []string
	funcs        map[string]fnSig
	errAlias     map[string]string // err := sdkerrors.Wrap(E, ..): the variable stands for the error class E
	recvName     string            // the receiver's name as written (wfd): its keeper fields are not values
	localDefs    string            // records of struct types declared inside the function
	ctxResult    bool              // the function's first result is the context: dropped from returns
	fnName       string
}

func (kt *kTrans) fail(format string, a ...interface{}) {
	kt.errs = append(kt.errs, fmt.Sprintf(format, a...))
}
func (kt *kTrans) tmp() string { kt.fresh++; return fmt.Sprintf("t%d_", kt.fresh) }

func tuple(xs []string) string {
	if len(xs) == 0 {
		return "tt"
	}
	if len(xs) == 1 {
		return xs[0]
	}
	return "(" + strings.Join(xs, ", ") + ")"
}

func (kt *kTrans) callName(fun ast.Expr) string {
	n := exprName(fun)
	if kt.recv != "" && strings.HasPrefix(n, kt.recv+".") {
		n = "k." + strings.TrimPrefix(n, kt.recv+".")
	}
	return n
}

var commonPrims = map[string]fnSig{
	"math.LegacyOneDec":    {coq: "Dec_One", results: []gtype{tDec}},
	"sdk.NewInt":           {coq: "sdk_NewInt", results: []gtype{tInt}},
	"sdk.NewIntFromUint64": {coq: "sdk_NewIntFromUint64", results: []gtype{tInt}},
	"sdk.NewCoin":          {coq: "sdk_NewCoin", impure: true, results: []gtype{tCoin}},
	"sdk.NewInt64Coin":     {coq: "sdk_NewCoin", impure: true, results: []gtype{tCoin}},
	"sdk.ValidateDenom":    {coq: "sdk_ValidateDenom", impure: true, hasErr: true},
}

func (kt *kTrans) lookup(name string) (fnSig, bool) {
	if s, ok := primTable[name]; ok {
		return s, true
	}
	if s, ok := commonPrims[name]; ok {
		return s, true
	}
	if !strings.Contains(name, ".") {
		if s, ok := primTable["types."+name]; ok {
			return s, true
		}
	}
	if s, ok := kt.funcs[name]; ok {
		return s, true
	}
	if strings.HasPrefix(name, "exported.") {
		if s, ok := kt.funcs[strings.TrimPrefix(name, "exported.")]; ok {
			return s, true
		}
	}
	if !strings.Contains(name, ".") {
		if s, ok := kt.funcs["types."+name]; ok {
			return s, true
		}
	}
	return fnSig{}, false
}

func isEventOrTelemetry(e ast.Expr) bool {
	n := exprName(e)
	return strings.HasPrefix(n, "ctx.EventManager().EmitEvent") || strings.HasPrefix(n, "ctx.EventManager().EmitEvents") ||
		strings.HasPrefix(n, "telemetry.") || strings.HasPrefix(n, "logger.")
}

// call renders a call; returns the Coq term and whether it is an outcome, and its result types
func (kt *kTrans) call(t *ast.CallExpr) (pre []kbinding, term string, sig fnSig, ok bool) {
	name := kt.callName(t.Fun)
	sig, found := kt.lookup(name)
	var recvArg []string
	if !found {
		// method on a value
		if sel, isSel := t.Fun.(*ast.SelectorExpr); isSel {
			p, rv, rty := kt.expr(sel.X)
			if mt, okm := kMethodTable[methodKey{rty, sel.Sel.Name}]; okm {
				if rty == tCoins && sel.Sel.Name == "Add" && t.Ellipsis == token.NoPos {
					mt = fnSig{coq: "Coins_AddCoin", impure: true, results: []gtype{tCoins}} // one coin, not coins...
				}
				pre = append(pre, p...)
				sig, found = mt, true
				recvArg = []string{rv}
			} else {
				kt.fail("unsupported method %s.%s", rty, sel.Sel.Name)
				return nil, "?", fnSig{}, false
			}
		}
	}
	if !found {
		kt.fail("unsupported call %s", name)
		return nil, "?", fnSig{}, false
	}
	args := recvArg
	goArgs := t.Args
	if sig.dropCtx {
		if len(goArgs) == 0 || exprName(goArgs[0]) != "ctx" {
			kt.fail("call %s: first argument is not ctx", name)
		} else {
			goArgs = goArgs[1:]
		}
	}
	for _, a := range goArgs {
		if id, isId := a.(*ast.Ident); isId && kt.env[id.Name] == tCtx {
			continue // a context under another name (goCtx, c): the world is passed instead
		}
		if sel, isSel := a.(*ast.SelectorExpr); isSel && kt.recvName != "" && exprName(sel.X) == kt.recvName && kt.env[kt.recvName] == "" && strings.Contains(strings.ToLower(sel.Sel.Name), "keeper") {
			continue // a keeper held by the decorator: the callee reaches it through the world
		}
		if id, isId := a.(*ast.Ident); isId {
			if _, known := kt.env[id.Name]; !known && keeperParamNames[id.Name] {
				continue // a keeper handed on
			}
		}
		p, v, _ := kt.expr(a)
		pre = append(pre, p...)
		args = append(args, v)
	}
	if sig.stateful || sig.reads {
		args = append([]string{"w"}, args...)
	}
	if sig.stateful {
		kt.usedStateful = true
	}
	term = "(" + sig.coq + " " + strings.Join(args, " ") + ")"
	if len(args) == 0 {
		term = sig.coq
	}
	return pre, term, sig, true
}

// enumOfString: for `e.String()` with e of a protobuf enum type, e
func (kt *kTrans) enumOfString(e ast.Expr) (ast.Expr, bool) {
	ce, ok := e.(*ast.CallExpr)
	if !ok || len(ce.Args) != 0 {
		return nil, false
	}
	sel, ok := ce.Fun.(*ast.SelectorExpr)
	if !ok || sel.Sel.Name != "String" {
		return nil, false
	}
	return sel.X, true
}

// expr translates an expression (no state change allowed inside expressions)
func (kt *kTrans) expr(e ast.Expr) (pre []kbinding, val string, typ gtype) {
	switch t := e.(type) {
	case *ast.ParenExpr:
		return kt.expr(t.X)
	case *ast.Ident:
		switch t.Name {
		case "true", "false":
			return nil, t.Name, tBool
		case "nil":
			return nil, "[]", gtype("L:?") // only used for slices
		}
		ty, ok := kt.env[t.Name]
		if !ok {
			if _, isEnum := enumConsts[t.Name]; isEnum {
				return nil, cur.name + "_" + t.Name, tEnum // inside package types
			}
			kt.fail("unknown identifier %s", t.Name)
		}
		return nil, t.Name, ty
	case *ast.BasicLit:
		if t.Kind == token.INT {
			return nil, t.Value, tInt64
		}
		if t.Kind == token.STRING && t.Value == "\"\"" {
			return nil, "EmptyString", tEmptyLit // takes the type of what it is compared with
		}
		kt.fail("unsupported literal %s", t.Value)
		return nil, "?", tUnknown
	case *ast.UnaryExpr:
		if t.Op == token.NOT {
			p, v, _ := kt.expr(t.X)
			return p, "(negb " + v + ")", tBool
		}
		if t.Op == token.AND { // &T{...}
			return kt.expr(t.X)
		}
		kt.fail("unsupported unary %s", t.Op)
		return nil, "?", tUnknown
	case *ast.CompositeLit:
		ty := goTypeK(t.Type)
		if ty == tUnit && len(t.Elts) == 0 {
			return nil, "tt", tUnit
		}
		if ty == tCoins {
			var es []string
			for _, el := range t.Elts {
				p, v, _ := kt.expr(el)
				pre = append(pre, p...)
				es = append(es, v)
			}
			return pre, "[" + strings.Join(es, "; ") + "]", tCoins
		}
		if ty == tCoin && len(t.Elts) == 0 {
			return nil, "go_zero_coin", tCoin
		}
		if !isStruct(ty) {
			kt.fail("unsupported composite literal %s", exprName(t.Type))
			return nil, "?", tUnknown
		}
		sn := structName(ty)
		vals := map[string]string{}
		for _, el := range t.Elts {
			kv, ok := el.(*ast.KeyValueExpr)
			if !ok {
				kt.fail("positional struct literal")
				continue
			}
			p, v, _ := kt.expr(kv.Value)
			pre = append(pre, p...)
			vals[exprName(kv.Key)] = v
		}
		var args []string
		for _, f := range structTable[sn] {
			if v, ok := vals[f.name]; ok {
				args = append(args, v)
				delete(vals, f.name)
			} else {
				args = append(args, zeroOf(f.typ))
			}
		}
		for k := range vals {
			kt.fail("struct %s has no field %s", sn, k)
		}
		if len(args) == 0 {
			return pre, "mk_go_" + sn, ty
		}
		return pre, "(mk_go_" + sn + " " + strings.Join(args, " ") + ")", ty
	case *ast.SelectorExpr:
		if c, ok := constTable[kt.callName(t)]; ok {
			return nil, c.coq, c.typ
		}
		if id, ok := t.X.(*ast.Ident); ok && id.Name == "types" {
			if _, ok := enumConsts[t.Sel.Name]; ok {
				return nil, cur.name + "_" + t.Sel.Name, tEnum
			}
		}
		if exprName(t) == "ctx.BlockHeader().Time" {
			if ps, ok := primTable["ctx.BlockTime"]; ok {
				return nil, "(" + ps.coq + " w)", tTime
			}
		}
		p, v, ty := kt.expr(t.X)
		switch {
		case ty == tCoin && t.Sel.Name == "Amount":
			return p, "(Coin_Amount " + v + ")", tInt
		case ty == tCoin && t.Sel.Name == "Denom":
			return p, "(Coin_Denom " + v + ")", tDenom
		case isStruct(ty):
			for _, f := range structTable[structName(ty)] {
				if f.name == t.Sel.Name {
					return p, "(" + structName(ty) + "_" + f.name + " " + v + ")", f.typ
				}
			}
		}
		kt.fail("unsupported field %s on %s", t.Sel.Name, ty)
		return p, "?", tUnknown
	case *ast.IndexExpr:
		p1, l, lty := kt.expr(t.X)
		p2, i, ity := kt.expr(t.Index)
		if isMap(lty) && ity == tUint64 {
			// m[k]: the zero value when k is not in the map
			return append(p1, p2...), "(go_map_get " + zeroOf(mapVal(lty)) + " " + l + " " + i + ")", mapVal(lty)
		}
		if !isList(lty) || (ity != tInt64 && ity != tUint64) {
			kt.fail("index %s[%s]", lty, ity)
			return nil, "?", tUnknown
		}
		tn := kt.tmp()
		pre = append(append(p1, p2...), kbinding{tn, "(go_index " + l + " " + i + ")"})
		return pre, tn, elemOf(lty)
	case *ast.BinaryExpr:
		if ce, ok := t.X.(*ast.CallExpr); ok && exprName(ce.Fun) == "strings.TrimSpace" && len(ce.Args) == 1 && exprName(t.Y) == "\"\"" && t.Op == token.EQL {
			p, v, ty := kt.expr(ce.Args[0])
			if ty != tDenom {
				kt.fail("strings.TrimSpace of %s", ty)
			}
			return p, "(Denom_IsBlank " + v + ")", tBool
		}
		if lit, isLit := t.Y.(*ast.BasicLit); isLit && lit.Kind == token.STRING && (t.Op == token.EQL || t.Op == token.NEQ) {
			if ex, ok := kt.enumOfString(t.X); ok {
				// e.String() == "NAME" for a protobuf enum: the names are distinct, an unnamed value prints as a number
				p, v, ty := kt.expr(ex)
				n, known := enumNames[lit.Value]
				if ty == tEnum && known {
					eq := "(" + v + " =? " + n + ")"
					if t.Op == token.NEQ {
						eq = "(negb " + eq + ")"
					}
					return p, eq, tBool
				}
			}
		}
		p1, a, ta := kt.expr(t.X)
		p2, b, tb := kt.expr(t.Y)
		pre = append(p1, p2...)
		switch t.Op {
		case token.LOR:
			return pre, "(" + a + " || " + b + ")", tBool
		case token.LAND:
			return pre, "(" + a + " && " + b + ")", tBool
		}
		num := func(x gtype) bool { return x == tInt64 || x == tUint64 }
		eqable := func(x gtype) bool { return num(x) || x == tDenom || x == tAddrStr || x == tString || x == tEnum }
		_, litA := t.X.(*ast.BasicLit)
		_, litB := t.Y.(*ast.BasicLit)
		// an untyped integer constant takes the type of the other operand
		if litA && num(tb) {
			ta = tb
		}
		if litB && num(ta) {
			tb = ta
		}
		if (t.Op == token.EQL || t.Op == token.NEQ) && exprName(t.Y) == "nil" {
			var isn string
			switch {
			case ta == tModAcc:
				isn = "(modacc_is_nil " + a + ")"
			case isList(ta) || ta == tCoins:
				isn = "(go_is_nil " + a + ")"
			case isStruct(ta):
				// a pointer to a request / message struct handed in by the caller: never nil (the gRPC and message
				// routers hand in the decoded message)
				if _, isIdent := t.X.(*ast.Ident); !isIdent {
					kt.fail("comparison of a %s expression with nil", ta)
				}
				isn = "false"
			default:
				kt.fail("comparison of %s with nil", ta)
				isn = "?"
			}
			if t.Op == token.NEQ {
				return p1, "(negb " + isn + ")", tBool
			}
			return p1, isn, tBool
		}
		switch t.Op {
		case token.EQL, token.NEQ:
			var eq string
			if tb == tEmptyLit && (ta == tDenom || ta == tAddrStr || ta == tStr) {
				b, tb = zeroOf(ta), ta
			}
			switch {
			case ta == tb && ta == tStr:
				eq = "(String.eqb " + a + " " + b + ")"
			case ta == tb && eqable(ta):
				eq = "(" + a + " =? " + b + ")"
			default:
				kt.fail("%s on %s, %s", t.Op, ta, tb)
				eq = "?"
			}
			if t.Op == token.NEQ {
				return pre, "(negb " + eq + ")", tBool
			}
			return pre, eq, tBool
		}
		if !num(ta) || ta != tb {
			kt.fail("binary %s on %s, %s", t.Op, ta, tb)
		}
		pfx := "i64"
		if ta == tUint64 {
			pfx = "u64"
		}
		switch t.Op {
		case token.SUB:
			return pre, "(" + pfx + "_sub " + a + " " + b + ")", ta
		case token.ADD:
			return pre, "(" + pfx + "_add " + a + " " + b + ")", ta
		case token.MUL:
			return pre, "(" + pfx + "_mul " + a + " " + b + ")", ta
		case token.LSS:
			return pre, "(" + a + " <? " + b + ")", tBool
		case token.LEQ:
			return pre, "(" + a + " <=? " + b + ")", tBool
		case token.GTR:
			return pre, "(" + b + " <? " + a + ")", tBool
		case token.GEQ:
			return pre, "(" + b + " <=? " + a + ")", tBool
		}
		kt.fail("unsupported operator %s", t.Op)
		return pre, "?", tUnknown
	case *ast.CallExpr:
		name := exprName(t.Fun)
		if name == "strings.EqualFold" && len(t.Args) == 2 {
			ea, oka := kt.enumOfString(t.Args[0])
			eb, okb := kt.enumOfString(t.Args[1])
			if oka && okb {
				p1, a, ta := kt.expr(ea)
				p2, b, tb := kt.expr(eb)
				if ta == tEnum && tb == tEnum {
					// the names of a protobuf enum are distinct also up to case; unnamed values print as numbers
					return append(p1, p2...), "(" + a + " =? " + b + ")", tBool
				}
			}
			p1, a, ta := kt.expr(t.Args[0])
			p2, b, tb := kt.expr(t.Args[1])
			if ta == tAddrStr && tb == tAddrStr {
				return append(p1, p2...), "(AddrStr_EqualFold " + a + " " + b + ")", tBool
			}
			kt.fail("strings.EqualFold on %s, %s", ta, tb)
			return nil, "?", tUnknown
		}
		if sel, isSel := t.Fun.(*ast.SelectorExpr); isSel && len(t.Args) == 0 && strings.HasPrefix(sel.Sel.Name, "Get") {
			// protobuf getter m.GetF() on a non-nil message: the field
			if id, isId := sel.X.(*ast.Ident); isId && isStruct(kt.env[id.Name]) {
				fname := strings.TrimPrefix(sel.Sel.Name, "Get")
				for _, f := range structTable[structName(kt.env[id.Name])] {
					if f.name == fname {
						return nil, "(" + structName(kt.env[id.Name]) + "_" + f.name + " " + id.Name + ")", f.typ
					}
				}
			}
		}
		if name == "len" && len(t.Args) == 1 {
			p, v, ty := kt.expr(t.Args[0])
			if ty == tAddrStr {
				return p, "(AddrStr_len " + v + ")", tInt64
			}
			if isList(ty) {
				return p, "(go_len_list " + v + ")", tInt64
			}
			if ty == tSigners {
				return p, "(Signers_strlen " + v + ")", tInt64
			}
			if ty != tStr {
				kt.fail("len of %s", ty)
			}
			return p, "(go_len " + v + ")", tInt64
		}
		if name == "make" && len(t.Args) == 1 {
			if mt := goTypeK(t.Args[0]); isMap(mt) {
				return nil, "[]", mt
			}
		}
		if name == "append" && len(t.Args) == 2 && t.Ellipsis == token.NoPos {
			p1, l, lty := kt.expr(t.Args[0])
			p2, x, xty := kt.expr(t.Args[1])
			if !isList(lty) || elemOf(lty) != xty {
				kt.fail("append(%s, %s)", lty, xty)
			}
			return append(p1, p2...), "(go_append " + l + " " + x + ")", lty
		}
		if name == "strings.Split" && len(t.Args) == 2 {
			p, v, ty := kt.expr(t.Args[0])
			if ty != tSigners || exprName(t.Args[1]) != "\",\"" {
				kt.fail("strings.Split of %s", ty)
			}
			return p, v, gtype("L:" + string(tAddrStr))
		}
		if name == "int" && len(t.Args) == 1 {
			p, v, ty := kt.expr(t.Args[0])
			switch ty {
			case tUint64:
				return p, "(go_int64_of_uint64 " + v + ")", tInt64
			case tInt64:
				return p, v, tInt64
			}
			kt.fail("unsupported conversion int(%s)", ty)
			return p, "?", tUnknown
		}
		if name == "uint64" || name == "int64" {
			p, v, ty := kt.expr(t.Args[0])
			switch {
			case name == "uint64" && ty == tUint64:
				return p, v, tUint64
			case name == "uint64" && ty == tInt64:
				return p, "(go_uint64_of_int64 " + v + ")", tUint64
			case name == "int64" && ty == tUint64:
				return p, "(go_int64_of_uint64 " + v + ")", tInt64
			case name == "int64" && ty == tInt64:
				return p, v, tInt64
			}
			kt.fail("unsupported conversion %s(%s)", name, ty)
			return p, "?", tUnknown
		}
		p, term, sig, ok := kt.call(t)
		if !ok {
			return p, "?", tUnknown
		}
		if sig.stateful {
			kt.fail("state-changing call %s inside an expression", name)
		}
		if sig.hasErr {
			kt.fail("error-returning call %s inside an expression", name)
		}
		if len(sig.results) != 1 {
			kt.fail("call %s used as a single value", name)
			return p, "?", tUnknown
		}
		if sig.impure {
			tn := kt.tmp()
			return append(p, kbinding{tn, term}), tn, sig.results[0]
		}
		return p, term, sig.results[0]
	}
	kt.fail("unsupported expression %T", e)
	return nil, "?", tUnknown
}

func kwrap(pre []kbinding, body string) string {
	for i := len(pre) - 1; i >= 0; i-- {
		body = "do " + pre[i].pat + " <- " + pre[i].rhs + ";\n" + body
	}
	return body
}

// isErrCheck recognises `if <errName> != nil { return ..., <errName> }`
// or `if <errName> != nil { return ..., sdkerrors.Wrap[f](E, ...) }` (the error is replaced by E: remap = E)
func isErrCheck(s ast.Stmt, errName string) (bool, string) {
	is, ok := s.(*ast.IfStmt)
	if !ok || is.Init != nil || is.Else != nil {
		return false, ""
	}
	be, ok := is.Cond.(*ast.BinaryExpr)
	if !ok || be.Op != token.NEQ || exprName(be.X) != errName || exprName(be.Y) != "nil" {
		return false, ""
	}
	if len(is.Body.List) != 1 {
		return false, ""
	}
	if es, ok := is.Body.List[0].(*ast.ExprStmt); ok {
		// if err != nil { panic(err) }
		if ce, ok := es.X.(*ast.CallExpr); ok && exprName(ce.Fun) == "panic" && len(ce.Args) == 1 && exprName(ce.Args[0]) == errName {
			return true, "PANIC"
		}
		return false, ""
	}
	rs, ok := is.Body.List[0].(*ast.ReturnStmt)
	if !ok || len(rs.Results) == 0 {
		return false, ""
	}
	last := rs.Results[len(rs.Results)-1]
	if exprName(last) == errName {
		return true, ""
	}
	if ce, ok := last.(*ast.CallExpr); ok && isNewErr(exprName(ce.Fun)) {
		return true, cur.name + "_ErrInvalidParams"
	}
	if ce, ok := last.(*ast.CallExpr); ok && isStatusErr(exprName(ce.Fun)) && len(ce.Args) >= 1 {
		return true, "grpc_" + errConst(ce.Args[0])
	}
	if ce, ok := last.(*ast.CallExpr); ok && isWrap(exprName(ce.Fun)) && len(ce.Args) >= 1 {
		if exprName(ce.Args[0]) == errName {
			return true, "" // the same error, annotated
		}
		return true, errConst(ce.Args[0])
	}
	return false, ""
}

func isNewErr(fn string) bool { return fn == "fmt.Errorf" || fn == "errors.New" }

// status.Error(codes.X, ..) of google.golang.org/grpc/status: the gRPC status code is the error class
func isStatusErr(fn string) bool { return fn == "status.Error" || fn == "status.Errorf" }

// errOnlyReturned: every use of the error variable in the statements is as the last value of a return
func errOnlyReturned(list []ast.Stmt, errName string) bool {
	uses, rets := 0, 0
	for _, st := range list {
		ast.Inspect(st, func(n ast.Node) bool {
			switch x := n.(type) {
			case *ast.Ident:
				if x.Name == errName {
					uses++
				}
			case *ast.ReturnStmt:
				if len(x.Results) > 0 && exprName(x.Results[len(x.Results)-1]) == errName {
					if _, isId := x.Results[len(x.Results)-1].(*ast.Ident); isId {
						rets++
					}
				}
			}
			return true
		})
	}
	return uses > 0 && uses == rets
}

func isWrap(fn string) bool {
	return fn == "sdkerrors.Wrap" || fn == "sdkerrors.Wrapf" || fn == "errorsmod.Wrap" || fn == "errorsmod.Wrapf"
}

// bindCall renders `lhs.. := f(..)` for a call; consumes the following error check when f returns an error
func (kt *kTrans) bindCall(lhs []ast.Expr, ce *ast.CallExpr, rest []ast.Stmt) (string, []ast.Stmt, bool) {
	pre, term, sig, ok := kt.call(ce)
	if !ok {
		return "?", rest, false
	}
	name := kt.callName(ce.Fun)
	nval := len(sig.results)
	want := nval
	if sig.hasErr {
		want++
	}
	if sig.hasErr && len(lhs) == 0 && nval == 0 && sig.stateful {
		// the error is dropped on the floor: a failing call changes nothing and execution goes on
		return kwrap(pre, "do (w, _) <- (ignore_err w "+term+");\n"), rest, true
	}
	if len(lhs) != want {
		kt.fail("call %s: %d values assigned, %d returned", name, len(lhs), want)
		return "?", rest, false
	}
	if sig.hasErr && exprName(lhs[len(lhs)-1]) == "_" && !sig.stateful && nval == 1 {
		// v, _ := f(..): on error v is the zero value
		n := exprName(lhs[0])
		kt.env[n] = sig.results[0]
		return kwrap(pre, "do "+n+" <- (drop_err "+zeroOf(sig.results[0])+" "+term+");\n"), rest, true
	}
	if sig.hasErr {
		errName := exprName(lhs[len(lhs)-1])
		okc, remap := false, ""
		if errName != "_" && len(rest) > 0 {
			okc, remap = isErrCheck(rest[0], errName)
		}
		if !okc && sig.zeroOnErr && errName != "_" && errOnlyReturned(rest, errName) {
			// deferred error: `v.., err := f(..)` ... `return .., err`.  On error f returns zero values (zeroOnErr) and
			// execution goes on with them; the error is delivered by the return statements.
			var names, zeros []string
			for i := 0; i < nval; i++ {
				n := exprName(lhs[i])
				if n != "_" {
					kt.env[n] = sig.results[i]
				}
				names = append(names, n)
				zeros = append(zeros, zeroOf(sig.results[i]))
			}
			kt.env[errName] = tErrV
			if sig.stateful {
				return kwrap(pre, "do ((w, "+tuple(names)+"), "+errName+") <- (catch_err (w, "+tuple(zeros)+") "+term+");\n"), rest, true
			}
			return kwrap(pre, "do ("+tuple(names)+", "+errName+") <- (catch_err "+tuple(zeros)+" "+term+");\n"), rest, true
		}
		if !okc {
			kt.fail("call %s: the error is not propagated by the next statement", name)
			return "?", rest, false
		}
		if remap == "PANIC" {
			term = "(panic_on_err " + cur.name + "_PANIC " + term + ")"
		} else if remap != "" {
			term = "(map_err " + remap + " " + term + ")"
		}
		rest = rest[1:]
	}
	var names []string
	for i := 0; i < nval; i++ {
		n := exprName(lhs[i])
		if _, isIdent := lhs[i].(*ast.Ident); !isIdent {
			kt.fail("call %s: assignment target %s", name, n)
		}
		if n != "_" {
			kt.env[n] = sig.results[i]
		}
		names = append(names, n)
	}
	pat := tuple(names)
	if nval == 0 {
		pat = "_"
	}
	var line string
	switch {
	case sig.stateful:
		line = "do (w, " + pat + ") <- " + term + ";\n"
	case sig.impure:
		line = "do " + pat + " <- " + term + ";\n"
	default:
		if nval == 1 {
			line = "let " + pat + " := " + term + " in\n"
		} else {
			line = "let '" + pat + " := " + term + " in\n"
		}
	}
	return kwrap(pre, line), rest, true
}

// droppable: statements that are not modelled (events, telemetry, logging), and ifs containing nothing else
func droppable(s ast.Stmt) bool {
	switch t := s.(type) {
	case *ast.ExprStmt:
		ce, ok := t.X.(*ast.CallExpr)
		return ok && isEventOrTelemetry(ce)
	case *ast.DeferStmt:
		return isEventOrTelemetry(t.Call)
	case *ast.IfStmt:
		if t.Init != nil || t.Else != nil {
			return false
		}
		c := exprName(t.Cond)
		if c != "ctx.IsCheckTx()" && !(func() bool {
			u, ok := t.Cond.(*ast.UnaryExpr)
			return ok && u.Op == token.NOT && exprName(u.X) == "ctx.IsCheckTx()"
		}()) {
			return false
		}
		for _, b := range t.Body.List {
			if !droppable(b) {
				return false
			}
		}
		return true
	}
	return false
}

func (kt *kTrans) loopState() string {
	return kt.loops[len(kt.loops)-1]
}

func (kt *kTrans) stmts(list []ast.Stmt) string {
	if len(list) == 0 {
		if len(kt.loops) > 0 {
			return "Ok (LCont " + kt.loopState() + ")"
		}
		if len(kt.results) == 0 && !kt.hasErr {
			return kt.ret(nil)
		}
		kt.fail("control reaches the end of the function without return")
		return "?"
	}
	s, rest := list[0], list[1:]
	if droppable(s) {
		return kt.stmts(rest)
	}
	switch t := s.(type) {
	case *ast.ReturnStmt:
		return kt.ret(t.Results)
	case *ast.BranchStmt:
		if t.Tok == token.CONTINUE && t.Label == nil && len(kt.loops) > 0 {
			return "Ok (LCont " + kt.loopState() + ")"
		}
		kt.fail("unsupported branch statement %s", t.Tok)
		return "?"
	case *ast.RangeStmt:
		return kt.rangeStmt(t, rest)
	case *ast.TypeSwitchStmt:
		return kt.typeSwitch(t, rest)
	case *ast.DeferStmt:
		if isEventOrTelemetry(t.Call) {
			return kt.stmts(rest)
		}
		kt.fail("unsupported defer")
		return "?"
	case *ast.ExprStmt:
		ce, ok := t.X.(*ast.CallExpr)
		if !ok {
			kt.fail("unsupported expression statement")
			return "?"
		}
		if isEventOrTelemetry(ce) {
			return kt.stmts(rest)
		}
		if exprName(ce.Fun) == "panic" {
			return "Panic " + cur.name + "_PANIC"
		}
		if sig, found := kt.lookup(kt.callName(ce.Fun)); found && sig.iterListing != "" {
			// k.IterateX(ctx, func(a, b, c) bool { ..; return false }): a loop over the listing primitive; the
			// callback's parameters are the fields of the listed element; `return false` = go on (a callback that can
			// stop the iteration is not supported)
			lit, isLit := ce.Args[len(ce.Args)-1].(*ast.FuncLit)
			if !isLit {
				kt.fail("%s without a function literal", kt.callName(ce.Fun))
				return "?"
			}
			var pnames []string
			for _, p := range lit.Type.Params.List {
				for _, n := range p.Names {
					pnames = append(pnames, n.Name)
				}
			}
			if len(pnames) != len(sig.iterFields) {
				kt.fail("%s: callback with %d parameters", kt.callName(ce.Fun), len(pnames))
				return "?"
			}
			body := append([]ast.Stmt{}, lit.Body.List...)
			n := len(body)
			if n == 0 {
				kt.fail("empty iteration callback")
				return "?"
			}
			if rs, isRet := body[n-1].(*ast.ReturnStmt); !isRet || len(rs.Results) != 1 || exprName(rs.Results[0]) != "false" {
				kt.fail("iteration callback does not end with `return false`")
				return "?"
			}
			body = body[:n-1]
			bad := false
			for _, st := range body {
				ast.Inspect(st, func(nd ast.Node) bool {
					if _, isRet := nd.(*ast.ReturnStmt); isRet {
						bad = true
					}
					return true
				})
			}
			if bad {
				kt.fail("iteration callback returns in the middle")
				return "?"
			}
			it := ast.NewIdent("it" + kt.tmp())
			var pre []ast.Stmt
			for i, pn := range pnames {
				pre = append(pre, &ast.AssignStmt{Lhs: []ast.Expr{ast.NewIdent(pn)}, Tok: token.DEFINE,
					Rhs: []ast.Expr{&ast.SelectorExpr{X: it, Sel: ast.NewIdent(sig.iterFields[i])}}})
			}
			rng := &ast.RangeStmt{Key: ast.NewIdent("_"), Value: it, Tok: token.DEFINE,
				X:    &ast.CallExpr{Fun: &ast.SelectorExpr{X: ast.NewIdent("k"), Sel: ast.NewIdent(sig.iterListing)}, Args: []ast.Expr{ast.NewIdent("ctx")}},
				Body: &ast.BlockStmt{List: append(pre, body...)}}
			return kt.rangeStmt(rng, rest)
		}
		line, rest2, ok := kt.bindCall(nil, ce, rest)
		if !ok {
			return "?"
		}
		return line + kt.stmts(rest2)
	case *ast.DeclStmt:
		gd := t.Decl.(*ast.GenDecl)
		if gd.Tok == token.TYPE {
			// type b struct { .. } inside the function: a record of its own
			for _, sp := range gd.Specs {
				ts := sp.(*ast.TypeSpec)
				st, ok := ts.Type.(*ast.StructType)
				if !ok {
					kt.fail("unsupported local type %s", ts.Name.Name)
					return "?"
				}
				full := kt.fnName + "_" + ts.Name.Name
				var fs []field
				for _, fl := range st.Fields.List {
					ty := goTypeK(fl.Type)
					if ty == tUnknown {
						kt.fail("local type %s: unsupported field type", ts.Name.Name)
					}
					for _, nm := range fl.Names {
						fs = append(fs, field{nm.Name, ty})
					}
				}
				structTable[full] = fs
				localTypeAlias[ts.Name.Name] = full
				var decl, zeros []string
				for _, f := range fs {
					decl = append(decl, fmt.Sprintf("%s_%s : %s", full, f.name, coqTypeK(f.typ)))
					zeros = append(zeros, zeroOf(f.typ))
				}
				d := fmt.Sprintf("Record go_%s := mk_go_%s { %s }.\n", full, full, strings.Join(decl, "; "))
				d += fmt.Sprintf("Definition zero_go_%s : go_%s := mk_go_%s %s.\n", full, full, full, strings.Join(zeros, " "))
				for i, f := range fs {
					var args []string
					for j, g := range fs {
						if i == j {
							args = append(args, "v")
						} else {
							args = append(args, fmt.Sprintf("(%s_%s s)", full, g.name))
						}
					}
					d += fmt.Sprintf("Definition set_%s_%s (s : go_%s) (v : %s) : go_%s := mk_go_%s %s.\n", full, f.name, full, coqTypeK(f.typ), full, full, strings.Join(args, " "))
				}
				kt.localDefs = d
			}
			return kt.stmts(rest)
		}
		out := ""
		for _, sp := range gd.Specs {
			vs := sp.(*ast.ValueSpec)
			ty := goTypeK(vs.Type)
			if len(vs.Values) != 0 || ty == tUnknown {
				kt.fail("unsupported var declaration")
			}
			for _, n := range vs.Names {
				kt.env[n.Name] = ty
				out += "let " + n.Name + " := " + zeroOf(ty) + " in\n"
			}
		}
		return out + kt.stmts(rest)
	case *ast.AssignStmt:
		if len(t.Rhs) > 1 && len(t.Rhs) == len(t.Lhs) {
			// a, b := x, y with constant right-hand sides: one after the other
			out := ""
			for i := range t.Rhs {
				id, isId := t.Lhs[i].(*ast.Ident)
				rid, isRId := t.Rhs[i].(*ast.Ident)
				if !isId || !isRId || (rid.Name != "true" && rid.Name != "false") {
					kt.fail("unsupported parallel assignment")
					return "?"
				}
				kt.env[id.Name] = tBool
				out += "let " + id.Name + " := " + rid.Name + " in\n"
			}
			return out + kt.stmts(rest)
		}
		if len(t.Rhs) != 1 {
			kt.fail("unsupported parallel assignment")
			return "?"
		}
		// ctx := sdk.UnwrapSDKContext(goCtx)
		if ce, ok := t.Rhs[0].(*ast.CallExpr); ok && exprName(ce.Fun) == "sdk.UnwrapSDKContext" {
			kt.env[exprName(t.Lhs[0])] = tCtx
			return kt.stmts(rest)
		}
		// v, ok := i.(T) on an interface{} parameter: the parameter already has type T (sigOf)
		if ta, ok := t.Rhs[0].(*ast.TypeAssertExpr); ok && len(t.Lhs) == 2 {
			if xty, known := kt.env[exprName(ta.X)]; known {
				g := goTypeK(ta.Type)
				if g == xty || g == tStr {
					v, okn := exprName(t.Lhs[0]), exprName(t.Lhs[1])
					kt.env[v] = xty
					kt.env[okn] = tBool
					return "let " + v + " := " + exprName(ta.X) + " in\nlet " + okn + " := true in\n" + kt.stmts(rest)
				}
			}
			kt.fail("unsupported type assertion")
			return "?"
		}
		// err := sdkerrors.Wrapf(E, ..): the variable stands for the error class (it may only be returned)
		if ce, ok := t.Rhs[0].(*ast.CallExpr); ok && len(t.Lhs) == 1 && len(ce.Args) >= 1 && (isWrap(exprName(ce.Fun)) || isStatusErr(exprName(ce.Fun))) {
			if _, isCall := ce.Args[0].(*ast.CallExpr); !isCall && kt.env[exprName(ce.Args[0])] == "" {
				cls := errConst(ce.Args[0])
				if isStatusErr(exprName(ce.Fun)) {
					cls = "grpc_" + cls
				}
				kt.errAlias[exprName(t.Lhs[0])] = cls
				return kt.stmts(rest)
			}
		}
		// errMsg := fmt.Sprintf(..): message texts are not modelled
		if ce, ok := t.Rhs[0].(*ast.CallExpr); ok && exprName(ce.Fun) == "fmt.Sprintf" && len(t.Lhs) == 1 {
			kt.env[exprName(t.Lhs[0])] = tStr
			return "let " + exprName(t.Lhs[0]) + " := EmptyString in\n" + kt.stmts(rest)
		}
		// m := msg.(*types.MsgX) inside the case of a type switch on msg
		if ta, ok := t.Rhs[0].(*ast.TypeAssertExpr); ok && len(t.Lhs) == 1 && kt.env[exprName(ta.X)] == tAnyMsg {
			cs, okc := kt.caseOf[exprName(ta.X)]
			want := strings.TrimPrefix(exprName(ta.Type), "types.")
			if !okc || cs[0] != want {
				kt.fail("type assertion %s.(%s) outside the matching case", exprName(ta.X), want)
				return "?"
			}
			kt.env[exprName(t.Lhs[0])] = gtype("S:" + want)
			return "let " + exprName(t.Lhs[0]) + " := " + cs[1] + " in\n" + kt.stmts(rest)
		}
		// logger := k.Logger(ctx): logging is not modelled
		if ce, ok := t.Rhs[0].(*ast.CallExpr); ok && kt.callName(ce.Fun) == "k.Logger" && exprName(t.Lhs[0]) == "logger" {
			return kt.stmts(rest)
		}
		// several values from a method call (e.g. coins.Find, coins.SafeSub)
		if ce, ok := t.Rhs[0].(*ast.CallExpr); ok && len(t.Lhs) > 1 {
			if _, found := kt.lookup(kt.callName(ce.Fun)); !found {
				line, rest2, ok := kt.bindCall(t.Lhs, ce, rest)
				if !ok {
					return "?"
				}
				return line + kt.stmts(rest2)
			}
		}
		if ce, ok := t.Rhs[0].(*ast.CallExpr); ok {
			name := kt.callName(ce.Fun)
			if sig, found := kt.lookup(name); found && (sig.stateful || sig.hasErr || len(sig.results) != 1) {
				line, rest2, ok := kt.bindCall(t.Lhs, ce, rest)
				if !ok {
					return "?"
				}
				return line + kt.stmts(rest2)
			}
		}
		if len(t.Lhs) != 1 {
			kt.fail("unsupported multi-assignment")
			return "?"
		}
		pre, v, ty := kt.expr(t.Rhs[0])
		switch l := t.Lhs[0].(type) {
		case *ast.Ident:
			kt.env[l.Name] = ty
			return kwrap(pre, "let "+l.Name+" := "+v+" in\n"+kt.stmts(rest))
		case *ast.IndexExpr:
			base, ok := l.X.(*ast.Ident)
			bty := kt.env[exprName(l.X)]
			if ok && isMap(bty) {
				p2, kv, kty := kt.expr(l.Index)
				if kty != tUint64 || mapVal(bty) != ty {
					kt.fail("unsupported map assignment %s[%s] = %s", bty, kty, ty)
					return "?"
				}
				return kwrap(append(pre, p2...), "let "+base.Name+" := (go_map_set "+base.Name+" "+kv+" "+v+") in\n"+kt.stmts(rest))
			}
			if bty == tCoins {
				bty = gtype("L:" + string(tCoin))
			}
			p2, iv, ity := kt.expr(l.Index)
			if !ok || !isList(bty) || elemOf(bty) != ty || (ity != tInt64 && ity != tUint64) {
				kt.fail("unsupported element assignment %s[%s] = %s", bty, ity, ty)
				return "?"
			}
			return kwrap(append(pre, p2...), "do "+base.Name+" <- (go_set_index "+base.Name+" "+iv+" "+v+");\n"+kt.stmts(rest))
		case *ast.SelectorExpr:
			base, ok := l.X.(*ast.Ident)
			bty := kt.env[exprName(l.X)]
			if !ok || !isStruct(bty) {
				kt.fail("unsupported assignment target %s", exprName(l))
				return "?"
			}
			sn := structName(bty)
			return kwrap(pre, "let "+base.Name+" := (set_"+sn+"_"+l.Sel.Name+" "+base.Name+" "+v+") in\n"+kt.stmts(rest))
		}
		kt.fail("unsupported assignment target")
		return "?"
	case *ast.IfStmt:
		if t.Init != nil {
			// if err := f(..); err != nil { return .., err }
			as, ok := t.Init.(*ast.AssignStmt)
			if ok && len(as.Rhs) == 1 {
				if ce, ok := as.Rhs[0].(*ast.CallExpr); ok {
					plain := &ast.IfStmt{Cond: t.Cond, Body: t.Body, Else: t.Else}
					line, rest2, ok := kt.bindCall(as.Lhs, ce, append([]ast.Stmt{plain}, rest...))
					if !ok {
						return "?"
					}
					return line + kt.stmts(rest2)
				}
			}
			kt.fail("unsupported if with init statement")
			return "?"
		}
		pre, c, _ := kt.expr(t.Cond)
		saved := map[string]gtype{}
		for k, v := range kt.env {
			saved[k] = v
		}
		thenS := kt.stmts(append(append([]ast.Stmt{}, t.Body.List...), rest...))
		kt.env = saved
		var elseList []ast.Stmt
		if t.Else != nil {
			switch e := t.Else.(type) {
			case *ast.BlockStmt:
				elseList = e.List
			case *ast.IfStmt:
				elseList = []ast.Stmt{e}
			}
		}
		saved2 := map[string]gtype{}
		for k, v := range kt.env {
			saved2[k] = v
		}
		elseS := kt.stmts(append(append([]ast.Stmt{}, elseList...), rest...))
		kt.env = saved2
		return kwrap(pre, "if "+c+" then (\n"+thenS+")\nelse (\n"+elseS+")")
	}
	kt.fail("unsupported statement %T", s)
	return "?"
}

func errConst(e ast.Expr) string {
	n := exprName(e)
	switch {
	case strings.HasPrefix(n, "types."):
		n = cur.name + "_" + strings.TrimPrefix(n, "types.")
	case !strings.Contains(n, "."):
		n = cur.name + "_" + n // inside package types
	}
	return strings.Replace(n, ".", "_", -1)
}

func (kt *kTrans) ret(results []ast.Expr) string {
	if kt.ctxResult && len(results) == 1 {
		// return next(ctx, tx, simulate): the decorator has no objection
		if ce, ok := results[0].(*ast.CallExpr); ok && exprName(ce.Fun) == "next" && len(kt.loops) == 0 {
			return kt.okUnit()
		}
	}
	if kt.ctxResult && len(results) >= 1 {
		if id, ok := results[0].(*ast.Ident); ok && kt.env[id.Name] == tCtx {
			results = results[1:]
		}
	}
	nval := len(kt.results)
	want := nval
	if kt.hasErr {
		want++
	}
	if len(results) == 1 && want > 1 && len(kt.loops) == 0 {
		// return f(..) where f has the same results as this function
		if ce, ok := results[0].(*ast.CallExpr); ok {
			if sig, found := kt.lookup(kt.callName(ce.Fun)); found && sig.hasErr == kt.hasErr && len(sig.results) == nval && sig.impure {
				same := true
				for i := range sig.results {
					same = same && sig.results[i] == kt.results[i]
				}
				pre, term, _, okc := kt.call(ce)
				if same && okc && sig.stateful == kt.stateful {
					return kwrap(pre, term)
				}
				if same && okc && !sig.stateful && kt.stateful {
					return kwrap(pre, "do r_ <- "+term+";\nOk (w, r_)")
				}
			}
		}
	}
	if len(results) != want {
		kt.fail("return of %d values, %d expected", len(results), want)
		return "?"
	}
	deferred := ""
	if kt.hasErr {
		last := results[len(results)-1]
		if id, isId := last.(*ast.Ident); isId && kt.errAlias[id.Name] != "" {
			return "Err " + kt.errAlias[id.Name]
		}
		if id, isId := last.(*ast.Ident); isId && kt.env[id.Name] == tErrV {
			deferred = id.Name
		} else if exprName(last) != "nil" {
			ce, ok := last.(*ast.CallExpr)
			if ok && nval == 0 {
				// return f(..) where f returns only an error
				if sig, found := kt.lookup(kt.callName(ce.Fun)); found && sig.hasErr && len(sig.results) == 0 {
					pre, term, _, okc := kt.call(ce)
					if okc && sig.stateful && kt.stateful {
						return kwrap(pre, "do (w, _) <- "+term+";\nOk (w, tt)")
					}
					if okc && !sig.stateful {
						return kwrap(pre, "do _ <- "+term+";\n"+kt.okUnit())
					}
				}
			}
			if ok {
				fn := exprName(ce.Fun)
				if isWrap(fn) && len(ce.Args) >= 1 {
					return "Err " + errConst(ce.Args[0])
				}
				if isNewErr(fn) {
					return "Err " + cur.name + "_ErrInvalidParams"
				}
				if isStatusErr(fn) && len(ce.Args) >= 1 {
					return "Err grpc_" + errConst(ce.Args[0])
				}
			}
			kt.fail("unsupported error value %s", exprName(last))
			return "?"
		}
		results = results[:len(results)-1]
	}
	var pre []kbinding
	var vals []string
	for _, r := range results {
		p, v, _ := kt.expr(r)
		pre = append(pre, p...)
		vals = append(vals, v)
	}
	val := tuple(vals)
	if kt.stateful {
		val = "(w, " + tuple(vals) + ")"
	}
	okv := "Ok " + val
	if len(kt.loops) > 0 {
		okv = "Ok (LRet " + val + ")"
	}
	if deferred != "" {
		okv = "ret_err " + deferred + " (" + okv + ")"
	}
	return kwrap(pre, okv)
}

// typeSwitch: `switch msg.(type) { case *types.MsgA: .. case *types.MsgB: .. }` on an sdk.Msg as a match on go_anymsg;
// every case continues with the statements after the switch
func (kt *kTrans) typeSwitch(t *ast.TypeSwitchStmt, rest []ast.Stmt) string {
	var subj ast.Expr
	bind := ""
	switch a := t.Assign.(type) {
	case *ast.ExprStmt:
		if ta, ok := a.X.(*ast.TypeAssertExpr); ok {
			subj = ta.X
		}
	case *ast.AssignStmt:
		if len(a.Lhs) == 1 && len(a.Rhs) == 1 {
			if ta, ok := a.Rhs[0].(*ast.TypeAssertExpr); ok {
				subj = ta.X
				bind = exprName(a.Lhs[0])
			}
		}
	}
	if subj == nil || t.Init != nil {
		kt.fail("unsupported type switch")
		return "?"
	}
	pre, sv, sty := kt.expr(subj)
	if sty != tAnyMsg {
		kt.fail("type switch on %s", sty)
		return "?"
	}
	sname := exprName(subj)
	saved := map[string]gtype{}
	for k, v := range kt.env {
		saved[k] = v
	}
	restore := func() {
		kt.env = map[string]gtype{}
		for k, v := range saved {
			kt.env[k] = v
		}
	}
	if kt.caseOf == nil {
		kt.caseOf = map[string][2]string{}
	}
	prevCase, hadPrev := kt.caseOf[sname]
	arms := ""
	hasDefault := false
	for _, c := range t.Body.List {
		cc := c.(*ast.CaseClause)
		if cc.List == nil {
			hasDefault = true
			restore()
			arms += "| _ =>\n" + kt.stmts(append(append([]ast.Stmt{}, cc.Body...), rest...)) + "\n"
			continue
		}
		for _, ty := range cc.List {
			sn := strings.TrimPrefix(exprName(ty), "types.")
			if _, ok := structTable[sn]; !ok {
				kt.fail("type switch case %s", exprName(ty))
				continue
			}
			cv := "m" + kt.tmp()
			restore()
			kt.caseOf[sname] = [2]string{sn, cv}
			head := ""
			if bind != "" && len(cc.List) == 1 {
				kt.env[bind] = gtype("S:" + sn)
				head = "let " + bind + " := " + cv + " in\n"
			}
			arms += "| AM_" + sn + " " + cv + " =>\n" + head + kt.stmts(append(append([]ast.Stmt{}, cc.Body...), rest...)) + "\n"
		}
	}
	if hadPrev {
		kt.caseOf[sname] = prevCase
	} else {
		delete(kt.caseOf, sname)
	}
	restore()
	if !hasDefault {
		arms += "| _ =>\n" + kt.stmts(rest) + "\n"
	}
	restore()
	return kwrap(pre, "match "+sv+" with\n"+arms+"end")
}

// assignedOuter: variables declared before the loop that its body assigns with `=` (also through a field)
func assignedOuter(body *ast.BlockStmt, env map[string]gtype) []string {
	seen := map[string]bool{}
	var out []string
	local := map[string]bool{}
	ast.Inspect(body, func(n ast.Node) bool {
		as, ok := n.(*ast.AssignStmt)
		if !ok {
			return true
		}
		for _, l := range as.Lhs {
			var id *ast.Ident
			switch x := l.(type) {
			case *ast.Ident:
				id = x
			case *ast.SelectorExpr:
				id, _ = x.X.(*ast.Ident)
			case *ast.IndexExpr:
				id, _ = x.X.(*ast.Ident)
			}
			if id == nil || id.Name == "_" {
				continue
			}
			if as.Tok == token.DEFINE {
				if _, isSel := l.(*ast.SelectorExpr); !isSel {
					local[id.Name] = true
					continue
				}
			}
			if _, outer := env[id.Name]; outer && !local[id.Name] && !seen[id.Name] && env[id.Name] != tCtx {
				seen[id.Name] = true
				out = append(out, id.Name)
			}
		}
		return true
	})
	sort.Strings(out)
	return out
}

// onlyElementAssigned: inside the block the slice variable is assigned only through `v[i] = e`
func onlyElementAssigned(body *ast.BlockStmt, v string) bool {
	ok := true
	ast.Inspect(body, func(n ast.Node) bool {
		as, isAs := n.(*ast.AssignStmt)
		if !isAs {
			return true
		}
		for _, l := range as.Lhs {
			if id, isId := l.(*ast.Ident); isId && id.Name == v {
				ok = false
			}
			if se, isSel := l.(*ast.SelectorExpr); isSel && exprName(se.X) == v {
				ok = false
			}
		}
		return true
	})
	return ok
}

// rangeStmt: `for _, x := range xs { body }` as go_range over the list, threading the world and the outer variables
// the body assigns; `continue` and the end of the body continue with the next element, `return` leaves the function.
func (kt *kTrans) rangeStmt(t *ast.RangeStmt, rest []ast.Stmt) string {
	if t.Tok != token.DEFINE || t.Value == nil {
		kt.fail("unsupported range form")
		return "?"
	}
	idx := ""
	if t.Key != nil && exprName(t.Key) != "_" {
		idx = exprName(t.Key)
	}
	pre, xs, xty := kt.expr(t.X)
	if xty == tCoins {
		xty = gtype("L:" + string(tCoin))
	}
	mapRange := ""
	if isMap(xty) {
		// for k, v := range m: the order is unspecified in Go; here: the order in which the keys were first set (the
		// theorems about such loops do not depend on it)
		if idx == "" {
			kt.fail("range over a map without its key")
			return "?"
		}
		mapRange = idx
		idx = ""
		xty = gtype("L:" + string(mapVal(xty)))
	}
	if !isList(xty) {
		kt.fail("range over %s", xty)
		return "?"
	}
	x := exprName(t.Value)
	vars := assignedOuter(t.Body, kt.env)
	var parts []string
	if kt.stateful {
		parts = append(parts, "w")
	}
	parts = append(parts, vars...)
	state := tuple(parts)
	n := kt.tmp()
	st, lr := "st"+n, "lr"+n
	unpack := func(k string) string {
		switch len(parts) {
		case 0:
			return k
		case 1:
			return "let " + parts[0] + " := " + st + " in\n" + k
		}
		return "let '" + state + " := " + st + " in\n" + k
	}
	saved := map[string]gtype{}
	for k, v := range kt.env {
		saved[k] = v
	}
	kt.env[x] = elemOf(xty)
	reread := ""
	if id, isId := t.X.(*ast.Ident); isId {
		for _, v := range vars {
			if v != id.Name {
				continue
			}
			// the ranged slice is assigned inside the loop.  Go evaluates the range expression once, but reads each
			// element from the (shared) backing array when its turn comes: element assignments made by earlier
			// iterations are seen.  Supported for element assignments only, with the element re-read by index.
			if idx == "" || !onlyElementAssigned(t.Body, id.Name) {
				kt.fail("the ranged slice %s is reassigned inside the loop", id.Name)
			}
			reread = "do " + x + " <- (go_index " + id.Name + " " + idx + ");\n"
		}
	}
	if idx != "" {
		kt.env[idx] = tInt64
	}
	if mapRange != "" {
		kt.env[mapRange] = tUint64
	}
	kt.loops = append(kt.loops, state)
	body := reread + kt.stmts(t.Body.List)
	kt.loops = kt.loops[:len(kt.loops)-1]
	kt.env = saved
	after := kt.stmts(rest)
	retv := "Ok r_"
	if len(kt.loops) > 0 {
		retv = "Ok (LRet r_)"
	}
	comb := "go_range (fun " + x
	if idx != "" {
		comb = "go_range_i (fun " + idx + " " + x
	}
	if mapRange != "" {
		comb = "go_range (fun '(" + mapRange + ", " + x + ")"
	}
	return kwrap(pre, "do "+lr+" <- ("+comb+" "+st+" =>\n"+unpack(body)+") "+xs+" "+state+");\n"+
		"match "+lr+" with\n| LRet r_ => "+retv+"\n| LCont "+st+" =>\n"+unpack(after)+"\nend")
}

func (kt *kTrans) okUnit() string {
	if kt.stateful {
		return "Ok (w, tt)"
	}
	return "Ok tt"
}

// assertedType: for `func f(i interface{})` whose body starts with `v, ok := i.(T)`, the type T
func assertedType(fd *ast.FuncDecl, param string) ast.Expr {
	for _, st := range fd.Body.List {
		as, ok := st.(*ast.AssignStmt)
		if !ok || len(as.Rhs) != 1 {
			continue
		}
		if ta, ok := as.Rhs[0].(*ast.TypeAssertExpr); ok && exprName(ta.X) == param && ta.Type != nil {
			return ta.Type
		}
	}
	return nil
}

func sigOf(fd *ast.FuncDecl) (fnSig, []field, string) {
	var sig fnSig
	var params []field
	recv := ""
	if fd.Recv != nil && len(fd.Recv.List) == 1 && len(fd.Recv.List[0].Names) == 1 {
		recv = fd.Recv.List[0].Names[0].Name
		if rt := goTypeK(fd.Recv.List[0].Type); isStruct(rt) {
			params = append(params, field{recv, rt})
			recv = ""
		}
	}
	for i, f := range fd.Type.Params.List {
		if exprName(f.Type) == "keeper.Keeper" && len(f.Names) == 1 {
			recv = f.Names[0].Name // the keeper handed in: calls on it are the module's keeper calls
			continue
		}
		if tn := exprName(f.Type); (tn == "WrkchainKeeper" || tn == "BeaconKeeper") && len(f.Names) == 1 {
			recv = f.Names[0].Name // the module keeper behind the ante package's interface
			continue
		}
		if tn := exprName(f.Type); tn == "types.BankKeeper" || tn == "types.AccountKeeper" || tn == "BankKeeper" || tn == "AccountKeeper" || tn == "EnterpriseKeeper" {
			continue // other keepers handed in: their calls are primitives under the parameter's name
		}
		if exprName(f.Type) == "sdk.AnteHandler" {
			continue // the rest of the ante chain: `return next(..)` means "this decorator has no objection"
		}
		ty := goTypeK(f.Type)
		if _, isIface := f.Type.(*ast.InterfaceType); isIface && len(f.Names) == 1 {
			if at := assertedType(fd, f.Names[0].Name); at != nil {
				ty = goTypeK(at)
				if ty == tStr && (strings.Contains(strings.ToLower(fd.Name.Name), "denom")) {
					ty = tDenom
				} else if ty == tStr && strings.Contains(fd.Name.Name, "EntSigners") {
					ty = tSigners
				}
			}
		}
		for _, n := range f.Names {
			if ty == tStr && n.Name == "denom" {
				params = append(params, field{n.Name, tDenom}) // a string parameter holding a denomination
				continue
			}
			if ty == tCtx && i == 0 {
				sig.stateful = true
				sig.dropCtx = n.Name == "ctx"
				params = append(params, field{n.Name, tCtx})
				continue
			}
			params = append(params, field{n.Name, ty})
		}
	}
	if fd.Type.Results != nil {
		for _, f := range fd.Type.Results.List {
			ty := goTypeK(f.Type)
			n := len(f.Names)
			if n == 0 {
				n = 1
			}
			for i := 0; i < n; i++ {
				if ty == tErrT {
					sig.hasErr = true
				} else if ty == tCtx {
					sig.ctxResult = true // (sdk.Context, error) of an AnteHandle: the context is the world
				} else {
					sig.results = append(sig.results, ty)
				}
			}
		}
	}
	sig.impure = true
	sig.coq = "go_" + fd.Name.Name
	return sig, params, recv
}

// translateKeeperFunc renders one function. A function that takes the context but never calls anything
// state-changing is rendered as a *reader*: it takes the world and returns only its results.
func translateKeeperFunc(fd *ast.FuncDecl, funcs map[string]fnSig, defName string) (string, []string, fnSig) {
	sig, params, recv := sigOf(fd)
	if defName == "" {
		defName = fd.Name.Name
	}
	sig.coq = "go_" + defName
	render := func(stateful bool) (string, []string, bool) {
		for k, v := range localTypeAlias {
			delete(structTable, v)
			delete(localTypeAlias, k)
		}
		kt := &kTrans{env: map[string]gtype{}, recv: recv, stateful: stateful, results: sig.results, hasErr: sig.hasErr, funcs: funcs, errAlias: map[string]string{}, ctxResult: sig.ctxResult}
		if fd.Recv != nil && len(fd.Recv.List) == 1 && len(fd.Recv.List[0].Names) == 1 {
			kt.recvName = fd.Recv.List[0].Names[0].Name
		}
		kt.fnName = defName
		var ps []string
		if sig.stateful {
			ps = append(ps, "(w : "+cur.world+")")
		}
		for _, p := range params {
			kt.env[p.name] = p.typ
			if p.typ == tCtx {
				continue
			}
			if p.typ == tUnknown {
				kt.fail("parameter %s: unsupported type", p.name)
			}
			ps = append(ps, fmt.Sprintf("(%s : %s)", p.name, coqTypeK(p.typ)))
		}
		var rts []string
		for _, r := range sig.results {
			if r == tUnknown {
				kt.fail("unsupported result type")
			}
			rts = append(rts, coqTypeK(r))
		}
		rt := "unit"
		if len(rts) == 1 {
			rt = rts[0]
		} else if len(rts) > 1 {
			rt = "(" + strings.Join(rts, " * ") + ")"
		}
		if stateful {
			rt = "(" + cur.world + " * " + rt + ")"
		}
		body := kt.stmts(fd.Body.List)
		def := kt.localDefs + fmt.Sprintf("Definition go_%s %s : outcome %s :=\n%s.\n", defName, strings.Join(ps, " "), rt, body)
		return def, kt.errs, kt.usedStateful
	}
	def, errs, used := render(sig.stateful)
	if sig.stateful && !used && len(errs) == 0 {
		// a reader
		def, errs, _ = render(false)
		sig.reads = true
		sig.stateful = false
	}
	return def, errs, sig
}

// writeKeeper emits the records and the translated functions of one module
func writeKeeper(repo, module, typesOut, keeperOut string) {
	cur = modules[module]
	primTable = cur.prims
	constTable = cur.consts
	loadStructs(repo)
	if typesOut != "" {
		writeStructTypes(typesOut)
	}
	decls := map[string]*ast.FuncDecl{}
	var allNames []string
	for _, fn := range cur.goFiles {
		f := parseFile(filepath.Join(repo, "x", cur.name, "keeper", fn))
		for _, d := range f.Decls {
			if fd, ok := d.(*ast.FuncDecl); ok && fd.Body != nil {
				decls[fd.Name.Name] = fd
				allNames = append(allNames, fd.Name.Name)
			}
		}
	}
	for _, fn := range append(append([]string{}, cur.rootFiles...), cur.anteFiles...) {
		f := parseFile(filepath.Join(repo, "x", cur.name, fn))
		for _, d := range f.Decls {
			if fd, ok := d.(*ast.FuncDecl); ok && fd.Body != nil {
				decls[fd.Name.Name] = fd
				allNames = append(allNames, fd.Name.Name)
			}
		}
	}
	sort.Strings(allNames)
	var sb strings.Builder
	sb.WriteString("(* GENERATED by /verif/translator (gokeeper.go) from /repo/x/" + cur.name + "/keeper/{" + strings.Join(cur.goFiles, ",") + "} on every check.\n")
	if strings.HasSuffix(cur.keeperMod, "OnStore") {
		sb.WriteString("   SECOND rendering of the same keeper and message-server code: its store primitives are the GENERATED store accessors\n")
		sb.WriteString("   (Generated<Module>Store.v) over the byte-keyed store, through the adapters of model/<Module>StoreWorld.v.\n")
		sb.WriteString("   proofs/Generated<Module>OnStoreEq.v proves that it simulates the rendering over the hand-written primitives. Do not edit. *)\n")
	} else {
		sb.WriteString("   State-passing rendering of the keeper and message-server code against the hand-written primitives it imports.\n")
		sb.WriteString("   The proofs/Generated*Eq.v files prove these equal to the hand-written model. Do not edit. *)\n")
	}
	sb.WriteString("From Coq Require Import String.\nFrom MC Require Import " + cur.imports + ".\nOpen Scope Z_scope.\n\n")
	if cur.secVars != "" {
		sb.WriteString("Section Rendering.\n" + cur.secVars + "\n\n")
	}
	funcs := map[string]fnSig{}
	// pure helpers of package types
	for _, tfn := range cur.typeFuncs {
		tf := parseFile(filepath.Join(repo, "x", cur.name, "types", tfn[0]))
		found := false
		for _, d := range tf.Decls {
			fd, ok := d.(*ast.FuncDecl)
			if !ok || fd.Body == nil {
				continue
			}
			if fd.Recv != nil && len(fd.Recv.List) == 1 && exprName(fd.Recv.List[0].Type)+"."+fd.Name.Name == tfn[1] {
				found = true
				dn := strings.Replace(tfn[1], ".", "_", 1)
				def, errs, _ := translateKeeperFunc(fd, funcs, dn)
				if len(errs) > 0 {
					sb.WriteString("(* NOT TRANSLATED types." + tfn[1] + ": " + strings.Join(errs, "; ") + " *)\n\n")
				} else {
					sb.WriteString(def + "\n")
				}
				continue
			}
			if fd.Recv == nil && fd.Name.Name == tfn[1] {
				found = true
				def, errs, sig := translateKeeperFunc(fd, funcs, "")
				if len(errs) > 0 {
					sb.WriteString("(* NOT TRANSLATED types." + tfn[1] + ": " + strings.Join(errs, "; ") + " *)\n\n")
				} else {
					sb.WriteString(def + "\n")
					funcs["types."+tfn[1]] = sig
				}
			}
		}
		if !found {
			sb.WriteString("(* NOT FOUND types." + tfn[1] + " *)\n\n")
		}
	}
	// the stateless checks of the messages (x/<module>/types/msgs.go)
	if len(cur.msgTypes) > 0 {
		mf := parseFile(filepath.Join(repo, "x", cur.name, "types", "msgs.go"))
		for _, mt := range cur.msgTypes {
			found := false
			for _, d := range mf.Decls {
				fd, ok := d.(*ast.FuncDecl)
				if !ok || fd.Body == nil || fd.Name.Name != "ValidateBasic" || fd.Recv == nil || len(fd.Recv.List) != 1 {
					continue
				}
				if strings.TrimPrefix(exprName(fd.Recv.List[0].Type), "types.") != mt {
					continue
				}
				found = true
				def, errs, _ := translateKeeperFunc(fd, funcs, mt+"_ValidateBasic")
				if len(errs) > 0 {
					sb.WriteString("(* NOT TRANSLATED " + mt + ".ValidateBasic: " + strings.Join(errs, "; ") + " *)\n\n")
				} else {
					sb.WriteString(def + "\n")
				}
			}
			if !found {
				sb.WriteString("(* NOT FOUND " + mt + ".ValidateBasic *)\n\n")
			}
		}
	}
	for _, want := range cur.want {
		fd, ok := decls[want]
		if !ok {
			sb.WriteString("(* NOT FOUND " + want + " *)\n\n")
			continue
		}
		dn := ""
		if _, clash := structTable[want]; clash {
			dn = want + "_handler" // a query handler named like the record it returns
		}
		def, errs, sig := translateKeeperFunc(fd, funcs, dn)
		if len(errs) > 0 {
			sb.WriteString("(* NOT TRANSLATED " + want + ": " + strings.Join(errs, "; ") + " *)\n\n")
			continue
		}
		sb.WriteString(def + "\n")
		key := "k." + want
		if fd.Recv == nil {
			key = want
		}
		funcs[key] = sig
	}
	// the callbacks of the list queries
	var skeletons []string
	for _, h := range cur.callbacks {
		fd, ok := decls[h]
		if !ok {
			sb.WriteString("(* NOT FOUND " + h + " *)\n\n")
			continue
		}
		skeletons = append(skeletons, fmt.Sprintf("(%s, %s)", q(h), q(skeletonDigest(fd))))
		cb, why := callbackDecl(fd)
		if cb == nil {
			sb.WriteString("(* NOT TRANSLATED callback of " + h + ": " + why + " *)\n\n")
			continue
		}
		def, errs, _ := translateKeeperFunc(cb, funcs, "")
		if len(errs) > 0 {
			sb.WriteString("(* NOT TRANSLATED callback of " + h + ": " + strings.Join(errs, "; ") + " *)\n\n")
			continue
		}
		sb.WriteString(def + "\n")
	}
	// every other function of the files is listed, so that a new state-changing function cannot appear unnoticed
	var others []string
	inWant := map[string]bool{}
	for _, w := range cur.want {
		inWant[w] = true
	}
	for _, n := range allNames {
		if !inWant[n] {
			others = append(others, n)
		}
	}
	if cur.secVars != "" {
		sb.WriteString("End Rendering.\n\n")
	}
	sb.WriteString("Local Open Scope string_scope.\n")
	sb.WriteString("Definition " + cur.listName + " : list string :=\n  " + strList(others) + ".\n")
	// the bodies of the module's own functions that the translated code calls as PRIMITIVES (described by hand in the
	// prims files): a digest of each body (comments stripped, gofmt layout), so that an edit to one of them is noticed
	for _, fn := range []string{"params.go", "keeper.go"} {
		if len(cur.goFiles) == 0 {
			break // an ante-only spec: the keeper primitives it uses are pinned by the module's own spec
		}
		f := parseFile(filepath.Join(repo, "x", cur.name, "keeper", fn))
		for _, d := range f.Decls {
			if fd, ok := d.(*ast.FuncDecl); ok && fd.Body != nil {
				if _, dup := decls[fd.Name.Name]; !dup {
					decls[fd.Name.Name] = fd
				}
			}
		}
	}
	var prims []string
	for k := range cur.prims {
		if strings.HasPrefix(k, "k.") && !strings.Contains(strings.TrimPrefix(k, "k."), ".") {
			synthetic := false // the listing behind an Iterate* helper is not a Go function
			for _, ps := range cur.prims {
				synthetic = synthetic || ps.iterListing == strings.TrimPrefix(k, "k.")
			}
			if !synthetic {
				prims = append(prims, strings.TrimPrefix(k, "k."))
			}
		}
	}
	// ... and, transitively, the module functions those bodies call
	inPrims := map[string]bool{}
	for _, pn := range prims {
		inPrims[pn] = true
	}
	for i := 0; i < len(prims); i++ {
		fd, ok := decls[prims[i]]
		if !ok {
			continue
		}
		ast.Inspect(fd.Body, func(n ast.Node) bool {
			ce, ok := n.(*ast.CallExpr)
			if !ok {
				return true
			}
			if sel, ok := ce.Fun.(*ast.SelectorExpr); ok {
				callee := sel.Sel.Name
				if _, isDecl := decls[callee]; isDecl && !inPrims[callee] && !inWant[callee] {
					if id, ok := sel.X.(*ast.Ident); ok && (id.Name == "k" || id.Name == "q" || id.Name == "keeper") {
						inPrims[callee] = true
						prims = append(prims, callee)
					}
				}
			}
			return true
		})
	}
	sort.Strings(prims)
	var digests []string
	for _, pn := range prims {
		fd, ok := decls[pn]
		if !ok {
			digests = append(digests, fmt.Sprintf("(%s, %s)", q(pn), q("MISSING")))
			continue
		}
		cp := *fd
		cp.Doc = nil
		var buf bytes.Buffer
		printer.Fprint(&buf, token.NewFileSet(), &cp)
		sum := sha256.Sum256(buf.Bytes())
		digests = append(digests, fmt.Sprintf("(%s, %s)", q(pn), q(fmt.Sprintf("%x", sum[:8]))))
	}
	if len(cur.callbacks) > 0 {
		// the list-query handlers around the translated callbacks: a digest of each handler with the callback bodies
		// blanked (which store and page request go to FilteredPaginate, what happens to the result)
		sb.WriteString("Definition " + cur.name + "_list_query_skeletons : list (string * string) :=\n  [" + strings.Join(skeletons, ";\n   ") + "].\n")
	}
	if len(cur.goFiles) > 0 {
		sb.WriteString("Definition " + cur.name + "_primitive_bodies : list (string * string) :=\n  [" + strings.Join(digests, ";\n   ") + "].\n")
	}
	os.WriteFile(keeperOut, []byte(sb.String()), 0o644)
}

// callbackDecl: the callback a list-query handler hands to query.FilteredPaginate, as a function of its own:
//
//	func (q Keeper) <Handler>_callback(req .., <item> T, accumulate bool, <results> []T) ([]T, bool, error)
//
// The callback's `var item T` + `q.cdc.Unmarshal(value, &item)` prologue makes the item a parameter (the stored value,
// decoded); the result slice it captures from the handler is threaded through (parameter and first result).
func callbackDecl(fd *ast.FuncDecl) (*ast.FuncDecl, string) {
	var lit *ast.FuncLit
	var accName string
	var accType ast.Expr
	for _, st := range fd.Body.List {
		if ds, ok := st.(*ast.DeclStmt); ok {
			if gd, ok := ds.Decl.(*ast.GenDecl); ok && gd.Tok == token.VAR && len(gd.Specs) == 1 {
				vs := gd.Specs[0].(*ast.ValueSpec)
				if _, isArr := vs.Type.(*ast.ArrayType); isArr && len(vs.Names) == 1 && len(vs.Values) == 0 {
					accName, accType = vs.Names[0].Name, vs.Type
				}
			}
		}
		as, ok := st.(*ast.AssignStmt)
		if !ok || len(as.Rhs) != 1 {
			continue
		}
		if ce, ok := as.Rhs[0].(*ast.CallExpr); ok && exprName(ce.Fun) == "query.FilteredPaginate" && len(ce.Args) == 3 {
			lit, _ = ce.Args[2].(*ast.FuncLit)
		}
	}
	if lit == nil || accName == "" {
		return nil, "no query.FilteredPaginate callback / result slice found"
	}
	ps := lit.Type.Params.List
	if len(ps) != 3 || len(ps[2].Names) != 1 || exprName(ps[2].Type) != "bool" {
		return nil, "unexpected callback signature"
	}
	body := lit.Body.List
	if len(body) < 2 {
		return nil, "callback too short"
	}
	ds, ok := body[0].(*ast.DeclStmt)
	if !ok {
		return nil, "callback does not start with the item declaration"
	}
	vs := ds.Decl.(*ast.GenDecl).Specs[0].(*ast.ValueSpec)
	if len(vs.Names) != 1 || len(vs.Values) != 0 {
		return nil, "callback does not start with the item declaration"
	}
	item, itemType := vs.Names[0].Name, vs.Type
	isUnmarshal := func(e ast.Expr) bool {
		ce, ok := e.(*ast.CallExpr)
		if !ok || len(ce.Args) != 2 || !strings.HasSuffix(exprName(ce.Fun), ".cdc.Unmarshal") {
			return false
		}
		ue, ok := ce.Args[1].(*ast.UnaryExpr)
		return ok && ue.Op == token.AND && exprName(ue.X) == item && exprName(ce.Args[0]) == ps[1].Names[0].Name
	}
	rest := body[1:]
	switch t := rest[0].(type) {
	case *ast.IfStmt: // if err := q.cdc.Unmarshal(value, &item); err != nil { return false, .. }
		as, ok := t.Init.(*ast.AssignStmt)
		if !ok || len(as.Rhs) != 1 || !isUnmarshal(as.Rhs[0]) {
			return nil, "no Unmarshal of the value into the item"
		}
		rest = rest[1:]
	case *ast.AssignStmt: // err := q.cdc.Unmarshal(value, &item); if err != nil { return false, err }
		if len(t.Rhs) != 1 || !isUnmarshal(t.Rhs[0]) || len(rest) < 2 {
			return nil, "no Unmarshal of the value into the item"
		}
		if okc, _ := isErrCheck(rest[1], exprName(t.Lhs[0])); !okc {
			return nil, "the Unmarshal error is not returned"
		}
		rest = rest[2:]
	default:
		return nil, "no Unmarshal of the value into the item"
	}
	// the key and the raw value must not be used any further
	bad := ""
	for _, st := range rest {
		ast.Inspect(st, func(n ast.Node) bool {
			if id, ok := n.(*ast.Ident); ok && (id.Name == ps[1].Names[0].Name || (len(ps[0].Names) == 1 && id.Name == ps[0].Names[0].Name)) {
				bad = "the callback uses the raw key / value"
			}
			if rs, ok := n.(*ast.ReturnStmt); ok {
				rs.Results = append([]ast.Expr{ast.NewIdent(accName)}, rs.Results...)
			}
			return true
		})
	}
	if bad != "" {
		return nil, bad
	}
	var params []*ast.Field
	for i, p := range fd.Type.Params.List {
		if i == 0 {
			continue // the context
		}
		params = append(params, p)
	}
	params = append(params,
		&ast.Field{Names: []*ast.Ident{ast.NewIdent(item)}, Type: itemType},
		&ast.Field{Names: []*ast.Ident{ast.NewIdent(ps[2].Names[0].Name)}, Type: ast.NewIdent("bool")},
		&ast.Field{Names: []*ast.Ident{ast.NewIdent(accName)}, Type: accType})
	results := []*ast.Field{{Type: accType}, {Type: ast.NewIdent("bool")}, {Type: ast.NewIdent("error")}}
	return &ast.FuncDecl{
		Recv: fd.Recv,
		Name: ast.NewIdent(fd.Name.Name + "_callback"),
		Type: &ast.FuncType{Params: &ast.FieldList{List: params}, Results: &ast.FieldList{List: results}},
		Body: &ast.BlockStmt{List: rest},
	}, ""
}

// skeletonDigest: digest of a function with the bodies of its function literals blanked (comments stripped)
func skeletonDigest(fd *ast.FuncDecl) string {
	var lits []*ast.FuncLit
	var saved []*ast.BlockStmt
	ast.Inspect(fd.Body, func(n ast.Node) bool {
		if fl, ok := n.(*ast.FuncLit); ok {
			lits = append(lits, fl)
			saved = append(saved, fl.Body)
			return false
		}
		return true
	})
	for _, fl := range lits {
		fl.Body = &ast.BlockStmt{}
	}
	cp := *fd
	cp.Doc = nil
	var buf bytes.Buffer
	printer.Fprint(&buf, token.NewFileSet(), &cp)
	for i, fl := range lits {
		fl.Body = saved[i]
	}
	sum := sha256.Sum256(buf.Bytes())
	return fmt.Sprintf("%x", sum[:8])
}
