// vtranslate reads /repo's current working tree (go/parser only: no build, nothing written into
// /repo) and emits coq/Generated.v: constants, wiring tables and a name-resolved call graph with an
// effect summary of the repository's own consensus code.  The Coq development proves its wiring
// obligations against these definitions, so they are re-checked against what the code says now.
package main

import (
	"crypto/sha256"
	"encoding/json"
	"flag"
	"fmt"
	"go/ast"
	"go/parser"
	"go/token"
	"os"
	"path/filepath"
	"sort"
	"strconv"
	"strings"
)

type facts struct {
	Prefixes        map[string]map[string][]int `json:"prefixes"`
	MaccPerms       map[string][]string         `json:"macc_perms"`
	BlockedRemoved  []string                    `json:"blocked_removed"`
	AnteOrder       []string                    `json:"ante_order"`
	BeginBlockers   []string                    `json:"begin_blockers"`
	EndBlockers     []string                    `json:"end_blockers"`
	GenesisOrder    []string                    `json:"genesis_order"`
	EntBeginCalls   []string                    `json:"enterprise_beginblocker_calls"`
	TypeSwitches    map[string][]string         `json:"type_switches"`
	GetSigners      map[string]string           `json:"get_signers_field"`
	AuthorityCheck  []string                    `json:"authority_checked"`
	SetParamsValid  []string                    `json:"setparams_validates"`
	Consts          map[string]int64            `json:"consts"`
	SizeLimits      map[string][]int64          `json:"size_limits"`
	PanicSites      []string                    `json:"panic_sites"`
	Graph           map[string][]string         `json:"callgraph"`
	Effects         map[string][]string         `json:"effects"`
	Resolved        map[string][]string         `json:"resolved_graph"`
	RootsConsensus  []string                    `json:"roots_consensus"`
	RootsQuery      []string                    `json:"roots_query"`
	ReachConsensus  []string                    `json:"reach_consensus"`
	ReachQuery      []string                    `json:"reach_query"`
	NodeFile        map[string]string           `json:"node_file"`
	SourceDigest    string                      `json:"source_digest"`
	Files           int                         `json:"files"`
	StoreKeys       []string                    `json:"store_keys"`
	WallClockArgs   map[string][]string         `json:"wallclock_flows_to"`
	ValidateBasicNZ []string                    `json:"validate_basic_rejects_zero_submit_time"`
}

var fset = token.NewFileSet()

func parseFile(path string) *ast.File {
	f, err := parser.ParseFile(fset, path, nil, parser.ParseComments)
	if err != nil {
		fmt.Fprintln(os.Stderr, "parse", path, err)
		os.Exit(1)
	}
	return f
}

func exprName(e ast.Expr) string {
	switch t := e.(type) {
	case *ast.Ident:
		return t.Name
	case *ast.SelectorExpr:
		return exprName(t.X) + "." + t.Sel.Name
	case *ast.CallExpr:
		var as []string
		for _, a := range t.Args {
			as = append(as, exprName(a))
		}
		return exprName(t.Fun) + "(" + strings.Join(as, ",") + ")"
	case *ast.StarExpr:
		return exprName(t.X)
	case *ast.BasicLit:
		return t.Value
	case *ast.IndexExpr:
		return exprName(t.X)
	}
	return "?"
}

func lastName(e ast.Expr) string {
	switch t := e.(type) {
	case *ast.Ident:
		return t.Name
	case *ast.SelectorExpr:
		return t.Sel.Name
	case *ast.IndexExpr:
		return lastName(t.X)
	case *ast.ParenExpr:
		return lastName(t.X)
	case *ast.StarExpr:
		return lastName(t.X)
	}
	return ""
}

func byteLit(e ast.Expr) ([]int, bool) {
	cl, ok := e.(*ast.CompositeLit)
	if !ok {
		return nil, false
	}
	at, ok := cl.Type.(*ast.ArrayType)
	if !ok || exprName(at.Elt) != "byte" {
		return nil, false
	}
	var out []int
	for _, el := range cl.Elts {
		bl, ok := el.(*ast.BasicLit)
		if !ok {
			return nil, false
		}
		v, err := strconv.ParseInt(bl.Value, 0, 64)
		if err != nil {
			return nil, false
		}
		out = append(out, int(v))
	}
	return out, true
}

func main() {
	repo := flag.String("repo", "/repo", "repository root")
	out := flag.String("out", "Generated.v", "Coq output")
	jout := flag.String("json", "", "JSON output")
	fnsOut := flag.String("fns", "", "Coq output for the translated pure functions")
	ktypesOut := flag.String("ktypes", "", "Coq output for the protobuf struct records of x/stream")
	keeperOut := flag.String("keeper", "", "Coq output for the translated x/stream keeper and message server")
	genDir := flag.String("gendir", "", "directory for the translated x/wrkchain and x/beacon files (Generated{Wrkchain,Beacon}{Types,Keeper}.v)")
	flag.Parse()
	repoRoot = *repo
	if *ktypesOut != "" && *keeperOut != "" {
		writeKeeper(*repo, "stream", *ktypesOut, *keeperOut)
	}
	if *genDir != "" {
		for _, m := range []string{"wrkchain", "beacon", "enterprise"} {
			writeKeeper(*repo, m, filepath.Join(*genDir, modules[m].typesMod+".v"), filepath.Join(*genDir, modules[m].keeperMod+".v"))
		}
		writeKeys(*repo, filepath.Join(*genDir, "GeneratedKeys.v"))
		writeDenom(*repo, filepath.Join(*genDir, "GeneratedDenom.v"))
		writeKeeper(*repo, "streamonstore", "", filepath.Join(*genDir, "GeneratedStreamKeeperOnStore.v"))
		writeKeeper(*repo, "enterpriseonstore", "", filepath.Join(*genDir, "GeneratedEnterpriseKeeperOnStore.v"))
		writeKeeper(*repo, "wrkchainonstore", "", filepath.Join(*genDir, "GeneratedWrkchainKeeperOnStore.v"))
		writeKeeper(*repo, "beacononstore", "", filepath.Join(*genDir, "GeneratedBeaconKeeperOnStore.v"))
		for _, sp := range storeSpecs {
			writeStore(*repo, sp, filepath.Join(*genDir, "Generated"+strings.Title(sp.module)+"Store.v"))
		}
		for _, m := range []string{"wrkante", "bcnante", "entante"} {
			writeKeeper(*repo, m, "", filepath.Join(*genDir, modules[m].keeperMod+".v"))
		}
	}
	if *fnsOut != "" {
		writeFns(*repo, *fnsOut)
	}
	fa := facts{Prefixes: map[string]map[string][]int{}, MaccPerms: map[string][]string{}, TypeSwitches: map[string][]string{},
		GetSigners: map[string]string{}, Consts: map[string]int64{}, SizeLimits: map[string][]int64{}, Graph: map[string][]string{},
		Effects: map[string][]string{}, WallClockArgs: map[string][]string{}, Resolved: map[string][]string{}, NodeFile: map[string]string{}}
	h := sha256.New()

	// ---------- key prefixes ----------
	for _, mod := range []string{"enterprise", "wrkchain", "beacon", "stream"} {
		p := filepath.Join(*repo, "x", mod, "types", "keys.go")
		f := parseFile(p)
		fa.Prefixes[mod] = map[string][]int{}
		for _, d := range f.Decls {
			gd, ok := d.(*ast.GenDecl)
			if !ok || gd.Tok != token.VAR {
				continue
			}
			for _, sp := range gd.Specs {
				vs := sp.(*ast.ValueSpec)
				for i, n := range vs.Names {
					if i < len(vs.Values) {
						if bz, ok := byteLit(vs.Values[i]); ok {
							fa.Prefixes[mod][n.Name] = bz
						}
					}
				}
			}
		}
	}

	// ---------- app.go wiring ----------
	appFile := parseFile(filepath.Join(*repo, "app", "app.go"))
	ast.Inspect(appFile, func(n ast.Node) bool {
		switch t := n.(type) {
		case *ast.ValueSpec:
			for i, nm := range t.Names {
				if nm.Name == "maccPerms" && i < len(t.Values) {
					if cl, ok := t.Values[i].(*ast.CompositeLit); ok {
						for _, el := range cl.Elts {
							kv := el.(*ast.KeyValueExpr)
							key := exprName(kv.Key)
							var perms []string
							if vcl, ok := kv.Value.(*ast.CompositeLit); ok {
								for _, pe := range vcl.Elts {
									perms = append(perms, lastName(pe))
								}
							}
							fa.MaccPerms[key] = perms
						}
					}
				}
			}
		case *ast.AssignStmt:
			if len(t.Lhs) == 1 && exprName(t.Lhs[0]) == "genesisModuleOrder" {
				if cl, ok := t.Rhs[0].(*ast.CompositeLit); ok {
					for _, el := range cl.Elts {
						fa.GenesisOrder = append(fa.GenesisOrder, exprName(el))
					}
				}
			}
		case *ast.CallExpr:
			switch lastName(t.Fun) {
			case "SetOrderBeginBlockers":
				for _, a := range t.Args {
					fa.BeginBlockers = append(fa.BeginBlockers, exprName(a))
				}
			case "SetOrderEndBlockers":
				for _, a := range t.Args {
					fa.EndBlockers = append(fa.EndBlockers, exprName(a))
				}
			case "NewKVStoreKeys":
				for _, a := range t.Args {
					fa.StoreKeys = append(fa.StoreKeys, exprName(a))
				}
			}
		case *ast.FuncDecl:
			if t.Name.Name == "BlockedAddresses" {
				ast.Inspect(t, func(m ast.Node) bool {
					if c, ok := m.(*ast.CallExpr); ok && exprName(c.Fun) == "delete" && len(c.Args) == 2 {
						fa.BlockedRemoved = append(fa.BlockedRemoved, exprName(c.Args[1]))
					}
					return true
				})
			}
		}
		return true
	})
	// var genesisModuleOrder = []string{...} may also be a ValueSpec
	if len(fa.GenesisOrder) == 0 {
		ast.Inspect(appFile, func(n ast.Node) bool {
			if vs, ok := n.(*ast.ValueSpec); ok {
				for i, nm := range vs.Names {
					if nm.Name == "genesisModuleOrder" && i < len(vs.Values) {
						if cl, ok := vs.Values[i].(*ast.CompositeLit); ok {
							for _, el := range cl.Elts {
								fa.GenesisOrder = append(fa.GenesisOrder, exprName(el))
							}
						}
					}
				}
			}
			return true
		})
	}

	// ---------- ante order ----------
	anteFile := parseFile(filepath.Join(*repo, "ante", "ante.go"))
	ast.Inspect(anteFile, func(n ast.Node) bool {
		if as, ok := n.(*ast.AssignStmt); ok && len(as.Lhs) == 1 && exprName(as.Lhs[0]) == "anteDecorators" {
			if cl, ok := as.Rhs[0].(*ast.CompositeLit); ok {
				for _, el := range cl.Elts {
					if c, ok := el.(*ast.CallExpr); ok {
						fa.AnteOrder = append(fa.AnteOrder, exprName(c.Fun))
					}
				}
			}
		}
		return true
	})

	// ---------- enterprise BeginBlocker call order ----------
	abci := parseFile(filepath.Join(*repo, "x", "enterprise", "abci.go"))
	for _, d := range abci.Decls {
		if fd, ok := d.(*ast.FuncDecl); ok && fd.Name.Name == "BeginBlocker" {
			for _, st := range fd.Body.List {
				if es, ok := st.(*ast.ExprStmt); ok {
					if c, ok := es.X.(*ast.CallExpr); ok {
						fa.EntBeginCalls = append(fa.EntBeginCalls, lastName(c.Fun))
					}
				}
			}
		}
	}

	// ---------- walk the repository's own consensus packages ----------
	var files []string
	for _, root := range []string{"app", "ante", "types", "x"} {
		filepath.Walk(filepath.Join(*repo, root), func(p string, info os.FileInfo, err error) error {
			if err != nil || info.IsDir() {
				return nil
			}
			if !strings.HasSuffix(p, ".go") || strings.HasSuffix(p, "_test.go") || strings.HasSuffix(p, ".pb.go") || strings.HasSuffix(p, ".pb.gw.go") {
				return nil
			}
			rel, _ := filepath.Rel(*repo, p)
			for _, skip := range []string{"/simulation/", "/client/", "/migrations/", "/legacy/", "test_helpers", "sim_", "/testutil/"} {
				if strings.Contains("/"+rel, skip) {
					return nil
				}
			}
			files = append(files, p)
			return nil
		})
	}
	sort.Strings(files)
	fa.Files = len(files)
	pkgMaps := map[string]map[string]bool{} // pkg dir -> package-level map vars
	for _, p := range files {
		src, _ := os.ReadFile(p)
		h.Write(src)
		f := parseFile(p)
		rel, _ := filepath.Rel(*repo, p)
		dir := filepath.Dir(rel)
		if pkgMaps[dir] == nil {
			pkgMaps[dir] = map[string]bool{}
		}
		for _, d := range f.Decls {
			if gd, ok := d.(*ast.GenDecl); ok && gd.Tok == token.VAR {
				for _, sp := range gd.Specs {
					vs := sp.(*ast.ValueSpec)
					isMap := false
					if _, ok := vs.Type.(*ast.MapType); ok {
						isMap = true
					}
					for _, v := range vs.Values {
						if cl, ok := v.(*ast.CompositeLit); ok {
							if _, ok := cl.Type.(*ast.MapType); ok {
								isMap = true
							}
						}
					}
					if isMap {
						for _, n := range vs.Names {
							pkgMaps[dir][n.Name] = true
						}
					}
				}
			}
		}
	}
	for _, p := range files {
		f := parseFile(p)
		rel, _ := filepath.Rel(*repo, p)
		dir := filepath.Dir(rel)
		for _, d := range f.Decls {
			fd, ok := d.(*ast.FuncDecl)
			if !ok || fd.Body == nil {
				continue
			}
			recv := ""
			if fd.Recv != nil && len(fd.Recv.List) > 0 {
				recv = exprName(fd.Recv.List[0].Type)
			}
			node := dir + ":" + recv + "." + fd.Name.Name
			fa.NodeFile[node] = filepath.Base(rel)
			calls := map[string]bool{}
			effs := map[string]bool{}
			localMaps := map[string]bool{}
			ast.Inspect(fd.Body, func(n ast.Node) bool {
				switch t := n.(type) {
				case *ast.AssignStmt:
					for i, r := range t.Rhs {
						isMap := false
						if c, ok := r.(*ast.CallExpr); ok && exprName(c.Fun) == "make" && len(c.Args) > 0 {
							if _, ok := c.Args[0].(*ast.MapType); ok {
								isMap = true
							}
						}
						if cl, ok := r.(*ast.CompositeLit); ok {
							if _, ok := cl.Type.(*ast.MapType); ok {
								isMap = true
							}
						}
						if isMap && i < len(t.Lhs) {
							localMaps[exprName(t.Lhs[i])] = true
						}
					}
				case *ast.CallExpr:
					full := exprName(t.Fun)
					nm := lastName(t.Fun)
					if nm != "" {
						calls[nm] = true
					}
					switch {
					case full == "time.Now" || full == "time.Since":
						effs["WallClock"] = true
					case strings.HasPrefix(full, "rand."):
						effs["Rand"] = true
					case full == "os.Getenv" || full == "os.LookupEnv":
						effs["Env"] = true
					case full == "panic":
						fa.PanicSites = append(fa.PanicSites, fmt.Sprintf("%s@%d", node, fset.Position(t.Pos()).Line))
					}
					// where does a wall-clock value flow? record the callee that receives time.Now() as an argument
					for _, a := range t.Args {
						if c2, ok := a.(*ast.CallExpr); ok && exprName(c2.Fun) == "time.Now" {
							fa.WallClockArgs[node] = append(fa.WallClockArgs[node], full)
						}
					}
				case *ast.GoStmt:
					effs["Goroutine"] = true
				case *ast.SelectStmt:
					effs["Select"] = true
				case *ast.RangeStmt:
					nm := exprName(t.X)
					if localMaps[nm] || pkgMaps[dir][nm] {
						effs["MapRange"] = true
					}
					if c, ok := t.X.(*ast.CallExpr); ok && lastName(c.Fun) == "GetMaccPerms" {
						effs["MapRange"] = true
					}
				}
				return true
			})
			// wall clock assigned to a variable: record "assigned"
			ast.Inspect(fd.Body, func(n ast.Node) bool {
				if as, ok := n.(*ast.AssignStmt); ok {
					for _, r := range as.Rhs {
						found := false
						ast.Inspect(r, func(m ast.Node) bool {
							if c, ok := m.(*ast.CallExpr); ok && exprName(c.Fun) == "time.Now" {
								found = true
							}
							return true
						})
						if found {
							fa.WallClockArgs[node] = append(fa.WallClockArgs[node], "assigned:"+exprName(as.Lhs[0]))
						}
					}
				}
				return true
			})
			var cs []string
			for c := range calls {
				cs = append(cs, c)
			}
			sort.Strings(cs)
			fa.Graph[node] = cs
			var es []string
			for e := range effs {
				es = append(es, e)
			}
			sort.Strings(es)
			if len(es) > 0 {
				fa.Effects[node] = es
			}

			// ---- per-function facts ----
			if fd.Name.Name == "GetSigners" && recv != "" {
				field := ""
				ast.Inspect(fd.Body, func(n ast.Node) bool {
					if c, ok := n.(*ast.CallExpr); ok && (lastName(c.Fun) == "AccAddressFromBech32" || lastName(c.Fun) == "MustAccAddressFromBech32") && len(c.Args) == 1 {
						if field == "" {
							field = lastName(c.Args[0])
						}
					}
					return true
				})
				fa.GetSigners[filepath.Base(filepath.Dir(dir))+"."+strings.TrimPrefix(recv, "*")] = field
			}
			if fd.Name.Name == "UpdateParams" && recv == "msgServer" {
				ast.Inspect(fd.Body, func(n ast.Node) bool {
					if be, ok := n.(*ast.BinaryExpr); ok && be.Op == token.NEQ {
						l, r := exprName(be.X), exprName(be.Y)
						if (strings.HasSuffix(l, ".authority") && strings.HasSuffix(r, ".Authority")) || (strings.HasSuffix(r, ".authority") && strings.HasSuffix(l, ".Authority")) {
							fa.AuthorityCheck = append(fa.AuthorityCheck, dir)
						}
					}
					return true
				})
			}
			if fd.Name.Name == "SetParams" && recv == "Keeper" {
				ast.Inspect(fd.Body, func(n ast.Node) bool {
					if c, ok := n.(*ast.CallExpr); ok && lastName(c.Fun) == "Validate" {
						fa.SetParamsValid = append(fa.SetParamsValid, dir)
					}
					return true
				})
			}
			// type switches of the fee/ante helpers
			switch fd.Name.Name {
			case "CheckIsWrkChainTx", "CheckIsBeaconTx", "checkWrkchainFees", "checkBeaconFees", "checkWrkChainMaxSlots", "checkBeaconMaxSlots":
				var types []string
				ast.Inspect(fd.Body, func(n ast.Node) bool {
					if cc, ok := n.(*ast.CaseClause); ok {
						for _, e := range cc.List {
							types = append(types, lastName(e))
						}
					}
					return true
				})
				fa.TypeSwitches[fd.Name.Name] = types
			}
			// size limits in the message servers: len(msg.X) > N
			if recv == "msgServer" && (strings.Contains(dir, "wrkchain") || strings.Contains(dir, "beacon")) {
				ast.Inspect(fd.Body, func(n ast.Node) bool {
					if be, ok := n.(*ast.BinaryExpr); ok && be.Op == token.GTR {
						if c, ok := be.X.(*ast.CallExpr); ok && exprName(c.Fun) == "len" {
							if bl, ok := be.Y.(*ast.BasicLit); ok {
								v, _ := strconv.ParseInt(bl.Value, 0, 64)
								key := filepath.Base(filepath.Dir(dir)) + "." + fd.Name.Name
								fa.SizeLimits[key] = append(fa.SizeLimits[key], v)
							}
						}
					}
					return true
				})
			}
			// ValidateBasic of the beacon record message must reject SubmitTime == 0 (the wall-clock default is then dead)
			if fd.Name.Name == "ValidateBasic" && strings.TrimPrefix(recv, "*") == "MsgRecordBeaconTimestamp" {
				ast.Inspect(fd.Body, func(n ast.Node) bool {
					if be, ok := n.(*ast.BinaryExpr); ok && be.Op == token.EQL && strings.HasSuffix(exprName(be.X), ".SubmitTime") && exprName(be.Y) == "0" {
						fa.ValidateBasicNZ = append(fa.ValidateBasicNZ, dir)
					}
					return true
				})
			}
		}
		// integer constants of interest
		for _, d := range f.Decls {
			if gd, ok := d.(*ast.GenDecl); ok && gd.Tok == token.CONST {
				for _, sp := range gd.Specs {
					vs := sp.(*ast.ValueSpec)
					for i, n := range vs.Names {
						switch n.Name {
						case "MaxBlockSubmissionsKeepInState", "MaxHashSubmissionsToExport", "DefaultStorageLimit", "DefaultMaxStorageLimit", "DefaultStartingWrkChainID", "DefaultStartingBeaconID", "DefaultStartingPurchaseOrderID":
							if i < len(vs.Values) {
								if bl, ok := vs.Values[i].(*ast.BasicLit); ok {
									v, _ := strconv.ParseInt(strings.ReplaceAll(bl.Value, "_", ""), 0, 64)
									fa.Consts[filepath.Base(filepath.Dir(dir))+"."+n.Name] = v
								}
							}
						}
					}
				}
			}
		}
	}
	resolve(&fa)
	sort.Strings(fa.PanicSites)
	sort.Strings(fa.AuthorityCheck)
	sort.Strings(fa.SetParamsValid)
	fa.SourceDigest = fmt.Sprintf("%x", h.Sum(nil))

	writeCoq(*out, &fa)
	if *jout != "" {
		bz, _ := json.MarshalIndent(fa, "", " ")
		os.WriteFile(*jout, bz, 0o644)
	}
}

// external names worth tracking as pseudo nodes
var extNames = map[string]bool{"MintCoins": true, "BurnCoins": true, "Set": true, "Delete": true, "SendCoins": true,
	"SendCoinsFromModuleToAccount": true, "SendCoinsFromAccountToModule": true, "SendCoinsFromModuleToModule": true,
	"DelegateCoinsFromAccountToModule": true, "UndelegateCoinsFromModuleToAccount": true}

func bareName(node string) string {
	i := strings.LastIndex(node, ".")
	return node[i+1:]
}

// resolve turns called names into edges: to every repository function with that name (name-based,
// over-approximate) and to "ext:<name>" pseudo nodes for tracked SDK calls not defined in the repository.
func resolve(fa *facts) {
	byName := map[string][]string{}
	for n := range fa.Graph {
		byName[bareName(n)] = append(byName[bareName(n)], n)
	}
	for n, calls := range fa.Graph {
		set := map[string]bool{}
		for _, c := range calls {
			if ts, ok := byName[c]; ok {
				for _, t := range ts {
					set[t] = true
				}
			}
			if extNames[c] {
				set["ext:"+c] = true
			}
		}
		var out []string
		for t := range set {
			out = append(out, t)
		}
		sort.Strings(out)
		fa.Resolved[n] = out
	}
	for n := range fa.Graph {
		b := bareName(n)
		recvIdx := strings.Index(n, ":")
		recv := n[recvIdx+1 : strings.LastIndex(n, ".")]
		file := fa.NodeFile[n]
		switch {
		case b == "BeginBlocker" || b == "EndBlocker" || b == "BeginBlock" || b == "EndBlock" || b == "InitGenesis" || b == "AnteHandle":
			fa.RootsConsensus = append(fa.RootsConsensus, n)
		case recv == "msgServer":
			fa.RootsConsensus = append(fa.RootsConsensus, n)
		case (file == "grpc_query.go" || file == "query_streams.go" || file == "query.go" || file == "query_params.go") && recv == "Keeper":
			fa.RootsQuery = append(fa.RootsQuery, n)
		}
	}
	sort.Strings(fa.RootsConsensus)
	sort.Strings(fa.RootsQuery)
	fa.ReachConsensus = reach(fa.Resolved, fa.RootsConsensus)
	fa.ReachQuery = reach(fa.Resolved, fa.RootsQuery)
}

func reach(g map[string][]string, roots []string) []string {
	seen := map[string]bool{}
	stack := append([]string{}, roots...)
	for len(stack) > 0 {
		n := stack[len(stack)-1]
		stack = stack[:len(stack)-1]
		if seen[n] {
			continue
		}
		seen[n] = true
		stack = append(stack, g[n]...)
	}
	var out []string
	for n := range seen {
		out = append(out, n)
	}
	sort.Strings(out)
	return out
}

func q(s string) string { return "\"" + strings.ReplaceAll(s, "\"", "\"\"") + "\"" }

func strList(xs []string) string {
	var p []string
	for _, x := range xs {
		p = append(p, q(x))
	}
	return "[" + strings.Join(p, "; ") + "]"
}

func sortedKeys[V any](m map[string]V) []string {
	var ks []string
	for k := range m {
		ks = append(ks, k)
	}
	sort.Strings(ks)
	return ks
}

var repoRoot = "/repo"

func writeCoq(path string, fa *facts) {
	var sb strings.Builder
	sb.WriteString("(* GENERATED by /verif/translator from /repo's working tree on every check. Do not edit. *)\n")
	sb.WriteString("From Coq Require Import List String ZArith.\nImport ListNotations.\nOpen Scope string_scope.\n\n")
	for _, mod := range sortedKeys(fa.Prefixes) {
		var items []string
		for _, k := range sortedKeys(fa.Prefixes[mod]) {
			var bs []string
			for _, b := range fa.Prefixes[mod][k] {
				bs = append(bs, fmt.Sprintf("%d%%N", b))
			}
			items = append(items, fmt.Sprintf("(%s, [%s])", q(k), strings.Join(bs, "; ")))
		}
		sb.WriteString(fmt.Sprintf("Definition prefixes_%s : list (string * list N) :=\n  [%s].\n\n", mod, strings.Join(items, ";\n   ")))
	}
	var mp []string
	for _, k := range sortedKeys(fa.MaccPerms) {
		mp = append(mp, fmt.Sprintf("(%s, %s)", q(k), strList(fa.MaccPerms[k])))
	}
	sb.WriteString("Definition macc_perms : list (string * list string) :=\n  [" + strings.Join(mp, ";\n   ") + "].\n\n")
	sb.WriteString("Definition blocked_removed : list string := " + strList(fa.BlockedRemoved) + ".\n")
	sb.WriteString("Definition ante_order : list string :=\n  " + strList(fa.AnteOrder) + ".\n")
	sb.WriteString("Definition begin_blockers : list string := " + strList(fa.BeginBlockers) + ".\n")
	sb.WriteString("Definition end_blockers : list string := " + strList(fa.EndBlockers) + ".\n")
	sb.WriteString("Definition genesis_order : list string := " + strList(fa.GenesisOrder) + ".\n")
	sb.WriteString("Definition store_keys : list string := " + strList(fa.StoreKeys) + ".\n")
	sb.WriteString("Definition enterprise_beginblocker_calls : list string := " + strList(fa.EntBeginCalls) + ".\n")
	var ts []string
	for _, k := range sortedKeys(fa.TypeSwitches) {
		ts = append(ts, fmt.Sprintf("(%s, %s)", q(k), strList(fa.TypeSwitches[k])))
	}
	sb.WriteString("Definition type_switches : list (string * list string) :=\n  [" + strings.Join(ts, ";\n   ") + "].\n")
	var gs []string
	for _, k := range sortedKeys(fa.GetSigners) {
		gs = append(gs, fmt.Sprintf("(%s, %s)", q(k), q(fa.GetSigners[k])))
	}
	sb.WriteString("Definition get_signers_field : list (string * string) :=\n  [" + strings.Join(gs, ";\n   ") + "].\n")
	sb.WriteString("Definition authority_checked : list string := " + strList(fa.AuthorityCheck) + ".\n")
	sb.WriteString("Definition setparams_validates : list string := " + strList(fa.SetParamsValid) + ".\n")
	sb.WriteString("Definition validate_basic_rejects_zero_submit_time : list string := " + strList(fa.ValidateBasicNZ) + ".\n")
	var cs []string
	for _, k := range sortedKeys(fa.Consts) {
		cs = append(cs, fmt.Sprintf("(%s, %d%%Z)", q(k), fa.Consts[k]))
	}
	sb.WriteString("Definition consts : list (string * Z) :=\n  [" + strings.Join(cs, "; ") + "].\n")
	var sl []string
	for _, k := range sortedKeys(fa.SizeLimits) {
		var vs []string
		for _, v := range fa.SizeLimits[k] {
			vs = append(vs, fmt.Sprintf("%d%%Z", v))
		}
		sl = append(sl, fmt.Sprintf("(%s, [%s])", q(k), strings.Join(vs, "; ")))
	}
	sb.WriteString("Definition size_limits : list (string * list Z) :=\n  [" + strings.Join(sl, ";\n   ") + "].\n")
	sb.WriteString("Definition panic_sites : list string :=\n  " + strList(fa.PanicSites) + ".\n")
	var wc []string
	for _, k := range sortedKeys(fa.WallClockArgs) {
		wc = append(wc, fmt.Sprintf("(%s, %s)", q(k), strList(fa.WallClockArgs[k])))
	}
	sb.WriteString("Definition wallclock_flows_to : list (string * list string) :=\n  [" + strings.Join(wc, ";\n   ") + "].\n")
	var ef []string
	for _, k := range sortedKeys(fa.Effects) {
		ef = append(ef, fmt.Sprintf("(%s, %s)", q(k), strList(fa.Effects[k])))
	}
	sb.WriteString("Definition effects : list (string * list string) :=\n  [" + strings.Join(ef, ";\n   ") + "].\n")
	sb.WriteString("Definition process_state : list string :=\n  " + strList(processState(repoRoot)) + ".\n")
	sb.WriteString("Definition aliasing_sites : list string :=\n  " + strList(aliasingSites(repoRoot)) + ".\n")
	sb.WriteString("Definition roots_consensus : list string :=\n  " + strList(fa.RootsConsensus) + ".\n")
	sb.WriteString("Definition roots_query : list string :=\n  " + strList(fa.RootsQuery) + ".\n")
	sb.WriteString("Definition reach_consensus : list string :=\n  " + strList(fa.ReachConsensus) + ".\n")
	sb.WriteString("Definition reach_query : list string :=\n  " + strList(fa.ReachQuery) + ".\n")
	var gr []string
	for _, k := range sortedKeys(fa.Resolved) {
		gr = append(gr, fmt.Sprintf("(%s, %s)", q(k), strList(fa.Resolved[k])))
	}
	sb.WriteString("Definition callgraph : list (string * list string) :=\n  [" + strings.Join(gr, ";\n   ") + "].\n")
	os.WriteFile(path, []byte(sb.String()), 0o644)
}

// writeFns translates the pure stream functions into Gallina (coq/GeneratedFns.v)
func writeFns(repo, out string) {
	f := parseFile(filepath.Join(repo, "x", "stream", "types", "utils.go"))
	var sb strings.Builder
	sb.WriteString("(* GENERATED by /verif/translator (gofn.go) from /repo/x/stream/types/utils.go on every check. Do not edit.\n")
	sb.WriteString("   Each Go function is rendered in the Gallina subset described in translator/gofn.go; the cosmos-sdk calls are the\n")
	sb.WriteString("   functions of lib/GoSdk.v.  proofs/GeneratedFnsEq.v proves them equal to the hand-written model functions. *)\n")
	sb.WriteString("From MC Require Import lib.Prelude lib.GoSdk.\nOpen Scope Z_scope.\n\n")
	for _, want := range []string{"CalculateDuration", "CalculateAmountToClaim", "CalculateValidatorFee"} {
		found := false
		for _, d := range f.Decls {
			if fd, ok := d.(*ast.FuncDecl); ok && fd.Name.Name == want {
				found = true
				def, errs := translateFunc(fd)
				if len(errs) > 0 {
					sb.WriteString("(* NOT TRANSLATED " + want + ": " + strings.Join(errs, "; ") + " *)\n\n")
				} else {
					sb.WriteString(def + "\n")
				}
			}
		}
		if !found {
			sb.WriteString("(* NOT FOUND " + want + " *)\n\n")
		}
	}
	os.WriteFile(out, []byte(sb.String()), 0o644)
}
