package main

// A small Go -> Gallina translator for the pure functions the stream arithmetic rests on
// (x/stream/types/utils.go).  Supported subset: parameters and locals of type int64 / sdk.Int / sdk.Dec /
// sdk.Coin / sdk.DecCoin / time.Time / bool; `var x T`; `:=` and `=` assignments of one value; `if` / `else`
// (fall-through handled by duplicating the continuation into both branches); `return` of one or two values;
// integer arithmetic and comparisons; the cosmos-sdk calls listed in callTable / methodTable, each mapped to a
// function of coq/lib/GoSdk.v.  Calls that can panic return an `outcome` and are sequenced with `do`.
// Anything else makes the translation fail - which shows up as a broken proof obligation, as it should.

import (
	"fmt"
	"go/ast"
	"go/token"
	"strings"
)

type gtype string

const (
	tInt64   gtype = "int64"
	tUint64  gtype = "uint64"
	tInt     gtype = "Int"
	tDec     gtype = "Dec"
	tCoin    gtype = "Coin"
	tDecCoin gtype = "DecCoin"
	tTime    gtype = "Time"
	tBool    gtype = "bool"
	tString  gtype = "string"
	tUnknown gtype = "?"
)

func coqType(t gtype) string {
	switch t {
	case tInt64, tUint64, tInt, tDec, tDecCoin, tTime:
		return "Z"
	case tCoin:
		return "go_coin"
	case tBool:
		return "bool"
	case tString:
		return "go_denom"
	}
	return "?"
}

func goTypeOf(e ast.Expr) gtype {
	switch exprName(e) {
	case "int64":
		return tInt64
	case "uint64":
		return tUint64
	case "sdk.Int":
		return tInt
	case "sdk.Dec":
		return tDec
	case "sdk.Coin":
		return tCoin
	case "sdk.DecCoin":
		return tDecCoin
	case "time.Time":
		return tTime
	case "bool":
		return tBool
	case "string":
		return tString
	}
	return tUnknown
}

type fnTrans struct {
	env   map[string]gtype
	fresh int
	errs  []string
}

type binding struct{ name, rhs string }

func (ft *fnTrans) fail(format string, a ...interface{}) {
	ft.errs = append(ft.errs, fmt.Sprintf(format, a...))
}

func (ft *fnTrans) tmp() string {
	ft.fresh++
	return fmt.Sprintf("t%d_", ft.fresh)
}

// pure calls: Go name -> (Coq function, result type)
var callTable = map[string]struct {
	coq  string
	res  gtype
	pure bool
}{
	"sdk.NewInt":             {"sdk_NewInt", tInt, true},
	"sdk.NewIntFromUint64":   {"sdk_NewIntFromUint64", tInt, true},
	"sdk.NewDecFromInt":      {"sdk_NewDecFromInt", tDec, true},
	"sdk.NewDecCoinFromCoin": {"sdk_NewDecCoinFromCoin_Amount", tDecCoin, false},
	"sdk.NewCoin":            {"sdk_NewCoin", tCoin, false},
}

type methodKey struct {
	recv gtype
	name string
}

var methodTable = map[methodKey]struct {
	coq  string
	res  gtype
	pure bool
}{
	{tInt, "GT"}: {"Int_GT", tBool, true}, {tInt, "LT"}: {"Int_LT", tBool, true}, {tInt, "Mul"}: {"Int_Mul", tInt, true},
	{tInt, "IsZero"}: {"Int_IsZero", tBool, true},
	{tDec, "GT"}:     {"Dec_GT", tBool, true}, {tDec, "QuoTruncateMut"}: {"Dec_QuoTruncate", tDec, true},
	{tDec, "QuoTruncate"}: {"Dec_QuoTruncate", tDec, true}, {tDec, "Mul"}: {"Dec_Mul", tDec, true},
	{tDec, "TruncateInt"}: {"Dec_TruncateInt", tInt, true}, {tDec, "TruncateInt64"}: {"Dec_TruncateInt64", tInt64, false},
	{tCoin, "Sub"}:  {"Coin_Sub", tCoin, false},
	{tTime, "Unix"}: {"Time_Unix", tInt64, true}, {tTime, "Nanosecond"}: {"Time_Nanosecond", tInt64, true},
	{tTime, "After"}: {"Time_After", tBool, true}, {tTime, "Before"}: {"Time_Before", tBool, true}, {tTime, "Equal"}: {"Time_Equal", tBool, true},
}

// expr translates an expression; impure sub-calls are hoisted into bindings (A-normal form)
func (ft *fnTrans) expr(e ast.Expr) (pre []binding, val string, typ gtype) {
	switch t := e.(type) {
	case *ast.ParenExpr:
		return ft.expr(t.X)
	case *ast.Ident:
		if t.Name == "true" || t.Name == "false" {
			return nil, t.Name, tBool
		}
		ty, ok := ft.env[t.Name]
		if !ok {
			ft.fail("unknown identifier %s", t.Name)
		}
		return nil, t.Name, ty
	case *ast.BasicLit:
		if t.Kind == token.INT {
			return nil, t.Value, tInt64
		}
		ft.fail("unsupported literal %s", t.Value)
		return nil, "?", tUnknown
	case *ast.SelectorExpr:
		p, v, ty := ft.expr(t.X)
		switch {
		case ty == tCoin && t.Sel.Name == "Amount":
			return p, "(Coin_Amount " + v + ")", tInt
		case ty == tCoin && t.Sel.Name == "Denom":
			return p, "(Coin_Denom " + v + ")", tString
		case ty == tDecCoin && t.Sel.Name == "Amount":
			return p, v, tDec
		}
		ft.fail("unsupported field %s on %s", t.Sel.Name, ty)
		return p, "?", tUnknown
	case *ast.BinaryExpr:
		p1, a, ta := ft.expr(t.X)
		p2, b, tb := ft.expr(t.Y)
		pre = append(p1, p2...)
		switch t.Op {
		case token.LOR:
			return pre, "(" + a + " || " + b + ")", tBool
		case token.LAND:
			return pre, "(" + a + " && " + b + ")", tBool
		}
		if (ta != tInt64 && ta != tUint64) || (tb != tInt64 && tb != tUint64) {
			ft.fail("binary %s on %s, %s", t.Op, ta, tb)
		}
		switch t.Op {
		case token.SUB:
			return pre, "(i64_sub " + a + " " + b + ")", tInt64
		case token.ADD:
			return pre, "(i64_add " + a + " " + b + ")", tInt64
		case token.MUL:
			return pre, "(i64_mul " + a + " " + b + ")", tInt64
		case token.LSS:
			return pre, "(" + a + " <? " + b + ")", tBool
		case token.LEQ:
			return pre, "(" + a + " <=? " + b + ")", tBool
		case token.GTR:
			return pre, "(" + b + " <? " + a + ")", tBool
		case token.GEQ:
			return pre, "(" + b + " <=? " + a + ")", tBool
		case token.EQL:
			return pre, "(" + a + " =? " + b + ")", tBool
		}
		ft.fail("unsupported operator %s", t.Op)
		return pre, "?", tUnknown
	case *ast.CallExpr:
		name := exprName(t.Fun)
		// conversions
		if name == "uint64" || name == "int64" {
			p, v, ty := ft.expr(t.Args[0])
			switch {
			case name == "uint64" && ty == tInt64:
				return p, "(go_uint64_of_int64 " + v + ")", tUint64
			case name == "int64" && ty == tUint64:
				return p, "(go_int64_of_uint64 " + v + ")", tInt64
			case name == "int64" && ty == tInt64:
				return p, v, tInt64
			}
			ft.fail("unsupported conversion %s(%s)", name, ty)
			return p, "?", tUnknown
		}
		var args []string
		for _, a := range t.Args {
			p, v, _ := ft.expr(a)
			pre = append(pre, p...)
			args = append(args, v)
		}
		if ct, ok := callTable[name]; ok {
			call := "(" + ct.coq + " " + strings.Join(args, " ") + ")"
			if ct.pure {
				return pre, call, ct.res
			}
			tn := ft.tmp()
			return append(pre, binding{tn, call}), tn, ct.res
		}
		if sel, ok := t.Fun.(*ast.SelectorExpr); ok {
			p, recv, rty := ft.expr(sel.X)
			pre = append(p, pre...)
			if mt, ok := methodTable[methodKey{rty, sel.Sel.Name}]; ok {
				call := "(" + mt.coq + " " + strings.Join(append([]string{recv}, args...), " ") + ")"
				if mt.pure {
					return pre, call, mt.res
				}
				tn := ft.tmp()
				return append(pre, binding{tn, call}), tn, mt.res
			}
			ft.fail("unsupported method %s.%s", rty, sel.Sel.Name)
			return pre, "?", tUnknown
		}
		ft.fail("unsupported call %s", name)
		return pre, "?", tUnknown
	}
	ft.fail("unsupported expression %T", e)
	return nil, "?", tUnknown
}

func wrap(pre []binding, body string) string {
	for i := len(pre) - 1; i >= 0; i-- {
		body = "do " + pre[i].name + " <- " + pre[i].rhs + ";\n" + body
	}
	return body
}

// stmts translates a statement list followed by the continuation rest (Go statements still to run)
func (ft *fnTrans) stmts(list []ast.Stmt, nres int) string {
	if len(list) == 0 {
		ft.fail("control reaches the end of the function without return")
		return "?"
	}
	s, rest := list[0], list[1:]
	switch t := s.(type) {
	case *ast.ReturnStmt:
		var pre []binding
		var vals []string
		for _, r := range t.Results {
			p, v, _ := ft.expr(r)
			pre = append(pre, p...)
			vals = append(vals, v)
		}
		if len(vals) == 1 {
			return wrap(pre, "Ok "+vals[0])
		}
		return wrap(pre, "Ok ("+strings.Join(vals, ", ")+")")
	case *ast.DeclStmt:
		gd := t.Decl.(*ast.GenDecl)
		out := ""
		for _, sp := range gd.Specs {
			vs := sp.(*ast.ValueSpec)
			ty := goTypeOf(vs.Type)
			for _, n := range vs.Names {
				ft.env[n.Name] = ty
				zero := "0"
				if ty == tCoin {
					zero = "go_zero_coin"
				}
				out += "let " + n.Name + " := " + zero + " in\n"
			}
		}
		return out + ft.stmts(rest, nres)
	case *ast.AssignStmt:
		if len(t.Lhs) != 1 || len(t.Rhs) != 1 {
			ft.fail("unsupported multi-assignment")
			return "?"
		}
		name := exprName(t.Lhs[0])
		pre, v, ty := ft.expr(t.Rhs[0])
		ft.env[name] = ty
		return wrap(pre, "let "+name+" := "+v+" in\n"+ft.stmts(rest, nres))
	case *ast.IfStmt:
		if t.Init != nil {
			ft.fail("if with init statement")
		}
		pre, c, _ := ft.expr(t.Cond)
		saved := map[string]gtype{}
		for k, v := range ft.env {
			saved[k] = v
		}
		thenS := ft.stmts(append(append([]ast.Stmt{}, t.Body.List...), rest...), nres)
		ft.env = saved
		var elseList []ast.Stmt
		if t.Else != nil {
			switch e := t.Else.(type) {
			case *ast.BlockStmt:
				elseList = e.List
			case *ast.IfStmt:
				elseList = []ast.Stmt{e}
			}
		}
		saved2 := map[string]gtype{}
		for k, v := range ft.env {
			saved2[k] = v
		}
		elseS := ft.stmts(append(append([]ast.Stmt{}, elseList...), rest...), nres)
		ft.env = saved2
		return wrap(pre, "if "+c+" then (\n"+thenS+")\nelse (\n"+elseS+")")
	}
	ft.fail("unsupported statement %T", s)
	return "?"
}

// translateFunc renders one Go function as a Gallina definition named go_<name>
func translateFunc(fd *ast.FuncDecl) (string, []string) {
	ft := &fnTrans{env: map[string]gtype{}}
	var params []string
	for _, f := range fd.Type.Params.List {
		ty := goTypeOf(f.Type)
		if ty == tUnknown {
			ft.fail("parameter type %s", exprName(f.Type))
		}
		for _, n := range f.Names {
			ft.env[n.Name] = ty
			params = append(params, fmt.Sprintf("(%s : %s)", n.Name, coqType(ty)))
		}
	}
	var res []string
	if fd.Type.Results != nil {
		for _, f := range fd.Type.Results.List {
			res = append(res, coqType(goTypeOf(f.Type)))
		}
	}
	rt := strings.Join(res, " * ")
	if len(res) > 1 {
		rt = "(" + rt + ")"
	}
	body := ft.stmts(fd.Body.List, len(res))
	def := fmt.Sprintf("Definition go_%s %s : outcome %s :=\n%s.\n", fd.Name.Name, strings.Join(params, " "), rt, body)
	return def, ft.errs
}
