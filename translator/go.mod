module vtranslate

go 1.22
