import json,glob
rows=[]
n=dict(caught=0,obl=0,missed=0); n2=dict(caught=0,obl=0,missed=0)
def cls(v):
    if v is None: return None
    if v.startswith("caught"): return "caught"
    if v.startswith("missed"): return "missed"
    return "obl"
def how(txt):
    import re
    m=re.search(r"corr-disagreements (\d+), monitor-failures (\d+)",txt or "")
    if not m: return ""
    c,mo=int(m.group(1)),int(m.group(2))
    if mo>0: return "caught (monitor)"
    if c>0: return "caught by the correspondence only (a history on which model and implementation differ)"
    return "broken obligations, no failing input"
for f in sorted(glob.glob('/verif/seeded/*/meta.json')):
    m=json.load(open(f))
    if m.get("round")!=9: continue
    n[cls(m["first_result"])]+=1; n2[cls(m["after_strengthening"])]+=1
    rows.append("| %s: %s | %s | %s | %s | %s |"%(m["property"],m["change"],m["needs_to_manifest"],how(m["first_check_output"]) if cls(m["first_result"])!="missed" else "**missed**",m.get("added_to_machinery") or "-",how(m["final_check_output"])))
text='''**Round 9** (eight fresh agents for the properties round 8 left out: C04 C09 C10 C11 C13 C16 C18 C19; same restriction
as round 8).  All eight confirmed, **none missed** by the machinery as committed before the round: 3 reported by a monitor
with a concrete input (C10, C11, C19), 3 by the correspondence only (C04, C13, C16), 2 through broken obligations only
(C09, C18).  After the additions all eight are reported by a monitor or scenario with a concrete failing input.

| seeded change | needs | first result | what was added | final |
|---|---|---|---|---|
%s

What this round showed.  (1) `C18-prune-range-from-section-start` broke 59 of C18's 394 obligations at once (the
translated `deleteBeaconTimestamp` no longer equals the single-key delete the store theorems are about) but produced no
failing input: the store harness drove the *exported* accessors only, and pruning is reachable only through the record
path.  The retention path is now driven in the store harness with several registrations at their limit.  (2) Four of
the five non-monitor cases needed *two things in one block or one transaction* - a whitelist removal in the block of the
acceptance, two registrations with one moniker, an own record beside a forged nested one - confirming round 8: the
per-block and per-transaction combinations are where designated scenarios earn their keep.  (3) `C16-validatebasic-
default-max` is a *liveness* direction of C16 ("uses the new values and only the new values" also means a purchase legal
under the new maximum is admitted); the monitors only looked for admissions that should have been refusals.

'''%("\n".join(rows))
p='/verif/DESIGN.md'; s=open(p).read()
marker='### 0.5 Trusted base as built'
assert marker in s and '**Round 9**' not in s
s=s.replace(marker,text+marker,1)
open(p,'w').write(s)
print(n,n2)
