import json,os,sys
info={
"C01-restart-resaves-module-accounts":("C01","NewApp re-applies maccPerms to every stored module account on start-up (loadLatest) through an UNCACHED context: a node that restarts writes to its store outside any block","one of two nodes restarts between two blocks: its store / app hash differs from the node that kept running"),
"C02-zero-height-export-settles-orders":("C02","the zero-height export (prepForZeroHeightGenesis) settles accepted purchase orders - mints and locks them - so that no order is left 'in flight' in the exported genesis","und export --for-zero-height taken in the one-block window between the tally accepting an order and BeginBlock minting it: the exported supply exceeds the chain's"),
"C03-export-counter-from-count":("C03","enterprise ExportGenesis derives StartingPurchaseOrderId from the NUMBER of exported orders (+1) instead of the stored counter; ValidateGenesis checks the same","a chain whose order numbering did not start at 1 (restarted from an export, starting id set in genesis): after export + import the next order re-uses the id of an existing one and overwrites it"),
"C04-export-skips-spent-of-emptied":("C04","enterprise ExportGenesis walks the locked records only, skips zero ones and looks up the spent record per locked owner: the spent record of an account that has used ALL its eFUND is not exported","an account whose locked eFUND is exactly 0 with spent > 0, then export + import: its spent entry is gone while total spent still counts it"),
"C05-last-message-decides-registry-tx":("C05","CheckIsWrkChainTx / CheckIsBeaconTx were refactored around a per-message predicate; the loop ASSIGNS the result per message, so only the LAST message decides whether a transaction is a registry transaction","a registry message followed by any other message in one transaction (or the reverse): no fee check / no unlock although a registry message is carried, and vice versa"),
"C06-fee-decorator-switch-first-module":("C06","the two fee decorators are wrapped in one dispatching decorator (switch: WRKChain tx -> WRKChain fee check; else BEACON tx -> BEACON fee check): a transaction carrying messages of both modules is only ever checked by the first","a transaction mixing WRKChain and BEACON messages whose fee equals the WRKChain share only: admitted by CheckTx (the listed mixed-module finding refuses it for the wrong reason; here it is ADMITTED under-priced)"),
"C07-import-skips-unvalidated-wrkchain":("C07","wrkchain InitGenesis skips a record whose WrkChain fails a new per-record validation that demands a non-empty base type (legal at registration)","a WRKChain registered without a base type, with recorded hashes, then export + import: the WRKChain and every hash recorded for it are gone"),
"C08-export-stale-lowest-height":("C08","wrkchain ExportGenesis hoists numBlocks / lowestHeight out of the per-WRKChain loop: a WRKChain with no blocks in state inherits the previous one's values","two WRKChains, the second without records (or pruned differently), then export + import: counters of the second disagree with its store"),
"C09-validatebasic-trims-in-place":("C09","MsgRegisterWrkChain / MsgRegisterBeacon ValidateBasic get pointer receivers and trim moniker and name in place: what is stored is not what was signed","a registration whose moniker or name has leading / trailing white space: stored trimmed (and the size limits are checked on the trimmed value)"),
"C10-fee-split-basis-points":("C10","the validator fee of a claim is computed in basis points (rate*10000 truncated, then amount*bps/10000) instead of amount*rate truncated","any fee rate with more than four decimals (0.333333333333333333, 0.999999999999999999): the collector gets less, the receiver more than floor(release x rate)"),
"C12-key-parse-assumes-equal-lengths":("C12","AddressesFromStreamKey takes the receiver length byte and slices the sender as the LAST that-many bytes of the key","a stream between addresses of different lengths (20-byte receiver, 32-byte sender): listings and the export name a fabricated sender; after import the stream sits under another pair"),
"C13-export-starting-id-off-by-one":("C13","wrkchain ExportGenesis exports the HIGHEST EXISTING id as StartingWrkchainId instead of the stored next-id counter (ValidateGenesis adjusted to agree)","export + import of a chain with at least one WRKChain: the next registration re-uses the id of the last existing WRKChain and takes it over (owner replaced, the old owner refused)"),
"C14-import-fasttrack-lost-status":("C14","enterprise InitGenesis 'fast-tracks' raised orders that already carry enough accept decisions to accepted at import","export taken while an order has enough accepts but the tally has not yet run (same block), then import: status changes outside any transaction / begin blocker; with an invalid purchaser the next BeginBlock fails"),
"C15-import-validates-finished-stream":("C15","stream InitGenesis validates every exported stream (non-zero deposit, flow rate, times in order) and panics otherwise","a stream that has run dry or was created with values the new validation refuses, then export + import: InitChain panics"),
"C16-fee-bound-on-truncated-percent":("C16","stream Params.Validate bounds the validator fee by its TRUNCATED percentage (<= 100) instead of the decimal (<= 1)","a governance update to a fee in (1.00, 1.01): accepted; a later claim pays the collector more than the release (bank error / negative receiver share)"),
"C17-supplyof-key-seek":("C17","enterprise SupplyOf is served as a one-entry page of the TotalSupply listing, seeking to the requested denomination by page key","a denomination nothing was issued in: the page starts at the NEXT stored denomination and its amount is reported under the requested name"),
"C18-trimprefix-length-byte":("C18","AddressesFromStreamKey accepts keys with or without the 0x11 store prefix via bytes.TrimPrefix; the list queries now pass the prefix-less key","a receiver address of 17 (= 0x11) bytes: its length byte is taken for the store prefix and stripped - the list queries panic or name fabricated addresses"),
"C20-offset-to-key-seek":("C20","WrkChainsFiltered turns a plain offset into a key seek to id DefaultStartingWrkChainID + offset","a chain whose WRKChain numbering does not start at 1: every offset page starts at the wrong record (items repeated or skipped)"),
}
first=sys.argv[1]; seconds=sys.argv[2:]
def parse(path,res=None):
    res={} if res is None else res; cur=None
    for l in open(path):
        l=l.rstrip("\n")
        if l.startswith("=== "): cur=l.split()[1]; res[cur]=[]
        elif cur and l.strip() and l!="DONE": res[cur].append(l)
    return res
f=parse(first); s2={}
for s in seconds: parse(s,s2)
added=json.load(open('/tmp/kdev/added7.json'))
for sid,(prop,change,needs) in info.items():
    d='/verif/seeded/'+sid
    logs={}
    for n in ("demo_with.log","demo_without.log","suite_with.log"):
        p=os.path.join(d,n)
        if os.path.exists(p): logs[n]=open(p).read()[-600:]
    fr="\n".join(f.get(sid,[])); sr="\n".join(s2.get(sid,[]))
    def verdict(txt):
        if "exit 0" in txt: return "missed"
        if "monitor-failures 0" in txt and "no-failing-input-found" in txt: return "broken obligation / correspondence only (no failing input found)"
        return "caught with a failing input"
    meta={"id":sid,"round":7,"property":prop,"restriction":"glue code only: the agent was told to change code OUTSIDE the keeper / message-server / validation functions (genesis import and export, ante wiring, app.go, query handlers, key parsing, message methods), given the property text, the ideas already tried for that property and the over-used mechanism classes to avoid","change":change,"needs_to_manifest":needs,
          "first_result":verdict(fr),"first_check_output":fr,
          "after_strengthening":verdict(sr) if sr else None,"final_check_output":sr or None,
          "added_to_machinery":added.get(sid),
          "confirmed":{"builds":True,"existing_suite_with_change":"all packages ok","demo_with_change":"FAIL","demo_without_change":"ok"},
          "ran":"bin/vseed-confirm <worktree> <id>, then bin/vseed-check-wt <worktree> <id> <property> in a clone of /verif (VROOT), against the patched scratch worktree (VERIF_REPO); first = the machinery as committed before the round, final = after the additions","logs":logs}
    json.dump(meta,open(os.path.join(d,"meta.json"),"w"),indent=1)
    print(sid, meta["first_result"], "|", meta["after_strengthening"])
