import json,os,sys
info={
"C01-counter-bumped-in-shared-slice":("C01","RegisterNewWrkChain reserves the id through a new ReserveWrkChainID which encodes id+1 INTO the byte slice store.Get returned (shared with the cache layers and the IAVL node cache): the counter is bumped in process memory even when the surrounding execution is discarded","a registration executed in a discarded branch (Simulate, a reverted multi-message transaction) on one node only, or followed by a restart of one node: the next registration gets a different id / app hash on the two nodes"),
"C02-mint-rechecks-quorum":("C02","ProcessAcceptedPurchaseOrders re-checks the quorum against the CURRENT signers before minting and skips the mint when it no longer holds - after the order was already stored as completed","a governance change of the signer list (or of min_accepts) in the one block between tally and mint: the order completes, nothing is minted"),
"C03-queue-walk-default-page":("C03","the raised / accepted queues are walked through query.Paginate with a nil page request, which silently means the first 100 entries","more than 100 orders in the raised queue (or more than 100 accepted in one block): an order with quorum behind them is not accepted / completed in time"),
"C05-unlock-for-fee-granter":("C05","CheckLockedUndDecorator unlocks for the fee GRANTER when one is set instead of the fee payer","a registry transaction sent with a feegrant fee granter who holds locked eFUND: the granter's locked eFUND is spent, the payer's is untouched"),
"C06-flatten-exec-append-alias":("C06","the fee decorators flatten authz MsgExec into the message list ('charge nested registry messages') with append(append(msgs[:i], inner...), msgs[i+1:]...): the inner messages overwrite the top-level messages that follow the exec","a transaction [MsgExec{two or more messages}, registry message]: the registry message is never seen by the fee check and is admitted at any fee"),
"C07-ante-height-check-weak-handler":("C07","a new ante check rejects stale WRKChain heights for top-level messages; the message server is weakened to 'not already recorded' (two cooperating edits)","two record messages in one transaction in descending order, or a stale height nested in MsgExec: accepted, the cursor moves back and later records overwrite existing ones"),
"C08-ante-sums-into-live-message":("C08","the ante max-slots check sums the slot numbers of one transaction's purchase messages INTO the first message object, which DeliverTx then executes","two purchase messages for the same WRKChain / BEACON in one transaction: the limit rises by (a+b)+b"),
"C12-hasexpired-split-boundary":("C12","AddDeposit is split into 'settle' (now >= zero time) and 'extend' (zero time strictly before now) steps through a new Stream.HasExpired helper: at zero time == now with an empty deposit the last-outflow time is not reset","a drained stream whose sender updates the flow rate and tops up in the SAME block: the next claim / cancel treats the idle period as flowed, the cancel refunds 0"),
"C14-tally-accept-then-reject":("C14","TallyPurchaseOrderDecisions: the accept and reject branches are merged into a shared tail without the early continue; an order meeting both thresholds is queued as accepted and then stored as rejected","governance shrinks the signer list while an order holds an accept and a reject: two blocks later BeginBlock panics (status is not accepted), the chain halts"),
"C15-prune-before-write-limit-one":("C15","RecordNewWrkchainHashes prunes the oldest hash BEFORE writing the new one and recomputes LowestHeight from the store in between","a WRKChain with an in-state limit of exactly 1 (DefaultStorageLimit set to 1 by governance): LowestHeight is stored as 0 with a hash in state; the exported document and the chain disagree, pruning stops"),
"C17-uint64-saturation-off-by-one":("C17","EnterpriseSupply converts amounts through a saturating helper whose guard is BitLen >= 64 instead of > 64","bank supply, locked or unlocked amount in [2^63, 2^64): reported as 2^64-1"),
"C20-count-pass-reuses-closure":("C20","BeaconsFiltered / WrkChainsFiltered run a second counting pass for count_total on key-paginated requests, re-using the accumulating callback","a request combining a continuation key with count_total=true: the first matching record is appended to the page again"),
}
first=sys.argv[1]; seconds=sys.argv[2:]
def parse(path,res=None):
    res={} if res is None else res; cur=None
    for l in open(path):
        l=l.rstrip("\n")
        if l.startswith("=== "): cur=l.split()[1]; res[cur]=[]
        elif cur and l.strip() and l!="DONE": res[cur].append(l)
    return res
f=parse(first); s2={}
for s in seconds: parse(s,s2)
added=json.load(open('/tmp/kdev/added8.json'))
for sid,(prop,change,needs) in info.items():
    d='/verif/seeded/'+sid
    logs={}
    for n in ("demo_with.log","demo_without.log","suite_with.log"):
        p=os.path.join(d,n)
        if os.path.exists(p): logs[n]=open(p).read()[-600:]
    fr="\n".join(f.get(sid,[])); sr="\n".join(s2.get(sid,[]))
    def verdict(txt):
        if "exit 0" in txt: return "missed"
        if "monitor-failures 0" in txt and "no-failing-input-found" in txt: return "broken obligation / correspondence only (no failing input found)"
        return "caught with a failing input"
    meta={"id":sid,"round":8,"property":prop,"restriction":"free location except genesis export / import (exhausted); the TRIGGER had to be something random single-signer single-message traffic on a fresh chain is unlikely to produce (MsgExec nesting, feegrant, multi-message transactions, module / vesting accounts, the block of a governance change, restarts, pagination flag combinations, more than 100 entities, pruning boundaries, same-block operations, amounts from 2^63); given the property text, the ideas already tried and the over-used mechanism classes to avoid","change":change,"needs_to_manifest":needs,
          "first_result":verdict(fr),"first_check_output":fr,
          "after_strengthening":verdict(sr) if sr else None,"final_check_output":sr or None,
          "added_to_machinery":added.get(sid),
          "confirmed":{"builds":True,"existing_suite_with_change":"all packages ok","demo_with_change":"FAIL","demo_without_change":"ok"},
          "ran":"bin/vseed-confirm <worktree> <id>, then bin/vseed-check-wt <worktree> <id> <property> in a clone of /verif (VROOT), against the patched scratch worktree (VERIF_REPO); first = the machinery as committed before the round, final = after the additions","logs":logs}
    json.dump(meta,open(os.path.join(d,"meta.json"),"w"),indent=1)
    print(sid, meta["first_result"], "|", meta["after_strengthening"])
