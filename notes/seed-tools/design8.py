import json,glob
rows=[]
n=dict(caught=0,obl=0,missed=0); n2=dict(caught=0,obl=0,missed=0)
def cls(v):
    if v is None: return None
    if v.startswith("caught"): return "caught"
    if v.startswith("missed"): return "missed"
    return "obl"
def how(txt):
    import re
    m=re.search(r"corr-disagreements (\d+), monitor-failures (\d+)",txt or "")
    if not m: return ""
    c,mo=int(m.group(1)),int(m.group(2))
    if mo>0: return "caught (monitor)"
    if c>0: return "caught by the correspondence only (a history on which model and implementation differ)"
    return "broken obligations, no failing input"
for f in sorted(glob.glob('/verif/seeded/*/meta.json')):
    m=json.load(open(f))
    if m.get("round")!=8: continue
    n[cls(m["first_result"])]+=1; n2[cls(m["after_strengthening"])]+=1
    rows.append("| %s: %s | %s | %s | %s | %s |"%(m["property"],m["change"],m["needs_to_manifest"],how(m["first_check_output"]) if cls(m["first_result"])!="missed" else "**missed**",m.get("added_to_machinery") or "-",how(m["final_check_output"])))
text='''**Round 8** (twelve fresh agents: C01 C02 C03 C05 C06 C07 C08 C12 C14 C15 C17 C20; free location except genesis export /
import, which round 7 exhausted; the **trigger** had to be something random single-signer single-message traffic on a
fresh chain is unlikely to produce: `MsgExec` nesting, fee grants, multi-message transactions, the block of a governance
change, restarts, pagination flag combinations, more than 100 entities, pruning boundaries, two operations in one block,
amounts from 2^63).  All twelve confirmed.  With the machinery as committed before the round **none was missed**: 5
reported by a property monitor with a concrete input, 4 by the correspondence only (a concrete history on which model
and implementation differ, replayable, but named in the model's terms rather than the property's), 3 through broken
obligations only.  After the additions all twelve are reported by a monitor or scenario with a concrete failing input.

| seeded change | needs | first result | what was added | final |
|---|---|---|---|---|
%s

What this round showed.  (1) Three of the twelve are **Go aliasing defects** - `append` overwriting the tail of the
slice it was given (C06), an ante decorator summing into the *live* message object that DeliverTx then executes (C08),
an encoder writing into the bytes `store.Get` returned, which the cache layers and the IAVL node cache share (C01).  The
translator renders slices and messages as immutable values, so such defects are invisible to the proofs *by
construction*; what catches them is the implementation side - the twin / restart executions (C01), monitors that compare
the effect with the values *as submitted* (C08: the harness keeps its own copy of every message), CheckTx verdicts against
an independent fee oracle over message layouts (C06).  This is recorded in the trusted base (0.5): value semantics of
the translation.  (2) The three obligation-only cases again needed a state the generators did not reach: more than 100
queued orders, a parameter change while an order is half decided, two stream operations in one block second - now
designated scenarios.  (3) Detection "by the correspondence only" is a concrete failing input but depends on the model
being consulted on exactly that input; for C05, C07 and C08 a monitor stated in the property's own terms was added
(unlock with a fee granter; the cursor never goes back; the limit rises by exactly what was bought).

'''%("\n".join(rows))
p='/verif/DESIGN.md'; s=open(p).read()
marker='### 0.5 Trusted base as built'
assert marker in s and '**Round 8**' not in s
s=s.replace(marker,text+marker,1)
tb="* **Correspondence** (differential testing):"
add="* **Value semantics of the translation:** Go slices, maps and message structs are rendered as immutable Gallina values;\n  aliasing (an `append` that overwrites its argument's tail, a decorator that mutates the message object DeliverTx later\n  executes, an encoder that writes into bytes owned by the store cache) does not exist in the model.  Defects of that kind\n  are out of reach of the theorems and are looked for on the implementation side only (twin / restart runs, monitors\n  comparing effects with the messages as submitted); three were seeded in round 8 and found that way.\n"
assert tb in s
s=s.replace(tb,add+tb,1)
open(p,'w').write(s)
print(n,n2)
