import json,os,sys
info={
"C04-mint-only-if-still-whitelisted":("C04","ProcessAcceptedPurchaseOrders mints and locks only if the purchaser is still whitelisted - after the order has already been stored as completed (the tally also auto-rejects raised orders of de-whitelisted purchasers, which is harmless)","the purchaser is removed from the whitelist in the very block whose BeginBlock accepted its order: the order completes, nothing is minted or locked"),
"C09-same-block-retry-guard":("C09","RegisterNewWrkChain / RegisterNewBeacon return the id of the registration made just before when owner, moniker (and genesis hash) and block second coincide ('client retry'), storing nothing","one owner registering twice with the same moniker in one block or one transaction: the second success re-uses the id, its name / type are stored nowhere"),
"C10-zero-claim-shortcut-cancel":("C10","ClaimFromStream returns four zero coins when nothing has accrued; cancel and expired top-up take the remaining deposit from that return value instead of re-reading the stream (two cooperating edits)","a cancel within the second of the stream's last outflow (create + cancel in one block): refund 0, the stream is deleted, its deposit stays in the escrow unbacked"),
"C11-zero-net-claim-early-return":("C11","ClaimFromStream returns early - after the validator-fee transfer, before the stream update - when the receiver's net amount is zero","validator fee set to exactly 1.0 by governance: every claim pays the fee again for the same seconds, the deposit is never reduced"),
"C13-verified-owners-in-context":("C13","a new ante check verifies the owners of top-level WRKChain record / purchase messages and passes the verified ADDRESSES on in the context; IsAuthorisedToRecord trusts any address in that list, for any WRKChain","one transaction [own record, MsgExec{record on somebody else's WRKChain naming oneself as owner}]: accepted"),
"C16-validatebasic-default-max":("C16","ValidateBasic of the two storage-purchase messages rejects Number above the compile-time DEFAULT maximum (600000)","governance raises MaxStorageLimit above 600000; a purchase legal under the new value is refused by stateless validation"),
"C18-prune-range-from-section-start":("C18","deleteBeaconTimestamp deletes a key RANGE ending at the pruned id, starting at the beginning of the whole timestamp section instead of the BEACON's own sub-prefix","two BEACONs, the higher id reaching its in-state limit: every timestamp of every lower-numbered BEACON is deleted"),
"C19-nine-digit-cut":("C19","fund-to-nund conversion truncates 'sub-nund' digits up front with an off-by-one: exactly nine fractional digits lose the ninth","an amount with exactly nine fractional digits and a non-zero last digit"),
}
first=sys.argv[1]; seconds=sys.argv[2:]
def parse(path,res=None):
    res={} if res is None else res; cur=None
    for l in open(path):
        l=l.rstrip("\n")
        if l.startswith("=== "): cur=l.split()[1]; res[cur]=[]
        elif cur and l.strip() and l!="DONE": res[cur].append(l)
    return res
f=parse(first); s2={}
for s in seconds: parse(s,s2)
added=json.load(open('/tmp/kdev/added9.json'))
for sid,(prop,change,needs) in info.items():
    d='/verif/seeded/'+sid
    logs={}
    for n in ("demo_with.log","demo_without.log","suite_with.log"):
        p=os.path.join(d,n)
        if os.path.exists(p): logs[n]=open(p).read()[-600:]
    fr="\n".join(f.get(sid,[])); sr="\n".join(s2.get(sid,[]))
    def verdict(txt):
        if "exit 0" in txt: return "missed"
        if "monitor-failures 0" in txt and "no-failing-input-found" in txt: return "broken obligation / correspondence only (no failing input found)"
        return "caught with a failing input"
    meta={"id":sid,"round":9,"property":prop,"restriction":"free location except genesis export / import (exhausted); the TRIGGER had to be something random single-signer single-message traffic on a fresh chain is unlikely to produce (MsgExec nesting, feegrant, multi-message transactions, module / vesting accounts, the block of a governance change, restarts, pagination flag combinations, more than 100 entities, pruning boundaries, same-block operations, amounts from 2^63); given the property text, the ideas already tried and the over-used mechanism classes to avoid","change":change,"needs_to_manifest":needs,
          "first_result":verdict(fr),"first_check_output":fr,
          "after_strengthening":verdict(sr) if sr else None,"final_check_output":sr or None,
          "added_to_machinery":added.get(sid),
          "confirmed":{"builds":True,"existing_suite_with_change":"all packages ok","demo_with_change":"FAIL","demo_without_change":"ok"},
          "ran":"bin/vseed-confirm <worktree> <id>, then bin/vseed-check-wt <worktree> <id> <property> in a clone of /verif (VROOT), against the patched scratch worktree (VERIF_REPO); first = the machinery as committed before the round, final = after the additions","logs":logs}
    json.dump(meta,open(os.path.join(d,"meta.json"),"w"),indent=1)
    print(sid, meta["first_result"], "|", meta["after_strengthening"])
