import json,os,sys
info={
"C01-tally-throttle-in-process-memory":("C01","the enterprise BeginBlocker tallies only when 30 s of block time have passed since the last tally; the last tally time is kept in a struct behind a pointer on the Keeper (process memory)","a raised order reaching a threshold, and one node restarting within the throttle window: the restarted node tallies at once, the others later - different app hashes"),
"C02-vesting-branch-falls-through":("C02","MintCoinsAndLock gets a branch for vesting-account purchasers (mint into the module account and hold) that does not return on success and falls through into the ordinary path","an order completed for a vesting-account purchaser: twice its amount is minted and locked"),
"C03-reject-rule-via-outstanding":("C03","the reject rule 'rejects > signers - min accepts' is rewritten as 'accepts + outstanding < min accepts', outstanding = current signers without a decision","a raised order carrying a decision of a signer that governance has since removed: it is not rejected, can later be accepted and minted"),
"C05-unlock-only-if-payer-signs-registry-msg":("C05","CheckLockedUndDecorator unlocks only if the fee payer is a signer of one of the transaction's registry messages","a two-signer transaction (or an explicit fee payer) in which the registry message belongs to another account than the payer: the payer's locked eFUND is not spent"),
"C06-recover-into-unnamed-result":("C06","checkWrkchainFees / checkBeaconFees recover panics 'into an error' - assigned to a local, the result is unnamed: after a recovered panic the fee check returns nil","a fee parameter of 2^63 or more (legal): the fee getter panics, the panic is swallowed, any fee is admitted"),
"C10-drained-claim-deletes-reverse-stream":("C10","msgServer.ClaimStream deletes the drained stream record - with receiver and sender swapped, which is a no-op unless the opposite stream exists","two accounts streaming to each other; the final claim on one direction deletes the other direction's record, its deposit stays in escrow unbacked"),
"C12-blocked-addresses-keyed-by-name":("C12","BlockedAddresses is rewritten around an exemption map keyed by module NAME while the loop looks it up by ADDRESS: the gov account is blocked like the rest","a stream whose sender is the gov module account (created by proposal): the refund on cancel is refused, the cancel fails"),
"C13-authority-may-decide":("C13","IsAuthorisedToDecide accepts the keeper's authority (the gov module account) as if it were an enterprise signer","a governance proposal carrying MsgWhitelistAddress / MsgProcessUndPurchaseOrder with Signer = gov: executed"),
"C14-undecided-signers-negative-cap":("C14","the tally events gain an 'undecided' attribute built with make([]string, 0, len(signers)-len(decisions))","governance shrinks the signer list below the number of decisions an unresolved order carries: every later BeginBlock panics (makeslice: cap out of range)"),
"C15-key-parse-sender-offset":("C15","AddressesFromStreamKey is rewritten with explicit slicing; the sender is cut at 3+senderLen instead of 3+receiverLen","a stream between addresses of different lengths: export writes a fabricated sender, the imported chain holds the stream under another pair"),
"C17-sort-search-insertion-index":("C17","GetTotalSupplyWithLockedNundRemoved locates the native entry of a page with sort.Search and subtracts the locked total at the returned index without checking the denomination","a TotalSupply page that lacks the native denomination but holds one sorting after it: the locked total is subtracted from that other denomination"),
"C20-moniker-filter-64-shortcut":("C20","WrkChainsFiltered / BeaconsFiltered short-circuit 'over-long' moniker filters with len >= 64, while 64 bytes is a legal moniker","a registration with a 64-byte moniker and a list query filtered by it: empty page"),
}
first=sys.argv[1]; seconds=sys.argv[2:]
def parse(path,res=None):
    res={} if res is None else res; cur=None
    for l in open(path):
        l=l.rstrip("\n")
        if l.startswith("=== "): cur=l.split()[1]; res[cur]=[]
        elif cur and l.strip() and l!="DONE": res[cur].append(l)
    return res
f=parse(first); s2={}
for s in seconds: parse(s,s2)
added=json.load(open('/tmp/kdev/added10.json'))
for sid,(prop,change,needs) in info.items():
    d='/verif/seeded/'+sid
    logs={}
    for n in ("demo_with.log","demo_without.log","suite_with.log"):
        p=os.path.join(d,n)
        if os.path.exists(p): logs[n]=open(p).read()[-600:]
    fr="\n".join(f.get(sid,[])); sr="\n".join(s2.get(sid,[]))
    def verdict(txt):
        if "exit 0" in txt: return "missed"
        if "monitor-failures 0" in txt and "no-failing-input-found" in txt: return "broken obligation / correspondence only (no failing input found)"
        return "caught with a failing input"
    meta={"id":sid,"round":10,"property":prop,"restriction":"as rounds 8-9 (free location except genesis export / import; unusual trigger) and, in addition, told to stay away from the mechanisms rounds 8-9 had used (more than 100 entities, one moniker twice in a block, MsgExec before a registry message, a whitelist / signer change between tally and mint, Go aliasing); the TRIGGER had to be something random single-signer single-message traffic on a fresh chain is unlikely to produce (MsgExec nesting, feegrant, multi-message transactions, module / vesting accounts, the block of a governance change, restarts, pagination flag combinations, more than 100 entities, pruning boundaries, same-block operations, amounts from 2^63); given the property text, the ideas already tried and the over-used mechanism classes to avoid","change":change,"needs_to_manifest":needs,
          "first_result":verdict(fr),"first_check_output":fr,
          "after_strengthening":verdict(sr) if sr else None,"final_check_output":sr or None,
          "added_to_machinery":added.get(sid),
          "confirmed":{"builds":True,"existing_suite_with_change":"all packages ok","demo_with_change":"FAIL","demo_without_change":"ok"},
          "ran":"bin/vseed-confirm <worktree> <id>, then bin/vseed-check-wt <worktree> <id> <property> in a clone of /verif (VROOT), against the patched scratch worktree (VERIF_REPO); first = the machinery as committed before the round, final = after the additions","logs":logs}
    json.dump(meta,open(os.path.join(d,"meta.json"),"w"),indent=1)
    print(sid, meta["first_result"], "|", meta["after_strengthening"])
