import json,glob
rows=[]
n=dict(caught=0,obl=0,missed=0); n2=dict(caught=0,obl=0,missed=0)
def cls(v):
    if v is None: return None
    if v.startswith("caught"): return "caught"
    if v.startswith("missed"): return "missed"
    return "obl"
def how(txt):
    import re
    m=re.search(r"corr-disagreements (\d+), monitor-failures (\d+)",txt or "")
    if not m: return ""
    c,mo=int(m.group(1)),int(m.group(2))
    if mo>0: return "caught (monitor)"
    if c>0: return "caught by the correspondence only (a history on which model and implementation differ)"
    return "broken obligations, no failing input"
for f in sorted(glob.glob('/verif/seeded/*/meta.json')):
    m=json.load(open(f))
    if m.get("round")!=10: continue
    n[cls(m["first_result"])]+=1; n2[cls(m["after_strengthening"])]+=1
    rows.append("| %s: %s | %s | %s | %s | %s |"%(m["property"],m["change"],m["needs_to_manifest"],how(m["first_check_output"]) if cls(m["first_result"])!="missed" else "**missed**",m.get("added_to_machinery") or "-",how(m["final_check_output"])))
text='''**Round 10** (twelve fresh agents: C01 C02 C03 C05 C06 C10 C12 C13 C14 C15 C17 C20; the restriction of rounds 8-9 plus
the instruction to stay away from the mechanisms those rounds had used).  All twelve confirmed, **none missed**: 6 reported
by a monitor with a concrete input (C03, C05, C10, C14, C15, C17), 2 by the correspondence only (C06, C12), 4 through
broken obligations only (C01, C02, C13, C20).  After the additions all twelve are reported with a concrete failing input.

| seeded change | needs | first result | what was added | final |
|---|---|---|---|---|
%s

What this round showed.  (1) `C01-tally-throttle-in-process-memory` hides its state behind a *pointer inside the keeper*
- exactly what the `process_state` obligation of C01 is for (a new `*blockerSchedule` field breaks it: 14 of 59
obligations), but the twin histories of the quick tier contained no order reaching a threshold right before a restart.
The twin harness now always replays one designated history through every crash point.  (2) Three seeds live in the
*account kind* dimension (a vesting purchaser, the gov module account as stream sender, the gov account as message
signer of a proposal): module, vesting and multisig accounts as parties are now part of the designated scenarios, not
only of the listed findings.  (3) Boundary *lengths* (a 64-byte moniker) matter for filters as they did for keys: the list
harness now plants them in every state.

'''%("\n".join(rows))
p='/verif/DESIGN.md'; s=open(p).read()
marker='### 0.5 Trusted base as built'
assert marker in s and '**Round 10**' not in s
s=s.replace(marker,text+marker,1)
open(p,'w').write(s)
print(n,n2)
