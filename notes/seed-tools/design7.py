import json,glob,os
rows=[]
n=dict(caught=0,obl=0,missed=0); n2=dict(caught=0,obl=0,missed=0)
def cls(v):
    if v is None: return None
    if v.startswith("caught"): return "caught"
    if v.startswith("missed"): return "missed"
    return "obl"
for f in sorted(glob.glob('/verif/seeded/*/meta.json')):
    m=json.load(open(f))
    if m.get("round")!=7: continue
    n[cls(m["first_result"])]+=1
    n2[cls(m["after_strengthening"])]+=1
    fr={"caught":"caught","obl":"broken obligation / correspondence, no failing input","missed":"**missed**"}[cls(m["first_result"])]
    af={"caught":"caught with a failing input","obl":"obligation only","missed":"MISSED"}[cls(m["after_strengthening"])]
    rows.append("| %s: %s | %s | %s | %s | %s |"%(m["property"],m["change"],m["needs_to_manifest"],fr,m.get("added_to_machinery") or "-",af))
text='''**Round 7** (eighteen fresh agents — C11 and C19 have no glue code to speak of and were left out — each given the property
text, the ideas already tried and the mechanism classes to avoid, and this time told to change **glue code only**: genesis
import / export, ante wiring, `app.go`, query handlers, key parsing, methods on messages — the code *around* the keeper and
message-server functions that the translator renders and the theorems speak about).  All eighteen confirmed (build, the
repository's tests pass, a demonstration fails with the change and passes without).  With the machinery as committed
before the round: %d reported with a concrete failing input, %d through broken obligations or correspondence
disagreements only, **%d missed** (exit 0).  After the additions in the fourth column: %d with a concrete failing input,
%d obligation-only, %d missed.

| seeded change | needs | first result | what was added | final |
|---|---|---|---|---|
%s

What this round showed.  (1) The three misses (C03, C07, C12) and most of the obligation-only cases sit in **export /
import**, and all needed a *state the generated histories never contain at the moment of the export*: a chain numbered
from other starting ids (every harness chain started at 1, where "count + 1", "highest existing id" and the stored
counter coincide), an account that has spent its eFUND down to exactly 0, a WRKChain registered without base type, a
stream between addresses of different lengths, an order sitting in the one-block window between tally and mint when a
*zero-height* export is taken.  These are now designated scenarios (`harness/scenarios3.go`), the chain configuration
can set the three starting ids, and every second chain of the list harness is numbered from random starting ids.
(2) Two seeds were **hidden by a listed finding**: `C06-fee-decorator-switch-first-module` admits an under-priced mixed
transaction, which the monitor filed under the known mixed-module class (where the clean code *refuses* unless both sums
coincide).  The classes are now exactly the listed behaviour — a known-finding class must describe what the clean tree
does, not the neighbourhood it lives in.  (3) For several properties the monitors only looked one way: C05 checked that
nothing else lowers a locked balance, not that a registry transaction *does* unlock; C10 checked conservation, not the
fee split itself; C09 compared stored values with the model's replay of the *observed* message (which `ValidateBasic`
had already rewritten), not with what was submitted.  Each has a converse / exactness monitor now.  (4) As before,
every change that touched translated code (C05, C09, C10, C13, C16, C17, C18, C20) broke obligations at once; the round
confirms that the residual risk is in untranslated glue, which is why §0.8(c) moves genesis export / import of the
registries onto the byte store with round-trip theorems.

'''%(n["caught"],n["obl"],n["missed"],n2["caught"],n2["obl"],n2["missed"],"\n".join(rows))
p='/verif/DESIGN.md'; s=open(p).read()
marker='### 0.5 Trusted base as built'
assert marker in s and '**Round 7**' not in s
s=s.replace(marker,text+marker,1)
open(p,'w').write(s)
print(n,n2)
