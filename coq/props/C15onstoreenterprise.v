(* C15 on BYTES, x/enterprise: genesis export and import ON THE BYTE-LEVEL STORE.
   InitGenesis / ExportGenesis of /repo/x/enterprise/genesis.go as translated on every run TWICE from the same source -
     (1) GeneratedEnterpriseKeeper.v         K.go_InitGenesis / K.go_ExportGenesis over the hand-written primitives on the
                                              abstract state (world [eworld]); C15_generated_ent_* prove them to be the
                                              model's export_ent / import_ent,
     (2) GeneratedEnterpriseKeeperOnStore.v  S.go_InitGenesis / S.go_ExportGenesis over the BYTE-LEVEL ordered KV store
                                              through the GENERATED store accessors (GeneratedEnterpriseStore.v, incl.
                                              the four export listings GetAllPurchaseOrders / GetAllLockedUnds /
                                              GetAllWhitelistedAddresses / GetAllSpentEFUNDs) and the adapters of
                                              model/EnterpriseStoreWorld.v (world [esworld]).
   Here: (2) against (1).

   Given (explicit in every statement, as in props/C04onstoreenterprise.v): dom, emb, unemb with emb_hyps dom emb unemb.
   Rw / Rwi / sim: C04_onstore_enterprise_relation (same clocks and bank, Rent dom emb (esw_store ws) (ew_ent w); Rwi adds
   the invariant einv).  Hypotheses, and why:
     ent_key_ordered emb st  the abstract state lists purchase orders by ascending id and whitelist / locked / spent
                         entries by ascending address BYTES (C15_onstore_ent_key_ordered_spelled): the store lists in key
                         order, the primitives list the association lists as they stand.  Ascending ids hold of every
                         reachable state (ids are issued ascending); the address orders do not, so the general statement
                         is the PERMUTATION one (C15_onstore_ent_export_permutation); needed for equality:
                         C15_onstore_ent_export_order_refuted.
     doc_side dom st d   (C15_onstore_ent_doc_side_spelled) what the byte store needs of a document imported onto st:
                         uint64 counter and ids; parameters where the two Params.Validate agree; parsing addresses in dom;
                         no whitelist entry twice or already present (C15_onstore_ent_doc_side_whitelist_refuted: the
                         primitive appends to a list, the store is a set); orders queued as Raised / Accepted in ascending
                         id order above what is queued, the raised ones below the counter (the primitives append, the
                         store keeps id-ordered sets: C04_onstore_enterprise side conditions).
   Sections 4-6 (proofs/GeneratedEnterpriseGenesisOnStoreRoundtrip.v): import into the EMPTY store and the round trip on
   bytes.  The relation Rent asks for the counter cell, so [] represents no state: the first two writes of InitGenesis
   are run by hand (C15_onstore_ent_import_empty_first_writes), the simulation applies from the store they leave.
     blank_state         the abstract state with no order, queue, whitelist, book: doc_side on it loses its "above what
                         is queued / not yet whitelisted" clauses (C15_onstore_ent_doc_side_blank_spelled).
     valid parameters    needed: InitGenesis drops the error of SetParams (as the registries do), from [] the Params cell
                         is then never written and the store represents the imported state with the ZERO parameters, not
                         what rendering (1) builds from a fresh state (C15_onstore_ent_import_empty_invalid_simulates, ..._invalid_refuted).
     round trip          Rwi, the invariant of the module (ent_inv, as in the C15_generated_ent theorems), a duplicate-free bank,
                         ent_key_ordered, a signer list shorter than 2^64 (ent_params_range).  Byte-identical when the two
                         totals are recorded (they are from the first lock / after every InitGenesis); needed:
                         C15_onstore_ent_roundtrip_totals_refuted.  Key order is asked because the proof goes through
                         rendering (1)'s export; the statement without it is NOT proved (it holds in the instance
                         C15_onstore_ent_roundtrip_unordered_example).  The abstract state determines the bytes unless its
                         parameters are the zero Params (C15_onstore_ent_store_unique, ..._zero_params_refuted).
   Proofs: proofs/GeneratedEnterpriseGenesisOnStoreEq.v, proofs/GeneratedEnterpriseGenesisOnStoreRoundtrip.v. *)
From MC Require Import lib.Prelude lib.AMap lib.GoSdk GeneratedEnterpriseTypes model.Bank model.Enterprise model.EnterpriseSpec
  model.Keys model.KeyPrims model.KVStore model.StoreCodecPrims model.EnterpriseKeeperPrims model.EnterpriseStoreWorld
  model.EnterpriseGenSpec GeneratedKeys GeneratedEnterpriseStore.
From MC Require GeneratedEnterpriseKeeper GeneratedEnterpriseKeeperOnStore.
From MC Require Import proofs.GeneratedEnterpriseParamsEq proofs.KVStoreFacts proofs.GeneratedEnterpriseStoreEq
  proofs.GeneratedEnterpriseStoreRefines proofs.GeneratedEnterpriseOnStoreEq proofs.GeneratedEnterpriseGenesisOnStoreEq.
From Coq Require Import NArith ZArith List Bool Sorted Permutation.
Import ListNotations.
Local Open Scope Z_scope.

(* K = MC.GeneratedEnterpriseKeeper, S = MC.GeneratedEnterpriseKeeperOnStore (named in proofs/GeneratedEnterpriseOnStoreEq.v) *)

(* ------------------------------------------------------------------ *)
(* the side conditions, in full                                         *)
(* ------------------------------------------------------------------ *)

Theorem C15_onstore_ent_key_ordered_spelled : forall (emb : Z -> list N) (st : ent_state),
  ent_key_ordered emb st <->
  (StronglySorted Z.lt (map fst (e_pos st)) /\
   StronglySorted (fun a b => lex_lt (emb a) (emb b) = true) (e_wl st) /\
   StronglySorted (fun a b => lex_lt (emb a) (emb b) = true) (map fst (e_locked st)) /\
   StronglySorted (fun a b => lex_lt (emb a) (emb b) = true) (map fst (e_spent st))).
Proof. exact ent_key_ordered_spelled. Qed.
Print Assumptions C15_onstore_ent_key_ordered_spelled.

Theorem C15_onstore_ent_doc_side_spelled : forall (dom : Z -> Prop) (st : ent_state) (d : go_GenesisState),
  doc_side dom st d <->
  (ent_params_range (GenesisState_Params d) /\ denom_ok (GenesisState_Params d) /\
   0 <= GenesisState_StartingPurchaseOrderId d < 2 ^ 64 /\
   (forall y, In y (e_raisedq st) -> y < GenesisState_StartingPurchaseOrderId d) /\
   Forall (fun a => addr_parses a = true -> dom a) (GenesisState_Whitelist d) /\ NoDup (GenesisState_Whitelist d) /\
   (forall a, In a (GenesisState_Whitelist d) -> mem_addr a (e_wl st) = false) /\
   Forall (fun po => 0 <= EnterpriseUndPurchaseOrder_Id po < 2 ^ 64 /\
                     (addr_parses (EnterpriseUndPurchaseOrder_Purchaser po) = true -> dom (EnterpriseUndPurchaseOrder_Purchaser po)))
          (GenesisState_PurchaseOrders d) /\
   StronglySorted Z.lt (raised_ids (GenesisState_PurchaseOrders d)) /\
   (forall y r, In y (e_raisedq st) -> In r (raised_ids (GenesisState_PurchaseOrders d)) -> y < r) /\
   (forall r, In r (raised_ids (GenesisState_PurchaseOrders d)) -> r < GenesisState_StartingPurchaseOrderId d) /\
   StronglySorted Z.lt (accepted_ids (GenesisState_PurchaseOrders d)) /\
   (forall y r, In y (e_acceptedq st) -> In r (accepted_ids (GenesisState_PurchaseOrders d)) -> y < r) /\
   Forall (fun l => dom (LockedUnd_Owner l)) (GenesisState_LockedUnd d) /\
   Forall (fun l => dom (SpentEFUND_Owner l)) (GenesisState_SpentEfund d)).
Proof. exact doc_side_spelled. Qed.
Print Assumptions C15_onstore_ent_doc_side_spelled.

(* the ids of the orders a document queues: status 1 = Raised, 2 = Accepted *)
Theorem C15_onstore_ent_queued_ids_spelled : forall l : list go_EnterpriseUndPurchaseOrder,
  raised_ids l = map EnterpriseUndPurchaseOrder_Id (filter (fun po => EnterpriseUndPurchaseOrder_Status po =? 1) l) /\
  accepted_ids l = map EnterpriseUndPurchaseOrder_Id (filter (fun po => EnterpriseUndPurchaseOrder_Status po =? 2) l).
Proof. exact queued_ids_spelled. Qed.
Print Assumptions C15_onstore_ent_queued_ids_spelled.

(* ------------------------------------------------------------------ *)
(* 1. ExportGenesis                                                     *)
(* ------------------------------------------------------------------ *)

(* the document written from the bytes, on every related pair of worlds: parameters, counter and totals as the first
   rendering reads them, the four lists in store-key order (ksort: insertion sort by key, C18_store_enterprise_refines) *)
Theorem C15_onstore_ent_export_document :
  forall (dom : Z -> Prop) (emb : Z -> list N) (unemb : list N -> Z), emb_hyps dom emb unemb ->
  forall (w : eworld) (ws : esworld),
  Rw dom emb unemb w ws ->
  S.go_ExportGenesis ws =
    Ok (mk_go_GenesisState (ent_GetParams w) (e_next (ew_ent w))
          (map po_image (ksort po_key (e_pos (ew_ent w))))
          (map locked_image (ksort (locked_key emb) (e_locked (ew_ent w))))
          (ent_GetTotalLockedUnd w)
          (ksort (wl_key emb) (e_wl (ew_ent w)))
          (map spent_image (ksort (spent_key emb) (e_spent (ew_ent w))))
          (ent_GetTotalSpentEFUND w)).
Proof. exact os_ExportGenesis_run. Qed.
Print Assumptions C15_onstore_ent_export_document.

Theorem C15_onstore_ent_export_same_document :
  forall (dom : Z -> Prop) (emb : Z -> list N) (unemb : list N -> Z), emb_hyps dom emb unemb ->
  forall (w : eworld) (ws : esworld),
  Rw dom emb unemb w ws -> ent_key_ordered emb (ew_ent w) ->
  S.go_ExportGenesis ws = K.go_ExportGenesis w.
Proof. exact os_ExportGenesis_eq. Qed.
Print Assumptions C15_onstore_ent_export_same_document.

Theorem C15_onstore_ent_export_permutation :
  forall (dom : Z -> Prop) (emb : Z -> list N) (unemb : list N -> Z), emb_hyps dom emb unemb ->
  forall (w : eworld) (ws : esworld),
  Rw dom emb unemb w ws ->
  exists d d', S.go_ExportGenesis ws = Ok d /\ K.go_ExportGenesis w = Ok d' /\
    GenesisState_Params d = GenesisState_Params d' /\
    GenesisState_StartingPurchaseOrderId d = GenesisState_StartingPurchaseOrderId d' /\
    GenesisState_TotalLocked d = GenesisState_TotalLocked d' /\ GenesisState_TotalSpent d = GenesisState_TotalSpent d' /\
    Permutation (GenesisState_PurchaseOrders d) (GenesisState_PurchaseOrders d') /\
    Permutation (GenesisState_LockedUnd d) (GenesisState_LockedUnd d') /\
    Permutation (GenesisState_Whitelist d) (GenesisState_Whitelist d') /\
    Permutation (GenesisState_SpentEfund d) (GenesisState_SpentEfund d').
Proof. exact os_ExportGenesis_perm. Qed.
Print Assumptions C15_onstore_ent_export_permutation.

Theorem C15_onstore_ent_export_order_refuted :
  exists (w : eworld) (ws : esworld),
    Rw os_ex_dom os_ex_emb os_ex_unemb w ws /\ S.go_ExportGenesis ws <> K.go_ExportGenesis w.
Proof. exact os_ent_ExportGenesis_order_refuted. Qed.
Print Assumptions C15_onstore_ent_export_order_refuted.

(* ------------------------------------------------------------------ *)
(* 2. InitGenesis simulates                                             *)
(* ------------------------------------------------------------------ *)

Theorem C15_onstore_ent_import_simulates :
  forall (dom : Z -> Prop) (emb : Z -> list N) (unemb : list N -> Z), emb_hyps dom emb unemb ->
  forall (w : eworld) (ws : esworld) (d : go_GenesisState),
  Rwi dom emb unemb w ws -> doc_side dom (ew_ent w) d ->
  sim dom emb unemb (K.go_InitGenesis w d) (S.go_InitGenesis ws d).
Proof. exact os_InitGenesis_sim. Qed.
Print Assumptions C15_onstore_ent_import_simulates.

Theorem C15_onstore_ent_import_outcomes :
  forall (dom : Z -> Prop) (emb : Z -> list N) (unemb : list N -> Z), emb_hyps dom emb unemb ->
  forall (w : eworld) (ws : esworld) (d : go_GenesisState),
  Rwi dom emb unemb w ws -> doc_side dom (ew_ent w) d ->
  (forall ws', S.go_InitGenesis ws d = Ok (ws', tt) -> exists w', K.go_InitGenesis w d = Ok (w', tt) /\ Rwi dom emb unemb w' ws') /\
  (forall w', K.go_InitGenesis w d = Ok (w', tt) -> exists ws', S.go_InitGenesis ws d = Ok (ws', tt) /\ Rwi dom emb unemb w' ws') /\
  (forall c, K.go_InitGenesis w d = Panic c <-> S.go_InitGenesis ws d = Panic c) /\
  (forall e, K.go_InitGenesis w d = Err e <-> S.go_InitGenesis ws d = Err e).
Proof. exact os_InitGenesis_outcomes. Qed.
Print Assumptions C15_onstore_ent_import_outcomes.

Theorem C15_onstore_ent_doc_side_whitelist_refuted :
  let d := mk_go_GenesisState os_ex_params 1 [] [] (NUND, 50) [7; 7] [] (NUND, 0) in
  match K.go_InitGenesis exg_kw0 d, S.go_InitGenesis exg_sw0 d with
  | Ok (w', _), Ok (ws', _) =>
      (exists dk ds, K.go_ExportGenesis w' = Ok dk /\ S.go_ExportGenesis ws' = Ok ds /\
                     GenesisState_Whitelist dk = [7; 7] /\ GenesisState_Whitelist ds = [7])
  | _, _ => False
  end.
Proof. exact os_ent_doc_side_whitelist_refuted. Qed.
Print Assumptions C15_onstore_ent_doc_side_whitelist_refuted.

(* ------------------------------------------------------------------ *)
(* 3. a concrete store (20-byte addresses)                              *)
(* ------------------------------------------------------------------ *)

Theorem C15_onstore_ent_example :
  S.go_InitGenesis exg_sw0 exg_doc = Ok (exg_sw1, tt) /\ K.go_InitGenesis exg_kw0 exg_doc = Ok (exg_kw1, tt) /\
  List.length (esw_store exg_sw1) = 14%nat /\
  S.go_ExportGenesis exg_sw1 = Ok exg_doc1 /\ K.go_ExportGenesis exg_kw1 = Ok exg_doc /\ exg_doc <> exg_doc1 /\
  S.go_InitGenesis (mk_esworld os_ex_emb os_ex_unemb 0 os_ex_bank os_ex_store0) exg_doc = Panic enterprise_PANIC /\
  K.go_InitGenesis os_ex_kw0 exg_doc = Panic enterprise_PANIC.
Proof. exact os_ent_genesis_ex. Qed.
Print Assumptions C15_onstore_ent_example.

Theorem C15_onstore_ent_example_by_theorem :
  Rwi os_ex_dom os_ex_emb os_ex_unemb exg_kw0 exg_sw0 /\ doc_side os_ex_dom (ew_ent exg_kw0) exg_doc /\
  Rwi os_ex_dom os_ex_emb os_ex_unemb exg_kw1 exg_sw1 /\
  ~ ent_key_ordered os_ex_emb (ew_ent exg_kw1) /\
  S.go_ExportGenesis exg_sw1 <> K.go_ExportGenesis exg_kw1.
Proof. exact (conj exg_Rwi0 (conj exg_doc_side os_ent_genesis_ex_by_theorem)). Qed.
Print Assumptions C15_onstore_ent_example_by_theorem.

(* ------------------------------------------------------------------ *)
(* 4. InitGenesis into the EMPTY byte store                             *)
(* ------------------------------------------------------------------ *)
From MC Require Import model.Genesis model.EnterpriseGenesisGenSpec proofs.BankProofs proofs.EnterpriseProofs proofs.GenesisProofs
  proofs.GeneratedEnterpriseGenesisOnStoreRoundtrip.

Theorem C15_onstore_ent_doc_side_blank_spelled : forall (dom : Z -> Prop) (d : go_GenesisState),
  doc_side dom blank_state d <->
  (ent_params_range (GenesisState_Params d) /\ denom_ok (GenesisState_Params d) /\
   0 <= GenesisState_StartingPurchaseOrderId d < 2 ^ 64 /\
   Forall (fun a => addr_parses a = true -> dom a) (GenesisState_Whitelist d) /\ NoDup (GenesisState_Whitelist d) /\
   Forall (fun po => 0 <= EnterpriseUndPurchaseOrder_Id po < 2 ^ 64 /\
                     (addr_parses (EnterpriseUndPurchaseOrder_Purchaser po) = true -> dom (EnterpriseUndPurchaseOrder_Purchaser po)))
          (GenesisState_PurchaseOrders d) /\
   StronglySorted Z.lt (raised_ids (GenesisState_PurchaseOrders d)) /\
   (forall r, In r (raised_ids (GenesisState_PurchaseOrders d)) -> r < GenesisState_StartingPurchaseOrderId d) /\
   StronglySorted Z.lt (accepted_ids (GenesisState_PurchaseOrders d)) /\
   Forall (fun l => dom (LockedUnd_Owner l)) (GenesisState_LockedUnd d) /\
   Forall (fun l => dom (SpentEFUND_Owner l)) (GenesisState_SpentEfund d)).
Proof. exact doc_side_blank_spelled. Qed.
Print Assumptions C15_onstore_ent_doc_side_blank_spelled.

(* InitGenesis on [] is InitGenesis on the store its first two writes leave (the Params cell only when Params.Validate
   accepts, the counter cell): they are written again, to the same effect *)
Theorem C15_onstore_ent_import_empty_first_writes :
  forall (emb : Z -> list N) (unemb : list N -> Z) (now : Z) (b : bank) (d : go_GenesisState),
  (forall c, K.go_Params_Validate (GenesisState_Params d) <> Panic c) ->
  S.go_InitGenesis (mk_esworld emb unemb now b []) d =
  S.go_InitGenesis
    (mk_esworld emb unemb now b
       (okv_set (if match K.go_Params_Validate (GenesisState_Params d) with Ok _ => true | _ => false end
                 then okv_set [] kparams (EV_Params (GenesisState_Params d)) else [])
                khighest (v_id (GenesisState_StartingPurchaseOrderId d)))) d.
Proof. exact os_InitGenesis_empty_head. Qed.
Print Assumptions C15_onstore_ent_import_empty_first_writes.

(* from []: rendering (2) against rendering (1) started on ANY fresh abstract state - Ok with Ok and related worlds,
   Panic with Panic and equal codes *)
Theorem C15_onstore_ent_import_empty_simulates :
  forall (dom : Z -> Prop) (emb : Z -> list N) (unemb : list N -> Z), emb_hyps dom emb unemb ->
  forall (now : Z) (b : bank) (p0 : ent_params) (d : go_GenesisState),
  ent_params_valid (params_of_go (GenesisState_Params d)) = true -> doc_side dom blank_state d ->
  sim dom emb unemb (K.go_InitGenesis (fresh_eworld now b p0) d) (S.go_InitGenesis (mk_esworld emb unemb now b []) d).
Proof. exact os_InitGenesis_empty_sim. Qed.
Print Assumptions C15_onstore_ent_import_empty_simulates.

(* ... Ok, and the bytes represent the MODEL's import of the document.  The three Forall are what the keeper checks
   entry by entry (a failure is a panic); the bank: no (account, denomination) twice, no negative row of the module
   account (C15_generated_ent_import) *)
Theorem C15_onstore_ent_import_empty :
  forall (dom : Z -> Prop) (emb : Z -> list N) (unemb : list N -> Z), emb_hyps dom emb unemb ->
  forall (now : Z) (b : bank) (p0 : ent_params) (d : go_GenesisState) (st' : ent_state),
  ent_params_valid (params_of_go (GenesisState_Params d)) = true -> doc_side dom blank_state d ->
  Forall (fun a => a <> BAD_ADDR /\ a <> EMPTY_ADDR) (GenesisState_Whitelist d) ->
  Forall (fun g => 1 <= EnterpriseUndPurchaseOrder_Status g <= 4) (GenesisState_PurchaseOrders d) ->
  Forall (fun l => 0 <= snd (LockedUnd_Amount l)) (GenesisState_LockedUnd d) ->
  bank_wf b -> (forall dn v, In ((ENT_MACC, dn), v) (bal b) -> 0 <= v) ->
  import_ent b (gen_ent_of_go d) = Some st' ->
  exists s',
    S.go_InitGenesis (mk_esworld emb unemb now b []) d = Ok (mk_esworld emb unemb now b s', tt) /\
    K.go_InitGenesis (fresh_eworld now b p0) d = Ok (mk_eworld now b st', tt) /\
    Rent dom emb s' st' /\ einv dom st'.
Proof. exact os_InitGenesis_empty. Qed.
Print Assumptions C15_onstore_ent_import_empty.

(* conversely, no hypothesis on the entries: an Ok answer means the model imports and the bytes represent its state *)
Theorem C15_onstore_ent_import_empty_ok :
  forall (dom : Z -> Prop) (emb : Z -> list N) (unemb : list N -> Z), emb_hyps dom emb unemb ->
  forall (now : Z) (b : bank) (d : go_GenesisState) (ws' : esworld),
  ent_params_valid (params_of_go (GenesisState_Params d)) = true -> doc_side dom blank_state d ->
  bank_wf b -> (forall dn v, In ((ENT_MACC, dn), v) (bal b) -> 0 <= v) ->
  S.go_InitGenesis (mk_esworld emb unemb now b []) d = Ok (ws', tt) ->
  exists st', import_ent b (gen_ent_of_go d) = Some st' /\ ws' = mk_esworld emb unemb now b (esw_store ws') /\
              Rent dom emb (esw_store ws') st' /\ einv dom st'.
Proof. exact os_InitGenesis_empty_ok. Qed.
Print Assumptions C15_onstore_ent_import_empty_ok.

Theorem C15_onstore_ent_import_empty_refused :
  forall (dom : Z -> Prop) (emb : Z -> list N) (unemb : list N -> Z), emb_hyps dom emb unemb ->
  forall (now : Z) (b : bank) (d : go_GenesisState),
  ent_params_valid (params_of_go (GenesisState_Params d)) = true -> doc_side dom blank_state d ->
  bank_wf b -> (forall dn v, In ((ENT_MACC, dn), v) (bal b) -> 0 <= v) ->
  import_ent b (gen_ent_of_go d) = None ->
  exists c, S.go_InitGenesis (mk_esworld emb unemb now b []) d = Panic c.
Proof. exact os_InitGenesis_empty_none. Qed.
Print Assumptions C15_onstore_ent_import_empty_refused.

(* parameters that do not validate: the error is DROPPED; from [] the store is then related to what rendering (1) builds
   from the blank state holding the zero parameters and the document's counter *)
Theorem C15_onstore_ent_import_empty_invalid_simulates :
  forall (dom : Z -> Prop) (emb : Z -> list N) (unemb : list N -> Z), emb_hyps dom emb unemb ->
  forall (now : Z) (b : bank) (d : go_GenesisState),
  ent_params_valid (params_of_go (GenesisState_Params d)) = false -> doc_side dom blank_state d ->
  sim dom emb unemb
    (K.go_InitGenesis (mk_eworld now b (init_state zero_go_Params (GenesisState_StartingPurchaseOrderId d))) d)
    (S.go_InitGenesis (mk_esworld emb unemb now b []) d).
Proof. exact os_InitGenesis_empty_invalid_sim. Qed.
Print Assumptions C15_onstore_ent_import_empty_invalid_simulates.

(* ... concretely (no accept asked for): Ok, no Params cell, GetParams reads the zero Params, the model refuses, and the
   result is NOT related to what rendering (1) builds from a fresh state with other parameters: the validity hypothesis
   of C15_onstore_ent_import_empty_simulates is needed *)
Theorem C15_onstore_ent_import_empty_invalid_refuted :
  exr_bad_doc = mk_go_GenesisState (mk_go_Params [5; 6] NUND 0 100) 1 [] [] (NUND, 0) [7] [] (NUND, 0) /\
  doc_side os_ex_dom blank_state exr_bad_doc /\
  ent_params_valid (params_of_go (GenesisState_Params exr_bad_doc)) = false /\
  import_ent os_ex_bank (gen_ent_of_go exr_bad_doc) = None /\
  exists s',
    S.go_InitGenesis (mk_esworld os_ex_emb os_ex_unemb 0 os_ex_bank []) exr_bad_doc =
      Ok (mk_esworld os_ex_emb os_ex_unemb 0 os_ex_bank s', tt) /\
    okv_get s' kparams = None /\ go_st_GetParams s' = Ok zero_go_Params /\
    (exists st',
      K.go_InitGenesis (fresh_eworld 0 os_ex_bank (params_of_go os_ex_params)) exr_bad_doc = Ok (mk_eworld 0 os_ex_bank st', tt) /\
      e_params st' = params_of_go os_ex_params /\ ~ Rent os_ex_dom os_ex_emb s' st') /\
    exists w0,
      K.go_InitGenesis (mk_eworld 0 os_ex_bank (init_state zero_go_Params 1)) exr_bad_doc = Ok (w0, tt) /\
      e_params (ew_ent w0) = params_of_go zero_go_Params /\ Rent os_ex_dom os_ex_emb s' (ew_ent w0).
Proof. exact (conj eq_refl os_InitGenesis_empty_invalid_refuted). Qed.
Print Assumptions C15_onstore_ent_import_empty_invalid_refuted.

(* ------------------------------------------------------------------ *)
(* 5. export, then import into []; export again                         *)
(* ------------------------------------------------------------------ *)

Theorem C15_onstore_ent_store_unique :
  forall (dom : Z -> Prop) (emb : Z -> list N) (s1 s2 : okv enterprise_val) (st : ent_state),
  params_to_go (e_params st) <> zero_go_Params -> Rent dom emb s1 st -> Rent dom emb s2 st -> s1 = s2.
Proof. exact Rent_store_unique. Qed.
Print Assumptions C15_onstore_ent_store_unique.

Theorem C15_onstore_ent_store_unique_zero_params_refuted :
  let s1 : okv enterprise_val := okv_set [] khighest (v_id 1) in
  let s2 : okv enterprise_val := okv_set (okv_set [] kparams (EV_Params zero_go_Params)) khighest (v_id 1) in
  Rent os_ex_dom os_ex_emb s1 (init_state zero_go_Params 1) /\ Rent os_ex_dom os_ex_emb s2 (init_state zero_go_Params 1) /\
  s1 <> s2.
Proof. exact Rent_store_unique_zero_params_refuted. Qed.
Print Assumptions C15_onstore_ent_store_unique_zero_params_refuted.

(* THE ROUND TRIP ON BYTES *)
Theorem C15_onstore_ent_roundtrip :
  forall (dom : Z -> Prop) (emb : Z -> list N) (unemb : list N -> Z), emb_hyps dom emb unemb ->
  forall (w : eworld) (ws : esworld) (n now' : Z),
  Rwi dom emb unemb w ws -> ent_inv {| w_bank := ew_bank w; w_ent := ew_ent w; w_now := n |} -> bank_wf (ew_bank w) ->
  ent_key_ordered emb (ew_ent w) -> ent_params_range (params_to_go (e_params (ew_ent w))) ->
  exists d s',
    S.go_ExportGenesis ws = Ok d /\
    gen_ent_of_go d = export_ent (ew_ent w) /\
    S.go_InitGenesis (mk_esworld emb unemb now' (esw_bank ws) []) d = Ok (mk_esworld emb unemb now' (esw_bank ws) s', tt) /\
    Rent dom emb s' (ent_reimported (ew_ent w)) /\
    (e_totlocked (ew_ent w) <> None /\ e_totspent (ew_ent w) <> None -> Rent dom emb s' (ew_ent w) /\ s' = esw_store ws).
Proof. exact os_export_import_roundtrip. Qed.
Print Assumptions C15_onstore_ent_roundtrip.

Theorem C15_onstore_ent_roundtrip_totals_refuted :
  Rwi os_ex_dom os_ex_emb os_ex_unemb os_ex_kw0 os_ex_sw0 /\
  ent_inv {| w_bank := ew_bank os_ex_kw0; w_ent := ew_ent os_ex_kw0; w_now := 0 |} /\ bank_wf (ew_bank os_ex_kw0) /\
  ent_key_ordered os_ex_emb (ew_ent os_ex_kw0) /\ ent_params_range (params_to_go (e_params (ew_ent os_ex_kw0))) /\
  ~ (e_totlocked (ew_ent os_ex_kw0) <> None /\ e_totspent (ew_ent os_ex_kw0) <> None) /\
  exists d s',
    S.go_ExportGenesis os_ex_sw0 = Ok d /\
    S.go_InitGenesis (mk_esworld os_ex_emb os_ex_unemb 0 os_ex_bank []) d = Ok (mk_esworld os_ex_emb os_ex_unemb 0 os_ex_bank s', tt) /\
    List.length (esw_store os_ex_sw0) = 2%nat /\ List.length s' = 4%nat /\ s' <> esw_store os_ex_sw0.
Proof. exact os_roundtrip_totals_refuted. Qed.
Print Assumptions C15_onstore_ent_roundtrip_totals_refuted.

(* key order is a hypothesis of C15_onstore_ent_roundtrip because its proof goes through rendering (1)'s export; in the
   worlds of C15_onstore_ent_example (not in key order) the bytes come back all the same *)
Theorem C15_onstore_ent_roundtrip_unordered_example :
  Rwi os_ex_dom os_ex_emb os_ex_unemb exg_kw1 exg_sw1 /\ ~ ent_key_ordered os_ex_emb (ew_ent exg_kw1) /\
  S.go_ExportGenesis exg_sw1 = Ok exg_doc1 /\
  S.go_InitGenesis (mk_esworld os_ex_emb os_ex_unemb 77 exg_bank []) exg_doc1 =
    Ok (mk_esworld os_ex_emb os_ex_unemb 77 exg_bank (esw_store exg_sw1), tt).
Proof. exact os_roundtrip_unordered_ex. Qed.
Print Assumptions C15_onstore_ent_roundtrip_unordered_example.

Theorem C15_onstore_ent_export_import_export :
  forall (dom : Z -> Prop) (emb : Z -> list N) (unemb : list N -> Z), emb_hyps dom emb unemb ->
  forall (w : eworld) (ws : esworld) (n now' : Z),
  Rwi dom emb unemb w ws -> ent_inv {| w_bank := ew_bank w; w_ent := ew_ent w; w_now := n |} -> bank_wf (ew_bank w) ->
  ent_key_ordered emb (ew_ent w) -> ent_params_range (params_to_go (e_params (ew_ent w))) ->
  exists d s',
    S.go_ExportGenesis ws = Ok d /\
    S.go_InitGenesis (mk_esworld emb unemb now' (esw_bank ws) []) d = Ok (mk_esworld emb unemb now' (esw_bank ws) s', tt) /\
    S.go_ExportGenesis (mk_esworld emb unemb now' (esw_bank ws) s') = Ok d.
Proof. exact os_export_import_export. Qed.
Print Assumptions C15_onstore_ent_export_import_export.

(* ------------------------------------------------------------------ *)
(* 6. a store with history (20-byte addresses)                          *)
(* ------------------------------------------------------------------ *)

(* the two worlds a run of twenty steps from the genesis of C04_onstore_enterprise leaves (rt_hist: two accounts
   whitelisted, five orders - two completed, one accepted and queued, one raised and queued, one rejected -, a fee paid
   from locked tokens): 16 cells *)
Theorem C15_onstore_ent_roundtrip_example :
  rt_w = snd (k_run os_ex_kw0 rt_hist) /\ rt_ws = snd (s_run os_ex_sw0 rt_hist) /\
  List.length (esw_store rt_ws) = 16%nat /\
  balance (esw_bank rt_ws) ENT_MACC NUND = 770 /\
  S.go_ExportGenesis rt_ws = Ok rt_doc /\
  S.go_InitGenesis (mk_esworld os_ex_emb os_ex_unemb 1800000000 (esw_bank rt_ws) []) rt_doc =
    Ok (mk_esworld os_ex_emb os_ex_unemb 1800000000 (esw_bank rt_ws) (esw_store rt_ws), tt) /\
  S.go_ExportGenesis (mk_esworld os_ex_emb os_ex_unemb 1800000000 (esw_bank rt_ws) (esw_store rt_ws)) = Ok rt_doc /\
  S.go_InitGenesis (mk_esworld os_ex_emb os_ex_unemb 1800000000 os_ex_bank []) rt_doc = Panic enterprise_PANIC.
Proof. exact (conj (proj1 rt_defs) (conj (proj2 rt_defs) os_ent_roundtrip_ex)). Qed.
Print Assumptions C15_onstore_ent_roundtrip_example.

Theorem C15_onstore_ent_roundtrip_example_hypotheses :
  Rwi os_ex_dom os_ex_emb os_ex_unemb rt_w rt_ws /\
  (exists n, ent_inv {| w_bank := ew_bank rt_w; w_ent := ew_ent rt_w; w_now := n |}) /\
  bank_wf (ew_bank rt_w) /\ ent_key_ordered os_ex_emb (ew_ent rt_w) /\
  ent_params_range (params_to_go (e_params (ew_ent rt_w))) /\
  (e_totlocked (ew_ent rt_w) <> None /\ e_totspent (ew_ent rt_w) <> None).
Proof. exact os_ent_roundtrip_ex_hyps. Qed.
Print Assumptions C15_onstore_ent_roundtrip_example_hypotheses.

Theorem C15_onstore_ent_roundtrip_example_by_theorem :
  exists d s',
    S.go_ExportGenesis rt_ws = Ok d /\ d = rt_doc /\
    S.go_InitGenesis (mk_esworld os_ex_emb os_ex_unemb 1800000000 (esw_bank rt_ws) []) d =
      Ok (mk_esworld os_ex_emb os_ex_unemb 1800000000 (esw_bank rt_ws) s', tt) /\
    Rent os_ex_dom os_ex_emb s' (ew_ent rt_w) /\ s' = esw_store rt_ws /\
    S.go_ExportGenesis (mk_esworld os_ex_emb os_ex_unemb 1800000000 (esw_bank rt_ws) s') = Ok d.
Proof. exact os_ent_roundtrip_ex_by_theorem. Qed.
Print Assumptions C15_onstore_ent_roundtrip_example_by_theorem.
