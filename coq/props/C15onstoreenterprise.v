(* C15 on BYTES, x/enterprise: genesis export and import ON THE BYTE-LEVEL STORE.
   InitGenesis / ExportGenesis of /repo/x/enterprise/genesis.go as translated on every run TWICE from the same source -
     (1) GeneratedEnterpriseKeeper.v         K.go_InitGenesis / K.go_ExportGenesis over the hand-written primitives on the
                                              abstract state (world [eworld]); C15_generated_ent_* prove them to be the
                                              model's export_ent / import_ent,
     (2) GeneratedEnterpriseKeeperOnStore.v  S.go_InitGenesis / S.go_ExportGenesis over the BYTE-LEVEL ordered KV store
                                              through the GENERATED store accessors (GeneratedEnterpriseStore.v, incl.
                                              the four export listings GetAllPurchaseOrders / GetAllLockedUnds /
                                              GetAllWhitelistedAddresses / GetAllSpentEFUNDs) and the adapters of
                                              model/EnterpriseStoreWorld.v (world [esworld]).
   Here: (2) against (1).

   Given (explicit in every statement, as in props/C04onstoreenterprise.v): dom, emb, unemb with emb_hyps dom emb unemb.
   Rw / Rwi / sim: C04_onstore_enterprise_relation (same clocks and bank, Rent dom emb (esw_store ws) (ew_ent w); Rwi adds
   the invariant einv).  Hypotheses, and why:
     ent_key_ordered emb st  the abstract state lists purchase orders by ascending id and whitelist / locked / spent
                         entries by ascending address BYTES (C15_onstore_ent_key_ordered_spelled): the store lists in key
                         order, the primitives list the association lists as they stand.  Ascending ids hold of every
                         reachable state (ids are issued ascending); the address orders do not, so the general statement
                         is the PERMUTATION one (C15_onstore_ent_export_permutation); needed for equality:
                         C15_onstore_ent_export_order_refuted.
     doc_side dom st d   (C15_onstore_ent_doc_side_spelled) what the byte store needs of a document imported onto st:
                         uint64 counter and ids; parameters where the two Params.Validate agree; parsing addresses in dom;
                         no whitelist entry twice or already present (C15_onstore_ent_doc_side_whitelist_refuted: the
                         primitive appends to a list, the store is a set); orders queued as Raised / Accepted in ascending
                         id order above what is queued, the raised ones below the counter (the primitives append, the
                         store keeps id-ordered sets: C04_onstore_enterprise side conditions).
   NOT done for this module (see the report): import into the EMPTY store (the relation Rent asks for the counter cell,
   so the empty store represents no state: the first two writes of InitGenesis have to be peeled off by hand) and the
   round trip on bytes.
   Proofs: proofs/GeneratedEnterpriseGenesisOnStoreEq.v. *)
From MC Require Import lib.Prelude lib.AMap lib.GoSdk GeneratedEnterpriseTypes model.Bank model.Enterprise model.EnterpriseSpec
  model.Keys model.KeyPrims model.KVStore model.StoreCodecPrims model.EnterpriseKeeperPrims model.EnterpriseStoreWorld
  model.EnterpriseGenSpec GeneratedKeys GeneratedEnterpriseStore.
From MC Require GeneratedEnterpriseKeeper GeneratedEnterpriseKeeperOnStore.
From MC Require Import proofs.GeneratedEnterpriseParamsEq proofs.KVStoreFacts proofs.GeneratedEnterpriseStoreEq
  proofs.GeneratedEnterpriseStoreRefines proofs.GeneratedEnterpriseOnStoreEq proofs.GeneratedEnterpriseGenesisOnStoreEq.
From Coq Require Import NArith ZArith List Bool Sorted Permutation.
Import ListNotations.
Local Open Scope Z_scope.

(* K = MC.GeneratedEnterpriseKeeper, S = MC.GeneratedEnterpriseKeeperOnStore (named in proofs/GeneratedEnterpriseOnStoreEq.v) *)

(* ------------------------------------------------------------------ *)
(* the side conditions, in full                                         *)
(* ------------------------------------------------------------------ *)

Theorem C15_onstore_ent_key_ordered_spelled : forall (emb : Z -> list N) (st : ent_state),
  ent_key_ordered emb st <->
  (StronglySorted Z.lt (map fst (e_pos st)) /\
   StronglySorted (fun a b => lex_lt (emb a) (emb b) = true) (e_wl st) /\
   StronglySorted (fun a b => lex_lt (emb a) (emb b) = true) (map fst (e_locked st)) /\
   StronglySorted (fun a b => lex_lt (emb a) (emb b) = true) (map fst (e_spent st))).
Proof. exact ent_key_ordered_spelled. Qed.
Print Assumptions C15_onstore_ent_key_ordered_spelled.

Theorem C15_onstore_ent_doc_side_spelled : forall (dom : Z -> Prop) (st : ent_state) (d : go_GenesisState),
  doc_side dom st d <->
  (ent_params_range (GenesisState_Params d) /\ denom_ok (GenesisState_Params d) /\
   0 <= GenesisState_StartingPurchaseOrderId d < 2 ^ 64 /\
   (forall y, In y (e_raisedq st) -> y < GenesisState_StartingPurchaseOrderId d) /\
   Forall (fun a => addr_parses a = true -> dom a) (GenesisState_Whitelist d) /\ NoDup (GenesisState_Whitelist d) /\
   (forall a, In a (GenesisState_Whitelist d) -> mem_addr a (e_wl st) = false) /\
   Forall (fun po => 0 <= EnterpriseUndPurchaseOrder_Id po < 2 ^ 64 /\
                     (addr_parses (EnterpriseUndPurchaseOrder_Purchaser po) = true -> dom (EnterpriseUndPurchaseOrder_Purchaser po)))
          (GenesisState_PurchaseOrders d) /\
   StronglySorted Z.lt (raised_ids (GenesisState_PurchaseOrders d)) /\
   (forall y r, In y (e_raisedq st) -> In r (raised_ids (GenesisState_PurchaseOrders d)) -> y < r) /\
   (forall r, In r (raised_ids (GenesisState_PurchaseOrders d)) -> r < GenesisState_StartingPurchaseOrderId d) /\
   StronglySorted Z.lt (accepted_ids (GenesisState_PurchaseOrders d)) /\
   (forall y r, In y (e_acceptedq st) -> In r (accepted_ids (GenesisState_PurchaseOrders d)) -> y < r) /\
   Forall (fun l => dom (LockedUnd_Owner l)) (GenesisState_LockedUnd d) /\
   Forall (fun l => dom (SpentEFUND_Owner l)) (GenesisState_SpentEfund d)).
Proof. exact doc_side_spelled. Qed.
Print Assumptions C15_onstore_ent_doc_side_spelled.

(* the ids of the orders a document queues: status 1 = Raised, 2 = Accepted *)
Theorem C15_onstore_ent_queued_ids_spelled : forall l : list go_EnterpriseUndPurchaseOrder,
  raised_ids l = map EnterpriseUndPurchaseOrder_Id (filter (fun po => EnterpriseUndPurchaseOrder_Status po =? 1) l) /\
  accepted_ids l = map EnterpriseUndPurchaseOrder_Id (filter (fun po => EnterpriseUndPurchaseOrder_Status po =? 2) l).
Proof. exact queued_ids_spelled. Qed.
Print Assumptions C15_onstore_ent_queued_ids_spelled.

(* ------------------------------------------------------------------ *)
(* 1. ExportGenesis                                                     *)
(* ------------------------------------------------------------------ *)

(* the document written from the bytes, on every related pair of worlds: parameters, counter and totals as the first
   rendering reads them, the four lists in store-key order (ksort: insertion sort by key, C18_store_enterprise_refines) *)
Theorem C15_onstore_ent_export_document :
  forall (dom : Z -> Prop) (emb : Z -> list N) (unemb : list N -> Z), emb_hyps dom emb unemb ->
  forall (w : eworld) (ws : esworld),
  Rw dom emb unemb w ws ->
  S.go_ExportGenesis ws =
    Ok (mk_go_GenesisState (ent_GetParams w) (e_next (ew_ent w))
          (map po_image (ksort po_key (e_pos (ew_ent w))))
          (map locked_image (ksort (locked_key emb) (e_locked (ew_ent w))))
          (ent_GetTotalLockedUnd w)
          (ksort (wl_key emb) (e_wl (ew_ent w)))
          (map spent_image (ksort (spent_key emb) (e_spent (ew_ent w))))
          (ent_GetTotalSpentEFUND w)).
Proof. exact os_ExportGenesis_run. Qed.
Print Assumptions C15_onstore_ent_export_document.

Theorem C15_onstore_ent_export_same_document :
  forall (dom : Z -> Prop) (emb : Z -> list N) (unemb : list N -> Z), emb_hyps dom emb unemb ->
  forall (w : eworld) (ws : esworld),
  Rw dom emb unemb w ws -> ent_key_ordered emb (ew_ent w) ->
  S.go_ExportGenesis ws = K.go_ExportGenesis w.
Proof. exact os_ExportGenesis_eq. Qed.
Print Assumptions C15_onstore_ent_export_same_document.

Theorem C15_onstore_ent_export_permutation :
  forall (dom : Z -> Prop) (emb : Z -> list N) (unemb : list N -> Z), emb_hyps dom emb unemb ->
  forall (w : eworld) (ws : esworld),
  Rw dom emb unemb w ws ->
  exists d d', S.go_ExportGenesis ws = Ok d /\ K.go_ExportGenesis w = Ok d' /\
    GenesisState_Params d = GenesisState_Params d' /\
    GenesisState_StartingPurchaseOrderId d = GenesisState_StartingPurchaseOrderId d' /\
    GenesisState_TotalLocked d = GenesisState_TotalLocked d' /\ GenesisState_TotalSpent d = GenesisState_TotalSpent d' /\
    Permutation (GenesisState_PurchaseOrders d) (GenesisState_PurchaseOrders d') /\
    Permutation (GenesisState_LockedUnd d) (GenesisState_LockedUnd d') /\
    Permutation (GenesisState_Whitelist d) (GenesisState_Whitelist d') /\
    Permutation (GenesisState_SpentEfund d) (GenesisState_SpentEfund d').
Proof. exact os_ExportGenesis_perm. Qed.
Print Assumptions C15_onstore_ent_export_permutation.

Theorem C15_onstore_ent_export_order_refuted :
  exists (w : eworld) (ws : esworld),
    Rw os_ex_dom os_ex_emb os_ex_unemb w ws /\ S.go_ExportGenesis ws <> K.go_ExportGenesis w.
Proof. exact os_ent_ExportGenesis_order_refuted. Qed.
Print Assumptions C15_onstore_ent_export_order_refuted.

(* ------------------------------------------------------------------ *)
(* 2. InitGenesis simulates                                             *)
(* ------------------------------------------------------------------ *)

Theorem C15_onstore_ent_import_simulates :
  forall (dom : Z -> Prop) (emb : Z -> list N) (unemb : list N -> Z), emb_hyps dom emb unemb ->
  forall (w : eworld) (ws : esworld) (d : go_GenesisState),
  Rwi dom emb unemb w ws -> doc_side dom (ew_ent w) d ->
  sim dom emb unemb (K.go_InitGenesis w d) (S.go_InitGenesis ws d).
Proof. exact os_InitGenesis_sim. Qed.
Print Assumptions C15_onstore_ent_import_simulates.

Theorem C15_onstore_ent_import_outcomes :
  forall (dom : Z -> Prop) (emb : Z -> list N) (unemb : list N -> Z), emb_hyps dom emb unemb ->
  forall (w : eworld) (ws : esworld) (d : go_GenesisState),
  Rwi dom emb unemb w ws -> doc_side dom (ew_ent w) d ->
  (forall ws', S.go_InitGenesis ws d = Ok (ws', tt) -> exists w', K.go_InitGenesis w d = Ok (w', tt) /\ Rwi dom emb unemb w' ws') /\
  (forall w', K.go_InitGenesis w d = Ok (w', tt) -> exists ws', S.go_InitGenesis ws d = Ok (ws', tt) /\ Rwi dom emb unemb w' ws') /\
  (forall c, K.go_InitGenesis w d = Panic c <-> S.go_InitGenesis ws d = Panic c) /\
  (forall e, K.go_InitGenesis w d = Err e <-> S.go_InitGenesis ws d = Err e).
Proof. exact os_InitGenesis_outcomes. Qed.
Print Assumptions C15_onstore_ent_import_outcomes.

Theorem C15_onstore_ent_doc_side_whitelist_refuted :
  let d := mk_go_GenesisState os_ex_params 1 [] [] (NUND, 50) [7; 7] [] (NUND, 0) in
  match K.go_InitGenesis exg_kw0 d, S.go_InitGenesis exg_sw0 d with
  | Ok (w', _), Ok (ws', _) =>
      (exists dk ds, K.go_ExportGenesis w' = Ok dk /\ S.go_ExportGenesis ws' = Ok ds /\
                     GenesisState_Whitelist dk = [7; 7] /\ GenesisState_Whitelist ds = [7])
  | _, _ => False
  end.
Proof. exact os_ent_doc_side_whitelist_refuted. Qed.
Print Assumptions C15_onstore_ent_doc_side_whitelist_refuted.

(* ------------------------------------------------------------------ *)
(* 3. a concrete store (20-byte addresses)                              *)
(* ------------------------------------------------------------------ *)

Theorem C15_onstore_ent_example :
  S.go_InitGenesis exg_sw0 exg_doc = Ok (exg_sw1, tt) /\ K.go_InitGenesis exg_kw0 exg_doc = Ok (exg_kw1, tt) /\
  List.length (esw_store exg_sw1) = 14%nat /\
  S.go_ExportGenesis exg_sw1 = Ok exg_doc1 /\ K.go_ExportGenesis exg_kw1 = Ok exg_doc /\ exg_doc <> exg_doc1 /\
  S.go_InitGenesis (mk_esworld os_ex_emb os_ex_unemb 0 os_ex_bank os_ex_store0) exg_doc = Panic enterprise_PANIC /\
  K.go_InitGenesis os_ex_kw0 exg_doc = Panic enterprise_PANIC.
Proof. exact os_ent_genesis_ex. Qed.
Print Assumptions C15_onstore_ent_example.

Theorem C15_onstore_ent_example_by_theorem :
  Rwi os_ex_dom os_ex_emb os_ex_unemb exg_kw0 exg_sw0 /\ doc_side os_ex_dom (ew_ent exg_kw0) exg_doc /\
  Rwi os_ex_dom os_ex_emb os_ex_unemb exg_kw1 exg_sw1 /\
  ~ ent_key_ordered os_ex_emb (ew_ent exg_kw1) /\
  S.go_ExportGenesis exg_sw1 <> K.go_ExportGenesis exg_kw1.
Proof. exact (conj exg_Rwi0 (conj exg_doc_side os_ent_genesis_ex_by_theorem)). Qed.
Print Assumptions C15_onstore_ent_example_by_theorem.
