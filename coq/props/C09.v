(* C09 - Registrations get unique sequential ids and an immutable sole-writer owner.

   Model: model/Registry.v ([heighted = true] wrkchain, [false] beacon).  Vocabulary:
   model/RegistrySpec.v.  Proofs: proofs/RegistryProofs.v.  [reg_inv heighted s g] is the inductive
   invariant of reachable (state, ghost) pairs (C07_reg_inv_init / _step / _set_params / _run in
   props/C07.v).  [g_reg g] is the ghost list of accepted registrations (id, message, unix time),
   oldest first; [q_registration s id] is the gRPC query for one registration. *)
From MC Require Import lib.Prelude lib.AMap model.Bank model.Registry model.RegistrySpec.
From MC Require Import proofs.RegistryProofs.
Local Open Scope Z_scope.

(* 12. After any run from genesis (any messages at all), the ids handed out are start, start+1, ...
   in order, the next id is start + number of registrations, and no id is used twice. *)
Theorem C09_ids_sequential :
  forall heighted p start h,
    let '(s, g) := reg_run heighted (reg_init p start, ghost_init) h in
    map (fun x => fst (fst x)) (g_reg g)
      = map (fun i => start + Z.of_nat i) (seq 0 (List.length (g_reg g))) /\
    r_next s = start + Z.of_nat (List.length (g_reg g)) /\
    NoDup (map (fun x => fst (fst x)) (g_reg g)).
Proof. exact C09_ids_sequential_stmt. Qed.
Print Assumptions C09_ids_sequential.

(* A successful registration gets the next id, which was unused, stores exactly the submitted
   moniker, name, genesis hash / type (wrkchain) and the signer as owner, and leaves every other
   registration alone. *)
Theorem C09_register_assigns_next_id :
  forall heighted s g t o moniker name genesis type s' r,
    reg_inv heighted s g ->
    reg_exec heighted t s (RRegister o moniker name genesis type) = Ok (s', r) ->
    r = RespRegistered (r_next s) /\ r_next s' = r_next s + 1 /\
    q_registration s (r_next s) = None /\
    q_registration s' (r_next s)
      = Some {| rg_id := r_next s; rg_owner := o; rg_moniker := moniker; rg_name := name;
                rg_genesis := if heighted then genesis else EmptyString;
                rg_type := if heighted then type else EmptyString;
                rg_last := 0; rg_num := 0; rg_lowest := 0; rg_regtime := t |} /\
    (forall id, id <> r_next s -> q_registration s' id = q_registration s id).
Proof. exact C09_register_next. Qed.
Print Assumptions C09_register_assigns_next_id.

(* 13. Whatever was accepted at registration is what the registration query shows, after every
   later history: id, owner, moniker, name, registration time, genesis hash and type never change. *)
Theorem C09_metadata_immutable :
  forall heighted s g h id o moniker name genesis type t,
    reg_inv heighted s g ->
    Forall (fun tm => reg_msg_wf (snd tm) /\ 0 <= fst tm) h ->
    In (id, RRegister o moniker name genesis type, t) (g_reg g) ->
    let '(s', g') := reg_run heighted (s, g) h in
    In (id, RRegister o moniker name genesis type, t) (g_reg g') /\
    exists rg, q_registration s' id = Some rg /\ rg_id rg = id /\
      rg_owner rg = o /\ rg_moniker rg = moniker /\ rg_name rg = name /\ rg_regtime rg = t /\
      (heighted = true -> rg_genesis rg = genesis /\ rg_type rg = type).
Proof. exact C09_metadata_immutable_stmt. Qed.
Print Assumptions C09_metadata_immutable.

(* 14. Only the owner of an existing registration records to it or purchases storage for it. *)
Theorem C09_only_owner_writes :
  forall heighted t s m s' r,
    reg_exec heighted t s m = Ok (s', r) ->
    match m with
    | RRegister _ _ _ _ _ => True
    | RRecord o id _ _ | RPurchase o id _ => exists rg, aget id (r_regs s) = Some rg /\ o = rg_owner rg
    end.
Proof. exact C09_only_owner. Qed.
Print Assumptions C09_only_owner_writes.

Theorem C09_non_owner_rejected :
  forall heighted t s o id rg,
    aget id (r_regs s) = Some rg -> o <> rg_owner rg ->
    (forall key hashes, exists c, reg_exec heighted t s (RRecord o id key hashes) = Err c) /\
    (forall n, exists c, reg_exec heighted t s (RPurchase o id n) = Err c).
Proof. exact C09_non_owner. Qed.
Print Assumptions C09_non_owner_rejected.

Theorem C09_unknown_id_rejected :
  forall heighted t s o id,
    aget id (r_regs s) = None ->
    (forall key hashes, exists c, reg_exec heighted t s (RRecord o id key hashes) = Err c) /\
    (forall n, exists c, reg_exec heighted t s (RPurchase o id n) = Err c).
Proof. exact C09_unknown_id. Qed.
Print Assumptions C09_unknown_id_rejected.

(* ... and a rejected message changes nothing (same statement as C07_rejected_changes_nothing). *)
Theorem C09_rejected_changes_nothing :
  forall heighted s g t m,
    (is_ok (reg_validate_basic heighted m) = false \/ is_ok (reg_exec heighted t s m) = false) ->
    reg_step heighted (s, g) (t, m) = (s, g).
Proof. exact C07_rejected_nothing. Qed.
Print Assumptions C09_rejected_changes_nothing.

(* ---- a concrete run: starting id 5 ---- *)

Example c09_ex_params : reg_params :=
  {| rp_fee_register := 1; rp_fee_record := 1; rp_fee_purchase := 1; rp_denom := 0;
     rp_default_limit := 2; rp_max_limit := 5 |}.

(* 7 and 8 register; an invalid registration (empty moniker) in between consumes no id; 8 then tries
   to write to 7's registration, and 7 to an id that does not exist *)
Example c09_ex_hist : list (Z * reg_msg) :=
  [ (100, RRegister 7 "mon7" "name7" "0xgen7" "geth");
    (101, RRegister 9 "" "name9" "0xgen9" "geth");
    (102, RRegister 8 "mon8" "name8" "0xgen8" "tendermint");
    (103, RRecord 7 5 10 ["h"%string]);
    (104, RRecord 8 5 20 ["evil"%string]);
    (105, RPurchase 8 5 1);
    (106, RRecord 7 7 10 ["h"%string]);
    (107, RPurchase 7 7 1);
    (108, RRegister 7 "mon7" "again" "0xgen7" "geth") ].

Example c09_ex_hist_wf : Forall (fun tm => reg_msg_wf (snd tm) /\ 0 <= fst tm) c09_ex_hist.
Proof. repeat constructor; cbn; unfold two64; lia. Qed.

Example c09_ex_ids :
  let '(s, g) := reg_run true (reg_init c09_ex_params 5, ghost_init) c09_ex_hist in
  map (fun x => fst (fst x)) (g_reg g) = [5; 6; 7] /\ r_next s = 8 /\
  option_map (fun rg => (rg_id rg, rg_owner rg, rg_moniker rg, rg_name rg, rg_genesis rg, rg_type rg, rg_regtime rg))
             (q_registration s 5) = Some (5, 7, "mon7", "name7", "0xgen7", "geth", 100)%string /\
  option_map (fun rg => (rg_id rg, rg_owner rg, rg_moniker rg, rg_name rg, rg_genesis rg, rg_type rg, rg_regtime rg))
             (q_registration s 6) = Some (6, 8, "mon8", "name8", "0xgen8", "tendermint", 102)%string /\
  option_map (fun rg => (rg_num rg, rg_last rg)) (q_registration s 5) = Some (1, 10) /\
  limit_of s 5 = 2 /\ keys_of 5 (r_recs s) = [10] /\ keys_of 7 (r_recs s) = [] /\ limit_of s 7 = 2.
Proof. vm_compute. repeat split. Qed.

Example c09_ex_rejections :
  let s := fst (reg_run true (reg_init c09_ex_params 5, ghost_init) (firstn 4 c09_ex_hist)) in
  reg_exec true 104 s (RRecord 8 5 20 ["evil"%string]) = Err ERR_REG_NOT_OWNER /\
  reg_exec true 105 s (RPurchase 8 5 1) = Err ERR_REG_NOT_OWNER /\
  reg_exec true 106 s (RRecord 7 7 10 ["h"%string]) = Err ERR_REG_UNKNOWN /\
  reg_exec true 107 s (RPurchase 7 7 1) = Err ERR_REG_UNKNOWN /\
  fst (reg_run true (reg_init c09_ex_params 5, ghost_init) (firstn 8 c09_ex_hist)) = s.
Proof. vm_compute. repeat split. Qed.

Example c09_ex_beacon_ids :
  let '(s, g) := reg_run false (reg_init c09_ex_params 5, ghost_init) c09_ex_hist in
  map (fun x => fst (fst x)) (g_reg g) = [5; 6; 7] /\ r_next s = 8 /\
  option_map (fun rg => (rg_id rg, rg_owner rg, rg_moniker rg, rg_name rg, rg_genesis rg, rg_type rg, rg_regtime rg))
             (q_registration s 6) = Some (6, 8, "mon8", "name8", "", "", 102)%string /\
  keys_of 5 (r_recs s) = [1].
Proof. vm_compute. repeat split. Qed.
