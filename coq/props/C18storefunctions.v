(* C18, source-derived: every function of the keepers that touches the store is translated or listed. *)
From Coq Require Import String List.
From MC Require GeneratedStreamStore GeneratedWrkchainStore GeneratedBeaconStore GeneratedEnterpriseStore proofs.StoreFunctions.
Import ListNotations.
Local Open Scope string_scope.

Theorem C18_store_functions_all_translated :
  GeneratedStreamStore.stream_store_functions_failed = [] /\
  GeneratedWrkchainStore.wrkchain_store_functions_failed = [] /\
  GeneratedBeaconStore.beacon_store_functions_failed = [] /\
  GeneratedEnterpriseStore.enterprise_store_functions_failed = [].
Proof. exact StoreFunctions.store_functions_all_translated. Qed.
Print Assumptions C18_store_functions_all_translated.

Theorem C18_store_functions_untranslated_as_reviewed :
  GeneratedStreamStore.stream_store_functions_other = [] /\
  GeneratedWrkchainStore.wrkchain_store_functions_other = ["GetWrkChainBlockHashesIterator"; "GetWrkChainsIterator"; "QuickCheckHeightIsRecorded"] /\
  GeneratedBeaconStore.beacon_store_functions_other = ["GetBeaconsIterator"] /\
  GeneratedEnterpriseStore.enterprise_store_functions_other = [].
Proof. exact StoreFunctions.store_functions_untranslated_as_reviewed. Qed.
Print Assumptions C18_store_functions_untranslated_as_reviewed.

Theorem C18_store_functions_counts :
  (List.length GeneratedStreamStore.stream_store_functions, List.length GeneratedWrkchainStore.wrkchain_store_functions,
   List.length GeneratedBeaconStore.beacon_store_functions, List.length GeneratedEnterpriseStore.enterprise_store_functions) = (7, 28, 26, 45)%nat.
Proof. exact StoreFunctions.store_functions_counts. Qed.
Print Assumptions C18_store_functions_counts.
