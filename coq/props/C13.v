(* C13: a message changes state only when the transaction is signed by the party the operation
   belongs to: the purchaser for raising an order, an authorised enterprise signer for decisions and
   whitelist changes, the registered owner for WRKChain/BEACON records and storage purchases, the
   stream sender for top-up, flow-rate change and cancel, the stream receiver for claims, and only the
   governance authority for parameter updates of all four modules.  The same message signed by, or
   naming, any other account is rejected and leaves state unchanged. *)
From MC Require Import lib.Prelude lib.AMap model.Bank model.Stream model.Registry model.Enterprise
  model.App model.AppSpec.
From MC Require Import proofs.AppFrame proofs.AppParamsProofs proofs.AppAuthProofs.
Local Open Scope Z_scope.

(* ---- 10: the signer of each message is the party it names (the GetSigners table) ---- *)
Theorem C13_signer_is_named_party :
  (forall p d amt, msg_signer (MEnt (ERaise p d amt)) = p) /\
  (forall sg poid dec, msg_signer (MEnt (EDecide sg poid dec)) = sg) /\
  (forall sg target act, msg_signer (MEnt (EWhitelist sg target act)) = sg) /\
  (forall o mo na ge ty, msg_signer (MWrk (RRegister o mo na ge ty)) = o) /\
  (forall o id key hs, msg_signer (MWrk (RRecord o id key hs)) = o) /\
  (forall o id n, msg_signer (MWrk (RPurchase o id n)) = o) /\
  (forall o mo na ge ty, msg_signer (MBcn (RRegister o mo na ge ty)) = o) /\
  (forall o id key hs, msg_signer (MBcn (RRecord o id key hs)) = o) /\
  (forall o id n, msg_signer (MBcn (RPurchase o id n)) = o) /\
  (forall sn r d amt rate, msg_signer (MStr (SCreate sn r d amt rate)) = sn) /\
  (forall sn r, msg_signer (MStr (SClaim sn r)) = r) /\
  (forall sn r d amt, msg_signer (MStr (STopUp sn r d amt)) = sn) /\
  (forall sn r rate, msg_signer (MStr (SUpdateFlow sn r rate)) = sn) /\
  (forall sn r, msg_signer (MStr (SCancel sn r)) = sn) /\
  (forall from to cs, msg_signer (MSend from to cs) = from) /\
  (forall granter grantee ty, msg_signer (MGrant granter grantee ty) = granter) /\
  (forall granter grantee, msg_signer (MFeeAllow granter grantee) = granter) /\
  (forall grantee inner, msg_signer (MExec grantee inner) = grantee) /\
  (forall authority u, msg_signer (MUpdParams authority u) = authority).
Proof. exact signer_is_named_party. Qed.
Print Assumptions C13_signer_is_named_party.

(* ---- 6: a message that succeeds was entitled in the state it ran in ---- *)
Theorem C13_exec_requires_entitlement : forall f a m a',
  exec_msg f a m = Ok a' -> entitled a m.
Proof. exact exec_requires_entitlement. Qed.
Print Assumptions C13_exec_requires_entitlement.

(* wrappers, recursively: see [auth_exec] / [auth_trace] in proofs/AppAuthProofs.v *)
Theorem C13_exec_inner_authorised : forall f a m a',
  exec_msg f a m = Ok a' -> auth_exec f a m a'.
Proof. exact exec_inner_authorised. Qed.
Print Assumptions C13_exec_inner_authorised.

Theorem C13_exec_inner_unauthorised_rejected : forall f a g pre i post ak,
  fold_left (fun acc i => do a1 <- acc;
                          if (msg_signer i =? g) || has_grant a1 (msg_signer i) g (msg_type i)
                          then exec_msg f a1 i else Err ERR_AUTHZ) pre (Ok a) = Ok ak ->
  msg_signer i <> g -> has_grant ak (msg_signer i) g (msg_type i) = false ->
  exec_msg (S f) a (MExec g (pre ++ i :: post)) = Err ERR_AUTHZ.
Proof. exact exec_inner_unauthorised_rejected. Qed.
Print Assumptions C13_exec_inner_unauthorised_rejected.

(* ---- 7: a message naming a party it does not belong to is rejected (an Err: state unchanged) ---- *)
Theorem C13_not_entitled_rejected : forall f a m,
  ~ entitled a m -> is_exec m = false -> exists c, exec_msg (S f) a m = Err c.
Proof. exact not_entitled_rejected. Qed.
Print Assumptions C13_not_entitled_rejected.

(* ---- 8: parameter updates ---- *)
Theorem C13_only_gov_updates_params : forall f a authority u a',
  exec_msg f a (MUpdParams authority u) = Ok a' -> authority = GOV_MACC.
Proof. exact only_gov_updates_params. Qed.
Print Assumptions C13_only_gov_updates_params.

Theorem C13_user_tx_cannot_update_params : forall a t a' r,
  deliver_tx a t = (a', r) -> (forall m, In m (tx_msgs t) -> 0 <= msg_signer m) ->
  (forall g, In g (a_grants a) -> 0 <= fst (fst g)) ->
  e_params (a_ent a') = e_params (a_ent a) /\ r_params (a_wrk a') = r_params (a_wrk a) /\
  r_params (a_bcn a') = r_params (a_bcn a) /\ s_valfee (a_str a') = s_valfee (a_str a).
Proof. exact user_tx_cannot_update_params. Qed.
Print Assumptions C13_user_tx_cannot_update_params.

Theorem C13_no_module_grants_invariant : forall a t a' r,
  deliver_tx a t = (a', r) -> (forall m, In m (tx_msgs t) -> 0 <= msg_signer m) ->
  (forall g, In g (a_grants a) -> 0 <= fst (fst g)) ->
  (forall g, In g (a_grants a') -> 0 <= fst (fst g)).
Proof. exact no_module_grants_invariant. Qed.
Print Assumptions C13_no_module_grants_invariant.

Theorem C13_check_tx_keeps_grants : forall a t a' r, check_tx a t = (a', r) -> a_grants a' = a_grants a.
Proof. exact check_tx_grants. Qed.
Print Assumptions C13_check_tx_keeps_grants.

Theorem C13_begin_block_keeps_grants : forall a now a', begin_block a now = Some a' -> a_grants a' = a_grants a.
Proof. exact begin_block_grants. Qed.
Print Assumptions C13_begin_block_keeps_grants.

(* ---- 9: a transaction lacking a valid signature of its signers changes nothing ---- *)
Theorem C13_signature_required : forall a t a' r,
  deliver_tx a t = (a', r) -> tx_sig_ok t = false -> a' = a /\ r <> TxOk.
Proof. exact signature_required. Qed.
Print Assumptions C13_signature_required.

Theorem C13_signature_required_check : forall a t a' r,
  check_tx a t = (a', r) -> tx_sig_ok t = false -> a' = a /\ r <> TxOk.
Proof. exact signature_required_check. Qed.
Print Assumptions C13_signature_required_check.

(* ---- the hypotheses are satisfiable ---- *)
Example ex_rp : reg_params :=
  {| rp_fee_register := 1000; rp_fee_record := 1; rp_fee_purchase := 5; rp_denom := NUND;
     rp_default_limit := 100; rp_max_limit := 1000 |}.
Example ex_rg : registration :=
  {| rg_id := 1; rg_owner := 1; rg_moniker := "m"; rg_name := "n"; rg_genesis := "g"; rg_type := "t";
     rg_last := 0; rg_num := 0; rg_lowest := 0; rg_regtime := 1700000000 |}.
Example ex_reg : reg_state :=
  {| r_params := ex_rp; r_next := 2; r_regs := [(1, ex_rg)]; r_limits := [(1, 100)]; r_recs := [] |}.
Example ex_app : app :=
  {| a_bank := {| bal := [((1, NUND), 10000); ((2, NUND), 5000); ((3, NUND), 5000)]; supply := [(NUND, 20000)] |};
     a_ent := {| e_params := {| ep_denom := NUND; ep_min_accepts := 1; ep_time_limit := 100; ep_signers := [7] |};
                 e_next := 1; e_pos := []; e_raisedq := []; e_acceptedq := []; e_wl := [1];
                 e_locked := []; e_spent := []; e_totlocked := None; e_totspent := None |};
     a_wrk := ex_reg; a_bcn := ex_reg;
     a_str := {| s_valfee := 10000000000000000; s_streams := [] |};
     a_grants := [(1, 3, 5)];        (* account 1 lets account 3 submit WRKChain records for it *)
     a_allow := []; a_now := 1700000000 * NS |}.

Example ex_tx (ms : list msg) (fee : Z) : tx :=
  {| tx_msgs := ms; tx_fee := [(NUND, fee)]; tx_granter := None; tx_sig_ok := true |}.

(* the owner records; anyone else naming itself or naming the owner without its signature does not *)
Example ex_owner_records :
  snd (deliver_tx ex_app (ex_tx [MWrk (RRecord 1 1 10 ["h"%string])] 1)) = TxOk /\
  snd (deliver_tx ex_app (ex_tx [MWrk (RRecord 2 1 10 ["h"%string])] 1)) = TxFailed ERR_REG_NOT_OWNER /\
  ~ entitled ex_app (MWrk (RRecord 2 1 10 ["h"%string])) /\
  (* naming the owner inside a wrapper without a grant *)
  snd (deliver_tx ex_app (ex_tx [MExec 2 [MWrk (RRecord 1 1 10 ["h"%string])]] 1)) = TxFailed ERR_AUTHZ /\
  (* with the owner's grant *)
  snd (deliver_tx ex_app (ex_tx [MExec 3 [MWrk (RRecord 1 1 10 ["h"%string])]] 1)) = TxOk /\
  (* the grant covers records only, not storage purchases *)
  snd (deliver_tx ex_app (ex_tx [MExec 3 [MWrk (RPurchase 1 1 10)]] 1)) = TxFailed ERR_AUTHZ.
Proof.
  vm_compute. repeat split; try reflexivity.
  intros (rg & E & O). injection E as <-. discriminate O.
Qed.

(* enterprise: only the purchaser raises, only a signer decides; parameters: only governance *)
Example ex_enterprise_and_params :
  snd (deliver_tx ex_app (ex_tx [MEnt (ERaise 1 NUND 100)] 1)) = TxOk /\
  snd (deliver_tx ex_app (ex_tx [MEnt (ERaise 2 NUND 100)] 1)) = TxFailed ERR_ENT_NOT_WL /\
  snd (deliver_tx ex_app (ex_tx [MEnt (EWhitelist 2 2 1)] 1)) = TxFailed ERR_ENT_UNAUTH /\
  snd (deliver_tx ex_app (ex_tx [MUpdParams 1 (UStr 5)] 1)) = TxFailed ERR_GOV_AUTH /\
  snd (deliver_tx ex_app (ex_tx [MExec 1 [MUpdParams GOV_MACC (UStr 5)]] 1)) = TxFailed ERR_AUTHZ /\
  (forall g, In g (a_grants ex_app) -> 0 <= fst (fst g)).
Proof.
  vm_compute. repeat split; try reflexivity.
  intros g [<-|[]]. cbn. discriminate.
Qed.

(* an unsigned transaction changes nothing *)
Example ex_unsigned :
  deliver_tx ex_app {| tx_msgs := [MSend 1 2 [(NUND, 5)]]; tx_fee := [(NUND, 1)]; tx_granter := None;
                       tx_sig_ok := false |} = (ex_app, TxRejected ERR_BAD_SIG).
Proof. vm_compute. reflexivity. Qed.
