(* C15, link to the source: InitGenesis of /repo/x/stream/keeper/genesis.go as generated on every run
   (coq/GeneratedStreamKeeper.v: go_InitGenesis) against the model of genesis import (model/Genesis.v: import_str).  The
   generated document is read as the model's by [gen_str_of_go], a fresh store is [fresh_kworld]
   (model/StreamGenesisGenSpec.v).  (ExportGenesis of x/stream is translated too (props/C15generatedstr2.v).)
   Proofs: proofs/GeneratedStreamGenesisEq.v.

   What the Go code does: sets the parameters (dropping the error), stores every stream of the document while adding its
   deposit to moduleHoldings (Coins.Add), then compares the positive balances of the module account with the holdings by
   Coins.IsEqual and panics on a mismatch.  The model folds the streams into the map and asks, per denomination held or
   deposited, balance = total deposits of the imported store.

   Hypotheses (each shown necessary by an example below, C15_generated_str_*_needed):
     str_params_valid ..      InitGenesis drops the error of SetParams; with an invalid fee the Go code keeps the old fee
                              and goes on, the model refuses (GenesisState.Validate rejects such a document earlier);
     bank_wf b                one row per (account, denomination): the model's tests read every row and [balance] (the
                              first row), GetAllBalances lists every positive row;
     macc_nonneg b            no row of the module account is negative: GetAllBalances lists the positive rows only;
     NoDup (str_doc_keys g)   no two entries under one (receiver, sender) key: SetStream overwrites the earlier entry but
                              moduleHoldings keeps its deposit, so the Go code compares the balance with the sum over the
                              DOCUMENT, the model with the sum over the imported STORE.  On such a document the Go code
                              can succeed with an escrow larger than the stored deposits
                              (C15_generated_str_dup_keys_needed): nothing in x/stream (GenesisState.Validate validates
                              the parameters only) rejects it.
     Forall stream_storable   (for C15_generated_str_import_is_model only) every time of the document can be marshalled:
                              SetStream panics on one that cannot, the model stores it.
   Whenever the model refuses the Go code panics, whenever the Go code succeeds the model accepts with the same store
   (C15_generated_str_import_refused, C15_generated_str_import_ok): no hypothesis on times, deposits (a negative one is
   refused by both sides) or denominations. *)
From MC Require Import lib.Prelude lib.AMap lib.GoSdk GeneratedFns GeneratedStreamTypes model.Bank model.Stream model.StreamSpec
  model.Genesis model.StreamKeeperPrims GeneratedStreamKeeper model.StreamGenesisGenSpec.
From MC Require Import proofs.BankProofs proofs.GeneratedStreamGenesisEq.
Local Open Scope Z_scope.

(* the generated code succeeds: the model accepts with the same store; the bank is untouched *)
Theorem C15_generated_str_import_ok : forall now b vf0 g w',
  str_params_valid (Params_ValidatorFee (GenesisState_Params g)) = true ->
  bank_wf b -> macc_nonneg b -> NoDup (str_doc_keys g) ->
  go_InitGenesis (fresh_kworld now b vf0) g = Ok (w', tt) ->
  import_str b (gen_str_of_go g) = Some (kw_str w') /\ kw_bank w' = b.
Proof. exact gen_str_InitGenesis_ok. Qed.
Print Assumptions C15_generated_str_import_ok.

(* the model refuses: the generated code panics *)
Theorem C15_generated_str_import_refused : forall now b vf0 g,
  str_params_valid (Params_ValidatorFee (GenesisState_Params g)) = true ->
  bank_wf b -> macc_nonneg b -> NoDup (str_doc_keys g) ->
  import_str b (gen_str_of_go g) = None ->
  exists c, go_InitGenesis (fresh_kworld now b vf0) g = Panic c.
Proof. exact gen_str_InitGenesis_none. Qed.
Print Assumptions C15_generated_str_import_refused.

(* with storable times: the generated InitGenesis is the model's import *)
Theorem C15_generated_str_import_is_model : forall now b vf0 g,
  str_params_valid (Params_ValidatorFee (GenesisState_Params g)) = true ->
  bank_wf b -> macc_nonneg b -> NoDup (str_doc_keys g) ->
  Forall stream_storable (GenesisState_Streams g) ->
  match import_str b (gen_str_of_go g) with
  | Some s' => go_InitGenesis (fresh_kworld now b vf0) g = Ok (with_str (fresh_kworld now b vf0) s', tt)
  | None => exists c, go_InitGenesis (fresh_kworld now b vf0) g = Panic c
  end.
Proof. exact gen_str_InitGenesis_eq. Qed.
Print Assumptions C15_generated_str_import_is_model.

(* on every world and every document with valid parameters *)
Theorem C15_generated_str_import_run : forall w g,
  str_params_valid (Params_ValidatorFee (GenesisState_Params g)) = true ->
  go_InitGenesis w g =
    if forallb stream_okb (GenesisState_Streams g) then
      match go_str_escrow_check (kw_bank w) (GenesisState_Streams g) with
      | Ok true => Ok (with_str w (import_go g (kw_str w)), tt)
      | Ok false => Panic stream_PANIC
      | Panic c => Panic c
      | Err e => Err e
      end
    else Panic PANIC_MARSHAL.
Proof. exact gen_str_InitGenesis_run. Qed.
Print Assumptions C15_generated_str_import_run.

(* Coins.IsEqual(balances, holdings) succeeds exactly when the module account holds the sum of the document's deposits
   in every denomination *)
Theorem C15_generated_str_escrow_check : forall b l,
  bank_wf b -> macc_nonneg b ->
  (go_str_escrow_check b l = Ok true <-> forall d, balance b STREAM_MACC d = doc_sum l d).
Proof. exact go_str_escrow_check_iff. Qed.
Print Assumptions C15_generated_str_escrow_check.

(* ---------- examples ---------- *)
(* three streams in two denominations (500 and 30 of denomination 0, 70 of denomination 1), the module account holding
   530 and 70 (stored in the other order): the import succeeds, the store is the model's *)
Example C15_generated_str_import_ex :
  match go_InitGenesis (fresh_kworld 99 (exs_bank 530 70) 7) exs_doc with
  | Ok (w', _) =>
      import_str (exs_bank 530 70) (gen_str_of_go exs_doc) = Some (kw_str w') /\ kw_bank w' = exs_bank 530 70 /\
      kw_now w' = 99 /\ s_valfee (kw_str w') = 10000000000000000 /\
      akeys (s_streams (kw_str w')) = [(10, 11); (12, 11); (10, 13)] /\
      total_deposits (kw_str w') 0 = 530 /\ total_deposits (kw_str w') 1 = 70
  | _ => False
  end.
Proof. vm_compute. repeat split; reflexivity. Qed.

(* the same document, one unit missing in denomination 0: InitGenesis panics, the model refuses *)
Example C15_generated_str_import_mismatch_ex :
  go_InitGenesis (fresh_kworld 99 (exs_bank 529 70) 7) exs_doc = Panic stream_PANIC /\
  import_str (exs_bank 529 70) (gen_str_of_go exs_doc) = None.
Proof. vm_compute. split; reflexivity. Qed.

(* the concrete banks and the document satisfy the hypotheses of the import theorems *)
Example C15_generated_str_ex_hyps_ok :
  bank_wf (exs_bank 530 70) /\ macc_nonneg (exs_bank 530 70) /\ bank_wf (exs_bank 529 70) /\ macc_nonneg (exs_bank 529 70) /\
  NoDup (str_doc_keys exs_doc) /\ str_params_valid (Params_ValidatorFee (GenesisState_Params exs_doc)) = true.
Proof. exact exs_banks_ok. Qed.

(* an invalid fee (-1): the generated InitGenesis keeps the old fee (7) and imports the streams, the model refuses *)
Example C15_generated_str_invalid_params_ex :
  let g := set_GenesisState_Params exs_doc (mk_go_Params (-1)) in
  str_params_valid (Params_ValidatorFee (GenesisState_Params g)) = false /\
  import_str (exs_bank 530 70) (gen_str_of_go g) = None /\
  match go_InitGenesis (fresh_kworld 99 (exs_bank 530 70) 7) g with
  | Ok (w', _) => s_valfee (kw_str w') = 7 /\ s_streams (kw_str w') = str_doc_kvs (GenesisState_Streams exs_doc) /\
                  kw_bank w' = exs_bank 530 70
  | _ => False
  end.
Proof. exact gen_str_InitGenesis_invalid_params_differ. Qed.

(* the hypotheses cannot be dropped *)
Example C15_generated_str_dup_keys_needed :
  let g := mk_go_GenesisState exs_params [exs_entry 10 11 0 5; exs_entry 10 11 0 3] in
  let b := {| bal := [((STREAM_MACC, 0), 8)]; supply := [(0, 8)] |} in
  str_params_valid (Params_ValidatorFee (GenesisState_Params g)) = true /\
  NoDup (akeys (bal b)) /\ macc_nonneg b /\ Forall stream_storable (GenesisState_Streams g) /\
  import_str b (gen_str_of_go g) = None /\
  match go_InitGenesis (fresh_kworld 0 b 7) g with
  | Ok (w', _) => akeys (s_streams (kw_str w')) = [(10, 11)] /\ total_deposits (kw_str w') 0 = 3 /\
                  balance (kw_bank w') STREAM_MACC 0 = 8 /\ ~ escrow_backed (kw_bank w') (kw_str w')
  | _ => False
  end.
Proof. exact gen_str_InitGenesis_dup_keys_refuted. Qed.
Example C15_generated_str_dup_keys_needed2 :
  let g := mk_go_GenesisState exs_params [exs_entry 10 11 0 5; exs_entry 10 11 0 3] in
  let b := {| bal := [((STREAM_MACC, 0), 3)]; supply := [(0, 3)] |} in
  (exists s', import_str b (gen_str_of_go g) = Some s') /\
  go_InitGenesis (fresh_kworld 0 b 7) g = Panic stream_PANIC.
Proof. exact gen_str_InitGenesis_dup_keys_refuted2. Qed.
Example C15_generated_str_bank_wf_needed :
  let g := mk_go_GenesisState exs_params [exs_entry 10 11 0 5] in
  let b := {| bal := [((STREAM_MACC, 0), 0); ((STREAM_MACC, 0), 5)]; supply := [] |} in
  macc_nonneg b /\ NoDup (str_doc_keys g) /\
  import_str b (gen_str_of_go g) = None /\
  exists w', go_InitGenesis (fresh_kworld 0 b 7) g = Ok (w', tt).
Proof. exact gen_str_InitGenesis_bank_wf_refuted. Qed.
Example C15_generated_str_nonneg_needed :
  let g := mk_go_GenesisState exs_params [] in
  let b := {| bal := [((STREAM_MACC, 1), -5)]; supply := [] |} in
  NoDup (akeys (bal b)) /\ NoDup (str_doc_keys g) /\
  import_str b (gen_str_of_go g) = None /\
  exists w', go_InitGenesis (fresh_kworld 0 b 7) g = Ok (w', tt).
Proof. exact gen_str_InitGenesis_nonneg_refuted. Qed.
Example C15_generated_str_storable_needed :
  let g := mk_go_GenesisState exs_params [mk_go_StreamExport 10 11 (mk_go_Stream (0, 5) 10 0 ((TS_MAX + 1) * NSEC) true)] in
  let b := {| bal := [((STREAM_MACC, 0), 5)]; supply := [] |} in
  (exists s', import_str b (gen_str_of_go g) = Some s') /\
  go_InitGenesis (fresh_kworld 0 b 7) g = Panic PANIC_MARSHAL.
Proof. exact gen_str_InitGenesis_storable_refuted. Qed.
(* holdings in a denomination the account does not hold: Coin.IsEqual panics, the model refuses *)
Example C15_generated_str_other_denom_ex :
  let g := mk_go_GenesisState exs_params [exs_entry 10 11 0 5] in
  let b := {| bal := [((STREAM_MACC, 1), 5)]; supply := [] |} in
  import_str b (gen_str_of_go g) = None /\
  go_InitGenesis (fresh_kworld 0 b 7) g = Panic GO_PANIC_DENOM.
Proof. exact gen_str_InitGenesis_other_denom_both_refuse. Qed.
