(* C08, link to the source: the storage-limit code of /repo/x/wrkchain/keeper as generated on every run
   (coq/GeneratedWrkchainKeeper.v) is the registry model (model/Registry.v, heighted = true) about which C08 is proved
   (props/C08.v): GetMaxPurchasableSlots is [max_purchasable], the purchase handler is the model's, and recording
   past the limit prunes exactly what the model prunes.  Proofs: proofs/GeneratedWrkchainEq.v. *)
From MC Require Import lib.Prelude lib.AMap lib.GoSdk GeneratedWrkchainTypes model.Bank model.Registry model.RegistrySpec
  model.WrkchainKeeperPrims GeneratedWrkchainKeeper model.WrkchainGenSpec.
From MC Require Import proofs.RegistryProofs proofs.GeneratedWrkchainEq.
Local Open Scope string_scope.
Local Open Scope Z_scope.

Theorem C08_generated_wrk_capacity : forall w id,
  rp_max_limit (r_params (rw_reg w)) < two64 ->
  (forall l, aget id (r_limits (rw_reg w)) = Some l -> 0 <= l) ->
  go_GetMaxPurchasableSlots w id = Ok (max_purchasable (rw_reg w) id).
Proof. exact gen_wrk_GetMaxPurchasableSlots_eq. Qed.
Print Assumptions C08_generated_wrk_capacity.

Theorem C08_generated_wrk_purchase : forall now wall s (o : addr) id n,
  reg_counters_small s -> 0 <= n ->
  wrk_msg_exec (mk_rworld now wall s) (RPurchase o id n) =
    rlift (mk_rworld now wall s) (reg_exec true (now / NSEC) s (RPurchase o id n)).
Proof. exact gen_wrk_purchase_eq. Qed.
Print Assumptions C08_generated_wrk_purchase.

Theorem C08_generated_wrk_record_prunes : forall w id rg height h0 h1 h2 h3 h4,
  aget id (r_regs (rw_reg w)) = Some rg -> rg_id rg = id ->
  0 <= Time_Unix (rw_now w) < two64 -> 0 <= rg_num rg < two64 - 1 ->
  go_RecordNewWrkchainHashes w id height h0 h1 h2 h3 h4 =
    let '(s', _, pruned) := record_new true (Time_Unix (rw_now w)) (rw_reg w) rg height [h0; h1; h2; h3; h4] in
    Ok (with_reg w s', pruned).
Proof. exact gen_wrk_RecordNewWrkchainHashes_eq. Qed.
Print Assumptions C08_generated_wrk_record_prunes.

(* examples: one registration (id 1, owner 7) with limit 2 of a maximum of 10 *)
Example C08_generated_wrk_capacity_ex :
  go_GetMaxPurchasableSlots (mk_rworld ex_now 0 ex_state) 1 = Ok 8 /\
  go_GetMaxPurchasableSlots (mk_rworld ex_now 0 ex_state) 2 = Ok 0.
Proof. vm_compute. auto. Qed.

(* the owner buys 3 slots: limit 5, 5 more can be bought; the model says the same *)
Example C08_generated_wrk_purchase_ex :
  exists w', wrk_msg_exec (mk_rworld ex_now 0 ex_state) (RPurchase 7 1 3) = Ok (w', RespPurchased 1 3 5) /\
    limit_of (rw_reg w') 1 = 5 /\
    rlift (mk_rworld ex_now 0 ex_state) (reg_exec true (ex_now / NSEC) ex_state (RPurchase 7 1 3)) = Ok (w', RespPurchased 1 3 5).
Proof. eexists. split; [vm_compute; reflexivity|]. split; vm_compute; reflexivity. Qed.

(* 9 slots would exceed the maximum; nobody but the owner may buy; zero slots is refused *)
Example C08_generated_wrk_purchase_rejected_ex :
  wrk_msg_exec (mk_rworld ex_now 0 ex_state) (RPurchase 7 1 9) = Err ERR_REG_MAX /\
  wrk_msg_exec (mk_rworld ex_now 0 ex_state) (RPurchase 8 1 3) = Err ERR_REG_NOT_OWNER /\
  wrk_msg_exec (mk_rworld ex_now 0 ex_state) (RPurchase 7 1 0) = Err ERR_REG.
Proof. vm_compute. auto. Qed.

(* recording past the limit of 2 prunes the lowest height, and the count stays at the limit *)
Example C08_generated_wrk_record_prunes_ex :
  let s := fst (wrk_run 0 (reg_init ex_params 1, ghost_init) ex_history) in
  keys_of 1 (r_recs s) = [20; 30] /\
  (exists rg, aget 1 (r_regs s) = Some rg /\ rg_num rg = 2 /\ rg_lowest rg = 20 /\ rg_last rg = 30).
Proof. cbv zeta. split; [vm_compute; reflexivity|]. eexists. split; [vm_compute; reflexivity|]. vm_compute. auto. Qed.
