(* C08, link to the source: the storage-limit code of /repo/x/beacon/keeper as generated on every run
   (coq/GeneratedBeaconKeeper.v) is the registry model (model/Registry.v, heighted = false) about which C08 is proved
   (props/C08.v): GetMaxPurchasableSlots is [max_purchasable], the purchase handler is the model's, and recording
   past the limit prunes exactly what the model prunes.  Proofs: proofs/GeneratedBeaconEq.v. *)
From MC Require Import lib.Prelude lib.AMap lib.GoSdk GeneratedBeaconTypes model.Bank model.Registry model.RegistrySpec
  model.BeaconKeeperPrims GeneratedBeaconKeeper model.BeaconGenSpec.
From MC Require Import proofs.RegistryProofs proofs.GeneratedBeaconEq.
Local Open Scope string_scope.
Local Open Scope Z_scope.

Theorem C08_generated_bcn_capacity : forall w id,
  rp_max_limit (r_params (rw_reg w)) < two64 ->
  (forall l, aget id (r_limits (rw_reg w)) = Some l -> 0 <= l) ->
  go_GetMaxPurchasableSlots w id = Ok (max_purchasable (rw_reg w) id).
Proof. exact gen_bcn_GetMaxPurchasableSlots_eq. Qed.
Print Assumptions C08_generated_bcn_capacity.

Theorem C08_generated_bcn_purchase : forall now wall s (o : addr) id n,
  reg_counters_small s -> 0 <= n ->
  bcn_msg_exec (mk_rworld now wall s) (RPurchase o id n) =
    rlift (mk_rworld now wall s) (reg_exec false (now / NSEC) s (RPurchase o id n)).
Proof. exact gen_bcn_purchase_eq. Qed.
Print Assumptions C08_generated_bcn_purchase.

Theorem C08_generated_bcn_record_prunes : forall w id rg hash submitTime,
  aget id (r_regs (rw_reg w)) = Some rg -> rg_id rg = id ->
  rg_genesis rg = EmptyString -> rg_type rg = EmptyString ->
  0 <= rg_last rg < two64 - 1 -> 0 <= rg_num rg < two64 - 1 -> 0 <= rg_lowest rg < two64 - 1 ->
  (rg_lowest rg = 0 -> rg_num rg < limit_of (rw_reg w) id) ->
  go_RecordNewBeaconTimestamp w id hash submitTime =
    let '(s', k, pruned) := record_new false (Time_Unix (rw_now w)) (rw_reg w) rg submitTime [hash] in
    Ok (with_reg w s', (k, pruned)).
Proof. exact gen_bcn_RecordNewBeaconTimestamp_eq. Qed.
Print Assumptions C08_generated_bcn_record_prunes.

(* examples: one registration (id 1, owner 7) with limit 2 of a maximum of 10 *)
Example C08_generated_bcn_capacity_ex :
  go_GetMaxPurchasableSlots (mk_rworld ex_now 0 (ex_state "")) 1 = Ok 8 /\
  go_GetMaxPurchasableSlots (mk_rworld ex_now 0 (ex_state "")) 2 = Ok 0.
Proof. vm_compute. auto. Qed.

(* the owner buys 3 slots: limit 5, 5 more can be bought; the model says the same *)
Example C08_generated_bcn_purchase_ex :
  exists w', bcn_msg_exec (mk_rworld ex_now 0 (ex_state "")) (RPurchase 7 1 3) = Ok (w', RespPurchased 1 3 5) /\
    limit_of (rw_reg w') 1 = 5 /\
    rlift (mk_rworld ex_now 0 (ex_state "")) (reg_exec false (ex_now / NSEC) (ex_state "") (RPurchase 7 1 3)) = Ok (w', RespPurchased 1 3 5).
Proof. eexists. split; [vm_compute; reflexivity|]. split; vm_compute; reflexivity. Qed.

(* 9 slots would exceed the maximum; nobody but the owner may buy; zero slots is refused *)
Example C08_generated_bcn_purchase_rejected_ex :
  bcn_msg_exec (mk_rworld ex_now 0 (ex_state "")) (RPurchase 7 1 9) = Err ERR_REG_MAX /\
  bcn_msg_exec (mk_rworld ex_now 0 (ex_state "")) (RPurchase 8 1 3) = Err ERR_REG_NOT_OWNER /\
  bcn_msg_exec (mk_rworld ex_now 0 (ex_state "")) (RPurchase 7 1 0) = Err ERR_REG.
Proof. vm_compute. auto. Qed.

(* recording past the limit of 2 prunes the lowest timestamp id, and the count stays at the limit *)
Example C08_generated_bcn_record_prunes_ex :
  let s := fst (bcn_run 0 (reg_init ex_params 1, ghost_init) ex_history) in
  keys_of 1 (r_recs s) = [2; 3] /\
  (exists rg, aget 1 (r_regs s) = Some rg /\ rg_num rg = 2 /\ rg_lowest rg = 2 /\ rg_last rg = 3).
Proof. cbv zeta. split; [vm_compute; reflexivity|]. eexists. split; [vm_compute; reflexivity|]. vm_compute. auto. Qed.
