(* C16, link to the source: UpdateParams of /repo/x/beacon/keeper/msg_server.go as generated on every run
   (coq/GeneratedBeaconKeeper.v): only the gov module account is obeyed (x/gov ErrInvalidSigner = 42 otherwise), the new
   parameters are validated (Params.Validate = [reg_params_valid]; error 40 otherwise), and only the parameters change.
   (The x/wrkchain and x/beacon keepers define the same names: one file per module.)  Proofs: proofs/GeneratedBeaconEq.v. *)
From MC Require Import lib.Prelude lib.AMap lib.GoSdk GeneratedBeaconTypes model.Bank model.Registry model.RegistrySpec
  model.BeaconKeeperPrims GeneratedBeaconKeeper model.BeaconGenSpec.
From MC Require Import proofs.RegistryProofs proofs.GeneratedBeaconEq.
Local Open Scope string_scope.
Local Open Scope Z_scope.

Theorem C16_generated_bcn_update_params : forall w (auth : addr) p,
  go_UpdateParams w (mk_go_MsgUpdateParams auth p) =
    if negb (auth =? GOV_MACC) then Err 42
    else if reg_params_valid (params_of_go p)
         then Ok (with_reg w {| r_params := params_of_go p; r_next := r_next (rw_reg w); r_regs := r_regs (rw_reg w);
                                r_limits := r_limits (rw_reg w); r_recs := r_recs (rw_reg w) |},
                  mk_go_MsgUpdateParamsResponse)
         else Err 40.
Proof. exact gen_bcn_UpdateParams_eq. Qed.
Print Assumptions C16_generated_bcn_update_params.

(* examples: one registration, fees 1/1/1, default limit 2, maximum 10 *)
(* gov raises the maximum to 20: only the parameters change *)
Example C16_generated_bcn_gov_ex :
  exists w', go_UpdateParams (mk_rworld ex_now 0 (ex_state "")) (mk_go_MsgUpdateParams GOV_MACC (mk_go_Params 1 1 1 0 2 20))
               = Ok (w', mk_go_MsgUpdateParamsResponse) /\
    rp_max_limit (r_params (rw_reg w')) = 20 /\ r_regs (rw_reg w') = r_regs (ex_state "") /\
    r_limits (rw_reg w') = r_limits (ex_state "") /\ r_next (rw_reg w') = 2.
Proof. eexists. split; [vm_compute; reflexivity|]. vm_compute. auto. Qed.

(* an ordinary account is refused *)
Example C16_generated_bcn_not_gov_ex :
  go_UpdateParams (mk_rworld ex_now 0 (ex_state "")) (mk_go_MsgUpdateParams 7 (mk_go_Params 1 1 1 0 2 20)) = Err 42.
Proof. vm_compute. reflexivity. Qed.

(* gov itself cannot store invalid parameters: a default limit above the maximum, a zero fee, a blank denomination *)
Example C16_generated_bcn_invalid_ex :
  go_UpdateParams (mk_rworld ex_now 0 (ex_state "")) (mk_go_MsgUpdateParams GOV_MACC (mk_go_Params 1 1 1 0 30 20)) = Err 40 /\
  go_UpdateParams (mk_rworld ex_now 0 (ex_state "")) (mk_go_MsgUpdateParams GOV_MACC (mk_go_Params 0 1 1 0 2 20)) = Err 40 /\
  go_UpdateParams (mk_rworld ex_now 0 (ex_state "")) (mk_go_MsgUpdateParams GOV_MACC (mk_go_Params 1 1 1 (-1) 2 20)) = Err 40.
Proof. vm_compute. auto. Qed.
