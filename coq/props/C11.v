(* C11: streams release funds at exactly the agreed rate, never faster.
   Before the deposit-zero time a release pays exactly min(remaining deposit, flow rate x whole
   seconds since the previous release); at or after it, the whole remainder; cancel refunds
   exactly the unreleased remainder.  Deposit-zero time = funding time + floor(deposit/rate) s,
   extended by floor(top-up/rate), recomputed from the settled remainder on a rate change.  At
   every moment the remaining deposit sustains the flow rate from the last release until the
   deposit-zero time. *)
From MC Require Import lib.Prelude lib.AMap model.Bank model.Stream model.StreamSpec.
From MC Require Import proofs.StreamArith proofs.BankProofs proofs.StreamProofs.
Local Open Scope Z_scope.

(* ---- 1-2: the released amount ---- *)
Theorem C11_release_amount_before_zero : forall now dzt lot deposit rate,
  lot <= now -> now < dzt -> 0 <= rate -> 0 <= deposit ->
  calculate_amount_to_claim now dzt lot deposit rate =
    (Z.min deposit (rate * whole_seconds (now - lot)),
     deposit - Z.min deposit (rate * whole_seconds (now - lot))).
Proof. exact catc_before_zero. Qed.
Print Assumptions C11_release_amount_before_zero.

(* Go's "Unix() difference, minus one when Nanosecond() is smaller" is floor((now-lot)/10^9) *)
Theorem C11_go_seconds_is_floor : forall now lot,
  (if nanos now <? nanos lot then unix now - unix lot - 1 else unix now - unix lot)
  = whole_seconds (now - lot).
Proof. exact go_seconds_floor. Qed.
Print Assumptions C11_go_seconds_is_floor.

Theorem C11_release_amount_at_or_after_zero : forall now dzt lot deposit rate,
  dzt <= now -> calculate_amount_to_claim now dzt lot deposit rate = (deposit, 0).
Proof. exact catc_at_or_after_zero. Qed.
Print Assumptions C11_release_amount_at_or_after_zero.

(* ---- 3-4: duration and addSeconds ---- *)
Theorem C11_duration_exact : forall deposit rate q,
  calculate_duration deposit rate = Ok q -> 1 <= rate -> 0 <= deposit -> q = deposit / rate.
Proof. exact duration_exact. Qed.
Print Assumptions C11_duration_exact.

Theorem C11_add_seconds_exact : forall t secs,
  TS_MIN <= unix t + secs <= TS_MAX -> add_seconds t secs = t + secs * NS.
Proof. exact add_seconds_exact. Qed.
Print Assumptions C11_add_seconds_exact.

Theorem C11_add_seconds_wrap_not_storable : forall t secs,
  time_storable t = true -> 0 <= secs < two63 ->
  time_storable (add_seconds t secs) = true -> add_seconds t secs = t + secs * NS.
Proof. exact add_seconds_wrap_not_storable. Qed.
Print Assumptions C11_add_seconds_wrap_not_storable.

(* ---- 5-7: the deposit-zero time after create / top-up / rate change ---- *)
Theorem C11_zero_time_create : forall now b s sn r d amt rate b' s' resp,
  str_inv now b s -> str_exec now b s (SCreate sn r d amt rate) = Ok (b', s', resp) ->
  exists st, aget (r, sn) (s_streams s') = Some st /\ st_deposit st = amt /\ st_rate st = rate /\
             st_lot st = now /\ st_dzt st = now + (amt / rate) * NS /\ st_denom st = d.
Proof. exact zero_time_create. Qed.
Print Assumptions C11_zero_time_create.

Theorem C11_zero_time_topup_running : forall now b s sn r d amt st b' s' resp,
  str_inv now b s -> aget (r, sn) (s_streams s) = Some st -> now < st_dzt st ->
  str_exec now b s (STopUp sn r d amt) = Ok (b', s', resp) ->
  exists st', aget (r, sn) (s_streams s') = Some st' /\
    st_deposit st' = st_deposit st + amt /\ st_lot st' = st_lot st /\ st_rate st' = st_rate st /\
    st_dzt st' = st_dzt st + (amt / st_rate st) * NS /\ st_denom st' = st_denom st /\
    st_cancellable st' = st_cancellable st /\
    resp = RTopUp (st_deposit st') (st_dzt st') /\
    bank_send b sn STREAM_MACC (st_denom st) amt = Ok b'.
Proof. exact zero_time_topup_running. Qed.
Print Assumptions C11_zero_time_topup_running.

Theorem C11_zero_time_topup_expired : forall now b s sn r d amt st b' s' resp,
  str_inv now b s -> aget (r, sn) (s_streams s) = Some st -> st_dzt st <= now ->
  str_exec now b s (STopUp sn r d amt) = Ok (b', s', resp) ->
  exists st', aget (r, sn) (s_streams s') = Some st' /\
    st_deposit st' = amt /\ st_lot st' = now /\ st_rate st' = st_rate st /\
    st_dzt st' = now + (amt / st_rate st) * NS /\ st_denom st' = st_denom st /\
    st_cancellable st' = st_cancellable st /\
    resp = RTopUp (st_deposit st') (st_dzt st') /\
    ((0 < st_deposit st /\ exists b1 s1 c, claim_from_stream now b s r sn = Ok (b1, s1, c) /\
         cr_total c = st_deposit st /\ cr_remaining c = 0 /\
         bank_send b1 sn STREAM_MACC (st_denom st) amt = Ok b')
     \/ (st_deposit st = 0 /\ bank_send b sn STREAM_MACC (st_denom st) amt = Ok b')).
Proof. exact zero_time_topup_expired. Qed.
Print Assumptions C11_zero_time_topup_expired.

Theorem C11_zero_time_update_flow : forall now b s sn r rate st b' s' resp,
  str_inv now b s -> aget (r, sn) (s_streams s) = Some st -> 0 < st_deposit st ->
  str_exec now b s (SUpdateFlow sn r rate) = Ok (b', s', resp) ->
  let D1 := snd (calculate_amount_to_claim now (st_dzt st) (st_lot st) (st_deposit st) (st_rate st)) in
  exists st' s1 c,
    claim_from_stream now b s r sn = Ok (b', s1, c) /\ cr_remaining c = D1 /\
    aget (r, sn) (s_streams s') = Some st' /\
    st_rate st' = rate /\ st_lot st' = now /\ st_dzt st' = now + (D1 / rate) * NS /\
    st_deposit st' = D1 /\ st_denom st' = st_denom st /\ st_cancellable st' = st_cancellable st.
Proof. exact zero_time_update_flow. Qed.
Print Assumptions C11_zero_time_update_flow.

(* ---- 8: the sustain invariant (inside str_inv) is inductive ---- *)
Theorem C11_sustain_step : forall now b s m b' s' resp,
  str_inv now b s -> str_msg_wf m -> str_validate_basic m = Ok tt ->
  str_exec now b s m = Ok (b', s', resp) -> str_inv now b' s'.
Proof. exact sustain_step. Qed.
Print Assumptions C11_sustain_step.

(* stronger: ValidateBasic is not needed *)
Theorem C11_sustain_step_no_validate : forall now b s m b' s' resp,
  str_inv now b s -> str_msg_wf m ->
  str_exec now b s m = Ok (b', s', resp) -> str_inv now b' s'.
Proof. exact str_exec_preserves_inv. Qed.
Print Assumptions C11_sustain_step_no_validate.

Theorem C11_inv_time_mono : forall now now' b s,
  str_inv now b s -> now <= now' -> time_storable now' = true -> str_inv now' b s.
Proof. exact inv_time_mono. Qed.
Print Assumptions C11_inv_time_mono.

Theorem C11_sustain_reachable : forall now0 b0 s0 h,
  str_inv now0 b0 s0 -> times_sorted now0 h ->
  str_inv (last_time now0 h) (fst (str_run (b0, s0) h)) (snd (str_run (b0, s0) h)).
Proof. exact sustain_reachable. Qed.
Print Assumptions C11_sustain_reachable.

Theorem C11_str_inv_init : forall now b vf,
  (forall d, balance b STREAM_MACC d = 0) -> 0 <= vf <= DEC_ONE ->
  time_storable now = true -> 0 <= now ->
  str_inv now b {| s_valfee := vf; s_streams := [] |}.
Proof. exact str_inv_init. Qed.
Print Assumptions C11_str_inv_init.

(* ---- 9: never early ---- *)
Theorem C11_never_early : forall now b s sn r st b' s' c,
  str_inv now b s -> aget (r, sn) (s_streams s) = Some st -> now < st_dzt st ->
  str_exec now b s (SClaim sn r) = Ok (b', s', RClaim c) ->
  cr_total c = st_rate st * whole_seconds (now - st_lot st) /\ cr_total c < st_deposit st /\
  0 < cr_remaining c /\ cr_total c * NS <= st_rate st * (now - st_lot st).
Proof. exact never_early. Qed.
Print Assumptions C11_never_early.

(* ---- 10: cancel refunds exactly the unreleased remainder ---- *)
Theorem C11_cancel_refund : forall now b s sn r st b' s' resp,
  str_inv now b s -> aget (r, sn) (s_streams s) = Some st ->
  sn <> r -> sn <> STREAM_MACC -> sn <> FEE_COLLECTOR ->
  str_exec now b s (SCancel sn r) = Ok (b', s', resp) ->
  aget (r, sn) (s_streams s') = None /\
  balance b' sn (st_denom st) - balance b sn (st_denom st)
    = snd (calculate_amount_to_claim now (st_dzt st) (st_lot st) (st_deposit st) (st_rate st)) /\
  (st_deposit st = 0 -> balance b' sn (st_denom st) = balance b sn (st_denom st)) /\
  (forall d, d <> st_denom st -> balance b' sn d = balance b sn d).
Proof. exact cancel_refund. Qed.
Print Assumptions C11_cancel_refund.

(* ---- observations: why str_inv / str_msg_wf carry their side conditions ---- *)
Theorem C11_obs_update_flow_empty_stream :
  times_sorted ex_now ex_h_empty_update /\
  exists st, aget (2, 1) (s_streams (snd (str_run (ex_bank, ex_state0) ex_h_empty_update))) = Some st /\
    st_deposit st = 0 /\ ~ (st_rate st * (st_dzt st - st_lot st) <= st_deposit st * NS).
Proof. exact obs_update_flow_empty_stream. Qed.
Print Assumptions C11_obs_update_flow_empty_stream.

Theorem C11_obs_pre1970_blocktime :
  exists now b' s' resp st,
    time_storable now = true /\ now < 0 /\
    str_exec now ex_bank ex_state0 (SCreate 1 2 0 6000 100) = Ok (b', s', resp) /\
    aget (2, 1) (s_streams s') = Some st /\
    st_dzt st <> now + (6000 / 100) * NS /\
    ~ (st_rate st * (st_dzt st - st_lot st) <= st_deposit st * NS).
Proof. exact obs_pre1970_blocktime. Qed.
Print Assumptions C11_obs_pre1970_blocktime.

Theorem C11_obs_rate_not_int64 :
  exists b' s' resp st,
    str_exec ex_now ex_bank ex_state0 (SCreate 1 2 0 (60 * two63) two63) = Ok (b', s', resp) /\
    aget (2, 1) (s_streams s') = Some st /\ ~ stream_ok ex_now st.
Proof. exact obs_rate_not_int64. Qed.
Print Assumptions C11_obs_rate_not_int64.

(* ---- examples: the hypotheses are satisfiable, with numbers ---- *)
Example C11_ex_initial_state : str_inv ex_now ex_bank ex_state0.
Proof. exact ex_inv0. Qed.

Example C11_ex_history_sorted : times_sorted ex_now ex_history.
Proof. exact ex_history_sorted. Qed.

Example C11_ex_history_inv :
  str_inv (last_time ex_now ex_history)
          (fst (str_run (ex_bank, ex_state0) ex_history)) (snd (str_run (ex_bank, ex_state0) ex_history)).
Proof. exact (sustain_reachable _ _ _ _ ex_inv0 ex_history_sorted). Qed.

(* create 100000 at 100/s at t0: zero time = t0 + 1000 s *)
Example C11_ex_create :
  aget (2, 1) (s_streams (snd (str_run (ex_bank, ex_state0) (firstn 1 ex_history))))
  = Some {| st_denom := 0; st_deposit := 100000; st_rate := 100; st_lot := ex_t 0;
            st_dzt := ex_t 1000; st_cancellable := true |}.
Proof. vm_compute. reflexivity. Qed.

(* claim after 10 s: 1000 released, lot = t0+10 *)
Example C11_ex_claim :
  str_exec (ex_t 10) (fst (str_run (ex_bank, ex_state0) (firstn 1 ex_history)))
           (snd (str_run (ex_bank, ex_state0) (firstn 1 ex_history))) (SClaim 1 2)
  = Ok (fst (str_run (ex_bank, ex_state0) (firstn 2 ex_history)),
        snd (str_run (ex_bank, ex_state0) (firstn 2 ex_history)),
        RClaim {| cr_receiver := 990; cr_fee := 10; cr_total := 1000; cr_remaining := 99000 |}).
Proof. vm_compute. reflexivity. Qed.

(* claim after 10.999999999 s still pays 10 whole seconds *)
Example C11_ex_claim_fraction :
  exists b' s',
  str_exec (ex_t 11 - 1) (fst (str_run (ex_bank, ex_state0) (firstn 1 ex_history)))
           (snd (str_run (ex_bank, ex_state0) (firstn 1 ex_history))) (SClaim 1 2)
  = Ok (b', s', RClaim {| cr_receiver := 990; cr_fee := 10; cr_total := 1000; cr_remaining := 99000 |}).
Proof. do 2 eexists. vm_compute. reflexivity. Qed.

(* top-up 50000 at t0+20 (running): zero time + 500 s, lot unchanged *)
Example C11_ex_topup :
  aget (2, 1) (s_streams (snd (str_run (ex_bank, ex_state0) (firstn 3 ex_history))))
  = Some {| st_denom := 0; st_deposit := 149000; st_rate := 100; st_lot := ex_t 10;
            st_dzt := ex_t 1500; st_cancellable := true |}.
Proof. vm_compute. reflexivity. Qed.

(* rate change to 200/s at t0+30: settles 20 s x 100 = 2000, 147000 left, 735 s at 200/s *)
Example C11_ex_update_flow :
  aget (2, 1) (s_streams (snd (str_run (ex_bank, ex_state0) (firstn 4 ex_history))))
  = Some {| st_denom := 0; st_deposit := 147000; st_rate := 200; st_lot := ex_t 30;
            st_dzt := ex_t 765; st_cancellable := true |}.
Proof. vm_compute. reflexivity. Qed.

(* cancel at t0+40: settles 10 s x 200 = 2000, refunds 145000 to the sender *)
Example C11_ex_cancel :
  let bs4 := str_run (ex_bank, ex_state0) (firstn 4 ex_history) in
  let bs5 := str_run (ex_bank, ex_state0) ex_history in
  s_streams (snd bs5) = [] /\
  balance (fst bs5) 1 0 - balance (fst bs4) 1 0 = 145000 /\
  balance (fst bs5) STREAM_MACC 0 = 0 /\
  balance (fst bs5) 2 0 = 990 + 1980 + 1980 /\
  balance (fst bs5) FEE_COLLECTOR 0 = 10 + 20 + 20.
Proof. vm_compute. repeat split; reflexivity. Qed.
