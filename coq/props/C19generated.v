(* C19, link to the source: types/denom.go ConvertUndDenomination as GENERATED from /repo on every run
   (coq/GeneratedDenom.v, against the big.Rat / big.Int descriptions of model/DenomPrims.v) equals the hand-written model
   of C19 (model/Denom.v: convert) on EVERY input string, in both directions; hence the C19 statements hold of the
   generated function: nund -> FUND prints floor(n/10^9) and the nine-digit remainder, FUND with nine decimals -> nund
   is exactly q*10^9 + r, and converting there and back returns the original.  Proofs: proofs/GeneratedDenomEq.v. *)
From MC Require Import lib.Prelude model.Denom model.DenomPrims GeneratedDenom proofs.GeneratedDenomEq.
From Coq Require Import String NArith.
Open Scope N_scope.

Theorem C19_generated_constants :
  types_FundDenom = "fund"%string /\ types_NundDenom = "nund"%string /\ types_nundPerFund = nund_per_fund /\
  types_DefaultDenomination = "nund"%string /\ types_BaseDenomination = "fund"%string.
Proof. exact gen_denom_constants. Qed.
Print Assumptions C19_generated_constants.

Theorem C19_generated_convert_is_model : forall s d,
  go_ConvertUndDenomination s (denom_name d) (denom_name (other d)) = lift_convert (convert s d).
Proof. exact gen_convert_eq. Qed.
Print Assumptions C19_generated_convert_is_model.

Theorem C19_generated_same_denomination : forall s d, go_ConvertUndDenomination s d d = Ok (s ++ d)%string.
Proof. exact gen_convert_same. Qed.
Print Assumptions C19_generated_same_denomination.

Theorem C19_generated_unknown_denomination : forall s from to,
  from <> to -> from <> "fund"%string -> from <> "nund"%string -> go_ConvertUndDenomination s from to = Ok EmptyString.
Proof. exact gen_convert_unknown. Qed.
Print Assumptions C19_generated_unknown_denomination.

Theorem C19_generated_never_panics : forall s from to c, go_ConvertUndDenomination s from to <> Panic c.
Proof. exact gen_convert_no_panic. Qed.
Print Assumptions C19_generated_never_panics.

Theorem C19_generated_nund_to_fund_string : forall n : N,
  go_ConvertUndDenomination (print_N n) "nund" "fund" =
  Ok (print_N (n / 1000000000) ++ "." ++ pad9 (n mod 1000000000) ++ "fund")%string.
Proof. exact gen_nund_to_fund_string. Qed.
Print Assumptions C19_generated_nund_to_fund_string.

Theorem C19_generated_fund_string_to_nund : forall q r : N, r < 1000000000 ->
  go_ConvertUndDenomination (print_N q ++ "." ++ pad9 r)%string "fund" "nund" =
  Ok (print_N (q * 1000000000 + r) ++ "nund")%string.
Proof. exact gen_fund_string_to_nund. Qed.
Print Assumptions C19_generated_fund_string_to_nund.

Theorem C19_generated_roundtrip_nund : forall n : N,
  exists s, go_ConvertUndDenomination (print_N n) "nund" "fund" = Ok (s ++ "fund")%string /\
            go_ConvertUndDenomination s "fund" "nund" = Ok (print_N n ++ "nund")%string.
Proof. exact gen_roundtrip_nund. Qed.
Print Assumptions C19_generated_roundtrip_nund.

Theorem C19_generated_roundtrip_fund : forall q r : N, r < 1000000000 ->
  exists s, go_ConvertUndDenomination (print_N q ++ "." ++ pad9 r)%string "fund" "nund" = Ok (s ++ "nund")%string /\
            go_ConvertUndDenomination s "nund" "fund" = Ok ((print_N q ++ "." ++ pad9 r) ++ "fund")%string.
Proof. exact gen_roundtrip_fund. Qed.
Print Assumptions C19_generated_roundtrip_fund.

(* the generated function run on concrete amounts (incl. 30 significant digits and the seeded 8.03e15 boundary) *)
Example C19_generated_ex :
  go_ConvertUndDenomination "1.5" "fund" "nund" = Ok "1500000000nund"%string /\
  go_ConvertUndDenomination "8030000000000000" "nund" "fund" = Ok "8030000.000000000fund"%string /\
  go_ConvertUndDenomination "123456789123456789" "nund" "fund" = Ok "123456789.123456789fund"%string /\
  go_ConvertUndDenomination "123456789012345678901.123456789" "fund" "nund" = Ok "123456789012345678901123456789nund"%string /\
  go_ConvertUndDenomination "0.0000000019" "fund" "nund" = Ok "1nund"%string /\
  go_ConvertUndDenomination "1e3" "fund" "nund" = Err types_ErrInvalidAmount /\
  go_ConvertUndDenomination "24" "fund" "fund" = Ok "24fund"%string.
Proof. vm_compute. repeat split. Qed.
