(* Source-derived obligations of C13wiring: facts read from /repo by the translator on every run (coq/Generated.v), re-checked here. *)
From Coq Require Import List String ZArith.
From MC Require Import lib.Reach Generated proofs.Wiring.
Import ListNotations.
Open Scope string_scope.

Theorem C13_get_signers_fields : ltac:(let T := type of wiring_get_signers in exact T).
Proof. exact wiring_get_signers. Qed.
Print Assumptions C13_get_signers_fields.

Theorem C13_authority_checked : ltac:(let T := type of wiring_authority_and_validation in exact T).
Proof. exact wiring_authority_and_validation. Qed.
Print Assumptions C13_authority_checked.
