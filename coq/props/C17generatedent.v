(* C17, link to the source: the supply queries of /repo/x/enterprise/keeper/locked.go and grpc_query.go as generated on
   every run (coq/GeneratedEnterpriseKeeper.v, against the primitives of model/EnterpriseKeeperPrims.v and lib/GoSdk.v):
     GetSupplyOfWithLockedNundRemoved, GetTotalUnLockedUnd     the model's q_supply_of on every world and denomination
                                                               (panic codes mapped by [qlift]);
     GetEnterpriseSupplyIncludingLockedUnd                     the model's q_ent_supply whenever the stored total locked
                                                               is not negative (otherwise Go's Uint64() panics where the
                                                               model answers: gen_ent_EnterpriseSupply_refuted);
     GetTotalSupplyWithLockedNundRemoved                       for EVERY page request (a page request is what it selects
                                                               from the bank's listing, lib/GoSdk.v): the bank's page with
                                                               the total locked taken off the entries of the enterprise
                                                               denomination.
   Then C17 (props/C17.v) for the generated gRPC handlers in every state satisfying [app_inv] (proofs/AppInv.v; reachable
   states: C17_reachable), run in the world [mk_eworld (a_now a) (a_bank a) (a_ent a)] of the application state.
   The queries cannot change the state: none of them returns a world.
   Proofs: proofs/GeneratedEnterpriseQueryEq.v. *)
From MC Require Import lib.Prelude lib.AMap lib.GoSdk GeneratedEnterpriseTypes model.Bank model.Stream model.StreamSpec
  model.Registry model.Enterprise model.EnterpriseSpec model.App model.AppSpec model.EnterpriseKeeperPrims
  GeneratedEnterpriseKeeper.
From MC Require Import proofs.AppInv proofs.AppSupplyProofs proofs.GeneratedEnterpriseQueryEq.
Local Open Scope Z_scope.

(* ---- the generated keeper functions are the model's ---- *)
Theorem C17_generated_supply_of_is_model : forall w (d : go_denom),
  go_GetSupplyOfWithLockedNundRemoved w d = qlift d (q_supply_of (ew_bank w) (ew_ent w) d).
Proof. exact gen_ent_GetSupplyOf_eq. Qed.
Print Assumptions C17_generated_supply_of_is_model.

Theorem C17_generated_ent_supply_is_model : forall w,
  0 <= snd (total_locked (ew_ent w)) ->
  go_GetEnterpriseSupplyIncludingLockedUnd w =
    qlift3 (ep_denom (e_params (ew_ent w))) (q_ent_supply (ew_bank w) (ew_ent w)).
Proof. exact gen_ent_EnterpriseSupply_eq. Qed.
Print Assumptions C17_generated_ent_supply_is_model.

(* ---- SupplyOf(denom): supply minus total locked, not negative, for the enterprise denomination; the bank's recorded
        supply for every other one; the empty denomination is refused ---- *)
Theorem C17_generated_supply_of : forall a (d : go_denom),
  app_inv a ->
  let v := if d =? ep_denom (e_params (a_ent a))
           then supply_of (a_bank a) d - snd (total_locked (a_ent a)) else supply_of (a_bank a) d in
  go_SupplyOf (mk_eworld (a_now a) (a_bank a) (a_ent a)) (mk_go_QuerySupplyOfRequest d) =
    (if d =? go_zero_denom then Err grpc_codes_InvalidArgument else Ok (mk_go_QuerySupplyOfResponse (d, v))) /\
  go_GetSupplyOfWithLockedNundRemoved (mk_eworld (a_now a) (a_bank a) (a_ent a)) d = Ok (d, v) /\
  0 <= v.
Proof. exact gen_supply_of_spec. Qed.
Print Assumptions C17_generated_supply_of.

(* ---- EnterpriseSupply, TotalLocked, TotalUnlocked, the und total: locked + unlocked = total, none negative ---- *)
Theorem C17_generated_ent_supply : forall a,
  app_inv a -> supply_of (a_bank a) (ep_denom (e_params (a_ent a))) < two64 ->
  let w := mk_eworld (a_now a) (a_bank a) (a_ent a) in
  let d := ep_denom (e_params (a_ent a)) in
  exists l u t,
    go_EnterpriseSupply w mk_go_QueryEnterpriseSupplyRequest =
      Ok (mk_go_QueryEnterpriseSupplyResponse (mk_go_UndSupply d u l t)) /\
    go_TotalLocked w mk_go_QueryTotalLockedRequest = Ok (mk_go_QueryTotalLockedResponse (d, l)) /\
    go_TotalUnlocked w mk_go_QueryTotalUnlockedRequest = Ok (mk_go_QueryTotalUnlockedResponse (d, u)) /\
    go_GetTotalUndSupply w = Ok (d, t) /\
    l + u = t /\ 0 <= l /\ 0 <= u /\
    l = snd (total_locked (a_ent a)) /\ t = supply_of (a_bank a) d.
Proof. exact gen_ent_supply_spec. Qed.
Print Assumptions C17_generated_ent_supply.

(* ---- TotalSupply, for every page request: the page the bank serves with, for the enterprise denomination, supply minus
        total locked; the denominations of the page in its order, so each once when the page lists each once - and the
        bank's listing does; every entry is what SupplyOf answers for its denomination, none negative ---- *)
Theorem C17_generated_total_supply_page : forall a (pg : go_PageRequest) cs pr,
  app_inv a ->
  pg (supply_listing (a_bank a)) = Ok (cs, pr) -> incl cs (supply_listing (a_bank a)) ->
  let w := mk_eworld (a_now a) (a_bank a) (a_ent a) in
  let d := ep_denom (e_params (a_ent a)) in
  let res := map (fun c => if fst c =? d then (fst c, supply_of (a_bank a) d - snd (total_locked (a_ent a))) else c) cs in
  go_TotalSupply w (mk_go_QueryTotalSupplyRequest pg) = Ok (mk_go_QueryTotalSupplyResponse res pr) /\
  map fst res = map fst cs /\
  (NoDup (map fst cs) -> NoDup (map fst res)) /\
  (forall c, In c res -> go_GetSupplyOfWithLockedNundRemoved w (fst c) = Ok c /\ 0 <= snd c).
Proof. exact gen_total_supply_page_spec. Qed.
Print Assumptions C17_generated_total_supply_page.

(* the listing pages are cut from: each denomination once, exactly those with a non-zero recorded supply *)
Theorem C17_generated_listing_once : forall b : bank, NoDup (map fst (supply_listing b)).
Proof. exact supply_listing_NoDup. Qed.
Print Assumptions C17_generated_listing_once.

Theorem C17_generated_listing_entries : forall (b : bank) (c : go_coin),
  In c (supply_listing b) <-> snd c = supply_of b (fst c) /\ snd c <> 0.
Proof. exact supply_listing_In. Qed.
Print Assumptions C17_generated_listing_entries.

(* the default request (nil pagination): the first 100 entries of the listing, each denomination once *)
Theorem C17_generated_total_supply_default_page : forall a,
  app_inv a ->
  let w := mk_eworld (a_now a) (a_bank a) (a_ent a) in
  exists res pr,
    go_TotalSupply w zero_go_QueryTotalSupplyRequest = Ok (mk_go_QueryTotalSupplyResponse res pr) /\
    map fst res = map fst (firstn 100 (supply_listing (a_bank a))) /\
    NoDup (map fst res) /\
    (forall c, In c res -> go_GetSupplyOfWithLockedNundRemoved w (fst c) = Ok c /\ 0 <= snd c).
Proof. exact gen_total_supply_default_page. Qed.
Print Assumptions C17_generated_total_supply_default_page.

(* without any hypothesis on the world or on the page: coin by coin, sdk.Coin.Sub for the enterprise denomination, the
   first failing subtraction panics; a pagination error is returned as it is (codes.Internal by the handler) *)
Theorem C17_generated_total_supply_any_world : forall w (pg : go_PageRequest),
  go_GetTotalSupplyWithLockedNundRemoved w pg =
    do (cs, pr) <- pg (supply_listing (ew_bank w));
    do vs <- omap (adjust_o w) cs;
    Ok (vs, pr).
Proof. exact gen_ent_TotalSupply_full. Qed.
Print Assumptions C17_generated_total_supply_any_world.

Theorem C17_generated_total_supply_page_error : forall w (pg : go_PageRequest) c,
  pg (supply_listing (ew_bank w)) = Err c ->
  go_TotalSupply w (mk_go_QueryTotalSupplyRequest pg) = Err grpc_codes_Internal.
Proof. exact gen_total_supply_page_err. Qed.
Print Assumptions C17_generated_total_supply_page_error.

(* ---- the queries agree on the circulating amount ---- *)
Theorem C17_generated_queries_agree : forall a r,
  app_inv a ->
  go_GetEnterpriseSupplyIncludingLockedUnd (mk_eworld (a_now a) (a_bank a) (a_ent a)) = Ok r ->
  let w := mk_eworld (a_now a) (a_bank a) (a_ent a) in
  let d := ep_denom (e_params (a_ent a)) in
  go_GetSupplyOfWithLockedNundRemoved w d = Ok (d, UndSupply_Amount r) /\
  go_GetTotalUnLockedUnd w = Ok (d, UndSupply_Amount r) /\
  go_GetTotalUndSupply w = Ok (d, UndSupply_Total r) /\
  total_locked (a_ent a) = (d, UndSupply_Locked r) /\
  UndSupply_Denom r = d.
Proof. exact gen_supplies_agree. Qed.
Print Assumptions C17_generated_queries_agree.

(* ---- the handlers registered over the bank's TotalSupply / SupplyOf are the same functions ---- *)
Theorem C17_generated_overwrite_same : forall w,
  (forall req, go_TotalSupplyOverwrite w req = go_TotalSupply w req) /\
  (forall req, go_SupplyOfOverwrite w req = go_SupplyOf w req).
Proof. exact gen_overwrite_same. Qed.
Print Assumptions C17_generated_overwrite_same.

(* SupplyOf fails with an error exactly for the empty denomination *)
Theorem C17_generated_supply_of_error : forall w (req : go_QuerySupplyOfRequest) c,
  go_SupplyOf w req = Err c <-> QuerySupplyOfRequest_Denom req = go_zero_denom /\ c = grpc_codes_InvalidArgument.
Proof. exact gen_ent_SupplyOf_err_iff. Qed.
Print Assumptions C17_generated_supply_of_error.

(* ---- observation: a negative stored total locked (outside the invariant) makes Go's Uint64() panic where the model
        answers ---- *)
Theorem C17_generated_obs_negative_locked :
  q_ent_supply (ew_bank neg_world) (ew_ent neg_world) = Ok (-5, 105, 100) /\
  go_GetEnterpriseSupplyIncludingLockedUnd neg_world = Panic GO_PANIC_UINT64 /\
  go_GetEnterpriseSupplyIncludingLockedUnd neg_world
    <> qlift3 (ep_denom (e_params (ew_ent neg_world))) (q_ent_supply (ew_bank neg_world) (ew_ent neg_world)).
Proof. exact gen_ent_EnterpriseSupply_refuted. Qed.
Print Assumptions C17_generated_obs_negative_locked.

(* ---- examples (scenario: proofs/AppInv.v, as in props/C17.v) ---- *)
(* committed state after blocks 2, 3 (3000 minted and locked, 1000 of it spent as a fee) and 4:
   (SupplyOf nund, SupplyOf of another denomination, SupplyOf of the empty one, EnterpriseSupply, TotalLocked,
    TotalUnlocked, TotalSupply with the default page, with the page "second entry only", with a failing pagination) *)
Example C17_generated_ex_queries :
  map (fun k => option_map (fun n => let a := n_committed n in
                                     let w := mk_eworld (a_now a) (a_bank a) (a_ent a) in
                                     (go_SupplyOf w (mk_go_QuerySupplyOfRequest NUND),
                                      go_SupplyOf w (mk_go_QuerySupplyOfRequest 7),
                                      go_SupplyOfOverwrite w (mk_go_QuerySupplyOfRequest go_zero_denom),
                                      go_EnterpriseSupply w mk_go_QueryEnterpriseSupplyRequest,
                                      go_TotalLocked w mk_go_QueryTotalLockedRequest,
                                      go_TotalUnlocked w mk_go_QueryTotalUnlockedRequest,
                                      go_TotalSupply w (mk_go_QueryTotalSupplyRequest go_zero_PageRequest),
                                      go_TotalSupply w (mk_go_QueryTotalSupplyRequest
                                                          (fun cs => Ok (firstn 1 (skipn 1 cs), ([], 0)))),
                                      go_TotalSupplyOverwrite w (mk_go_QueryTotalSupplyRequest (fun _ => Err 5))))
                           (node_run (node_init ex_g) (firstn k ex_hist))) [8; 14]%nat
  = [Some (Ok (mk_go_QuerySupplyOfResponse (NUND, 10150)), Ok (mk_go_QuerySupplyOfResponse (7, 0)),
           Err grpc_codes_InvalidArgument,
           Ok (mk_go_QueryEnterpriseSupplyResponse (mk_go_UndSupply NUND 10150 0 10150)),
           Ok (mk_go_QueryTotalLockedResponse (NUND, 0)), Ok (mk_go_QueryTotalUnlockedResponse (NUND, 10150)),
           Ok (mk_go_QueryTotalSupplyResponse [(NUND, 10150)] ([], 1)),
           Ok (mk_go_QueryTotalSupplyResponse [] ([], 0)),
           Err grpc_codes_Internal);
     Some (Ok (mk_go_QuerySupplyOfResponse (NUND, 11150)), Ok (mk_go_QuerySupplyOfResponse (7, 0)),
           Err grpc_codes_InvalidArgument,
           Ok (mk_go_QueryEnterpriseSupplyResponse (mk_go_UndSupply NUND 11150 2000 13150)),
           Ok (mk_go_QueryTotalLockedResponse (NUND, 2000)), Ok (mk_go_QueryTotalUnlockedResponse (NUND, 11150)),
           Ok (mk_go_QueryTotalSupplyResponse [(NUND, 11150)] ([], 1)),
           Ok (mk_go_QueryTotalSupplyResponse [] ([], 0)),
           Err grpc_codes_Internal)].
Proof. vm_compute. reflexivity. Qed.

(* a world with three recorded denominations (and a zero entry, not listed), 40 of the 100 nund locked *)
Example C17_generated_ex_pages :
  supply_listing (ew_bank page_world) = [(7, 30); (NUND, 100); (5, 12)] /\
  go_GetTotalSupplyWithLockedNundRemoved page_world (fun cs => Ok (firstn 1 (skipn 1 cs), ([], 0))) = Ok ([(NUND, 60)], ([], 0)) /\
  go_GetTotalSupplyWithLockedNundRemoved page_world go_zero_PageRequest = Ok ([(7, 30); (NUND, 60); (5, 12)], ([], 3)) /\
  map (go_GetSupplyOfWithLockedNundRemoved page_world) [7; NUND; 5; 9] = [Ok (7, 30); Ok (NUND, 60); Ok (5, 12); Ok (9, 0)] /\
  go_GetEnterpriseSupplyIncludingLockedUnd page_world = Ok (mk_go_UndSupply NUND 60 40 100).
Proof. exact gen_ent_TotalSupply_page_example. Qed.
