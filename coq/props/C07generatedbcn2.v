(* C07, link to the source (stateless checks): the ValidateBasic methods of /repo/x/beacon/types/msgs.go as the
   translator renders them on every run (the head of coq/GeneratedBeaconKeeper.v) compute exactly what the model's
   [reg_validate_basic false] (model/Registry.v) computes: same verdict, same error code.  Hence a history in which every
   message passes the GENERATED ValidateBasic and is then executed by the GENERATED message server is the model's
   history [reg_run false], about which C07 is proved (props/C07.v).
   Proofs: proofs/GeneratedBeaconValidateEq.v.  [bcn_validate_basic] dispatches on the model's message type to the
   three generated functions, on the records [bcn_msg_exec] (model/BeaconGenSpec.v) builds (one hash; the key field is
   the submit time); [bcn_step_v] / [bcn_run_v] are [bcn_step] / [bcn_run] (proofs/GeneratedBeaconEq.v) validating with
   it. *)
From MC Require Import lib.Prelude lib.AMap lib.GoSdk GeneratedBeaconTypes model.Bank model.Registry model.RegistrySpec
  model.BeaconKeeperPrims GeneratedBeaconKeeper model.BeaconGenSpec.
From MC Require Import proofs.RegistryProofs proofs.GeneratedBeaconEq proofs.GeneratedBeaconValidateEq.
Local Open Scope string_scope.
Local Open Scope Z_scope.

Theorem C07_generated_bcn_validate_basic_is_model : forall m, reg_msg_wf m ->
  (forall o id key hashes, m = RRecord o id key hashes -> List.length hashes = 1%nat) ->
  bcn_validate_basic m = reg_validate_basic false m.
Proof. exact gen_bcn_validate_basic_eq. Qed.
Print Assumptions C07_generated_bcn_validate_basic_is_model.

Theorem C07_generated_bcn_run_with_validate_is_model : forall wall h s g B,
  reg_inv false s g -> bcn_no_genesis s -> bcn_bounded B s -> B + Z.of_nat (List.length h) < two64 ->
  bcn_hist_ok h ->
  bcn_run_v wall (s, g) h = reg_run false (s, g) h.
Proof. exact gen_bcn_run_v_eq. Qed.
Print Assumptions C07_generated_bcn_run_with_validate_is_model.

(* ---- examples: the generated checks run ---- *)

Example C07_generated_bcn_validate_accepts_ex :
  bcn_validate_basic (RRegister 7 "m" "n" "" "") = Ok tt /\
  bcn_validate_basic (RRecord 7 1 1700000005 ["a"]) = Ok tt /\
  bcn_validate_basic (RPurchase 7 1 3) = Ok tt.
Proof. vm_compute. auto. Qed.

(* rejected: a submit time of zero (the handler would read the wall clock); an empty name *)
Example C07_generated_bcn_validate_rejects_zero_time_ex :
  bcn_validate_basic (RRecord 7 1 0 ["a"]) = Err ERR_REG /\
  reg_validate_basic false (RRecord 7 1 0 ["a"]) = Err ERR_REG.
Proof. vm_compute. auto. Qed.

Example C07_generated_bcn_validate_rejects_empty_name_ex :
  bcn_validate_basic (RRegister 7 "m" "" "" "") = Err ERR_REG /\
  reg_validate_basic false (RRegister 7 "m" "" "" "") = Err ERR_REG /\
  bcn_validate_basic (RRecord 7 1 1700000005 [long67]) = Err ERR_REG.
Proof. vm_compute. auto. Qed.

(* the history of proofs/GeneratedBeaconEq.v, validated and executed by generated code only *)
Example C07_generated_bcn_run_with_validate_ex :
  bcn_run_v 0 (reg_init ex_params 1, ghost_init) ex_history = reg_run false (reg_init ex_params 1, ghost_init) ex_history /\
  keys_of 1 (r_recs (fst (bcn_run_v 0 (reg_init ex_params 1, ghost_init) ex_history))) = [2; 3].
Proof. vm_compute. auto. Qed.
