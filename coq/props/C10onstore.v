(* C10 (with C11, C12), store layer of x/stream, CAPSTONE: the keeper and message server of
   /repo/x/stream/keeper/{stream,msg_server}.go as translated on every run TWICE from the same source -
     (1) GeneratedStreamKeeper.v         over the hand-written primitives of model/StreamKeeperPrims.v (world [kworld]: block
                                          time, bank, an association list of streams keyed by abstract addresses),
     (2) GeneratedStreamKeeperOnStore.v  over the BYTE-LEVEL ordered KV store of model/KVStore.v, accessed through the
                                          GENERATED store accessors (GeneratedStreamStore.v) and the GENERATED key builders
                                          (GeneratedKeys.v); world [sworld] of model/StreamStoreWorld.v: the embedding of
                                          abstract addresses into address bytes, block time, bank, byte store -
   are in SIMULATION: from related worlds every function of (2) ends Ok / Err e / Panic c exactly when the function of (1)
   does, with the same code, the same returned value, and related worlds again.  Hence whole histories of the six message
   kinds (ValidateBasic, then the handler) give the same result message by message and end in related worlds, and what is
   proved of (1) - C10 escrow backing, C11 exact release, C12 progress - holds of (2), i.e. of the code running on bytes.

   Given (explicit in every statement, as in props/C18storestreamrefines.v):
       dom : Z -> Prop   the abstract addresses in use        emb : Z -> list N   their address bytes
       on dom: 1 <= length (emb a) <= 255, and emb injective (both shown necessary there).
   Rw dom emb w ws: C10_onstore_relation.  sim: C10_onstore_sim.  Rstr: C18_store_stream_refines_relation.
   Proofs: proofs/GeneratedStreamOnStoreEq.v. *)
From MC Require Import lib.Prelude lib.AMap lib.GoSdk GeneratedFns GeneratedStreamTypes model.Bank model.Stream
  model.StreamSpec model.KVStore model.StoreCodecPrims model.StreamKeeperPrims model.StreamStoreWorld model.StreamGenSpec
  GeneratedKeys GeneratedStreamStore.
From MC Require GeneratedStreamKeeper GeneratedStreamKeeperOnStore.
From MC Require Import proofs.StreamProofs proofs.GeneratedStreamEq proofs.GeneratedStreamValidateEq
  proofs.GeneratedStreamStoreRefines proofs.GeneratedStreamOnStoreEq.
From Coq Require Import NArith ZArith List Bool.
Import ListNotations.
Local Open Scope Z_scope.

(* ------------------------------------------------------------------ *)
(* the relations, in full                                               *)
(* ------------------------------------------------------------------ *)

(* the byte-level world represents the abstract world; its embedding is the given one (so it never changes along a run) *)
Theorem C10_onstore_relation :
  forall (dom : Z -> Prop) (emb : Z -> list N) (w : kworld) (ws : sworld),
  Rw dom emb w ws <->
  ( sw_emb ws = emb /\ kw_now w = sw_now ws /\ kw_bank w = sw_bank ws /\ Rstr dom emb (sw_store ws) (kw_str w) ).
Proof. exact (fun dom emb w ws => iff_refl (Rw dom emb w ws)). Qed.
Print Assumptions C10_onstore_relation.

(* two results agree: Ok/Ok with related worlds and equal values, Err/Err and Panic/Panic with equal codes, nothing else *)
Theorem C10_onstore_sim :
  forall (dom : Z -> Prop) (emb : Z -> list N) (R : Type) (a : outcome (kworld * R)) (c : outcome (sworld * R)),
  sim dom emb a c <->
  match a, c with
  | Ok (w, x), Ok (ws, y) => Rw dom emb w ws /\ x = y
  | Err e, Err e' => e = e'
  | Panic p, Panic p' => p = p'
  | _, _ => False
  end.
Proof. exact (fun dom emb R => @sim_spelled dom emb R). Qed.
Print Assumptions C10_onstore_sim.

(* ------------------------------------------------------------------ *)
(* the adapter primitives of model/StreamStoreWorld.v                   *)
(* ------------------------------------------------------------------ *)

Theorem C10_onstore_primitives :
  forall (dom : Z -> Prop) (emb : Z -> list N),
  (forall a, dom a -> (1 <= length (emb a) <= 255)%nat) ->
  (forall a b, dom a -> dom b -> emb a = emb b -> a = b) ->
  forall (w : kworld) (ws : sworld), Rw dom emb w ws ->
  os_kw_now ws = kw_now w /\
  os_str_GetParams ws = Ok (str_GetParams w) /\
  (forall r sn, dom r -> dom sn -> os_str_GetStream ws r sn = Ok (str_GetStream w r sn)) /\
  (forall r sn, dom r -> dom sn -> os_str_IsStream ws r sn = Ok (str_IsStream w r sn)) /\
  (forall r sn g, dom r -> dom sn -> sim dom emb (str_SetStream w r sn g) (os_str_SetStream ws r sn g)) /\
  (forall r sn, dom r -> dom sn -> sim dom emb (str_DeleteStream w r sn) (os_str_DeleteStream ws r sn)) /\
  (forall p, sim dom emb (str_SetParams w p) (os_str_SetParams ws p)) /\
  (forall from to cs,
     sim dom emb (bank_SendCoinsFromModuleToModule w from to cs) (os_bank_SendCoinsFromModuleToModule ws from to cs)) /\
  (forall from to cs,
     sim dom emb (bank_SendCoinsFromAccountToModule w from to cs) (os_bank_SendCoinsFromAccountToModule ws from to cs)) /\
  (forall from to cs,
     sim dom emb (bank_SendCoinsFromModuleToAccount w from to cs) (os_bank_SendCoinsFromModuleToAccount ws from to cs)).
Proof. exact sim_primitives. Qed.
Print Assumptions C10_onstore_primitives.

(* ------------------------------------------------------------------ *)
(* every translated function                                            *)
(* ------------------------------------------------------------------ *)

(* the five keeper functions, on addresses of dom *)
Theorem C10_onstore_keeper :
  forall (dom : Z -> Prop) (emb : Z -> list N),
  (forall a, dom a -> (1 <= length (emb a) <= 255)%nat) ->
  (forall a b, dom a -> dom b -> emb a = emb b -> a = b) ->
  forall (w : kworld) (ws : sworld), Rw dom emb w ws ->
  (forall r sn, dom r -> dom sn ->
     sim dom emb (GeneratedStreamKeeper.go_ClaimFromStream w r sn) (GeneratedStreamKeeperOnStore.go_ClaimFromStream ws r sn)) /\
  (forall r sn dep, dom r -> dom sn ->
     sim dom emb (GeneratedStreamKeeper.go_AddDeposit w r sn dep) (GeneratedStreamKeeperOnStore.go_AddDeposit ws r sn dep)) /\
  (forall r sn rate, dom r -> dom sn ->
     sim dom emb (GeneratedStreamKeeper.go_SetNewFlowRate w r sn rate)
                 (GeneratedStreamKeeperOnStore.go_SetNewFlowRate ws r sn rate)) /\
  (forall r sn, dom r -> dom sn ->
     sim dom emb (GeneratedStreamKeeper.go_CancelStreamBySenderReceiver w r sn)
                 (GeneratedStreamKeeperOnStore.go_CancelStreamBySenderReceiver ws r sn)) /\
  (forall r sn dep rate, dom r -> dom sn ->
     sim dom emb (GeneratedStreamKeeper.go_CreateNewStream w r sn dep rate)
                 (GeneratedStreamKeeperOnStore.go_CreateNewStream ws r sn dep rate)).
Proof. exact sim_keeper. Qed.
Print Assumptions C10_onstore_keeper.

(* the six handlers of the message server, on messages whose addresses are in dom *)
Theorem C10_onstore_msg_server :
  forall (dom : Z -> Prop) (emb : Z -> list N),
  (forall a, dom a -> (1 <= length (emb a) <= 255)%nat) ->
  (forall a b, dom a -> dom b -> emb a = emb b -> a = b) ->
  forall (w : kworld) (ws : sworld), Rw dom emb w ws ->
  (forall msg, dom (MsgCreateStream_Sender msg) -> dom (MsgCreateStream_Receiver msg) ->
     sim dom emb (GeneratedStreamKeeper.go_CreateStream w msg) (GeneratedStreamKeeperOnStore.go_CreateStream ws msg)) /\
  (forall msg, dom (MsgClaimStream_Sender msg) -> dom (MsgClaimStream_Receiver msg) ->
     sim dom emb (GeneratedStreamKeeper.go_ClaimStream w msg) (GeneratedStreamKeeperOnStore.go_ClaimStream ws msg)) /\
  (forall msg, dom (MsgTopUpDeposit_Sender msg) -> dom (MsgTopUpDeposit_Receiver msg) ->
     sim dom emb (GeneratedStreamKeeper.go_TopUpDeposit w msg) (GeneratedStreamKeeperOnStore.go_TopUpDeposit ws msg)) /\
  (forall msg, dom (MsgUpdateFlowRate_Sender msg) -> dom (MsgUpdateFlowRate_Receiver msg) ->
     sim dom emb (GeneratedStreamKeeper.go_UpdateFlowRate w msg) (GeneratedStreamKeeperOnStore.go_UpdateFlowRate ws msg)) /\
  (forall msg, dom (MsgCancelStream_Sender msg) -> dom (MsgCancelStream_Receiver msg) ->
     sim dom emb (GeneratedStreamKeeper.go_CancelStream w msg) (GeneratedStreamKeeperOnStore.go_CancelStream ws msg)) /\
  (forall req,
     sim dom emb (GeneratedStreamKeeper.go_UpdateParams w req) (GeneratedStreamKeeperOnStore.go_UpdateParams ws req)).
Proof. exact sim_msg_server. Qed.
Print Assumptions C10_onstore_msg_server.

(* the functions that touch no world are the same functions in the two files *)
Theorem C10_onstore_pure_functions :
  (forall i, GeneratedStreamKeeperOnStore.go_validateBaseValidatorFee i = GeneratedStreamKeeper.go_validateBaseValidatorFee i) /\
  (forall p, GeneratedStreamKeeperOnStore.go_Params_Validate p = GeneratedStreamKeeper.go_Params_Validate p) /\
  (forall m, GeneratedStreamKeeperOnStore.go_MsgCreateStream_ValidateBasic m =
             GeneratedStreamKeeper.go_MsgCreateStream_ValidateBasic m) /\
  (forall m, GeneratedStreamKeeperOnStore.go_MsgClaimStream_ValidateBasic m =
             GeneratedStreamKeeper.go_MsgClaimStream_ValidateBasic m) /\
  (forall m, GeneratedStreamKeeperOnStore.go_MsgTopUpDeposit_ValidateBasic m =
             GeneratedStreamKeeper.go_MsgTopUpDeposit_ValidateBasic m) /\
  (forall m, GeneratedStreamKeeperOnStore.go_MsgUpdateFlowRate_ValidateBasic m =
             GeneratedStreamKeeper.go_MsgUpdateFlowRate_ValidateBasic m) /\
  (forall m, GeneratedStreamKeeperOnStore.go_MsgCancelStream_ValidateBasic m =
             GeneratedStreamKeeper.go_MsgCancelStream_ValidateBasic m) /\
  (forall t secs, GeneratedStreamKeeperOnStore.go_addSeconds t secs = GeneratedStreamKeeper.go_addSeconds t secs).
Proof. exact pure_functions_agree. Qed.
Print Assumptions C10_onstore_pure_functions.

(* ------------------------------------------------------------------ *)
(* histories                                                            *)
(* ------------------------------------------------------------------ *)

(* delivery of one of the six message kinds on either rendering, in full: ValidateBasic, then the handler.
   go_str_validate_basic / go_msg_exec (proofs/GeneratedStreamValidateEq.v, model/StreamGenSpec.v) and
   os_str_validate_basic / os_msg_exec dispatch on the model's message type to the generated functions of (1) / (2). *)
Theorem C10_onstore_deliver :
  forall (w : kworld) (ws : sworld) (m : kmsg),
  k_deliver w m =
    match m with
    | KStr m => do _ <- go_str_validate_basic m; do (w', r) <- go_msg_exec w m; Ok (w', KRStr r)
    | KUpdateParams req => do (w', _) <- GeneratedStreamKeeper.go_UpdateParams w req; Ok (w', KRParams)
    end /\
  s_deliver ws m =
    match m with
    | KStr m => do _ <- os_str_validate_basic m; do (w', r) <- os_msg_exec ws m; Ok (w', KRStr r)
    | KUpdateParams req => do (w', _) <- GeneratedStreamKeeperOnStore.go_UpdateParams ws req; Ok (w', KRParams)
    end.
Proof. exact (fun w ws m => conj eq_refl eq_refl). Qed.
Print Assumptions C10_onstore_deliver.

(* a run: each message is delivered at its block time; a failed or panicking message (runTx recovers) leaves the state
   untouched; every result is kept *)
Theorem C10_onstore_run :
  forall (w : kworld) (ws : sworld) (t : Z) (m : kmsg) (h : list (Z * kmsg)),
  k_run w [] = ([], w) /\ s_run ws [] = ([], ws) /\
  k_run w ((t, m) :: h) =
    match k_deliver (mk_kworld t (kw_bank w) (kw_str w)) m with
    | Ok (w', r) => (Ok r :: fst (k_run w' h), snd (k_run w' h))
    | Err e => (Err e :: fst (k_run (mk_kworld t (kw_bank w) (kw_str w)) h), snd (k_run (mk_kworld t (kw_bank w) (kw_str w)) h))
    | Panic c => (Panic c :: fst (k_run (mk_kworld t (kw_bank w) (kw_str w)) h), snd (k_run (mk_kworld t (kw_bank w) (kw_str w)) h))
    end /\
  s_run ws ((t, m) :: h) =
    match s_deliver (mk_sworld (sw_emb ws) t (sw_bank ws) (sw_store ws)) m with
    | Ok (ws', r) => (Ok r :: fst (s_run ws' h), snd (s_run ws' h))
    | Err e => (Err e :: fst (s_run (mk_sworld (sw_emb ws) t (sw_bank ws) (sw_store ws)) h),
                snd (s_run (mk_sworld (sw_emb ws) t (sw_bank ws) (sw_store ws)) h))
    | Panic c => (Panic c :: fst (s_run (mk_sworld (sw_emb ws) t (sw_bank ws) (sw_store ws)) h),
                  snd (s_run (mk_sworld (sw_emb ws) t (sw_bank ws) (sw_store ws)) h))
    end.
Proof. exact (fun w ws t m h => conj eq_refl (conj eq_refl (conj eq_refl eq_refl))). Qed.
Print Assumptions C10_onstore_run.

(* ANY history of the six message kinds with addresses in dom, from related worlds: the same result for every message
   (response, or Err / Panic code), related final worlds *)
Theorem C10_onstore_history :
  forall (dom : Z -> Prop) (emb : Z -> list N),
  (forall a, dom a -> (1 <= length (emb a) <= 255)%nat) ->
  (forall a b, dom a -> dom b -> emb a = emb b -> a = b) ->
  forall (h : list (Z * kmsg)) (w : kworld) (ws : sworld),
  Rw dom emb w ws ->
  Forall (fun tm => match snd tm with
                    | KStr (SCreate sn r _ _ _) | KStr (SClaim sn r) | KStr (STopUp sn r _ _)
                    | KStr (SUpdateFlow sn r _) | KStr (SCancel sn r) => dom sn /\ dom r
                    | KUpdateParams _ => True
                    end) h ->
  fst (k_run w h) = fst (s_run ws h) /\ Rw dom emb (snd (k_run w h)) (snd (s_run ws h)).
Proof. exact sim_run_spelled. Qed.
Print Assumptions C10_onstore_history.


(* the side conditions of the statements below, in full: the addresses of a message are in dom; block times never
   decrease and are storable, and what the Go types and the signature check guarantee (str_msg_wf of model/StreamSpec.v) *)
Theorem C10_onstore_side_conditions :
  forall (dom : Z -> Prop) (m : str_msg) (km : kmsg) (now t : Z) (h : list (Z * kmsg)),
  (msg_dom dom m <->
   match m with
   | SCreate sn r _ _ _ | SClaim sn r | STopUp sn r _ _ | SUpdateFlow sn r _ | SCancel sn r => dom sn /\ dom r
   end) /\
  (kmsg_dom dom km <-> match km with KStr m => msg_dom dom m | KUpdateParams _ => True end) /\
  (ktimes_sorted now [] <-> True) /\
  (ktimes_sorted now ((t, km) :: h) <->
   now <= t /\ time_storable t = true /\ match km with KStr m => str_msg_wf m | KUpdateParams _ => True end /\
   ktimes_sorted t h) /\
  klast_time now [] = now /\ klast_time now ((t, km) :: h) = klast_time t h.
Proof. exact dom_spelled. Qed.
Print Assumptions C10_onstore_side_conditions.

(* histories of the model's five kinds run by rendering (2) end in a world representing the MODEL's run str_run *)
Theorem C10_onstore_run_is_model :
  forall (dom : Z -> Prop) (emb : Z -> list N),
  (forall a, dom a -> (1 <= length (emb a) <= 255)%nat) ->
  (forall a b, dom a -> dom b -> emb a = emb b -> a = b) ->
  forall (h : list (Z * str_msg)) (now0 : Z) (w : kworld) (ws : sworld),
  Rw dom emb w ws -> str_inv now0 (kw_bank w) (kw_str w) -> times_sorted now0 h ->
  Forall (fun tm => msg_dom dom (snd tm)) h ->
  exists w', Rw dom emb w' (snd (s_run ws (map (fun tm => (fst tm, KStr (snd tm))) h))) /\
             (kw_bank w', kw_str w') = str_run (kw_bank w, kw_str w) h.
Proof. exact os_run_is_model. Qed.
Print Assumptions C10_onstore_run_is_model.

(* ------------------------------------------------------------------ *)
(* C10 / C11 / C12 of the code on the byte store                        *)
(* ------------------------------------------------------------------ *)

(* vocabulary: the deposits of one denomination as the GENERATED IterateAllStreams lists them on the byte store *)
Theorem C10_onstore_total_deposits :
  forall (s : okv stream_val) (d : denom) (ws : sworld),
  os_total_deposits s d =
    match go_st_IterateAllStreams s (fun acc_ a_ => Ok (acc_ ++ [a_], false)) [] with
    | Ok L => sumZ (map (fun a => if fst (Stream_Deposit (snd a)) =? d then snd (Stream_Deposit (snd a)) else 0) L)
    | _ => 0
    end /\
  (os_escrow_backed ws <-> forall d, balance (sw_bank ws) STREAM_MACC d = os_total_deposits (sw_store ws) d).
Proof. exact (fun s d ws => conj eq_refl (iff_refl _)). Qed.
Print Assumptions C10_onstore_total_deposits.

(* C10: in EVERY state rendering (2) reaches by a history of the six kinds (block times non-decreasing and storable,
   flow rates int64, signers ordinary accounts - ktimes_sorted; addresses in dom) from a world representing a state
   inside the invariant, the escrow is fully backed: the module account holds, per denomination, exactly the deposits of
   the abstract state the store represents - and exactly the deposits the store itself lists *)
Theorem C10_onstore_escrow_backed_reachable :
  forall (dom : Z -> Prop) (emb : Z -> list N),
  (forall a, dom a -> (1 <= length (emb a) <= 255)%nat) ->
  (forall a b, dom a -> dom b -> emb a = emb b -> a = b) ->
  forall (h : list (Z * kmsg)) (now0 : Z) (w : kworld) (ws : sworld),
  Rw dom emb w ws -> str_inv now0 (kw_bank w) (kw_str w) -> ktimes_sorted now0 h ->
  Forall (fun tm => kmsg_dom dom (snd tm)) h ->
  (exists st', Rstr dom emb (sw_store (snd (s_run ws h))) st' /\ escrow_backed (sw_bank (snd (s_run ws h))) st') /\
  os_escrow_backed (snd (s_run ws h)).
Proof. exact os_escrow_backed_reachable. Qed.
Print Assumptions C10_onstore_escrow_backed_reachable.

(* ... every such state represents a state of rendering (1) inside the invariant str_inv (so every consequence of the
   invariant holds there), and the two runs answered alike.  The invariant along histories of SIX kinds is new for
   rendering (1) too (proofs/StreamProofs.v has the five): *)
Theorem C10_onstore_reachable_invariant :
  forall (dom : Z -> Prop) (emb : Z -> list N),
  (forall a, dom a -> (1 <= length (emb a) <= 255)%nat) ->
  (forall a b, dom a -> dom b -> emb a = emb b -> a = b) ->
  forall (h : list (Z * kmsg)) (now0 : Z) (w : kworld) (ws : sworld),
  Rw dom emb w ws -> str_inv now0 (kw_bank w) (kw_str w) -> ktimes_sorted now0 h ->
  Forall (fun tm => kmsg_dom dom (snd tm)) h ->
  exists w', Rw dom emb w' (snd (s_run ws h)) /\ str_inv (klast_time now0 h) (kw_bank w') (kw_str w') /\
             fst (s_run ws h) = fst (k_run w h).
Proof. exact os_run_reachable. Qed.
Print Assumptions C10_onstore_reachable_invariant.

Theorem C10_generated_six_kinds_invariant :
  forall (h : list (Z * kmsg)) (now0 : Z) (w : kworld),
  str_inv now0 (kw_bank w) (kw_str w) -> ktimes_sorted now0 h ->
  str_inv (klast_time now0 h) (kw_bank (snd (k_run w h))) (kw_str (snd (k_run w h))).
Proof. exact k_run_inv. Qed.
Print Assumptions C10_generated_six_kinds_invariant.

(* C12: a claim on a funded stream - as the generated GetStream reads it from the bytes - succeeds *)
Theorem C12_onstore_claim_succeeds :
  forall (dom : Z -> Prop) (emb : Z -> list N),
  (forall a, dom a -> (1 <= length (emb a) <= 255)%nat) ->
  (forall a b, dom a -> dom b -> emb a = emb b -> a = b) ->
  forall (w : kworld) (ws : sworld) (sn r : Z) (g : go_Stream),
  Rw dom emb w ws -> str_inv (kw_now w) (kw_bank w) (kw_str w) -> dom sn -> dom r ->
  os_str_GetStream ws r sn = Ok (g, true) -> 0 < snd (Stream_Deposit g) ->
  exists ws' c, os_msg_exec ws (SClaim sn r) = Ok (ws', RClaim c) /\ exists w', Rw dom emb w' ws'.
Proof. exact os_claim_succeeds. Qed.
Print Assumptions C12_onstore_claim_succeeds.

(* C12: the sender of a cancellable stream can always cancel; claim and cancel never panic *)
Theorem C12_onstore_cancel_succeeds :
  forall (dom : Z -> Prop) (emb : Z -> list N),
  (forall a, dom a -> (1 <= length (emb a) <= 255)%nat) ->
  (forall a b, dom a -> dom b -> emb a = emb b -> a = b) ->
  forall (w : kworld) (ws : sworld) (sn r : Z) (g : go_Stream),
  Rw dom emb w ws -> str_inv (kw_now w) (kw_bank w) (kw_str w) -> dom sn -> dom r ->
  os_str_GetStream ws r sn = Ok (g, true) -> Stream_Cancellable g = true -> blocked sn = false ->
  exists ws', os_msg_exec ws (SCancel sn r) = Ok (ws', RNone) /\ exists w', Rw dom emb w' ws'.
Proof. exact os_cancel_succeeds. Qed.
Print Assumptions C12_onstore_cancel_succeeds.

Theorem C12_onstore_no_panic_claim_cancel :
  forall (dom : Z -> Prop) (emb : Z -> list N),
  (forall a, dom a -> (1 <= length (emb a) <= 255)%nat) ->
  (forall a b, dom a -> dom b -> emb a = emb b -> a = b) ->
  forall (w : kworld) (ws : sworld) (sn r : Z),
  Rw dom emb w ws -> str_inv (kw_now w) (kw_bank w) (kw_str w) -> dom sn -> dom r ->
  (forall c, os_msg_exec ws (SClaim sn r) <> Panic c) /\ (forall c, os_msg_exec ws (SCancel sn r) <> Panic c).
Proof. exact os_no_panic_claim_cancel. Qed.
Print Assumptions C12_onstore_no_panic_claim_cancel.

(* C11: before the deposit-zero time a successful claim releases exactly rate x whole seconds since the last release
   (never more than the elapsed time pays for), and leaves a positive remainder *)
Theorem C11_onstore_never_early :
  forall (dom : Z -> Prop) (emb : Z -> list N),
  (forall a, dom a -> (1 <= length (emb a) <= 255)%nat) ->
  (forall a b, dom a -> dom b -> emb a = emb b -> a = b) ->
  forall (w : kworld) (ws : sworld) (sn r : Z) (g : go_Stream) (ws' : sworld) (c : claim_res),
  Rw dom emb w ws -> str_inv (kw_now w) (kw_bank w) (kw_str w) -> dom sn -> dom r ->
  os_str_GetStream ws r sn = Ok (g, true) -> sw_now ws < Stream_DepositZeroTime g ->
  os_msg_exec ws (SClaim sn r) = Ok (ws', RClaim c) ->
  cr_total c = Stream_FlowRate g * whole_seconds (sw_now ws - Stream_LastOutflowTime g) /\
  cr_total c < snd (Stream_Deposit g) /\ 0 < cr_remaining c /\
  cr_total c * NS <= Stream_FlowRate g * (sw_now ws - Stream_LastOutflowTime g).
Proof. exact os_never_early. Qed.
Print Assumptions C11_onstore_never_early.

(* ------------------------------------------------------------------ *)
(* non-vacuity: rendering (2) runs, on 20-byte addresses                *)
(* ------------------------------------------------------------------ *)

(* the embedding (account a in 0..255 = nineteen zero bytes and the byte a) satisfies the hypotheses; the initial worlds
   (account 1 holds 10^22 of denom 0, validator fee 1 %; the store holds the Params cell only) are related *)
Theorem C10_onstore_example_setup :
  (forall a, 0 <= a < 256 -> (1 <= length (repeat 0%N 19 ++ [Z.to_N a]) <= 255)%nat) /\
  (forall a b, 0 <= a < 256 -> 0 <= b < 256 -> repeat 0%N 19 ++ [Z.to_N a] = repeat 0%N 19 ++ [Z.to_N b] -> a = b) /\
  Rw (fun a => 0 <= a < 256) (fun a => repeat 0%N 19 ++ [Z.to_N a])
     (mk_kworld ex_now ex_bank {| s_valfee := 10000000000000000; s_streams := [] |})
     (mk_sworld (fun a => repeat 0%N 19 ++ [Z.to_N a]) ex_now ex_bank
                [([1%N], SV_Params (mk_go_Params 10000000000000000))]).
Proof. exact (conj ex_emb20_len (conj ex_emb20_inj ex_Rw0)). Qed.
Print Assumptions C10_onstore_example_setup.

(* eight messages executed by rendering (2): create, claim, a stranger's claim (refused), top-up, rate change, an
   unauthorised UpdateParams (refused), cancel, UpdateParams - results, final store, final balances *)
Theorem C10_onstore_example_run :
  ex_khist =
    [ (ex_t 0,  KStr (SCreate 1 2 0 100000 100));
      (ex_t 10, KStr (SClaim 1 2));
      (ex_t 15, KStr (SClaim 3 2));
      (ex_t 20, KStr (STopUp 1 2 0 50000));
      (ex_t 30, KStr (SUpdateFlow 1 2 200));
      (ex_t 35, KUpdateParams (mk_go_MsgUpdateParams 1 (mk_go_Params 20000000000000000)));
      (ex_t 40, KStr (SCancel 1 2));
      (ex_t 50, KUpdateParams (mk_go_MsgUpdateParams GOV_MACC (mk_go_Params 20000000000000000))) ] /\
  fst (s_run ex_sw0 ex_khist) =
    [ Ok (KRStr RNone);
      Ok (KRStr (RClaim {| cr_receiver := 990; cr_fee := 10; cr_total := 1000; cr_remaining := 99000 |}));
      Err ERR_INVALID_DATA;
      Ok (KRStr (RTopUp 149000 (ex_t 1500)));
      Ok (KRStr RNone);
      Err 42;
      Ok (KRStr RNone);
      Ok KRParams ] /\
  sw_store (snd (s_run ex_sw0 ex_khist)) = [(stream_ParamsKey, SV_Params (mk_go_Params 20000000000000000))] /\
  balance (sw_bank (snd (s_run ex_sw0 ex_khist))) STREAM_MACC 0 = 0 /\
  balance (sw_bank (snd (s_run ex_sw0 ex_khist))) 2 0 = 4950 /\
  balance (sw_bank (snd (s_run ex_sw0 ex_khist))) FEE_COLLECTOR 0 = 50.
Proof. exact (conj eq_refl ex_onstore_run). Qed.
Print Assumptions C10_onstore_example_run.

(* after the first five: the Params cell and one stream under a 43-byte key; the generated accessor reads the stream back;
   the store lists 147000, the module account holds 147000 *)
Theorem C10_onstore_example_mid :
  let ws := snd (s_run ex_sw0 (firstn 5 ex_khist)) in
  map (fun kv => length (fst kv)) (sw_store ws) = [1; 43]%nat /\
  os_str_GetStream ws 2 1 = Ok (mk_go_Stream (0, 147000) 200 (ex_t 30) (ex_t 765) true, true) /\
  os_total_deposits (sw_store ws) 0 = 147000 /\ balance (sw_bank ws) STREAM_MACC 0 = 147000.
Proof. exact ex_onstore_mid. Qed.
Print Assumptions C10_onstore_example_mid.

(* the run of rendering (1) on the same history: the same eight results, related final worlds *)
Theorem C10_onstore_example_related :
  fst (k_run ex_kw0 ex_khist) = fst (s_run ex_sw0 ex_khist) /\
  Rw ex_dom20 ex_emb20 (snd (k_run ex_kw0 ex_khist)) (snd (s_run ex_sw0 ex_khist)) /\
  os_escrow_backed (snd (s_run ex_sw0 (firstn 5 ex_khist))).
Proof. exact ex_onstore_related. Qed.
Print Assumptions C10_onstore_example_related.
