(* C16, link to the source: Params.Validate of /repo/x/enterprise/types/params.go as generated on every run
   (go_validateDenom, go_validateMinAccepts, go_validateDecisionLimit, go_validateEntSigners with its loop over the
   signers, go_Params_Validate in coq/GeneratedEnterpriseKeeper.v) is the model's [ent_params_valid]: Ok exactly on the
   valid sets, an error otherwise, never a panic.  In particular the comparison of MinAccepts with the number of signers
   is the unsigned one (fix D4): MinAccepts = 2^63 with one signer is refused.
   Hypotheses: MinAccepts and DecisionTimeLimit (uint64) not negative, fewer than 2^64 signers; each shown necessary in
   proofs/GeneratedEnterpriseParamsEq.v, which also has the exact error code ([gen_ent_Params_Validate_exact]: 30, or
   sdk.ValidateDenom's own 1 for a non-blank malformed denomination). *)
From MC Require Import lib.Prelude lib.AMap lib.GoSdk GeneratedEnterpriseTypes model.Bank model.Enterprise
  model.EnterpriseKeeperPrims GeneratedEnterpriseKeeper.
From MC Require Import proofs.GeneratedEnterpriseParamsEq.
Local Open Scope Z_scope.

Theorem C16_generated_ent_params_validate_is_model : forall p,
  0 <= Params_MinAccepts p /\ 0 <= Params_DecisionTimeLimit p /\ go_len_list (Params_EntSigners p) < two64 ->
  (go_Params_Validate p = Ok tt <-> ent_params_valid (params_of_go p) = true) /\
  (forall r, go_Params_Validate p = r -> r = Ok tt \/ exists c, r = Err c).
Proof. exact gen_ent_Params_Validate_eq. Qed.
Print Assumptions C16_generated_ent_params_validate_is_model.

(* fields: EntSigners Denom MinAccepts DecisionTimeLimit *)
(* valid: three signers, two accepts needed; and MinAccepts = the number of signers (the boundary) *)
Example C16_generated_ent_params_valid_ex :
  go_Params_Validate (mk_go_Params [5; 6; 7] 0 2 84600) = Ok tt /\
  ent_params_valid (params_of_go (mk_go_Params [5; 6; 7] 0 2 84600)) = true /\
  go_Params_Validate (mk_go_Params [5; 6; 7] 0 3 84600) = Ok tt /\
  ent_params_valid (params_of_go (mk_go_Params [5; 6; 7] 0 3 84600)) = true.
Proof. vm_compute. repeat split. Qed.

(* invalid, at the boundary: MinAccepts = the number of signers + 1 *)
Example C16_generated_ent_params_min_above_signers_ex :
  go_Params_Validate (mk_go_Params [5; 6; 7] 0 4 84600) = Err 30 /\
  ent_params_valid (params_of_go (mk_go_Params [5; 6; 7] 0 4 84600)) = false.
Proof. vm_compute. repeat split. Qed.

(* invalid: MinAccepts = 2^63 with one signer (a signed comparison would accept it: int64(2^63) < 0); also an
   unparsable signer, no signer, a zero MinAccepts *)
Example C16_generated_ent_params_invalid_ex :
  go_Params_Validate (mk_go_Params [5] 0 9223372036854775808 84600) = Err 30 /\
  ent_params_valid (params_of_go (mk_go_Params [5] 0 9223372036854775808 84600)) = false /\
  go_Params_Validate (mk_go_Params [5; BAD_ADDR; 7] 0 2 84600) = Err 30 /\
  ent_params_valid (params_of_go (mk_go_Params [5; BAD_ADDR; 7] 0 2 84600)) = false /\
  go_Params_Validate (mk_go_Params [] 0 1 84600) = Err 30 /\
  ent_params_valid (params_of_go (mk_go_Params [] 0 1 84600)) = false /\
  go_Params_Validate (mk_go_Params [5; 6; 7] 0 0 84600) = Err 30 /\
  ent_params_valid (params_of_go (mk_go_Params [5; 6; 7] 0 0 84600)) = false.
Proof. vm_compute. repeat split. Qed.
