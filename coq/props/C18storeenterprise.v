(* C18 (store layer, x/enterprise): the generated store accessors of x/enterprise (GeneratedEnterpriseStore.v) implement
   finite maps on the ordered byte-keyed store of model/KVStore.v.  Statements only; the proofs are in
   proofs/GeneratedEnterpriseStoreEq.v.  The accessors take the two address conversions
   (bech32 : go_addr -> outcome (list N), addr_string : list N -> go_addr) as parameters; a theorem quantifies over
   exactly those its statement mentions, and states as a premise whatever it needs of them.
   Named predicates: [touches k s s'] (s' is s with the one cell at the key of k set or deleted),
   [ent_wf bech32 s] (every entry of s holds a value of its section's constructor under the key derived from it),
   [owner_lt bech32 o1 o2] (the decoded owners are in ascending byte order). *)
From Coq Require Import ZArith NArith List Bool Sorted.
From MC Require Import lib.Prelude lib.GoSdk model.Keys model.KVStore model.StoreCodecPrims.
From MC Require Import GeneratedKeys GeneratedEnterpriseTypes GeneratedEnterpriseKeeper GeneratedEnterpriseStore.
From MC Require Import proofs.GeneratedEnterpriseStoreEq.
Import ListNotations.
Open Scope Z_scope.

(* SetParams then the five parameter readers: exactly what was written *)
Theorem C18_store_enterprise_ryw_params :
  forall (s s' : okv enterprise_val) (p : go_Params), go_st_SetParams s p = Ok (s', tt) ->
  go_st_GetParams s' = Ok p /\
  go_st_GetParamDenom s' = Ok (Params_Denom p) /\
  go_st_GetParamMinAccepts s' = Ok (Params_MinAccepts p) /\
  go_st_GetParamDecisionLimit s' = Ok (Params_DecisionTimeLimit p) /\
  go_st_GetParamEntSigners s' = Ok (Params_EntSigners p).
Proof. exact hl_ryw_params. Qed.
Print Assumptions C18_store_enterprise_ryw_params.

(* the purchase-order counter reads back (a Go uint64), and is an error while nothing is stored *)
Theorem C18_store_enterprise_ryw_highest :
  forall (s s' : okv enterprise_val) (id : Z), 0 <= id < 2 ^ 64 ->
  go_st_SetHighestPurchaseOrderID s id = Ok (s', tt) ->
  go_st_GetHighestPurchaseOrderID s' = Ok id /\
  go_st_GetHighestPurchaseOrderID [] = Err STORE_ERR.
Proof. exact hl_ryw_highest. Qed.
Print Assumptions C18_store_enterprise_ryw_highest.

(* SetPurchaseOrder then GetPurchaseOrder / PurchaseOrderExists at the order's id; an invalid status is refused *)
Theorem C18_store_enterprise_ryw_purchase_order :
  forall (s : okv enterprise_val) (po : go_EnterpriseUndPurchaseOrder),
  (forall s', go_st_SetPurchaseOrder s po = Ok (s', tt) ->
     1 <= EnterpriseUndPurchaseOrder_Status po <= 4 /\
     go_st_GetPurchaseOrder s' (EnterpriseUndPurchaseOrder_Id po) = Ok (po, true) /\
     go_st_PurchaseOrderExists s' (EnterpriseUndPurchaseOrder_Id po) = Ok true) /\
  (~ (1 <= EnterpriseUndPurchaseOrder_Status po <= 4) -> go_st_SetPurchaseOrder s po = Err STORE_ERR) /\
  (forall id, go_st_PurchaseOrderExists s id = Ok false ->
     go_st_GetPurchaseOrder s id = Ok (zero_go_EnterpriseUndPurchaseOrder, false)).
Proof. exact hl_ryw_purchase_order. Qed.
Print Assumptions C18_store_enterprise_ryw_purchase_order.

(* raised / accepted queue: in after Add, out after Remove (sorted store); removing an absent id changes nothing *)
Theorem C18_store_enterprise_ryw_queues :
  forall (s s' : okv enterprise_val) (id : Z),
  (go_st_AddPoToRaisedQueue s id = Ok (s', tt) -> go_st_PurchaseOrderIsInRaisedQueue s' id = Ok true) /\
  (okv_sorted s = true -> go_st_RemovePurchaseOrderFromRaisedQueue s id = Ok (s', tt) ->
     go_st_PurchaseOrderIsInRaisedQueue s' id = Ok false) /\
  (go_st_PurchaseOrderIsInRaisedQueue s id = Ok false -> go_st_RemovePurchaseOrderFromRaisedQueue s id = Ok (s, tt)) /\
  (go_st_AddPoToAcceptedQueue s id = Ok (s', tt) -> go_st_PurchaseOrderIsInAcceptedQueue s' id = Ok true) /\
  (okv_sorted s = true -> go_st_RemovePurchaseOrderFromAcceptedQueue s id = Ok (s', tt) ->
     go_st_PurchaseOrderIsInAcceptedQueue s' id = Ok false) /\
  (go_st_PurchaseOrderIsInAcceptedQueue s id = Ok false -> go_st_RemovePurchaseOrderFromAcceptedQueue s id = Ok (s, tt)).
Proof. exact hl_ryw_queues. Qed.
Print Assumptions C18_store_enterprise_ryw_queues.

(* whitelist: in after Add, out after Remove (sorted store); the EMPTY address is never whitelisted and refused by Add / Remove *)
Theorem C18_store_enterprise_ryw_whitelist :
  forall (s s' : okv enterprise_val) (a : list N),
  (go_st_AddAddressToWhitelist s a = Ok (s', tt) -> a <> [] /\ go_st_AddressIsWhitelisted s' a = Ok true) /\
  (okv_sorted s = true -> go_st_RemoveAddressFromWhitelist s a = Ok (s', tt) ->
     a <> [] /\ go_st_AddressIsWhitelisted s' a = Ok false) /\
  (a <> [] -> go_st_AddressIsWhitelisted s a = Ok false -> go_st_RemoveAddressFromWhitelist s a = Ok (s, tt)) /\
  go_st_AddressIsWhitelisted s [] = Ok false /\
  go_st_AddAddressToWhitelist s [] = Err STORE_ERR_SDK /\
  go_st_RemoveAddressFromWhitelist s [] = Err STORE_ERR_SDK.
Proof. exact hl_ryw_whitelist. Qed.
Print Assumptions C18_store_enterprise_ryw_whitelist.

(* SetLockedUndForAccount then the four readers at the decoded owner: exactly the record written; a negative amount is refused *)
Theorem C18_store_enterprise_ryw_locked :
  forall (bech32 : go_addr -> outcome (list N)) (addr_string : list N -> go_addr),
  forall (s : okv enterprise_val) (x : go_LockedUnd) (b : list N), bech32 (LockedUnd_Owner x) = Ok b ->
  (forall s', go_st_SetLockedUndForAccount bech32 s x = Ok (s', tt) ->
     0 <= snd (LockedUnd_Amount x) /\
     go_st_AccountHasLockedUnd s' b = Ok true /\
     go_st_GetLockedUndForAccount addr_string s' b = Ok x /\
     go_st_GetLockedUndAmountForAccount addr_string s' b = Ok (LockedUnd_Amount x) /\
     go_st_IsLocked addr_string s' b = Ok (Coin_IsPositive (LockedUnd_Amount x))) /\
  (snd (LockedUnd_Amount x) < 0 -> go_st_SetLockedUndForAccount bech32 s x = Err STORE_ERR).
Proof. exact hl_ryw_locked. Qed.
Print Assumptions C18_store_enterprise_ryw_locked.

(* SetSpentEFUNDForAccount then the three readers at the decoded owner *)
Theorem C18_store_enterprise_ryw_spent :
  forall (bech32 : go_addr -> outcome (list N)) (addr_string : list N -> go_addr),
  forall (s s' : okv enterprise_val) (x : go_SpentEFUND) (b : list N),
  go_st_SetSpentEFUNDForAccount bech32 s x = Ok (s', tt) -> bech32 (SpentEFUND_Owner x) = Ok b ->
  go_st_AccountHasSpentEFUND s' b = Ok true /\
  go_st_GetSpentEFUNDForAccount addr_string s' b = Ok x /\
  go_st_GetSpentEFUNDAmountForAccount addr_string s' b = Ok (SpentEFUND_Amount x).
Proof. exact hl_ryw_spent. Qed.
Print Assumptions C18_store_enterprise_ryw_spent.

(* the two totals read back *)
Theorem C18_store_enterprise_ryw_totals :
  forall (s s' : okv enterprise_val) (c : go_coin),
  (go_st_SetTotalLockedUnd s c = Ok (s', tt) -> go_st_GetTotalLockedUnd s' = Ok c) /\
  (go_st_SetTotalSpentEFUND s c = Ok (s', tt) -> go_st_GetTotalSpentEFUND s' = Ok c).
Proof. exact hl_ryw_totals. Qed.
Print Assumptions C18_store_enterprise_ryw_totals.

(* nothing stored: the zero coin of the PARAMETER denomination (these readers also read the params cell) *)
Theorem C18_store_enterprise_defaults :
  forall (addr_string : list N -> go_addr),
  forall (s : okv enterprise_val) (p : go_Params) (a : list N), go_st_GetParams s = Ok p ->
  (okv_get s (ent_encode EkTotalLocked) = None -> go_st_GetTotalLockedUnd s = Ok (Params_Denom p, 0)) /\
  (okv_get s (ent_encode EkTotalSpent) = None -> go_st_GetTotalSpentEFUND s = Ok (Params_Denom p, 0)) /\
  (go_st_AccountHasLockedUnd s a = Ok false ->
     go_st_GetLockedUndForAccount addr_string s a = Ok (mk_go_LockedUnd (addr_string a) (Params_Denom p, 0)) /\
     go_st_GetLockedUndAmountForAccount addr_string s a = Ok (Params_Denom p, 0) /\
     go_st_IsLocked addr_string s a = Ok false) /\
  (go_st_AccountHasSpentEFUND s a = Ok false ->
     go_st_GetSpentEFUNDForAccount addr_string s a = Ok (mk_go_SpentEFUND (addr_string a) (Params_Denom p, 0)) /\
     go_st_GetSpentEFUNDAmountForAccount addr_string s a = Ok (Params_Denom p, 0)).
Proof. exact hl_defaults. Qed.
Print Assumptions C18_store_enterprise_defaults.

(* a write / delete at one id changes no read at ANOTHER id of the same kind (ids of the uint64 range) *)
Theorem C18_store_enterprise_other_ids :
  forall (s s' : okv enterprise_val) (id id' : Z), 0 <= id < 2 ^ 64 -> 0 <= id' < 2 ^ 64 -> id' <> id ->
  (forall po, EnterpriseUndPurchaseOrder_Id po = id -> go_st_SetPurchaseOrder s po = Ok (s', tt) ->
     go_st_GetPurchaseOrder s' id' = go_st_GetPurchaseOrder s id' /\
     go_st_PurchaseOrderExists s' id' = go_st_PurchaseOrderExists s id') /\
  (go_st_AddPoToRaisedQueue s id = Ok (s', tt) \/ go_st_RemovePurchaseOrderFromRaisedQueue s id = Ok (s', tt) ->
     go_st_PurchaseOrderIsInRaisedQueue s' id' = go_st_PurchaseOrderIsInRaisedQueue s id') /\
  (go_st_AddPoToAcceptedQueue s id = Ok (s', tt) \/ go_st_RemovePurchaseOrderFromAcceptedQueue s id = Ok (s', tt) ->
     go_st_PurchaseOrderIsInAcceptedQueue s' id' = go_st_PurchaseOrderIsInAcceptedQueue s id').
Proof. exact hl_other_ids. Qed.
Print Assumptions C18_store_enterprise_other_ids.

(* a write / delete at one address changes no read at ANOTHER address of the same kind (no hypothesis on the addresses) *)
Theorem C18_store_enterprise_other_addresses :
  forall (bech32 : go_addr -> outcome (list N)) (addr_string : list N -> go_addr),
  forall (s s' : okv enterprise_val) (b b' : list N), b' <> b ->
  (go_st_AddAddressToWhitelist s b = Ok (s', tt) \/ go_st_RemoveAddressFromWhitelist s b = Ok (s', tt) ->
     go_st_AddressIsWhitelisted s' b' = go_st_AddressIsWhitelisted s b') /\
  (forall x, go_st_SetLockedUndForAccount bech32 s x = Ok (s', tt) -> bech32 (LockedUnd_Owner x) = Ok b ->
     go_st_AccountHasLockedUnd s' b' = go_st_AccountHasLockedUnd s b' /\
     go_st_GetLockedUndForAccount addr_string s' b' = go_st_GetLockedUndForAccount addr_string s b' /\
     go_st_GetLockedUndAmountForAccount addr_string s' b' = go_st_GetLockedUndAmountForAccount addr_string s b' /\
     go_st_IsLocked addr_string s' b' = go_st_IsLocked addr_string s b') /\
  (forall x, go_st_SetSpentEFUNDForAccount bech32 s x = Ok (s', tt) -> bech32 (SpentEFUND_Owner x) = Ok b ->
     go_st_AccountHasSpentEFUND s' b' = go_st_AccountHasSpentEFUND s b' /\
     go_st_GetSpentEFUNDForAccount addr_string s' b' = go_st_GetSpentEFUNDForAccount addr_string s b' /\
     go_st_GetSpentEFUNDAmountForAccount addr_string s' b' = go_st_GetSpentEFUNDAmountForAccount addr_string s b').
Proof. exact hl_other_addresses. Qed.
Print Assumptions C18_store_enterprise_other_addresses.

(* with bech32 injective on its Ok domain, different OWNER STRINGS do not interfere *)
Theorem C18_store_enterprise_other_owners :
  forall (bech32 : go_addr -> outcome (list N)) (addr_string : list N -> go_addr),
  (forall a a' b, bech32 a = Ok b -> bech32 a' = Ok b -> a = a') ->
  forall (s s' : okv enterprise_val) (o' : go_addr) (b' : list N), bech32 o' = Ok b' ->
  (forall x, go_st_SetLockedUndForAccount bech32 s x = Ok (s', tt) -> o' <> LockedUnd_Owner x ->
     go_st_AccountHasLockedUnd s' b' = go_st_AccountHasLockedUnd s b' /\
     go_st_GetLockedUndForAccount addr_string s' b' = go_st_GetLockedUndForAccount addr_string s b' /\
     go_st_GetLockedUndAmountForAccount addr_string s' b' = go_st_GetLockedUndAmountForAccount addr_string s b' /\
     go_st_IsLocked addr_string s' b' = go_st_IsLocked addr_string s b') /\
  (forall x, go_st_SetSpentEFUNDForAccount bech32 s x = Ok (s', tt) -> o' <> SpentEFUND_Owner x ->
     go_st_AccountHasSpentEFUND s' b' = go_st_AccountHasSpentEFUND s b' /\
     go_st_GetSpentEFUNDForAccount addr_string s' b' = go_st_GetSpentEFUNDForAccount addr_string s b' /\
     go_st_GetSpentEFUNDAmountForAccount addr_string s' b' = go_st_GetSpentEFUNDAmountForAccount addr_string s b').
Proof. exact hl_other_owners. Qed.
Print Assumptions C18_store_enterprise_other_owners.

(* every successful writer is ONE okv_set / okv_del, at a key of its own constructor (touches: set or delete at that key) *)
Theorem C18_store_enterprise_writers_touch_one_cell :
  forall (bech32 : go_addr -> outcome (list N)),
  forall (s s' : okv enterprise_val),
  ((exists p, go_st_SetParams s p = Ok (s', tt)) -> touches EkParams s s') /\
  ((exists id, go_st_SetHighestPurchaseOrderID s id = Ok (s', tt)) -> touches EkHighestPO s s') /\
  ((exists id, go_st_AddPoToRaisedQueue s id = Ok (s', tt)) \/
   (exists id, go_st_RemovePurchaseOrderFromRaisedQueue s id = Ok (s', tt)) -> exists n, touches (EkRaised n) s s') /\
  ((exists id, go_st_AddPoToAcceptedQueue s id = Ok (s', tt)) \/
   (exists id, go_st_RemovePurchaseOrderFromAcceptedQueue s id = Ok (s', tt)) -> exists n, touches (EkAccepted n) s s') /\
  ((exists po, go_st_SetPurchaseOrder s po = Ok (s', tt)) -> exists n, touches (EkPO n) s s') /\
  ((exists a, go_st_AddAddressToWhitelist s a = Ok (s', tt)) \/
   (exists a, go_st_RemoveAddressFromWhitelist s a = Ok (s', tt)) -> exists a, touches (EkWhitelist a) s s') /\
  ((exists c, go_st_SetTotalLockedUnd s c = Ok (s', tt)) -> touches EkTotalLocked s s') /\
  ((exists c, go_st_SetTotalSpentEFUND s c = Ok (s', tt)) -> touches EkTotalSpent s s') /\
  ((exists x, go_st_SetSpentEFUNDForAccount bech32 s x = Ok (s', tt)) -> exists a, touches (EkSpent a) s s') /\
  ((exists x, go_st_SetLockedUndForAccount bech32 s x = Ok (s', tt)) -> exists a, touches (EkLocked a) s s').
Proof. exact hl_writers_touch_one_cell. Qed.
Print Assumptions C18_store_enterprise_writers_touch_one_cell.

(* every writer preserves the store's representation invariant *)
Theorem C18_store_enterprise_writers_preserve_sorted :
  forall (bech32 : go_addr -> outcome (list N)),
  forall (s s' : okv enterprise_val), okv_sorted s = true ->
  (exists p, go_st_SetParams s p = Ok (s', tt)) \/
  (exists id, go_st_SetHighestPurchaseOrderID s id = Ok (s', tt)) \/
  (exists id, go_st_AddPoToRaisedQueue s id = Ok (s', tt)) \/
  (exists id, go_st_RemovePurchaseOrderFromRaisedQueue s id = Ok (s', tt)) \/
  (exists id, go_st_AddPoToAcceptedQueue s id = Ok (s', tt)) \/
  (exists id, go_st_RemovePurchaseOrderFromAcceptedQueue s id = Ok (s', tt)) \/
  (exists po, go_st_SetPurchaseOrder s po = Ok (s', tt)) \/
  (exists a, go_st_AddAddressToWhitelist s a = Ok (s', tt)) \/
  (exists a, go_st_RemoveAddressFromWhitelist s a = Ok (s', tt)) \/
  (exists c, go_st_SetTotalLockedUnd s c = Ok (s', tt)) \/
  (exists c, go_st_SetTotalSpentEFUND s c = Ok (s', tt)) \/
  (exists x, go_st_SetSpentEFUNDForAccount bech32 s x = Ok (s', tt)) \/
  (exists x, go_st_SetLockedUndForAccount bech32 s x = Ok (s', tt)) ->
  okv_sorted s' = true.
Proof. exact hl_writers_preserve_sorted. Qed.
Print Assumptions C18_store_enterprise_writers_preserve_sorted.

(* the empty store is well-formed and every writer preserves well-formedness (ids of the uint64 range) *)
Theorem C18_store_enterprise_writers_preserve_wf :
  forall (bech32 : go_addr -> outcome (list N)),
  ent_wf bech32 [] /\
  forall (s s' : okv enterprise_val), ent_wf bech32 s ->
  (exists p, go_st_SetParams s p = Ok (s', tt)) \/
  (exists id, 0 <= id < 2 ^ 64 /\ go_st_SetHighestPurchaseOrderID s id = Ok (s', tt)) \/
  (exists id, 0 <= id < 2 ^ 64 /\ go_st_AddPoToRaisedQueue s id = Ok (s', tt)) \/
  (exists id, go_st_RemovePurchaseOrderFromRaisedQueue s id = Ok (s', tt)) \/
  (exists id, 0 <= id < 2 ^ 64 /\ go_st_AddPoToAcceptedQueue s id = Ok (s', tt)) \/
  (exists id, go_st_RemovePurchaseOrderFromAcceptedQueue s id = Ok (s', tt)) \/
  (exists po, 0 <= (EnterpriseUndPurchaseOrder_Id po) < 2 ^ 64 /\ go_st_SetPurchaseOrder s po = Ok (s', tt)) \/
  (exists a, go_st_AddAddressToWhitelist s a = Ok (s', tt)) \/
  (exists a, go_st_RemoveAddressFromWhitelist s a = Ok (s', tt)) \/
  (exists c, go_st_SetTotalLockedUnd s c = Ok (s', tt)) \/
  (exists c, go_st_SetTotalSpentEFUND s c = Ok (s', tt)) \/
  (exists x, go_st_SetSpentEFUNDForAccount bech32 s x = Ok (s', tt)) \/
  (exists x, go_st_SetLockedUndForAccount bech32 s x = Ok (s', tt)) ->
  ent_wf bech32 s'.
Proof. exact hl_writers_preserve_wf. Qed.
Print Assumptions C18_store_enterprise_writers_preserve_wf.

(* on a well-formed store no point reader meets a value of the wrong type; the counter is a uint64 or absent *)
Theorem C18_store_enterprise_wf_reads_typed :
  forall (bech32 : go_addr -> outcome (list N)) (addr_string : list N -> go_addr),
  forall (s : okv enterprise_val), ent_wf bech32 s ->
  (exists p, go_st_GetParams s = Ok p) /\
  (go_st_GetHighestPurchaseOrderID s = Err STORE_ERR \/ exists id, 0 <= id < 2 ^ 64 /\ go_st_GetHighestPurchaseOrderID s = Ok id) /\
  (forall id, exists r, go_st_GetPurchaseOrder s id = Ok r) /\
  (exists c, go_st_GetTotalLockedUnd s = Ok c) /\
  (exists c, go_st_GetTotalSpentEFUND s = Ok c) /\
  (forall a, exists x, go_st_GetLockedUndForAccount addr_string s a = Ok x) /\
  (forall a, exists x, go_st_GetSpentEFUNDForAccount addr_string s a = Ok x).
Proof. exact hl_wf_reads_typed. Qed.
Print Assumptions C18_store_enterprise_wf_reads_typed.

(* no writer of another kind changes a parameter reader / the counter reader *)
Theorem C18_store_enterprise_isolation_params_counter :
  forall (bech32 : go_addr -> outcome (list N)),
  forall (s s' : okv enterprise_val),
  ((exists id, go_st_SetHighestPurchaseOrderID s id = Ok (s', tt)) \/
   (exists id, go_st_AddPoToRaisedQueue s id = Ok (s', tt)) \/
   (exists id, go_st_RemovePurchaseOrderFromRaisedQueue s id = Ok (s', tt)) \/
   (exists id, go_st_AddPoToAcceptedQueue s id = Ok (s', tt)) \/
   (exists id, go_st_RemovePurchaseOrderFromAcceptedQueue s id = Ok (s', tt)) \/
   (exists po, go_st_SetPurchaseOrder s po = Ok (s', tt)) \/
   (exists a, go_st_AddAddressToWhitelist s a = Ok (s', tt)) \/
   (exists a, go_st_RemoveAddressFromWhitelist s a = Ok (s', tt)) \/
   (exists c, go_st_SetTotalLockedUnd s c = Ok (s', tt)) \/
   (exists c, go_st_SetTotalSpentEFUND s c = Ok (s', tt)) \/
   (exists x, go_st_SetSpentEFUNDForAccount bech32 s x = Ok (s', tt)) \/
   (exists x, go_st_SetLockedUndForAccount bech32 s x = Ok (s', tt)) ->
   go_st_GetParams s' = go_st_GetParams s /\
   go_st_GetParamDenom s' = go_st_GetParamDenom s /\
   go_st_GetParamMinAccepts s' = go_st_GetParamMinAccepts s /\
   go_st_GetParamDecisionLimit s' = go_st_GetParamDecisionLimit s /\
   go_st_GetParamEntSigners s' = go_st_GetParamEntSigners s) /\
  ((exists p, go_st_SetParams s p = Ok (s', tt)) \/
   (exists id, go_st_AddPoToRaisedQueue s id = Ok (s', tt)) \/
   (exists id, go_st_RemovePurchaseOrderFromRaisedQueue s id = Ok (s', tt)) \/
   (exists id, go_st_AddPoToAcceptedQueue s id = Ok (s', tt)) \/
   (exists id, go_st_RemovePurchaseOrderFromAcceptedQueue s id = Ok (s', tt)) \/
   (exists po, go_st_SetPurchaseOrder s po = Ok (s', tt)) \/
   (exists a, go_st_AddAddressToWhitelist s a = Ok (s', tt)) \/
   (exists a, go_st_RemoveAddressFromWhitelist s a = Ok (s', tt)) \/
   (exists c, go_st_SetTotalLockedUnd s c = Ok (s', tt)) \/
   (exists c, go_st_SetTotalSpentEFUND s c = Ok (s', tt)) \/
   (exists x, go_st_SetSpentEFUNDForAccount bech32 s x = Ok (s', tt)) \/
   (exists x, go_st_SetLockedUndForAccount bech32 s x = Ok (s', tt)) ->
   go_st_GetHighestPurchaseOrderID s' = go_st_GetHighestPurchaseOrderID s).
Proof. exact hl_isolation_params_counter. Qed.
Print Assumptions C18_store_enterprise_isolation_params_counter.

(* no writer of another kind changes a purchase-order reader (point, iteration, listing) *)
Theorem C18_store_enterprise_isolation_purchase_orders :
  forall (bech32 : go_addr -> outcome (list N)),
  forall (s s' : okv enterprise_val),
  ((exists p, go_st_SetParams s p = Ok (s', tt)) \/
   (exists id, go_st_SetHighestPurchaseOrderID s id = Ok (s', tt)) \/
   (exists id, go_st_AddPoToRaisedQueue s id = Ok (s', tt)) \/
   (exists id, go_st_RemovePurchaseOrderFromRaisedQueue s id = Ok (s', tt)) \/
   (exists id, go_st_AddPoToAcceptedQueue s id = Ok (s', tt)) \/
   (exists id, go_st_RemovePurchaseOrderFromAcceptedQueue s id = Ok (s', tt)) \/
   (exists a, go_st_AddAddressToWhitelist s a = Ok (s', tt)) \/
   (exists a, go_st_RemoveAddressFromWhitelist s a = Ok (s', tt)) \/
   (exists c, go_st_SetTotalLockedUnd s c = Ok (s', tt)) \/
   (exists c, go_st_SetTotalSpentEFUND s c = Ok (s', tt)) \/
   (exists x, go_st_SetSpentEFUNDForAccount bech32 s x = Ok (s', tt)) \/
   (exists x, go_st_SetLockedUndForAccount bech32 s x = Ok (s', tt)) ->
   (forall id, go_st_PurchaseOrderExists s' id = go_st_PurchaseOrderExists s id) /\
   (forall id, go_st_GetPurchaseOrder s' id = go_st_GetPurchaseOrder s id) /\
   (forall (St : Type) (cb : St -> go_EnterpriseUndPurchaseOrder -> outcome (St * bool)) (st : St),
      go_st_IteratePurchaseOrders s' cb st = go_st_IteratePurchaseOrders s cb st) /\
   go_st_GetAllPurchaseOrders s' = go_st_GetAllPurchaseOrders s).
Proof. exact hl_isolation_purchase_orders. Qed.
Print Assumptions C18_store_enterprise_isolation_purchase_orders.

(* no writer of another kind changes a reader of the raised / of the accepted queue (point, iteration, listing) *)
Theorem C18_store_enterprise_isolation_queues :
  forall (bech32 : go_addr -> outcome (list N)),
  forall (s s' : okv enterprise_val),
  ((exists p, go_st_SetParams s p = Ok (s', tt)) \/
   (exists id, go_st_SetHighestPurchaseOrderID s id = Ok (s', tt)) \/
   (exists id, go_st_AddPoToAcceptedQueue s id = Ok (s', tt)) \/
   (exists id, go_st_RemovePurchaseOrderFromAcceptedQueue s id = Ok (s', tt)) \/
   (exists po, go_st_SetPurchaseOrder s po = Ok (s', tt)) \/
   (exists a, go_st_AddAddressToWhitelist s a = Ok (s', tt)) \/
   (exists a, go_st_RemoveAddressFromWhitelist s a = Ok (s', tt)) \/
   (exists c, go_st_SetTotalLockedUnd s c = Ok (s', tt)) \/
   (exists c, go_st_SetTotalSpentEFUND s c = Ok (s', tt)) \/
   (exists x, go_st_SetSpentEFUNDForAccount bech32 s x = Ok (s', tt)) \/
   (exists x, go_st_SetLockedUndForAccount bech32 s x = Ok (s', tt)) ->
   (forall id, go_st_PurchaseOrderIsInRaisedQueue s' id = go_st_PurchaseOrderIsInRaisedQueue s id) /\
   (forall (St : Type) (cb : St -> Z -> outcome (St * bool)) (st : St),
      go_st_IterateRaisedQueue s' cb st = go_st_IterateRaisedQueue s cb st) /\
   go_st_GetAllRaisedPurchaseOrders s' = go_st_GetAllRaisedPurchaseOrders s) /\
  ((exists p, go_st_SetParams s p = Ok (s', tt)) \/
   (exists id, go_st_SetHighestPurchaseOrderID s id = Ok (s', tt)) \/
   (exists id, go_st_AddPoToRaisedQueue s id = Ok (s', tt)) \/
   (exists id, go_st_RemovePurchaseOrderFromRaisedQueue s id = Ok (s', tt)) \/
   (exists po, go_st_SetPurchaseOrder s po = Ok (s', tt)) \/
   (exists a, go_st_AddAddressToWhitelist s a = Ok (s', tt)) \/
   (exists a, go_st_RemoveAddressFromWhitelist s a = Ok (s', tt)) \/
   (exists c, go_st_SetTotalLockedUnd s c = Ok (s', tt)) \/
   (exists c, go_st_SetTotalSpentEFUND s c = Ok (s', tt)) \/
   (exists x, go_st_SetSpentEFUNDForAccount bech32 s x = Ok (s', tt)) \/
   (exists x, go_st_SetLockedUndForAccount bech32 s x = Ok (s', tt)) ->
   (forall id, go_st_PurchaseOrderIsInAcceptedQueue s' id = go_st_PurchaseOrderIsInAcceptedQueue s id) /\
   (forall (St : Type) (cb : St -> Z -> outcome (St * bool)) (st : St),
      go_st_IterateAcceptedQueue s' cb st = go_st_IterateAcceptedQueue s cb st) /\
   go_st_GetAllAcceptedPurchaseOrders s' = go_st_GetAllAcceptedPurchaseOrders s).
Proof. exact hl_isolation_queues. Qed.
Print Assumptions C18_store_enterprise_isolation_queues.

(* no writer of another kind changes a whitelist reader *)
Theorem C18_store_enterprise_isolation_whitelist :
  forall (bech32 : go_addr -> outcome (list N)) (addr_string : list N -> go_addr),
  forall (s s' : okv enterprise_val),
  ((exists p, go_st_SetParams s p = Ok (s', tt)) \/
   (exists id, go_st_SetHighestPurchaseOrderID s id = Ok (s', tt)) \/
   (exists id, go_st_AddPoToRaisedQueue s id = Ok (s', tt)) \/
   (exists id, go_st_RemovePurchaseOrderFromRaisedQueue s id = Ok (s', tt)) \/
   (exists id, go_st_AddPoToAcceptedQueue s id = Ok (s', tt)) \/
   (exists id, go_st_RemovePurchaseOrderFromAcceptedQueue s id = Ok (s', tt)) \/
   (exists po, go_st_SetPurchaseOrder s po = Ok (s', tt)) \/
   (exists c, go_st_SetTotalLockedUnd s c = Ok (s', tt)) \/
   (exists c, go_st_SetTotalSpentEFUND s c = Ok (s', tt)) \/
   (exists x, go_st_SetSpentEFUNDForAccount bech32 s x = Ok (s', tt)) \/
   (exists x, go_st_SetLockedUndForAccount bech32 s x = Ok (s', tt)) ->
   (forall a, go_st_AddressIsWhitelisted s' a = go_st_AddressIsWhitelisted s a) /\
   (forall (St : Type) (cb : St -> list N -> outcome (St * bool)) (st : St),
      go_st_IterateWhitelist s' cb st = go_st_IterateWhitelist s cb st) /\
   go_st_GetAllWhitelistedAddresses addr_string s' = go_st_GetAllWhitelistedAddresses addr_string s).
Proof. exact hl_isolation_whitelist. Qed.
Print Assumptions C18_store_enterprise_isolation_whitelist.

(* locked FUND: entries / listing depend on the locked cells only; the value readers also on the params cell *)
Theorem C18_store_enterprise_isolation_locked :
  forall (bech32 : go_addr -> outcome (list N)) (addr_string : list N -> go_addr),
  forall (s s' : okv enterprise_val),
  ((exists p, go_st_SetParams s p = Ok (s', tt)) \/
   (exists id, go_st_SetHighestPurchaseOrderID s id = Ok (s', tt)) \/
   (exists id, go_st_AddPoToRaisedQueue s id = Ok (s', tt)) \/
   (exists id, go_st_RemovePurchaseOrderFromRaisedQueue s id = Ok (s', tt)) \/
   (exists id, go_st_AddPoToAcceptedQueue s id = Ok (s', tt)) \/
   (exists id, go_st_RemovePurchaseOrderFromAcceptedQueue s id = Ok (s', tt)) \/
   (exists po, go_st_SetPurchaseOrder s po = Ok (s', tt)) \/
   (exists a, go_st_AddAddressToWhitelist s a = Ok (s', tt)) \/
   (exists a, go_st_RemoveAddressFromWhitelist s a = Ok (s', tt)) \/
   (exists c, go_st_SetTotalLockedUnd s c = Ok (s', tt)) \/
   (exists c, go_st_SetTotalSpentEFUND s c = Ok (s', tt)) \/
   (exists x, go_st_SetSpentEFUNDForAccount bech32 s x = Ok (s', tt)) ->
   (forall a, go_st_AccountHasLockedUnd s' a = go_st_AccountHasLockedUnd s a) /\
   go_st_GetAllLockedUndAccountsIterator s' = go_st_GetAllLockedUndAccountsIterator s /\
   go_st_GetAllLockedUnds s' = go_st_GetAllLockedUnds s) /\
  ((exists id, go_st_SetHighestPurchaseOrderID s id = Ok (s', tt)) \/
   (exists id, go_st_AddPoToRaisedQueue s id = Ok (s', tt)) \/
   (exists id, go_st_RemovePurchaseOrderFromRaisedQueue s id = Ok (s', tt)) \/
   (exists id, go_st_AddPoToAcceptedQueue s id = Ok (s', tt)) \/
   (exists id, go_st_RemovePurchaseOrderFromAcceptedQueue s id = Ok (s', tt)) \/
   (exists po, go_st_SetPurchaseOrder s po = Ok (s', tt)) \/
   (exists a, go_st_AddAddressToWhitelist s a = Ok (s', tt)) \/
   (exists a, go_st_RemoveAddressFromWhitelist s a = Ok (s', tt)) \/
   (exists c, go_st_SetTotalLockedUnd s c = Ok (s', tt)) \/
   (exists c, go_st_SetTotalSpentEFUND s c = Ok (s', tt)) \/
   (exists x, go_st_SetSpentEFUNDForAccount bech32 s x = Ok (s', tt)) ->
   (forall a, go_st_GetLockedUndForAccount addr_string s' a = go_st_GetLockedUndForAccount addr_string s a) /\
   (forall a, go_st_GetLockedUndAmountForAccount addr_string s' a = go_st_GetLockedUndAmountForAccount addr_string s a) /\
   (forall a, go_st_IsLocked addr_string s' a = go_st_IsLocked addr_string s a)).
Proof. exact hl_isolation_locked. Qed.
Print Assumptions C18_store_enterprise_isolation_locked.

(* spent eFUND: entries / listing depend on the spent cells only; the value readers also on the params cell *)
Theorem C18_store_enterprise_isolation_spent :
  forall (bech32 : go_addr -> outcome (list N)) (addr_string : list N -> go_addr),
  forall (s s' : okv enterprise_val),
  ((exists p, go_st_SetParams s p = Ok (s', tt)) \/
   (exists id, go_st_SetHighestPurchaseOrderID s id = Ok (s', tt)) \/
   (exists id, go_st_AddPoToRaisedQueue s id = Ok (s', tt)) \/
   (exists id, go_st_RemovePurchaseOrderFromRaisedQueue s id = Ok (s', tt)) \/
   (exists id, go_st_AddPoToAcceptedQueue s id = Ok (s', tt)) \/
   (exists id, go_st_RemovePurchaseOrderFromAcceptedQueue s id = Ok (s', tt)) \/
   (exists po, go_st_SetPurchaseOrder s po = Ok (s', tt)) \/
   (exists a, go_st_AddAddressToWhitelist s a = Ok (s', tt)) \/
   (exists a, go_st_RemoveAddressFromWhitelist s a = Ok (s', tt)) \/
   (exists c, go_st_SetTotalLockedUnd s c = Ok (s', tt)) \/
   (exists c, go_st_SetTotalSpentEFUND s c = Ok (s', tt)) \/
   (exists x, go_st_SetLockedUndForAccount bech32 s x = Ok (s', tt)) ->
   (forall a, go_st_AccountHasSpentEFUND s' a = go_st_AccountHasSpentEFUND s a) /\
   go_st_GetAllSpentEFUNDAccountsIterator s' = go_st_GetAllSpentEFUNDAccountsIterator s /\
   go_st_GetAllSpentEFUNDs s' = go_st_GetAllSpentEFUNDs s) /\
  ((exists id, go_st_SetHighestPurchaseOrderID s id = Ok (s', tt)) \/
   (exists id, go_st_AddPoToRaisedQueue s id = Ok (s', tt)) \/
   (exists id, go_st_RemovePurchaseOrderFromRaisedQueue s id = Ok (s', tt)) \/
   (exists id, go_st_AddPoToAcceptedQueue s id = Ok (s', tt)) \/
   (exists id, go_st_RemovePurchaseOrderFromAcceptedQueue s id = Ok (s', tt)) \/
   (exists po, go_st_SetPurchaseOrder s po = Ok (s', tt)) \/
   (exists a, go_st_AddAddressToWhitelist s a = Ok (s', tt)) \/
   (exists a, go_st_RemoveAddressFromWhitelist s a = Ok (s', tt)) \/
   (exists c, go_st_SetTotalLockedUnd s c = Ok (s', tt)) \/
   (exists c, go_st_SetTotalSpentEFUND s c = Ok (s', tt)) \/
   (exists x, go_st_SetLockedUndForAccount bech32 s x = Ok (s', tt)) ->
   (forall a, go_st_GetSpentEFUNDForAccount addr_string s' a = go_st_GetSpentEFUNDForAccount addr_string s a) /\
   (forall a, go_st_GetSpentEFUNDAmountForAccount addr_string s' a = go_st_GetSpentEFUNDAmountForAccount addr_string s a)).
Proof. exact hl_isolation_spent. Qed.
Print Assumptions C18_store_enterprise_isolation_spent.

(* the two totals depend on their own cell and the params cell only *)
Theorem C18_store_enterprise_isolation_totals :
  forall (bech32 : go_addr -> outcome (list N)),
  forall (s s' : okv enterprise_val),
  ((exists id, go_st_SetHighestPurchaseOrderID s id = Ok (s', tt)) \/
   (exists id, go_st_AddPoToRaisedQueue s id = Ok (s', tt)) \/
   (exists id, go_st_RemovePurchaseOrderFromRaisedQueue s id = Ok (s', tt)) \/
   (exists id, go_st_AddPoToAcceptedQueue s id = Ok (s', tt)) \/
   (exists id, go_st_RemovePurchaseOrderFromAcceptedQueue s id = Ok (s', tt)) \/
   (exists po, go_st_SetPurchaseOrder s po = Ok (s', tt)) \/
   (exists a, go_st_AddAddressToWhitelist s a = Ok (s', tt)) \/
   (exists a, go_st_RemoveAddressFromWhitelist s a = Ok (s', tt)) \/
   (exists c, go_st_SetTotalSpentEFUND s c = Ok (s', tt)) \/
   (exists x, go_st_SetSpentEFUNDForAccount bech32 s x = Ok (s', tt)) \/
   (exists x, go_st_SetLockedUndForAccount bech32 s x = Ok (s', tt)) ->
   go_st_GetTotalLockedUnd s' = go_st_GetTotalLockedUnd s) /\
  ((exists id, go_st_SetHighestPurchaseOrderID s id = Ok (s', tt)) \/
   (exists id, go_st_AddPoToRaisedQueue s id = Ok (s', tt)) \/
   (exists id, go_st_RemovePurchaseOrderFromRaisedQueue s id = Ok (s', tt)) \/
   (exists id, go_st_AddPoToAcceptedQueue s id = Ok (s', tt)) \/
   (exists id, go_st_RemovePurchaseOrderFromAcceptedQueue s id = Ok (s', tt)) \/
   (exists po, go_st_SetPurchaseOrder s po = Ok (s', tt)) \/
   (exists a, go_st_AddAddressToWhitelist s a = Ok (s', tt)) \/
   (exists a, go_st_RemoveAddressFromWhitelist s a = Ok (s', tt)) \/
   (exists c, go_st_SetTotalLockedUnd s c = Ok (s', tt)) \/
   (exists x, go_st_SetSpentEFUNDForAccount bech32 s x = Ok (s', tt)) \/
   (exists x, go_st_SetLockedUndForAccount bech32 s x = Ok (s', tt)) ->
   go_st_GetTotalSpentEFUND s' = go_st_GetTotalSpentEFUND s).
Proof. exact hl_isolation_totals. Qed.
Print Assumptions C18_store_enterprise_isolation_totals.

(* the queue listings: the queued ids, each once, in ascending NUMERIC order (BeginBlock's processing order); listed iff the point query says so *)
Theorem C18_store_enterprise_listing_queues :
  forall (bech32 : go_addr -> outcome (list N)),
  forall (s : okv enterprise_val), okv_sorted s = true -> ent_wf bech32 s ->
  (exists ids, go_st_GetAllRaisedPurchaseOrders s = Ok ids /\
     StronglySorted Z.lt ids /\ NoDup ids /\
     (forall id, In id ids -> 0 <= id < 2 ^ 64) /\
     (forall id, 0 <= id < 2 ^ 64 -> (In id ids <-> go_st_PurchaseOrderIsInRaisedQueue s id = Ok true))) /\
  (exists ids, go_st_GetAllAcceptedPurchaseOrders s = Ok ids /\
     StronglySorted Z.lt ids /\ NoDup ids /\
     (forall id, In id ids -> 0 <= id < 2 ^ 64) /\
     (forall id, 0 <= id < 2 ^ 64 -> (In id ids <-> go_st_PurchaseOrderIsInAcceptedQueue s id = Ok true))).
Proof. exact hl_listing_queues. Qed.
Print Assumptions C18_store_enterprise_listing_queues.

(* GetAllPurchaseOrders: every stored order, ascending by id; listed iff GetPurchaseOrder finds it; an order is stored under its own id *)
Theorem C18_store_enterprise_listing_purchase_orders :
  forall (bech32 : go_addr -> outcome (list N)),
  forall (s : okv enterprise_val), okv_sorted s = true -> ent_wf bech32 s ->
  (exists l, go_st_GetAllPurchaseOrders s = Ok l /\
     StronglySorted (fun a b => EnterpriseUndPurchaseOrder_Id a < EnterpriseUndPurchaseOrder_Id b) l /\
     (forall po, In po l -> 0 <= EnterpriseUndPurchaseOrder_Id po < 2 ^ 64) /\
     (forall po, In po l <-> go_st_GetPurchaseOrder s (EnterpriseUndPurchaseOrder_Id po) = Ok (po, true))) /\
  (forall id po, 0 <= id < 2 ^ 64 -> go_st_GetPurchaseOrder s id = Ok (po, true) -> EnterpriseUndPurchaseOrder_Id po = id).
Proof. exact hl_listing_purchase_orders. Qed.
Print Assumptions C18_store_enterprise_listing_purchase_orders.

(* GetAllWhitelistedAddresses: the strings of the whitelisted addresses, each address once, ascending byte order; listed iff AddressIsWhitelisted *)
Theorem C18_store_enterprise_listing_whitelist :
  forall (bech32 : go_addr -> outcome (list N)) (addr_string : list N -> go_addr),
  forall (s : okv enterprise_val), okv_sorted s = true -> ent_wf bech32 s ->
  exists l, go_st_GetAllWhitelistedAddresses addr_string s = Ok (map addr_string l) /\
    StronglySorted (fun a b => lex_lt a b = true) l /\
    NoDup l /\
    (forall a, In a l <-> go_st_AddressIsWhitelisted s a = Ok true) /\
    ((forall a b, In a l -> In b l -> addr_string a = addr_string b -> a = b) -> NoDup (map addr_string l)).
Proof. exact hl_listing_whitelist. Qed.
Print Assumptions C18_store_enterprise_listing_whitelist.

(* GetAllLockedUnds / GetAllSpentEFUNDs: every stored record, each owner once, ascending byte order of the decoded owners; listed iff the point queries find it *)
Theorem C18_store_enterprise_listing_accounts :
  forall (bech32 : go_addr -> outcome (list N)) (addr_string : list N -> go_addr),
  forall (s : okv enterprise_val), okv_sorted s = true -> ent_wf bech32 s ->
  (exists l, go_st_GetAllLockedUnds s = Ok l /\
     StronglySorted (fun x y => owner_lt bech32 (LockedUnd_Owner x) (LockedUnd_Owner y)) l /\
     NoDup (map LockedUnd_Owner l) /\
     (forall x, In x l <-> exists b, bech32 (LockedUnd_Owner x) = Ok b /\ go_st_AccountHasLockedUnd s b = Ok true /\
                                     go_st_GetLockedUndForAccount addr_string s b = Ok x) /\
     (forall b, go_st_AccountHasLockedUnd s b = Ok true ->
        exists x, go_st_GetLockedUndForAccount addr_string s b = Ok x /\ bech32 (LockedUnd_Owner x) = Ok b /\ In x l)) /\
  (exists l, go_st_GetAllSpentEFUNDs s = Ok l /\
     StronglySorted (fun x y => owner_lt bech32 (SpentEFUND_Owner x) (SpentEFUND_Owner y)) l /\
     NoDup (map SpentEFUND_Owner l) /\
     (forall x, In x l <-> exists b, bech32 (SpentEFUND_Owner x) = Ok b /\ go_st_AccountHasSpentEFUND s b = Ok true /\
                                     go_st_GetSpentEFUNDForAccount addr_string s b = Ok x) /\
     (forall b, go_st_AccountHasSpentEFUND s b = Ok true ->
        exists x, go_st_GetSpentEFUNDForAccount addr_string s b = Ok x /\ bech32 (SpentEFUND_Owner x) = Ok b /\ In x l)).
Proof. exact hl_listing_accounts. Qed.
Print Assumptions C18_store_enterprise_listing_accounts.

(* with the round trip bech32 (addr_string b) = Ok b, the record read for b is owned by b, and read-modify-write lands in the cell it was read from *)
Theorem C18_store_enterprise_record_owner :
  forall (bech32 : go_addr -> outcome (list N)) (addr_string : list N -> go_addr),
  forall (s : okv enterprise_val) (b : list N), ent_wf bech32 s -> bech32 (addr_string b) = Ok b ->
  (forall x, go_st_GetLockedUndForAccount addr_string s b = Ok x -> bech32 (LockedUnd_Owner x) = Ok b) /\
  (forall x, go_st_GetSpentEFUNDForAccount addr_string s b = Ok x -> bech32 (SpentEFUND_Owner x) = Ok b) /\
  (forall x c, go_st_GetLockedUndForAccount addr_string s b = Ok x -> 0 <= snd c ->
     exists s', go_st_SetLockedUndForAccount bech32 s (mk_go_LockedUnd (LockedUnd_Owner x) c) = Ok (s', tt) /\
                go_st_GetLockedUndForAccount addr_string s' b = Ok (mk_go_LockedUnd (LockedUnd_Owner x) c) /\
                go_st_GetLockedUndAmountForAccount addr_string s' b = Ok c).
Proof. exact hl_record_owner. Qed.
Print Assumptions C18_store_enterprise_record_owner.
