(* C14: block begin, block end and commit complete without panicking; a transaction whose checks
   or any of whose messages fail - by error or by panic - leaves all module state exactly as it
   was apart from the fee and sequence effects of the pre-execution stage, and multi-message
   transactions apply all of their messages or none.
   (BeginBlock totality needs the enterprise invariant and is stated with the enterprise proofs.) *)
From MC Require Import lib.Prelude lib.AMap model.Bank model.Stream model.Registry model.Enterprise
  model.App model.AppSpec.
From MC Require Import proofs.AppFrame.
Local Open Scope Z_scope.

(* ---- 1: a failed transaction keeps exactly the effects of the ante stage ---- *)
Theorem C14_failed_tx_atomic : forall a t a' r,
  deliver_tx a t = (a', r) ->
  match r with
  | TxOk => True
  | TxRejected _ => a' = a
  | TxPanicked 0 _ => a' = a
  | TxPanicked 1 _ => a' = a
  | TxFailed _ => ante false a t = Ok a'
  | TxPanicked _ _ => ante false a t = Ok a'
  end.
Proof. exact failed_tx_atomic. Qed.
Print Assumptions C14_failed_tx_atomic.

(* ---- 2: the ante stage touches only fees and (for registry txs) the locked / spent books ---- *)
Theorem C14_ante_touches_only_fees_and_unlock : forall check a t a1,
  ante check a t = Ok a1 ->
  a_wrk a1 = a_wrk a /\ a_bcn a1 = a_bcn a /\ a_str a1 = a_str a /\
  a_grants a1 = a_grants a /\ a_allow a1 = a_allow a /\ a_now a1 = a_now a /\
  e_params (a_ent a1) = e_params (a_ent a) /\ e_pos (a_ent a1) = e_pos (a_ent a) /\
  e_next (a_ent a1) = e_next (a_ent a) /\ e_raisedq (a_ent a1) = e_raisedq (a_ent a) /\
  e_acceptedq (a_ent a1) = e_acceptedq (a_ent a) /\ e_wl (a_ent a1) = e_wl (a_ent a) /\
  (is_registry_tx t = false ->
     a_ent a1 = a_ent a /\
     forall x d, x <> tx_payer t -> (forall g, tx_granter t = Some g -> x <> g) -> x <> FEE_COLLECTOR ->
                 balance (a_bank a1) x d = balance (a_bank a) x d).
Proof. exact ante_frame. Qed.
Print Assumptions C14_ante_touches_only_fees_and_unlock.

(* 1 and 2 combined: whatever went wrong - error or panic, in the checks or in a message - the module
   state is as it was, apart from the locked / spent books moved by a registry transaction's fee unlock *)
Theorem C14_failed_tx_module_state : forall a t a' r,
  deliver_tx a t = (a', r) -> r <> TxOk ->
  a_wrk a' = a_wrk a /\ a_bcn a' = a_bcn a /\ a_str a' = a_str a /\
  a_grants a' = a_grants a /\ a_allow a' = a_allow a /\ a_now a' = a_now a /\
  (e_params (a_ent a'), e_next (a_ent a'), e_pos (a_ent a'), e_raisedq (a_ent a'), e_acceptedq (a_ent a'),
   e_wl (a_ent a')) =
  (e_params (a_ent a), e_next (a_ent a), e_pos (a_ent a), e_raisedq (a_ent a), e_acceptedq (a_ent a),
   e_wl (a_ent a)) /\
  (is_registry_tx t = false -> module_state a' = module_state a).
Proof. exact failed_tx_module_state. Qed.
Print Assumptions C14_failed_tx_module_state.

(* ---- 3: all messages or none ---- *)
Theorem C14_all_or_nothing : forall a t a1,
  ante false a t = Ok a1 -> validate_all t = Ok tt ->
  (exists a2, exec_all a1 t = Ok a2 /\ deliver_tx a t = (a2, TxOk)) \/
  (exists c, deliver_tx a t = (a1, TxFailed c) \/ exists st, deliver_tx a t = (a1, TxPanicked st c)).
Proof. exact all_or_nothing. Qed.
Print Assumptions C14_all_or_nothing.

(* if the k-th message (k = length pre) fails after the first k succeeded, the whole execution fails
   with that error / panic: nothing of the prefix is kept *)
Theorem C14_exec_all_prefix : forall a t pre m post ak,
  tx_msgs t = pre ++ m :: post ->
  fold_left (fun acc m => do a1 <- acc; exec_msg (tx_fuel t) a1 m) pre (Ok a) = Ok ak ->
  (forall c, exec_msg (tx_fuel t) ak m = Err c -> exec_all a t = Err c) /\
  (forall c, exec_msg (tx_fuel t) ak m = Panic c -> exec_all a t = Panic c).
Proof. exact exec_all_prefix. Qed.
Print Assumptions C14_exec_all_prefix.

Theorem C14_exec_all_prefix_deliver : forall a t a1 pre m post ak,
  validate_all t = Ok tt -> ante false a t = Ok a1 ->
  tx_msgs t = pre ++ m :: post ->
  fold_left (fun acc m => do a1 <- acc; exec_msg (tx_fuel t) a1 m) pre (Ok a1) = Ok ak ->
  (forall c, exec_msg (tx_fuel t) ak m = Err c -> deliver_tx a t = (a1, TxFailed c)) /\
  (forall c, exec_msg (tx_fuel t) ak m = Panic c -> deliver_tx a t = (a1, TxPanicked 2 c)).
Proof. exact exec_all_prefix_deliver. Qed.
Print Assumptions C14_exec_all_prefix_deliver.

(* ---- 4: CheckTx runs the ante chain only ---- *)
Theorem C14_check_tx_never_executes : forall a t a' r,
  check_tx a t = (a', r) ->
  (r = TxOk -> ante true a t = Ok a') /\ (r <> TxOk -> a' = a).
Proof. exact check_tx_never_executes. Qed.
Print Assumptions C14_check_tx_never_executes.

(* ---- 5: EndBlock is total and each proposal is atomic ---- *)
Theorem C14_end_block_total : forall a ps, exists a', end_block a ps = a'.
Proof. exact end_block_total. Qed.
Print Assumptions C14_end_block_total.

Theorem C14_end_block_cons : forall a p ps, end_block a (p :: ps) = end_block (exec_proposal a p) ps.
Proof. exact end_block_cons. Qed.
Print Assumptions C14_end_block_cons.

Theorem C14_proposal_atomic : forall a ms,
  exec_proposal a ms = a \/
  (exists a', fold_left (fun acc m => do a1 <- acc; exec_msg (S (S (msg_depth m))) a1 m) ms (Ok a) = Ok a' /\
              exec_proposal a ms = a').
Proof. exact proposal_atomic. Qed.
Print Assumptions C14_proposal_atomic.

(* ---- the hypotheses are satisfiable: a small concrete application state ---- *)
Example ex_rp : reg_params :=
  {| rp_fee_register := 1000; rp_fee_record := 1; rp_fee_purchase := 5; rp_denom := NUND;
     rp_default_limit := 100; rp_max_limit := 1000 |}.
Example ex_reg : reg_state :=
  {| r_params := ex_rp; r_next := 1; r_regs := []; r_limits := []; r_recs := [] |}.
Example ex_app : app :=
  {| a_bank := {| bal := [((1, NUND), 10000); ((2, NUND), 50)]; supply := [(NUND, 10050)] |};
     a_ent := {| e_params := {| ep_denom := NUND; ep_min_accepts := 1; ep_time_limit := 100; ep_signers := [7] |};
                 e_next := 1; e_pos := []; e_raisedq := []; e_acceptedq := []; e_wl := [1];
                 e_locked := []; e_spent := []; e_totlocked := None; e_totspent := None |};
     a_wrk := ex_reg; a_bcn := ex_reg;
     a_str := {| s_valfee := 10000000000000000; s_streams := [] |};
     a_grants := []; a_allow := []; a_now := 1700000000 * NS |}.

(* two messages: the transfer succeeds, the record submission (unknown WRKChain 99) fails *)
Example ex_tx_fail : tx :=
  {| tx_msgs := [MSend 1 2 [(NUND, 5)]; MWrk (RRecord 1 99 1 ["h"%string])];
     tx_fee := [(NUND, 1)]; tx_granter := None; tx_sig_ok := true |}.

Example ex_fail_is_failed :
  snd (deliver_tx ex_app ex_tx_fail) = TxFailed ERR_REG_UNKNOWN /\
  ante false ex_app ex_tx_fail = Ok (fst (deliver_tx ex_app ex_tx_fail)) /\
  validate_all ex_tx_fail = Ok tt /\
  (* the transfer of the first message did not survive; only the fee moved *)
  balance (a_bank (fst (deliver_tx ex_app ex_tx_fail))) 2 NUND = 50 /\
  balance (a_bank (fst (deliver_tx ex_app ex_tx_fail))) 1 NUND = 9999 /\
  balance (a_bank (fst (deliver_tx ex_app ex_tx_fail))) FEE_COLLECTOR NUND = 1.
Proof. vm_compute. repeat split; reflexivity. Qed.

Example ex_tx_ok : tx :=
  {| tx_msgs := [MSend 1 2 [(NUND, 5)]; MWrk (RRegister 1 "m" "n" "g" "t")];
     tx_fee := [(NUND, 1000)]; tx_granter := None; tx_sig_ok := true |}.

Example ex_ok_all_applied :
  snd (deliver_tx ex_app ex_tx_ok) = TxOk /\ snd (check_tx ex_app ex_tx_ok) = TxOk /\
  balance (a_bank (fst (deliver_tx ex_app ex_tx_ok))) 2 NUND = 55 /\
  ahas 1 (r_regs (a_wrk (fst (deliver_tx ex_app ex_tx_ok)))) = true /\
  a_wrk (fst (check_tx ex_app ex_tx_ok)) = a_wrk ex_app.
Proof. vm_compute. repeat split; reflexivity. Qed.

(* a proposal whose second message is invalid changes nothing *)
Example ex_proposal_atomic :
  exec_proposal ex_app [MUpdParams GOV_MACC (UStr 5); MUpdParams GOV_MACC (UStr (-1))] = ex_app /\
  s_valfee (a_str (exec_proposal ex_app [MUpdParams GOV_MACC (UStr 5)])) = 5.
Proof. vm_compute. split; reflexivity. Qed.
