(* C05, link to the source for the fee decorators: the generated funds check of x/wrkchain/ante and x/beacon/ante counts the liquid balance plus the locked eFUND of the FEE PAYER, and the generated x/enterprise AnteHandle touches locked eFUND only for a registry transaction's fee payer.

   1. checkFeePayerHasFunds of x/{wrkchain,beacon}/ante/ante.go, as generated on every run (GeneratedWrkchainAnte.v,
      GeneratedBeaconAnte.v) against the primitives of model/AnteWorld.v, is the model's [payer_has_funds] (model/App.v):
      it reads the balances and the locked amount of [tx_payer t] = FeePayer() = the first signer of the first message, of
      nobody else (proofs/Generated{Wrkchain,Beacon}AnteHandleEq.v over proofs/GeneratedAnteCommon.v).
      Hypotheses: bank_wf b (one table entry per (account, denomination)), bank_nonneg b, the payer's locked amount is not
      negative (all three follow from app_inv), the fee names each denomination once (tx_wf).  When the fee does not name
      the module's denomination (possible only where the fee check did not run before: DeliverTx) both sides panic with
      the same code (SafeSub of the zero-value Coin that Find returns).
   2. CheckLockedUndDecorator.AnteHandle of x/enterprise/ante/ante.go, as generated on every run
      (GeneratedEnterpriseAnte.v; primitives: model/EnterpriseKeeperPrims.v, model/EnterpriseAntePrims.v), run on the sdk.Tx
      [ent_gotx_of t] (model/EnterpriseAnteGenSpec.v), is the decorator [go_unlock_ante] that calls the generated
      UnlockCoinsForFees (proofs/GeneratedEnterpriseEq.v; props/C05generatedent.v) - without any hypothesis - hence the
      model's [unlock_ante] under app_inv and for a valid fee (proofs/GeneratedEnterpriseAnteEq.v).  It leaves the state
      alone unless the transaction has a top-level WRKChain / BEACON message and its fee payer has locked eFUND, and then
      unlocks one amount u (0 or min(fee, locked)) of that payer (props/C05.v: C05_unlock_rule's [unlocked_by]).
   (The generated files define the same names: every generated name is qualified.) *)
From Coq Require Import ZArith Lia List String Bool.
From MC Require Import lib.Prelude lib.AMap lib.GoSdk model.Bank model.Registry model.Enterprise model.App model.AppSpec
  model.GeneratedApp.
From MC Require model.AnteWorld GeneratedWrkchainAnte GeneratedBeaconAnte GeneratedEnterpriseAnte model.WrkchainAnteGenSpec
  model.BeaconAnteGenSpec model.EnterpriseAnteGenSpec model.EnterpriseKeeperPrims model.EnterpriseAntePrims
  GeneratedEnterpriseTypes GeneratedEnterpriseKeeper.
From MC Require Import proofs.BankProofs proofs.EnterpriseProofs proofs.AppFeeProofs proofs.AppInv proofs.AppLockedProofs
  proofs.GeneratedAnteCommon proofs.GeneratedAppEq proofs.GeneratedAnteHandleEq.
From MC Require proofs.GeneratedWrkchainAnteHandleEq proofs.GeneratedBeaconAnteHandleEq proofs.GeneratedEnterpriseAnteEq
  proofs.GeneratedEnterpriseEq.
Import ListNotations.
Local Open Scope Z_scope.

(* ================================================================================================ *)
(* the funds check of x/wrkchain/ante                                                                  *)
(* ================================================================================================ *)

Theorem C05_generated_ante_wrk_funds_check_is_model : forall now check b e rs t,
  bank_wf b -> bank_nonneg b -> 0 <= snd (locked_coin e (tx_payer t)) -> NoDup (map fst (tx_fee t)) ->
  GeneratedWrkchainAnte.go_checkFeePayerHasFunds (AnteWorld.mk_aworld now check b e rs) (WrkchainAnteGenSpec.gotx_of t) = payer_has_funds rs b e t.
Proof. exact GeneratedWrkchainAnteHandleEq.gen_wrk_ante_funds_eq. Qed.
Print Assumptions C05_generated_ante_wrk_funds_check_is_model.

(* accepted exactly when liquid + locked (if locked in the fee coin's denomination) of the fee payer cover the fee coin *)
Theorem C05_generated_ante_wrk_funds_counts_liquid_and_locked : forall now check b e rs t fee,
  bank_wf b -> bank_nonneg b -> 0 <= snd (locked_coin e (tx_payer t)) -> NoDup (map fst (tx_fee t)) ->
  coins_valid (tx_fee t) = true -> fee_find (tx_fee t) (rp_denom (r_params rs)) = Some fee ->
  (GeneratedWrkchainAnte.go_checkFeePayerHasFunds (AnteWorld.mk_aworld now check b e rs) (WrkchainAnteGenSpec.gotx_of t) = Ok tt <->
   snd fee <= balance b (tx_payer t) (fst fee) +
              (if fst (locked_coin e (tx_payer t)) =? fst fee then snd (locked_coin e (tx_payer t)) else 0)).
Proof. exact GeneratedWrkchainAnteHandleEq.gen_wrk_ante_funds_iff. Qed.
Print Assumptions C05_generated_ante_wrk_funds_counts_liquid_and_locked.

Theorem C05_generated_ante_wrk_funds_short : forall now check b e rs t fee,
  bank_wf b -> bank_nonneg b -> 0 <= snd (locked_coin e (tx_payer t)) -> NoDup (map fst (tx_fee t)) ->
  coins_valid (tx_fee t) = true -> fee_find (tx_fee t) (rp_denom (r_params rs)) = Some fee ->
  balance b (tx_payer t) (fst fee) +
    (if fst (locked_coin e (tx_payer t)) =? fst fee then snd (locked_coin e (tx_payer t)) else 0) < snd fee ->
  GeneratedWrkchainAnte.go_checkFeePayerHasFunds (AnteWorld.mk_aworld now check b e rs) (WrkchainAnteGenSpec.gotx_of t) = Err ERR_FEE_FUNDS.
Proof. exact GeneratedWrkchainAnteHandleEq.gen_wrk_ante_funds_short. Qed.
Print Assumptions C05_generated_ante_wrk_funds_short.

(* the fee does not name the module's denomination: the same panic on both sides *)
Theorem C05_generated_ante_wrk_funds_missing_denom : forall now check b e rs t,
  0 <= snd (locked_coin e (tx_payer t)) -> NoDup (map fst (tx_fee t)) -> coins_valid (tx_fee t) = true ->
  fee_find (tx_fee t) (rp_denom (r_params rs)) = None ->
  GeneratedWrkchainAnte.go_checkFeePayerHasFunds (AnteWorld.mk_aworld now check b e rs) (WrkchainAnteGenSpec.gotx_of t) = Panic GO_PANIC_NILCOIN /\
  payer_has_funds rs b e t = Panic PANIC_NILCOIN /\ GO_PANIC_NILCOIN = PANIC_NILCOIN.
Proof. exact GeneratedWrkchainAnteHandleEq.gen_wrk_ante_funds_missing_denom. Qed.
Print Assumptions C05_generated_ante_wrk_funds_missing_denom.

(* ================================================================================================ *)
(* the funds check of x/beacon/ante                                                                  *)
(* ================================================================================================ *)

Theorem C05_generated_ante_bcn_funds_check_is_model : forall now check b e rs t,
  bank_wf b -> bank_nonneg b -> 0 <= snd (locked_coin e (tx_payer t)) -> NoDup (map fst (tx_fee t)) ->
  GeneratedBeaconAnte.go_checkFeePayerHasFunds (AnteWorld.mk_aworld now check b e rs) (BeaconAnteGenSpec.gotx_of t) = payer_has_funds rs b e t.
Proof. exact GeneratedBeaconAnteHandleEq.gen_bcn_ante_funds_eq. Qed.
Print Assumptions C05_generated_ante_bcn_funds_check_is_model.

(* accepted exactly when liquid + locked (if locked in the fee coin's denomination) of the fee payer cover the fee coin *)
Theorem C05_generated_ante_bcn_funds_counts_liquid_and_locked : forall now check b e rs t fee,
  bank_wf b -> bank_nonneg b -> 0 <= snd (locked_coin e (tx_payer t)) -> NoDup (map fst (tx_fee t)) ->
  coins_valid (tx_fee t) = true -> fee_find (tx_fee t) (rp_denom (r_params rs)) = Some fee ->
  (GeneratedBeaconAnte.go_checkFeePayerHasFunds (AnteWorld.mk_aworld now check b e rs) (BeaconAnteGenSpec.gotx_of t) = Ok tt <->
   snd fee <= balance b (tx_payer t) (fst fee) +
              (if fst (locked_coin e (tx_payer t)) =? fst fee then snd (locked_coin e (tx_payer t)) else 0)).
Proof. exact GeneratedBeaconAnteHandleEq.gen_bcn_ante_funds_iff. Qed.
Print Assumptions C05_generated_ante_bcn_funds_counts_liquid_and_locked.

Theorem C05_generated_ante_bcn_funds_short : forall now check b e rs t fee,
  bank_wf b -> bank_nonneg b -> 0 <= snd (locked_coin e (tx_payer t)) -> NoDup (map fst (tx_fee t)) ->
  coins_valid (tx_fee t) = true -> fee_find (tx_fee t) (rp_denom (r_params rs)) = Some fee ->
  balance b (tx_payer t) (fst fee) +
    (if fst (locked_coin e (tx_payer t)) =? fst fee then snd (locked_coin e (tx_payer t)) else 0) < snd fee ->
  GeneratedBeaconAnte.go_checkFeePayerHasFunds (AnteWorld.mk_aworld now check b e rs) (BeaconAnteGenSpec.gotx_of t) = Err ERR_FEE_FUNDS.
Proof. exact GeneratedBeaconAnteHandleEq.gen_bcn_ante_funds_short. Qed.
Print Assumptions C05_generated_ante_bcn_funds_short.

(* the fee does not name the module's denomination: the same panic on both sides *)
Theorem C05_generated_ante_bcn_funds_missing_denom : forall now check b e rs t,
  0 <= snd (locked_coin e (tx_payer t)) -> NoDup (map fst (tx_fee t)) -> coins_valid (tx_fee t) = true ->
  fee_find (tx_fee t) (rp_denom (r_params rs)) = None ->
  GeneratedBeaconAnte.go_checkFeePayerHasFunds (AnteWorld.mk_aworld now check b e rs) (BeaconAnteGenSpec.gotx_of t) = Panic GO_PANIC_NILCOIN /\
  payer_has_funds rs b e t = Panic PANIC_NILCOIN /\ GO_PANIC_NILCOIN = PANIC_NILCOIN.
Proof. exact GeneratedBeaconAnteHandleEq.gen_bcn_ante_funds_missing_denom. Qed.
Print Assumptions C05_generated_ante_bcn_funds_missing_denom.

(* ================================================================================================ *)
(* the hypotheses of the funds check cannot be dropped ([funds_go] = the function of both generated   *)
(* files with the fee payer and the fee given directly: proofs/GeneratedAnteCommon.v)                 *)
(* ================================================================================================ *)

Theorem C05_generated_ante_funds_go_is_wrk : forall w tx,
  GeneratedWrkchainAnte.go_checkFeePayerHasFunds w tx =
  funds_go w (GeneratedWrkchainTypes.Tx_FeePayer tx) (GeneratedWrkchainTypes.Tx_Fee tx).
Proof. exact GeneratedWrkchainAnteHandleEq.gen_wrk_ante_funds_unfold. Qed.
Print Assumptions C05_generated_ante_funds_go_is_wrk.

Theorem C05_generated_ante_funds_go_is_bcn : forall w tx,
  GeneratedBeaconAnte.go_checkFeePayerHasFunds w tx =
  funds_go w (GeneratedBeaconTypes.Tx_FeePayer tx) (GeneratedBeaconTypes.Tx_Fee tx).
Proof. exact GeneratedBeaconAnteHandleEq.gen_bcn_ante_funds_unfold. Qed.
Print Assumptions C05_generated_ante_funds_go_is_bcn.

Example C05_generated_ante_funds_dup_denom_refuted :
  let t := fx_tx [(NUND, 5); (NUND, 5)] in
  coins_valid (tx_fee t) = true /\ ~ NoDup (map fst (tx_fee t)) /\
  funds_go (AnteWorld.mk_aworld 0 true (fx_bank 100) (fx_ent 0) fx_rs) (tx_payer t) (tx_fee t) = Err AnteWorld.sdkerrors_ErrInvalidCoins /\
  payer_has_funds fx_rs (fx_bank 100) (fx_ent 0) t = Ok tt.
Proof. exact funds_go_dup_denom_refuted. Qed.
Print Assumptions C05_generated_ante_funds_dup_denom_refuted.

Example C05_generated_ante_funds_negative_locked_refuted :
  let t := fx_tx [(NUND, 5)] in
  funds_go (AnteWorld.mk_aworld 0 true (fx_bank 100) (fx_ent (-1)) fx_rs) (tx_payer t) (tx_fee t) = Panic GO_PANIC_COINS /\
  payer_has_funds fx_rs (fx_bank 100) (fx_ent (-1)) t = Ok tt.
Proof. exact funds_go_negative_locked_refuted. Qed.
Print Assumptions C05_generated_ante_funds_negative_locked_refuted.

Example C05_generated_ante_funds_negative_balance_refuted :
  let t := fx_tx [(NUND, 5)] in
  funds_go (AnteWorld.mk_aworld 0 true (fx_bank (-3)) (fx_ent 6) fx_rs) (tx_payer t) (tx_fee t) = Ok tt /\
  payer_has_funds fx_rs (fx_bank (-3)) (fx_ent 6) t = Err ERR_FEE_FUNDS.
Proof. exact funds_go_negative_balance_refuted. Qed.
Print Assumptions C05_generated_ante_funds_negative_balance_refuted.

Example C05_generated_ante_funds_dup_key_refuted :
  let b := {| bal := [((1, NUND), 3); ((1, NUND), 1)]; supply := [] |} in
  let t := fx_tx [(NUND, 2)] in
  funds_go (AnteWorld.mk_aworld 0 true b (fx_ent 0) fx_rs) (tx_payer t) (tx_fee t) = Err AnteWorld.sdkerrors_ErrInsufficientFunds /\
  payer_has_funds fx_rs b (fx_ent 0) t = Ok tt.
Proof. exact funds_go_dup_key_refuted. Qed.
Print Assumptions C05_generated_ante_funds_dup_key_refuted.

(* ================================================================================================ *)
(* the generated x/enterprise AnteHandle                                                             *)
(* ================================================================================================ *)

(* its two foreign predicates together: "some top-level WRKChain or BEACON message" *)
Theorem C05_generated_ante_ent_is_registry_tx : forall t,
  (EnterpriseAntePrims.wrkchain_CheckIsWrkChainTx (EnterpriseAnteGenSpec.ent_gotx_of t) ||
   EnterpriseAntePrims.beacon_CheckIsBeaconTx (EnterpriseAnteGenSpec.ent_gotx_of t))%bool = is_registry_tx t.
Proof. exact GeneratedEnterpriseAnteEq.ent_ante_is_registry_tx. Qed.
Print Assumptions C05_generated_ante_ent_is_registry_tx.

(* the generated AnteHandle: its guard around the generated UnlockCoinsForFees *)
Theorem C05_generated_ante_ent_AnteHandle_unfold : forall w t,
  GeneratedEnterpriseAnte.go_AnteHandle w (EnterpriseAnteGenSpec.ent_gotx_of t) false =
  if (is_registry_tx t && (0 <? snd (locked_coin (EnterpriseKeeperPrims.ew_ent w) (tx_payer t))))%bool
  then do (w', _) <- GeneratedEnterpriseKeeper.go_UnlockCoinsForFees w (tx_payer t) (tx_fee t); Ok (w', tt)
  else Ok (w, tt).
Proof. exact GeneratedEnterpriseAnteEq.gen_ent_AnteHandle_unfold. Qed.
Print Assumptions C05_generated_ante_ent_AnteHandle_unfold.

(* locked eFUND is touched only for a registry transaction whose fee payer has some *)
Theorem C05_generated_ante_ent_untouched : forall w t,
  is_registry_tx t = false \/ snd (locked_coin (EnterpriseKeeperPrims.ew_ent w) (tx_payer t)) <= 0 ->
  GeneratedEnterpriseAnte.go_AnteHandle w (EnterpriseAnteGenSpec.ent_gotx_of t) false = Ok (w, tt).
Proof. exact GeneratedEnterpriseAnteEq.gen_ent_AnteHandle_untouched. Qed.
Print Assumptions C05_generated_ante_ent_untouched.

(* in the application: the generated decorator is the hand-sequenced one, without any hypothesis ... *)
Theorem C05_generated_ante_ent_is_glue : forall a t,
  go_unlock_ante_full a t = GeneratedEnterpriseEq.go_unlock_ante a t.
Proof. exact gen_unlock_ante_full_eq. Qed.
Print Assumptions C05_generated_ante_ent_is_glue.

(* ... hence the model's, under the application invariant and for a valid fee *)
Theorem C05_generated_ante_ent_is_model : forall a t,
  app_inv a -> coins_valid (tx_fee t) = true -> go_unlock_ante_full a t = unlock_ante a t.
Proof. exact gen_unlock_ante_full_model. Qed.
Print Assumptions C05_generated_ante_ent_is_model.

Theorem C05_generated_ante_ent_app_untouched : forall a t,
  is_registry_tx t = false \/ snd (locked_coin (a_ent a) (tx_payer t)) <= 0 -> go_unlock_ante_full a t = Ok a.
Proof. exact gen_unlock_ante_full_untouched. Qed.
Print Assumptions C05_generated_ante_ent_app_untouched.

(* what it unlocks is one amount u, 0 or min(fee, locked), taken from the FEE PAYER's locked entry and the escrow and
   booked as spent (unlocked_by: proofs/AppLockedProofs.v, behind props/C05.v C05_unlock_rule) *)
Theorem C05_generated_ante_ent_unlock_rule : forall a t au,
  go_unlock_ante_full a t = Ok au -> app_inv a -> 0 <= tx_payer t -> coins_valid (tx_fee t) = true ->
  NoDup (map fst (tx_fee t)) -> exists u, unlocked_by a au t u.
Proof. exact gen_unlock_ante_full_rule. Qed.
Print Assumptions C05_generated_ante_ent_unlock_rule.
